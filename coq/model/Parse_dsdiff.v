(* Model.Parse_dsdiff -- exception-faithful mirror of what DSDIFF.load (mutagen/dsdiff.py over mutagen/_iff.py) does
   with the caller's stream, except the parsing of the ID3 tag itself:
     _DSDIFFID3 (IffID3)._pre_load_header   DSDIFFFile(fileobj)['ID3'].data_offset, seek there;
                                            `except (InvalidChunk, KeyError): raise ID3NoHeaderError` (load: tags = None)
     fileobj.seek(0, 0); DSDIFFInfo(fileobj)
        DSDIFFFile, iff['PROP'] (KeyError -> error), `prop_chunk.name == 'SND '`: the loop over PROP's subchunks
        (FS with data_size == 4, CHNL with data_size >= 2, CMPR with data_size >= 4: IffChunk.read with
        OverflowError -> InvalidChunk, short data -> InvalidChunk, struct.unpack, decode('ascii').rstrip()),
        compression 'DSD': iff['DSD'] and the divisions; compression 'DST': iff['DST'], dst_frame['FRTE'],
        FRTE read + '>LH' + the two guarded divisions
   with
     DSDIFFChunk.parse          IffChunk.parse with HEADER_SIZE = 12 and '>4sQ' (64-bit sizes); get_class:
                                'FRM8' / 'PROP' -> DSDIFFListChunk (init_container(4)), 'DST' -> DSTChunk
                                (init_container(0): no name, nothing read)
     subchunks()                the walk; with 64-bit sizes next_offset can pass 2^63: seek raises OverflowError: break
   A container's subchunk list is cached once non-empty, and every later look-up in this code happens after a
   successful one on the same container, so each container is walked once here.
   Conventions as in Model.Parse_aiff (whose chunk-id helpers are reused): EmptyChunk / InvalidChunk from a parse
   is `Ok None`, KeyError of __getitem__ is `None` of dff_find, ID3NoHeaderError is `Ok (-1)`; a plain error is
   Raise EMutagen.  Definitions only. *)
From Coq Require Import ZArith List Bool.
Import ListNotations.
Require Import Base.Py Model.Parse_base Model.Parse_aiff.
Open Scope Z_scope.

Definition dff_FRM8 := [70;82;77;56].
Definition dff_PROP := [80;82;79;80].
Definition dff_DST  := [68;83;84].           (* 'DST ' after rstrip *)
Definition dff_DSD  := [68;83;68].
Definition dff_SND_ := [83;78;68;32].        (* the container name 'SND ' (not stripped) *)
Definition dff_FS   := [70;83].
Definition dff_CHNL := [67;72;78;76].
Definition dff_CMPR := [67;77;80;82].
Definition dff_FRTE := [70;82;84;69].
Definition dff_ID3  := [73;68;51].

(* (id after rstrip, data_size, data_offset, container name or []); offset = data_offset - 12,
   size = 12 + data_size + data_size % 2 *)
Definition dff_chunk := (list Z * Z * Z * list Z)%type.
Definition dff_id (c : dff_chunk) : list Z := fst (fst (fst c)).
Definition dff_dsize (c : dff_chunk) : Z := snd (fst (fst c)).
Definition dff_doff (c : dff_chunk) : Z := snd (fst c).
Definition dff_name (c : dff_chunk) : list Z := snd c.
Definition dff_size (c : dff_chunk) : Z := 12 + dff_dsize c + dff_dsize c mod 2.
Definition dff_end (c : dff_chunk) : Z := (dff_doff c - 12) + dff_size c.

(* DSDIFFChunk.parse(fileobj, parent): None = EmptyChunk / InvalidChunk *)
Definition dff_parse : P (option dff_chunk) :=
  header <~ p_read 12 ;;
  if zlen header <? 12 then pret None
  else if negb (zlen header =? 12) then praise EStruct                         (* struct.unpack('>4sQ', header) *)
  else
    let id := zslice 0 4 header in
    let data_size := be_decode (zslice 4 12 header) in
    if negb (iff_ascii id) then pret None                                      (* UnicodeDecodeError -> InvalidChunk *)
    else
      let id := iff_rstrip id in
      if negb (iff_valid_id id) then pret None
      else
        data_offset <~ p_tell ;;
        let size := 12 + data_size + data_size mod 2 in
        if negb (size mod 2 =? 0) then praise EAssert
        else if list_eqb id dff_FRM8 || list_eqb id dff_PROP then
          (* DSDIFFListChunk.__init__ -> init_container() *)
          if data_size <? 4 then pret None
          else
            name <~ p_read 4 ;;
            if negb (iff_ascii name) then praise EMutagen                      (* UnicodeDecodeError -> error *)
            else pret (Some (id, data_size, data_offset, name))
        else if list_eqb id dff_DST then
          (* DSTChunk.__init__ -> init_container(name_size=0) *)
          if data_size <? 0 then pret None else pret (Some (id, data_size, data_offset, []))
        else pret (Some (id, data_size, data_offset, [])).

Fixpoint dff_subchunks (fuel : nat) (next_offset end_ : Z) : P (list dff_chunk) :=
  match fuel with
  | O => praise EOutOfFuel
  | S fuel' =>
    if negb (next_offset <? end_) then pret []
    else
      sought <~ pcatch (p_seek next_offset 0 ;;~ pret true) is_eoverflow (fun _ => pret false) ;;
      if negb sought then pret []
      else
        c <~ dff_parse ;;
        match c with
        | None => pret []
        | Some ch =>
            rest <~ dff_subchunks fuel' (dff_end ch) end_ ;;
            pret (ch :: rest)
        end
  end.
(* container.subchunks(): name_size is 4 for FRM8 / PROP, 0 for DST *)
Definition dff_walk (fuel : nat) (c : dff_chunk) : P (list dff_chunk) :=
  dff_subchunks fuel (dff_doff c + (if list_eqb (dff_id c) dff_DST then 0 else 4)) (dff_end c).

Fixpoint dff_find (id : list Z) (l : list dff_chunk) : option dff_chunk :=
  match l with
  | [] => None
  | c :: t => if list_eqb (dff_id c) id then Some c else dff_find id t
  end.

(* DSDIFFFile(fileobj): None = InvalidChunk / EmptyChunk *)
Definition dff_file : P (option dff_chunk) :=
  p_seek 0 0 ;;~
  root <~ dff_parse ;;
  match root with
  | None => pret None
  | Some ch => if negb (list_eqb (dff_id ch) dff_FRM8) then pret None else pret (Some ch)
  end.

(* IffChunk.read *)
Definition dff_read (c : dff_chunk) : P (list Z) :=
  p_seek (dff_doff c) 0 ;;~
  pcatch (p_read (dff_dsize c)) is_eoverflow (fun _ => praise EMutagen).

(* data = chunk.read(); if len(data) < n: raise InvalidChunk; struct.unpack(fmt, data[:n]) -> the n bytes *)
Definition dff_read_n (c : dff_chunk) (n : Z) : P (list Z) :=
  data <~ dff_read c ;;
  if zlen data <? n then praise EMutagen
  else let s := zslice 0 n data in if negb (zlen s =? n) then praise EStruct else pret s.

(* the loop over prop_chunk.subchunks(): (sample_rate, channels, compression) *)
Definition dff_prop := (Z * Z * option (list Z))%type.
Fixpoint dff_prop_loop (l : list dff_chunk) (st : dff_prop) : P dff_prop :=
  match l with
  | [] => pret st
  | c :: t =>
      let '(sample_rate, channels, compression) := st in
      st' <~ (if list_eqb (dff_id c) dff_FS && (dff_dsize c =? 4) then
                s <~ dff_read_n c 4 ;; pret (be_decode s, channels, compression)
              else if list_eqb (dff_id c) dff_CHNL && (2 <=? dff_dsize c) then
                s <~ dff_read_n c 2 ;; pret (sample_rate, be_decode s, compression)
              else if list_eqb (dff_id c) dff_CMPR && (4 <=? dff_dsize c) then
                s <~ dff_read_n c 4 ;;
                if negb (iff_ascii s) then praise EMutagen                     (* UnicodeDecodeError -> InvalidChunk *)
                else pret (sample_rate, channels, Some (iff_rstrip s))
              else pret st) ;;
      dff_prop_loop t st'
  end.

(* DSDIFFInfo.__init__: [channels; sample_rate; kind; a; b; c] ++ [has_compression] ++ compression
     kind 1 ('DSD'): a = DSD chunk data_size        (sample_count = a * 8 / (channels or 1); length = sample_count /
                                                     float(sample_rate) if sample_rate != 0; bitrate = channels * sample_rate)
     kind 2 ('DST'): a = 1 if FRTE.data_size >= 6 (b = frame_count, c = frame_rate, d = DST.data_size - FRTE.size) else 0
     kind 0: anything else *)
Definition dff_info (fuel : nat) : P (list Z) :=
  pconvert_io (
    f <~ dff_file ;;
    match f with
    | None => praise EMutagen                                                  (* InvalidChunk, uncaught *)
    | Some root =>
        subs <~ dff_walk fuel root ;;
        match dff_find dff_PROP subs with
        | None => praise EMutagen                                              (* except KeyError: raise error *)
        | Some prop =>
            ' (sample_rate, channels, compression) <~
              (if list_eqb (dff_name prop) dff_SND_ then
                 psubs <~ dff_walk fuel prop ;; dff_prop_loop psubs (0, 0, None)
               else pret (0, 0, None)) ;;
            if sample_rate <? 0 then praise EMutagen
            else
              let comp := match compression with Some s => 1 :: s | None => [0] end in
              let is c := match compression with Some s => list_eqb s c | None => false end in
              if is dff_DSD then
                match dff_find dff_DSD subs with
                | None => praise EMutagen
                | Some dsd =>
                    let den := if channels =? 0 then 1 else channels in       (* self.channels or 1 *)
                    if den =? 0 then praise EZeroDiv
                    else
                      (if negb (sample_rate =? 0) then (if sample_rate =? 0 then praise EZeroDiv else pret tt) else pret tt) ;;~
                      pret ([channels; sample_rate; 1; dff_dsize dsd; 0; 0; 0] ++ comp)
                end
              else if is dff_DST then
                match dff_find dff_DST subs with
                | None => praise EMutagen
                | Some dst =>
                    dsubs <~ dff_walk fuel dst ;;
                    match dff_find dff_FRTE dsubs with
                    | None => praise EMutagen
                    | Some frte =>
                        if 6 <=? dff_dsize frte then
                          s <~ dff_read_n frte 6 ;;
                          let frame_count := be_decode (zslice 0 4 s) in
                          let frame_rate := be_decode (zslice 4 6 s) in
                          (if negb (frame_rate =? 0) then (if frame_rate =? 0 then praise EZeroDiv else pret tt) else pret tt) ;;~
                          (if negb (frame_count =? 0) then (if frame_count =? 0 then praise EZeroDiv else pret tt) else pret tt) ;;~
                          pret ([channels; sample_rate; 2; 1; frame_count; frame_rate; dff_dsize dst - dff_size frte] ++ comp)
                        else pret ([channels; sample_rate; 2; 0; 0; 0; 0] ++ comp)
                    end
                end
              else pret ([channels; sample_rate; 0; 0; 0; 0; 0] ++ comp)
        end
    end).

(* IffID3._pre_load_header: -1 = ID3NoHeaderError, else the stream is left at the ID3 chunk's data *)
Definition dff_pre_load_header (fuel : nat) : P Z :=
  f <~ dff_file ;;
  match f with
  | None => pret (-1)
  | Some root =>
      subs <~ dff_walk fuel root ;;
      match dff_find dff_ID3 subs with
      | None => pret (-1)
      | Some c => p_seek (dff_doff c) 0 ;;~ pret (dff_doff c)
      end
  end.

(* DSDIFF.load without the ID3 parse: [ID3 data offset | -1] ++ info *)
Definition dff_init (fuel : nat) : P (list Z) :=
  pconvert_io (
    loc <~ dff_pre_load_header fuel ;;
    p_seek 0 0 ;;~
    info <~ dff_info fuel ;;
    pret (loc :: info)).
Definition dsdiff_load (d : list Z) : result (list Z) := prun (dff_init (lin_fuel 1 1 d)) d.

Definition dsdiff_id (l : list Z) : list Z := l.
(* EXTRACT: dsdiff_load dsdiff_id *)
