(* Model.Id3Conv: hand model of mutagen's ID3 version conversion (property C13).
   DEFINITIONS ONLY.  Mirrors, statement by statement,
     mutagen/id3/_tags.py   ID3Tags.__update_common / update_to_v23 / update_to_v24, save_frame (size field)
     mutagen/id3/_frames.py Frame._get_v23_frame (via the specs' _validate23), TCON.genres
     mutagen/id3/_specs.py  EncodingSpec._validate23, MultiSpec._validate23, ID3FramesSpec._validate23,
                            ID3TimeStamp.set_text / get_text
     mutagen/id3/_file.py   ID3._prepare_data (10-byte header)
     mutagen/id3/_id3v1.py  MakeID3v1, ParseID3v1
   on an abstract frame representation: Python str = list of code points (list Z), bytes = list Z,
   an ID3Tags object = the list of its frames in dict order, every frame stored under its HashKey
   (what ID3Tags.add / loading guarantees).  Tied to /repo by the correspondence of
   harness/props/c13.py through the extracted binary (ocaml/drv_c13.ml).

   Not modelled (the harness never generates them): non-ASCII decimal digits in int() / isdecimal(),
   frames stored under a key different from their HashKey, people records that are not pairs. *)
From Coq Require Import ZArith List Bool.
Import ListNotations.
Require Import Base.Py Model.Id3Util.
Open Scope Z_scope.

Definition text := list Z.

(* ------------------------------------------------------------------------------------------ *)
(* string constants (code points)                                                              *)
Definition s_TCON : text := [84;67;79;78].
Definition s_PNG : text := [80;78;71].
Definition s_JPG : text := [74;80;71].
Definition s_TIPL : text := [84;73;80;76].
Definition s_TMCL : text := [84;77;67;76].
Definition s_IPLS : text := [73;80;76;83].
Definition s_TDOR : text := [84;68;79;82].
Definition s_TORY : text := [84;79;82;89].
Definition s_TDRC : text := [84;68;82;67].
Definition s_TYER : text := [84;89;69;82].
Definition s_TDAT : text := [84;68;65;84].
Definition s_TIME : text := [84;73;77;69].
Definition s_TIT2 : text := [84;73;84;50].
Definition s_TPE1 : text := [84;80;69;49].
Definition s_TALB : text := [84;65;76;66].
Definition s_TRCK : text := [84;82;67;75].
Definition s_COMM : text := [67;79;77;77].
Definition s_RVAD : text := [82;86;65;68].
Definition s_EQUA : text := [69;81;85;65].
Definition s_TRDA : text := [84;82;68;65].
Definition s_TSIZ : text := [84;83;73;90].
Definition s_ASPI : text := [65;83;80;73].
Definition s_EQU2 : text := [69;81;85;50].
Definition s_RVA2 : text := [82;86;65;50].
Definition s_SEEK : text := [83;69;69;75].
Definition s_SIGN : text := [83;73;71;78].
Definition s_TDEN : text := [84;68;69;78].
Definition s_TDRL : text := [84;68;82;76].
Definition s_TDTG : text := [84;68;84;71].
Definition s_TMOO : text := [84;77;79;79].
Definition s_TPRO : text := [84;80;82;79].
Definition s_TSOA : text := [84;83;79;65].
Definition s_TSOP : text := [84;83;79;80].
Definition s_TSOT : text := [84;83;79;84].
Definition s_TSST : text := [84;83;83;84].
Definition s_TAG : text := [84;65;71].
Definition s_CR : text := [67;82].
Definition s_RX : text := [82;88].
Definition s_Cover : text := [67;111;118;101;114].
Definition s_Remix : text := [82;101;109;105;120].
Definition s_Unknown : text := [85;110;107;110;111;119;110].
Definition s_eng : text := [101;110;103].
Definition s_image_png : text := [105;109;97;103;101;47;112;110;103].
Definition s_image_jpeg : text := [105;109;97;103;101;47;106;112;101;103].
Definition s_COMM_ : text := [67;79;77;77;58].
Definition s_TXXX_ : text := [84;88;88;88;58].
Definition s_APIC_ : text := [65;80;73;67;58].
Definition s_CHAP_ : text := [67;72;65;80;58].
Definition s_CTOC_ : text := [67;84;79;67;58].
Definition s_v1comm_key : text := [67;79;77;77;58;73;68;51;118;49;32;67;111;109;109;101;110;116;58;101;110;103].
Definition s_v1comm_desc : text := [73;68;51;118;49;32;67;111;109;109;101;110;116].

(* ------------------------------------------------------------------------------------------ *)
(* int(str) for ASCII input, decimal formatting                                                 *)

(* Py_UNICODE_ISSPACE: what str.isspace() and the regex class \s treat as white space *)
Definition conv_is_space (c : Z) : bool :=
  ((9 <=? c) && (c <=? 13)) || ((28 <=? c) && (c <=? 32)) || (c =? 0x85) || (c =? 0xA0) || (c =? 0x1680)
  || ((0x2000 <=? c) && (c <=? 0x200A)) || (c =? 0x2028) || (c =? 0x2029) || (c =? 0x202F)
  || (c =? 0x205F) || (c =? 0x3000).
(* white space skipped by int(str): ASCII characters are tested with the C isspace (no 0x1c..0x1f),
   the others with Py_UNICODE_ISSPACE *)
Definition conv_is_int_space (c : Z) : bool := conv_is_space c && negb ((28 <=? c) && (c <=? 31)).
Definition conv_is_digit (c : Z) : bool := (48 <=? c) && (c <=? 57).
Definition conv_all_digits (l : text) : bool := forallb conv_is_digit l.

Fixpoint conv_lstrip (l : text) : text :=
  match l with
  | [] => []
  | c :: r => if conv_is_int_space c then conv_lstrip r else l
  end.
Definition conv_strip (l : text) : text := rev (conv_lstrip (rev (conv_lstrip l))).

(* digits, single underscores allowed between two digits *)
Fixpoint conv_int_digits (l : text) (acc : Z) (prev_digit : bool) : option Z :=
  match l with
  | [] => if prev_digit then Some acc else None
  | c :: r =>
    if conv_is_digit c then conv_int_digits r (acc * 10 + (c - 48)) true
    else if (c =? 95) && prev_digit then conv_int_digits r acc false
    else None
  end.

(* int(s): None stands for ValueError *)
Definition conv_py_int (s : text) : option Z :=
  match conv_strip s with
  | [] => None
  | c :: r =>
    if c =? 43 then conv_int_digits r 0 false
    else if c =? 45 then option_map Z.opp (conv_int_digits r 0 false)
    else conv_int_digits (c :: r) 0 false
  end.

(* str(n) for n >= 0 *)
Fixpoint conv_dec_fuel (fuel : nat) (n : Z) : text :=
  match fuel with
  | O => []
  | S k => if n <? 10 then [48 + n] else conv_dec_fuel k (n / 10) ++ [48 + n mod 10]
  end.
Definition conv_dec (n : Z) : text := conv_dec_fuel (S (Z.to_nat (Z.log2 n))) n.
(* '%0<w>d' % n *)
Definition conv_fmt (w n : Z) : text :=
  if n <? 0 then let d := conv_dec (- n) in 45 :: repeat 48 (Z.to_nat (w - 1 - zlen d)) ++ d
  else let d := conv_dec n in repeat 48 (Z.to_nat (w - zlen d)) ++ d.

(* ------------------------------------------------------------------------------------------ *)
(* class ID3TimeStamp: the object stores six optional ints; `text` is derived                   *)

Record conv_stamp := mkStamp {
  st_year : option Z; st_month : option Z; st_day : option Z;
  st_hour : option Z; st_minute : option Z; st_second : option Z }.

Definition conv_is_sepchar (c : Z) : bool :=
  (c =? 45) || (c =? 84) || (c =? 58) || (c =? 47) || (c =? 46).          (* [-T:/.] *)

(* re.compile('[-T:/.]|\\s+').split(l): one separator per punctuation character, one per maximal run
   of white space; prev_space = the previous character belongs to a \s+ match still being extended *)
Fixpoint conv_resplit (prev_space : bool) (l : text) : list text :=
  match l with
  | [] => [[]]
  | c :: r =>
    if conv_is_sepchar c then [] :: conv_resplit false r
    else if conv_is_space c then
      if prev_space then conv_resplit true r else [] :: conv_resplit true r
    else match conv_resplit false r with
         | [] => [[c]]
         | p :: ps => (c :: p) :: ps
         end
  end.

(*  year, month, day, hour, minute, second = splitre.split(text + ':::::')[:6]
    for a in ...: try: v = int(locals()[a])  except ValueError: v = None                          *)
Definition conv_stamp_parse (s : text) : conv_stamp :=
  let p := conv_resplit false (s ++ [58;58;58;58;58]) in
  mkStamp (conv_py_int (nth 0 p [])) (conv_py_int (nth 1 p [])) (conv_py_int (nth 2 p []))
          (conv_py_int (nth 3 p [])) (conv_py_int (nth 4 p [])) (conv_py_int (nth 5 p [])).

(*  for i, part in enumerate(parts):
        if part is None: break
        pieces.append(self.__formats[i] % part + self.__seps[i])
    return u''.join(pieces)[:-1]                                                                  *)
Fixpoint conv_stamp_pieces (ws seps : list Z) (parts : list (option Z)) : text :=
  match parts, ws, seps with
  | Some v :: ps, w :: ws', s :: seps' => conv_fmt w v ++ s :: conv_stamp_pieces ws' seps' ps
  | _, _, _ => []
  end.
Definition conv_stamp_text (d : conv_stamp) : text :=
  removelast (conv_stamp_pieces [4;2;2;2;2;2] [45;45;32;58;58;120]
     [st_year d; st_month d; st_day d; st_hour d; st_minute d; st_second d]).

(* `d.year and ...`: None and 0 are both false *)
Definition conv_oz (o : option Z) : Z := match o with Some v => v | None => 0 end.
Definition conv_truthy (o : option Z) : bool := negb (conv_oz o =? 0).

(* ------------------------------------------------------------------------------------------ *)
(* frames                                                                                        *)

Inductive frame :=
| FText (id : text) (enc : Z) (vals : list text)               (* TextFrame / Numeric(Part)TextFrame classes *)
| FStamp (id : text) (enc : Z) (vals : list conv_stamp)        (* TimeStampTextFrame: TDRC TDOR TDRL TDEN TDTG *)
| FTxxx (enc : Z) (desc : text) (vals : list text)
| FComm (enc : Z) (lang : text) (desc : text) (vals : list text)
| FPeople (id : text) (enc : Z) (people : list (text * text))  (* PairedTextFrame: TIPL TMCL IPLS *)
| FApic (enc : Z) (mime : text) (ptype : Z) (desc : text) (data : list Z)
| FChap (eid : text) (t0 t1 o0 o1 : Z) (sub : list frame)
| FCtoc (eid : text) (flags : Z) (children : list text) (sub : list frame)
| FOther (id : text) (key : text) (data : list Z).             (* any frame without text encoding; opaque *)

Definition tag := list frame.

(* Frame.HashKey *)
Definition conv_key (f : frame) : text :=
  match f with
  | FText id _ _ => id
  | FStamp id _ _ => id
  | FTxxx _ d _ => s_TXXX_ ++ d
  | FComm _ lang d _ => s_COMM_ ++ d ++ 58 :: lang
  | FPeople id _ _ => id
  | FApic _ _ _ d _ => s_APIC_ ++ d
  | FChap e _ _ _ _ _ => s_CHAP_ ++ e
  | FCtoc e _ _ _ => s_CTOC_ ++ e
  | FOther _ k _ => k
  end.

Definition conv_enc_of (f : frame) : Z :=
  match f with
  | FText _ e _ | FStamp _ e _ | FTxxx e _ _ | FComm e _ _ _ | FPeople _ e _ | FApic e _ _ _ _ => e
  | _ => 1
  end.
Definition conv_texts_of (f : frame) : list text :=
  match f with FText _ _ v | FTxxx _ _ v | FComm _ _ _ v => v | _ => [] end.
Definition conv_stamps_of (f : frame) : list conv_stamp :=
  match f with FStamp _ _ v => v | _ => [] end.
Definition conv_people_of (f : frame) : list (text * text) :=
  match f with FPeople _ _ p => p | _ => [] end.

(* the dict: `k in self`, self[k], del self[k] / self.pop(k), self[f.HashKey] = f (what add() does) *)
Definition conv_keyeq (k : text) (f : frame) : bool := list_eqb (conv_key f) k.
Definition conv_has (k : text) (t : tag) : bool := existsb (conv_keyeq k) t.
Definition conv_get (k : text) (t : tag) : option frame := find (conv_keyeq k) t.
Definition conv_del (k : text) (t : tag) : tag := filter (fun f => negb (conv_keyeq k f)) t.
Definition conv_set (f : frame) (t : tag) : tag :=
  if conv_has (conv_key f) t then map (fun g => if conv_keyeq (conv_key f) g then f else g) t
  else t ++ [f].
(* `if c and k not in self: self.add(f)` *)
Definition conv_add_if (c : bool) (f : frame) (t : tag) : tag :=
  if c && negb (conv_has (conv_key f) t) then conv_set f t else t.

(* ------------------------------------------------------------------------------------------ *)
(* TCON.genres (getter), G = mutagen._constants.GENRES                                           *)

Fixpoint conv_takewhile (p : Z -> bool) (l : text) : text :=
  match l with [] => [] | c :: r => if p c then c :: conv_takewhile p r else [] end.
Fixpoint conv_dropwhile (p : Z -> bool) (l : text) : text :=
  match l with [] => [] | c :: r => if p c then conv_dropwhile p r else l end.
Definition conv_digits_val (l : text) : Z := fold_left (fun acc c => acc * 10 + (c - 48)) l 0.
Definition conv_in (x : text) (l : list text) : bool := existsb (list_eqb x) l.

(* one parenthesised group  LPAR ([0-9]+ | RX | CR) RPAR  of genre_re at the head of l *)
Definition conv_genre_group (l : text) : option (text * text) :=
  match l with
  | 40 :: r =>
    match conv_takewhile conv_is_digit r with
    | _ :: _ => match conv_dropwhile conv_is_digit r with
                | 41 :: r' => Some (conv_takewhile conv_is_digit r, r')
                | _ => None
                end
    | [] => match r with
            | 82 :: 88 :: 41 :: r' => Some (s_RX, r')
            | 67 :: 82 :: 41 :: r' => Some (s_CR, r')
            | _ => None
            end
    end
  | _ => None
  end.
(* group 1 of genre_re: the maximal run of such groups; returns the ids and the rest *)
Fixpoint conv_genre_ids (fuel : nat) (l : text) : list text * text :=
  match fuel with
  | O => ([], l)
  | S k => match conv_genre_group l with
           | Some (g, r) => let (gs, r') := conv_genre_ids k r in (g :: gs, r')
           | None => ([], l)
           end
  end.
Definition conv_gid_name (G : list text) (gid : text) : text :=
  if conv_all_digits gid then
    (if conv_digits_val gid <? zlen G then nth (Z.to_nat (conv_digits_val gid)) G [] else s_Unknown)
  else if list_eqb gid s_CR then s_Cover
  else if list_eqb gid s_RX then s_Remix
  else s_Unknown.
Definition conv_genre_value (G : list text) (value : text) : list text :=
  match value with
  | [] => []
  | _ :: _ =>
    if conv_all_digits value && (conv_digits_val value <? 256) then
      [if conv_digits_val value <? zlen G then nth (Z.to_nat (conv_digits_val value)) G [] else s_Unknown]
    else if list_eqb value s_CR then [s_Cover]
    else if list_eqb value s_RX then [s_Remix]
    else
      let (ids, rest) := conv_genre_ids (length value) value in
      let newgenres := map (conv_gid_name G) ids in
      match conv_takewhile (fun c => negb (c =? 10)) rest with       (* the optional group `str`: .+ *)
      | [] => newgenres
      | c :: name' =>
        let name := match c :: name' with
                    | 40 :: 40 :: r => 40 :: r                        (* startswith two LPAR *)
                    | n => n
                    end in
        if conv_in name newgenres then newgenres else newgenres ++ [name]
      end
  end.
Definition conv_genres (G : list text) (vals : list text) : list text := flat_map (conv_genre_value G) vals.

(* ------------------------------------------------------------------------------------------ *)
(* ID3Tags.__update_common                                                                       *)
Definition conv_common_frame (G : list text) (f : frame) : frame :=
  match f with
  | FText id enc vals => if list_eqb id s_TCON then FText id enc (conv_genres G vals) else f
  | FApic enc mime pt d data =>
    if list_eqb mime s_PNG then FApic enc s_image_png pt d data
    else if list_eqb mime s_JPG then FApic enc s_image_jpeg pt d data
    else f
  | _ => f
  end.
Definition conv_common (G : list text) (t : tag) : tag := map (conv_common_frame G) t.

(* ------------------------------------------------------------------------------------------ *)
(* ID3Tags.update_to_v23 (one level; the recursion into CHAP/CTOC follows)                       *)

(*  if "TIPL" in self or "TMCL" in self:
        people = []
        if "TIPL" in self: f = self.pop("TIPL"); people.extend(f.people)
        if "TMCL" in self: f = self.pop("TMCL"); people.extend(f.people)
        if "IPLS" not in self: self.add(IPLS(encoding=f.encoding, people=people))                *)
Definition conv_opt_people (o : option frame) := match o with Some f => conv_people_of f | None => [] end.
Definition conv_people23 (t : tag) : tag :=
  if conv_has s_TIPL t || conv_has s_TMCL t then
    let people := conv_opt_people (conv_get s_TIPL t) ++ conv_opt_people (conv_get s_TMCL t) in
    let enc := match conv_get s_TMCL t with
               | Some f => conv_enc_of f
               | None => match conv_get s_TIPL t with Some f => conv_enc_of f | None => 1 end
               end in
    let t2 := conv_del s_TMCL (conv_del s_TIPL t) in
    conv_add_if true (FPeople s_IPLS enc people) t2
  else t.

(*  if "TDOR" in self:
        f = self.pop("TDOR")
        if f.text:
            d = f.text[0]
            if d.year and "TORY" not in self: self.add(TORY(encoding=f.encoding, text="%04d" % d.year)) *)
Definition conv_tdor23 (t : tag) : tag :=
  match conv_get s_TDOR t with
  | None => t
  | Some f =>
    let t1 := conv_del s_TDOR t in
    match conv_stamps_of f with
    | [] => t1
    | d :: _ => conv_add_if (conv_truthy (st_year d))
                  (FText s_TORY (conv_enc_of f) [conv_fmt 4 (conv_oz (st_year d))]) t1
    end
  end.

(*  if "TDRC" in self:
        f = self.pop("TDRC")
        if f.text:
            d = f.text[0]
            if d.year and "TYER" not in self: self.add(TYER(encoding=f.encoding, text="%04d" % d.year))
            if d.month and d.day and "TDAT" not in self:
                self.add(TDAT(encoding=f.encoding, text="%02d%02d" % (d.day, d.month)))
            if d.hour and d.minute and "TIME" not in self:
                self.add(TIME(encoding=f.encoding, text="%02d%02d" % (d.hour, d.minute)))       *)
Definition conv_tdrc23 (t : tag) : tag :=
  match conv_get s_TDRC t with
  | None => t
  | Some f =>
    let t1 := conv_del s_TDRC t in
    match conv_stamps_of f with
    | [] => t1
    | d :: _ =>
      let e := conv_enc_of f in
      let t2 := conv_add_if (conv_truthy (st_year d))
                  (FText s_TYER e [conv_fmt 4 (conv_oz (st_year d))]) t1 in
      let t3 := conv_add_if (conv_truthy (st_month d) && conv_truthy (st_day d))
                  (FText s_TDAT e [conv_fmt 2 (conv_oz (st_day d)) ++ conv_fmt 2 (conv_oz (st_month d))]) t2 in
      conv_add_if (conv_truthy (st_hour d) && conv_truthy (st_minute d))
                  (FText s_TIME e [conv_fmt 2 (conv_oz (st_hour d)) ++ conv_fmt 2 (conv_oz (st_minute d))]) t3
    end
  end.

(*  for key in v24_frames: if key in self: del self[key]                                         *)
Definition conv_v24_only : list text :=
  [s_ASPI; s_EQU2; s_RVA2; s_SEEK; s_SIGN; s_TDEN; s_TDOR; s_TDRC; s_TDRL; s_TDTG; s_TIPL; s_TMCL;
   s_TMOO; s_TPRO; s_TSOA; s_TSOP; s_TSOT; s_TSST].
Definition conv_del_all (ks : list text) (t : tag) : tag := fold_left (fun acc k => conv_del k acc) ks t.

Definition conv_top23 (G : list text) (t : tag) : tag :=
  conv_del_all conv_v24_only (conv_tdrc23 (conv_tdor23 (conv_people23 (conv_common G t)))).

(* the top-level steps never look inside a CHAP/CTOC frame and never remove one, so converting the
   sub-frames first and the level itself afterwards is the Python order "level, then getall('CHAP')" *)
Fixpoint conv_rec23 (G : list text) (f : frame) : frame :=
  match f with
  | FChap e a b c d sub => FChap e a b c d (conv_top23 G (map (conv_rec23 G) sub))
  | FCtoc e fl ch sub => FCtoc e fl ch (conv_top23 G (map (conv_rec23 G) sub))
  | _ => f
  end.
Definition conv_update_to_v23 (G : list text) (t : tag) : tag := conv_top23 G (map (conv_rec23 G) t).

(* ------------------------------------------------------------------------------------------ *)
(* ID3Tags.update_to_v24                                                                         *)

Definition conv_opt_texts (o : option frame) := match o with Some f => conv_texts_of f | None => [] end.

(* zip_longest(a, b, c, fillvalue="") *)
Fixpoint conv_zip3 (n : nat) (a b c : list text) : list (text * text * text) :=
  match n with
  | O => []
  | S k => (hd [] a, hd [] b, hd [] c) :: conv_zip3 k (tl a) (tl b) (tl c)
  end.

(* re.match(r"([0-9]{2})([0-9]{2})\Z", s) *)
Definition conv_is_4digits (s : text) : bool := (zlen s =? 4) && conv_all_digits s.
(* re.match(r"([0-9]{4})(-[0-9]{2}-[0-9]{2})?\Z", s) -> (year, month_day) *)
Definition conv_match_year (s : text) : option (text * option text) :=
  if conv_is_4digits s then Some (s, None)
  else if (zlen s =? 10) && conv_all_digits (ztake 4 s) && (znth 4 s =? 45)
          && conv_all_digits (zslice 5 7 s) && (znth 7 s =? 45) && conv_all_digits (zslice 8 10 s)
       then Some (ztake 4 s, Some (zdrop 4 s))
  else None.

(*  timestamp = ""
    if ym:
        (year, month_day) = ym.groups(); timestamp += "%s" % year
        if dm: month_day = "-%s-%s" % dm.groups()[::-1]
        if month_day:
            timestamp += month_day
            if tm: timestamp += "T%s:%s:00" % tm.groups()                                       *)
Definition conv_timestamp_of (x : text * text * text) : text :=
  let '(tyer, tdat, time) := x in
  match conv_match_year tyer with
  | None => []
  | Some (year, md) =>
    let md' := if conv_is_4digits tdat then Some (45 :: zdrop 2 tdat ++ 45 :: ztake 2 tdat) else md in
    match md' with
    | None => year
    | Some m => year ++ m ++
        (if conv_is_4digits time then 84 :: ztake 2 time ++ 58 :: zdrop 2 time ++ [58;48;48] else [])
    end
  end.

Definition conv_nonempty {A} (l : list A) : bool := match l with [] => false | _ :: _ => true end.

(*  old_frames = [self.pop(n, []) for n in ["TYER", "TDAT", "TIME"]]
    for tyer, tdat, time in zip_longest( *old_frames, fillvalue=""): ... timestamps.append(timestamp)
    if timestamps and "TDRC" not in self: self.add(TDRC(encoding=0, text=timestamps))            *)
Definition conv_dates24 (t : tag) : tag :=
  let a := conv_opt_texts (conv_get s_TYER t) in
  let b := conv_opt_texts (conv_get s_TDAT t) in
  let c := conv_opt_texts (conv_get s_TIME t) in
  let n := Nat.max (length a) (Nat.max (length b) (length c)) in
  let timestamps := filter conv_nonempty (map conv_timestamp_of (conv_zip3 n a b c)) in
  let t1 := conv_del s_TIME (conv_del s_TDAT (conv_del s_TYER t)) in
  conv_add_if (conv_nonempty timestamps) (FStamp s_TDRC 0 (map conv_stamp_parse timestamps)) t1.

(*  if "TORY" in self:
        f = self.pop("TORY")
        if "TDOR" not in self: self.add(TDOR(encoding=0, text=str(f)))
    str(f) = '\0'.join(f.text); a str given to a TimeStampTextFrame is split at ','              *)
Definition conv_tory24 (t : tag) : tag :=
  match conv_get s_TORY t with
  | None => t
  | Some f =>
    conv_add_if true
      (FStamp s_TDOR 0 (map conv_stamp_parse (split_on 44 (join_with 0 (conv_texts_of f)))))
      (conv_del s_TORY t)
  end.

(*  if "IPLS" in self:
        f = self.pop("IPLS")
        if "TIPL" not in self: self.add(TIPL(encoding=f.encoding, people=f.people))              *)
Definition conv_ipls24 (t : tag) : tag :=
  match conv_get s_IPLS t with
  | None => t
  | Some f => conv_add_if true (FPeople s_TIPL (conv_enc_of f) (conv_people_of f)) (conv_del s_IPLS t)
  end.

Definition conv_v23_only : list text := [s_RVAD; s_EQUA; s_TRDA; s_TSIZ; s_TDAT; s_TIME].

Definition conv_top24 (G : list text) (t : tag) : tag :=
  conv_del_all conv_v23_only (conv_ipls24 (conv_tory24 (conv_dates24 (conv_common G t)))).

Fixpoint conv_rec24 (G : list text) (f : frame) : frame :=
  match f with
  | FChap e a b c d sub => FChap e a b c d (conv_top24 G (map (conv_rec24 G) sub))
  | FCtoc e fl ch sub => FCtoc e fl ch (conv_top24 G (map (conv_rec24 G) sub))
  | _ => f
  end.
Definition conv_update_to_v24 (G : list text) (t : tag) : tag := conv_top24 G (map (conv_rec24 G) t).

(* ------------------------------------------------------------------------------------------ *)
(* Frame._get_v23_frame(sep=...)                                                                 *)

(* EncodingSpec._validate23 *)
Definition conv_enc23 (e : Z) : Z := if (e =? 0) || (e =? 1) then e else 1.
(* sep.join(values) *)
Fixpoint conv_join (sep : text) (vals : list text) : text :=
  match vals with
  | [] => []
  | v :: r => match r with [] => v | _ :: _ => v ++ sep ++ conv_join sep r end
  end.
(* MultiSpec._validate23 for a single EncodedTextSpec (not TimeStampSpec) *)
Definition conv_join23 (sep : option text) (vals : list text) : list text :=
  match sep with Some s => [conv_join s vals] | None => vals end.

(* type(self)(text=[ID3TimeStamp, ...]): ID3TimeStamp(ID3TimeStamp) copies the TEXT, i.e. re-parses the
   canonical text (fields after the first None are forgotten) *)
Definition conv_stamp_renorm (d : conv_stamp) : conv_stamp := conv_stamp_parse (conv_stamp_text d).

Fixpoint conv_v23_frame (sep : option text) (f : frame) : frame :=
  match f with
  | FText id e v => FText id (conv_enc23 e) (conv_join23 sep v)
  | FStamp id e v => FStamp id (conv_enc23 e) (map conv_stamp_renorm v)
  | FTxxx e d v => FTxxx (conv_enc23 e) d (conv_join23 sep v)
  | FComm e l d v => FComm (conv_enc23 e) l d (conv_join23 sep v)
  | FPeople id e p => FPeople id (conv_enc23 e) p
  | FApic e m p d x => FApic (conv_enc23 e) m p d x
  | FChap eid a b c d sub => FChap eid a b c d (map (conv_v23_frame sep) sub)      (* ID3FramesSpec._validate23 *)
  | FCtoc eid fl ch sub => FCtoc eid fl ch (map (conv_v23_frame sep) sub)
  | FOther _ _ _ => f
  end.

(* save_frame: `if isinstance(frame, TextFrame) and len(str(frame)) == 0: return b''` *)
Definition conv_frame_str (f : frame) : text :=
  match f with
  | FText _ _ v | FTxxx _ _ v | FComm _ _ _ v => join_with 0 v
  | FStamp _ _ v => join_with 44 (map conv_stamp_text v)
  | _ => []
  end.
Definition conv_is_textframe (f : frame) : bool :=
  match f with FText _ _ _ | FTxxx _ _ _ | FComm _ _ _ _ | FStamp _ _ _ => true | _ => false end.
Definition conv_written (f : frame) : bool :=
  negb (conv_is_textframe f && negb (conv_nonempty (conv_frame_str f))).

(* the frames a save with v2_version writes (what a reader of the bytes gets back): empty text frames
   are skipped at every level, the rest goes through _get_v23_frame when v2_version = 3 *)
Fixpoint conv_saved_frame (f : frame) : frame :=
  match f with
  | FChap eid a b c d sub =>
    FChap eid a b c d (flat_map (fun g => if conv_written g then [conv_saved_frame g] else []) sub)
  | FCtoc eid fl ch sub =>
    FCtoc eid fl ch (flat_map (fun g => if conv_written g then [conv_saved_frame g] else []) sub)
  | _ => f
  end.
Definition conv_saved (t : tag) : tag :=
  flat_map (fun g => if conv_written g then [conv_saved_frame g] else []) t.
Definition conv_saved23 (sep : option text) (t : tag) : tag := map (conv_v23_frame sep) (conv_saved t).

(* ------------------------------------------------------------------------------------------ *)
(* byte layout of the size fields: save_frame and ID3._prepare_data                              *)

(*  bits = 7 if v2_version == 4, 8 if v2_version == 3, else ValueError
    header = struct.pack('>4s4sH', frame_name, BitPaddedInt.to_str(len(framedata), width=4, bits=bits), 0) *)
Definition conv_frame_bytes (v : Z) (id payload : list Z) : result (list Z) :=
  if v =? 4 then rbind (to_str (zlen payload) 7 true 4 4) (fun sz => Ok (id ++ sz ++ [0;0] ++ payload))
  else if v =? 3 then rbind (to_str (zlen payload) 8 true 4 4) (fun sz => Ok (id ++ sz ++ [0;0] ++ payload))
  else Raise EValue.

(*  header = struct.pack('>3sBBB4s', b'ID3', v2_version, 0, 0, BitPaddedInt.to_str(new_size - 10, width=4))
    data = header + framedata + padding * b'\x00'                                                *)
Definition conv_tag_bytes (v : Z) (framedata : list Z) (padding : Z) : result (list Z) :=
  rbind (to_str (zlen framedata + padding) 7 true 4 4)
        (fun sz => Ok ([73;68;51;v;0;0] ++ sz ++ framedata ++ zeros padding)).

(* a reader of the frame area that takes the size field as written for version v
   (plain big-endian for 3, syncsafe for 4); stops at a zero byte (padding) *)
Fixpoint conv_walk (fuel : nat) (v : Z) (data : list Z) : option (list (list Z * list Z)) :=
  match fuel with
  | O => None
  | S k =>
    match data with
    | [] => Some []
    | b :: _ =>
      if b =? 0 then Some []
      else if zlen data <? 10 then None
      else
        let id := ztake 4 data in
        let szb := zslice 4 8 data in
        let n := if v =? 4 then bpi_bytes_loop (rev szb) 127 7 0 0 else be_decode szb in
        if (v =? 4) && negb (forallb (fun x => x <? 128) szb) then None
        else if zlen data <? 10 + n then None
        else match conv_walk k v (zdrop (10 + n) data) with
             | Some r => Some ((id, zslice 10 (10 + n) data) :: r)
             | None => None
             end
    end
  end.

(* ------------------------------------------------------------------------------------------ *)
(* MakeID3v1                                                                                     *)

(* s.encode('latin1', 'replace') *)
Definition conv_latin1r (s : text) : list Z := map (fun c => if (0 <=? c) && (c <? 256) then c else 63) s.
(* text[:n] + b"\x00" * (n - len(text[:n])) *)
Definition conv_field (n : Z) (b : list Z) : list Z := ztake n b ++ zeros (n - zlen (ztake n b)).

(* lexicographic order of Python strings *)
Fixpoint conv_text_ltb (a b : text) : bool :=
  match a, b with
  | _, [] => false
  | [], _ :: _ => true
  | x :: a', y :: b' => if x <? y then true else if y <? x then false else conv_text_ltb a' b'
  end.
Fixpoint conv_min_key (best : option frame) (l : tag) : option frame :=
  match l with
  | [] => best
  | f :: r =>
    if starts_with s_COMM_ (conv_key f) then
      match best with
      | Some g => if conv_text_ltb (conv_key f) (conv_key g) then conv_min_key (Some f) r else conv_min_key best r
      | None => conv_min_key (Some f) r
      end
    else conv_min_key best r
  end.
(*  for key in ["COMM", "COMM:ID3v1 Comment:eng"]: if key in id3: comm = id3[key]; break
    else: comm_keys = sorted(k for k in id3.keys() if k.startswith("COMM:")); comm = id3[comm_keys[0]] *)
Definition conv_v1_comment_frame (t : tag) : option frame :=
  match conv_get s_COMM t with
  | Some f => Some f
  | None => match conv_get s_v1comm_key t with
            | Some f => Some f
            | None => conv_min_key None t
            end
  end.

(*  if v2id in id3 and id3[v2id].text: text = id3[v2id].text[0]...   else: text = b""
    (an empty text list counts as an absent frame) *)
Definition conv_first_text (o : option frame) : result text :=
  match o with
  | None => Ok []
  | Some f => match conv_texts_of f with v :: _ => Ok v | [] => Ok [] end
  end.

Fixpoint conv_index_of (x : text) (l : list text) (i : Z) : option Z :=
  match l with [] => None | y :: r => if list_eqb y x then Some i else conv_index_of x r (i + 1) end.

Definition conv_all_ascii (s : text) : bool := forallb (fun c => (0 <=? c) && (c <? 128)) s.

Definition conv_make_id3v1 (G : list text) (t : tag) : result (list Z) :=
  rbind (conv_first_text (conv_get s_TIT2 t)) (fun title =>
  rbind (conv_first_text (conv_get s_TPE1 t)) (fun artist =>
  rbind (conv_first_text (conv_get s_TALB t)) (fun album =>
  let cmnt := match conv_v1_comment_frame t with
              | Some f => match conv_texts_of f with v :: _ => v | [] => [] end
              | None => []
              end in
  (*  try: track = bchr(+id3["TRCK"])   except (ValueError, IndexError): track = b"\x00"           *)
  rbind (match conv_get s_TRCK t with
         | None => Ok 0
         | Some f => match conv_texts_of f with
                     | [] => Ok 0
                     | v :: _ => match conv_py_int (hd [] (split_on 47 v)) with
                                 | Some n => Ok (if (0 <=? n) && (n <? 256) then n else 0)
                                 | None => Ok 0
                                 end
                     end
         end) (fun track =>
  let genre := match conv_get s_TCON t with
               | None => 255
               | Some f => match conv_genres G (conv_texts_of f) with
                           | [] => 255
                           | g :: _ => match conv_index_of g G 0 with Some i => i | None => 255 end
                           end
               end in
  (*  year = str(id3["TDRC"]).encode('ascii')  elif "TYER": str(id3["TYER"]).encode('ascii')     *)
  rbind (match conv_get s_TDRC t with
         | Some f => Ok (conv_frame_str f)
         | None => match conv_get s_TYER t with
                   | Some f => if conv_all_ascii (conv_frame_str f) then Ok (conv_frame_str f) else Raise EUnicode
                   | None => Ok []
                   end
         end) (fun year =>
  Ok (s_TAG ++ conv_field 30 (conv_latin1r title) ++ conv_field 30 (conv_latin1r artist)
        ++ conv_field 30 (conv_latin1r album) ++ ztake 4 (year ++ [0;0;0;0])
        ++ conv_field 29 (ztake 28 (conv_latin1r cmnt)) ++ [track] ++ [genre])))))).

(* ------------------------------------------------------------------------------------------ *)
(* ParseID3v1(data, v2_version)                                                                  *)

(* data.index(b"TAG") *)
Fixpoint conv_find_tag (data : list Z) : option (list Z) :=
  match data with
  | [] => None
  | _ :: r => if starts_with s_TAG data then Some data else conv_find_tag r
  end.
Definition conv_is_bspace (c : Z) : bool := (c =? 32) || ((9 <=? c) && (c <=? 13)).   (* bytes.strip() *)
Fixpoint conv_blstrip (l : list Z) : list Z :=
  match l with [] => [] | c :: r => if conv_is_bspace c then conv_blstrip r else l end.
(* data.split(b"\x00")[0].strip().decode('latin1') *)
Definition conv_v1_fix (b : list Z) : text :=
  rev (conv_blstrip (rev (conv_blstrip (conv_takewhile (fun c => negb (c =? 0)) b)))).

Definition conv_parse_id3v1 (v : Z) (data0 : list Z) : option tag :=
  match conv_find_tag data0 with
  | None => None
  | Some data =>
    if (128 <? zlen data) || (zlen data <? 124) then None
    else
      let ylen := zlen data - 124 in
      let title := conv_v1_fix (zslice 3 33 data) in
      let artist := conv_v1_fix (zslice 33 63 data) in
      let album := conv_v1_fix (zslice 63 93 data) in
      let year := conv_v1_fix (zslice 93 (93 + ylen) data) in
      let comment := conv_v1_fix (zslice (93 + ylen) (122 + ylen) data) in
      let track := znth (122 + ylen) data in
      let genre := znth (123 + ylen) data in
      Some (
        (if conv_nonempty title then [FText s_TIT2 0 [title]] else []) ++
        (if conv_nonempty artist then [FText s_TPE1 0 [artist]] else []) ++
        (if conv_nonempty album then [FText s_TALB 0 [album]] else []) ++
        (if conv_nonempty year then
           (if v =? 3 then [FText s_TYER 0 [year]]
            else [FStamp s_TDRC 0 (map conv_stamp_parse (split_on 44 year))])
         else []) ++
        (if conv_nonempty comment then [FComm 0 s_eng s_v1comm_desc [comment]] else []) ++
        (if negb (track =? 0) && (negb (track =? 32) || (znth (121 + ylen) data =? 0))
         then [FText s_TRCK 0 [conv_dec track]] else []) ++
        (if negb (genre =? 255) then [FText s_TCON 0 [conv_dec genre]] else []))
  end.

(* ------------------------------------------------------------------------------------------ *)
(* flat serialisation of a tag (used by the harness to compare vm_compute with the extracted binary) *)
Definition conv_ser_text (s : text) : list Z := zlen s :: s.
Definition conv_ser_list {A} (f : A -> list Z) (l : list A) : list Z := zlen l :: flat_map f l.
Definition conv_ser_opt (o : option Z) : list Z := match o with Some v => [1; v] | None => [0] end.
Definition conv_ser_stamp (d : conv_stamp) : list Z :=
  conv_ser_opt (st_year d) ++ conv_ser_opt (st_month d) ++ conv_ser_opt (st_day d) ++
  conv_ser_opt (st_hour d) ++ conv_ser_opt (st_minute d) ++ conv_ser_opt (st_second d).
Fixpoint conv_ser_frame (f : frame) : list Z :=
  match f with
  | FText id e v => 1 :: conv_ser_text id ++ e :: conv_ser_list conv_ser_text v
  | FStamp id e v => 2 :: conv_ser_text id ++ e :: conv_ser_list conv_ser_stamp v
  | FTxxx e d v => 3 :: e :: conv_ser_text d ++ conv_ser_list conv_ser_text v
  | FComm e l d v => 4 :: e :: conv_ser_text l ++ conv_ser_text d ++ conv_ser_list conv_ser_text v
  | FPeople id e p => 5 :: conv_ser_text id ++ e :: conv_ser_list (fun x => conv_ser_text (fst x) ++ conv_ser_text (snd x)) p
  | FApic e m t d x => 6 :: e :: conv_ser_text m ++ t :: conv_ser_text d ++ conv_ser_text x
  | FChap eid a b c d sub => 7 :: conv_ser_text eid ++ a :: b :: c :: d :: zlen sub :: flat_map conv_ser_frame sub
  | FCtoc eid fl ch sub => 8 :: conv_ser_text eid ++ fl :: conv_ser_list conv_ser_text ch ++ zlen sub :: flat_map conv_ser_frame sub
  | FOther id k x => 9 :: conv_ser_text id ++ conv_ser_text k ++ conv_ser_text x
  end.
Definition conv_ser_tag (t : tag) : list Z := conv_ser_list conv_ser_frame t.

(* EXTRACT: conv_update_to_v23 conv_update_to_v24 conv_v23_frame conv_saved conv_saved23 conv_make_id3v1 conv_parse_id3v1 conv_stamp_parse conv_stamp_text conv_py_int conv_genres conv_frame_bytes conv_tag_bytes conv_walk *)
