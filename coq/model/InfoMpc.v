(* Model.InfoMpc -- Musepack SV8 stream header packets and the MusepackInfo dispatcher (C05).
   SPEC side: SV8 bitstream specification ("MPCK", key/size packets with variable-length sizes, SH and RG
   packets).  CODE side: mutagen.musepack.MusepackInfo.__init__ / __parse_sv8 / __parse_stream_header /
   __parse_replaygain_packet / _parse_sv8_int over the remaining bytes of the file. *)
From Coq Require Import ZArith List Bool.
Import ListNotations.
Require Import Base.Py Model.InfoBase Model.InfoSimple Gen.Gen_tables.
Open Scope Z_scope.

Definition ascii_MPCK := [77;80;67;75].
Definition ascii_ID3 := [73;68;51].
Definition key_SH := [83;72]. Definition key_RG := [82;71].
Definition key_AP := [65;80]. Definition key_SE := [83;69].

(* ------------------------------------------------------------------ SPEC side *)
(* variable-length integer: 7 bits per byte, most significant group first, bit 7 set on all but the last;
   sv8_varint_k k n writes k+1 groups *)
Fixpoint sv8_varint_k (k : nat) (n : Z) : list Z :=
  match k with
  | O => [n mod 128]
  | S k' => (128 + (n / 128 ^ Z.of_nat k) mod 128) :: sv8_varint_k k' n
  end.
(* the number of groups after the first: smallest k with n < 128^(k+1) (at most `fuel`) *)
Fixpoint sv8_groups (fuel : nat) (n : Z) : nat :=
  match fuel with O => O | S f => if n <? 128 then O else S (sv8_groups f (n / 128)) end.
Definition sv8_varint (n : Z) : list Z := sv8_varint_k (sv8_groups 9 n) n.

(* a packet: key, size (of key + size field + payload; the size field takes one byte for payloads < 125), payload *)
Definition sv8_packet (key payload : list Z) : list Z := key ++ sv8_varint (zlen payload + 3) ++ payload.
(* SH: crc32, stream version 8, sample count, beginning silence, rate index 3 | max bands - 1 5,
       channels - 1 4 | mid/side 1 | audio block frames 3 *)
Definition sv8_sh_payload (crc samples silence rate_idx max_bands channels ms block_pwr : Z) : list Z :=
  be_encode 4 crc ++ [8] ++ sv8_varint samples ++ sv8_varint silence ++
  [rate_idx * 32 + (max_bands - 1)] ++ [(channels - 1) * 16 + ms * 8 + block_pwr].
(* RG: version 1, title gain, title peak, album gain, album peak (u16 each) *)
Definition sv8_rg_payload (tg tp ag ap : Z) : list Z :=
  [1] ++ be_encode 2 tg ++ be_encode 2 tp ++ be_encode 2 ag ++ be_encode 2 ap.
Definition build_mpc8 (crc samples silence rate_idx max_bands channels ms block_pwr tg tp ag ap : Z) : list Z :=
  ascii_MPCK ++ sv8_packet key_SH (sv8_sh_payload crc samples silence rate_idx max_bands channels ms block_pwr) ++
  sv8_packet key_RG (sv8_rg_payload tg tp ag ap) ++ key_AP ++ [3].

(* ------------------------------------------------------------------ CODE side *)
(* _parse_sv8_int(fileobj, limit=9): Ok (num, bytes read, rest); EEOF / EValue *)
Fixpoint sv8_parse_int_loop (limit : nat) (num i : Z) (rest : list Z) : result (Z * Z * list Z) :=
  match limit with
  | O => Raise EValue
  | S limit' =>
    match rest with
    | [] => Raise EEOF
    | c :: rest' =>
      let num' := num * 128 + c mod 128 in                 (* (num << 7) | (c & 0x7F) *)
      if c / 128 =? 0 then Ok (num', i + 1, rest')         (* not c & 0x80 *)
      else sv8_parse_int_loop limit' num' (i + 1) rest'
    end
  end.
Definition sv8_parse_int (rest : list Z) := sv8_parse_int_loop 9 0 0 rest.

(* bytes comparison  b'AA' <= k <= b'ZZ'  for a two-byte key *)
Definition sv8_key_ok (k : list Z) : bool :=
  match k with
  | [a; b] => ((65 <? a) || ((a =? 65) && (65 <=? b))) && ((a <? 90) || ((a =? 90) && (b <=? 90)))
  | _ => false
  end.

Record sv8_state := mkSv8 {
  s8_sh : bool; s8_rg : bool;              (* packet already seen *)
  s8_version : Z; s8_samples : Z; s8_rate : Z; s8_channels : Z;
  s8_tg : Z; s8_tp : Z; s8_ag : Z; s8_ap : Z
}.

(* __parse_stream_header(fileobj, data_size): returns the updated state and the remaining bytes *)
Definition sv8_parse_sh (st : sv8_state) (rest : list Z) (data_size : Z) : result (sv8_state * list Z) :=
  let rest := skipn 4 rest in                                       (* seek(4, 1) *)
  match rest with
  | [] => Raise EMutagen                                            (* version byte missing *)
  | version :: rest =>
    match sv8_parse_int rest with
    | Raise _ => Raise EMutagen
    | Ok (samples, l1, rest) =>
      match sv8_parse_int rest with
      | Raise _ => Raise EMutagen
      | Ok (samples_skip, l2, rest) =>
        let remaining_size := data_size - 4 - 1 - (l1 + l2) in
        (* read(remaining_size): a negative size reads everything, and the length test fails *)
        if remaining_size <? 0 then Raise EMutagen
        else
          let data := ztake_c remaining_size rest in
          if negb (zlen data =? remaining_size) || (zlen data <? 2) then Raise EMutagen
          else
            match idx (byte_at 0 data / 32) gen_musepack_rates with   (* data[0] >> 5 *)
            | None => Raise EMutagen
            | Some rate =>
              Ok (mkSv8 true (s8_rg st) version (samples - samples_skip) rate (byte_at 1 data / 16 + 1)
                        (s8_tg st) (s8_tp st) (s8_ag st) (s8_ap st), zdrop_c remaining_size rest)
            end
      end
    end
  end.

(* __parse_replaygain_packet(fileobj, data_size) *)
Definition sv8_parse_rg (st : sv8_state) (rest : list Z) (data_size : Z) : result (sv8_state * list Z) :=
  if data_size <? 9 then Raise EMutagen
  else
    let data := ztake_c data_size rest in
    if negb (zlen data =? data_size) then Raise EMutagen
    else Ok (mkSv8 (s8_sh st) true (s8_version st) (s8_samples st) (s8_rate st) (s8_channels st)
                   (to_signed 65536 (be_at 1 2 data)) (to_signed 65536 (be_at 3 2 data))
                   (to_signed 65536 (be_at 5 2 data)) (to_signed 65536 (be_at 7 2 data)),
             zdrop_c data_size rest).

(* the packet loop of __parse_sv8; `rest` starts right after a frame key that has been read and checked *)
Fixpoint sv8_loop (fuel : nat) (st : sv8_state) (frame_type rest : list Z) : result sv8_state :=
  match fuel with
  | O => Raise EOutOfFuel
  | S fuel' =>
    if list_eqb frame_type key_AP || list_eqb frame_type key_SE || (s8_sh st && s8_rg st) then Ok st
    else
      match sv8_parse_int rest with
      | Raise _ => Raise EMutagen
      | Ok (frame_size, slen, rest) =>
        let data_size := frame_size - 2 - slen in
        if data_size <? 0 then Raise EMutagen           (* a packet can't be smaller than its own header *)
        else
        let next (r : result (sv8_state * list Z)) : result sv8_state :=
          match r with
          | Raise e => Raise e
          | Ok (st', rest') =>
            let ft := firstn 2 rest' in
            if negb (sv8_key_ok ft) then Raise EMutagen else sv8_loop fuel' st' ft (skipn 2 rest')
          end in
        if list_eqb frame_type key_SH then
          (if s8_sh st then Raise EMutagen else next (sv8_parse_sh st rest data_size))
        else if list_eqb frame_type key_RG then
          (if s8_rg st then Raise EMutagen else next (sv8_parse_rg st rest data_size))
        else next (Ok (st, zdrop_c data_size rest))
      end
  end.

(* result: [version; channels; sample_rate; length numerator; length denominator;
            title_gain; title_peak; album_gain; album_peak] (raw signed 16-bit values; 0 = attribute not set) *)
Definition decode_mpc_sv8 (rest : list Z) : result (list Z) :=
  let ft := firstn 2 rest in
  if negb (sv8_key_ok ft) then Raise EMutagen
  else
    match sv8_loop (S (length rest)) (mkSv8 false false 0 0 0 0 0 0 0 0) ft (skipn 2 rest) with
    | Raise e => Raise e
    | Ok st =>
      if negb (s8_sh st && s8_rg st) then Raise EMutagen
      else if s8_rate st =? 0 then Raise EZeroDiv
      else Ok [s8_version st; s8_channels st; s8_rate st; s8_samples st; s8_rate st;
               s8_tg st; s8_tp st; s8_ag st; s8_ap st]
    end.

(* BitPaddedInt(header[2:6]) of four bytes *)
Definition bpi4 (b : list Z) : Z :=
  fold_left (fun acc x => acc * 128 + x mod 128) b 0.

(* MusepackInfo.__init__ up to the per-version parsers: 8 :: ... for SV8 results, 7 :: ... for SV4-7 *)
Definition decode_mpc (f : list Z) : result (list Z) :=
  let header := sub_at 0 4 f in
  if negb (zlen header =? 4) then Raise EMutagen
  else
    let with_header (header : list Z) (pos : Z) : result (list Z) :=
      if starts_with ascii_MPCK header then rmap (cons 8) (decode_mpc_sv8 (zdrop_c (pos + 4) f))
      else rmap (cons 7) (decode_mpc_sv467 (zdrop_c pos f)) in
    if list_eqb (firstn 3 header) ascii_ID3 then
      let h6 := sub_at 4 6 f in
      if negb (zlen h6 =? 6) then Raise EMutagen
      else
        let size := 10 + bpi4 (sub_at 2 4 h6) in
        let header := zslice_c size (size + 4) f in
        if negb (zlen header =? 4) then Raise EMutagen else with_header header size
    else with_header header 0.
(* EXTRACT: InfoMpc.build_mpc8 InfoMpc.decode_mpc InfoMpc.sv8_varint *)
