(* Model.Parse_dsf -- exception-faithful mirror of what DSF.load (mutagen/dsf.py) does with the caller's
   stream before the ID3 tag itself is parsed:
     DSFFile(fileobj)               DSDChunk.load, FormatChunk.load, DataChunk.load (read + slices + cdata.*_le)
     _DSFID3._pre_load_header       seek(0), DSDChunk again, `offset_metdata_chunk == 0` -> ID3NoHeaderError
                                    (DSF.load: tags = None), seek(id3_location) with
                                    `except (OverflowError, ValueError): raise error`
     DSFInfo(fmt_chunk)             stores the chunk; its properties are computed on access (length divides by
                                    the sampling frequency then -- not during load)
   both under @convert_error(IOError, error).  cdata.ulonglong_le / uint_le are struct.unpack on a slice
   (a slice of the wrong length is struct.error).  Definitions only. *)
From Coq Require Import ZArith List Bool.
Import ListNotations.
Require Import Base.Py Model.Parse_base.
Open Scope Z_scope.

Definition dsf_DSD  := [68;83;68;32].       (* b"DSD " *)
Definition dsf_fmt  := [102;109;116;32].    (* b"fmt " *)
Definition dsf_data := [100;97;116;97].     (* b"data" *)

(* DSDChunk.load: (total_size, offset_metdata_chunk) *)
Definition dsf_dsd_chunk : P (Z * Z) :=
  data <~ p_read 28 ;;
  if negb (zlen data =? 28) then praise EMutagen
  else if negb (list_eqb (zslice 0 4 data) dsf_DSD) then praise EMutagen
  else
    chunk_size <~ plift (unpack_le 8 (zslice 4 12 data)) ;;
    if negb (chunk_size =? 28) then praise EMutagen
    else
      total_size <~ plift (unpack_le 8 (zslice 12 20 data)) ;;
      offset <~ plift (unpack_le 8 (zslice 20 28 data)) ;;
      pret (total_size, offset).

(* FormatChunk.load: [channel_type; channel_num; sampling_frequency; bits_per_sample; sample_count] *)
Definition dsf_fmt_chunk : P (list Z) :=
  data <~ p_read 52 ;;
  if negb (zlen data =? 52) then praise EMutagen
  else if negb (list_eqb (zslice 0 4 data) dsf_fmt) then praise EMutagen
  else
    chunk_size <~ plift (unpack_le 8 (zslice 4 12 data)) ;;
    if negb (chunk_size =? 52) then praise EMutagen
    else
      format_version <~ plift (unpack_le 4 (zslice 12 16 data)) ;;
      if negb (format_version =? 1) then praise EMutagen
      else
        format_id <~ plift (unpack_le 4 (zslice 16 20 data)) ;;
        if negb (format_id =? 0) then praise EMutagen
        else
          channel_type <~ plift (unpack_le 4 (zslice 20 24 data)) ;;
          channel_num <~ plift (unpack_le 4 (zslice 24 28 data)) ;;
          sampling_frequency <~ plift (unpack_le 4 (zslice 28 32 data)) ;;
          bits_per_sample <~ plift (unpack_le 4 (zslice 32 36 data)) ;;
          sample_count <~ plift (unpack_le 8 (zslice 36 44 data)) ;;
          pret [channel_type; channel_num; sampling_frequency; bits_per_sample; sample_count].

(* DataChunk.load: chunk_size *)
Definition dsf_data_chunk : P Z :=
  data <~ p_read 12 ;;
  if negb (zlen data =? 12) then praise EMutagen
  else if negb (list_eqb (zslice 0 4 data) dsf_data) then praise EMutagen
  else
    chunk_size <~ plift (unpack_le 8 (zslice 4 12 data)) ;;
    if chunk_size <? 12 then praise EMutagen
    else pret chunk_size.

(* _DSFID3._pre_load_header: Ok 0 stands for ID3NoHeaderError (a MutagenError subclass which DSF.load catches
   first: `except ID3NoHeaderError: self.tags = None`); Ok loc = the stream is left at loc for ID3Header *)
Definition dsf_pre_load_header : P Z :=
  pconvert_io (
    p_seek 0 0 ;;~
    ' (_, id3_location) <~ dsf_dsd_chunk ;;
    if id3_location =? 0 then pret 0
    else
      pcatch (p_seek id3_location 0) (fun e => exc_eqb e EOverflow || exc_eqb e EValue) (fun _ => praise EMutagen) ;;~
      pret id3_location).

(* DSF.load up to the ID3 header: fmt fields ++ [total_size; data chunk size; id3_location; stream position] *)
Definition dsf_init : P (list Z) :=
  pconvert_io (
    ' (total_size, _) <~ dsf_dsd_chunk ;;
    fmt <~ dsf_fmt_chunk ;;
    data_size <~ dsf_data_chunk ;;
    loc <~ dsf_pre_load_header ;;
    pos <~ p_tell ;;
    pret (fmt ++ [total_size; data_size; loc; pos])).
Definition dsf_load (d : list Z) : result (list Z) := prun dsf_init d.

Definition dsf_id (l : list Z) : list Z := l.
(* EXTRACT: dsf_load dsf_id *)
