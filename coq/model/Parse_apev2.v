(* Model.Parse_apev2 -- exception-faithful mirror of mutagen.apev2._APEv2Data.__init__
   (__find_metadata, __fill_missing, __fix_brokenness and the final tag read) over a BytesIO.
   Definitions only. *)
From Coq Require Import ZArith List Bool.
Import ListNotations.
Require Import Base.Py Model.Parse_base.
Open Scope Z_scope.

Definition ape_APETAGEX := [65;80;69;84;65;71;69;88].
Definition ape_TAG := [84;65;71].
Definition ape_LYRICS200 := [76;89;82;73;67;83;50;48;48].
Definition ape_HAS_HEADER : Z := 2147483648.

(* int(b) for a bytes object: [ws]* [+-]? digit (_? digit)* [ws]*, anything else ValueError *)
Definition ape_is_space (b : Z) : bool := (b =? 32) || ((9 <=? b) && (b <=? 13)).
Definition ape_is_digit (b : Z) : bool := (48 <=? b) && (b <=? 57).
Fixpoint ape_lstrip (l : list Z) : list Z :=
  match l with x :: t => if ape_is_space x then ape_lstrip t else l | [] => [] end.
(* after at least one digit; us: the previous character was an underscore *)
Fixpoint ape_digits (l : list Z) (acc : Z) (us : bool) : result Z :=
  match l with
  | [] => if us then Raise EValue else Ok acc
  | x :: t =>
    if ape_is_digit x then ape_digits t (acc * 10 + (x - 48)) false
    else if x =? 95 then (if us then Raise EValue else ape_digits t acc true)
    else if us then Raise EValue
    else match ape_lstrip l with [] => Ok acc | _ => Raise EValue end
  end.
Definition ape_py_int (l : list Z) : result Z :=
  let l := ape_lstrip l in
  let neg := match l with x :: _ => x =? 45 | [] => false end in
  let l := match l with x :: t => if (x =? 43) || (x =? 45) then t else l | [] => l end in
  match l with
  | x :: t => if ape_is_digit x then rmap (fun v => if neg then - v else v) (ape_digits t (x - 48) false)
              else Raise EValue
  | [] => Raise EValue
  end.

Definition ape_is_value (e : exc) : bool := exc_eqb e EValue.
(* get_size(fileobj): old = tell(); try: seek(0,2); return tell()  finally: seek(old, 0) *)
Definition ape_get_size : P Z :=
  old <~ p_tell ;; p_seek 0 2 ;;~ size <~ p_tell ;; p_seek old 0 ;;~ pret size.

Record ape_found := mkFound { af_header : option Z; af_footer : option Z; af_metadata : option Z; af_at_start : bool }.
Definition ape_nothing := mkFound None None None false.

(* __find_metadata; `found` None: fall through to the next check *)
Definition ape_find_metadata : P ape_found :=
  size0 <~ ape_get_size ;;
  if size0 <? 32 then p_seek 0 2 ;;~ pret ape_nothing
  else
    p_seek (-32) 2 ;;~
    b <~ p_read 8 ;;
    if list_eqb b ape_APETAGEX then
      p_seek (-8) 1 ;;~ pos <~ p_tell ;; pret (mkFound None (Some pos) (Some pos) false)
    else
      found <~ pcatch (
        size <~ ape_get_size ;;
        if size <? 128 then praise (EIO 0)
        else
          p_seek (-128) 2 ;;~
          t <~ p_read 3 ;;
          if negb (list_eqb t ape_TAG) then pret None
          else
            p_seek (-35) 1 ;;~
            b <~ p_read 8 ;;
            if list_eqb b ape_APETAGEX then
              p_seek (-8) 1 ;;~ pos <~ p_tell ;; pret (Some pos)
            else
              p_seek 15 1 ;;~
              l <~ p_read 9 ;;
              if negb (list_eqb l ape_LYRICS200) then pret None
              else
                p_seek (-15) 1 ;;~
                ob <~ p_read 6 ;;
                offset <~ pcatch (plift (ape_py_int ob)) ape_is_value (fun _ => praise (EIO 0)) ;;
                p_seek (-32 - offset - 6) 1 ;;~
                b <~ p_read 8 ;;
                if list_eqb b ape_APETAGEX then
                  p_seek (-8) 1 ;;~ pos <~ p_tell ;; pret (Some pos)
                else pret None) is_eio (fun _ => pret None) ;;
      match found with
      | Some pos => pret (mkFound None (Some pos) None false)
      | None =>
        p_seek 0 0 ;;~
        b <~ p_read 8 ;;
        if list_eqb b ape_APETAGEX then pret (mkFound (Some 0) None None true) else pret ape_nothing
      end.

Record ape_data := mkApe {
  ad_start : Z; ad_header : Z; ad_footer : option Z; ad_data : Z; ad_end : Z;
  ad_size : Z; ad_items : Z; ad_flags : Z; ad_at_start : bool; ad_tag_len : Z }.

(* while start >= 24: try: seek(-24, 1) except IOError: break
                    else: if read(8) == b"APETAGEX": seek(-8, 1); start = tell()  else: break *)
Fixpoint ape_fix_loop (fuel : nat) (start : Z) : P Z :=
  match fuel with
  | O => praise EOutOfFuel
  | S f =>
    if negb (24 <=? start) then pret start
    else
      ok <~ pcatch (p_seek (-24) 1 ;;~ pret true) is_eio (fun _ => pret false) ;;
      if negb ok then pret start
      else
        b <~ p_read 8 ;;
        if list_eqb b ape_APETAGEX then p_seek (-8) 1 ;;~ start' <~ p_tell ;; ape_fix_loop f start'
        else pret start
  end.

Definition ape_opt_max (a b : option Z) : option Z :=
  match a, b with
  | None, _ => b
  | _, None => a
  | Some x, Some y => Some (Z.max x y)
  end.

(* _APEv2Data.__init__: None = no tag found (`metadata is None: return`) *)
Definition ape_init (fuel : nat) : P (option ape_data) :=
  fm <~ ape_find_metadata ;;
  match ape_opt_max (af_header fm) (af_footer fm) with
  | None => pret None
  | Some metadata =>
    (* __fill_missing *)
    p_seek (metadata + 8) 0 ;;~
    data <~ p_read 16 ;;
    if negb (zlen data =? 16) then praise EMutagen
    else
      size <~ plift (unpack_le 4 (zslice 4 8 data)) ;;
      items <~ plift (unpack_le 4 (zslice 8 12 data)) ;;
      flags <~ plift (unpack_le 4 (zslice 12 16 data)) ;;
      ' (header, footer, dat, end_) <~
        (match af_header fm, af_footer fm with
         | Some header, footer =>
           let dat := header + 32 in
           fsize <~ ape_get_size ;;
           (* a header claiming more than the file holds: the tag ends where the file ends *)
           let end_ := Z.min (dat + size) (Z.max fsize dat) in
           p_seek (end_ - 32) 0 ;;~
           b <~ p_read 8 ;;
           pret (header, (if list_eqb b ape_APETAGEX then Some (end_ - 32) else footer), dat, end_)
         | None, Some footer =>
           let end_ := footer + 32 in
           let dat := end_ - size in
           pret ((if (flags / ape_HAS_HEADER) mod 2 =? 1 then dat - 32 else dat), Some footer, dat, end_)
         | None, None => praise EMutagen
         end) ;;
      let size := match footer with Some _ => size - 32 | None => size end in
      if size <? 0 then praise EMutagen                        (* the footer claims a tag smaller than the footer itself *)
      else
      (* __fix_brokenness *)
      let start := header in
      if start <? 0 then praise EMutagen
      else
        p_seek start 0 ;;~
        start <~ ape_fix_loop fuel start ;;
        (* if self.data is not None: *)
        p_seek dat 0 ;;~
        tag <~ p_read size ;;
        pret (Some (mkApe start header footer dat end_ size items flags (af_at_start fm) (zlen tag)))
  end.

(* the PyMusepack clean-up loop moves 24 bytes towards the start each round: (len + 32)/24 + 1 rounds;
   the wrapper gives len + 34 *)
Definition ape_fuel (d : list Z) : nat := lin_fuel 1 34 d.
Definition apev2data_load (d : list Z) : result (option ape_data) := prun (ape_init (ape_fuel d)) d.
Definition ape_opt (o : option Z) : Z := match o with Some x => x | None => -1 end.
Definition ape_data_list (o : option ape_data) : list Z :=
  match o with
  | None => []
  | Some a => [ad_start a; ad_header a; ape_opt (ad_footer a); ad_data a; ad_end a; ad_size a; ad_items a; ad_flags a;
               (if ad_at_start a then 1 else 0); ad_tag_len a]
  end.

(* EXTRACT: apev2data_load ape_data_list *)
