(* Model.Parse_aiff -- exception-faithful mirror of what AIFF.load (mutagen/aiff.py over mutagen/_iff.py) does
   with the caller's stream, except the parsing of the ID3 tag itself:
     _IFFID3._pre_load_header   AIFFFile(fileobj)['ID3'].data_offset, seek there;
                                `except (InvalidChunk, KeyError): raise ID3NoHeaderError` (AIFF.load: tags = None)
     fileobj.seek(0, 0); AIFFInfo(fileobj)
                                AIFFFile(fileobj), iff['COMM'] (KeyError -> error), IffChunk.read (seek, read,
                                OverflowError -> InvalidChunk), struct.unpack('>hLh10s'), read_float
                                (assert, OverflowError -> error), the sign check
   with
     IffFile.__init__ / AIFFFile.__init__     seek(0), AIFFChunk.parse, root id check
     IffChunk.parse                            read(8) (short: EmptyChunk), '>4sI', id.decode('ascii') (-> InvalidChunk),
                                               str.rstrip(), is_valid_chunk_id, get_class, IffChunk.__init__ (tell,
                                               _calculate_size with its assert), AIFFFormChunk: init_container (data_size < 4:
                                               InvalidChunk; name read(4).decode('ascii'): UnicodeDecodeError -> error)
     IffContainerChunkMixin.subchunks / __getitem__
                                               the walk: seek(next_offset) (OverflowError: break), parse_next_subchunk
                                               (EmptyChunk / InvalidChunk: break, `error` propagates), next_offset
   EmptyChunk and InvalidChunk are MutagenError subclasses that the walk and _pre_load_header CATCH: a parse
   that raises one of them is `Ok None` here (and becomes Raise EMutagen where nothing catches it); likewise
   KeyError of __getitem__ is `Ok None`, ID3NoHeaderError of _pre_load_header is `Ok (-1)`.  A plain _iff.error
   (non-ASCII container name) is Raise EMutagen at once: nothing catches it.
   The float arithmetic of read_float is made explicit on integers (see aiff_read_float_int).
   Definitions only. *)
From Coq Require Import ZArith List Bool.
Import ListNotations.
Require Import Base.Py Model.Parse_base.
Open Scope Z_scope.

Definition aiff_FORM := [70;79;82;77].
Definition aiff_COMM := [67;79;77;77].
Definition aiff_ID3  := [73;68;51].

(* (id after rstrip, data_size, data_offset); offset = data_offset - 8, size = 8 + data_size + data_size % 2 *)
Definition iff_chunk := (list Z * Z * Z)%type.
Definition iff_chunk_end (c : iff_chunk) : Z :=
  let '(_, data_size, data_offset) := c in (data_offset - 8) + (8 + data_size + data_size mod 2).

(* str.isspace() of an ASCII character: \t \n \v \f \r, \x1c..\x1f, space *)
Definition iff_ws (c : Z) : bool := ((9 <=? c) && (c <=? 13)) || ((28 <=? c) && (c <=? 32)).
Fixpoint iff_lstrip (l : list Z) : list Z :=
  match l with [] => [] | x :: t => if iff_ws x then iff_lstrip t else l end.
Definition iff_rstrip (l : list Z) : list Z := rev (iff_lstrip (rev l)).
Definition iff_ascii (l : list Z) : bool := forallb (fun c => c <? 128) l.
(* is_valid_chunk_id: (0 < len(id) <= 4) and min(id) >= ' ' and max(id) <= '~' *)
Definition iff_valid_id (id : list Z) : bool :=
  (0 <? zlen id) && (zlen id <=? 4) && forallb (fun c => 32 <=? c) id && forallb (fun c => c <=? 126) id.
Definition is_eoverflow (e : exc) : bool := exc_eqb e EOverflow.

(* AIFFChunk.parse(fileobj, parent): None = EmptyChunk / InvalidChunk *)
Definition aiff_parse : P (option iff_chunk) :=
  header <~ p_read 8 ;;
  if zlen header <? 8 then pret None
  else if negb (zlen header =? 8) then praise EStruct                          (* struct.unpack('>4sI', header) *)
  else
    let id := zslice 0 4 header in
    let data_size := be_decode (zslice 4 8 header) in
    if negb (iff_ascii id) then pret None                                      (* UnicodeDecodeError -> InvalidChunk *)
    else
      let id := iff_rstrip id in
      if negb (iff_valid_id id) then pret None
      else
        data_offset <~ p_tell ;;
        let size := 8 + data_size + data_size mod 2 in
        if negb (size mod 2 =? 0) then praise EAssert
        else if list_eqb id aiff_FORM then
          (* AIFFFormChunk.__init__ -> init_container() *)
          if data_size <? 4 then pret None
          else
            name <~ p_read 4 ;;
            if negb (iff_ascii name) then praise EMutagen                      (* UnicodeDecodeError -> error *)
            else pret (Some (id, data_size, data_offset))
        else pret (Some (id, data_size, data_offset)).

(* subchunks(): `while next_offset < self.offset + self.size` *)
Fixpoint aiff_subchunks (fuel : nat) (next_offset end_ : Z) : P (list iff_chunk) :=
  match fuel with
  | O => praise EOutOfFuel
  | S fuel' =>
    if negb (next_offset <? end_) then pret []
    else
      sought <~ pcatch (p_seek next_offset 0 ;;~ pret true) is_eoverflow (fun _ => pret false) ;;
      if negb sought then pret []
      else
        c <~ aiff_parse ;;
        match c with
        | None => pret []
        | Some ch =>
            rest <~ aiff_subchunks fuel' (iff_chunk_end ch) end_ ;;
            pret (ch :: rest)
        end
  end.

Fixpoint iff_find (id : list Z) (l : list iff_chunk) : option iff_chunk :=
  match l with
  | [] => None
  | c :: t => if list_eqb (fst (fst c)) id then Some c else iff_find id t
  end.

(* AIFFFile(fileobj): None = InvalidChunk / EmptyChunk *)
Definition aiff_file : P (option iff_chunk) :=
  p_seek 0 0 ;;~
  root <~ aiff_parse ;;
  match root with
  | None => pret None
  | Some ch => if negb (list_eqb (fst (fst ch)) aiff_FORM) then pret None else pret (Some ch)
  end.

(* iff[id] on the root container: None = KeyError *)
Definition aiff_getitem (fuel : nat) (root : iff_chunk) (id : list Z) : P (option iff_chunk) :=
  let '(_, data_size, data_offset) := root in
  subs <~ aiff_subchunks fuel (data_offset + 4) (iff_chunk_end root) ;;
  pret (iff_find id subs).

(* _IFFID3._pre_load_header: -1 = ID3NoHeaderError, else the stream is left at the ID3 chunk's data *)
Definition aiff_pre_load_header (fuel : nat) : P Z :=
  f <~ aiff_file ;;
  match f with
  | None => pret (-1)
  | Some root =>
      c <~ aiff_getitem fuel root aiff_ID3 ;;
      match c with
      | None => pret (-1)
      | Some (_, _, data_offset) => p_seek data_offset 0 ;;~ pret data_offset
      end
  end.

(* int -> binary64 conversion of a non-negative integer below 2^64: 53 significant bits, ties to even *)
Definition aiff_round53 (m : Z) : Z :=
  let nb := Z.log2 m + 1 in
  if nb <=? 53 then m
  else
    let sh := nb - 53 in
    let q := m / 2 ^ sh in
    let r := m mod 2 ^ sh in
    let half := 2 ^ (sh - 1) in
    (if (half <? r) || ((r =? half) && Z.odd q) then q + 1 else q) * 2 ^ sh.

(* int(read_float(data)):  f = float(himant * 2^32 + lomant) * pow(2.0, expon - 63); pow(2.0, k) raises
   OverflowError from k = 1024 on; the product is exact unless it overflows to inf (int(inf): OverflowError, inside
   the same try) or is subnormal (its integer part is 0 either way); int() truncates towards zero *)
Definition aiff_read_float_int (data : list Z) : result Z :=
  if negb (zlen data =? 10) then Raise EAssert
  else
    let expon0 := to_signed_bits 16 (be_decode (zslice 0 2 data)) in
    let himant := be_decode (zslice 2 6 data) in
    let lomant := be_decode (zslice 6 10 data) in
    let sign := if expon0 <? 0 then -1 else 1 in
    let expon := if expon0 <? 0 then expon0 + 32768 else expon0 in
    if (expon =? 0) && (himant =? 0) && (lomant =? 0) then Ok 0
    else if expon =? 32767 then Raise EOverflow
    else
      let k := expon - 16383 - 63 in
      if 1024 <=? k then Raise EOverflow
      else
        let m := aiff_round53 (himant * 4294967296 + lomant) in
        if 0 <=? k then
          (if 2 ^ 1024 <=? m * 2 ^ k then Raise EOverflow else Ok (sign * (m * 2 ^ k)))
        else Ok (sign * (m / 2 ^ (- k))).

(* AIFFInfo.__init__: [channels; sample_rate; sample_size; frame_count]
   (length = frame_count / float(sample_rate) if sample_rate != 0; bitrate = channels * sample_size * sample_rate) *)
Definition aiff_info (fuel : nat) : P (list Z) :=
  pconvert_io (
    f <~ aiff_file ;;
    match f with
    | None => praise EMutagen                                                  (* InvalidChunk, uncaught *)
    | Some root =>
        c <~ aiff_getitem fuel root aiff_COMM ;;
        match c with
        | None => praise EMutagen                                              (* except KeyError: raise error *)
        | Some (_, data_size, data_offset) =>
            p_seek data_offset 0 ;;~
            data <~ pcatch (p_read data_size) is_eoverflow (fun _ => praise EMutagen) ;;
            if zlen data <? 18 then praise EMutagen
            else
              let s := zslice 0 18 data in
              if negb (zlen s =? 18) then praise EStruct                      (* struct.unpack('>hLh10s', data[:18]) *)
              else
                let channels := to_signed_bits 16 (be_decode (zslice 0 2 s)) in
                let frame_count := be_decode (zslice 2 6 s) in
                let sample_size := to_signed_bits 16 (be_decode (zslice 6 8 s)) in
                sample_rate <~ pcatch (plift (aiff_read_float_int (zslice 8 18 s))) is_eoverflow (fun _ => praise EMutagen) ;;
                if sample_rate <? 0 then praise EMutagen
                else pret [channels; sample_rate; sample_size; frame_count]
        end
    end).

(* AIFF.load without the ID3 parse: info ++ [ID3 data offset | -1] *)
Definition aiff_init (fuel : nat) : P (list Z) :=
  pconvert_io (
    loc <~ aiff_pre_load_header fuel ;;
    p_seek 0 0 ;;~
    info <~ aiff_info fuel ;;
    pret (info ++ [loc])).
Definition aiff_load (d : list Z) : result (list Z) := prun (aiff_init (lin_fuel 1 1 d)) d.

Definition aiff_id (l : list Z) : list Z := l.
(* EXTRACT: aiff_load aiff_id *)
