(* Model.Fam_ape: the APEv2 tag at the end of any file (mutagen/apev2.py) as one executable reference
   model.  Definitions only.  Bytes are list Z.  Two readers live here on purpose:
     - the MIRROR of mutagen's locator and lenient reader: find_metadata / ape_locate = _APEv2Data
       (__find_metadata, __fill_missing, __fix_brokenness) with the same probe positions, the same
       relative seeks (parameter real: a real file raises IOError on a negative seek target, BytesIO clamps
       the position to 0), Python's int() on the Lyrics3v2 size field; ape_mut_items = APEv2.__parse_tag;
       ape_save = APEv2.save, ape_delete = APEv2.delete, ape_moddelete = module-level delete;
     - the STRICT independent reader written from the format layout (strict_end, ape_items, ape_parse,
       ape_load, ape_wf): footer at EOF / before an ID3v1 tag / before Lyrics3v2+ID3v1; header and footer
       agree; the items tile the body exactly.
   An item value is its byte string (APETextValue/APEExtValue hold str and write UTF-8; APEBinaryValue
   holds bytes); the kind is 0 text, 1 binary, 2 external. *)
From Coq Require Import ZArith List Bool.
Import ListNotations.
Require Import Base.Py Model.Sort Model.Splice.
Open Scope Z_scope.

Definition APETAGEX : list Z := [65;80;69;84;65;71;69;88].
Definition TAG3 : list Z := [84;65;71].
Definition LYRICS200 : list Z := [76;89;82;73;67;83;50;48;48].
Definition LYRICSBEGIN : list Z := [76;89;82;73;67;83;66;69;71;73;78].
Definition HAS_HEADER : Z := 2147483648.    (* 1 << 31 *)
Definition IS_HEADER : Z := 536870912.      (* 1 << 29 *)
Definition W32 : Z := 4294967296.

(* ------------------------------------------------------------------ items *)
Record item := mkItem { ikey : list Z; ikind : Z; ivalue : list Z }.

(* struct.pack("<2I", len(value_data), value.kind << 1) + key + b"\0" + value_data *)
Definition render_item (it : item) : list Z :=
  le_encode 4 (zlen (ivalue it)) ++ le_encode 4 (2 * ikind it) ++ ikey it ++ [0] ++ ivalue it.

(* is_valid_apev2_key on the ASCII bytes of the key *)
Definition key_char (c : Z) : bool := (32 <=? c) && (c <=? 126).
Definition reserved_keys : list (list Z) := [[79;103;103;83]; [84;65;71]; [73;68;51]; [77;80;43]].
Definition apekey_valid (k : list Z) : bool :=
  (2 <=? zlen k) && (zlen k <=? 255) && forallb key_char k && negb (existsb (list_eqb k) reserved_keys).
Definition kind_valid (k : Z) : bool := (k =? 0) || (k =? 1) || (k =? 2).
Definition item_valid (it : item) : bool := apekey_valid (ikey it) && kind_valid (ikind it).
Definition item_fits (it : item) : bool :=
  (zlen (ivalue it) <? W32) && (0 <=? ikind it) && (2 * ikind it <? W32).

(* ------------------------------------------------------------------ tag renderer (APEv2.save) *)
Definition ape_hdr (ver size count flags : Z) : list Z :=
  APETAGEX ++ le_encode 4 ver ++ le_encode 4 size ++ le_encode 4 count ++ le_encode 4 flags ++ zeros 8.
(* tags.sort(key=lambda tag: (len(tag), tag)); b"".join(tags) *)
Definition render_body (items : list item) : list Z :=
  concat (isort len_lex_leb (map render_item items)).
Definition ape_render_tag (items : list item) : list Z :=
  let body := render_body items in
  ape_hdr 2000 (zlen body + 32) (zlen items) (HAS_HEADER + IS_HEADER) ++ body ++
  ape_hdr 2000 (zlen body + 32) (zlen items) HAS_HEADER.
(* struct.pack raises struct.error outside 32 bits *)
Definition tag_fits (items : list item) : bool :=
  forallb item_fits items && (zlen (render_body items) + 32 <? W32) && (zlen items <? W32).

(* ------------------------------------------------------------------ mirror of _APEv2Data *)
Definition rd (f : list Z) (p n : Z) : list Z := ztake n (zdrop p f).          (* seek(p); read(n) *)
Definition is_marker (f : list Z) (p : Z) : bool := list_eqb (rd f p 8) APETAGEX.
(* fileobj.seek(off, 1) from pos: None = IOError *)
Definition rseek (real : bool) (pos off : Z) : option Z :=
  let t := pos + off in if t <? 0 then (if real then None else Some 0) else Some t.

(* Python's int(bytes): optional surrounding ASCII whitespace, optional sign, decimal digits with single
   underscores between digits *)
Definition is_ws (c : Z) : bool := (c =? 32) || ((9 <=? c) && (c <=? 13)).
Definition is_digit (c : Z) : bool := (48 <=? c) && (c <=? 57).
Fixpoint strip_l (l : list Z) : list Z :=
  match l with c :: r => if is_ws c then strip_l r else l | [] => [] end.
Definition strip (l : list Z) : list Z := rev (strip_l (rev (strip_l l))).
Fixpoint digits_acc (acc : Z) (prev : bool) (l : list Z) : option Z :=
  match l with
  | [] => if prev then Some acc else None
  | c :: r => if is_digit c then digits_acc (acc * 10 + (c - 48)) true r
              else if (c =? 95) && prev then digits_acc acc false r else None
  end.
Definition ape_pyint (l : list Z) : option Z :=
  match strip l with
  | [] => None
  | c :: r => if c =? 45 then option_map Z.opp (digits_acc 0 false r)
              else if c =? 43 then digits_acc 0 false r
              else digits_acc 0 false (c :: r)
  end.

Inductive found := FNone | FFooter (p : Z) | FStart.
Definition find_start (f : list Z) : found := if is_marker f 0 then FStart else FNone.

(* __find_metadata *)
Definition find_metadata (real : bool) (f : list Z) : found :=
  let n := zlen f in
  match (if n <? 32 then None else Some (n - 32)) with
  | None => FNone                                     (* get_size(fileobj) < 32: seek(0, 2); return *)
  | Some p0 =>
    if is_marker f p0 then FFooter p0 else
    if n <? 128 then find_start f else
    if negb (list_eqb (rd f (n - 128) 3) TAG3) then find_start f else
    match rseek real (n - 125) (-35) with
    | None => find_start f
    | Some p1 =>
      let r8 := rd f p1 8 in
      if list_eqb r8 APETAGEX then FFooter p1 else
      let pos3 := p1 + zlen r8 + 15 in
      let r9 := rd f pos3 9 in
      if negb (list_eqb r9 LYRICS200) then find_start f else
      match rseek real (pos3 + zlen r9) (-15) with
      | None => find_start f
      | Some pos5 =>
        let r6 := rd f pos5 6 in
        match ape_pyint r6 with
        | None => find_start f                        (* ValueError -> IOError -> pass *)
        | Some off =>
          match rseek real (pos5 + zlen r6) (-32 - off - 6) with
          | None => find_start f
          | Some pos7 => if is_marker f pos7 then FFooter pos7 else find_start f
          end
        end
      end
    end
  end.

Record loc := mkLoc {
  l_start : Z; l_header : Z; l_data : Z; l_footer : option Z; l_end : Z;
  l_size : Z;        (* size of the item area (footer excluded when a footer was found) *)
  l_items : Z; l_flags : Z; l_at_start : bool }.

(* __fix_brokenness: while start >= 24: seek(-24, 1); read(8) == APETAGEX -> start = that position.
   (start >= 24 keeps the seek target inside the file, so the IOError branch is dead for both flavours.) *)
Fixpoint fix_start (fuel : nat) (real : bool) (f : list Z) (start : Z) : result Z :=
  if start <? 24 then Ok start else
  match fuel with
  | O => Raise EOutOfFuel
  | S k =>
    match rseek real start (-24) with
    | None => Ok start
    | Some p => if is_marker f p then fix_start k real f p else Ok start
    end
  end.

(* _APEv2Data.__init__ seen through a public call: IOError is converted to apev2.error (MutagenError) *)
Definition ape_locate (real : bool) (f : list Z) : result (option loc) :=
  match find_metadata real f with
  | FNone => Ok None
  | fm =>
    let meta := match fm with FFooter p => p | _ => 0 end in
    let d16 := rd f (meta + 8) 16 in
    if negb (zlen d16 =? 16) then Raise EMutagen else
    let size := le_decode (zslice 4 8 d16) in
    let items := le_decode (zslice 8 12 d16) in
    let flags := le_decode (zslice 12 16 d16) in
    match fm with
    | FFooter p =>
      let end_ := p + 32 in
      let data := end_ - size in
      let header := if Z.land flags HAS_HEADER =? 0 then data else data - 32 in
      if size - 32 <? 0 then Raise EMutagen else       (* raise APEBadItemError("invalid tag size") *)
      if header <? 0 then Raise EMutagen else          (* raise APEBadItemError("tag size larger than the file") *)
      match fix_start (S (length f)) real f header with
      | Raise e => Raise e
      | Ok start => Ok (Some (mkLoc start header data (Some p) end_ (size - 32) items flags false))
      end
    | _ =>
      (* a header claiming more than the file holds: the tag ends where the file ends *)
      let end_ := Z.min (32 + size) (Z.max (zlen f) 32) in
      let footer := if is_marker f (end_ - 32) then Some (end_ - 32) else None in
      let size' := match footer with Some _ => size - 32 | None => size end in
      if size' <? 0 then Raise EMutagen else           (* raise APEBadItemError("invalid tag size") *)
      Ok (Some (mkLoc 0 0 32 footer end_ size' items flags true))
    end
  end.

(* fileobj.seek(self.data); self.tag = fileobj.read(self.size) *)
Definition loc_tag (f : list Z) (l : loc) : list Z := rd f (l_data l) (l_size l).   (* l_size >= 0 *)

(* delete_bytes(fobj, size, offset) as a pure function (Gen_util.delete_bytes, C11) *)
Definition del_region (f : list Z) (size offset : Z) : result (list Z) :=
  if (size <? 0) || (offset <? 0) then Raise EValue else
  if zlen f - offset - size <? 0 then Raise EValue else
  Ok (ztake offset f ++ zdrop (offset + size) f).

(* APEv2.save: an at-start tag is cut out with delete_bytes; otherwise the file is truncated at the old
   tag start (which drops a trailing ID3v1/Lyrics3 block too); the new tag is appended *)
Definition ape_save (real : bool) (f : list Z) (items : list item) : result (list Z) :=
  match ape_locate real f with
  | Raise e => Raise e
  | Ok ol =>
    match (match ol with
           | None => Ok f
           | Some l => if l_at_start l then del_region f (l_end l - l_start l) (l_start l)
                       else Ok (ztake (l_start l) f)
           end) with
    | Raise e => Raise e
    | Ok base =>
      if tag_fits items then Ok (splice base (zlen base) 0 (ape_render_tag items)) else Raise EStruct
    end
  end.

(* APEv2.delete *)
Definition ape_delete (real : bool) (f : list Z) : result (list Z) :=
  match ape_locate real f with
  | Raise e => Raise e
  | Ok None => Ok f
  | Ok (Some l) => del_region f (l_end l - l_start l) (l_start l)
  end.

(* ------------------------------------------------------------------ mirror of APEv2.__parse_tag / load *)
Fixpoint find_nul (l : list Z) : option (list Z * list Z) :=
  match l with
  | [] => None
  | b :: r => if b =? 0 then Some ([], r) else
              match find_nul r with Some (k, v) => Some (b :: k, v) | None => None end
  end.

(* bytes.decode("utf-8") succeeds (Unicode table 3-7: no overlong forms, no surrogates, <= U+10FFFF) *)
Definition cont (b : Z) : bool := (128 <=? b) && (b <=? 191).
Fixpoint ape_utf8_valid (l : list Z) : bool :=
  match l with
  | [] => true
  | b0 :: r0 =>
    if (0 <=? b0) && (b0 <=? 127) then ape_utf8_valid r0 else
    match r0 with
    | [] => false
    | b1 :: r1 =>
      if (194 <=? b0) && (b0 <=? 223) then cont b1 && ape_utf8_valid r1 else
      match r1 with
      | [] => false
      | b2 :: r2 =>
        if (224 <=? b0) && (b0 <=? 239) then
          (if b0 =? 224 then (160 <=? b1) && (b1 <=? 191)
           else if b0 =? 237 then (128 <=? b1) && (b1 <=? 159) else cont b1)
          && cont b2 && ape_utf8_valid r2
        else
        match r2 with
        | [] => false
        | b3 :: r3 =>
          if (240 <=? b0) && (b0 <=? 244) then
            (if b0 =? 240 then (144 <=? b1) && (b1 <=? 191)
             else if b0 =? 244 then (128 <=? b1) && (b1 <=? 143) else cont b1)
            && cont b2 && cont b3 && ape_utf8_valid r3
          else false
        end
      end
    end
  end.

Fixpoint ape_mut_items (n : nat) (d : list Z) : result (list item) :=
  match n with
  | O => Ok []
  | S n' =>
    match d with
    | [] => Ok []                                     (* "someone writes wrong item counts" *)
    | _ =>
      if zlen d <? 8 then Raise EMutagen else
      let size := le_decode (ztake 4 d) in
      let flags := le_decode (zslice 4 8 d) in
      let kind := Z.shiftr (Z.land flags 6) 1 in
      if kind =? 3 then Raise EMutagen else
      match find_nul (zdrop 8 d) with
      | None => Raise EMutagen
      | Some (key, rest) =>
        if negb (forallb (fun c => c <? 128) key) then Raise EMutagen else
        if negb (apekey_valid key) then Raise EMutagen else
        if zlen rest <? size then Raise EMutagen else
        let v := ztake size rest in
        if negb (kind =? 1) && negb (ape_utf8_valid v) then Raise EMutagen else
        match ape_mut_items n' (zdrop size rest) with
        | Ok its => Ok (mkItem key kind v :: its)
        | Raise e => Raise e
        end
      end
    end
  end.

(* APEv2.load: None = APENoHeaderError (no tag, or an empty one); items in file order *)
Definition ape_mut_load (real : bool) (f : list Z) : result (option (list item)) :=
  match ape_locate real f with
  | Raise e => Raise e
  | Ok None => Ok None
  | Ok (Some l) =>
    match loc_tag f l with
    | [] => Ok None
    | tag => match ape_mut_items (Z.to_nat (Z.min (l_items l) (zlen tag))) tag with
             | Ok its => Ok (Some its)
             | Raise e => Raise e
             end
    end
  end.

(* module-level delete(filething): APEv2(filething) must load; APENoHeaderError -> nothing to do *)
Definition ape_moddelete (real : bool) (f : list Z) : result (list Z) :=
  match ape_mut_load real f with
  | Raise e => Raise e
  | Ok None => Ok f
  | Ok (Some _) => ape_delete real f
  end.

(* ------------------------------------------------------------------ strict independent reader *)
Record ape_struct := mkS {
  pbody : list Z;                 (* everything before the tag (the whole file when there is no tag) *)
  ptag : option (list item);      (* items in file order *)
  phashdr : bool;
  ptrailer : list Z               (* ID3v1 / Lyrics3v2+ID3v1 block after the tag *)
}.

Fixpoint dec_val (acc : Z) (l : list Z) : Z :=
  match l with [] => acc | c :: r => dec_val (acc * 10 + (c - 48)) r end.

(* where the tag ends: at EOF, before a 128-byte ID3v1 tag, or before Lyrics3v2 + ID3v1 *)
Definition strict_end (f : list Z) : option Z :=
  let n := zlen f in
  if (32 <=? n) && is_marker f (n - 32) then Some n else
  if (160 <=? n) && list_eqb (rd f (n - 128) 3) TAG3 then
    if is_marker f (n - 160) then Some (n - 128) else
    if list_eqb (rd f (n - 137) 9) LYRICS200 && forallb is_digit (rd f (n - 143) 6) then
      let e := n - 143 - dec_val 0 (rd f (n - 143) 6) in
      if (32 <=? e) && is_marker f (e - 32) && list_eqb (rd f e 11) LYRICSBEGIN then Some e else None
    else None
  else None.

Fixpoint ape_items (n : nat) (d : list Z) : result (list item * list Z) :=
  match n with
  | O => Ok ([], d)
  | S n' =>
    if zlen d <? 8 then Raise EMutagen else
    let size := le_decode (ztake 4 d) in
    let flags := le_decode (zslice 4 8 d) in
    if (flags <? 0) || (8 <=? flags) then Raise EMutagen else     (* bits 3..31 of the item flags are reserved *)
    let kind := flags / 2 in
    if kind =? 3 then Raise EMutagen else
    match find_nul (zdrop 8 d) with
    | None => Raise EMutagen
    | Some (key, rest) =>
      if negb (apekey_valid key) then Raise EMutagen else
      if zlen rest <? size then Raise EMutagen else
      match ape_items n' (zdrop size rest) with
      | Ok (its, r) => Ok (mkItem key kind (ztake size rest) :: its, r)
      | Raise e => Raise e
      end
    end
  end.

Definition ape_parse (f : list Z) : result ape_struct :=
  match strict_end f with
  | None => Ok (mkS f None false [])
  | Some e =>
    let ft := e - 32 in
    let size := le_decode (rd f (ft + 12) 4) in
    let count := le_decode (rd f (ft + 16) 4) in
    let flags := le_decode (rd f (ft + 20) 4) in
    if size <? 32 then Raise EMutagen else
    let hashdr := negb (Z.land flags HAS_HEADER =? 0) in             (* bit 31: the tag contains a header *)
    let start := e - size - (if hashdr then 32 else 0) in
    if start <? 0 then Raise EMutagen else
    if negb (Z.land flags IS_HEADER =? 0) then Raise EMutagen else     (* bit 29: a footer is not a header *)
    if hashdr && negb (is_marker f start && list_eqb (rd f (start + 8) 12) (rd f (ft + 8) 12)
                       && (le_decode (rd f (start + 20) 4) =? flags + IS_HEADER)) then Raise EMutagen else
    if size - 32 <? count then Raise EMutagen else
    match ape_items (Z.to_nat count) (rd f (e - size) (size - 32)) with
    | Ok (its, []) => Ok (mkS (ztake start f) (Some its) hashdr (zdrop e f))
    | Ok (_, _ :: _) => Raise EMutagen                 (* the items do not tile the body *)
    | Raise x => Raise x
    end
  end.

(* the marker occurs somewhere in l *)
Fixpoint has_marker (l : list Z) : bool :=
  match l with
  | [] => false
  | _ :: r => starts_with APETAGEX l || has_marker r
  end.

(* well-formed: the strict reader accepts the file and nothing outside the tag looks like a tag preamble
   (a file with a second APEv2 tag, a duplicated PyMusepack preamble or a tag at its start is not) *)
Definition ape_wf (f : list Z) : bool :=
  match ape_parse f with
  | Ok s => negb (has_marker (pbody s ++ ptrailer s))
  | Raise _ => false
  end.

(* independent reader of the tags; an empty tag reads as no tag *)
Definition ape_load (f : list Z) : result (option (list item)) :=
  match ape_parse f with
  | Ok s => Ok (match ptag s with Some (i :: r) => Some (i :: r) | _ => None end)
  | Raise e => Raise e
  end.

(* ------------------------------------------------------------------ builder of synthetic layouts *)
(* body ++ [header] ++ items in the given order ++ footer ++ trailer *)
Definition ape_build (body : list Z) (ver : Z) (hashdr : bool) (items : list item) (trailer : list Z) : list Z :=
  let b := flat_map render_item items in
  let fl := if hashdr then HAS_HEADER else 0 in
  body ++ (if hashdr then ape_hdr ver (zlen b + 32) (zlen items) (fl + IS_HEADER) else []) ++ b ++
  ape_hdr ver (zlen b + 32) (zlen items) fl ++ trailer.

(* EXTRACT: ape_locate ape_parse ape_wf ape_load ape_save ape_delete ape_moddelete ape_build ape_mut_load
   ape_pyint ape_render_tag ape_utf8_valid loc_tag *)
