(* Model.Fam_dsf: DSF files (mutagen/dsf.py) as an executable reference model.  DEFINITIONS ONLY.
   Layout: "DSD " chunk of 28 bytes (u64 LE chunk size = 28, total file size, pointer to the metadata chunk),
   "fmt " chunk of 52 bytes, "data" chunk (12-byte header + samples); the ID3v2 tag sits at the pointer and runs
   to the end of the file.  The tag is opaque (see Model.Fam_carrier); dsf_save takes the bytes _prepare_data
   rendered, dsf_save_cb (C09) composes it with id3_prepare.
     - STRICT independent reader from the layout: dsf_parse / dsf_wf / dsf_load;
     - MIRRORS of mutagen: mut_dsd = DSDChunk.load, mut_fmt = FormatChunk.load, mut_data = DataChunk.load,
       dsf_save = _DSFID3.save (pointer creation at EOF, write at the pointer, truncate, total size, header rewrite),
       dsf_delete = module-level delete (DSFFile(...) parses all three chunks; pointer := 0, total := pointer, truncate). *)
From Coq Require Import ZArith List Bool.
Import ListNotations.
Require Import Base.Py Model.Splice Model.Fam_carrier.
Open Scope Z_scope.

Definition s_DSD := [68; 83; 68; 32].      (* b"DSD " *)
Definition s_fmt := [102; 109; 116; 32].   (* b"fmt " *)
Definition s_data := [100; 97; 116; 97].   (* b"data" *)
Definition u64 (v : Z) : list Z := le_encode 8 v.                        (* struct.pack("<Q", v) *)
Definition fits64 (v : Z) : bool := (0 <=? v) && (v <? 256 ^ 8).
(* DSDChunk.write *)
Definition dsd_header (total ptr : Z) : list Z := s_DSD ++ u64 28 ++ u64 total ++ u64 ptr.

(* ------------------------------------------------------------------ mirror of the chunk loaders *)
(* DSDChunk.load at offset 0: (total_size, offset_metdata_chunk) *)
Definition mut_dsd (f : list Z) : result (Z * Z) :=
  if zlen f <? 28 then Raise EMutagen else                                   (* "DSF chunk truncated" *)
  if negb (list_eqb (ztake 4 f) s_DSD) then Raise EMutagen else              (* "DSF dsd header not found" *)
  if negb (le_decode (zslice 4 12 f) =? 28) then Raise EMutagen else         (* "DSF dsd header size mismatch" *)
  Ok (le_decode (zslice 12 20 f), le_decode (zslice 20 28 f)).
(* FormatChunk.load at offset 28 *)
Definition mut_fmt (f : list Z) : result unit :=
  let d := zslice 28 80 f in
  if negb (zlen d =? 52) then Raise EMutagen else
  if negb (list_eqb (ztake 4 d) s_fmt) then Raise EMutagen else
  if negb (le_decode (zslice 4 12 d) =? 52) then Raise EMutagen else
  if negb (le_decode (zslice 12 16 d) =? 1) then Raise EMutagen else         (* "Unsupported format version" *)
  if negb (le_decode (zslice 16 20 d) =? 0) then Raise EMutagen else         (* "Unsupported format ID" *)
  Ok tt.
(* DataChunk.load at offset 80 *)
Definition mut_data (f : list Z) : result unit :=
  let d := zslice 80 92 f in
  if negb (zlen d =? 12) then Raise EMutagen else
  if negb (list_eqb (ztake 4 d) s_data) then Raise EMutagen else
  if le_decode (zslice 4 12 d) <? 12 then Raise EMutagen else
  Ok tt.

(* ------------------------------------------------------------------ mirror of the writers *)
(* where the tag goes and what _prepare_data is told: (pointer, available = extent from the pointer to EOF) *)
Definition dsf_target (f : list Z) : result (Z * Z) :=
  rbind (mut_dsd f) (fun tp =>
  let ptr := if snd tp =? 0 then zlen f else snd tp in
  Ok (ptr, zlen f - ptr)).

(* _DSFID3.save with the tag bytes _prepare_data returned:
     if pointer == 0: pointer = EOF (header rewritten -- overwritten again below)
     seek(pointer); write(data); truncate(); total_size = tell(); dsd_header.write() *)
Definition dsf_save (f : list Z) (tag : list Z) : result (list Z) :=
  rbind (dsf_target f) (fun pa =>
  let ptr := fst pa in
  let fz := if zlen f <? ptr then f ++ zeros (ptr - zlen f) else f in      (* a write past EOF zero-fills *)
  let f1 := ztake ptr fz ++ tag in
  let total := ptr + zlen tag in
  if negb (fits64 total) then Raise EStruct else
  Ok (patch f1 0 (dsd_header total ptr))).

(* trailing size: nothing follows the tag (start = pointer, available = extent to EOF) *)
Definition dsf_trailing (f : list Z) (pa : Z * Z) : Z := trailing_size (zlen f) (fst pa) (snd pa).
Definition dsf_padinfo (f : list Z) (pa : Z * Z) (framedata : list Z) : Z * Z :=
  pad_info framedata (snd pa) (dsf_trailing f pa).
Definition dsf_save_cb (f : list Z) (framedata : list Z) (v2_version : Z) (cb : Z -> Z -> Z) : result (list Z) :=
  rbind (dsf_target f) (fun pa =>
  rbind (id3_prepare framedata v2_version cb (snd pa) (dsf_trailing f pa)) (fun tag => dsf_save f tag)).

(* module-level delete(filething) *)
Definition dsf_delete (f : list Z) : result (list Z) :=
  rbind (mut_dsd f) (fun tp =>
  rbind (mut_fmt f) (fun _ =>
  rbind (mut_data f) (fun _ =>
  let ptr := snd tp in
  if ptr =? 0 then Ok f else
  Ok (ztake ptr (patch f 0 (dsd_header ptr 0)))))).

(* ------------------------------------------------------------------ strict reader *)
Record dsf_struct := mkDsf { d_audio : list Z;             (* bytes [28, pointer or EOF): fmt and data chunks *)
                             d_tag : option (list Z) }.    (* bytes [pointer, EOF) *)

Definition dsf_parse (f : list Z) : result dsf_struct :=
  if zlen f <? 92 then Raise EMutagen else
  if negb (list_eqb (ztake 4 f) s_DSD) then Raise EMutagen else
  if negb (all_bytes (zslice 4 28 f)) then Raise EMutagen else
  if negb (le_decode (zslice 4 12 f) =? 28) then Raise EMutagen else
  if negb (le_decode (zslice 12 20 f) =? zlen f) then Raise EMutagen else       (* total size = file length *)
  let ptr := le_decode (zslice 20 28 f) in
  if negb (list_eqb (zslice 28 32 f) s_fmt) then Raise EMutagen else
  if negb (le_decode (zslice 32 40 f) =? 52) then Raise EMutagen else
  if negb (list_eqb (zslice 80 84 f) s_data) then Raise EMutagen else
  let aend := 80 + le_decode (zslice 84 92 f) in                              (* end of the data chunk *)
  if aend <? 92 then Raise EMutagen else
  if ptr =? 0 then
    if negb (aend =? zlen f) then Raise EMutagen else Ok (mkDsf (zdrop 28 f) None)
  else
    if negb (ptr =? aend) then Raise EMutagen else
    if zlen f <? ptr then Raise EMutagen else
    if negb (id3_tag_exact (zdrop ptr f)) then Raise EMutagen else              (* an ID3 header, tag runs to EOF *)
    Ok (mkDsf (zslice 28 ptr f) (Some (zdrop ptr f))).

Definition dsf_wf (f : list Z) : bool := is_ok (dsf_parse f).
Definition dsf_load (f : list Z) : result (option (list Z)) := rmap d_tag (dsf_parse f).

(* builder: fmt chunk body (40 bytes after its 12-byte header), sample bytes, optional tag *)
Definition dsf_build (fmt_body samples : list Z) (tag : option (list Z)) : list Z :=
  let audio := s_fmt ++ u64 52 ++ fmt_body ++ s_data ++ u64 (12 + zlen samples) ++ samples in
  let t := match tag with Some t => t | None => [] end in
  dsd_header (28 + zlen audio + zlen t) (match tag with Some _ => 28 + zlen audio | None => 0 end) ++ audio ++ t.

(* EXTRACT: Fam_dsf.dsf_parse Fam_dsf.dsf_wf Fam_dsf.dsf_load Fam_dsf.dsf_target Fam_dsf.dsf_save Fam_dsf.dsf_padinfo Fam_dsf.dsf_save_cb Fam_dsf.dsf_delete Fam_dsf.dsf_build Fam_dsf.mut_dsd *)
