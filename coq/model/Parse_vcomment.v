(* Model.Parse_vcomment -- exception-faithful mirror of mutagen._vorbis.VComment.__init__(bytes) /
   VComment.load(fileobj, errors='replace', framing=True) over a BytesIO.
   Text decoding with errors='replace' never raises and is not modelled; whether a comment is kept
   (is_valid_key of the part before the first '=') is decided on the raw bytes: bytes >= 0x80 end up as
   '?' or a replacement character, which the ASCII-'replace' encoding turns into '?', a valid key
   character.  Definitions only. *)
From Coq Require Import ZArith List Bool.
Import ListNotations.
Require Import Base.Py Model.Parse_base.
Open Scope Z_scope.

Fixpoint vc_before_eq (l : list Z) : option (list Z) :=           (* string.split('=', 1)[0], None: no '=' *)
  match l with
  | [] => None
  | x :: t => if x =? 61 then Some [] else match vc_before_eq t with Some r => Some (x :: r) | None => None end
  end.
Definition vc_key_char_ok (b : Z) : bool := (128 <=? b) || ((32 <=? b) && (b <=? 125)).
(* is the (tag, value) pair appended?  no '=': tag = "unknown%d" (valid) *)
Definition vc_kept (string : list Z) : bool :=
  match vc_before_eq string with
  | None => true
  | Some tag => negb (match tag with [] => true | _ => false end) && forallb vc_key_char_ok tag
  end.

Definition vc_is_overflow_or_memory (e : exc) : bool := exc_eqb e EOverflow.
Definition vc_is_cdata_or_type (e : exc) : bool := exc_eqb e EStruct || exc_eqb e EType.

(* for i in range(count): *)
Fixpoint vc_loop (fuel : nat) (i count kept : Z) : P Z :=
  match fuel with
  | O => praise EOutOfFuel
  | S f =>
    if count <=? i then pret kept
    else
      lb <~ p_read 4 ;;
      length <~ plift (unpack_le 4 lb) ;;
      string <~ pcatch (p_read length) vc_is_overflow_or_memory (fun _ => praise EMutagen) ;;
      vc_loop f (i + 1) count (if vc_kept string then kept + 1 else kept)
  end.

Record vc_info := mkVc { vc_vendor_len : Z; vc_count : Z; vc_kept_n : Z; vc_size : Z }.

Definition vc_load_body (fuel : nat) : P vc_info :=
  pcatch (
    vb <~ p_read 4 ;;
    vendor_length <~ plift (unpack_le 4 vb) ;;
    vendor <~ p_read vendor_length ;;
    cb <~ p_read 4 ;;
    count <~ plift (unpack_le 4 cb) ;;
    kept <~ vc_loop fuel 0 count 0 ;;
    (* if framing: *)
    fb <~ p_read 1 ;;
    match fb with
    | [] => praise EMutagen                                         (* framing bit missing *)
    | b :: _ => if b mod 2 =? 0 then praise EMutagen                (* VorbisUnsetFrameError *)
                else size <~ p_tell ;; pret (mkVc (zlen vendor) count kept size)
    end) vc_is_cdata_or_type (fun _ => praise EMutagen).

(* each comment costs at least its 4 length bytes: len/4 + 1 iterations; the wrapper gives len + 1 *)
Definition vc_fuel (d : list Z) : nat := lin_fuel 1 1 d.
Definition vcomment_load (d : list Z) : result vc_info := prun (vc_load_body (vc_fuel d)) d.
Definition vc_info_list (i : vc_info) : list Z := [vc_vendor_len i; vc_count i; vc_kept_n i; vc_size i].

(* EXTRACT: vcomment_load vc_info_list *)
