(* Model.Sort: the sort used by writers that emit an unordered mapping in a canonical order
   (APEv2.save: tags.sort(key=lambda tag: (len(tag), tag)); ID3 frame order).  Insertion sort over a
   boolean "less or equal"; definitions only.  Proofs.SortPerm shows that for a total, transitive and
   antisymmetric order the result depends only on the multiset of the elements, so it coincides with
   what Python's list.sort produces and is independent of the insertion order. *)
From Coq Require Import ZArith List Bool.
Import ListNotations.
Require Import Base.Py.
Open Scope Z_scope.

Fixpoint insert {A} (leb : A -> A -> bool) (x : A) (l : list A) : list A :=
  match l with
  | [] => [x]
  | y :: r => if leb x y then x :: l else y :: insert leb x r
  end.
Fixpoint isort {A} (leb : A -> A -> bool) (l : list A) : list A :=
  match l with
  | [] => []
  | x :: r => insert leb x (isort leb r)
  end.

(* Python's comparison of two bytes objects (lexicographic, a proper prefix is smaller) *)
Fixpoint lex_leb (a b : list Z) : bool :=
  match a, b with
  | [], _ => true
  | _ :: _, [] => false
  | x :: a', y :: b' => (x <? y) || ((x =? y) && lex_leb a' b')
  end.
(* Python's comparison of the tuples (len(a), a) <= (len(b), b) *)
Definition len_lex_leb (a b : list Z) : bool :=
  (zlen a <? zlen b) || ((zlen a =? zlen b) && lex_leb a b).
