(* Model.Parse_smf -- exception-faithful mirror of mutagen.smf: _var_int, _read_track, _read_midi_length
   (chunk loop, event sort, tempo parts) and the IOError mapping of SMF.load, over a BytesIO.
   Floats are not modelled: the mirror returns the exact integer (ticks, tempo) parts of every track, from
   which the harness recomputes the duration with the implementation's formula; the one float operation
   that can raise (int too large to convert to float) is mirrored exactly.  Definitions only. *)
From Coq Require Import ZArith List Bool.
Import ListNotations.
Require Import Base.Py Model.Parse_base Model.Sort.
Open Scope Z_scope.

Notation "x <-r m ;; k" := (rbind m (fun x => k)) (at level 61, m at next level, right associativity).
Notation "' pat <-r m ;; k" := (rbind m (fun x => match x with pat => k end))
  (at level 61, pat pattern, m at next level, right associativity).

Definition rcatch {A} (r : result A) (c : exc -> bool) (h : exc -> result A) : result A :=
  match r with Raise e => if c e then h e else Raise e | _ => r end.
(* x[i] on a bytearray, negative indices counting from the end *)
Definition py_index (i : Z) (l : list Z) : result Z :=
  let j := if i <? 0 then i + zlen l else i in
  if (0 <=? j) && (j <? zlen l) then Ok (znth j l) else Raise EIndex.
Definition is_index (e : exc) : bool := exc_eqb e EIndex.
Definition is_overflow (e : exc) : bool := exc_eqb e EOverflow.

Definition smf_MThd := [77;84;104;100].
Definition smf_MTrk := [77;84;114;107].

(* _var_int(data, offset) *)
Fixpoint smf_var_int (fuel : nat) (data : list Z) (offset val : Z) : result (Z * Z) :=
  match fuel with
  | O => Raise EOutOfFuel
  | S f =>
    x <-r rcatch (py_index offset data) is_index (fun _ => Raise EMutagen) ;;
    let val := val * 128 + x mod 128 in
    if x <? 128 then Ok (val, offset + 1) else smf_var_int f data (offset + 1) val
  end.

Definition event := (Z * Z * Z)%type.          (* (deltasum, TEMPO=0 | MIDI=1, data) *)

(* the `while off < len(chunk):` loop of _read_track; events/tempos are accumulated in reverse *)
Fixpoint smf_track_loop (fuel : nat) (chunk : list Z) (off deltasum status : Z) (events tempos : list event)
  : result (list event * list event) :=
  match fuel with
  | O => Raise EOutOfFuel
  | S f =>
    let n := zlen chunk in
    let vf := S (length chunk) in
    if negb (off <? n) then Ok (rev events, rev tempos)
    else
      ' (delta, off) <-r smf_var_int vf chunk off 0 ;;
      let deltasum := deltasum + delta in
      if n <=? off then Raise EMutagen
      else
        event_type <-r py_index off chunk ;;
        let off := off + 1 in
        if event_type =? 255 then
          if n <=? off then Raise EMutagen
          else
            meta_type <-r py_index off chunk ;;
            let off := off + 1 in
            ' (num, off) <-r smf_var_int vf chunk off 0 ;;
            tempos' <-r (if meta_type =? 81 then
                           let data := lslice off (off + num) chunk in
                           if negb (zlen data =? 3) then Raise EMutagen
                           else tempo <-r unpack_be 4 (0 :: data) ;; Ok ((deltasum, 0, tempo) :: tempos)
                         else Ok tempos) ;;
            smf_track_loop f chunk (off + num) deltasum status events tempos'
        else if (event_type =? 240) || (event_type =? 247) then
          ' (val, off) <-r smf_var_int vf chunk off 0 ;;
          smf_track_loop f chunk (off + val) deltasum status events tempos
        else
          ' (off, event_type, status) <-r
             (if event_type <? 128 then Ok (off + 1, status, status)
              else if event_type <? 240 then Ok (off + 2, event_type, event_type)
              else Raise EMutagen) ;;
          let off := if (event_type / 16 =? 13) || (event_type / 16 =? 12) then off - 1 else off in
          smf_track_loop f chunk off deltasum status ((deltasum, 1, delta) :: events) tempos
  end.
Definition smf_read_track (chunk : list Z) : result (list event * list event) :=
  smf_track_loop (S (length chunk)) chunk 0 0 0 [] [].

(* read_chunk(fileobj) *)
Definition smf_read_chunk : P (list Z * list Z) :=
  info <~ p_read 8 ;;
  if negb (zlen info =? 8) then praise EMutagen
  else
    chunklen <~ plift (unpack_be 4 (zdrop 4 info)) ;;
    data <~ p_read chunklen ;;
    if negb (zlen data =? chunklen) then praise EMutagen
    else pret (ztake 4 info, data).

(* tuple comparison of events.sort() *)
Definition ev_leb (x y : event) : bool :=
  let '(a1, b1, c1) := x in let '(a2, b2, c2) := y in
  (a1 <? a2) || ((a1 =? a2) && ((b1 <? b2) || ((b1 =? b2) && (c1 <=? c2)))).

(* the per-track `for (dummy, type_, data) in events:` pass: (deltasum, tempo) parts *)
Fixpoint smf_parts (events : list event) (tempo deltasum : Z) (parts : list (Z * Z)) : list (Z * Z) :=
  match events with
  | [] => rev ((deltasum, tempo) :: parts)
  | (_, ty, data) :: r =>
    if ty =? 0 then smf_parts r data 0 ((deltasum, tempo) :: parts)
    else smf_parts r tempo (deltasum + data) parts
  end.

(* the `for tracknum in range(ntracks):` loop; first_tempos = [] stands for None as well (`first_tempos or tempos`) *)
Fixpoint smf_tracks_loop (fuel : nat) (remaining format_ : Z) (first_tempos : list event) (tracks : list (list event))
  : P (list (list event)) :=
  match fuel with
  | O => praise EOutOfFuel
  | S f =>
    if remaining <=? 0 then pret (rev tracks)
    else
      ' (identifier, chunk) <~ smf_read_chunk ;;
      if negb (list_eqb identifier smf_MTrk) then smf_tracks_loop f (remaining - 1) format_ first_tempos tracks
      else
        ' (events, tempos) <~ plift (smf_read_track chunk) ;;
        let first_tempos := match first_tempos with [] => tempos | _ => first_tempos end in
        let tempos := if format_ =? 1 then first_tempos else tempos in
        let events := isort ev_leb (events ++ tempos) in
        smf_tracks_loop f (remaining - 1) format_ first_tempos (events :: tracks)
  end.

(* int -> float conversion of `deltasum / float(tickdiv)`: OverflowError from 2^1024 - 2^970 on *)
Definition smf_float_max : Z := 2 ^ 1024 - 2 ^ 970.
Definition smf_duration_check (parts : list (Z * Z)) : result unit :=
  rcatch (if existsb (fun x => smf_float_max <=? fst x) parts then Raise EOverflow else Ok tt)
         is_overflow (fun _ => Raise EMutagen).

Record smf_info := mkSmf { si_tickdiv : Z; si_tracks : list (list (Z * Z)) }.

Fixpoint smf_check_all (ts : list (list (Z * Z))) : result unit :=
  match ts with [] => Ok tt | t :: r => _ <-r smf_duration_check t ;; smf_check_all r end.

(* _read_midi_length *)
Definition smf_read_midi_length (fuel : nat) : P smf_info :=
  ' (identifier, chunk) <~ smf_read_chunk ;;
  if negb (list_eqb identifier smf_MThd) then praise EMutagen
  else if negb (zlen chunk =? 6) then praise EMutagen
  else
    format_ <~ plift (unpack_be 2 (zslice 0 2 chunk)) ;;        (* struct.unpack(">HHH", chunk) *)
    ntracks <~ plift (unpack_be 2 (zslice 2 4 chunk)) ;;
    tickdiv <~ plift (unpack_be 2 (zslice 4 6 chunk)) ;;
    if 1 <? format_ then praise EMutagen
    else if negb (tickdiv / 32768 =? 0) then praise EMutagen
    else if tickdiv =? 0 then praise EMutagen
    else
      tracks <~ smf_tracks_loop fuel ntracks format_ [] [] ;;
      let parts := map (fun ev => smf_parts ev 500000 0 []) tracks in
      plift (smf_check_all parts) ;;~
      match parts with
      | [] => praise EMutagen                                     (* if not durations: raise SMFError("no tracks") *)
      | _ => pret (mkSmf tickdiv parts)
      end.

(* SMF.load: try: SMFInfo(fileobj) except IOError as e: raise SMFError(e) *)
Definition smf_fuel (d : list Z) : nat := lin_fuel 1 1 d.
Definition smf_load (d : list Z) : result smf_info := prun (pconvert_io (smf_read_midi_length (smf_fuel d))) d.

(* [tickdiv; ntracks; then per track: number of parts; (ticks, tempo)*] *)
Definition smf_info_list (i : smf_info) : list Z :=
  si_tickdiv i :: zlen (si_tracks i) ::
  concat (map (fun t => zlen t :: concat (map (fun x => [fst x; snd x]) t)) (si_tracks i)).

(* EXTRACT: smf_load smf_info_list *)
