(* Model.Parse_headers -- exception-faithful mirrors of the fixed-size stream header readers
   TrueAudioInfo.__init__(fileobj, offset), MonkeysAudioInfo.__init__, OptimFROGInfo.__init__
   (slices + struct.unpack + the division guards), over a BytesIO.  Definitions only. *)
From Coq Require Import ZArith List Bool.
Import ListNotations.
Require Import Base.Py Model.Parse_base.
Open Scope Z_scope.

(* ---- trueaudio.TrueAudioInfo.__init__(fileobj, offset): offset = None is 0 (`offset or 0`) ---- *)
Definition tta_TTA := [84;84;65].
Definition tta_init (offset : Z) : P (list Z) :=
  pconvert_io (
    p_seek offset 0 ;;~
    header <~ p_read 18 ;;
    if negb (zlen header =? 18) || negb (starts_with tta_TTA header) then praise EMutagen
    else
      rate <~ plift (unpack_le 4 (zslice 10 14 header)) ;;
      samples <~ plift (unpack_le 4 (zslice 14 18 header)) ;;
      (* self.length = 0.0; if self.sample_rate != 0: self.length = float(samples) / self.sample_rate *)
      pret [rate; samples]).
Definition trueaudio_load (d : list Z) : result (list Z) := prun (tta_init 0) d.

(* ---- monkeysaudio.MonkeysAudioInfo.__init__ ---- *)
Definition mac_MAC := [77;65;67;32].
Definition mac_WAVEfmt := [87;65;86;69;102;109;116].
Definition mac_init : P (list Z) :=
  pconvert_io (
    header <~ p_read 76 ;;
    if negb (zlen header =? 76) || negb (starts_with mac_MAC header) then praise EMutagen
    else
      version <~ plift (unpack_le 2 (zslice 4 6 header)) ;;
      ' (bpf, ffb, tf, bits, ch, rate) <~
        (if 3980 <=? version then
           (* struct.unpack("<IIIHHI", header[56:76]) *)
           let s := zslice 56 76 header in
           if negb (zlen s =? 20) then praise EStruct
           else pret (le_decode (zslice 0 4 s), le_decode (zslice 4 8 s), le_decode (zslice 8 12 s),
                      le_decode (zslice 12 14 s), le_decode (zslice 14 16 s), le_decode (zslice 16 20 s))
         else
           level <~ plift (unpack_le 2 (zslice 6 8 header)) ;;
           let s := zslice 10 16 header in                                  (* "<HI" *)
           if negb (zlen s =? 6) then praise EStruct
           else
             let t := zslice 24 32 header in                                (* "<II" *)
             if negb (zlen t =? 8) then praise EStruct
             else
               let bpf := if 3950 <=? version then 73728 * 4
                          else if (3900 <=? version) || ((3800 <=? version) && (level =? 4000)) then 73728
                          else 9216 in
               bits <~ (if starts_with mac_WAVEfmt (zdrop 48 header)
                        then plift (unpack_le 2 (zslice 74 76 header)) else pret 0) ;;
               pret (bpf, le_decode (zslice 4 8 t), le_decode (zslice 0 4 t), bits,
                     le_decode (zslice 0 2 s), le_decode (zslice 2 6 s))) ;;
      (* self.length = 0.0; if (self.sample_rate != 0) and (total_frames > 0): ... / self.sample_rate *)
      blocks <~ (if negb (rate =? 0) && (0 <? tf)
                 then (if rate =? 0 then praise EZeroDiv else pret ((tf - 1) * bpf + ffb))
                 else pret 0) ;;
      pret [version; ch; rate; bits; blocks]).
Definition monkeysaudio_load (d : list Z) : result (list Z) := prun mac_init d.

(* ---- optimfrog.OptimFROGInfo.__init__ ---- *)
Definition ofr_OFR := [79;70;82;32].
Definition ofr_init : P (list Z) :=
  pconvert_io (
    header <~ p_read 76 ;;
    if negb (zlen header =? 76) || negb (starts_with ofr_OFR header) then praise EMutagen
    else
      data_size <~ plift (unpack_le 4 (zslice 4 8 header)) ;;
      if negb (data_size =? 12) && (data_size <? 15) then praise EMutagen
      else
        (* struct.unpack("<IHBBI", header[8:20]) *)
        let s := zslice 8 20 header in
        if negb (zlen s =? 12) then praise EStruct
        else
          let total := le_decode (zslice 0 4 s) + le_decode (zslice 4 6 s) * 4294967296 in
          let sample_type := znth 6 s in
          let channels := znth 7 s + 1 in
          let rate := le_decode (zslice 8 12 s) in
          (* if self.sample_rate: self.length = float(total_samples) / (self.channels * self.sample_rate) *)
          (if negb (rate =? 0) then (if channels * rate =? 0 then praise EZeroDiv else pret tt) else pret tt) ;;~
            enc <~ (if 15 <=? data_size then plift (unpack_le 2 (zslice 20 22 header)) else pret (-1)) ;;
            pret [channels; rate; sample_type; total; enc]).
Definition optimfrog_load (d : list Z) : result (list Z) := prun ofr_init d.

Definition hdr_id (l : list Z) : list Z := l.
(* EXTRACT: trueaudio_load monkeysaudio_load optimfrog_load hdr_id *)
