(* Model.Parse_mp4 -- exception-faithful mirror of mutagen.mp4._atom.Atom.__init__ (recursive container
   parse, nesting limit, 64-bit and zero lengths, the OverflowError guard) and Atoms.__init__, over a
   BytesIO; and of the AtomError -> mp4.error mapping at the head of MP4.load.
   AtomError is an Exception subclass that is NOT a MutagenError; Base.Py.exc has no constructor for
   it, so it is represented by EAssert here (the mirrored code contains no assert statement).
   The atom tree is returned flattened in pre-order: (level, offset, length, name, _dataoffset).
   Definitions only. *)
From Coq Require Import ZArith List Bool.
Import ListNotations.
Require Import Base.Py Model.Parse_base.
Open Scope Z_scope.

Definition EAtom : exc := EAssert.
Definition mp4_containers : list (list Z) :=
  [[109;111;111;118]; [117;100;116;97]; [116;114;97;107]; [109;100;105;97]; [109;101;116;97];
   [105;108;115;116]; [115;116;98;108]; [109;105;110;102]; [109;111;111;102]; [116;114;97;102]].
   (* moov udta trak mdia meta ilst stbl minf moof traf *)
Definition mp4_meta := [109;101;116;97].
Definition mp4_is_container (name : list Z) : bool := existsb (list_eqb name) mp4_containers.
Definition mp4_skip (name : list Z) : Z := if list_eqb name mp4_meta then 4 else 0.   (* _SKIP_SIZE.get(name, 0) *)

Definition flat := (Z * Z * Z * Z * Z)%type.
Definition mp4_is_struct (e : exc) : bool := exc_eqb e EStruct.
Definition mp4_is_overflow (e : exc) : bool := exc_eqb e EOverflow.
(* struct.unpack of exactly n bytes inside `try: ... except struct.error: raise AtomError("truncated data")` *)
Definition mp4_unpack (n : Z) (h : list Z) : P (list Z) :=
  pcatch (plift (if zlen h =? n then Ok h else Raise EStruct)) mp4_is_struct (fun _ => praise EAtom).

(* Atom.__init__(fileobj, level) and the loops `while cond(fileobj.tell()): append(Atom(fileobj, child_level))` *)
Fixpoint mp4_atom (fuel : nat) (level : Z) : P (list flat) :=
  match fuel with
  | O => praise EOutOfFuel
  | S f =>
    pcatch (
      if 64 <? level then praise EAtom
      else
        offset <~ p_tell ;;
        h <~ p_read 8 ;;
        h <~ mp4_unpack 8 h ;;
        let length := be_decode (ztake 4 h) in
        let name := zdrop 4 h in
        ' (length, dataoffset) <~
          (if length =? 1 then
             h2 <~ p_read 8 ;;
             h2 <~ mp4_unpack 8 h2 ;;
             let l := be_decode h2 in
             if l <? 16 then praise EAtom else pret (l, offset + 16)
           else if length =? 0 then
             if negb (level =? 0) then praise EAtom
             else p_seek 0 2 ;;~ e <~ p_tell ;; p_seek (offset + 8) 0 ;;~ pret (e - offset, offset + 8)
           else if length <? 8 then praise EAtom
           else pret (length, offset + 8)) ;;
        let me := (level, offset, length, be_decode name, dataoffset) in
        if mp4_is_container name then
          p_seek (mp4_skip name) 1 ;;~
          kids <~ mp4_seq f (level + 1) (fun pos => pos <? offset + length) ;;
          pret (me :: kids)
        else
          pcatch (p_seek (offset + length) 0) mp4_is_overflow (fun _ => praise EAtom) ;;~
          pret [me]
    ) is_eio (fun _ => praise EAtom)
  end
with mp4_seq (fuel : nat) (child_level : Z) (cond : Z -> bool) : P (list flat) :=
  match fuel with
  | O => praise EOutOfFuel
  | S f =>
    pos <~ p_tell ;;
    if negb (cond pos) then pret []
    else a <~ mp4_atom f child_level ;; r <~ mp4_seq f child_level cond ;; pret (a ++ r)
  end.

(* Atoms.__init__ *)
Definition mp4_atoms (fuel : nat) : P (list flat) :=
  pcatch (
    p_seek 0 2 ;;~
    e <~ p_tell ;;
    p_seek 0 0 ;;~
    mp4_seq fuel 0 (fun pos => pos + 8 <=? e)
  ) is_eio (fun _ => praise EAtom).

(* every atom costs at least its 8 header bytes, every loop test one more unit: len + 3 *)
Definition mp4_fuel (d : list Z) : nat := lin_fuel 1 3 d.
(* Atoms(fileobj): AtomError (EAssert) may escape ... *)
Definition mp4_atoms_raw (d : list Z) : result (list flat) := prun (mp4_atoms (mp4_fuel d)) d.
(* ... MP4.load: try: atoms = Atoms(fileobj)  except AtomError as err: reraise(error, err, ...) *)
Definition mp4_is_atomerror (e : exc) : bool := exc_eqb e EAtom.
Definition mp4_atoms_load (d : list Z) : result (list flat) :=
  prun (pcatch (mp4_atoms (mp4_fuel d)) mp4_is_atomerror (fun _ => praise EMutagen)) d.
Definition mp4_flat_list (l : list flat) : list Z :=
  concat (map (fun x => let '(a, b, c, n, e) := x in [a; b; c; n; e]) l).

(* EXTRACT: mp4_atoms_raw mp4_atoms_load mp4_flat_list *)
