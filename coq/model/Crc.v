(* Model.Crc: the Ogg page checksum, written from the Ogg specification (RFC 3533, section 6, field 8):
   CRC-32 with generator polynomial 0x04C11DB7, most significant bit first, initial value 0, no final
   xor, no reflection.  Bit-serial (no table), deliberately NOT the route mutagen takes
   (zlib.crc32 of the bit-reversed data with start value -1, complemented and bit-reversed again).
   Definitions only. *)
From Coq Require Import ZArith List.
Import ListNotations.
Open Scope Z_scope.

Definition crc_poly : Z := 0x04C11DB7.
Definition mask32 : Z := 0xFFFFFFFF.

(* one shift of the 32-bit register: the bit shifted out at the top selects the xor with the polynomial *)
Definition crc_shift (c : Z) : Z :=
  if Z.testbit c 31 then Z.land (Z.lxor (Z.shiftl c 1) crc_poly) mask32
  else Z.land (Z.shiftl c 1) mask32.

(* feed one byte: xor it into the top eight bits, then eight shifts *)
Definition crc_byte (c b : Z) : Z :=
  let c0 := Z.lxor c (Z.shiftl b 24) in
  crc_shift (crc_shift (crc_shift (crc_shift (crc_shift (crc_shift (crc_shift (crc_shift c0))))))).

Definition ogg_crc (l : list Z) : Z := fold_left crc_byte l 0.

(* EXTRACT: ogg_crc *)
