(* Model.IOWrap: the exception-conversion and file-ownership wrappers every public entry point goes
   through (mutagen/_util.py convert_error, loadfile/_openfile). *)
From Coq Require Import ZArith List Bool.
Import ListNotations.
Require Import Base.Py Base.FileModel.
Open Scope Z_scope.

(* @convert_error(IOError, error): an IOError raised by the body leaves as the format's error
   (a MutagenError subclass); everything else passes through *)
Definition convert_error {A} (m : M A) : M A :=
  try_catch m is_eio (fun _ => raise EMutagen).

(* what a caller may hand to load/save/delete *)
Inductive filething := FTFileObj | FTStrPath | FTBytesPath | FTPathLike | FTFileThing | FTNone | FTOther.

(* _openfile: which arguments make mutagen open (and therefore own and later close) a file itself *)
Definition opens_own_file (ft : filething) (has_filename_attr : bool) : result bool :=
  match ft with
  | FTFileObj => Ok false
  | FTFileThing => Ok false
  | FTStrPath | FTBytesPath | FTPathLike => Ok true
  | FTNone => if has_filename_attr then Ok true else Raise EType
  | FTOther => Raise EType
  end.

(* the handle's closed bit after the wrapped call: mutagen closes only what it opened itself *)
Definition closed_after (ft : filething) (has_filename_attr closed_before : bool) : bool :=
  match opens_own_file ft has_filename_attr with
  | Ok true => true
  | _ => closed_before
  end.

(* a public entry point: loadfile (open or adopt the file) around convert_error around the body *)
Definition entry {A} (body : M A) : M A := convert_error body.
(* EXTRACT: convert_error opens_own_file closed_after *)
