(* Model.Fam_mp4: the MP4 container family (mutagen/mp4/_atom.py, mutagen/mp4/__init__.py: MP4Tags.save,
   __save_existing, __save_new, __update_parents, __update_offsets, __update_offset_table, __update_tfhd,
   _find_padding, delete) as one executable reference model.  Definitions only.
   Bytes are list Z.  The rendered ilst atom is an INPUT of mp4_save (the item codecs are not part of the
   surgery this model is about).  Two readings of a file live here on purpose:
     - the MIRROR of mutagen's lenient atom reader (mp4_parse_atom / mp4_parse_kids / mp4_parse_top): children may
       overrun their parent, a container ends where its last child ends, size 0 only at top level;
     - the STRICT rules of the container (mp4_atom_ok / mp4_forest_ok / mp4_tables_ok, mp4_wf): atoms tile their
       parents at every level, the three size forms, offset tables well-formed and inside the file.  An
       independent strict walker written from the layout (mp4_walk) is the model-side twin of
       harness/fam/walkers.py:mp4_atoms. *)
From Coq Require Import ZArith List Bool.
Import ListNotations.
Require Import Base.Py Gen.Gen_tags Model.Splice.
Open Scope Z_scope.

(* ------------------------------------------------------------------ names and constants *)
Definition N_moov : list Z := [109;111;111;118].
Definition N_udta : list Z := [117;100;116;97].
Definition N_trak : list Z := [116;114;97;107].
Definition N_mdia : list Z := [109;100;105;97].
Definition N_meta : list Z := [109;101;116;97].
Definition N_ilst : list Z := [105;108;115;116].
Definition N_stbl : list Z := [115;116;98;108].
Definition N_minf : list Z := [109;105;110;102].
Definition N_moof : list Z := [109;111;111;102].
Definition N_traf : list Z := [116;114;97;102].
Definition N_free : list Z := [102;114;101;101].
Definition N_stco : list Z := [115;116;99;111].
Definition N_co64 : list Z := [99;111;54;52].
Definition N_tfhd : list Z := [116;102;104;100].
Definition N_hdlr : list Z := [104;100;108;114].
Definition N_mdat : list Z := [109;100;97;116].
Definition N_ftyp : list Z := [102;116;121;112].
Definition N_mdhd : list Z := [109;100;104;100].
Definition N_tkhd : list Z := [116;107;104;100].
Definition N_xtra : list Z := [88;116;114;97].
Definition N_mfhd : list Z := [109;102;104;100].

(* _CONTAINERS and _SKIP_SIZE of mutagen/mp4/_atom.py *)
Definition MP4_CONTAINERS : list (list Z) :=
  [N_moov; N_udta; N_trak; N_mdia; N_meta; N_ilst; N_stbl; N_minf; N_moof; N_traf].
Definition mp4_is_container (n : list Z) : bool := existsb (list_eqb n) MP4_CONTAINERS.
Definition mp4_skip (n : list Z) : Z := if list_eqb n N_meta then 4 else 0.

Definition MP4_U32 : Z := 4294967296.
Definition MP4_U64 : Z := 18446744073709551616.
Definition MP4_MAXPAD : Z := 4294967295.

(* ------------------------------------------------------------------ the atom tree (mutagen's Atom objects) *)
Inductive mp4_atom :=
  MAtom (name : list Z) (off len hdr : Z) (kids : option (list mp4_atom)).
Definition ma_name (a : mp4_atom) := match a with MAtom n _ _ _ _ => n end.
Definition ma_off (a : mp4_atom) := match a with MAtom _ o _ _ _ => o end.      (* Atom.offset *)
Definition ma_len (a : mp4_atom) := match a with MAtom _ _ l _ _ => l end.      (* Atom.length *)
Definition ma_hdr (a : mp4_atom) := match a with MAtom _ _ _ h _ => h end.      (* Atom._dataoffset - Atom.offset *)
Definition ma_kids (a : mp4_atom) := match a with MAtom _ _ _ _ k => k end.     (* Atom.children *)
Definition ma_end (a : mp4_atom) := ma_off a + ma_len a.

(* f.seek(p); f.read(n) for 0 <= n.  Counted down in Z along the list (= zslice p (p + n) f, proved in Fam_mp4_bytes), so that
   absurd positions / lengths taken from a damaged file cost no more than the file length *)
Fixpoint mp4_take (n : Z) (l : list Z) : list Z :=
  match l with [] => [] | x :: r => if n <=? 0 then [] else x :: mp4_take (n - 1) r end.
Fixpoint mp4_drop (n : Z) (l : list Z) : list Z :=
  match l with [] => [] | x :: r => if n <=? 0 then l else mp4_drop (n - 1) r end.
Definition mp4_rd (f : list Z) (p n : Z) : list Z := mp4_take n (mp4_drop p f).

(* ------------------------------------------------------------------ MIRROR of Atom.__init__ / Atoms.__init__ *)
(* length and header size from the 8 header bytes h read at pos (AtomError -> mutagen.mp4.error = EMutagen) *)
Definition mp4_resolve_len (f : list Z) (pos level : Z) (len0 : Z) : result (Z * Z) :=
  if len0 =? 1 then
    let h2 := mp4_rd f (pos + 8) 8 in
    if zlen h2 <? 8 then Raise EMutagen else
    let l := be_decode h2 in
    if l <? 16 then Raise EMutagen else Ok (l, 16)
  else if len0 =? 0 then
    (if level =? 0 then Ok (zlen f - pos, 8) else Raise EMutagen)
  else if len0 <? 8 then Raise EMutagen
  else Ok (len0, 8).

Fixpoint mp4_parse_atom (fuel : nat) (f : list Z) (pos level : Z) {struct fuel} : result (mp4_atom * Z) :=
  match fuel with
  | O => Raise EOutOfFuel
  | S n =>
    if level >? 64 then Raise EMutagen else       (* "atoms nested too deeply" *)
    let h := mp4_rd f pos 8 in
    if zlen h <? 8 then Raise EMutagen else
    let name := zdrop 4 h in
    match mp4_resolve_len f pos level (be_decode (ztake 4 h)) with
    | Raise e => Raise e
    | Ok (len, hdr) =>
      if mp4_is_container name then
        match mp4_parse_kids n f (pos + hdr + mp4_skip name) (pos + len) (level + 1) with
        | Raise e => Raise e
        | Ok (kids, p') => Ok (MAtom name pos len hdr (Some kids), p')
        end
      else Ok (MAtom name pos len hdr None, pos + len)
    end
  end
(* while fileobj.tell() < self.offset + self.length: children.append(Atom(fileobj, level + 1)) *)
with mp4_parse_kids (fuel : nat) (f : list Z) (pos endp level : Z) {struct fuel} : result (list mp4_atom * Z) :=
  match fuel with
  | O => Raise EOutOfFuel
  | S n =>
    if pos <? endp then
      match mp4_parse_atom n f pos level with
      | Raise e => Raise e
      | Ok (a, p1) =>
        match mp4_parse_kids n f p1 endp level with
        | Raise e => Raise e
        | Ok (r, p2) => Ok (a :: r, p2)
        end
      end
    else Ok ([], pos)
  end.

(* Atoms.__init__: while fileobj.tell() + 8 <= end: atoms.append(Atom(fileobj)) *)
Fixpoint mp4_parse_top (fuel : nat) (f : list Z) (pos : Z) {struct fuel} : result (list mp4_atom) :=
  match fuel with
  | O => Raise EOutOfFuel
  | S n =>
    if pos + 8 <=? zlen f then
      match mp4_parse_atom n f pos 0 with
      | Raise e => Raise e
      | Ok (a, p1) =>
        match mp4_parse_top n f p1 with
        | Raise e => Raise e
        | Ok r => Ok (a :: r)
        end
      end
    else Ok []
  end.

Definition mp4_fuel (f : list Z) : nat := S (S (length f)).
Definition mp4_atoms (f : list Z) : result (list mp4_atom) := mp4_parse_top (mp4_fuel f) f 0.

(* ------------------------------------------------------------------ lookups: Atoms.path / __getitem__ / findall *)
Definition mp4_child (n : list Z) (ks : list mp4_atom) : option mp4_atom :=
  find (fun a => list_eqb (ma_name a) n) ks.

(* Atoms.path(names...): None = KeyError *)
Fixpoint mp4_path (ks : list mp4_atom) (names : list (list Z)) : option (list mp4_atom) :=
  match names with
  | [] => Some []
  | n :: rest =>
    match mp4_child n ks with
    | None => None
    | Some a =>
      match rest with
      | [] => Some [a]
      | _ => match ma_kids a with
             | None => None
             | Some ks' => match mp4_path ks' rest with Some p => Some (a :: p) | None => None end
             end
      end
    end
  end.

(* Atom.findall(name, recursive=True) over the children ks: pre-order *)
Fixpoint mp4_findall_atom (n : list Z) (a : mp4_atom) : list mp4_atom :=
  match a with
  | MAtom _ _ _ _ None => []
  | MAtom _ _ _ _ (Some ks) =>
    (fix go (l : list mp4_atom) : list mp4_atom :=
       match l with
       | [] => []
       | c :: r => (if list_eqb (ma_name c) n then [c] else []) ++ mp4_findall_atom n c ++ go r
       end) ks
  end.

(* ------------------------------------------------------------------ Atom.render *)
Definition mp4_render (name data : list Z) : list Z :=
  let size := zlen data + 8 in
  if size <=? 4294967295 then be_encode 4 size ++ name ++ data
  else be_encode 4 1 ++ name ++ be_encode 8 (size + 8) ++ data.

Definition mp4_empty_ilst : list Z := mp4_render N_ilst [].
Definition mp4_hdlr : list Z :=
  mp4_render N_hdlr (zeros 8 ++ [109;100;105;114;97;112;112;108] ++ zeros 9).

(* ------------------------------------------------------------------ _find_padding *)
Fixpoint mp4_index (n : list Z) (ks : list mp4_atom) : option nat :=
  match ks with
  | [] => None
  | a :: r => if list_eqb (ma_name a) n then Some O
              else match mp4_index n r with Some i => Some (S i) | None => None end
  end.
Definition mp4_is_free (a : mp4_atom) : bool := list_eqb (ma_name a) N_free.
Definition mp4_next_free (ks : list mp4_atom) (i : nat) : option mp4_atom :=
  match nth_error ks (S i) with
  | Some q => if mp4_is_free q then Some q else None
  | None => None
  end.
(* meta.children[index + 1] first (IndexError -> None): that is where save() puts the padding, so a following save finds the
   same region again; then, if index > 0, meta.children[index - 1] *)
Definition mp4_prev_free (ks : list mp4_atom) (i : nat) : option mp4_atom :=
  match i with
  | O => None
  | S j => match nth_error ks j with
           | Some p => if mp4_is_free p then Some p else None
           | None => None
           end
  end.
Definition mp4_find_padding (meta : mp4_atom) : option mp4_atom :=
  match ma_kids meta with
  | None => None
  | Some ks =>
    match mp4_index N_ilst ks with
    | None => None
    | Some i =>
      match mp4_next_free ks i with
      | Some q => Some q
      | None => mp4_prev_free ks i
      end
    end
  end.

(* ------------------------------------------------------------------ __update_parents *)
(* read_full raises IOError on a short read (-> mutagen.mp4.error); cdata.error -> MP4MetadataError *)
Definition mp4_update_parent (delta : Z) (g : list Z) (aoff : Z) : result (list Z) :=
  let s4 := mp4_rd g aoff 4 in
  if zlen s4 <? 4 then Raise EMutagen else
  let size := be_decode s4 in
  if size =? 0 then Ok g        (* extends to the end of the file, nothing to update *)
  else if size =? 1 then
    (* size = cdata.ulonglong_be(read_full(fileobj, 12)[4:]) *)
    let s12 := mp4_rd g (aoff + 4) 12 in
    if zlen s12 <? 12 then Raise EMutagen else
    let v := be_decode (zdrop 4 s12) + delta in
    if (v <? 0) || (MP4_U64 <=? v) then Raise EMutagen
    else Ok (patch g (aoff + 8) (be_encode 8 v))
  else
    let v := size + delta in
    if (v <? 0) || (MP4_U32 <=? v) then Raise EMutagen
    else Ok (patch g aoff (be_encode 4 v)).

Fixpoint mp4_fold (step : list Z -> Z -> result (list Z)) (g : list Z) (l : list Z) : result (list Z) :=
  match l with
  | [] => Ok g
  | a :: r => match step g a with Ok g' => mp4_fold step g' r | Raise e => Raise e end
  end.

Definition mp4_update_parents (delta : Z) (g : list Z) (offs : list Z) : result (list Z) :=
  if delta =? 0 then Ok g else mp4_fold (mp4_update_parent delta) g offs.

(* ------------------------------------------------------------------ __update_offset_table / __update_tfhd *)
(* fixed-width big-endian array *)
Fixpoint mp4_unpack (w : Z) (n : nat) (d : list Z) : list Z :=
  match n with O => [] | S n' => be_decode (ztake w d) :: mp4_unpack w n' (zdrop w d) end.
Definition mp4_pack (w : nat) (l : list Z) : list Z := flat_map (be_encode w) l.
Definition mp4_shift (offset delta o : Z) : Z := if offset <? o then o + delta else o.   (* (0, delta)[offset < o] *)
Definition mp4_moved (offset delta aoff : Z) : Z := if aoff >? offset then aoff + delta else aoff.

(* read_full(fileobj, n): ValueError for n < 0, IOError (-> mutagen.mp4.error) on a short read *)
Definition mp4_read_full (g : list Z) (p n : Z) : result (list Z) :=
  if n <? 0 then Raise EValue else
  if zlen g - p <? n then Raise EMutagen else Ok (mp4_rd g p n).

Definition mp4_update_table (w : nat) (delta offset : Z) (g : list Z) (a : mp4_atom) : result (list Z) :=
  let ao := mp4_moved offset delta (ma_off a) in
  if ma_len a <? 16 then Raise EMutagen else          (* "truncated atom" *)
  match mp4_read_full g (ao + 12) (ma_len a - 12) with
  | Raise e => Raise e
  | Ok data =>
    if zlen (ztake 4 data) <? 4 then Raise EStruct else
    let cnt := be_decode (ztake 4 data) in
    let body := zdrop 4 data in
    if negb (zlen body =? Z.of_nat w * cnt) then Raise EMutagen else
    let offs := map (mp4_shift offset delta) (mp4_unpack (Z.of_nat w) (Z.to_nat cnt) body) in
    if forallb (fun o => (0 <=? o) && (o <? 256 ^ Z.of_nat w)) offs
    then Ok (patch g (ao + 16) (mp4_pack w offs))
    else Raise EMutagen
  end.

Definition mp4_update_tfhd (delta offset : Z) (g : list Z) (a : mp4_atom) : result (list Z) :=
  let ao := mp4_moved offset delta (ma_off a) in
  if ma_len a <? 12 then Raise EMutagen else          (* "truncated atom" *)
  match mp4_read_full g (ao + 9) (ma_len a - 9) with
  | Raise e => Raise e
  | Ok data =>
    if zlen (ztake 3 data) <? 3 then Raise EStruct else
    let flags := be_decode (ztake 3 data) in
    if Z.odd flags then
      if zlen data <? 15 then Raise EMutagen else     (* "truncated atom" *)
      let o := be_decode (zslice 7 15 data) in
      let o' := if o >? offset then o + delta else o in
      if (o' <? 0) || (MP4_U64 <=? o') then Raise EStruct
      else Ok (patch g (ao + 16) (be_encode 8 o'))
    else Ok g
  end.

Fixpoint mp4_fold_atoms (step : list Z -> mp4_atom -> result (list Z)) (g : list Z) (l : list mp4_atom)
  : result (list Z) :=
  match l with
  | [] => Ok g
  | a :: r => match step g a with Ok g' => mp4_fold_atoms step g' r | Raise e => Raise e end
  end.

(* the atoms __update_offsets visits, in its order *)
Definition mp4_stco_list (atoms : list mp4_atom) : list mp4_atom :=
  match mp4_child N_moov atoms with Some m => mp4_findall_atom N_stco m | None => [] end.
Definition mp4_co64_list (atoms : list mp4_atom) : list mp4_atom :=
  match mp4_child N_moov atoms with Some m => mp4_findall_atom N_co64 m | None => [] end.
(* for moof in atoms.atoms: if moof.name != b"moof": continue; moof.findall(b'tfhd', True) *)
Definition mp4_tfhd_list (atoms : list mp4_atom) : list mp4_atom :=
  flat_map (fun m => if list_eqb (ma_name m) N_moof then mp4_findall_atom N_tfhd m else []) atoms.

Definition mp4_update_offsets (atoms : list mp4_atom) (delta offset : Z) (g : list Z) : result (list Z) :=
  if delta =? 0 then Ok g else
  match mp4_child N_moov atoms with
  | None => Raise EKey
  | Some _ =>
    match mp4_fold_atoms (mp4_update_table 4 delta offset) g (mp4_stco_list atoms) with
    | Raise e => Raise e
    | Ok g1 =>
      match mp4_fold_atoms (mp4_update_table 8 delta offset) g1 (mp4_co64_list atoms) with
      | Raise e => Raise e
      | Ok g2 => mp4_fold_atoms (mp4_update_tfhd delta offset) g2 (mp4_tfhd_list atoms)
      end
    end
  end.

(* ------------------------------------------------------------------ save *)
Definition ILST_PATH : list (list Z) := [N_moov; N_udta; N_meta; N_ilst].

(* region [offset, offset+length) replaced by __save_existing: ilst plus the free atom _find_padding returns *)
Definition mp4_region_of (path : list mp4_atom) : option (Z * Z) :=
  match path with
  | [_; _; meta; ilst] =>
    match mp4_find_padding meta with
    | Some fr => Some (Z.min (ma_off ilst) (ma_off fr), ma_len ilst + ma_len fr)
    | None => Some (ma_off ilst, ma_len ilst)
    end
  | _ => None
  end.

(* resize_bytes(fileobj, old, len(data), off); seek(off); write(data) *)
Definition mp4_resize_write (f : list Z) (off old : Z) (data : list Z) : result (list Z) :=
  if (old <? 0) || (off <? 0) then Raise EValue else
  if negb (zlen data =? old) && (off + old >? zlen f) then Raise EValue
  else Ok (splice f off old data).

Definition mp4_padding_atom (cb : Z -> Z -> Z) (padding_size content_size : Z) : list Z :=
  let new_padding := Z.min MP4_MAXPAD (cb padding_size content_size) in
  mp4_render N_free (zeros new_padding).

Definition mp4_save_existing (f : list Z) (atoms path : list mp4_atom) (ilst_data : list Z) (cb : Z -> Z -> Z)
  : result (list Z) :=
  match mp4_region_of path with
  | None => Raise EAssert
  | Some (offset, length) =>
    let content_size := zlen f - (offset + length) in
    let padding_size := length - (zlen ilst_data + 8) in
    let data := ilst_data ++ mp4_padding_atom cb padding_size content_size in
    match mp4_resize_write f offset length data with
    | Raise _ => Raise EMutagen        (* except ValueError: raise MP4MetadataError("invalid atom size") *)
    | Ok f1 =>
      let delta := zlen data - length in
      match mp4_update_parents delta f1 (map ma_off (removelast path)) with
      | Raise e => Raise e
      | Ok f2 => mp4_update_offsets atoms delta offset f2
      end
    end
  end.

(* the atoms __save_new inserts: meta(hdlr, ilst, free), wrapped in a new udta when moov has none *)
Definition mp4_new_meta (cb : Z -> Z -> Z) (content_size : Z) (ilst_data : list Z) : list Z :=
  let meta_data := zeros 4 ++ mp4_hdlr ++ ilst_data in
  mp4_render N_meta (meta_data ++ mp4_padding_atom cb (- zlen meta_data) content_size).
Definition mp4_new_insert (cb : Z -> Z -> Z) (f : list Z) (last : mp4_atom) (ilst_data : list Z) : list Z :=
  let m := mp4_new_meta cb (zlen f - (ma_off last + ma_hdr last)) ilst_data in
  if list_eqb (ma_name last) N_udta then m else mp4_render N_udta m.
(* atoms.path(b"moov", b"udta"), else atoms.path(b"moov") *)
Definition mp4_insert_path (atoms : list mp4_atom) : option (list mp4_atom) :=
  match mp4_path atoms [N_moov; N_udta] with Some p => Some p | None => mp4_path atoms [N_moov] end.

Definition mp4_save_new (f : list Z) (atoms : list mp4_atom) (ilst_data : list Z) (cb : Z -> Z -> Z)
  : result (list Z) :=
  match mp4_insert_path atoms with
  | None => Raise EKey
  | Some path =>
    match rev path with
    | [] => Raise EKey
    | last :: _ =>
      let offset := ma_off last + ma_hdr last in
      let data := mp4_new_insert cb f last ilst_data in
      if offset >? zlen f then Raise EValue else
      let f1 := splice f offset 0 data in
      match mp4_update_parents (zlen data) f1 (map ma_off path) with
      | Raise e => Raise e
      (* everything at or behind the insertion point has moved *)
      | Ok f2 => mp4_update_offsets atoms (zlen data) (offset - 1) f2
      end
    end
  end.

(* MP4Tags.save after the items are rendered: ilst_data = Atom.render(b"ilst", b"".join(values)) *)
Definition mp4_save (f : list Z) (ilst_data : list Z) (cb : Z -> Z -> Z) : result (list Z) :=
  match mp4_atoms f with
  | Raise e => Raise e
  | Ok atoms =>
    match mp4_path atoms ILST_PATH with
    | Some path => mp4_save_existing f atoms path ilst_data cb
    | None => mp4_save_new f atoms ilst_data cb
    end
  end.

(* FileType.delete / module delete: nothing to do without tags; else clear + save(padding=lambda x: 0) *)
Definition mp4_delete (f : list Z) : result (list Z) :=
  match mp4_atoms f with
  | Raise e => Raise e
  | Ok atoms =>
    match mp4_path atoms ILST_PATH with
    | Some path => mp4_save_existing f atoms path mp4_empty_ilst (fun _ _ => 0)
    | None => Ok f
    end
  end.

(* padding callbacks *)
Definition mp4_cb_const (c : Z) : Z -> Z -> Z := fun _ _ => c.
Definition mp4_cb_keep : Z -> Z -> Z := fun p _ => Z.max p 0.
Definition mp4_cb_default : Z -> Z -> Z := get_default_padding.

(* what the callback is called with (C09): (info.padding, info.size) *)
Definition mp4_padding_info (f : list Z) (ilst_data : list Z) : result (Z * Z) :=
  match mp4_atoms f with
  | Raise e => Raise e
  | Ok atoms =>
    match mp4_path atoms ILST_PATH with
    | Some path =>
      match mp4_region_of path with
      | Some (offset, length) => Ok (length - (zlen ilst_data + 8), zlen f - (offset + length))
      | None => Raise EAssert
      end
    | None =>
      match (match mp4_path atoms [N_moov; N_udta] with Some p => Some p | None => mp4_path atoms [N_moov] end) with
      | None => Raise EKey
      | Some path => match rev path with
                     | [] => Raise EKey
                     | last :: _ => Ok (- (4 + zlen mp4_hdlr + zlen ilst_data), zlen f - (ma_off last + ma_hdr last))
                     end
      end
    end
  end.

(* ------------------------------------------------------------------ STRICT rules (C03): atoms tile their parents *)
(* the size field(s) at off encode len in one of the three forms *)
Definition mp4_header_ok (f : list Z) (top : bool) (name : list Z) (off len hdr : Z) : bool :=
  let h := mp4_rd f off 8 in
  let s32 := be_decode (ztake 4 h) in
  (0 <=? off) && (zlen h =? 8) && list_eqb (zdrop 4 h) name && (off + len <=? zlen f) &&
  (   ((hdr =? 8) && (s32 =? len) && (8 <=? len))
   || ((hdr =? 16) && (s32 =? 1) && (zlen (mp4_rd f (off + 8) 8) =? 8) && (be_decode (mp4_rd f (off + 8) 8) =? len) && (16 <=? len))
   || (top && (hdr =? 8) && (s32 =? 0) && (len =? zlen f - off))).

Fixpoint mp4_atom_ok (f : list Z) (top : bool) (a : mp4_atom) : bool :=
  match a with
  | MAtom name off len hdr kids =>
    mp4_header_ok f top name off len hdr &&
    match kids with
    | None => negb (mp4_is_container name)
    | Some ks =>
      mp4_is_container name &&
      (fix go (l : list mp4_atom) (p : Z) : bool :=
         match l with
         | [] => p =? off + len
         | k :: r => (ma_off k =? p) && mp4_atom_ok f false k && go r (p + ma_len k)
         end) ks (off + hdr + mp4_skip name)
    end
  end.

(* the atoms l tile [p, e) *)
Fixpoint mp4_forest_ok (f : list Z) (top : bool) (l : list mp4_atom) (p e : Z) : bool :=
  match l with
  | [] => p =? e
  | k :: r => (ma_off k =? p) && mp4_atom_ok f top k && mp4_forest_ok f top r (p + ma_len k) e
  end.

(* nesting depth: mutagen's reader gives up beyond level 64 *)
Fixpoint mp4_height (a : mp4_atom) : Z :=
  1 + match a with
      | MAtom _ _ _ _ None => 0
      | MAtom _ _ _ _ (Some ks) =>
        (fix go (l : list mp4_atom) : Z := match l with [] => 0 | c :: r => Z.max (mp4_height c) (go r) end) ks
      end.
Fixpoint mp4_forest_height (l : list mp4_atom) : Z :=
  match l with [] => 0 | c :: r => Z.max (mp4_height c) (mp4_forest_height r) end.
Definition MP4_MAXDEPTH : Z := 65.

(* pre-order list of all atoms *)
Fixpoint mp4_flat_atom (a : mp4_atom) : list mp4_atom :=
  a :: match a with
       | MAtom _ _ _ _ None => []
       | MAtom _ _ _ _ (Some ks) =>
         (fix go (l : list mp4_atom) : list mp4_atom :=
            match l with [] => [] | c :: r => mp4_flat_atom c ++ go r end) ks
       end.
Definition mp4_flat (l : list mp4_atom) : list mp4_atom := flat_map mp4_flat_atom l.

Definition mp4_named (n : list Z) (a : mp4_atom) : bool := list_eqb (ma_name a) n.

(* a chunk offset table is exactly version/flags, count, count entries; tfhd with the base-data-offset flag
   holds the 8-byte base offset; both use the 32-bit header form (mutagen addresses them as offset+12/+16) *)
Definition mp4_table_ok (f : list Z) (w : Z) (a : mp4_atom) : bool :=
  (ma_hdr a =? 8) && (16 <=? ma_len a) &&
  (ma_len a =? 16 + w * be_decode (mp4_rd f (ma_off a + 12) 4)).
Definition mp4_tfhd_flag (f : list Z) (a : mp4_atom) : bool := Z.odd (be_decode (mp4_rd f (ma_off a + 9) 3)).
Definition mp4_tfhd_ok (f : list Z) (a : mp4_atom) : bool :=
  (ma_hdr a =? 8) && (12 <=? ma_len a) && (negb (mp4_tfhd_flag f a) || (24 <=? ma_len a)).
Definition mp4_tables_ok (f : list Z) (atoms : list mp4_atom) : bool :=
  forallb (fun a =>
    (if mp4_named N_stco a then mp4_table_ok f 4 a else true) &&
    (if mp4_named N_co64 a then mp4_table_ok f 8 a else true) &&
    (if mp4_named N_tfhd a then mp4_tfhd_ok f a else true)) (mp4_flat atoms).

(* every recorded offset, read from the tree: (kind 4|8|0, atom offset, index, value) *)
Definition mp4_entry := (Z * Z * Z * Z)%type.
Fixpoint mp4_number (i : Z) (l : list Z) : list (Z * Z) :=
  match l with [] => [] | x :: r => (i, x) :: mp4_number (i + 1) r end.
Definition mp4_table_entries (f : list Z) (w : Z) (a : mp4_atom) : list mp4_entry :=
  let cnt := be_decode (mp4_rd f (ma_off a + 12) 4) in
  map (fun ix => (w, ma_off a, fst ix, snd ix))
      (mp4_number 0 (mp4_unpack w (Z.to_nat cnt) (mp4_rd f (ma_off a + 16) (w * cnt)))).
Definition mp4_atom_entries (f : list Z) (a : mp4_atom) : list mp4_entry :=
  if mp4_named N_stco a then mp4_table_entries f 4 a
  else if mp4_named N_co64 a then mp4_table_entries f 8 a
  else if mp4_named N_tfhd a then
    (if mp4_tfhd_flag f a then [(0, ma_off a, 0, be_decode (mp4_rd f (ma_off a + 16) 8))] else [])
  else [].
Definition mp4_all_entries (f : list Z) (atoms : list mp4_atom) : list mp4_entry :=
  flat_map (mp4_atom_entries f) (mp4_flat atoms).
Definition mp4_entries_in_file (f : list Z) (atoms : list mp4_atom) : bool :=
  let n := zlen f in            (* computed once: the tables may hold many thousand entries *)
  forallb (fun e => snd e <=? n) (mp4_all_entries f atoms).

(* F_parse / F_wf *)
Definition mp4_parse (f : list Z) : result (list mp4_atom) :=
  match mp4_atoms f with
  | Raise e => Raise e
  | Ok atoms => if mp4_forest_ok f true atoms 0 (zlen f) && (mp4_forest_height atoms <=? MP4_MAXDEPTH) &&
                   mp4_tables_ok f atoms && mp4_entries_in_file f atoms
                then Ok atoms else Raise EMutagen
  end.
Definition mp4_wf (f : list Z) : bool := is_ok (mp4_parse f).
Definition mp4_offsets (f : list Z) : result (list mp4_entry) :=
  match mp4_parse f with Ok atoms => Ok (mp4_all_entries f atoms) | Raise e => Raise e end.

(* measured padding (C09): payload of the free atom directly after ilst (what save always emits) *)
Definition mp4_padding (f : list Z) : result (option Z) :=
  match mp4_atoms f with
  | Raise e => Raise e
  | Ok atoms =>
    match mp4_path atoms [N_moov; N_udta; N_meta] with
    | Some [_; _; meta] =>
      match ma_kids meta with
      | Some ks => match mp4_index N_ilst ks with
                   | Some i => match nth_error ks (S i) with
                               | Some q => if mp4_is_free q then Ok (Some (ma_len q - ma_hdr q)) else Ok None
                               | None => Ok None end
                   | None => Ok None end
      | None => Ok None
      end
    | _ => Ok None
    end
  end.

(* ------------------------------------------------------------------ independent strict walker (from the layout) *)
(* a flat scan with a stack of container ends: returns the number of atoms or fails; no tree, no names looked up
   except the container table and the meta version word *)
Fixpoint mp4_walk (fuel : nat) (f : list Z) (pos : Z) (stack : list Z) (count : Z) : result Z :=
  match fuel with
  | O => Raise EOutOfFuel
  | S n =>
    match stack with
    | [] => Raise EAssert
    | top :: rest =>
      if pos =? top then
        match rest with [] => Ok count | _ => mp4_walk n f pos rest count end
      else if top <? pos + 8 then Raise EMutagen else
      let s32 := be_decode (mp4_rd f pos 4) in
      let name := mp4_rd f (pos + 4) 4 in
      let toplevel := match rest with [] => true | _ => false end in
      match (if s32 =? 1 then (if top <? pos + 16 then None else Some (be_decode (mp4_rd f (pos + 8) 8), 16))
             else if s32 =? 0 then (if toplevel then Some (top - pos, 8) else None)
             else Some (s32, 8)) with
      | None => Raise EMutagen
      | Some (size, hdr) =>
        if (size <? hdr) || (top <? pos + size) then Raise EMutagen else
        if mp4_is_container name then
          if pos + size <? pos + hdr + mp4_skip name then Raise EMutagen
          else mp4_walk n f (pos + hdr + mp4_skip name) ((pos + size) :: stack) (count + 1)
        else mp4_walk n f (pos + size) stack (count + 1)
      end
    end
  end.
Definition mp4_walk_file (f : list Z) : result Z := mp4_walk (S (S (length f + length f))) f 0 [zlen f] 0.

(* ------------------------------------------------------------------ builder of synthetic layouts *)
Inductive mp4_szform := S32 | S64 | S0.
Inductive mp4_spec :=
| SLeaf (name : list Z) (sz : mp4_szform) (payload : list Z)
| SNode (name : list Z) (sz : mp4_szform) (kids : list mp4_spec)
| SRaw (bytes : list Z).        (* an already rendered atom (the ilst) *)

Definition mp4_hdr_render (name : list Z) (sz : mp4_szform) (plen : Z) : list Z :=
  match sz with
  | S32 => be_encode 4 (plen + 8) ++ name
  | S64 => be_encode 4 1 ++ name ++ be_encode 8 (plen + 16)
  | S0 => be_encode 4 0 ++ name
  end.
Fixpoint mp4_spec_render (s : mp4_spec) : list Z :=
  match s with
  | SLeaf n z p => mp4_hdr_render n z (zlen p) ++ p
  | SNode n z ks =>
    let body := zeros (mp4_skip n) ++
                (fix go (l : list mp4_spec) : list Z :=
                   match l with [] => [] | k :: r => mp4_spec_render k ++ go r end) ks in
    mp4_hdr_render n z (zlen body) ++ body
  | SRaw b => b
  end.
Definition mp4_specs_render (l : list mp4_spec) : list Z := flat_map mp4_spec_render l.

Inductive mp4_mitem := MHdlr | MIlst | MFree (n : Z) | MOther (n : Z).
Record mp4_trak := mkTrak { tk_co64 : bool; tk_soun : bool; tk_entries : list Z }.
(* mf_flags: the 24 tf_flags of the tfhd; the optional fields they announce are present (0x1 base-data-offset 8 bytes,
   0x2 sample-description-index, 0x8 default-sample-duration, 0x10 default-sample-size, 0x20 default-sample-flags: 4 bytes each;
   0x010000 duration-is-empty and 0x020000 default-base-is-moof carry no field) *)
Record mp4_moof := mkMoof { mf_flags : Z; mf_rel : Z; mf_tail : Z }.
Record mp4_layout := mkLayout {
  ly_moov_first : bool;          (* moov before mdat *)
  ly_udta : Z;                   (* 0: no udta; 1: udta without meta; 2: udta with meta *)
  ly_udta_first : bool;          (* udta before the trak atoms inside moov *)
  ly_udta_extra : Z;             (* >= 0: a leaf 'Xtra' with that many payload bytes in udta before meta *)
  ly_meta : list mp4_mitem;      (* children of meta, in order *)
  ly_ilst : list Z;              (* the rendered ilst atom *)
  ly_traks : list mp4_trak;      (* chunk offsets relative to the start of the mdat payload *)
  ly_moofs : list mp4_moof;
  ly_mdat : list Z;              (* mdat payload *)
  ly_big : Z;                    (* 64-bit size forms: 1 moov, 2 udta, 4 meta, 8 mdat, 16 trak, 32 free, 64 stbl, 128 moof *)
  ly_topfree : Z;                (* 1: free atom after ftyp; 2: free atom at the end of the file *)
  ly_size0 : bool;               (* the last top-level atom has size field 0 *)
  ly_mdat2 : list Z              (* non-empty: a second mdat with this payload behind moov (media data on both sides of moov) *)
}.

Definition mp4_bit (m b : Z) : bool := Z.odd (m / b).
Definition mp4_sz (m b : Z) : mp4_szform := if mp4_bit m b then S64 else S32.
Fixpoint mp4_pattern (n : nat) (seed : Z) : list Z :=
  match n with O => [] | S n' => ((seed * 7 + 3) mod 251) :: mp4_pattern n' (seed + 1) end.

Definition mp4_mitem_spec (big : Z) (ilst : list Z) (m : mp4_mitem) : mp4_spec :=
  match m with
  | MHdlr => SRaw mp4_hdlr
  | MIlst => SRaw ilst
  | MFree n => SLeaf N_free (mp4_sz big 32) (zeros n)
  | MOther n => SLeaf N_xtra S32 (mp4_pattern (Z.to_nat n) 11)
  end.

Definition mp4_trak_spec (big base : Z) (t : mp4_trak) : mp4_spec :=
  let tab := if tk_co64 t
             then SLeaf N_co64 S32 (zeros 4 ++ be_encode 4 (zlen (tk_entries t)) ++ mp4_pack 8 (map (Z.add base) (tk_entries t)))
             else SLeaf N_stco S32 (zeros 4 ++ be_encode 4 (zlen (tk_entries t)) ++ mp4_pack 4 (map (Z.add base) (tk_entries t))) in
  SNode N_trak (mp4_sz big 16)
    [SLeaf N_tkhd S32 (mp4_pattern 20 5);
     SNode N_mdia S32
       [SLeaf N_mdhd S32 (zeros 12 ++ be_encode 4 1000 ++ be_encode 4 5000 ++ zeros 4);
        SLeaf N_hdlr S32 (zeros 8 ++ (if tk_soun t then [115;111;117;110] else [118;105;100;101]) ++ zeros 13);
        SNode N_minf S32 [SNode N_stbl (mp4_sz big 64) [tab]]]].

Definition mp4_moof_spec (big base : Z) (m : mp4_moof) : mp4_spec :=
  SNode N_moof (mp4_sz big 128)
    [SLeaf N_mfhd S32 (zeros 8);
     SNode N_traf S32
       [SLeaf N_tfhd S32
          ([0] ++ be_encode 3 (mf_flags m) ++ be_encode 4 1 ++
           (if mp4_bit (mf_flags m) 1 then be_encode 8 (base + mf_rel m) else []) ++
           (if mp4_bit (mf_flags m) 2 then mp4_pattern 4 21 else []) ++
           (if mp4_bit (mf_flags m) 8 then mp4_pattern 4 22 else []) ++
           (if mp4_bit (mf_flags m) 16 then mp4_pattern 4 23 else []) ++
           (if mp4_bit (mf_flags m) 32 then mp4_pattern 4 24 else []) ++
           mp4_pattern (Z.to_nat (mf_tail m)) 3)]].

Definition mp4_udta_spec (l : mp4_layout) : list mp4_spec :=
  if ly_udta l =? 0 then [] else
  [SNode N_udta (mp4_sz (ly_big l) 2)
     ((if 0 <=? ly_udta_extra l then [SLeaf N_xtra S32 (mp4_pattern (Z.to_nat (ly_udta_extra l)) 17)] else []) ++
      (if ly_udta l =? 2
       then [SNode N_meta (mp4_sz (ly_big l) 4) (map (mp4_mitem_spec (ly_big l) (ly_ilst l)) (ly_meta l))]
       else []))].

Definition mp4_moov_spec (l : mp4_layout) (base : Z) (sz : mp4_szform) : mp4_spec :=
  let traks := map (mp4_trak_spec (ly_big l) base) (ly_traks l) in
  SNode N_moov sz
    (SLeaf [109;118;104;100] S32 (mp4_pattern 24 9) ::
     (if ly_udta_first l then mp4_udta_spec l ++ traks else traks ++ mp4_udta_spec l)).

Definition mp4_last0 (l : mp4_layout) : bool :=
  ly_size0 l && negb (mp4_bit (ly_topfree l) 2) && match ly_mdat2 l with [] => true | _ => false end.

Definition mp4_layout_specs (l : mp4_layout) (base : Z) : list mp4_spec * list mp4_spec :=
  (* (everything before the mdat payload's atom, everything from mdat on) *)
  let endfree := (match ly_mdat2 l with [] => [] | _ => [SLeaf N_mdat S32 (ly_mdat2 l)] end) ++
                 (if mp4_bit (ly_topfree l) 2 then [SLeaf N_free S32 (zeros 24)] else []) in
  let moofs := map (mp4_moof_spec (ly_big l) base) (ly_moofs l) in
  let head := SLeaf N_ftyp S32 [105;115;111;109;0;0;0;0;105;115;111;109] ::
              (if mp4_bit (ly_topfree l) 1 then [SLeaf N_free S32 (zeros 16)] else []) in
  if ly_moov_first l then
    let mdat_sz := if mp4_last0 l then S0 else mp4_sz (ly_big l) 8 in
    (head ++ [mp4_moov_spec l base (mp4_sz (ly_big l) 1)] ++ moofs,
     SLeaf N_mdat mdat_sz (ly_mdat l) :: endfree)
  else
    let moov_sz := if mp4_last0 l then S0 else mp4_sz (ly_big l) 1 in
    (head ++ moofs,
     SLeaf N_mdat (mp4_sz (ly_big l) 8) (ly_mdat l) :: mp4_moov_spec l base moov_sz :: endfree).

(* absolute position of the first mdat payload byte: sizes do not depend on the base *)
Definition mp4_mdat_base (l : mp4_layout) : Z :=
  zlen (mp4_specs_render (fst (mp4_layout_specs l 0))) +
  (if ly_moov_first l
   then (if mp4_last0 l then 8 else if mp4_bit (ly_big l) 8 then 16 else 8)
   else (if mp4_bit (ly_big l) 8 then 16 else 8)).

Definition mp4_build (l : mp4_layout) : list Z :=
  let base := mp4_mdat_base l in
  let sp := mp4_layout_specs l base in
  mp4_specs_render (fst sp) ++ mp4_specs_render (snd sp).

(* EXTRACT: mp4_atoms mp4_path mp4_save mp4_delete mp4_parse mp4_wf mp4_offsets mp4_padding mp4_padding_info
   mp4_walk_file mp4_build mp4_mdat_base mp4_cb_const mp4_cb_keep mp4_cb_default mkLayout mkTrak mkMoof
   mp4_render mp4_empty_ilst mp4_flat mp4_region_of ILST_PATH *)
