(* Model.Parse_musepack -- exception-faithful mirror of mutagen.musepack.MusepackInfo.__init__
   (ID3v2 skip, __parse_sv8 with _parse_sv8_int, __parse_stream_header, __parse_replaygain_packet,
   __parse_sv467) over a BytesIO.  Definitions only. *)
From Coq Require Import ZArith List Bool.
Import ListNotations.
Require Import Base.Py Model.Parse_base.
Open Scope Z_scope.

Definition mpc_MPCK := [77;80;67;75].
Definition mpc_ID3 := [73;68;51].
Definition mpc_MPplus := [77;80;43].
Definition mpc_SH := [83;72]. Definition mpc_RG := [82;71].
Definition mpc_AP := [65;80]. Definition mpc_SE := [83;69].
Definition mpc_rates : list Z := [44100; 48000; 37800; 32000].

(* BitPaddedInt(bytes) with bits=7, big endian: sum of (byte & 0x7f) << 7k *)
Definition mpc_bpi7 (l : list Z) : Z := fold_left (fun acc b => acc * 128 + b mod 128) l 0.

(* _parse_sv8_int(fileobj, limit=9):
     for i in range(limit): c = read(1); if len(c) != 1: raise EOFError
        num = (num << 7) | (c[0] & 0x7F); if not c[0] & 0x80: return num, i + 1
     if limit > 0: raise ValueError *)
Fixpoint mpc_sv8_int (limit : nat) (num i : Z) : P (Z * Z) :=
  match limit with
  | O => praise EValue
  | S l =>
    c <~ p_read 1 ;;
    if negb (zlen c =? 1) then praise EEOF
    else
      let b := znth 0 c in
      let num' := num * 128 + b mod 128 in
      if b <? 128 then pret (num', i + 1) else mpc_sv8_int l num' (i + 1)
  end.
Definition mpc_parse_sv8_int : P (Z * Z) := mpc_sv8_int 9 0 0.
Definition is_eof_or_value (e : exc) : bool := match e with EEOF | EValue => true | _ => false end.

(* check_frame_key: len(frame_type) != 2 or not b'AA' <= frame_type <= b'ZZ' -> error *)
Definition mpc_key_ok (k : list Z) : bool :=
  match k with
  | [a; b] => ((65 <? a) || ((a =? 65) && (65 <=? b))) && ((a <? 90) || ((a =? 90) && (b <=? 90)))
  | _ => false
  end.
Definition mpc_read_key : P (list Z) :=
  ft <~ p_read 2 ;; if mpc_key_ok ft then pret ft else praise EMutagen.

Record mpc_info := mkMpc {
  mi_kind : Z;                                                       (* 8: SV8, 7: SV7, 4: SV4-6, 0: unset *)
  mi_version : Z; mi_channels : Z; mi_rate : Z; mi_samples : Z;      (* SV8: samples - samples_skip *)
  mi_tg : Z; mi_tp : Z; mi_ag : Z; mi_ap : Z;                        (* raw gain/peak fields *)
  mi_len_num : Z; mi_len_den : Z;                                    (* length = float(num) / den *)
  mi_bitrate : Z;                                                    (* the header's bitrate field (0 for SV7/SV8) *)
  mi_size : Z                                                        (* tell() after seek(0,2) when bitrate is derived, else -1 *)
}.
Definition mpc_info0 := mkMpc 0 0 0 0 0 0 0 0 0 0 1 0 (-1).
Definition mpc_with_size (st : mpc_info) (size : Z) : mpc_info :=
  mkMpc (mi_kind st) (mi_version st) (mi_channels st) (mi_rate st) (mi_samples st) (mi_tg st) (mi_tp st)
        (mi_ag st) (mi_ap st) (mi_len_num st) (mi_len_den st) 0 size.

(* __parse_stream_header(fileobj, data_size) *)
Definition mpc_parse_sh (st : mpc_info) (data_size : Z) : P mpc_info :=
  p_seek 4 1 ;;~
  v <~ p_read 1 ;;
  (* bytearray(read(1))[0]: IndexError -> error *)
  version <~ pcatch (plift (index_at 0 v)) (fun e => exc_eqb e EIndex || exc_eqb e EType) (fun _ => praise EMutagen) ;;
  ' (samples, l1, (skip, l2)) <~ pcatch
       (' (s, l1) <~ mpc_parse_sv8_int ;; r2 <~ mpc_parse_sv8_int ;; pret (s, l1, r2))
       is_eof_or_value (fun _ => praise EMutagen) ;;
  let remaining := data_size - 4 - 1 - (l1 + l2) in
  data <~ p_read remaining ;;
  if negb (zlen data =? remaining) || (zlen data <? 2) then praise EMutagen
  else
    let rate_index := znth 0 data / 32 in                 (* bytearray(data)[0] >> 5 *)
    rate <~ pcatch (plift (list_index rate_index mpc_rates)) (fun e => exc_eqb e EIndex) (fun _ => praise EMutagen) ;;
    pret (mkMpc 0 version (znth 1 data / 16 + 1) rate (samples - skip)
                (mi_tg st) (mi_tp st) (mi_ag st) (mi_ap st) 0 1 0 (-1)).

(* __parse_replaygain_packet(fileobj, data_size) *)
Definition mpc_parse_rg (st : mpc_info) (data_size : Z) : P mpc_info :=
  data <~ p_read data_size ;;
  if data_size <? 9 then praise EMutagen
  else if negb (zlen data =? data_size) then praise EMutagen
  else
    tg <~ plift (unpack_be 2 (zslice 1 3 data)) ;;
    tp <~ plift (unpack_be 2 (zslice 3 5 data)) ;;
    ag <~ plift (unpack_be 2 (zslice 5 7 data)) ;;
    ap <~ plift (unpack_be 2 (zslice 7 9 data)) ;;
    pret (mkMpc 0 (mi_version st) (mi_channels st) (mi_rate st) (mi_samples st)
                (to_signed_bits 16 tg) (to_signed_bits 16 tp) (to_signed_bits 16 ag) (to_signed_bits 16 ap) 0 1 0 (-1)).

(* the `while frame_type not in (b"AP", b"SE") and mandatory_packets:` loop; sh/rg: still in mandatory_packets *)
Fixpoint mpc_sv8_loop (fuel : nat) (sh rg : bool) (st : mpc_info) (ft : list Z) : P (bool * bool * mpc_info) :=
  match fuel with
  | O => praise EOutOfFuel
  | S fuel' =>
    if list_eqb ft mpc_AP || list_eqb ft mpc_SE || negb (sh || rg) then pret (sh, rg, st)
    else
      ' (frame_size, slen) <~ pcatch mpc_parse_sv8_int is_eof_or_value (fun _ => praise EMutagen) ;;
      let data_size := frame_size - 2 - slen in
      if data_size <? 0 then praise EMutagen
      else
        ' (sh', rg', st') <~
          (if list_eqb ft mpc_SH then
             (if negb sh then praise EMutagen
              else st' <~ mpc_parse_sh st data_size ;; pret (false, rg, st'))
           else if list_eqb ft mpc_RG then
             (if negb rg then praise EMutagen
              else st' <~ mpc_parse_rg st data_size ;; pret (sh, false, st'))
           else
             (* try: fileobj.seek(data_size, 1)  except OverflowError: raise error *)
             pcatch (p_seek data_size 1) (fun e => exc_eqb e EOverflow) (fun _ => praise EMutagen) ;;~ pret (sh, rg, st)) ;;
        ft' <~ mpc_read_key ;;
        mpc_sv8_loop fuel' sh' rg' st' ft'
  end.

(* every iteration consumes at least the 1-byte size and the next 2-byte key: len/3 + 1 iterations suffice;
   the wrapper hands out  len + 1 *)
Definition mpc_parse_sv8 (fuel : nat) : P mpc_info :=
  ft <~ mpc_read_key ;;
  ' (sh, rg, st) <~ mpc_sv8_loop fuel true true mpc_info0 ft ;;
  if sh || rg then praise EMutagen
  else if mi_rate st =? 0 then praise EZeroDiv                      (* float(samples) / sample_rate *)
  else pret (mkMpc 8 (mi_version st) (mi_channels st) (mi_rate st) (mi_samples st)
                   (mi_tg st) (mi_tp st) (mi_ag st) (mi_ap st) (mi_samples st) (mi_rate st) 0 (-1)).

(* __parse_sv467 *)
Definition mpc_parse_sv467 : P mpc_info :=
  p_seek (-4) 1 ;;~
  header <~ p_read 32 ;;
  if negb (zlen header =? 32) then praise EMutagen
  else if starts_with mpc_MPplus header then
    let version := znth 3 header mod 16 in
    if version <? 7 then praise EMutagen
    else
      frames <~ plift (unpack_le 4 (zslice 4 8 header)) ;;
      flags <~ plift (unpack_le 4 (zslice 8 12 header)) ;;
      tp <~ plift (unpack_le 2 (zslice 12 14 header)) ;;       (* struct.unpack("<Hh", header[12:16]) *)
      tg <~ plift (unpack_le 2 (zslice 14 16 header)) ;;
      ap <~ plift (unpack_le 2 (zslice 16 18 header)) ;;
      ag <~ plift (unpack_le 2 (zslice 18 20 header)) ;;
      rate <~ plift (list_index ((flags / 65536) mod 4) mpc_rates) ;;
      if rate =? 0 then praise EZeroDiv
      else pret (mkMpc 7 version 2 rate 0 (to_signed_bits 16 tg) tp (to_signed_bits 16 ag) ap
                       (frames * 1152 - 576) rate 0 (-1))
  else
    dword <~ plift (unpack_le 4 (zslice 0 4 header)) ;;
    let version := (dword / 2048) mod 1024 in
    if (version <? 4) || (6 <? version) then praise EMutagen
    else
      let bitrate := (dword / 8388608) mod 512 in
      frames <~ (if 5 <=? version then plift (unpack_le 4 (zslice 4 8 header))
                 else plift (unpack_le 2 (zslice 6 8 header))) ;;
      let frames := if version <? 6 then frames - 1 else frames in
      pret (mkMpc 4 version 2 44100 0 0 0 0 0 (frames * 1152 - 576) 44100 bitrate (-1)).

(* MusepackInfo.__init__ *)
Definition mpc_init (fuel : nat) : P mpc_info :=
  pconvert_io (
    header <~ p_read 4 ;;
    if negb (zlen header =? 4) then praise EMutagen
    else
      header <~ (if list_eqb (ztake 3 header) mpc_ID3 then
                   h6 <~ p_read 6 ;;
                   if negb (zlen h6 =? 6) then praise EMutagen
                   else
                     p_seek (10 + mpc_bpi7 (zslice 2 6 h6)) 0 ;;~
                     h4 <~ p_read 4 ;;
                     if negb (zlen h4 =? 4) then praise EMutagen else pret h4
                 else pret header) ;;
      st <~ (if starts_with mpc_MPCK header then mpc_parse_sv8 fuel else mpc_parse_sv467) ;;
      (* if not self.bitrate and self.length != 0 *)
      if (mi_bitrate st =? 0) && negb (mi_len_num st =? 0) then
        p_seek 0 2 ;;~ size <~ p_tell ;;
        pret (mpc_with_size st size)
      else pret st).

Definition mpc_fuel (d : list Z) : nat := lin_fuel 1 1 d.
Definition musepack_load (d : list Z) : result mpc_info := prun (mpc_init (mpc_fuel d)) d.

Definition mpc_info_list (i : mpc_info) : list Z :=
  [mi_kind i; mi_version i; mi_channels i; mi_rate i; mi_samples i; mi_tg i; mi_tp i; mi_ag i; mi_ap i;
   mi_len_num i; mi_len_den i; mi_bitrate i; mi_size i].

(* EXTRACT: musepack_load mpc_info_list *)
