(* Model.Parse_wave -- exception-faithful mirror of what WAVE.load (mutagen/wave.py over mutagen/_riff.py and
   mutagen/_iff.py) does with the caller's stream, except the parsing of the ID3 tag itself:
     WaveStreamInfo(fileobj)    _WaveFile, wave_file['fmt'] (KeyError -> error), IffChunk.read (seek, read,
                                OverflowError -> InvalidChunk), len < 16 -> InvalidChunk, struct.unpack('<HHLLHH'),
                                `if block_align > 0:` wave_file['data'] (KeyError: pass) and the division
     fileobj.seek(0, 0); _WaveID3._pre_load_header
                                _WaveFile(fileobj)['id3'].data_offset, seek there;
                                `except (InvalidChunk, KeyError): raise ID3NoHeaderError` (WAVE.load: tags = None)
   with
     _WaveFile.__init__         RiffFile.__init__ (IffFile.__init__: seek(0), RiffChunk.parse; root id != 'RIFF':
                                InvalidChunk; file_type = root.name), file_type != 'WAVE': error,
                                `if 'ID3' in self: self['ID3'].id = 'id3'` (the first walk of the subchunks)
     RiffChunk.parse            IffChunk.parse with '<4sI'; get_class: 'LIST' / 'RIFF' -> RiffListChunk
                                (init_container: data_size < 4: InvalidChunk; name read(4).decode('ascii'):
                                UnicodeDecodeError -> error)
     subchunks()                cached only when non-empty (`if not self.__subchunks:` walks again)
   Conventions as in Model.Parse_aiff (whose chunk-id helpers are reused): a parse that raises EmptyChunk /
   InvalidChunk is `Ok None`, KeyError of __getitem__ is `Ok None`, ID3NoHeaderError is `Ok (-1)`; a plain
   error is Raise EMutagen.  Definitions only. *)
From Coq Require Import ZArith List Bool.
Import ListNotations.
Require Import Base.Py Model.Parse_base Model.Parse_aiff.
Open Scope Z_scope.

Definition riff_RIFF := [82;73;70;70].
Definition riff_LIST := [76;73;83;84].
Definition riff_WAVE := [87;65;86;69].
Definition riff_fmt  := [102;109;116].       (* 'fmt ' after rstrip *)
Definition riff_data := [100;97;116;97].
Definition riff_ID3  := [73;68;51].
Definition riff_id3  := [105;100;51].

(* RiffChunk.parse(fileobj, parent): None = EmptyChunk / InvalidChunk; (chunk, container name or []) *)
Definition riff_parse : P (option (iff_chunk * list Z)) :=
  header <~ p_read 8 ;;
  if zlen header <? 8 then pret None
  else if negb (zlen header =? 8) then praise EStruct                          (* struct.unpack('<4sI', header) *)
  else
    let id := zslice 0 4 header in
    let data_size := le_decode (zslice 4 8 header) in
    if negb (iff_ascii id) then pret None                                      (* UnicodeDecodeError -> InvalidChunk *)
    else
      let id := iff_rstrip id in
      if negb (iff_valid_id id) then pret None
      else
        data_offset <~ p_tell ;;
        let size := 8 + data_size + data_size mod 2 in
        if negb (size mod 2 =? 0) then praise EAssert
        else if list_eqb id riff_LIST || list_eqb id riff_RIFF then
          (* RiffListChunk.__init__ -> init_container() *)
          if data_size <? 4 then pret None
          else
            name <~ p_read 4 ;;
            if negb (iff_ascii name) then praise EMutagen                      (* UnicodeDecodeError -> error *)
            else pret (Some ((id, data_size, data_offset), name))
        else pret (Some ((id, data_size, data_offset), [])).

Fixpoint riff_subchunks (fuel : nat) (next_offset end_ : Z) : P (list iff_chunk) :=
  match fuel with
  | O => praise EOutOfFuel
  | S fuel' =>
    if negb (next_offset <? end_) then pret []
    else
      sought <~ pcatch (p_seek next_offset 0 ;;~ pret true) is_eoverflow (fun _ => pret false) ;;
      if negb sought then pret []
      else
        c <~ riff_parse ;;
        match c with
        | None => pret []
        | Some (ch, _) =>
            rest <~ riff_subchunks fuel' (iff_chunk_end ch) end_ ;;
            pret (ch :: rest)
        end
  end.

(* root.subchunks() with the cache `subs`: walks (again) when the cached list is empty *)
Definition riff_subchunks_cached (fuel : nat) (root : iff_chunk) (subs : list iff_chunk) : P (list iff_chunk) :=
  match subs with
  | [] => let '(_, _, data_offset) := root in riff_subchunks fuel (data_offset + 4) (iff_chunk_end root)
  | _ => pret subs
  end.
(* wave_file[id]: (None = KeyError, the cache afterwards) *)
Definition riff_getitem (fuel : nat) (root : iff_chunk) (subs : list iff_chunk) (id : list Z)
  : P (option iff_chunk * list iff_chunk) :=
  subs <~ riff_subchunks_cached fuel root subs ;;
  pret (iff_find id subs, subs).

(* self['ID3'].id = 'id3' : the first chunk called ID3 *)
Fixpoint riff_rename (l : list iff_chunk) : list iff_chunk :=
  match l with
  | [] => []
  | c :: t => if list_eqb (fst (fst c)) riff_ID3 then (riff_id3, snd (fst c), snd c) :: t else c :: riff_rename t
  end.

(* _WaveFile(fileobj): None = InvalidChunk / EmptyChunk; (root chunk, subchunk cache) *)
Definition wave_file (fuel : nat) : P (option (iff_chunk * list iff_chunk)) :=
  p_seek 0 0 ;;~
  r <~ riff_parse ;;
  match r with
  | None => pret None
  | Some (root, name) =>
      if negb (list_eqb (fst (fst root)) riff_RIFF) then pret None
      else if negb (list_eqb name riff_WAVE) then praise EMutagen             (* error("Expected RIFF/WAVE.") *)
      else
        ' (c, subs) <~ riff_getitem fuel root [] riff_ID3 ;;                   (* 'ID3' in self *)
        match c with
        | None => pret (Some (root, subs))
        | Some _ =>
            ' (_, subs) <~ riff_getitem fuel root subs riff_ID3 ;;             (* self['ID3'] *)
            pret (Some (root, riff_rename subs))
        end
  end.

(* WaveStreamInfo.__init__: [audio_format; channels; sample_rate; bits_per_sample; block_align; data chunk size | -1]
   (bitrate = channels * bits_per_sample * sample_rate; _number_of_samples = data_size / block_align when
    block_align > 0 and a data chunk exists, else 0; length = _number_of_samples / sample_rate when sample_rate > 0) *)
Definition wave_info (fuel : nat) : P (list Z) :=
  pconvert_io (
    f <~ wave_file fuel ;;
    match f with
    | None => praise EMutagen                                                  (* InvalidChunk, uncaught *)
    | Some (root, subs) =>
        ' (c, subs) <~ riff_getitem fuel root subs riff_fmt ;;
        match c with
        | None => praise EMutagen                                              (* except KeyError: raise error *)
        | Some (_, data_size, data_offset) =>
            p_seek data_offset 0 ;;~
            data <~ pcatch (p_read data_size) is_eoverflow (fun _ => praise EMutagen) ;;
            if zlen data <? 16 then praise EMutagen
            else
              let s := zslice 0 16 data in
              if negb (zlen s =? 16) then praise EStruct                      (* struct.unpack('<HHLLHH', data[:16]) *)
              else
                let audio_format := le_decode (zslice 0 2 s) in
                let channels := le_decode (zslice 2 4 s) in
                let sample_rate := le_decode (zslice 4 8 s) in
                let block_align := le_decode (zslice 12 14 s) in
                let bits_per_sample := le_decode (zslice 14 16 s) in
                dsz <~ (if 0 <? block_align then
                          ' (c, _) <~ riff_getitem fuel root subs riff_data ;;
                          match c with
                          | None => pret (-1)                                  (* except KeyError: pass *)
                          | Some (_, dsize, _) => if block_align =? 0 then praise EZeroDiv else pret dsize
                          end
                        else pret (-1)) ;;
                (* if self.sample_rate > 0: self.length = self._number_of_samples / self.sample_rate *)
                (if 0 <? sample_rate then (if sample_rate =? 0 then praise EZeroDiv else pret tt) else pret tt) ;;~
                pret [audio_format; channels; sample_rate; bits_per_sample; block_align; dsz]
        end
    end).

(* _WaveID3._pre_load_header: -1 = ID3NoHeaderError, else the stream is left at the id3 chunk's data *)
Definition wave_pre_load_header (fuel : nat) : P Z :=
  f <~ wave_file fuel ;;
  match f with
  | None => pret (-1)
  | Some (root, subs) =>
      ' (c, _) <~ riff_getitem fuel root subs riff_id3 ;;
      match c with
      | None => pret (-1)
      | Some (_, _, data_offset) => p_seek data_offset 0 ;;~ pret data_offset
      end
  end.

(* WAVE.load without the ID3 parse: info ++ [id3 data offset | -1] *)
Definition wave_init (fuel : nat) : P (list Z) :=
  pconvert_io (
    info <~ wave_info fuel ;;
    p_seek 0 0 ;;~
    loc <~ wave_pre_load_header fuel ;;
    pret (info ++ [loc])).
Definition wave_load (d : list Z) : result (list Z) := prun (wave_init (lin_fuel 1 1 d)) d.

Definition wave_id (l : list Z) : list Z := l.
(* EXTRACT: wave_load wave_id *)
