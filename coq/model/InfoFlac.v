(* Model.InfoFlac -- FLAC STREAMINFO (C05).
   SPEC side: the 34-byte STREAMINFO block of the FLAC format specification (big-endian bit packing
   16/16/24/24/20/3/5/36/128).  CODE side: mutagen.flac.StreamInfo.load and StreamInfo.write. *)
From Coq Require Import ZArith List Bool.
Import ListNotations.
Require Import Base.Py Model.InfoBase.
Open Scope Z_scope.

Record flac_p := mkFlacP {
  fl_minbs : Z; fl_maxbs : Z;     (* 16 bits each *)
  fl_minfs : Z; fl_maxfs : Z;     (* 24 bits each *)
  fl_rate : Z;                    (* 20 bits, 0 invalid *)
  fl_channels : Z;                (* 1..8, stored minus one in 3 bits *)
  fl_bps : Z;                     (* 1..32, stored minus one in 5 bits *)
  fl_total : Z;                   (* 36 bits *)
  fl_md5 : Z                      (* 128 bits *)
}.

(* ------------------------------------------------------------------ SPEC side *)
(* the 64-bit big-endian word: rate:20 | channels-1:3 | bps-1:5 | total:36 *)
Definition flac_word (p : flac_p) : Z :=
  fl_rate p * 17592186044416 + (fl_channels p - 1) * 2199023255552 + (fl_bps p - 1) * 68719476736 + fl_total p.
Definition build_flac_streaminfo (p : flac_p) : list Z :=
  be_encode 2 (fl_minbs p) ++ be_encode 2 (fl_maxbs p) ++ be_encode 3 (fl_minfs p) ++ be_encode 3 (fl_maxfs p) ++
  be_encode 8 (flac_word p) ++ be_encode 16 (fl_md5 p).

(* reported attributes: [min_blocksize; max_blocksize; min_framesize; max_framesize; sample_rate; channels;
   bits_per_sample; total_samples; length numerator; length denominator; md5_signature] *)
Definition expected_flac (p : flac_p) : list Z :=
  [fl_minbs p; fl_maxbs p; fl_minfs p; fl_maxfs p; fl_rate p; fl_channels p; fl_bps p; fl_total p;
   fl_total p; fl_rate p; fl_md5 p].

(* ------------------------------------------------------------------ CODE side *)
(* StreamInfo.load(data): data is a StrictFileObject over the block content: a short read raises flac.error
   (the same class as the rate check, so one length test up front is equivalent) *)
Definition decode_flac_streaminfo (d : list Z) : result (list Z) :=
  if zlen d <? 34 then Raise EMutagen else
  let min_blocksize := be_at 0 2 d in
  let max_blocksize := be_at 2 2 d in
  let min_framesize := be_at 4 3 d in
  let max_framesize := be_at 7 3 d in
  let sample_first := be_at 10 2 d in
  let sample_channels_bps := be_at 12 1 d in
  let bps_total := be_at 13 5 d in
  let sample_tail := sample_channels_bps / 16 in                       (* >> 4 *)
  let sample_rate := sample_first * 16 + sample_tail in                (* (sample_first << 4) + sample_tail *)
  if sample_rate =? 0 then Raise EMutagen
  else
    let channels := (sample_channels_bps / 2) mod 8 + 1 in            (* ((x >> 1) & 7) + 1 *)
    let bps_tail := bps_total / 68719476736 in                         (* >> 36 *)
    let bps_head := (sample_channels_bps mod 2) * 16 in                (* (x & 1) << 4 *)
    let bits_per_sample := bps_head + bps_tail + 1 in
    let total_samples := bps_total mod 68719476736 in                  (* & 0xFFFFFFFFF *)
    let md5 := be_at 18 16 d in
    Ok [min_blocksize; max_blocksize; min_framesize; max_framesize; sample_rate; channels; bits_per_sample;
        total_samples; total_samples; sample_rate; md5].

(* struct.pack(">I", v)[-n:] ; struct.error when v is not an unsigned 32-bit value *)
Definition pack_I_tail (n : nat) (v : Z) : result (list Z) :=
  if (0 <=? v) && (v <? 4294967296) then Ok (skipn (4 - n) (be_encode 4 v)) else Raise EStruct.
(* bchr(v): ValueError outside 0..255 *)
Definition bchr_r (v : Z) : result (list Z) :=
  if (0 <=? v) && (v <? 256) then Ok [v] else Raise EValue.

(* StreamInfo.write() from the attribute values *)
Definition flac_streaminfo_write (p : flac_p) : result (list Z) :=
  rbind (pack_I_tail 2 (fl_minbs p)) (fun b1 =>
  rbind (pack_I_tail 2 (fl_maxbs p)) (fun b2 =>
  rbind (pack_I_tail 3 (fl_minfs p)) (fun b3 =>
  rbind (pack_I_tail 3 (fl_maxfs p)) (fun b4 =>
  rbind (pack_I_tail 2 (fl_rate p / 16)) (fun b5 =>                     (* sample_rate >> 4 *)
  rbind (bchr_r ((fl_rate p mod 16) * 16 + ((fl_channels p - 1) mod 8) * 2 + ((fl_bps p - 1) / 16) mod 2)) (fun b6 =>
  rbind (bchr_r (((fl_bps p - 1) mod 16) * 16 + (fl_total p / 4294967296) mod 16)) (fun b7 =>
  rbind (pack_I_tail 4 (fl_total p mod 4294967296)) (fun b8 =>
  rbind (pack_I_tail 4 ((fl_md5 p / 79228162514264337593543950336) mod 4294967296)) (fun m1 =>
  rbind (pack_I_tail 4 ((fl_md5 p / 18446744073709551616) mod 4294967296)) (fun m2 =>
  rbind (pack_I_tail 4 ((fl_md5 p / 4294967296) mod 4294967296)) (fun m3 =>
  rbind (pack_I_tail 4 (fl_md5 p mod 4294967296)) (fun m4 =>
  Ok (b1 ++ b2 ++ b3 ++ b4 ++ b5 ++ b6 ++ b7 ++ b8 ++ m1 ++ m2 ++ m3 ++ m4))))))))))))).

Definition flac_p_of_list (l : list Z) : flac_p :=
  match l with
  | [a; b; c; d; r; ch; bps; t; m] => mkFlacP a b c d r ch bps t m
  | _ => mkFlacP 0 0 0 0 0 0 0 0 0
  end.
(* EXTRACT: InfoFlac.build_flac_streaminfo InfoFlac.decode_flac_streaminfo InfoFlac.flac_streaminfo_write InfoFlac.flac_p_of_list InfoFlac.expected_flac *)
