(* Model.Id3Spec: Gallina model of mutagen/id3/_specs.py (one reader / writer / validity predicate per
   Spec class), of the text codecs they use (mutagen/_util.py decode_terminated, encode_endian) and of the
   frame description table type that py2v/gen_frames.py instantiates from the live registry.
   DEFINITIONS ONLY.  Conventions: bytes = list Z, text = list of code points (Z), SpecError and
   ID3JunkFrameError/error = EMutagen, other Python exceptions keep their class.
   Float-valued fields are modelled on their wire grid: VolumeAdjustmentSpec value = the signed 16-bit wire
   integer n (Python value n/512.0), VolumePeakSpec value = the 16-bit wire integer intround(peak*32768)
   (vp_read additionally exposes the exact 32-bit numerator p, Python value p/(2**31-1)),
   VolumeAdjustmentsSpec value = pairs (int(freq*2), int(adj*512)).  ID3TimeStamp values are their
   canonical text; the reader maps 'T' to ' ' (exact on canonical time stamps, the only valid ones). *)
From Coq Require Import ZArith List Bool.
Import ListNotations.
Require Import Base.Py.
Open Scope Z_scope.

(* ---------------------------------------------------------------- values and the spec table type *)
Inductive value := VInt (z : Z) | VText (cps : list Z) | VBytes (bs : list Z) | VList (vs : list value).

Inductive prim_kind :=
| KByte | KEncoding | KPictureType | KCTOCFlags | KChannel
| KInteger | KSizedInteger (n : Z)
| KString (n : Z) | KFrameID (n : Z)
| KLatin1Text | KEncodedText | KEncodedNumericText | KEncodedNumericPartText | KTimeStamp
| KBinaryData | KVolumeAdjustment | KVolumePeak | KSynchronizedText | KKeyEvent
| KVolumeAdjustments | KASPIIndex | KRVA (stereo_only : bool) | KID3Frames | KLatin1TextList.
Inductive spec_kind := KPrim (k : prim_kind) | KMulti (subs : list prim_kind).
Record field := mkField { f_name : list Z; f_kind : spec_kind }.
Record frame_desc := mkFrame { fr_id : list Z; fr_bases : list (list Z); fr_spec : list field; fr_opt : list field }.

Fixpoint value_eqb (a b : value) : bool :=
  match a, b with
  | VInt x, VInt y => x =? y
  | VText x, VText y => list_eqb x y
  | VBytes x, VBytes y => list_eqb x y
  | VList x, VList y =>
    (fix go (x y : list value) : bool :=
       match x, y with
       | [], [] => true
       | p :: x', q :: y' => value_eqb p q && go x' y'
       | _, _ => false
       end) x y
  | _, _ => false
  end.
Definition values_eqb (a b : list value) : bool := value_eqb (VList a) (VList b).

(* attribute names the specs look up on the frame: "encoding", "b", "N", "text" *)
Definition n_encoding : list Z := [101;110;99;111;100;105;110;103].
Definition n_b : list Z := [98].
Definition n_N : list Z := [78].
Definition n_text : list Z := [116;101;120;116].
Definition n_TextFrame : list Z := [84;101;120;116;70;114;97;109;101].

Record rctx := mkCtx { c_enc : Z; c_b : Z; c_N : Z }.
Definition ctx0 : rctx := mkCtx (-1) (-1) (-1).
Definition ctx_set (c : rctx) (name : list Z) (v : value) : rctx :=
  match v with
  | VInt z => if list_eqb name n_encoding then mkCtx z (c_b c) (c_N c)
              else if list_eqb name n_b then mkCtx (c_enc c) z (c_N c)
              else if list_eqb name n_N then mkCtx (c_enc c) (c_b c) z
              else c
  | _ => c
  end.

Definition is_nil {A} (l : list A) : bool := match l with [] => true | _ => false end.
Definition all_zero (l : list Z) : bool := forallb (fun b => b =? 0) l.
Definition no_zero (l : list Z) : bool := forallb (fun b => negb (b =? 0)) l.
(* `rest` may follow a v2.2/v2.3 encoded text field without being swallowed *)
Definition zero_rest_ok (rest : list Z) : bool := is_nil rest || negb (all_zero rest).

(* ---------------------------------------------------------------- integers *)
Definition nbytes (v : Z) : Z := if v <=? 0 then 0 else Z.log2 v / 8 + 1.
(* BitPaddedInt.to_str(v, bits=8, width, minwidth) *)
Definition int_to_str (v width minwidth : Z) : result (list Z) :=
  if v <? 0 then Raise EValue
  else if width =? -1 then Ok (be_encode (Z.to_nat (Z.max (nbytes v) minwidth)) v)
  else if nbytes v <=? width then Ok (be_encode (Z.to_nat width) v) else Raise EValue.
(* BitPaddedInt(bytes, bits) and to_str(v, bits, width=4) for frame sizes *)
Definition bpi_decode (bits : Z) (l : list Z) : Z := fold_left (fun acc b => acc * 2 ^ bits + b mod 2 ^ bits) l 0.
Fixpoint bpi_le (bits : Z) (n : nat) (v : Z) : list Z :=
  match n with O => [] | S n' => (v mod 2 ^ bits) :: bpi_le bits n' (v / 2 ^ bits) end.
Definition bpi_to_str (bits : Z) (width : nat) (v : Z) : result (list Z) :=
  if (v <? 0) || (2 ^ (bits * Z.of_nat width) <=? v) then Raise EValue else Ok (rev (bpi_le bits width v)).
Definition signed (bits v : Z) : Z := if v <? 2 ^ (bits - 1) then v else v - 2 ^ bits.
Definition in_range (lo hi v : Z) : bool := (lo <=? v) && (v <=? hi).

(* ---------------------------------------------------------------- text codecs *)
Definition valid_cp (c : Z) : bool := (0 <=? c) && (c <? 1114112) && negb ((55296 <=? c) && (c <? 57344)).
Definition latin1_cp (c : Z) : bool := (0 <=? c) && (c <? 256).
Definition ascii_cp (c : Z) : bool := (0 <=? c) && (c <? 128).

Definition utf8_enc1 (c : Z) : list Z :=
  if c <? 128 then [c]
  else if c <? 2048 then [192 + c / 64; 128 + c mod 64]
  else if c <? 65536 then [224 + c / 4096; 128 + (c / 64) mod 64; 128 + c mod 64]
  else [240 + c / 262144; 128 + (c / 4096) mod 64; 128 + (c / 64) mod 64; 128 + c mod 64].
Definition utf8_encode (s : list Z) : list Z := flat_map utf8_enc1 s.
Definition is_cont (b : Z) : bool := (128 <=? b) && (b <? 192).
Definition rcons (c : Z) (r : result (list Z)) : result (list Z) := rmap (cons c) r.
(* strict UTF-8 (Python 3): no overlong forms, no surrogates, nothing above U+10FFFF *)
Fixpoint utf8_decode (l : list Z) : result (list Z) :=
  match l with
  | [] => Ok []
  | b0 :: r =>
    if (b0 <? 0) then Raise EUnicode
    else if b0 <? 128 then rcons b0 (utf8_decode r)
    else if b0 <? 194 then Raise EUnicode
    else if b0 <? 224 then
      match r with
      | b1 :: r1 => if is_cont b1 then rcons ((b0 - 192) * 64 + (b1 - 128)) (utf8_decode r1) else Raise EUnicode
      | _ => Raise EUnicode
      end
    else if b0 <? 240 then
      match r with
      | b1 :: b2 :: r2 =>
        let c := (b0 - 224) * 4096 + (b1 - 128) * 64 + (b2 - 128) in
        if is_cont b1 && is_cont b2 && (2048 <=? c) && valid_cp c then rcons c (utf8_decode r2) else Raise EUnicode
      | _ => Raise EUnicode
      end
    else if b0 <? 245 then
      match r with
      | b1 :: b2 :: b3 :: r3 =>
        let c := (b0 - 240) * 262144 + (b1 - 128) * 4096 + (b2 - 128) * 64 + (b3 - 128) in
        if is_cont b1 && is_cont b2 && is_cont b3 && (65536 <=? c) && valid_cp c then rcons c (utf8_decode r3) else Raise EUnicode
      | _ => Raise EUnicode
      end
    else Raise EUnicode
  end.

Definition u16_units (c : Z) : list Z :=
  if c <? 65536 then [c] else [55296 + (c - 65536) / 1024; 56320 + (c - 65536) mod 1024].
Definition unit_bytes (be : bool) (u : Z) : list Z := if be then [u / 256; u mod 256] else [u mod 256; u / 256].
Definition unit_of (be : bool) (b0 b1 : Z) : Z := if be then b0 * 256 + b1 else b1 * 256 + b0.
Definition u16_enc1 (be : bool) (c : Z) : list Z := flat_map (unit_bytes be) (u16_units c).
Definition u16_encode (be : bool) (s : list Z) : list Z := flat_map (u16_enc1 be) s.

Definition tcons (c : Z) (r : result (list Z * option (list Z))) : result (list Z * option (list Z)) :=
  match r with Ok (t, o) => Ok (c :: t, o) | Raise e => Raise e end.
(* the incremental UTF-16 decoder of decode_terminated's slow path, fed unit by unit: text up to the first
   U+0000 and Some rest, or the whole text and None when the data ends first *)
Fixpoint u16_term (be : bool) (l : list Z) : result (list Z * option (list Z)) :=
  match l with
  | [] => Ok ([], None)
  | b0 :: l1 =>
    match l1 with
    | [] => Raise EUnicode
    | b1 :: r =>
      let u := unit_of be b0 b1 in
      if u =? 0 then Ok ([], Some r)
      else if (55296 <=? u) && (u <? 56320) then
        match r with
        | c0 :: r1 =>
          match r1 with
          | c1 :: r2 =>
            let u2 := unit_of be c0 c1 in
            if (56320 <=? u2) && (u2 <? 57344)
            then tcons (65536 + (u - 55296) * 1024 + (u2 - 56320)) (u16_term be r2) else Raise EUnicode
          | [] => Raise EUnicode
          end
        | [] => Raise EUnicode
        end
      else if (56320 <=? u) && (u <? 57344) then Raise EUnicode
      else tcons u (u16_term be r)
    end
  end.
(* codec 'utf16': the incremental decoder insists on a BOM *)
Definition u16_bom_term (l : list Z) : result (list Z * option (list Z)) :=
  match l with
  | [] => Ok ([], None)
  | [_] => Raise EUnicode
  | 255 :: 254 :: r => u16_term false r
  | 254 :: 255 :: r => u16_term true r
  | _ => Raise EUnicode
  end.

Fixpoint split_nul (l : list Z) : option (list Z * list Z) :=
  match l with
  | [] => None
  | b :: r => if b =? 0 then Some ([], r)
              else match split_nul r with Some (p, q) => Some (b :: p, q) | None => None end
  end.

Definition valid_enc (enc : Z) : bool := (0 <=? enc) && (enc <=? 3).
(* encode_endian(text, codec, le=True) for the four ID3 encodings; UnicodeEncodeError = EUnicode *)
Definition text_encode (enc : Z) (s : list Z) : result (list Z) :=
  if enc =? 0 then (if forallb latin1_cp s then Ok s else Raise EUnicode)
  else if negb (forallb valid_cp s) then Raise EUnicode
  else if enc =? 1 then Ok (255 :: 254 :: u16_encode false s)
  else if enc =? 2 then Ok (u16_encode true s)
  else if enc =? 3 then Ok (utf8_encode s)
  else Raise EKey.
Definition text_term (enc : Z) : list Z := if (enc =? 1) || (enc =? 2) then [0; 0] else [0].
Definition bytes_decode (enc : Z) (l : list Z) : result (list Z) := if enc =? 0 then Ok l else utf8_decode l.

(* mutagen._util.decode_terminated(data, codec, strict) ; "not null terminated" = EValue *)
Definition decode_terminated (enc : Z) (strict : bool) (data : list Z) : result (list Z * list Z) :=
  if (enc =? 0) || (enc =? 3) then
    match split_nul data with
    | None => rbind (bytes_decode enc data) (fun t => if strict then Raise EValue else Ok (t, []))
    | Some (p, r) => rbind (bytes_decode enc p) (fun t => Ok (t, r))
    end
  else
    match (if enc =? 1 then u16_bom_term data else u16_term true data) with
    | Ok (t, Some r) => Ok (t, r)
    | Ok (t, None) => if strict then Raise EValue else Ok (t, [])
    | Raise e => Raise e
    end.

Definition text_fixups (enc : Z) (data : list Z) : list (list Z) :=
  if enc =? 2 then [data; data ++ [0]]
  else if enc =? 1 then [data; data ++ [0]; 255 :: 254 :: data; 255 :: 254 :: (data ++ [0])]
  else [data].
Fixpoint first_ok {A} (f : list Z -> result A) (cands : list (list Z)) : result A :=
  match cands with
  | [] => Raise EMutagen
  | c :: cs => match f c with Ok a => Ok a | Raise _ => first_ok f cs end
  end.

(* EncodedTextSpec.read / write *)
Definition enc_text_read (ver enc : Z) (data : list Z) : result (list Z * list Z) :=
  if negb (valid_enc enc) then Raise EKey
  else match first_ok (decode_terminated enc false) (text_fixups enc data) with
       | Ok (t, rest) => Ok (t, if (ver <? 4) && all_zero rest then [] else rest)
       | Raise e => Raise e
       end.
Definition enc_text_write (enc : Z) (s : list Z) : result (list Z) :=
  if negb (valid_enc enc) then Raise EKey
  else match text_encode enc s with
       | Ok b => Ok (b ++ text_term enc)
       | Raise _ => Raise EMutagen
       end.

(* Latin1TextSpec *)
Definition latin1_read (data : list Z) : list Z * list Z :=
  match split_nul data with Some (p, r) => (p, r) | None => (data, []) end.
Definition latin1_write (s : list Z) : result (list Z) :=
  if forallb latin1_cp s then Ok (s ++ [0]) else Raise EUnicode.

(* ---------------------------------------------------------------- small helpers for the list specs *)
Definition vpair (a b : value) : value := VList [a; b].
Fixpoint rmapM {A B} (f : A -> result B) (l : list A) : result (list B) :=
  match l with
  | [] => Ok []
  | x :: r => match f x with
              | Ok y => match rmapM f r with Ok ys => Ok (y :: ys) | Raise e => Raise e end
              | Raise e => Raise e
              end
  end.
Definition rconcat {A} (f : A -> result (list Z)) (l : list A) : result (list Z) := rmap (@concat Z) (rmapM f l).

(* fixed-size records: `while len(data) >= k` *)
Fixpoint chunks (fuel : nat) (k : Z) (data : list Z) : list (list Z) * list Z :=
  match fuel with
  | O => ([], data)
  | S f => if (k <=? zlen data) && (0 <? k)
           then let (cs, rest) := chunks f k (zdrop k data) in (ztake k data :: cs, rest)
           else ([], data)
  end.

(* VolumePeakSpec.read: (numerator p with value p/(2**31-1), rest) *)
Definition vp_read (data : list Z) : result (Z * list Z) :=
  match data with
  | [] => Raise EIndex
  | bits :: r =>
    let vb := Z.min 4 ((bits + 7) / 8) in
    if zlen data <? vb + 1 then Raise EMutagen
    else let shift := ((8 - bits mod 8) mod 8) + (4 - vb) * 8 in
         Ok (be_decode (ztake vb r) * 2 ^ shift, zdrop vb r)
  end.
(* intround(p / (2**31-1) * 32768): the 16-bit wire value a reloaded peak is written back as
   (the exact quotient is never a tie, 2**31-1 being odd) *)
Definition peak_wire (p : Z) : Z := (p * 65536 + 2147483647) / 4294967294.

(* RVASpec *)
Definition rva_sign_idx : list Z := [0; 1; 4; 5; 8; 10].
Definition rva_flag_of (i : Z) : option Z :=
  if i =? 0 then Some 0 else if i =? 1 then Some 1 else if i =? 4 then Some 2 else if i =? 5 then Some 3
  else if i =? 8 then Some 4 else if i =? 10 then Some 5 else None.
(* values with index, applying `f bit v` at the sign positions *)
Fixpoint rva_map (f : Z -> Z -> Z) (i : Z) (l : list Z) : list Z :=
  match l with
  | [] => []
  | v :: r => (match rva_flag_of i with Some bit => f bit v | None => v end) :: rva_map f (i + 1) r
  end.
Fixpoint rva_flags (i : Z) (l : list Z) : Z :=
  match l with
  | [] => 0
  | v :: r => (match rva_flag_of i with Some bit => if v <? 0 then 0 else 2 ^ bit | None => 0 end) + rva_flags (i + 1) r
  end.
Definition rva_max (stereo_only : bool) : Z := if stereo_only then 4 else 12.
Definition rva_write (stereo_only : bool) (vals : list Z) : result (list Z) :=
  if (zlen vals <? 2) || (rva_max stereo_only <? zlen vals) then Raise EMutagen
  else let flags := rva_flags 0 vals in
       let absd := rva_map (fun _ v => Z.abs v) 0 vals in
       if negb (forallb (fun v => 0 <=? v) absd) then Raise EValue
       else let w := fold_left Z.max (map nbytes absd) 2 in
            if 255 <? w * 8 then Raise EValue
            else Ok (flags :: (w * 8) :: concat (map (be_encode (Z.to_nat w)) absd)).
Definition rva_read (stereo_only : bool) (data : list Z) : result (list Z * list Z) :=
  match data with
  | [] => Raise EIndex
  | flags :: r =>
    match r with
    | [] => Raise EMutagen
    | bits :: r1 =>
      if bits =? 0 then Raise EMutagen
      else let bpv := (bits + 7) / 8 in
           let (cs, rest0) := chunks (Z.to_nat (rva_max stereo_only)) bpv r1 in
           if zlen cs <? 2 then Raise EMutagen
           else Ok (rva_map (fun bit v => if Z.testbit flags bit then v else - v) 0 (map be_decode cs), rest0)
    end
  end.

(* VolumeAdjustmentsSpec: the dict keyed by frequency, then sorted(items) *)
Fixpoint adj_insert (k a : Z) (l : list (Z * Z)) : list (Z * Z) :=
  match l with
  | [] => [(k, a)]
  | (k', a') :: r => if k <? k' then (k, a) :: l else if k =? k' then (k, a) :: r else (k', a') :: adj_insert k a r
  end.
(* list.sort() of (freq, adj) tuples *)
Fixpoint pair_insert (p : Z * Z) (l : list (Z * Z)) : list (Z * Z) :=
  match l with
  | [] => [p]
  | q :: r => if (fst p <? fst q) || ((fst p =? fst q) && (snd p <=? snd q)) then p :: l else q :: pair_insert p r
  end.
Definition pair_sort (l : list (Z * Z)) : list (Z * Z) := fold_right pair_insert [] l.

Definition as_int (v : value) : result Z := match v with VInt z => Ok z | _ => Raise EType end.
Definition as_text (v : value) : result (list Z) := match v with VText t => Ok t | _ => Raise EType end.
Definition as_list (v : value) : result (list value) := match v with VList l => Ok l | _ => Raise EType end.
Definition as_pair (v : value) : result (value * value) := match v with VList [a; b] => Ok (a, b) | _ => Raise EType end.
Definition as_int_pair (v : value) : result (Z * Z) :=
  match v with VList [VInt a; VInt b] => Ok (a, b) | _ => Raise EType end.

Definition is_enc_text (k : prim_kind) : bool :=
  match k with KEncodedText | KEncodedNumericText | KEncodedNumericPartText | KTimeStamp => true | _ => false end.
Definition ts_to_wire (s : list Z) : list Z := map (fun c => if c =? 32 then 84 else c) s.
Definition ts_of_wire (s : list Z) : list Z := map (fun c => if c =? 84 then 32 else c) s.

(* ---------------------------------------------------------------- Spec.read *)
Section Specs.
(* reader / writer / validity of nested frame data (ID3FramesSpec), supplied by Id3Frame *)
Variable sub : list Z -> result (value * list Z).
Variable subw : value -> result (list Z).
Variable subvalid : value -> bool.
Variable ver : Z.

Fixpoint sylt_loop (fuel : nat) (enc : Z) (data : list Z) : result (list value) :=
  match data with
  | [] => Ok []
  | _ => match fuel with
         | O => Raise EOutOfFuel
         | S f => match decode_terminated enc true data with
                  | Ok (t, rest) =>
                    if zlen rest <? 4 then Raise EMutagen
                    else rmap (cons (vpair (VText t) (VInt (be_decode (ztake 4 rest))))) (sylt_loop f enc (zdrop 4 rest))
                  | Raise _ => Raise EMutagen
                  end
         end
  end.
Fixpoint latin1_list_read (n : nat) (data : list Z) : list value * list Z :=
  match n with
  | O => ([], data)
  | S n' => let (t, rest) := latin1_read data in
            let (ts, rest') := latin1_list_read n' rest in (VText t :: ts, rest')
  end.

Definition byte_read (data : list Z) : result (value * list Z) :=
  match data with [] => Raise EIndex | b :: r => Ok (VInt b, r) end.

Definition prim_read (c : rctx) (k : prim_kind) (data : list Z) : result (value * list Z) :=
  match k with
  | KByte | KPictureType | KCTOCFlags | KChannel => byte_read data
  | KEncoding =>
    match data with
    | [] => Raise EIndex
    | b :: r => if valid_enc b then Ok (VInt b, r) else Raise EMutagen
    end
  | KInteger => Ok (VInt (be_decode data), [])
  | KSizedInteger n => Ok (VInt (be_decode (ztake n data)), zdrop n data)
  | KString n | KFrameID n =>
    let chunk := ztake n data in
    if forallb ascii_cp chunk then Ok (VText chunk, zdrop n data) else Raise EMutagen
  | KLatin1Text => let (t, r) := latin1_read data in Ok (VText t, r)
  | KEncodedText | KEncodedNumericText | KEncodedNumericPartText =>
    match enc_text_read ver (c_enc c) data with
    | Ok (t, r) => Ok (VText t, r)
    | Raise e => Raise e
    end
  | KTimeStamp =>
    match enc_text_read ver (c_enc c) data with
    | Ok (t, r) => Ok (VText (ts_of_wire t), r)
    | Raise e => Raise e
    end
  | KBinaryData => Ok (VBytes data, [])
  | KVolumeAdjustment =>
    if zlen data <? 2 then Raise EMutagen   (* SpecError("not enough data"), a MutagenError for the frame reader *)
    else Ok (VInt (signed 16 (be_decode (ztake 2 data))), zdrop 2 data)
  | KVolumePeak =>
    match vp_read data with
    | Ok (p, r) => Ok (VInt (peak_wire p), r)
    | Raise e => Raise e
    end
  | KSynchronizedText =>
    if negb (valid_enc (c_enc c)) then Raise EKey
    else rmap (fun l => (VList l, [])) (sylt_loop (S (length data)) (c_enc c) data)
  | KKeyEvent =>
    let (cs, rest) := chunks (length data) 5 data in
    (* struct.unpack(">BI"): the event type is the unsigned byte $00..$FF of the ID3v2 event timing codes *)
    Ok (VList (map (fun ch => vpair (VInt (be_decode (ztake 1 ch))) (VInt (be_decode (zdrop 1 ch)))) cs), rest)
  | KVolumeAdjustments =>
    let (cs, rest) := chunks (length data) 4 data in
    let m := fold_left (fun acc ch => adj_insert (be_decode (ztake 2 ch)) (signed 16 (be_decode (zdrop 2 ch))) acc) cs [] in
    Ok (VList (map (fun p => vpair (VInt (fst p)) (VInt (snd p))) m), rest)
  | KASPIIndex =>
    let size := if c_b c =? 16 then 2 else if c_b c =? 8 then 1 else 0 in
    if size =? 0 then Raise EMutagen
    else let n := c_N c * size in
         if (c_N c <? 0) || (zlen data <? n) then Raise EMutagen
         else Ok (VList (map (fun ch => VInt (be_decode ch)) (fst (chunks (Z.to_nat (c_N c)) size (ztake n data)))), zdrop n data)
  | KRVA so =>
    match rva_read so data with
    | Ok (vs, r) => Ok (VList (map VInt vs), r)
    | Raise e => Raise e
    end
  | KID3Frames => sub data
  | KLatin1TextList =>
    match data with
    | [] => Raise EIndex
    | n :: r => let (ts, rest) := latin1_list_read (Z.to_nat n) r in Ok (VList ts, rest)
    end
  end.

(* MultiSpec.read *)
Fixpoint multi_record (c : rctx) (subs : list prim_kind) (data : list Z) : result (list value * list Z) :=
  match subs with
  | [] => Ok ([], data)
  | k :: ks => match prim_read c k data with
               | Ok (v, rest) => match multi_record c ks rest with
                                 | Ok (vs, r) => Ok (v :: vs, r)
                                 | Raise e => Raise e
                                 end
               | Raise e => Raise e
               end
  end.
Definition multi_pack (subs : list prim_kind) (rec : list value) : value :=
  match subs, rec with [_], [v] => v | _, _ => VList rec end.
Fixpoint multi_loop (fuel : nat) (c : rctx) (subs : list prim_kind) (data : list Z) : result (list value) :=
  match data with
  | [] => Ok []
  | _ => match fuel with
         | O => Raise EOutOfFuel
         | S f => match multi_record c subs data with
                  | Ok (rec, rest) => rmap (cons (multi_pack subs rec)) (multi_loop f c subs rest)
                  | Raise e => Raise e
                  end
         end
  end.

Definition spec_read (c : rctx) (k : spec_kind) (data : list Z) : result (value * list Z) :=
  match k with
  | KPrim p => prim_read c p data
  | KMulti subs => rmap (fun l => (VList l, [])) (multi_loop (S (length data)) c subs data)
  end.

(* ---------------------------------------------------------------- Spec.write *)
Definition byte_write (v : value) : result (list Z) :=
  match v with VInt b => if in_range 0 255 b then Ok [b] else Raise EValue | _ => Raise EType end.
Definition pack_u (n : nat) (v : Z) : result (list Z) :=       (* struct.pack('>B/H/I') *)
  if in_range 0 (256 ^ Z.of_nat n - 1) v then Ok (be_encode n v) else Raise EStruct.
Definition pack_s (n : nat) (v : Z) : result (list Z) :=       (* struct.pack('>b/h') *)
  let half := 256 ^ Z.of_nat n / 2 in
  if in_range (- half) (half - 1) v then Ok (be_encode n (v mod 256 ^ Z.of_nat n)) else Raise EStruct.

Definition prim_write (c : rctx) (k : prim_kind) (v : value) : result (list Z) :=
  match k with
  | KByte | KEncoding | KPictureType | KCTOCFlags | KChannel => byte_write v
  | KInteger => rbind (as_int v) (fun z => int_to_str z (-1) 4)
  | KSizedInteger n => rbind (as_int v) (fun z => int_to_str z n 4)
  | KString n | KFrameID n =>
    rbind (as_text v) (fun t => if forallb ascii_cp t then Ok (ztake n (t ++ zeros n)) else Raise EUnicode)
  | KLatin1Text => rbind (as_text v) latin1_write
  | KEncodedText | KEncodedNumericText | KEncodedNumericPartText => rbind (as_text v) (enc_text_write (c_enc c))
  | KTimeStamp => rbind (as_text v) (fun t => enc_text_write (c_enc c) (ts_to_wire t))
  | KBinaryData => match v with VBytes b => Ok b | _ => Raise EType end
  | KVolumeAdjustment =>
    rbind (as_int v) (fun n => if in_range (-32768) 32767 n then Ok (be_encode 2 (n mod 65536)) else Raise EMutagen)
  | KVolumePeak =>
    rbind (as_int v) (fun n => if in_range 0 65535 n then Ok (16 :: be_encode 2 n) else Raise EMutagen)
  | KSynchronizedText =>
    if negb (valid_enc (c_enc c)) then Raise EKey
    else rbind (as_list v) (rconcat (fun e =>
           rbind (as_pair e) (fun '(t, tm) => rbind (as_text t) (fun t => rbind (as_int tm) (fun tm =>
             rbind (enc_text_write (c_enc c) t) (fun b => rmap (app b) (pack_u 4 tm)))))))
  | KKeyEvent =>
    rbind (as_list v) (rconcat (fun e => rbind (as_int_pair e) (fun '(a, b) =>
      rbind (pack_u 1 a) (fun x => rmap (app x) (pack_u 4 b)))))
  | KVolumeAdjustments =>
    rbind (as_list v) (fun l => rbind (rmapM as_int_pair l) (fun ps =>
      rconcat (fun p : Z * Z => rbind (pack_u 2 (fst p)) (fun x => rmap (app x) (pack_s 2 (snd p)))) (pair_sort ps)))
  | KASPIIndex =>
    let size := if c_b c =? 16 then 2%nat else if c_b c =? 8 then 1%nat else 0%nat in
    match size with
    | O => Raise EMutagen
    | _ => rbind (as_list v) (fun l =>
             if negb (zlen l =? c_N c) then Raise EMutagen
             else match rconcat (fun e => rbind (as_int e) (pack_u size)) l with
                  | Ok b => Ok b
                  | Raise _ => Raise EMutagen
                  end)
    end
  | KRVA so => rbind (as_list v) (fun l => rbind (rmapM as_int l) (rva_write so))
  | KID3Frames => subw v
  | KLatin1TextList =>
    rbind (as_list v) (fun l => rbind (byte_write (VInt (zlen l))) (fun b =>
      rmap (app b) (rconcat (fun e => rbind (as_text e) latin1_write) l)))
  end.

Fixpoint multi_record_write (c : rctx) (subs : list prim_kind) (vs : list value) : result (list Z) :=
  match subs, vs with
  | k :: ks, v :: vs' => rbind (prim_write c k v) (fun b => rmap (app b) (multi_record_write c ks vs'))
  | _, _ => Ok []                     (* zip(record, specs) stops at the shorter *)
  end.
Definition multi_unpack (subs : list prim_kind) (v : value) : result (list value) :=
  match subs with [_] => Ok [v] | _ => as_list v end.
Definition spec_write (c : rctx) (k : spec_kind) (v : value) : result (list Z) :=
  match k with
  | KPrim p => prim_write c p v
  | KMulti subs => rbind (as_list v) (rconcat (fun e => rbind (multi_unpack subs e) (multi_record_write c subs)))
  end.

(* ---------------------------------------------------------------- validity ("valid non-degenerate value") *)
Definition text_ok (enc : Z) (t : list Z) : bool :=
  no_zero t && (if enc =? 0 then forallb latin1_cp t else forallb valid_cp t).
(* canonical ID3TimeStamp text: YYYY[-MM[-DD[ HH[:MM[:SS]]]]] ; the theorems only use the character class *)
Definition is_digit (c : Z) : bool := (48 <=? c) && (c <=? 57).
Definition ts_shape (t : list Z) : bool :=
  match t with
  | y1 :: y2 :: y3 :: y4 :: r =>
    is_digit y1 && is_digit y2 && is_digit y3 && is_digit y4 &&
    (fix go (seps : list Z) (r : list Z) : bool :=
       match r with
       | [] => true
       | s :: d1 :: d2 :: r' => match seps with
                                | sep :: seps' => (s =? sep) && is_digit d1 && is_digit d2 && go seps' r'
                                | [] => false
                                end
       | _ => false
       end) [45; 45; 32; 58; 58] r
  | _ => false
  end.
Definition ts_ok (t : list Z) : bool :=
  forallb (fun c => is_digit c || (c =? 45) || (c =? 32) || (c =? 58)) t && ts_shape t.

Definition text_val_ok (enc : Z) (k : prim_kind) (v : value) : bool :=
  match v with
  | VText t => valid_enc enc && (match k with KTimeStamp => ts_ok t | _ => text_ok enc t end)
  | _ => false
  end.
Fixpoint strictly_sorted (l : list (Z * Z)) : bool :=
  match l with
  | p :: ((q :: _) as r) => (fst p <? fst q) && strictly_sorted r
  | _ => true
  end.
Definition all_int_pairs (f : Z -> Z -> bool) (l : list value) : bool :=
  forallb (fun e => match e with VList [VInt a; VInt b] => f a b | _ => false end) l.
Definition ints_of (l : list value) : list Z := flat_map (fun e => match e with VInt z => [z] | _ => [] end) l.
Definition all_ints (f : Z -> bool) (l : list value) : bool :=
  forallb (fun e => match e with VInt z => f z | _ => false end) l.
Fixpoint rva_ok (i : Z) (l : list Z) : bool :=
  match l with
  | [] => true
  | v :: r => (match rva_flag_of i with Some _ => true | None => 0 <=? v end) && (Z.abs v <? 2 ^ 248) && rva_ok (i + 1) r
  end.

Definition prim_valid (c : rctx) (k : prim_kind) (v : value) : bool :=
  match k with
  | KByte | KPictureType | KCTOCFlags | KChannel => match v with VInt b => in_range 0 255 b | _ => false end
  | KEncoding => match v with VInt b => valid_enc b && ((4 <=? ver) || (b <=? 1)) | _ => false end
  | KInteger => match v with VInt z => 0 <=? z | _ => false end
  | KSizedInteger n => match v with VInt z => (1 <=? n) && (0 <=? z) && (z <? 256 ^ n) | _ => false end
  | KString n | KFrameID n => match v with VText t => (1 <=? n) && (zlen t =? n) && forallb ascii_cp t | _ => false end
  | KLatin1Text => match v with VText t => no_zero t && forallb latin1_cp t | _ => false end
  | KEncodedText | KEncodedNumericText | KEncodedNumericPartText | KTimeStamp => text_val_ok (c_enc c) k v
  | KBinaryData => match v with VBytes b => true | _ => false end
  | KVolumeAdjustment => match v with VInt n => in_range (-32768) 32767 n | _ => false end
  | KVolumePeak => match v with VInt n => in_range 0 65535 n | _ => false end
  | KSynchronizedText =>
    valid_enc (c_enc c) &&
    match v with
    | VList l => negb (is_nil l) &&
                 forallb (fun e => match e with VList [VText t; VInt tm] => text_ok (c_enc c) t && in_range 0 4294967295 tm | _ => false end) l
    | _ => false
    end
  | KKeyEvent =>
    match v with VList l => negb (is_nil l) && all_int_pairs (fun a b => in_range 0 255 a && in_range 0 4294967295 b) l | _ => false end
  | KVolumeAdjustments =>
    match v with
    | VList l => negb (is_nil l) && all_int_pairs (fun a b => in_range 0 65535 a && in_range (-32768) 32767 b) l &&
                 strictly_sorted (flat_map (fun e => match e with VList [VInt a; VInt b] => [(a, b)] | _ => [] end) l)
    | _ => false
    end
  | KASPIIndex =>
    match v with
    | VList l => negb (is_nil l) && (zlen l =? c_N c) &&
                 (if c_b c =? 16 then all_ints (in_range 0 65535) l else if c_b c =? 8 then all_ints (in_range 0 255) l else false)
    | _ => false
    end
  | KRVA so =>
    match v with
    | VList l => all_ints (fun _ => true) l && (2 <=? zlen l) && (zlen l <=? rva_max so) && rva_ok 0 (ints_of l)
    | _ => false
    end
  | KID3Frames => subvalid v
  | KLatin1TextList =>
    match v with
    | VList l => (zlen l <=? 255) && forallb (fun e => match e with VText t => no_zero t && forallb latin1_cp t | _ => false end) l
    | _ => false
    end
  end.

(* a MultiSpec value: non-empty list of records of valid texts; for v2.2/v2.3 no text may be followed by a
   non-empty all-zero remainder (it would be swallowed by EncodedTextSpec.read) *)
Fixpoint multi_flat (subs : list prim_kind) (l : list value) : list (prim_kind * value) :=
  match l with
  | [] => []
  | e :: r => (match subs with
               | [k] => [(k, e)]
               | _ => match e with VList rec => combine subs rec | _ => [] end
               end) ++ multi_flat subs r
  end.
Fixpoint flat_valid (c : rctx) (l : list (prim_kind * value)) : bool :=
  match l with
  | [] => true
  | (k, v) :: r =>
    is_enc_text k && prim_valid c k v && flat_valid c r &&
    ((4 <=? ver) || match rconcat (fun kv : prim_kind * value => prim_write c (fst kv) (snd kv)) r with
                    | Ok b => zero_rest_ok b
                    | Raise _ => false
                    end)
  end.
Definition record_shape (subs : list prim_kind) (e : value) : bool :=
  match subs with
  | [_] => true
  | _ => match e with VList rec => length rec =? length subs | _ => false end%nat
  end.
Definition spec_valid (c : rctx) (k : spec_kind) (v : value) : bool :=
  match k with
  | KPrim p => prim_valid c p v
  | KMulti subs =>
    match v with
    | VList l => negb (is_nil l) && negb (is_nil subs) && forallb (record_shape subs) l && flat_valid c (multi_flat subs l)
    | _ => false
    end
  end.
End Specs.

(* EXTRACT: vp_read peak_wire enc_text_read enc_text_write *)
