(* Model.Dict -- C16: tag objects as dictionaries.  DEFINITIONS ONLY.
   Mirrors /repo/mutagen/_util.py (DictMixin, DictProxy), _vorbis.py (VCommentDict, is_valid_key),
   apev2.py (_CIDictProxy, APEv2.__getitem__/__setitem__/__delitem__, is_valid_apev2_key),
   id3/_tags.py (ID3Tags.__setitem__, add, getall, delall, setall) and _file.py (FileType proxying).
   str = list of code points; bytes = list of byte values. *)
From Coq Require Import ZArith List Bool.
Import ListNotations.
Require Import Base.Py.
Open Scope Z_scope.

Definition key := list Z.
Definition str := list Z.

(* ------------------------------------------------------------------------------------------ *)
(* Python's builtin dict (insertion ordered): association list with unique keys.              *)
Section PyDict.
  Context {A : Type}.
  Fixpoint pd_find (k : key) (d : list (key * A)) : option A :=
    match d with
    | [] => None
    | (k', a) :: d' => if list_eqb k k' then Some a else pd_find k d'
    end.
  Definition pd_mem (k : key) (d : list (key * A)) : bool :=
    match pd_find k d with Some _ => true | None => false end.
  (* d[k] = a : replaces in place, or appends *)
  Fixpoint pd_set (k : key) (a : A) (d : list (key * A)) : list (key * A) :=
    match d with
    | [] => [(k, a)]
    | (k', a') :: d' => if list_eqb k k' then (k', a) :: d' else (k', a') :: pd_set k a d'
    end.
  Definition pd_remove (k : key) (d : list (key * A)) : list (key * A) :=
    filter (fun p => negb (list_eqb k (fst p))) d.
  Definition pd_keys (d : list (key * A)) : list key := map fst d.
End PyDict.

(* ------------------------------------------------------------------------------------------ *)
(* The primitive interface DictMixin builds on: keys(), __getitem__, __setitem__, __delitem__.
   set/del return the state as well: it survives a raise (FileType.__setitem__ adds tags first). *)
Record DictBase (S V : Type) := mkDict {
  d_keys : S -> list key;
  d_get : S -> key -> result V;
  d_set : S -> key -> V -> result unit * S;
  d_del : S -> key -> result unit * S
}.
Arguments mkDict {S V}. Arguments d_keys {S V}. Arguments d_get {S V}.
Arguments d_set {S V}. Arguments d_del {S V}.

Inductive dop (V : Type) :=
| OpGet (k : key) | OpSet (k : key) (v : V) | OpDel (k : key) | OpContains (k : key)
| OpKeys | OpValues | OpItems | OpLen | OpClear
| OpGetD (k : key) (d : V) | OpSetDefault (k : key) (v : V)
| OpPop (k : key) | OpPopD (k : key) (d : V) | OpPopItem
| OpUpdate (l : list (key * V)).
Arguments OpGet {V}. Arguments OpSet {V}. Arguments OpDel {V}. Arguments OpContains {V}.
Arguments OpKeys {V}. Arguments OpValues {V}. Arguments OpItems {V}. Arguments OpLen {V}.
Arguments OpClear {V}. Arguments OpGetD {V}. Arguments OpSetDefault {V}. Arguments OpPop {V}.
Arguments OpPopD {V}. Arguments OpPopItem {V}. Arguments OpUpdate {V}.

Inductive dout (V : Type) :=
| ONone | OBool (b : bool) | OVal (v : V) | OKeys (l : list key) | OVals (l : list V)
| OItems (l : list (key * V)) | OLen (n : Z) | OPair (k : key) (v : V).
Arguments ONone {V}. Arguments OBool {V}. Arguments OVal {V}. Arguments OKeys {V}.
Arguments OVals {V}. Arguments OItems {V}. Arguments OLen {V}. Arguments OPair {V}.

(* DictMixin: every derived operation over the primitives, try/except structure as in _util.py *)
Section DictMixin.
  Context {S V : Type} (D : DictBase S V).

  (* __has_key: try: self[key] / except KeyError: return False / else: return True *)
  Definition dm_contains (s : S) (k : key) : result bool :=
    match d_get D s k with
    | Ok _ => Ok true
    | Raise EKey => Ok false
    | Raise e => Raise e
    end.

  (* values: [self[k] for k in self.keys()] *)
  Fixpoint dm_values_of (s : S) (ks : list key) : result (list V) :=
    match ks with
    | [] => Ok []
    | k :: ks' =>
      match d_get D s k with
      | Raise e => Raise e
      | Ok v => match dm_values_of s ks' with Raise e => Raise e | Ok vs => Ok (v :: vs) end
      end
    end.
  Definition dm_values (s : S) : result (list V) := dm_values_of s (d_keys D s).

  (* items: list(zip(self.keys(), self.values())) *)
  Definition dm_items (s : S) : result (list (key * V)) :=
    rmap (combine (d_keys D s)) (dm_values s).

  (* clear: for key in list(self.keys()): self.__delitem__(key) *)
  Fixpoint dm_del_all (s : S) (ks : list key) : result unit * S :=
    match ks with
    | [] => (Ok tt, s)
    | k :: ks' =>
      match d_del D s k with
      | (Ok _, s') => dm_del_all s' ks'
      | (Raise e, s') => (Raise e, s')
      end
    end.
  Definition dm_clear (s : S) : result unit * S := dm_del_all s (d_keys D s).

  (* pop(key, *args): try: value = self[key] / except KeyError: default or re-raise / del self[key] *)
  Definition dm_pop (s : S) (k : key) (dflt : option V) : result V * S :=
    match d_get D s k with
    | Raise EKey => match dflt with Some d => (Ok d, s) | None => (Raise EKey, s) end
    | Raise e => (Raise e, s)
    | Ok v =>
      match d_del D s k with
      | (Ok _, s') => (Ok v, s')
      | (Raise e, s') => (Raise e, s')
      end
    end.

  (* popitem: first key of keys(), else KeyError; return key, self.pop(key) *)
  Definition dm_popitem (s : S) : result (key * V) * S :=
    match d_keys D s with
    | [] => (Raise EKey, s)
    | k :: _ =>
      match dm_pop s k None with
      | (Ok v, s') => (Ok (k, v), s')
      | (Raise e, s') => (Raise e, s')
      end
    end.

  (* update(other): for key, value in other.items(): self.__setitem__(key, value) *)
  Fixpoint dm_update (s : S) (l : list (key * V)) : result unit * S :=
    match l with
    | [] => (Ok tt, s)
    | (k, v) :: l' =>
      match d_set D s k v with
      | (Ok _, s') => dm_update s' l'
      | (Raise e, s') => (Raise e, s')
      end
    end.

  (* setdefault: try: return self[key] / except KeyError: self[key] = default; return default *)
  Definition dm_setdefault (s : S) (k : key) (v : V) : result V * S :=
    match d_get D s k with
    | Ok x => (Ok x, s)
    | Raise EKey =>
      match d_set D s k v with
      | (Ok _, s') => (Ok v, s')
      | (Raise e, s') => (Raise e, s')
      end
    | Raise e => (Raise e, s)
    end.

  (* get: try: return self[key] / except KeyError: return default *)
  Definition dm_getd (s : S) (k : key) (d : V) : result V :=
    match d_get D s k with
    | Ok x => Ok x
    | Raise EKey => Ok d
    | Raise e => Raise e
    end.

  Definition dm_len (s : S) : Z := zlen (d_keys D s).

  Definition lift_unit (r : result unit * S) : result (dout V) * S :=
    (rmap (fun _ => ONone) (fst r), snd r).
  Definition lift_val (r : result V * S) : result (dout V) * S :=
    (rmap OVal (fst r), snd r).

  Definition dm_step (s : S) (o : dop V) : result (dout V) * S :=
    match o with
    | OpGet k => (rmap OVal (d_get D s k), s)
    | OpSet k v => lift_unit (d_set D s k v)
    | OpDel k => lift_unit (d_del D s k)
    | OpContains k => (rmap OBool (dm_contains s k), s)
    | OpKeys => (Ok (OKeys (d_keys D s)), s)
    | OpValues => (rmap OVals (dm_values s), s)
    | OpItems => (rmap OItems (dm_items s), s)
    | OpLen => (Ok (OLen (dm_len s)), s)
    | OpClear => lift_unit (dm_clear s)
    | OpGetD k d => (rmap OVal (dm_getd s k d), s)
    | OpSetDefault k v => lift_val (dm_setdefault s k v)
    | OpPop k => lift_val (dm_pop s k None)
    | OpPopD k d => lift_val (dm_pop s k (Some d))
    | OpPopItem => let r := dm_popitem s in (rmap (fun p => OPair (fst p) (snd p)) (fst r), snd r)
    | OpUpdate l => lift_unit (dm_update s l)
    end.
End DictMixin.

(* running an operation sequence: the outputs of every step and the final state *)
Section Run.
  Context {S O P : Type} (step : S -> P -> result O * S).
  Fixpoint run (s : S) (ops : list P) : list (result O) * S :=
    match ops with
    | [] => ([], s)
    | o :: ops' =>
      let r := step s o in
      let rest := run (snd r) ops' in
      (fst r :: fst rest, snd rest)
    end.
  Definition outputs (s : S) (ops : list P) : list (result O) := fst (run s ops).
  Definition final (s : S) (ops : list P) : S := fold_left (fun st o => snd (step st o)) ops s.
End Run.

(* ------------------------------------------------------------------------------------------ *)
(* The reference: a plain finite map  normalised key -> (display key, stored value).          *)
Record RefSpec (V W : Type) := mkSpec {
  r_key : key -> result key;          (* validate and normalise a key (documented error class) *)
  r_disp : key -> key;                (* the key as keys() shows it *)
  r_val : V -> result (option W);     (* validate/convert a value; None: "no values" = remove the key *)
  r_out : W -> V;                     (* how a stored value reads back *)
  r_append : bool                     (* true: a set key moves to the end; false: Python dict order *)
}.
Arguments mkSpec {V W}. Arguments r_key {V W}. Arguments r_disp {V W}. Arguments r_val {V W}.
Arguments r_out {V W}. Arguments r_append {V W}.

Definition refmap (W : Type) := list (key * (key * W)).

Section Ref.
  Context {V W : Type} (sp : RefSpec V W).

  Definition ref_get (r : refmap W) (k : key) : result V :=
    match r_key sp k with
    | Raise e => Raise e
    | Ok nk => match pd_find nk r with None => Raise EKey | Some e => Ok (r_out sp (snd e)) end
    end.
  Definition ref_put (r : refmap W) (nk dk : key) (w : W) : refmap W :=
    if r_append sp then pd_remove nk r ++ [(nk, (dk, w))] else pd_set nk (dk, w) r.
  Definition ref_set (r : refmap W) (k : key) (v : V) : result unit * refmap W :=
    match r_key sp k with
    | Raise e => (Raise e, r)
    | Ok nk =>
      match r_val sp v with
      | Raise e => (Raise e, r)
      | Ok None => (Ok tt, pd_remove nk r)
      | Ok (Some w) => (Ok tt, ref_put r nk (r_disp sp k) w)
      end
    end.
  Definition ref_del (r : refmap W) (k : key) : result unit * refmap W :=
    match r_key sp k with
    | Raise e => (Raise e, r)
    | Ok nk => if pd_mem nk r then (Ok tt, pd_remove nk r) else (Raise EKey, r)
    end.
  Definition ref_keys (r : refmap W) : list key := map (fun e => fst (snd e)) r.
  Definition ref_values (r : refmap W) : list V := map (fun e => r_out sp (snd (snd e))) r.
  Definition ref_items (r : refmap W) : list (key * V) :=
    map (fun e => (fst (snd e), r_out sp (snd (snd e)))) r.

  (* the reference seen through the primitive interface *)
  Definition RefD : DictBase (refmap W) V := mkDict ref_keys ref_get ref_set ref_del.

  Fixpoint ref_update (r : refmap W) (l : list (key * V)) : result unit * refmap W :=
    match l with
    | [] => (Ok tt, r)
    | (k, v) :: l' =>
      match ref_set r k v with
      | (Ok _, r') => ref_update r' l'
      | (Raise e, r') => (Raise e, r')
      end
    end.

  (* every mapping operation, stated directly on the map *)
  Definition ref_step (r : refmap W) (o : dop V) : result (dout V) * refmap W :=
    match o with
    | OpGet k => (rmap OVal (ref_get r k), r)
    | OpSet k v => let x := ref_set r k v in (rmap (fun _ => ONone) (fst x), snd x)
    | OpDel k => let x := ref_del r k in (rmap (fun _ => ONone) (fst x), snd x)
    | OpContains k =>
      match r_key sp k with
      | Raise EKey => (Ok (OBool false), r)
      | Raise e => (Raise e, r)
      | Ok nk => (Ok (OBool (pd_mem nk r)), r)
      end
    | OpKeys => (Ok (OKeys (ref_keys r)), r)
    | OpValues => (Ok (OVals (ref_values r)), r)
    | OpItems => (Ok (OItems (ref_items r)), r)
    | OpLen => (Ok (OLen (zlen r)), r)
    | OpClear => (Ok ONone, [])
    | OpGetD k d =>
      match r_key sp k with
      | Raise EKey => (Ok (OVal d), r)
      | Raise e => (Raise e, r)
      | Ok nk => match pd_find nk r with
                 | Some e => (Ok (OVal (r_out sp (snd e))), r)
                 | None => (Ok (OVal d), r)
                 end
      end
    | OpSetDefault k v =>
      match r_key sp k with
      | Raise e => (Raise e, r)
      | Ok nk => match pd_find nk r with
                 | Some e => (Ok (OVal (r_out sp (snd e))), r)
                 | None => let x := ref_set r k v in (rmap (fun _ => OVal v) (fst x), snd x)
                 end
      end
    | OpPop k =>
      match r_key sp k with
      | Raise e => (Raise e, r)
      | Ok nk => match pd_find nk r with
                 | Some e => (Ok (OVal (r_out sp (snd e))), pd_remove nk r)
                 | None => (Raise EKey, r)
                 end
      end
    | OpPopD k d =>
      match r_key sp k with
      | Raise EKey => (Ok (OVal d), r)
      | Raise e => (Raise e, r)
      | Ok nk => match pd_find nk r with
                 | Some e => (Ok (OVal (r_out sp (snd e))), pd_remove nk r)
                 | None => (Ok (OVal d), r)
                 end
      end
    | OpPopItem =>
      match r with
      | [] => (Raise EKey, r)
      | e :: r' => (Ok (OPair (fst (snd e)) (r_out sp (snd (snd e)))), r')
      end
    | OpUpdate l => let x := ref_update r l in (rmap (fun _ => ONone) (fst x), snd x)
    end.

  (* well-formed reference state: unique normalised keys; every display key is a valid key
     normalising to its own entry *)
  Definition ref_wf (r : refmap W) : Prop :=
    NoDup (map fst r) /\ forall e, In e r -> r_key sp (fst (snd e)) = Ok (fst e).
  (* the law a key normalisation has to satisfy *)
  Definition spec_ok : Prop :=
    forall k nk, r_key sp k = Ok nk -> r_key sp (r_disp sp k) = Ok nk.
End Ref.

(* ------------------------------------------------------------------------------------------ *)
(* FileType.__getitem__/__setitem__/__delitem__/keys: proxy to self.tags, which may be None.  *)
Section FileProxy.
  Context {S V : Type} (D : DictBase S V) (fresh : S).   (* fresh = what add_tags() creates *)
  Definition fp_get (f : option S) (k : key) : result V :=
    match f with None => Raise EKey | Some s => d_get D s k end.
  Definition fp_set (f : option S) (k : key) (v : V) : result unit * option S :=
    let s := match f with None => fresh | Some s => s end in
    let r := d_set D s k v in (fst r, Some (snd r)).
  Definition fp_del (f : option S) (k : key) : result unit * option S :=
    match f with
    | None => (Raise EKey, None)
    | Some s => let r := d_del D s k in (fst r, Some (snd r))
    end.
  Definition fp_keys (f : option S) : list key :=
    match f with None => [] | Some s => d_keys D s end.
  Definition FileProxy : DictBase (option S) V := mkDict fp_keys fp_get fp_set fp_del.
End FileProxy.

(* the file-object reference: "no tags yet" in front of the plain map *)
Section FileRef.
  Context {V W : Type} (sp : RefSpec V W).
  Definition fref_none_step (o : dop V) : result (dout V) * option (refmap W) :=
    match o with
    | OpGet _ | OpDel _ | OpPop _ | OpPopItem => (Raise EKey, None)
    | OpContains _ => (Ok (OBool false), None)
    | OpKeys => (Ok (OKeys []), None)
    | OpValues => (Ok (OVals []), None)
    | OpItems => (Ok (OItems []), None)
    | OpLen => (Ok (OLen 0), None)
    | OpClear => (Ok ONone, None)
    | OpGetD _ d | OpPopD _ d => (Ok (OVal d), None)
    | OpSet k v => let x := ref_set sp [] k v in (rmap (fun _ => ONone) (fst x), Some (snd x))
    | OpSetDefault k v => let x := ref_set sp [] k v in (rmap (fun _ => OVal v) (fst x), Some (snd x))
    | OpUpdate [] => (Ok ONone, None)
    | OpUpdate l => let x := ref_update sp [] l in (rmap (fun _ => ONone) (fst x), Some (snd x))
    end.
  Definition fref_step (f : option (refmap W)) (o : dop V) : result (dout V) * option (refmap W) :=
    match f with
    | None => fref_none_step o
    | Some r => let x := ref_step sp r o in (fst x, Some (snd x))
    end.
End FileRef.

(* ------------------------------------------------------------------------------------------ *)
(* VCommentDict (_vorbis.py): a list of (key, value) pairs in order                            *)
Definition lower_c (c : Z) : Z := if (65 <=? c) && (c <=? 90) then c + 32 else c.
Definition lower (k : key) : key := map lower_c k.

(* is_valid_key: for c in key: if c < " " or c > "}" or c == "=": return False; else bool(key) *)
Definition vc_char_bad (c : Z) : bool := (c <? 32) || (125 <? c) || (c =? 61).
Definition vc_valid (k : key) : bool :=
  if existsb vc_char_bad k then false else match k with [] => false | _ => true end.

Inductive vval := VOne (s : str) | VMany (l : list str).   (* a single value or a list *)
Definition vc_state := list (key * str).

Definition pair_eqb (a b : key * str) : bool := list_eqb (fst a) (fst b) && list_eqb (snd a) (snd b).
(* list.remove(x): drops the first element equal to x (ValueError if absent: not reachable here) *)
Fixpoint remove_first (x : key * str) (l : vc_state) : vc_state :=
  match l with
  | [] => []
  | y :: l' => if pair_eqb y x then l' else y :: remove_first x l'
  end.
Definition vc_match (lk : key) (p : key * str) : bool := list_eqb (lower (fst p)) lk.

Definition vc_get (s : vc_state) (k : key) : result vval :=
  if negb (vc_valid k) then Raise EValue else
  let lk := lower k in
  match map snd (filter (vc_match lk) s) with
  | [] => Raise EKey
  | values => Ok (VMany values)
  end.
Definition vc_del (s : vc_state) (k : key) : result unit * vc_state :=
  if negb (vc_valid k) then (Raise EValue, s) else
  let lk := lower k in
  match filter (vc_match lk) s with
  | [] => (Raise EKey, s)
  | to_delete => (Ok tt, fold_left (fun acc item => remove_first item acc) to_delete s)
  end.
Definition vc_set (s : vc_state) (k : key) (v : vval) : result unit * vc_state :=
  if negb (vc_valid k) then (Raise EValue, s) else
  let values := match v with VMany l => l | VOne x => [x] end in
  match vc_del s k with                           (* try: del self[key] / except KeyError: pass *)
  | (Ok _, s') | (Raise EKey, s') => (Ok tt, s' ++ map (fun x => (k, x)) values)
  | (Raise e, s') => (Raise e, s')
  end.
(* keys(): list(set([k.lower() for k, v in self])) -- set order is modelled as first occurrence *)
Fixpoint dedup (l : list key) : list key :=
  match l with
  | [] => []
  | x :: l' => x :: filter (fun y => negb (list_eqb x y)) (dedup l')
  end.
Definition vc_keys (s : vc_state) : list key := dedup (map (fun p => lower (fst p)) s).
Definition VC : DictBase vc_state vval := mkDict vc_keys vc_get vc_set vc_del.

(* VCommentDict.__contains__ (its own), list.clear, list.__len__ *)
Definition vc_contains (s : vc_state) (k : key) : result bool :=
  if negb (vc_valid k) then Raise EValue else Ok (existsb (vc_match (lower k)) s).
(* pop/popitem are list's for this class (not mapping operations): not offered *)
Definition vc_offers (o : dop vval) : bool :=
  match o with OpPop _ | OpPopD _ _ | OpPopItem => false | _ => true end.
Definition vc_step (s : vc_state) (o : dop vval) : result (dout vval) * vc_state :=
  match o with
  | OpContains k => (rmap OBool (vc_contains s k), s)
  | OpClear => (Ok ONone, [])
  | OpLen => (Ok (OLen (zlen s)), s)
  | _ => dm_step VC s o
  end.

Definition vc_val (v : vval) : result (option (list str)) :=
  match v with
  | VOne x => Ok (Some [x])
  | VMany [] => Ok None
  | VMany l => Ok (Some l)
  end.
Definition vc_spec : RefSpec vval (list str) :=
  mkSpec (fun k => if vc_valid k then Ok (lower k) else Raise EValue) lower vc_val VMany true.
(* the documented difference: len() is the number of values *)
Definition vc_ref_step (r : refmap (list str)) (o : dop vval) : result (dout vval) * refmap (list str) :=
  match o with
  | OpLen => (Ok (OLen (fold_right (fun e n => zlen (snd (snd e)) + n) 0 r)), r)
  | _ => ref_step vc_spec r o
  end.

(* abstraction: group the pairs by lower-cased key, first occurrence first *)
Definition vc_add_front (lk : key) (v : str) (r : refmap (list str)) : refmap (list str) :=
  (lk, (lk, v :: match pd_find lk r with Some e => snd e | None => [] end)) :: pd_remove lk r.
Fixpoint vc_abs (s : vc_state) : refmap (list str) :=
  match s with
  | [] => []
  | (k, v) :: s' => vc_add_front (lower k) v (vc_abs s')
  end.

(* ------------------------------------------------------------------------------------------ *)
(* _CIDictProxy + APEv2 (apev2.py)                                                             *)
Record ci_state (A : Type) := mkCI { ci_casemap : list (key * key); ci_dict : list (key * A) }.
Arguments mkCI {A}. Arguments ci_casemap {A}. Arguments ci_dict {A}.

Section CIDictProxy.
  Context {A : Type}.
  Definition ci_get (s : ci_state A) (k : key) : result A :=
    match pd_find (lower k) (ci_dict s) with Some a => Ok a | None => Raise EKey end.
  Definition ci_set (s : ci_state A) (k : key) (a : A) : result unit * ci_state A :=
    let lk := lower k in
    (Ok tt, mkCI (pd_set lk k (ci_casemap s)) (pd_set lk a (ci_dict s))).
  Definition ci_del (s : ci_state A) (k : key) : result unit * ci_state A :=
    let lk := lower k in
    if pd_mem lk (ci_casemap s) then                      (* del self.__casemap[lower] *)
      let cm := pd_remove lk (ci_casemap s) in
      if pd_mem lk (ci_dict s) then                       (* del self.__dict[lower] *)
        (Ok tt, mkCI cm (pd_remove lk (ci_dict s)))
      else (Raise EKey, mkCI cm (ci_dict s))
    else (Raise EKey, s).
  (* [self.__casemap.get(key, key) for key in self.__dict.keys()] *)
  Definition ci_keys (s : ci_state A) : list key :=
    map (fun lk => match pd_find lk (ci_casemap s) with Some k => k | None => lk end)
        (pd_keys (ci_dict s)).
End CIDictProxy.

(* is_valid_apev2_key *)
Definition ape_reserved : list key := [[79;103;103;83]; [84;65;71]; [73;68;51]; [77;80;43]].
Definition ape_valid (k : key) : bool :=
  (2 <=? zlen k) && (zlen k <=? 255) && forallb (fun c => 32 <=? c) k && forallb (fun c => c <=? 126) k
  && negb (existsb (list_eqb k) ape_reserved).

(* values offered to APEv2.__setitem__ and stored APEValue objects (kind, payload) *)
Inductive aval :=
| AStr (s : str)                         (* str -> TEXT *)
| AList (items : list (option str))      (* list; None stands for a non-str item -> TypeError *)
| ABytes (b : list Z)                    (* bytes -> BINARY *)
| AOther                                 (* any other object (int, None, ...) -> TypeError *)
| AValue (kind : Z) (payload : list Z).  (* an _APEValue instance: stored as is *)
Fixpoint ape_join (items : list (option str)) : result str :=
  match items with
  | [] => Ok []
  | None :: _ => Raise EType
  | Some x :: rest =>
    match ape_join rest with
    | Raise e => Raise e
    | Ok j => Ok (match rest with [] => x | _ => x ++ 0 :: j end)
    end
  end.
Definition ape_conv (v : aval) : result (Z * list Z) :=
  match v with
  | AValue kd p => Ok (kd, p)
  | AStr s => Ok (0, s)
  | AList items => rmap (fun j => (0, j)) (ape_join items)
  | ABytes b => Ok (1, b)
  | AOther => Raise EType
  end.
Definition ape_state := ci_state (Z * list Z).
Definition ape_out (w : Z * list Z) : aval := AValue (fst w) (snd w).
Definition ape_get (s : ape_state) (k : key) : result aval :=
  if negb (ape_valid k) then Raise EKey else rmap ape_out (ci_get s k).
Definition ape_del (s : ape_state) (k : key) : result unit * ape_state :=
  if negb (ape_valid k) then (Raise EKey, s) else ci_del s k.
Definition ape_set (s : ape_state) (k : key) (v : aval) : result unit * ape_state :=
  if negb (ape_valid k) then (Raise EKey, s) else
  match ape_conv v with
  | Raise e => (Raise e, s)
  | Ok w => ci_set s k w
  end.
Definition APE : DictBase ape_state aval := mkDict ci_keys ape_get ape_set ape_del.
Definition ape_empty : ape_state := mkCI [] [].
Definition ape_spec : RefSpec aval (Z * list Z) :=
  mkSpec (fun k => if ape_valid k then Ok (lower k) else Raise EKey) (fun k => k)
         (fun v => rmap Some (ape_conv v)) ape_out false.
Definition ape_abs (s : ape_state) : refmap (Z * list Z) :=
  map (fun p => (fst p, (match pd_find (fst p) (ci_casemap s) with Some k => k | None => fst p end, snd p)))
      (ci_dict s).
Definition ape_inv (s : ape_state) : Prop :=
  NoDup (map fst (ci_dict s)) /\ NoDup (map fst (ci_casemap s)) /\
  (forall lk, pd_mem lk (ci_casemap s) = pd_mem lk (ci_dict s)) /\
  (forall lk k, pd_find lk (ci_casemap s) = Some k -> ape_valid k = true /\ lower k = lk).

(* ------------------------------------------------------------------------------------------ *)
(* DictProxy (_util.py) and ID3Tags (id3/_tags.py): exact keys                                 *)
Section DictProxy.
  Context {A : Type}.
  Definition dp_get (s : list (key * A)) (k : key) : result A :=
    match pd_find k s with Some a => Ok a | None => Raise EKey end.
  Definition dp_set (s : list (key * A)) (k : key) (a : A) : result unit * list (key * A) :=
    (Ok tt, pd_set k a s).
  Definition dp_del (s : list (key * A)) (k : key) : result unit * list (key * A) :=
    if pd_mem k s then (Ok tt, pd_remove k s) else (Raise EKey, s).
  Definition DP : DictBase (list (key * A)) A := mkDict pd_keys dp_get dp_set dp_del.
End DictProxy.

(* a value offered to ID3Tags.__setitem__: a Frame (its HashKey and an opaque payload) or not *)
Inductive ival := IFrame (hashkey : key) (payload : Z) | INotFrame (x : Z).
Definition id3_state := list (key * ival).
Definition id3_set (s : id3_state) (k : key) (v : ival) : result unit * id3_state :=
  match v with
  | INotFrame _ => (Raise EType, s)       (* if not isinstance(tag, Frame): raise TypeError *)
  | IFrame _ _ => dp_set s k v
  end.
Definition ID3D : DictBase id3_state ival := mkDict pd_keys dp_get id3_set dp_del.
Definition id3_spec : RefSpec ival ival :=
  mkSpec (fun k => Ok k) (fun k => k)
         (fun v => match v with IFrame _ _ => Ok (Some v) | INotFrame _ => Raise EType end)
         (fun v => v) false.
Definition id3_abs (s : id3_state) : refmap ival := map (fun p => (fst p, (fst p, snd p))) s.

(* add (strict: loaded_frame -> _add(frame, True)): self[frame.HashKey] = frame *)
Definition id3_add (s : id3_state) (v : ival) : result unit * id3_state :=
  match v with
  | INotFrame _ => (Raise EType, s)
  | IFrame hk _ => id3_set s hk v
  end.
(* getall / delall / setall: exact key, else every key starting with key + ":" *)
Definition id3_prefix (k : key) : key := k ++ [58].
Definition id3_getall (s : id3_state) (k : key) : list ival :=
  match dm_contains ID3D s k with
  | Ok true => match dp_get s k with Ok v => [v] | Raise _ => [] end
  | _ => map snd (filter (fun p => starts_with (id3_prefix k) (fst p)) s)
  end.
Definition id3_delall (s : id3_state) (k : key) : id3_state :=
  match dm_contains ID3D s k with
  | Ok true => snd (dp_del s k)
  | _ => fold_left (fun acc k' => if starts_with (id3_prefix k) k' then snd (dp_del acc k') else acc)
                   (pd_keys s) s
  end.
Fixpoint id3_add_all (s : id3_state) (vs : list ival) : result unit * id3_state :=
  match vs with
  | [] => (Ok tt, s)
  | v :: vs' =>
    match v with
    | IFrame hk _ => match id3_set s hk v with
                     | (Ok _, s') => id3_add_all s' vs'
                     | (Raise e, s') => (Raise e, s')
                     end
    | INotFrame _ => (Raise EAttr, s)     (* tag.HashKey on a non-frame *)
    end
  end.
Definition id3_setall (s : id3_state) (k : key) (vs : list ival) : result unit * id3_state :=
  id3_add_all (id3_delall s k) vs.

(* ------------------------------------------------------------------------------------------ *)
(* entry points for the extracted model                                                        *)
Definition vc_run (s : vc_state) (ops : list (dop vval)) := run vc_step s ops.
Definition fvc_run (f : option vc_state) (ops : list (dop vval)) := run (dm_step (FileProxy VC [])) f ops.
Definition ape_run (s : ape_state) (ops : list (dop aval)) := run (dm_step APE) s ops.
Definition fape_run (f : option ape_state) (ops : list (dop aval)) := run (dm_step (FileProxy APE ape_empty)) f ops.
Definition id3_run (s : id3_state) (ops : list (dop ival)) := run (dm_step ID3D) s ops.
Definition fid3_run (f : option id3_state) (ops : list (dop ival)) := run (dm_step (FileProxy ID3D [])) f ops.
(* the reference on the same inputs (used by the vm_compute cross-check and the Examples) *)
Definition vc_ref_run (r : refmap (list str)) (ops : list (dop vval)) := run vc_ref_step r ops.
Definition ape_ref_run (r : refmap (Z * list Z)) (ops : list (dop aval)) := run (ref_step ape_spec) r ops.
Definition id3_ref_run (r : refmap ival) (ops : list (dop ival)) := run (ref_step id3_spec) r ops.

(* EXTRACT: vc_run fvc_run ape_run fape_run id3_run fid3_run ape_empty ape_set pd_set *)
