(* Model.InfoSimple -- fixed-layout little-endian headers (C05): DSF, TrueAudio, WavPack, Monkey's Audio,
   OptimFROG, Musepack SV7 (and SV4-6 on the code side).
   SPEC side from the format specifications; CODE side mirrors mutagen/{dsf,trueaudio,wavpack,monkeysaudio,
   optimfrog,musepack}.py with the tables regenerated from the live modules (Gen.Gen_tables). *)
From Coq Require Import ZArith List Bool.
Import ListNotations.
Require Import Base.Py Model.InfoBase Gen.Gen_tables.
Open Scope Z_scope.

Definition ascii_DSD_ := [68;83;68;32].
Definition ascii_TTA := [84;84;65].
Definition ascii_wvpk := [119;118;112;107].
Definition ascii_MAC_ := [77;65;67;32].
Definition ascii_OFR_ := [79;70;82;32].
Definition ascii_MPplus := [77;80;43].
Definition ascii_WAVEfmt := [87;65;86;69;102;109;116].

(* ================================================================== DSF *)
(* SPEC (DSF file format specification 1.01): DSD chunk 28 bytes, fmt chunk 52 bytes, data chunk header *)
Definition build_dsf (total_size meta_ptr channel_type channels rate bits samples block_size data_size : Z) : list Z :=
  ascii_DSD_ ++ le_encode 8 28 ++ le_encode 8 total_size ++ le_encode 8 meta_ptr ++
  ascii_fmt_ ++ le_encode 8 52 ++ le_encode 4 1 ++ le_encode 4 0 ++ le_encode 4 channel_type ++
  le_encode 4 channels ++ le_encode 4 rate ++ le_encode 4 bits ++ le_encode 8 samples ++
  le_encode 4 block_size ++ le_encode 4 0 ++
  ascii_data ++ le_encode 8 data_size.

(* CODE: DSFFile.__init__ (DSDChunk.load, FormatChunk.load, DataChunk.load) + DSFInfo properties.
   result: [channels; sample_rate; bits_per_sample; bitrate; length numerator; length denominator] *)
Definition decode_dsf (f : list Z) : result (list Z) :=
  let d := sub_at 0 28 f in
  if negb (zlen d =? 28) then Raise EMutagen
  else if negb (list_eqb (sub_at 0 4 d) ascii_DSD_) then Raise EMutagen
  else if negb (le_at 4 8 d =? 28) then Raise EMutagen
  else
    let m := sub_at 28 52 f in
    if negb (zlen m =? 52) then Raise EMutagen
    else if negb (list_eqb (sub_at 0 4 m) ascii_fmt_) then Raise EMutagen
    else if negb (le_at 4 8 m =? 52) then Raise EMutagen
    else if negb (le_at 12 4 m =? 1) then Raise EMutagen
    else if negb (le_at 16 4 m =? 0) then Raise EMutagen
    else
      let channel_num := le_at 24 4 m in
      let sampling_frequency := le_at 28 4 m in
      let bits_per_sample := le_at 32 4 m in
      let sample_count := le_at 36 8 m in
      let c := sub_at 80 12 f in
      if negb (zlen c =? 12) then Raise EMutagen
      else if negb (list_eqb (sub_at 0 4 c) ascii_data) then Raise EMutagen
      else if le_at 4 8 c <? 12 then Raise EMutagen
      else if sampling_frequency =? 0 then Raise EZeroDiv        (* info.length *)
      else Ok [channel_num; sampling_frequency; bits_per_sample;
               sampling_frequency * bits_per_sample * channel_num; sample_count; sampling_frequency].

(* ================================================================== TrueAudio *)
(* SPEC (TTA1 header): "TTA1", u16 format, u16 channels, u16 bits, u32 rate, u32 samples, u32 crc *)
Definition build_tta (format channels bits rate samples crc : Z) : list Z :=
  ascii_TTA ++ [49] ++ le_encode 2 format ++ le_encode 2 channels ++ le_encode 2 bits ++
  le_encode 4 rate ++ le_encode 4 samples ++ le_encode 4 crc.

(* CODE: TrueAudioInfo.__init__ on the file content from `offset` on.
   result: [sample_rate; length numerator; length denominator] *)
Definition decode_tta (f : list Z) : result (list Z) :=
  let header := sub_at 0 18 f in
  if negb (zlen header =? 18) || negb (starts_with ascii_TTA header) then Raise EMutagen
  else
    let sample_rate := le_at 10 4 header in
    let samples := le_at 14 4 header in
    if negb (sample_rate =? 0) then Ok [sample_rate; samples; sample_rate] else Ok [sample_rate; 0; 1].

(* ================================================================== WavPack *)
Definition spec_wavpack_rates : list Z :=
  [6000; 8000; 9600; 11025; 12000; 16000; 22050; 24000; 32000; 44100; 48000; 64000; 88200; 96000; 192000].

(* SPEC (WavPack 4 block header): "wvpk", ckSize, version, block_index_u8, total_samples_u8, total_samples,
   block_index, block_samples, flags, crc.  flags: bits 0-1 bytes/sample - 1, bit 2 mono, bits 3-22 misc,
   bits 23-26 sampling rate index (15 = non-standard), bits 27-30 misc, bit 31 DSD audio *)
Definition wavpack_flags (bytes_code mono misc_lo rate_idx misc_hi dsd : Z) : Z :=
  bytes_code + 4 * mono + 8 * misc_lo + 8388608 * rate_idx + 134217728 * misc_hi + 2147483648 * dsd.
Definition build_wavpack_block (ck_size version total block_index block_samples flags crc : Z) : list Z :=
  ascii_wvpk ++ le_encode 4 ck_size ++ le_encode 2 version ++ [0; 0] ++ le_encode 4 total ++
  le_encode 4 block_index ++ le_encode 4 block_samples ++ le_encode 4 flags ++ le_encode 4 crc.

(* the block walk of WavPackInfo.__init__ when the total is unknown or the first block index is not 0:
   pos = file position after the last header read *)
Fixpoint wavpack_walk (fuel : nat) (f : list Z) (pos block_size samples : Z) : Z :=
  match fuel with
  | O => samples
  | S fuel' =>
    let pos' := pos + (block_size - 32 + 8) in
    let header := zslice_c pos' (pos' + 32) f in
    if negb (zlen header =? 32) || negb (starts_with ascii_wvpk header) then samples
    else wavpack_walk fuel' f (pos' + 32) (le_at 4 4 header) (samples + le_at 20 4 header)
  end.

(* CODE: WavPackInfo.__init__; result: [version; channels; sample_rate; bits_per_sample; samples; sample_rate]
   (length = samples / sample_rate) *)
Definition decode_wavpack (f : list Z) : result (list Z) :=
  let header := sub_at 0 32 f in
  if negb (zlen header =? 32) || negb (starts_with ascii_wvpk header) then Raise EMutagen
  else
    let block_size := le_at 4 4 header in
    let version := le_at 8 2 header in
    let samples0 := le_at 12 4 header in
    let total_samples := if samples0 =? 4294967295 then -1 else samples0 in
    let block_index := le_at 16 4 header in
    let block_samples := le_at 20 4 header in
    let flags := le_at 24 4 header in
    let channels := if negb ((flags / 4) mod 2 =? 0) then 1 else 2 in           (* bool(flags & 4) or 2 *)
    match idx ((flags / 8388608) mod 16) gen_wavpack_rates with                 (* RATES[(flags >> 23) & 0xF] *)
    | None => Raise EMutagen                            (* IndexError -> WavPackHeaderError("unsupported sample rate") *)
    | Some rate0 =>
      let bits0 := ((flags mod 4) + 1) * 8 in
      let dsd := negb ((flags / 2147483648) mod 2 =? 0) in
      let sample_rate := if dsd then rate0 * 4 else rate0 in
      let bits := if dsd then 1 else bits0 in
      let samples :=
        if (total_samples =? -1) || negb (block_index =? 0)
        then wavpack_walk (length f) f 32 block_size block_samples
        else total_samples in
      if sample_rate =? 0 then Raise EZeroDiv
      else Ok [version; channels; sample_rate; bits; samples; sample_rate]
    end.

(* ================================================================== Monkey's Audio *)
(* SPEC (APE file format, version >= 3.98): APE_DESCRIPTOR 52 bytes + APE_HEADER 24 bytes *)
Definition build_ape (version seek_bytes wav_bytes audio_bytes compression format_flags
                      blocks_per_frame final_frame_blocks total_frames bits channels rate : Z) : list Z :=
  ascii_MAC_ ++ le_encode 2 version ++ le_encode 2 0 ++ le_encode 4 52 ++ le_encode 4 24 ++
  le_encode 4 seek_bytes ++ le_encode 4 wav_bytes ++ le_encode 4 audio_bytes ++ le_encode 4 0 ++ le_encode 4 0 ++
  repeat 0 16%nat ++
  le_encode 2 compression ++ le_encode 2 format_flags ++ le_encode 4 blocks_per_frame ++
  le_encode 4 final_frame_blocks ++ le_encode 4 total_frames ++ le_encode 2 bits ++ le_encode 2 channels ++
  le_encode 4 rate.

(* SPEC (APE_HEADER_OLD, version < 3.98, MAC SDK APEHeader.cpp AnalyzeOld): 'MAC ', u16 version, u16 compression level,
   u16 format flags, u16 channels, u32 sample rate, u32 header bytes, u32 terminating bytes, u32 total frames,
   u32 final frame blocks; no stored WAVE header here (zero filled to 76 bytes).  Blocks per frame: 73728 * 4 from 3.95 on,
   73728 from 3.90 on and for 3.80-3.89 at COMPRESSION_LEVEL_EXTRA_HIGH (4000), otherwise 9216 *)
Definition build_ape_old (version compression format_flags channels rate header_bytes terminating_bytes
                          total_frames final_frame_blocks : Z) : list Z :=
  ascii_MAC_ ++ le_encode 2 version ++ le_encode 2 compression ++ le_encode 2 format_flags ++ le_encode 2 channels ++
  le_encode 4 rate ++ le_encode 4 header_bytes ++ le_encode 4 terminating_bytes ++ le_encode 4 total_frames ++
  le_encode 4 final_frame_blocks ++ repeat 0 44%nat.
Definition spec_ape_old_blocks_per_frame (version compression : Z) : Z :=
  if version >=? 3950 then 294912
  else if (version >=? 3900) || ((version >=? 3800) && (compression =? 4000)) then 73728
  else 9216.

(* CODE: MonkeysAudioInfo.__init__; result: [version (x1000); channels; sample_rate; bits_per_sample;
   length numerator; length denominator] *)
Definition decode_ape (f : list Z) : result (list Z) :=
  let header := sub_at 0 76 f in
  if negb (zlen header =? 76) || negb (starts_with ascii_MAC_ header) then Raise EMutagen
  else
    let version := le_at 4 2 header in
    let '(blocks_per_frame, final_frame_blocks, total_frames, bits, channels, sample_rate) :=
      if version >=? 3980 then
        (le_at 56 4 header, le_at 60 4 header, le_at 64 4 header, le_at 68 2 header, le_at 70 2 header,
         le_at 72 4 header)
      else
        let compression_level := le_at 6 2 header in
        let bpf := if version >=? 3950 then 73728 * 4
                   else if (version >=? 3900) || ((version >=? 3800) && (compression_level =? 4000)) then 73728
                   else 9216 in
        let bits := if starts_with ascii_WAVEfmt (skipn 48 header) then le_at 74 2 header else 0 in
        (bpf, le_at 28 4 header, le_at 24 4 header, bits, le_at 10 2 header, le_at 12 4 header) in
    if negb (sample_rate =? 0) && (total_frames >? 0)
    then Ok [version; channels; sample_rate; bits; (total_frames - 1) * blocks_per_frame + final_frame_blocks; sample_rate]
    else Ok [version; channels; sample_rate; bits; 0; 1].

(* ================================================================== OptimFROG *)
Definition spec_optimfrog_bits : list (Z * Z) :=
  [(0, 8); (1, 8); (2, 16); (3, 16); (4, 24); (5, 24); (6, 32); (7, 32)].

(* SPEC (OptimFROG main header): "OFR ", u32 header size (12 or 15..), u48 sample count (all channels),
   u8 sample type, u8 channels - 1, u32 rate, [u16 encoder id, u8 compression]; zero filled to 76 bytes *)
Definition build_ofr (data_size total sample_type channels rate encoder_id : Z) : list Z :=
  ascii_OFR_ ++ le_encode 4 data_size ++ le_encode 6 total ++ [sample_type] ++ [channels - 1] ++
  le_encode 4 rate ++ le_encode 2 encoder_id ++ repeat 0 54%nat.

(* CODE: OptimFROGInfo.__init__; result: [channels; sample_rate; bits_per_sample or -1 (None);
   length numerator; length denominator; encoder number (encoder_id >> 4) + 4500 or -1 (empty string)] *)
Definition decode_ofr (f : list Z) : result (list Z) :=
  let header := sub_at 0 76 f in
  if negb (zlen header =? 76) || negb (starts_with ascii_OFR_ header) then Raise EMutagen
  else
    let data_size := le_at 4 4 header in
    if negb (data_size =? 12) && (data_size <? 15) then Raise EMutagen
    else
      let total_samples := le_at 8 4 header + le_at 12 2 header * 4294967296 in
      let sample_type := byte_at 14 header in
      let channels := byte_at 15 header + 1 in
      let sample_rate := le_at 16 4 header in
      let bits := match assoc_z sample_type gen_optimfrog_bits with Some b => b | None => -1 end in
      let '(ln, ld) := if negb (sample_rate =? 0) then (total_samples, channels * sample_rate) else (0, 1) in
      let enc := if data_size >=? 15 then le_at 20 2 header / 16 + 4500 else -1 in
      Ok [channels; sample_rate; bits; ln; ld; enc].

(* ================================================================== Musepack SV7 (SV4-6 code side only) *)
Definition spec_musepack_rates : list Z := [44100; 48000; 37800; 32000].

(* SPEC (Musepack SV7 header): "MP+", version (low nibble 7), u32 frame count, u32: max level 16 | sample freq 2 |
   link 2 | profile 4 | max band 6 | mid/side 1 | intensity 1, u16 title peak, s16 title gain, u16 album peak,
   s16 album gain, then 12 more bytes (gapless, encoder version) *)
Definition mpc7_flags (max_level rate_idx link profile max_band ms is_ : Z) : Z :=
  max_level + 65536 * rate_idx + 262144 * link + 1048576 * profile + 16777216 * max_band +
  1073741824 * ms + 2147483648 * is_.
Definition build_mpc7 (minor frames flags title_peak title_gain album_peak album_gain : Z) (tail : list Z) : list Z :=
  ascii_MPplus ++ [7 + 16 * minor] ++ le_encode 4 frames ++ le_encode 4 flags ++
  le_encode 2 title_peak ++ le_encode 2 (of_signed 65536 title_gain) ++
  le_encode 2 album_peak ++ le_encode 2 (of_signed 65536 album_gain) ++ tail.

(* CODE: MusepackInfo.__parse_sv467 on the 32 bytes at the header position.
   result: [version; channels; sample_rate; length numerator; length denominator; bitrate field;
            title_peak; title_gain; album_peak; album_gain] (peaks/gains: raw integers, -100000 = attribute not set) *)
Definition decode_mpc_sv467 (f : list Z) : result (list Z) :=
  let header := sub_at 0 32 f in
  if negb (zlen header =? 32) then Raise EMutagen
  else if starts_with ascii_MPplus header then
    let version := byte_at 3 header mod 16 in
    if version <? 7 then Raise EMutagen
    else
      let frames := le_at 4 4 header in
      let flags := le_at 8 4 header in
      match idx ((flags / 65536) mod 4) gen_musepack_rates with
      | None => Raise EIndex
      | Some sample_rate =>
        if sample_rate =? 0 then Raise EZeroDiv
        else Ok [version; 2; sample_rate; frames * 1152 - 576; sample_rate; 0;
                 le_at 12 2 header; to_signed 65536 (le_at 14 2 header);
                 le_at 16 2 header; to_signed 65536 (le_at 18 2 header)]
      end
  else
    let header_dword := le_at 0 4 header in
    let version := (header_dword / 2048) mod 1024 in
    if (version <? 4) || (version >? 6) then Raise EMutagen
    else
      let bitrate := (header_dword / 8388608) mod 512 in
      let frames0 := if version >=? 5 then le_at 4 4 header else le_at 6 2 header in
      let frames := if version <? 6 then frames0 - 1 else frames0 in
      Ok [version; 2; 44100; frames * 1152 - 576; 44100; bitrate; -100000; -100000; -100000; -100000].
(* EXTRACT: InfoSimple.build_dsf InfoSimple.decode_dsf InfoSimple.build_tta InfoSimple.decode_tta
            InfoSimple.wavpack_flags InfoSimple.build_wavpack_block InfoSimple.decode_wavpack
            InfoSimple.build_ape InfoSimple.build_ape_old InfoSimple.decode_ape InfoSimple.build_ofr InfoSimple.decode_ofr
            InfoSimple.mpc7_flags InfoSimple.build_mpc7 InfoSimple.decode_mpc_sv467 *)
