(* Model.Fam_id3f: the family "ID3v2 tag at the START of a file + optional ID3v1 tag at the END"
   (kinds MP3, TrueAudio, bare mutagen.id3.ID3 on any file).  Definitions only.
   The FRAMES ARE OPAQUE: the rendered frame data (already sorted and concatenated by ID3Tags._write; the
   frame codecs are C12, the order C07-order) and the 128 bytes of MakeID3v1 are INPUTS.  Modelled is the
   container surgery of mutagen/id3/_file.py and _id3v1.py:
     - MIRRORS of mutagen (same comparisons, same exception classes, same byte layout):
         mut_header   = ID3Header.__init__ as far as ID3.save uses it (ID3NoHeaderError -> no header,
                        every other failure propagates; extended-header handling incl. the "frame id instead
                        of an extended header" heuristic, the Frames key set being a run-time parameter)
         find_id3v1   = find_id3v1(start) + the length test of ParseID3v1 (window of the last 128+3 bytes; no tag
                        when the file ends with an APEv2 footer; FIRST b"TAG", not the one inside b"APETAGEX",
                        not before file offset `start`, tag length 124..128)
         prepare_data = ID3._prepare_data (needed, PaddingInfo(available - needed, trailing_size = the bytes behind
                        the old tag), negative callback result -> error,
                        BitPaddedInt.to_str(new_size - 10, width=4), zero fill)
         id3_save_prog= the same step as a program over the file monad (regenerated insert_bytes / delete_bytes)
         id3f_save    = ID3.save (old size from the header, insert_bytes / delete_bytes + write at 0 = splice at
                        offset 0, then __save_v1(f, v1, new_size)),   id3f_delete = module-level delete(f, True, True)
     - STRICT, independent readers written from the format layout: parse_tag / walk_frames (frame-header
       walker: 4-char id [A-Z0-9], syncsafe (v2.4) or plain (v2.3) size, 2 flag bytes; 3+3 bytes for v2.2),
       strict_v1, id3f_parse, id3f_load, id3f_wf.
   Bytes are list Z.  Syncsafe integers come from Model.Id3Util (C14). *)
From Coq Require Import ZArith List Bool.
Import ListNotations.
Require Import Base.Py Base.FileModel Gen.Gen_tags Gen.Gen_util Model.Splice Model.Id3Util.
Open Scope Z_scope.

Definition M_ID3 : list Z := [73; 68; 51].                          (* b"ID3" *)
Definition M_TAG : list Z := [84; 65; 71].                          (* b"TAG" *)
Definition M_APE : list Z := [65; 80; 69; 84; 65; 71; 69; 88].      (* b"APETAGEX" *)

(* ------------------------------------------------------------------ mirrors of mutagen's readers *)
(* bytes.index(pat) for a non-empty pattern: offset of the first occurrence *)
Fixpoint index_of (pat l : list Z) : option Z :=
  match l with
  | [] => None
  | _ :: r => if starts_with pat l then Some 0
              else match index_of pat r with Some i => Some (i + 1) | None => None end
  end.

(* find_id3v1(fileobj, start=start) on the bytes `data` read from the window that begins at file offset data_offset;
   result: length of the tag (= -offset), None = (None, 0) *)
Definition find_v1_in (data_offset start : Z) (data : list Z) : option Z :=
  (* data[-32:-24] == b"APETAGEX": the file ends with an APEv2 footer *)
  if (32 <=? zlen data) && starts_with M_APE (zdrop (zlen data - 32) data) then None else
  match index_of M_TAG data with
  | None => None
  | Some idx =>
    if (match index_of M_APE data with Some ape_idx => idx =? ape_idx + 3 | None => false end) then None
    else if data_offset + idx <? start then None
    else
      let n := zlen data - idx in                 (* len(data[idx:]) *)
      if (128 <? n) || (n <? 124) then None else Some n
  end.
(* fileobj.seek(-128 - 3, 2) (position 0 when the file is shorter); data = fileobj.read(131);
   data_offset = fileobj.tell() - len(data) *)
Definition find_id3v1 (start : Z) (f : list Z) : option Z :=
  let data := zdrop (zlen f - 131) f in find_v1_in (zlen f - zlen data) start data.

Definition in_frames (known : list (list Z)) (x : list Z) : bool := existsb (list_eqb x) known.

(* ID3Header.__init__: Ok None = ID3NoHeaderError, Ok (Some size) = header.size (10 + syncsafe body size) *)
Definition mut_header (known : list (list Z)) (f : list Z) : result (option Z) :=
  let data := ztake 10 f in
  if negb (zlen data =? 10) then Ok None else
  let vmaj := znth 3 data in
  let flags := znth 5 data in
  let sz := zslice 6 10 data in
  match bpi_of_bytes 7 true sz with
  | Raise e => Raise e
  | Ok sv =>
    let size := sv + 10 in
    if negb (starts_with M_ID3 data) then Ok None else
    if negb ((vmaj =? 2) || (vmaj =? 3) || (vmaj =? 4)) then Raise EMutagen else
    match has_valid_padding_bytes 7 sz with
    | Raise e => Raise e
    | Ok vp =>
      if negb vp then Raise EMutagen else
      if (vmaj =? 4) && negb (Z.land flags 15 =? 0) then Raise EMutagen else
      if (vmaj =? 3) && negb (Z.land flags 31 =? 0) then Raise EMutagen else
      if Z.land flags 64 =? 0 then Ok (Some size) else
      let ext := zslice 10 14 f in
      if negb (zlen ext =? 4) then Raise EMutagen else             (* read_full: IOError -> error *)
      if in_frames known ext then Ok (Some size) else
      match (if vmaj =? 4 then
               match bpi_of_bytes 7 true ext, has_valid_padding_bytes 7 ext with
               | Ok v, Ok true => Ok (v - 4)
               | Raise e, _ => Raise e
               | _, Raise e => Raise e
               | _, Ok false => Raise EMutagen
               end
             else Ok (be_decode ext)) with
      | Raise e => Raise e
      | Ok extsize =>
        if extsize <? 0 then Raise EMutagen else
        if zlen (zdrop 14 f) <? extsize then Raise EMutagen else Ok (Some size)
      end
    end
  end.

(* ------------------------------------------------------------------ writer (mirror) *)
Record opts := mkIOpts {
  o_v2 : Z;                   (* v2_version *)
  o_v1 : Z;                   (* v1: 0 REMOVE, 1 UPDATE, 2 CREATE *)
  o_v1bytes : list Z;         (* MakeID3v1(self): an input here *)
  o_cb : Z -> Z -> Z;         (* padding callback: (info.padding, info.size) -> padding *)
  o_known : list (list Z)     (* keys of mutagen.id3.Frames (read at run time) *)
}.

(* the 10 header bytes + frames + zero fill *)
Definition render_tag (v2 : Z) (sizebytes framedata : list Z) (padding : Z) : list Z :=
  M_ID3 ++ [v2; 0; 0] ++ sizebytes ++ framedata ++ zeros padding.

(* ID3._prepare_data(fileobj, 0, available, v2_version, v23_sep, pad_func); fsize = file size;
   trailing_size = max(0, fsize - start - available): the data following the old tag *)
Definition prepare_data (fsize available : Z) (framedata : list Z) (o : opts) : result (list Z) :=
  if negb ((o_v2 o =? 3) || (o_v2 o =? 4)) then Raise EValue else
  let needed := zlen framedata + 10 in
  let trailing_size := Z.max 0 (fsize - 0 - available) in
  let new_padding := o_cb o (available - needed) trailing_size in
  if new_padding <? 0 then Raise EMutagen else
  let new_size := needed + new_padding in
  match to_str (new_size - 10) 7 true 4 4 with
  | Raise e => Raise e
  | Ok new_framesize => Ok (render_tag (o_v2 o) new_framesize framedata (new_size - needed))
  end.

(* ID3.__save_v1(f, v1, v2_size): an ID3v1 tag cannot begin inside the ID3v2 tag just written *)
Definition save_v1 (f : list Z) (v1 : Z) (v1bytes : list Z) (v2_size : Z) : list Z :=
  match find_id3v1 v2_size f with
  | Some n =>                                   (* f.seek(-n, 2) *)
    if (v1 =? 1) || (v1 =? 2) then patch f (zlen f - n) v1bytes else ztake (zlen f - n) f
  | None =>                                     (* f.seek(0, 2) *)
    if v1 =? 2 then f ++ v1bytes else f
  end.

Definition old_size_of (h : option Z) : Z := match h with Some s => s | None => 0 end.

(* the ID3v2 part of ID3.save: insert_bytes(f, new - old, old) / delete_bytes(f, old - new, new) (ValueError when
   the old tag claims more bytes than the file has), seek(0), write(data) *)
Definition id3f_save_v2 (f framedata : list Z) (o : opts) : result (list Z * Z) :=
  match mut_header (o_known o) f with
  | Raise e => Raise e
  | Ok h =>
    let old_size := old_size_of h in
    match prepare_data (zlen f) old_size framedata o with
    | Raise e => Raise e
    | Ok data =>
      if (zlen f <? old_size) && negb (old_size =? zlen data) then Raise EValue
      else Ok (splice f 0 old_size data, zlen data)
    end
  end.

(* the same step as a program over the file object (regenerated insert_bytes / delete_bytes of mutagen/_util.py):
     if old_size < new_size: insert_bytes(f, new_size - old_size, old_size)
     elif old_size > new_size: delete_bytes(f, old_size - new_size, new_size)
     f.seek(0); f.write(data) *)
Definition id3_save_prog (BUF old_size : Z) (data : list Z) : M unit :=
  let new_size := zlen data in
  (if old_size <? new_size then insert_bytes BUF (new_size - old_size) old_size
   else if new_size <? old_size then delete_bytes BUF (old_size - new_size) new_size
   else ret tt) ;;
  f_seek 0 0 ;; f_write data.

Definition id3f_save (f framedata : list Z) (o : opts) : result (list Z) :=
  match id3f_save_v2 f framedata o with
  | Raise e => Raise e
  | Ok (g, new_size) => Ok (save_v1 g (o_v1 o) (o_v1bytes o) new_size)
  end.

(* module-level delete(filething, delete_v1=True, delete_v2=True) *)
Definition id3f_delete (f : list Z) : result (list Z) :=
  (* delete_v1: an ID3v1 tag can't lie inside an ID3v2 tag at the start of the file *)
  let idata0 := ztake 10 f in
  match (if (zlen idata0 =? 10) && starts_with M_ID3 idata0
         then match bpi_of_bytes 7 true (zslice 6 10 idata0) with Ok v => Ok (v + 10) | Raise e => Raise e end
         else Ok 0) with
  | Raise e => Raise e
  | Ok v2_end =>
    let f1 := match find_id3v1 v2_end f with Some n => ztake (zlen f - n) f | None => f end in
    (* delete_v2 *)
    let idata := ztake 10 f1 in
    if negb (zlen idata =? 10) then Ok f1 else           (* struct.error: pass *)
    match bpi_of_bytes 7 true (zslice 6 10 idata) with
    | Raise e => Raise e
    | Ok insize =>
      if starts_with M_ID3 idata && (0 <=? insize) then
        if zlen f1 <? insize + 10 then Raise EMutagen     (* delete_bytes: ValueError -> error *)
        else Ok (splice f1 0 (insize + 10) [])
      else Ok f1
    end
  end.

(* ------------------------------------------------------------------ strict readers (format layout) *)
Definition is_7bit (b : Z) : bool := (0 <=? b) && (b <? 128).
Definition syncsafe4 (l : list Z) : Z := fold_left (fun a b => a * 128 + b) l 0.
Definition id_char (c : Z) : bool := ((65 <=? c) && (c <=? 90)) || ((48 <=? c) && (c <=? 57)).
Definition all_zero (l : list Z) : bool := forallb (Z.eqb 0) l.

(* walk the frame headers of a tag body; Some n: the first n bytes are frames, the rest is zero padding *)
Fixpoint walk_frames (fuel : nat) (ver : Z) (d : list Z) : option Z :=
  match fuel with
  | O => None
  | S k =>
    let hl := if ver =? 2 then 6 else 10 in
    if (zlen d <? hl) || (znth 0 d =? 0) then (if all_zero d then Some 0 else None)
    else
      let idl := if ver =? 2 then 3 else 4 in
      let raw := zslice idl (if ver =? 2 then 6 else 8) d in
      if negb (forallb id_char (ztake idl d)) then None else
      if negb (forallb is_byte (ztake hl d)) then None else
      if (ver =? 4) && negb (forallb is_7bit raw) then None else
      let n := if ver =? 4 then syncsafe4 raw else be_decode raw in
      if (n <=? 0) || (zlen d <? hl + n) then None else
      match walk_frames k ver (zdrop (hl + n) d) with
      | Some m => Some (hl + n + m)
      | None => None
      end
  end.
Definition frames_len (ver : Z) (body : list Z) : option Z := walk_frames (S (length body)) ver body.
(* the opaque frame data is a sequence of well-formed frames (no padding) *)
Definition frames_ok (ver : Z) (framedata : list Z) : bool :=
  match frames_len ver framedata with Some n => n =? zlen framedata | None => false end.

Record tag := mkT { t_ver : Z; t_size : Z; t_frames : list Z; t_pad : Z }.   (* t_size = 10 + body *)
Record id3f := mkI { i_tag : option tag; i_mid : list Z; i_v1 : option (list Z) }.

(* strict model: flags must be 0 (no unsynchronisation, extended header, experimental, footer) *)
Definition parse_tag (f : list Z) : result (option tag) :=
  if negb (starts_with M_ID3 f) then Ok None else
  if zlen f <? 10 then Raise EMutagen else
  let ver := znth 3 f in
  let sz := zslice 6 10 f in
  if negb ((ver =? 2) || (ver =? 3) || (ver =? 4)) then Raise EMutagen else
  if negb (is_byte (znth 4 f)) then Raise EMutagen else
  if negb (znth 5 f =? 0) then Raise EMutagen else
  if negb (forallb is_7bit sz) then Raise EMutagen else
  let size := syncsafe4 sz in
  if zlen f <? 10 + size then Raise EMutagen else
  let body := ztake size (zdrop 10 f) in
  match frames_len ver body with
  | None => Raise EMutagen
  | Some n => Ok (Some (mkT ver (10 + size) (ztake n body) (size - n)))
  end.

(* an ID3v1 tag: the last 128 bytes of the payload start with TAG -- unless the payload ends with an APEv2
   footer (then those bytes belong to the APEv2 tag) or the TAG is the middle of an APETAGEX preamble *)
Definition strict_v1 (p : list Z) : bool :=
  (128 <=? zlen p) && starts_with M_TAG (zdrop (zlen p - 128) p)
  && negb (starts_with M_APE (zdrop (zlen p - 32) p))
  && negb ((131 <=? zlen p) && starts_with M_APE (zdrop (zlen p - 131) p)).

Definition id3f_parse (f : list Z) : result id3f :=
  match parse_tag f with
  | Raise e => Raise e
  | Ok t =>
    let off := match t with Some t => t_size t | None => 0 end in
    let p := zdrop off f in
    if strict_v1 p then Ok (mkI t (ztake (zlen p - 128) p) (Some (zdrop (zlen p - 128) p)))
    else Ok (mkI t p None)
  end.

(* independent reader of the tags: the frame bytes (without padding); None = no ID3v2 tag *)
Definition id3f_load (f : list Z) : result (option (list Z)) :=
  match id3f_parse f with
  | Raise e => Raise e
  | Ok s => Ok (match i_tag s with Some t => Some (t_frames t) | None => None end)
  end.
Definition id3f_padding (s : id3f) : Z := match i_tag s with Some t => t_pad t | None => 0 end.
Definition tag_size (s : id3f) : Z := match i_tag s with Some t => t_size t | None => 0 end.
Definition v1_size (s : id3f) : Z := match i_v1 s with Some _ => 128 | None => 0 end.

Definition is_none {A} (x : option A) : bool := match x with None => true | Some _ => false end.
Definition is_some128 (x : option Z) : bool := match x with Some n => n =? 128 | None => false end.
(* the 128 bytes v are recognised as THE ID3v1 tag behind the payload mid, by the format rule and by mutagen; the
   payload has at least 3 bytes, so that the 128+3 byte search window does not reach the ID3v2 tag *)
Definition v1_fits (mid v : list Z) : bool :=
  (3 <=? zlen mid) && (zlen v =? 128) && strict_v1 (mid ++ v) && is_some128 (find_id3v1 0 (mid ++ v)).
(* the payload between the two tags is unambiguous: it does not itself start with an ID3v2 header or end in
   something taken for an ID3v1 tag (by the format rule or by mutagen: legacy short tags) *)
Definition payload_ok (s : id3f) : bool :=
  negb (starts_with M_ID3 (i_mid s)) && negb (strict_v1 (i_mid s))
  && is_none (find_id3v1 0 (i_mid s))
  && match i_v1 s with Some v => v1_fits (i_mid s) v | None => true end.
Definition id3f_wf (f : list Z) : bool :=
  match id3f_parse f with Ok s => payload_ok s | Raise _ => false end.

(* ------------------------------------------------------------------ builder and callbacks of the harness *)
Definition syncsafe_enc (n : Z) : list Z := [(n / 2097152) mod 128; (n / 16384) mod 128; (n / 128) mod 128; n mod 128].
(* synthetic layout: optional tag (version, flags, frame bytes, padding), payload, optional ID3v1 bytes *)
Definition id3f_build (t : option (Z * Z * list Z * Z)) (audio : list Z) (v1 : option (list Z)) : list Z :=
  (match t with
   | None => []
   | Some (ver, flags, frames, pad) => M_ID3 ++ [ver; 0; flags] ++ syncsafe_enc (zlen frames + pad) ++ frames ++ zeros pad
   end) ++ audio ++ (match v1 with None => [] | Some v => v end).

Definition id3f_cb_const (n : Z) : Z -> Z -> Z := fun _ _ => n.
Definition id3f_cb_keep : Z -> Z -> Z := fun p _ => Z.max p 0.
Definition id3f_cb_default : Z -> Z -> Z := get_default_padding.

(* edit histories (C03) *)
Inductive op := OpSave (framedata : list Z) (o : opts) | OpDelete.
Definition step (r : result (list Z)) (x : op) : result (list Z) :=
  match r with
  | Raise e => Raise e
  | Ok f => match x with OpSave fr o => id3f_save f fr o | OpDelete => id3f_delete f end
  end.
Definition run_ops (ops : list op) (f : list Z) : result (list Z) := fold_left step ops (Ok f).
(* EXTRACT: Fam_id3f.find_id3v1 Fam_id3f.mut_header Fam_id3f.prepare_data Fam_id3f.save_v1 Fam_id3f.id3f_save_v2 Fam_id3f.id3f_save Fam_id3f.id3f_delete Fam_id3f.frames_ok Fam_id3f.frames_len Fam_id3f.id3f_parse Fam_id3f.id3f_load Fam_id3f.id3f_padding Fam_id3f.id3f_wf Fam_id3f.v1_fits Fam_id3f.strict_v1 Fam_id3f.id3f_build Fam_id3f.id3f_cb_const Fam_id3f.id3f_cb_keep Fam_id3f.id3f_cb_default Fam_id3f.run_ops Fam_id3f.mkIOpts *)
