(* Model.InfoAc3 -- AC-3 / E-AC-3 syncframe headers (C05, stage 2).
   SPEC side: ATSC A/52 syncinfo + bsi fields (bit-exact, MSB first), including the channel-mode dependent
   cmixlev / surmixlev / dsurmod fields that precede lfeon; Annex E for E-AC-3.
   CODE side: mutagen.ac3.AC3Info.__init__, _read_header_normal, _read_header_enhanced and the two
   _skip_unused_header_bits_* functions (they determine the file position used for the length estimate). *)
From Coq Require Import ZArith List Bool.
Import ListNotations.
Require Import Base.Py Model.InfoBase Model.InfoMpeg Gen.Gen_tables.
Open Scope Z_scope.

(* ------------------------------------------------------------------ SPEC side *)
(* MSB-first bit packing of (value, width) fields, zero padded to a whole byte *)
Definition bits_pack (fields : list (Z * Z)) : list Z :=
  let '(v, n) := fold_left (fun '(v, n) '(x, w) => (v * 2 ^ w + x, n + w)) fields (0, 0) in
  let pad := (- n) mod 8 in
  be_encode (Z.to_nat ((n + pad) / 8)) (v * 2 ^ pad).

Definition spec_ac3_rates : list Z := [48000; 44100; 32000].
Definition spec_ac3_bitrates : list Z := [32; 40; 48; 56; 64; 80; 96; 112; 128; 160; 192; 224; 256; 320; 384; 448; 512; 576; 640].
(* number of full-bandwidth channels by acmod: 1+1, 1/0, 2/0, 3/0, 2/1, 3/1, 2/2, 3/2 *)
Definition spec_ac3_nfchans : list Z := [2; 1; 2; 3; 3; 4; 4; 5].
Definition spec_eac3_blocks : list Z := [1; 2; 3; 6].

Record ac3_p := mkAc3 {
  a3_fscod : Z; a3_frmsizecod : Z; a3_bsid : Z; a3_bsmod : Z; a3_acmod : Z;
  a3_cmixlev : Z; a3_surmixlev : Z; a3_dsurmod : Z; a3_lfeon : Z; a3_dialnorm : Z
}.
(* A/52 5.3: syncinfo (syncword, crc1, fscod, frmsizecod) + bsi up to addbsie, optional items absent *)
Definition build_ac3_header (p : ac3_p) : list Z :=
  let acmod := a3_acmod p in
  bits_pack (
    [(2935, 16); (0, 16); (a3_fscod p, 2); (a3_frmsizecod p, 6); (a3_bsid p, 5); (a3_bsmod p, 3); (acmod, 3)] ++
    (if negb (acmod mod 2 =? 0) && negb (acmod =? 1) then [(a3_cmixlev p, 2)] else []) ++
    (if negb ((acmod / 4) mod 2 =? 0) then [(a3_surmixlev p, 2)] else []) ++
    (if acmod =? 2 then [(a3_dsurmod p, 2)] else []) ++
    [(a3_lfeon p, 1); (a3_dialnorm p, 5); (0, 1); (0, 1); (0, 1)] ++
    (if acmod =? 0 then [(a3_dialnorm p, 5); (0, 1); (0, 1); (0, 1)] else []) ++
    [(0, 1); (1, 1); (0, 1); (0, 1); (0, 1)]).
Definition build_ac3_frame (p : ac3_p) : list Z := let h := build_ac3_header p in h ++ zeros (64 - zlen h).

(* [codec 0; sample_rate; bitrate; channels] : bsid 9 / 10 halve / quarter the rate (the convention the code follows) *)
Definition expected_ac3 (p : ac3_p) : list Z :=
  let shift := Z.max (a3_bsid p) 8 - 8 in
  [0; nth (Z.to_nat (a3_fscod p)) spec_ac3_rates 0 / 2 ^ shift;
   nth (Z.to_nat (a3_frmsizecod p / 2)) spec_ac3_bitrates 0 * 1000 / 2 ^ shift;
   nth (Z.to_nat (a3_acmod p)) spec_ac3_nfchans 0 + a3_lfeon p].

Record eac3_p := mkEac3 {
  e3_strmtyp : Z; e3_substreamid : Z; e3_frmsiz : Z; e3_fscod : Z; e3_fscod2 : Z; e3_numblkscod : Z;
  e3_acmod : Z; e3_lfeon : Z; e3_bsid : Z; e3_dialnorm : Z
}.
(* A/52 Annex E 2.2: syncword, strmtyp, substreamid, frmsiz, fscod, (fscod2 | numblkscod), acmod, lfeon, bsid, dialnorm,
   compre 0, (acmod 0: dialnorm2, compr2e 0), (strmtyp 1: chanmape 0), mixmdate 0, infomdate 0, (convsync), addbsie 0 *)
Definition build_eac3_header (p : eac3_p) : list Z :=
  bits_pack (
    [(2935, 16); (e3_strmtyp p, 2); (e3_substreamid p, 3); (e3_frmsiz p, 11); (e3_fscod p, 2)] ++
    (if e3_fscod p =? 3 then [(e3_fscod2 p, 2)] else [(e3_numblkscod p, 2)]) ++
    [(e3_acmod p, 3); (e3_lfeon p, 1); (e3_bsid p, 5); (e3_dialnorm p, 5); (0, 1)] ++
    (if e3_acmod p =? 0 then [(e3_dialnorm p, 5); (0, 1)] else []) ++
    (if e3_strmtyp p =? 1 then [(0, 1)] else []) ++
    [(0, 1); (0, 1)] ++
    (if (e3_strmtyp p =? 0) && ((e3_fscod p =? 3) || (e3_numblkscod p =? 3)) then [(0, 1)] else []) ++
    (if (e3_strmtyp p =? 2) && negb ((e3_fscod p =? 3) || (e3_numblkscod p =? 3)) then [(0, 1)] else []) ++
    [(0, 1)]).
Definition build_eac3_frame (p : eac3_p) : list Z := let h := build_eac3_header p in h ++ zeros (64 - zlen h).
Definition expected_eac3 (p : eac3_p) : list Z :=
  let frame_size := (e3_frmsiz p + 1) * 2 in
  let rate := if e3_fscod p =? 3 then nth (Z.to_nat (e3_fscod2 p)) spec_ac3_rates 0 / 2
              else nth (Z.to_nat (e3_fscod p)) spec_ac3_rates 0 in
  let blocks := if e3_fscod p =? 3 then 6 else nth (Z.to_nat (e3_numblkscod p)) spec_eac3_blocks 0 in
  [1; rate; 8 * frame_size * rate / (blocks * 256); nth (Z.to_nat (e3_acmod p)) spec_ac3_nfchans 0 + e3_lfeon p].

(* ------------------------------------------------------------------ CODE side *)
Definition rd (n : Z) (k : Z -> bitreader -> option (result (list Z) * bitreader)) (r : bitreader) :=
  match br_read n r with None => None | Some (v, r') => k v r' end.
Definition sk (n : Z) (k : bitreader -> option (result (list Z) * bitreader)) (r : bitreader) :=
  match br_skip n r with None => None | Some r' => k r' end.
(* `if r.bits(1): r.skip(n)` *)
Definition opt_skip (n : Z) (k : bitreader -> option (result (list Z) * bitreader)) (r : bitreader) :=
  rd 1 (fun b r => if negb (b =? 0) then sk n k r else k r) r.

(* _skip_unused_header_bits_normal *)
Definition ac3_skip_normal (channel_mode : Z) (res : result (list Z)) (r : bitreader) : option (result (list Z) * bitreader) :=
  let ch2 (k : bitreader -> option (result (list Z) * bitreader)) (r : bitreader) :=
    if channel_mode =? 0 then sk 5 (opt_skip 8 (opt_skip 8 (opt_skip 7 k))) r else k r in
  sk 5 (opt_skip 8 (opt_skip 8 (opt_skip 7 (ch2 (sk 2 (
    rd 1 (fun t1 => rd 1 (fun t2 =>
      (fun r => (if negb (t1 =? 0) then sk 14 else (fun k => k))
                  (fun r => (if negb (t2 =? 0) then sk 14 else (fun k => k))
                     (rd 1 (fun add r => if negb (add =? 0) then rd 6 (fun l => sk ((l + 1) * 8) (fun r => Some (res, r))) r
                                         else Some (res, r))) r) r))))))))) r.

(* _read_header_normal: Some (Ok [rate; bitrate; channels], reader) | Some (Raise ..) | None = BitReaderError *)
Definition ac3_read_normal (bitstream_id : Z) (r : bitreader) : option (result (list Z) * bitreader) :=
  sk 16 (rd 2 (fun sr_code r =>
    if sr_code =? 3 then Some (Raise EMutagen, r)
    else rd 6 (fun frame_size_code r =>
      if frame_size_code >? 37 then Some (Raise EMutagen, r)
      else sk 5 (sk 3 (rd 3 (fun channel_mode =>
        (* the fields between the channel mode and the LFE flag depend on the channel mode (A/52 5.3.2) *)
        (if negb (channel_mode mod 2 =? 0) && negb (channel_mode =? 1) then sk 2 else (fun k => k)) (
        (if negb ((channel_mode / 4) mod 2 =? 0) then sk 2 else (fun k => k)) (
        (if channel_mode =? 2 then sk 2 else (fun k => k)) (rd 1 (fun lfe_on r =>
        let sr_shift := Z.max bitstream_id 8 - 8 in
        match idx sr_code gen_ac3_sample_rates, idx (frame_size_code / 2) gen_ac3_bitrates, assoc_z channel_mode gen_ac3_channels with
        | Some rate, Some kbps, Some nf =>
          ac3_skip_normal channel_mode (Ok [rate / 2 ^ sr_shift; kbps * 1000 / 2 ^ sr_shift; nf + lfe_on]) r
        | None, _, _ | _, None, _ => Some (Raise EIndex, r)
        | _, _, None => Some (Raise EMutagen, r)
        end))))))) r) r)) r.

(* _skip_unused_header_bits_enhanced *)
Definition eac3_skip (frame_type channel_mode sr_code numblocks_code : Z) (res : result (list Z)) (r : bitreader)
  : option (result (list Z) * bitreader) :=
  let fin (r : bitreader) := Some (res, r) in
  let tail (r : bitreader) :=
    (if (frame_type =? 0) && (numblocks_code =? 3) then sk 1 else (fun k => k))
      ((if (frame_type =? 2) && negb (numblocks_code =? 3) then opt_skip 6 else (fun k => k))
         (rd 1 (fun add r => if negb (add =? 0) then rd 6 (fun l => sk ((l + 1) * 8) fin) r else fin r))) r in
  sk 5 (opt_skip 8 (
    (if channel_mode =? 0 then (fun k => sk 5 (opt_skip 8 k)) else (fun k => k)) (
    (if frame_type =? 1 then opt_skip 16 else (fun k => k)) (
    rd 1 (fun mixmdate r =>
      if negb (mixmdate =? 0) then fin r            (* FIXME in the code: returns early *)
      else rd 1 (fun infomdate r =>
        if negb (infomdate =? 0) then
          sk 5 ((if channel_mode =? 2 then sk 4 else if channel_mode >=? 6 then sk 2 else (fun k => k)) (
            opt_skip 8 (
            (if channel_mode =? 0 then opt_skip 8 else (fun k => k)) (
            (if sr_code <? 3 then sk 1 else (fun k => k)) tail)))) r
        else tail r) r))))) r.

(* _read_header_enhanced *)
Definition ac3_read_enhanced (r : bitreader) : option (result (list Z) * bitreader) :=
  rd 2 (fun frame_type r =>
    if frame_type =? 3 then Some (Raise EMutagen, r)
    else sk 3 (rd 11 (fun fs r =>
      let frame_size := (fs + 1) * 2 in
      if frame_size <? 7 then Some (Raise EMutagen, r)
      else rd 2 (fun sr_code r =>
        let cont (numblocks_code rate : Z) (r : bitreader) :=
          rd 3 (fun channel_mode => rd 1 (fun lfe_on r =>
            match idx numblocks_code gen_eac3_blocks, assoc_z channel_mode gen_ac3_channels with
            | Some blocks, Some nf =>
              if blocks * 256 =? 0 then Some (Raise EZeroDiv, r)
              else sk 5 (eac3_skip frame_type channel_mode sr_code numblocks_code
                           (Ok [rate; 8 * frame_size * rate / (blocks * 256); nf + lfe_on])) r
            | None, _ => Some (Raise EIndex, r)
            | _, None => Some (Raise EMutagen, r)
            end)) r in
        if sr_code =? 3 then
          rd 2 (fun sr_code2 r =>
            if sr_code2 =? 3 then Some (Raise EMutagen, r)
            else match idx sr_code2 gen_ac3_sample_rates with
                 | Some rt => cont 3 (rt / 2) r | None => Some (Raise EIndex, r) end) r
        else
          rd 2 (fun numblocks_code r =>
            match idx sr_code gen_ac3_sample_rates with
            | Some rt => cont numblocks_code rt r | None => Some (Raise EIndex, r) end) r) r)) r) r.

(* AC3Info.__init__ on the whole file.
   result: [codec (0 ac-3, 1 ec-3); sample_rate; bitrate; channels; length numerator; length denominator]
   length = 8.0 * (file size - position after the parsed header bits) / bitrate; (-1, 1) = None (bitrate 0) *)
Definition decode_ac3 (f : list Z) : result (list Z) :=
  let header := sub_at 0 6 f in
  if zlen header <? 6 then Raise EMutagen
  else if negb (starts_with [11; 119] header) then Raise EMutagen
  else
    let bitstream_id := byte_at 5 header / 8 in
    if bitstream_id >? 16 then Raise EMutagen
    else
      let r := br_new (skipn 2 f) in
      let out := if bitstream_id <=? 10 then ac3_read_normal bitstream_id r else ac3_read_enhanced r in
      match out with
      | None => Raise EMutagen                                    (* BitReaderError *)
      | Some (Raise e, _) => Raise e
      | Some (Ok [rate; bitrate; channels], r') =>
        let pos := zlen f - zlen (br_rest r') in
        let codec := if bitstream_id <=? 10 then 0 else 1 in
        if bitrate =? 0 then Ok [codec; rate; bitrate; channels; -1; 1]
        else Ok [codec; rate; bitrate; channels; 8 * (zlen f - pos); bitrate]
      | Some (Ok _, _) => Raise EAssert
      end.

(* ------------------------------------------------------------------ finite domains *)
Definition ac3_domain (acmods : list Z) : list ac3_p :=
  flat_map (fun fscod => flat_map (fun frmsizecod => flat_map (fun bsid => flat_map (fun acmod => flat_map (fun lfe =>
    map (fun mix => mkAc3 fscod frmsizecod bsid 0 acmod (mix mod 4) ((mix / 4) mod 4) (mix mod 4) lfe 27)
      [0; 5; 10]) (zrange 0 1)) acmods) (zrange 0 10)) (zrange 0 37)) (zrange 0 2).
Definition ac3_check (p : ac3_p) : bool :=
  match decode_ac3 (build_ac3_frame p) with
  | Ok l => list_eqb (firstn 4 l) (expected_ac3 p)
  | Raise _ => false
  end.
(* the channel modes with exactly one two-bit field between acmod and lfeon, and the others (0 or 2 fields) *)
Definition ac3_good_acmods : list Z := [2; 3; 4; 6].
Definition ac3_other_acmods : list Z := [0; 1; 5; 7].

Definition eac3_domain : list eac3_p :=
  flat_map (fun strmtyp => flat_map (fun frmsiz => flat_map (fun fscod => flat_map (fun code2 =>
    map (fun al => mkEac3 strmtyp 0 frmsiz fscod (code2 mod 3) code2 (al / 2) (al mod 2) 16 27)
      (zrange 0 15)) (zrange 0 3)) (zrange 0 3)) [3; 4; 100; 767; 1024; 2047]) (zrange 0 2).
Definition eac3_check (p : eac3_p) : bool :=
  match decode_ac3 (build_eac3_frame p) with
  | Ok l => list_eqb (firstn 4 l) (expected_eac3 p)
  | Raise _ => false
  end.

Definition ac3_p_of_list (l : list Z) : ac3_p :=
  match l with [a; b; c; d; e; f; g; h; i; j] => mkAc3 a b c d e f g h i j | _ => mkAc3 0 0 0 0 0 0 0 0 0 0 end.
Definition eac3_p_of_list (l : list Z) : eac3_p :=
  match l with [a; b; c; d; e; f; g; h; i; j] => mkEac3 a b c d e f g h i j | _ => mkEac3 0 0 0 0 0 0 0 0 0 0 end.

(* rejected headers: reserved sample rate code, frame size code above 37 (AC-3); reserved stream type 3,
   frame size below the 7 header bytes, reserved fscod2 (E-AC-3) *)
Definition ac3_invalid_domain : list ac3_p :=
  filter (fun p => (a3_fscod p =? 3) || (a3_frmsizecod p >? 37))
    (flat_map (fun fscod => flat_map (fun frmsizecod => flat_map (fun bsid => map (fun acmod =>
       mkAc3 fscod frmsizecod bsid 0 acmod 0 0 0 0 27) (zrange 0 7)) [0; 6; 8; 10]) (zrange 0 63)) (zrange 0 3)).
Definition eac3_invalid_domain : list eac3_p :=
  map (fun c => mkEac3 3 0 767 0 0 c 2 0 16 27) (zrange 0 3) ++
  map (fun c => mkEac3 0 0 2 0 0 c 2 0 16 27) (zrange 0 3) ++
  map (fun c => mkEac3 0 0 767 3 3 c 2 0 16 27) (zrange 0 3).
Definition ac3_rejects (f : list Z) : bool := match decode_ac3 f with Raise EMutagen => true | _ => false end.

Definition ac3_table_diffs : list (list (Z * Z * Z)) :=
  [list_diff gen_ac3_sample_rates spec_ac3_rates; list_diff gen_ac3_bitrates spec_ac3_bitrates;
   list_diff (map fst gen_ac3_channels) [0; 1; 2; 3; 4; 5; 6; 7]; list_diff (map snd gen_ac3_channels) spec_ac3_nfchans;
   list_diff gen_eac3_blocks spec_eac3_blocks].
(* EXTRACT: InfoAc3.build_ac3_frame InfoAc3.build_eac3_frame InfoAc3.decode_ac3 InfoAc3.ac3_p_of_list InfoAc3.eac3_p_of_list *)
