(* C04 (AIFF) -- Malformed input is rejected cleanly and in bounded time: the mirror of what AIFF.load does apart
   from parsing the ID3 tag itself (_IFFID3._pre_load_header: AIFFFile + the IFF chunk walk to the ID3 chunk;
   AIFFInfo: AIFFFile, the walk to COMM, IffChunk.read, struct.unpack, read_float) returns Ok or raises EMutagen
   on EVERY byte string -- never struct.error, AssertionError (_calculate_size, read_float), OverflowError
   (seek / read / pow / int(inf)), KeyError, UnicodeDecodeError, and never EOutOfFuel, where the fuel of the chunk
   walk is 1 * len + 1 (`C04_AIFF_fuel`, by reflexivity: it is the wrapper's definition). *)
From Coq Require Import ZArith List Bool Lia.
Import ListNotations.
Require Import Base.Py Model.Parse_base Model.Parse_aiff Proofs.C04_lib Proofs.C04_aiff.
Open Scope Z_scope.

Theorem C04_AIFF_total : forall bytes, c04_input bytes ->
  match aiff_load bytes with Ok _ => True | Raise e => e = EMutagen end.
Proof. exact aiff_total. Qed.
Print Assumptions C04_AIFF_total.
Theorem C04_AIFF_fuel : forall bytes,
  aiff_load bytes = prun (aiff_init (Z.to_nat (1 * zlen bytes + 1))) bytes.
Proof. reflexivity. Qed.
Print Assumptions C04_AIFF_fuel.

(* the chunk walk on its own, from any offset with fuel covering the rest of the data: it ends, lets nothing but
   MutagenError out, and every chunk it lists has its data offset inside the data *)
Theorem C04_AIFF_walk_total : forall bytes fuel next end_ pos,
  Forall (fun x => 0 <= x < 256) bytes -> 0 <= next -> 0 <= pos ->
  1 <= Z.of_nat fuel -> zlen bytes + 2 - next <= Z.of_nat fuel ->
  match aiff_subchunks fuel next end_ bytes pos with
  | (Ok chunks, _) => Forall (fun c => 0 <= snd c <= zlen bytes) chunks
  | (Raise e, _) => e = EMutagen
  end.
Proof.
  intros bytes fuel next end_ pos Hb Hn Hp Hf1 Hf.
  pose proof (aiff_subchunks_spec bytes end_ Hb fuel next pos Hn Hp Hf1 Hf) as H.
  unfold pspecE in H. destruct (aiff_subchunks fuel next end_ bytes pos) as [[l|e] p']; [exact (proj2 H)|exact H].
Qed.
Print Assumptions C04_AIFF_walk_total.

(* ---- non-vacuity ---- *)
Definition ex_comm (rate : list Z) : list Z := [67;79;77;77; 0;0;0;18; 0;2; 0;0;3;232; 0;16] ++ rate.
Definition ex_rate_44100 : list Z := [64;14; 172;68;0;0;0;0;0;0].
Definition ex_aiff : list Z :=
  [70;79;82;77; 0;0;0;60; 65;73;70;70] ++ ex_comm ex_rate_44100 ++ [83;83;78;68; 0;0;0;3; 0;0;0;0] ++
  [73;68;51;32; 0;0;0;10; 73;68;51;4;0;0;0;0;0;0].
Example C04_AIFF_ex_ok :
  c04_inputb ex_aiff = true /\ aiff_load ex_aiff = Ok [2; 44100; 16; 1000; 58] /\
  aiff_load ([70;79;82;77; 0;0;0;30; 65;73;70;70] ++ ex_comm ex_rate_44100) = Ok [2; 44100; 16; 1000; -1].
Proof. vm_compute. repeat split; reflexivity. Qed.
Example C04_AIFF_ex_truncated : aiff_load (firstn 37 ex_aiff) = Raise EMutagen /\ aiff_load (firstn 7 ex_aiff) = Raise EMutagen.
Proof. vm_compute. split; reflexivity. Qed.
Example C04_AIFF_ex_no_comm : aiff_load [70;79;82;77; 0;0;0;16; 65;73;70;70; 83;83;78;68; 0;0;0;3; 0;0;0;0] = Raise EMutagen.
Proof. vm_compute. reflexivity. Qed.
(* a nested FORM chunk with a non-ASCII name: _iff.error, which the walk does not catch *)
Example C04_AIFF_ex_nested_form :
  aiff_load ([70;79;82;77; 0;0;0;42; 65;73;70;70; 70;79;82;77; 0;0;0;4; 65;73;255;70] ++ ex_comm ex_rate_44100) = Raise EMutagen.
Proof. vm_compute. reflexivity. Qed.
(* sample rates: pow(2.0, 16320) overflows; a negative rate is refused *)
Example C04_AIFF_ex_rates :
  aiff_load ([70;79;82;77; 0;0;0;30; 65;73;70;70] ++ ex_comm [127;254; 128;0;0;0;0;0;0;0]) = Raise EMutagen /\
  aiff_load ([70;79;82;77; 0;0;0;30; 65;73;70;70] ++ ex_comm [192;14; 172;68;0;0;0;0;0;0]) = Raise EMutagen.
Proof. vm_compute. split; reflexivity. Qed.
