(* C03 (APEv2 family) -- the file stays structurally valid through any history of save / delete / module delete.
   ape_wf f: the strict reader accepts f (footer at EOF / before ID3v1 / before Lyrics3v2+ID3v1; size >= 32; a
   header, when flagged, is present with equal version/size/count and flags = footer flags + IS_HEADER; the footer
   is not flagged as header; exactly `count` items with valid keys and kinds tile the body), and nothing outside
   the tag carries the APETAGEX marker.  After a save the tag has header AND footer. *)
From Coq Require Import ZArith List Bool Lia Permutation.
Import ListNotations.
Require Import Base.Py Base.ZList Model.Sort Model.Fam_ape
  Proofs.Fam_ape_codec Proofs.Fam_ape_locate Proofs.Fam_ape_save Proofs.Fam_ape_props Proofs.Fam_ape_examples.
Open Scope Z_scope.

Theorem C03_ape_save : forall real f items f',
  ape_wf f = true -> forallb item_valid items = true -> ape_save real f items = Ok f' ->
  ape_wf f' = true /\ exists s', ape_parse f' = Ok s' /\ phashdr s' = true /\ ptag s' = Some (sort_items items).
Proof. exact C03_save. Qed.
Print Assumptions C03_ape_save.

Theorem C03_ape_delete : forall real f f', ape_wf f = true -> ape_delete real f = Ok f' -> ape_wf f' = true.
Proof. exact C03_delete. Qed.
Print Assumptions C03_ape_delete.

Theorem C03_ape_moddelete : forall real f f', ape_wf f = true -> ape_moddelete real f = Ok f' -> ape_wf f' = true.
Proof. exact C03_moddelete. Qed.
Print Assumptions C03_ape_moddelete.

(* every finite operation sequence (a failed operation leaves the file as it was) *)
Theorem C03_ape_history : forall real ops f, ape_wf f = true -> forallb op_valid ops = true ->
  ape_wf (fold_left (step real) ops f) = true.
Proof. exact C03_history. Qed.
Print Assumptions C03_ape_history.

(* ... and the bytes before the original tag start are still the beginning of what precedes the tag *)
Theorem C03_ape_history_body : forall real ops f, ape_wf f = true -> forallb op_valid ops = true ->
  exists ext, body_of (fold_left (step real) ops f) = body_of f ++ ext.
Proof. exact C03_history_body. Qed.
Print Assumptions C03_ape_history_body.

(* header/footer layout of what save writes *)
Theorem C03_ape_tag_layout : forall items,
  ape_render_tag items = tag_bytes 2000 (sort_items items) /\
  zlen (ape_hdr 2000 (zlen (render_body items) + 32) (zlen items) HAS_HEADER) = 32.
Proof. intros. split; [apply render_tag_bytes | reflexivity]. Qed.
Print Assumptions C03_ape_tag_layout.

Example C03_ape_history_example :
  ape_wf (fold_left (step false) [OSave [it_title; it_cover]; OSave [it_url]; ODelete; OModDelete; OSave []; OModDelete; OSave [it_cover]] (tagged ++ id3v1)) = true.
Proof. vm_compute. reflexivity. Qed.
Example C03_ape_wf_samples : ape_wf audio = true /\ ape_wf tagged = true /\ ape_wf (ape_build audio 1000 false [it_title; it_url] []) = true.
Proof. repeat split; vm_compute; reflexivity. Qed.
