(* C01 at container level (family iff: AIFF / WAVE / DSDIFF) -- the tag bytes handed to the chunk writer are what
   an independent reading of the container gives back.  The ID3v2 tag itself is opaque here (frame codecs: C12;
   syncsafe sizes: C14); iff_load is the strict reader's "payload of the first ID3 chunk". *)
From Coq Require Import ZArith List Bool Lia.
Import ListNotations.
Require Import Base.Py Base.ZList Model.Splice Model.Fam_iff
  Proofs.Fam_iff_codec Proofs.Fam_iff_chunks Proofs.Fam_iff_walk Proofs.Fam_iff_ops Proofs.Fam_iff_props.
Open Scope Z_scope.

Theorem C01_iff_load_after_save : forall fl, fl_ok fl = true -> forall f tag f',
  iff_wf fl f = true -> iff_save fl f tag = Ok f' -> iff_load fl f' = Ok (Some tag).
Proof. exact iff_load_after_save. Qed.
Print Assumptions C01_iff_load_after_save.

(* size-field codec round trip behind it (32-bit BE/LE, 64-bit BE), range explicit *)
Theorem C01_iff_size_roundtrip : forall fl v, fits fl v = true -> dec fl (enc fl v) = v.
Proof. exact dec_enc. Qed.
Print Assumptions C01_iff_size_roundtrip.

Definition ex_tag (n : Z) : list Z := [73; 68; 51; 4; 0; 0; 0; 0; 0; n] ++ zeros n.
Definition ex_wave : list Z := iff_build wave s_WAVE [([102; 109; 116; 32], [1]); ([100; 97; 116; 97], [7; 7; 7])].
Example C01_iff_ex : match iff_save wave ex_wave (ex_tag 3) with Ok f' => iff_load wave f' = Ok (Some (ex_tag 3)) | Raise _ => False end.
Proof. vm_compute. reflexivity. Qed.
(* WAVE writes the lower-case id, and accepts an existing upper-case one *)
Example C01_iff_ex_wave_ids :
  iff_save wave ex_wave [1] = Ok (iff_build wave s_WAVE [([102; 109; 116; 32], [1]); ([100; 97; 116; 97], [7; 7; 7]); (s_id3 ++ [32], [1])]) /\
  iff_save wave (iff_build wave s_WAVE [(s_ID3 ++ [32], [5; 5])]) [1] = Ok (iff_build wave s_WAVE [(s_ID3 ++ [32], [1])]).
Proof. vm_compute. split; reflexivity. Qed.
