(* C02 (ASF): saving or deleting tags never alters foreign data.
   asf_parse segments a file into the header's object tree and the data section (everything after the header).
   `foreign` lists, in file order, what a tag edit must keep: every top-level object that is neither one of the four
   tag objects (ContentDescription, ExtendedContentDescription, Metadata, MetadataLibrary) nor Padding -- GUID and
   raw payload --, and for the header extension object its fixed part (reserved GUID + 06 00) and those of its
   children that are neither tag objects nor padding.  Quantified over all files the strict walker accepts, all
   tag lists, all padding callbacks. *)
From Coq Require Import ZArith List Bool Lia.
Import ListNotations.
Require Import Base.Py Base.ZList Model.Splice Model.Fam_asf Proofs.Splice_lemmas Proofs.Fam_asf_codec Proofs.Fam_asf_save
  Proofs.Fam_asf_agree Proofs.Fam_asf_hist.
Open Scope Z_scope.

(* mutagen's lenient reader and the strict walker agree on every file the walker accepts *)
Theorem C02_asf_readers_agree : forall f s objs ts, asf_parse f = Ok s -> asf_open f = Ok (objs, ts) ->
  objs = sobjs s /\ sdata s = zdrop (header_size f) f.
Proof. exact open_parse_agree. Qed.
Print Assumptions C02_asf_readers_agree.

(* save: foreign elements byte-identical and in order, data section byte-identical.  The explicit exception:
   a file without a header extension object gets one (appended; it holds the Metadata objects) *)
Theorem C02_asf_save : forall f s t cb f', asf_wf f = true -> asf_parse f = Ok s -> asf_save f t cb = Ok f' ->
  exists s', asf_parse f' = Ok s' /\
    foreign (sobjs s') = foreign (sobjs s) ++ (if existsb is_ext (sobjs s) then [] else [FExt HEXT_FIXED []]) /\
    sdata s' = sdata s.
Proof. exact asf_save_foreign_wf. Qed.
Print Assumptions C02_asf_save.

Theorem C02_asf_delete : forall f s f', asf_wf f = true -> asf_parse f = Ok s -> asf_delete f = Ok f' ->
  exists s', asf_parse f' = Ok s' /\
    foreign (sobjs s') = foreign (sobjs s) ++ (if existsb is_ext (sobjs s) then [] else [FExt HEXT_FIXED []]) /\
    sdata s' = sdata s.
Proof. intros f s f'. apply asf_save_foreign_wf. Qed.
Print Assumptions C02_asf_delete.

(* without the hypothesis on the reserved fields (asf_wf): everything is kept except that the fixed part of a header
   extension object is normalised to its specified value (mutagen writes the constant) *)
Theorem C02_asf_save_any : forall f s t cb f', asf_parse f = Ok s -> asf_save f t cb = Ok f' ->
  exists s', asf_parse f' = Ok s' /\
    foreign (sobjs s') = map fix_elem (foreign (sobjs s)) ++ (if existsb is_ext (sobjs s) then [] else [FExt HEXT_FIXED []]) /\
    sdata s' = sdata s.
Proof. exact asf_save_foreign. Qed.
Print Assumptions C02_asf_save_any.

(* the file is a splice at offset 0: the data section is the suffix of the new file behind the new header *)
Theorem C02_asf_data_suffix : forall f t cb f', asf_save f t cb = Ok f' ->
  exists s', asf_parse f' = Ok s' /\ sdata s' = zdrop (header_size f) f /\ zdrop (header_size f') f' = zdrop (header_size f) f.
Proof. exact asf_save_data_suffix. Qed.
Print Assumptions C02_asf_data_suffix.

(* through any history of a well-formed file with a header extension object *)
Theorem C02_asf_history : forall ops f, asf_wf f = true -> has_ext f = true ->
  foreign_of (fold_left step ops f) = foreign_of f.
Proof. intros ops f H1 H2. apply (history_keeps ops f H1 H2). Qed.
Print Assumptions C02_asf_history.

(* ---- examples; the hypothesis asf_wf of C02_asf_save is needed: *)
Definition tiny : list Z :=
  asf_build [OLeaf G_FILE (zeros 64); OExt HEXT_FIXED [(G_PAD, [0; 0; 0]); (repeat 9 16, [5])]; OLeaf G_PAD [0; 0]] [7; 8; 9].
Example tiny_foreign : foreign_of tiny = Some ([FTop (G_FILE, zeros 64); FExt HEXT_FIXED [(repeat 9 16, [5])]], [7; 8; 9]).
Proof. vm_compute. reflexivity. Qed.
Example tiny_saved_foreign : exists f', asf_save tiny [mkA N_TITLE (VText [72; 105]) None None] cb_default = Ok f' /\
  foreign_of f' = foreign_of tiny.
Proof. eexists. split; [vm_compute; reflexivity|vm_compute; reflexivity]. Qed.
Definition odd_fixed : list Z := asf_build [OExt (repeat 1 18) []] [7].
Theorem C02_asf_fixed_part_refuted : exists f s f' s', asf_parse f = Ok s /\ asf_delete f = Ok f' /\ asf_parse f' = Ok s' /\
  foreign (sobjs s') <> foreign (sobjs s).
Proof.
  exists odd_fixed. vm_compute. do 3 eexists. repeat split; try reflexivity. discriminate.
Qed.
