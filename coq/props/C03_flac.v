(* C03 (FLAC family) -- Files stay structurally valid through any edit history.
   flac_wf: optional ID3v2 prefix with syncsafe size; fLaC; the strict walker accepts (sizes = extents, a block carries
   the last-block flag, which the walker takes as the end: "exactly the final block"); STREAMINFO (34 bytes, sample
   rate not 0) is the first block and the only one of its type; at most one SEEKTABLE / CUESHEET; comment and picture
   blocks occupy exactly their declared size; padding is zero bytes; audio starts with a frame sync code. *)
From Coq Require Import ZArith List Bool Lia.
Import ListNotations.
Require Import Base.Py Base.ZList Gen.Gen_tags Model.Splice Model.Fam_flac
  Proofs.Fam_flac_codec Proofs.Fam_flac_walk Proofs.Fam_flac_save Proofs.Fam_flac_thms Proofs.Fam_flac_final Proofs.Fam_flac_session Proofs.Fam_flac_extra Proofs.Fam_flac_examples.
Open Scope Z_scope.

Theorem C03_flac_wf_parses : forall f, flac_wf f = true -> exists s, flac_parse f = Ok s /\ struct_wf s = true.
Proof. exact wf_parse. Qed.
Print Assumptions C03_flac_wf_parses.

(* what the bytes of a well-formed file look like: every size field equals the payload extent, the last-block flag
   sits on the final block and on no other, STREAMINFO (34 bytes) comes first *)
Theorem C03_flac_wf_layout : forall f, flac_wf f = true ->
  exists s front final, flac_parse f = Ok s /\ fblocks s = front ++ [final] /\
    f = fprefix s ++ MAGIC ++ flat_map (fun b => render_block b false) front ++ render_block final true ++ faudio s /\
    exists b0 r, fblocks s = b0 :: r /\ bcode b0 = 0 /\ zlen (bdata b0) = 34.
Proof. exact final_wf_layout. Qed.
Print Assumptions C03_flac_wf_layout.

Theorem C03_flac_save : forall f t o f', flac_wf f = true -> o_deleteid3 o = false -> flac_save f t o = Ok f' ->
  flac_wf f' = true.
Proof. exact save_wf. Qed.
Print Assumptions C03_flac_save.

Theorem C03_flac_delete : forall f f', flac_wf f = true -> flac_delete f = Ok f' -> flac_wf f' = true.
Proof. exact delete_wf. Qed.
Print Assumptions C03_flac_delete.

(* lifted to every finite operation sequence (operations that raise leave the file unchanged) *)
Theorem C03_flac_history : forall ops f, flac_wf f = true -> flac_wf (fold_left flac_step ops f) = true.
Proof. exact history_wf. Qed.
Print Assumptions C03_flac_history.

(* ... and the STREAMINFO block (first block) is the same block before and after: same stream information *)
Theorem C03_flac_history_streaminfo : forall ops f, flac_wf f = true ->
  exists s s', flac_parse f = Ok s /\ flac_parse (fold_left flac_step ops f) = Ok s' /\
    fprefix s' = fprefix s /\ foreign_blocks (fblocks s') = foreign_blocks (fblocks s) /\ faudio s' = faudio s /\
    hd_error (fblocks s') = hd_error (fblocks s).
Proof. exact final_history_preserves. Qed.
Print Assumptions C03_flac_history_streaminfo.

(* a well-formed file loads in mutagen's reader (mirror) with exactly the blocks the strict walker finds *)
Theorem C03_flac_loads : forall f s, flac_parse f = Ok s -> struct_wf s = true -> flac_open f = Ok (fblocks s).
Proof. intros f s Hp Hw. exact (wf_open f s (struct_facts f s Hp Hw)). Qed.
Print Assumptions C03_flac_loads.

(* the same for histories through a live object (reload, add_tags, save with the object's tags or without tags, delete
   through the object, module-level delete), whose block list may be stale *)
Theorem C03_flac_session : forall ops f, flac_wf f = true ->
  flac_wf (ss_file (fold_left sess_step ops (mkSess f None))) = true /\
  preserved f (ss_file (fold_left sess_step ops (mkSess f None))).
Proof. exact session_wf. Qed.
Print Assumptions C03_flac_session.
(* one step, with the invariant that carries it: the object agrees with the file on all foreign blocks *)
Theorem C03_flac_session_step : forall s o, sess_inv s ->
  sess_inv (sess_step s o) /\ preserved (ss_file s) (ss_file (sess_step s o)).
Proof. exact sess_step_inv. Qed.
Print Assumptions C03_flac_session_step.

(* with deleteid3=True as well: the ID3v2 prefix goes, an ID3v1 trailer is cut off the audio only, the file stays
   well-formed and the tags read back *)
Theorem C03_flac_save_deleteid3 : forall f t o f', flac_wf f = true -> o_deleteid3 o = true -> flac_save f t o = Ok f' ->
  flac_wf f' = true /\ flac_load f' = Ok (Some t).
Proof. exact final_deleteid3_wf. Qed.
Print Assumptions C03_flac_save_deleteid3.

(* regression for the defect fixed in /repo (the ID3v1 test of deleteid3 used to look into the metadata blocks of a file
   with fewer than 128 bytes of audio: STREAMINFO + 10 audio bytes, title = "TAG" + 111 bytes, padding 0 was cut from 192
   to 64 bytes).  The former witness of C03_flac_deleteid3_refuted now stays whole. *)
Example C03_flac_ex_deleteid3_short_regression :
  flac_wf ex_short = true /\ vc_valid ex_tagvalue = true /\
  flac_save ex_short ex_tagvalue (mkOpts (Some (cb_const 0)) true) = flac_save ex_short ex_tagvalue (mkOpts (Some (cb_const 0)) false) /\
  zlen (get [] (flac_save ex_short ex_tagvalue (mkOpts (Some (cb_const 0)) true))) = 192 /\
  flac_wf (get [] (flac_save ex_short ex_tagvalue (mkOpts (Some (cb_const 0)) true))) = true /\
  flac_load (get [] (flac_save ex_short ex_tagvalue (mkOpts (Some (cb_const 0)) true))) = Ok (Some ex_tagvalue).
Proof. exact ex_deleteid3_short_regression. Qed.

Example C03_flac_ex_wf : flac_wf ex_file = true /\ flac_wf ex_notags = true.
Proof. exact ex_wf. Qed.
Example C03_flac_ex_history : flac_wf (fold_left flac_step
  [OpSave ex_new None; OpDelete; OpSave ex_old (Some (cb_const 0)); OpSave ex_new (Some cb_keep); OpDelete; OpDelete] ex_file) = true.
Proof. exact ex_history. Qed.
