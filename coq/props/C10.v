(* C10 -- MP4 media offsets follow the data when tags change size.
   Glue only: statements (proved in proofs/Fam_mp4_*.v) + Print Assumptions + Examples (hypotheses satisfiable,
   regression witnesses of the three defects found while building this check, now fixed in /repo).
   Model: Model.Fam_mp4 (mirror of mutagen/mp4/_atom.py and MP4Tags.save ...); tie: harness/props/c10.py. *)
From Coq Require Import ZArith List Bool Lia.
Import ListNotations.
Require Import Base.Py Base.ZList Model.Splice Model.Fam_mp4.
Require Import Proofs.Fam_mp4_tree Proofs.Fam_mp4_parse Proofs.Fam_mp4_steps Proofs.Fam_mp4_agree Proofs.Fam_mp4_surgery
  Proofs.Fam_mp4_existing Proofs.Fam_mp4_main Proofs.Fam_mp4_new Proofs.Fam_mp4_newwf Proofs.Fam_mp4_c10.
Open Scope Z_scope.

(* A strict description of a file (atoms tile their parents at every level; 32-bit / 64-bit / to-EOF size forms; nesting
   within the 65 levels mutagen's reader accepts) is exactly the tree mutagen's lenient reader builds, for every file:
   the strict rules determine what MP4Tags.save operates on. *)
Theorem C10_strict_tree_is_mutagens_tree f ks :
  mp4_forest_ok f true ks 0 (zlen f) = true -> mp4_forest_height ks <= MP4_MAXDEPTH -> mp4_atoms f = Ok ks.
Proof. exact (parse_complete f ks). Qed.
Print Assumptions C10_strict_tree_is_mutagens_tree.

(* Every well-formed atom tree (any nesting, any number of trak / moof / free atoms, any mix of size forms) with an existing
   moov.udta.meta.ilst, every rendered ilst that is itself a well-formed atom, every padding callback:
   after mp4_save the atoms again tile their parents at every level -- i.e. every ancestor's size field (moov, udta, meta;
   32-bit, 64-bit, or the untouched to-EOF form) equals the extent of its children -- and that tree is what the next load reads. *)
Theorem C10_parents_consistent f ilst_data cb f' atoms path it :
  mp4_wf f = true -> mp4_atoms f = Ok atoms -> mp4_path atoms ILST_PATH = Some path -> mp4_tags_clean atoms = true ->
  ilst_wellformed ilst_data it -> mp4_height it <= 62 -> mp4_save f ilst_data cb = Ok f' ->
  exists atoms', mp4_atoms f' = Ok atoms' /\ mp4_forest_ok f' true atoms' 0 (zlen f') = true /\
                 mp4_forest_height atoms' <= MP4_MAXDEPTH.
Proof. exact (c10_parents_consistent f ilst_data cb f' atoms path it). Qed.
Print Assumptions C10_parents_consistent.

(* mp4_wf is preserved in full (tiling at every level, offset tables well-formed and inside the file), for files in which
   every stco/co64/tfhd is among those the save visits (stco/co64 below the first moov, tfhd below a top-level moof) and a new
   ilst without items named like a table: the hypotheses hold again for the next save. *)
Theorem C10_wellformed_preserved f ilst_data cb f' atoms path it :
  mp4_wf f = true -> mp4_atoms f = Ok atoms -> mp4_path atoms ILST_PATH = Some path -> mp4_tags_clean atoms = true ->
  covered atoms -> ilst_wellformed ilst_data it -> ilst_clean it = true -> mp4_height it <= 62 ->
  mp4_save f ilst_data cb = Ok f' -> mp4_wf f' = true.
Proof. exact (c10_wf_preserved f ilst_data cb f' atoms path it). Qed.
Print Assumptions C10_wellformed_preserved.

(* With (off, old) the replaced region (ilst + the one adjacent free atom) and delta the size change:
   - every stco / co64 table under moov keeps its count and every entry o becomes o + delta iff o > off (mp4_shift): entries at
     or beyond the end of the region move with the data, entries not past the region start stay; an entry pointing INTO the
     region (off < o < off + old: it addresses tag bytes, not media) is moved like the ones behind it -- stated, not required;
   - every tfhd base-data-offset of EVERY top-level moof likewise;
   - every leaf atom outside the region that is not such a table (mdat, ftyp, free, stsd ...) keeps all its bytes, at its old
     position if it lies before the region and delta further if it lies behind it;
   - the region holds the new ilst followed by the free atom. *)
Theorem C10_offsets_follow_data f ilst_data cb f' atoms path :
  mp4_wf f = true -> mp4_atoms f = Ok atoms -> mp4_path atoms ILST_PATH = Some path -> mp4_tags_clean atoms = true ->
  mp4_save f ilst_data cb = Ok f' ->
  exists off old, mp4_region_of path = Some (off, old) /\ 0 <= off /\ 8 <= old /\ off + old <= zlen f /\
    let delta := zlen f' - zlen f in
    let np := mp4_newpos off old delta in
    (forall T, In T (mp4_stco_list atoms) ->
       tab_entries 4 f' (np (ma_off T)) = map (mp4_shift off delta) (tab_entries 4 f (ma_off T))) /\
    (forall T, In T (mp4_co64_list atoms) ->
       tab_entries 8 f' (np (ma_off T)) = map (mp4_shift off delta) (tab_entries 8 f (ma_off T))) /\
    (forall T, In T (mp4_tfhd_list atoms) -> tfhd_flag f (ma_off T) = true ->
       tfhd_flag f' (np (ma_off T)) = true /\
       tfhd_base f' (np (ma_off T)) = mp4_shift off delta (tfhd_base f (ma_off T))) /\
    (forall L, In L (mp4_flat atoms) -> ma_kids L = None -> is_table_name L = false ->
       (ma_off L + ma_len L <= off \/ off + old <= ma_off L) ->
       agree f (ma_off L) f' (np (ma_off L)) (ma_len L)) /\
    agree (new_region cb f off old ilst_data) 0 f' off (zlen (new_region cb f off old ilst_data)) /\
    delta = zlen (new_region cb f off old ilst_data) - old.
Proof. exact (c10_offsets_follow_data f ilst_data cb f' atoms path). Qed.
Print Assumptions C10_offsets_follow_data.

(* Two readings of C10_offsets_follow_data spelled out (both were the subject of breaking changes the quick run had missed):
   the tfhd base offset is shifted whenever bit 0 of tf_flags is set, whatever the other flag bits are ... *)
Theorem C10_tfhd_any_flags f ilst_data cb f' atoms path :
  mp4_wf f = true -> mp4_atoms f = Ok atoms -> mp4_path atoms ILST_PATH = Some path -> mp4_tags_clean atoms = true ->
  mp4_save f ilst_data cb = Ok f' ->
  exists off old, mp4_region_of path = Some (off, old) /\
    let delta := zlen f' - zlen f in
    forall T flags, In T (mp4_tfhd_list atoms) ->
      be_decode (mp4_rd f (ma_off T + 9) 3) = flags -> Z.testbit flags 0 = true ->
      tfhd_base f' (mp4_newpos off old delta (ma_off T)) = mp4_shift off delta (tfhd_base f (ma_off T)).
Proof. exact (c10_tfhd_any_flags f ilst_data cb f' atoms path). Qed.
Print Assumptions C10_tfhd_any_flags.

(* ... and the entries of a chunk-offset table are shifted one by one: entry i moves iff entry i itself lies behind the region
   start, independently of the first entry (media data on both sides of moov, a table whose entries straddle moov) *)
Theorem C10_entries_individually f ilst_data cb f' atoms path :
  mp4_wf f = true -> mp4_atoms f = Ok atoms -> mp4_path atoms ILST_PATH = Some path -> mp4_tags_clean atoms = true ->
  mp4_save f ilst_data cb = Ok f' ->
  exists off old, mp4_region_of path = Some (off, old) /\
    let delta := zlen f' - zlen f in
    let np := mp4_newpos off old delta in
    (forall T i, In T (mp4_stco_list atoms) -> 0 <= i < zlen (tab_entries 4 f (ma_off T)) ->
       zlen (tab_entries 4 f' (np (ma_off T))) = zlen (tab_entries 4 f (ma_off T)) /\
       znth i (tab_entries 4 f' (np (ma_off T))) = mp4_shift off delta (znth i (tab_entries 4 f (ma_off T)))) /\
    (forall T i, In T (mp4_co64_list atoms) -> 0 <= i < zlen (tab_entries 8 f (ma_off T)) ->
       zlen (tab_entries 8 f' (np (ma_off T))) = zlen (tab_entries 8 f (ma_off T)) /\
       znth i (tab_entries 8 f' (np (ma_off T))) = mp4_shift off delta (znth i (tab_entries 8 f (ma_off T)))).
Proof. exact (c10_entries_individually f ilst_data cb f' atoms path). Qed.
Print Assumptions C10_entries_individually.

(* The file has no moov.udta.meta.ilst yet: [udta]meta(hdlr, ilst, free) is inserted at the data start `off` of moov.udta, or of
   moov when there is no udta.  Same statement with an empty region; the ancestors (moov [, udta]) carry their old length + delta.
   __save_new calls __update_offsets with offset - 1, so every entry / base offset o >= off moves (mp4_shift (off - 1)): an atom
   that starts exactly at the insertion point -- the first child of the container, or, when the container is empty and ends
   moov, the moof directly behind it that a tfhd base-data-offset addresses -- has moved with everything behind the new atom.
   No precondition about what starts at the insertion point is needed. *)
Theorem C10_offsets_follow_data_new f ilst_data cb f' atoms path last rest :
  mp4_wf f = true -> mp4_atoms f = Ok atoms -> mp4_path atoms ILST_PATH = None ->
  mp4_insert_path atoms = Some path -> rev path = last :: rest ->
  mp4_save f ilst_data cb = Ok f' ->
  let off := ma_off last + ma_hdr last in
  let data := mp4_new_insert cb f last ilst_data in
  let delta := zlen f' - zlen f in
  let np := mp4_newpos off 0 delta in
  0 <= off <= zlen f /\ delta = zlen data /\
  (forall T, In T (mp4_stco_list atoms) ->
     tab_entries 4 f' (np (ma_off T)) = map (mp4_shift (off - 1) delta) (tab_entries 4 f (ma_off T))) /\
  (forall T, In T (mp4_co64_list atoms) ->
     tab_entries 8 f' (np (ma_off T)) = map (mp4_shift (off - 1) delta) (tab_entries 8 f (ma_off T))) /\
  (forall T, In T (mp4_tfhd_list atoms) -> tfhd_flag f (ma_off T) = true ->
     tfhd_flag f' (np (ma_off T)) = true /\
     tfhd_base f' (np (ma_off T)) = mp4_shift (off - 1) delta (tfhd_base f (ma_off T))) /\
  (forall L, In L (mp4_flat atoms) -> ma_kids L = None -> is_table_name L = false ->
     (ma_off L + ma_len L <= off \/ off <= ma_off L) ->
     agree f (ma_off L) f' (np (ma_off L)) (ma_len L)) /\
  agree data 0 f' off (zlen data) /\
  (forall A, In A path -> anc_updated f delta f' A).
Proof. exact (c10_offsets_follow_data_new f ilst_data cb f' atoms path last rest). Qed.
Print Assumptions C10_offsets_follow_data_new.

(* ... and the result of that insertion is again tiled at every level: the new [udta] meta(hdlr, ilst, free) subtree is
   well-formed, moov (and udta) carry their old length + delta, everything behind the insertion point is shifted. *)
Theorem C10_parents_consistent_new f ilst_data cb f' atoms path last rest it :
  mp4_wf f = true -> mp4_atoms f = Ok atoms -> mp4_path atoms ILST_PATH = None ->
  mp4_insert_path atoms = Some path -> rev path = last :: rest ->
  ilst_wellformed ilst_data it -> mp4_height it <= 62 -> zlen ilst_data < 4611686018427387904 ->
  mp4_save f ilst_data cb = Ok f' ->
  exists atoms', mp4_atoms f' = Ok atoms' /\ mp4_forest_ok f' true atoms' 0 (zlen f') = true /\
                 mp4_forest_height atoms' <= MP4_MAXDEPTH.
Proof. exact (c10_parents_consistent_new f ilst_data cb f' atoms path last rest it). Qed.
Print Assumptions C10_parents_consistent_new.

(* The chunk an offset addresses: same bytes before and after, and the rewritten entry is exactly where they now are. *)
Theorem C10_chunk_bytes f ilst_data cb f' atoms path :
  mp4_wf f = true -> mp4_atoms f = Ok atoms -> mp4_path atoms ILST_PATH = Some path -> mp4_tags_clean atoms = true ->
  mp4_save f ilst_data cb = Ok f' ->
  exists off old, mp4_region_of path = Some (off, old) /\
    let delta := zlen f' - zlen f in
    forall L o n, In L (mp4_flat atoms) -> ma_kids L = None -> is_table_name L = false ->
      ma_off L <= o -> 0 <= n -> o + n <= ma_off L + ma_len L ->
      (off + old <= ma_off L ->
         mp4_shift off delta o = o + delta /\ mp4_rd f' (o + delta) n = mp4_rd f o n) /\
      (ma_off L + ma_len L <= off ->
         mp4_shift off delta o = o /\ mp4_rd f' o n = mp4_rd f o n).
Proof. exact (c10_chunk_bytes f ilst_data cb f' atoms path). Qed.
Print Assumptions C10_chunk_bytes.

(* ------------------------------------------------------------------ Examples: the hypotheses are satisfiable *)
Definition ex_ilst_small : list Z := mp4_render N_ilst (mp4_render [169;110;97;109] (mp4_render [100;97;116;97] ([0;0;0;1;0;0;0;0] ++ [104;105]))).
Definition ex_ilst_big : list Z := mp4_render N_ilst (mp4_render [169;110;97;109] (mp4_render [100;97;116;97] ([0;0;0;1;0;0;0;0] ++ mp4_pattern 90 1))).
Definition ex_layout (moov_first : bool) (meta : list mp4_mitem) (moofs : list mp4_moof) (big : Z) (size0 : bool) : mp4_layout :=
  mkLayout moov_first 2 false (-1) meta ex_ilst_small
    [mkTrak false true [0; 10; 31]; mkTrak true true [5; 32]] moofs (mp4_pattern 32 1) big 0 size0 [].
Definition ex_file : list Z := mp4_build (ex_layout true [MHdlr; MIlst; MFree 16] [mkMoof 1 3 0; mkMoof 131073 7 2] 4 false).

Example C10_ex_wellformed : mp4_wf ex_file = true.
Proof. vm_compute. reflexivity. Qed.
Definition ex_check : bool :=
  match mp4_atoms ex_file with
  | Ok atoms =>
    match mp4_path atoms ILST_PATH with
    | Some _ =>
      mp4_tags_clean atoms && covered_b atoms && mp4_forest_ok ex_file true atoms 0 (zlen ex_file) &&
      match mp4_atoms ex_ilst_big with
      | Ok [it] => mp4_forest_ok ex_ilst_big false [it] 0 (zlen ex_ilst_big) && ilst_clean it && (mp4_height it <=? 62)
      | _ => false end &&
      match mp4_save ex_file ex_ilst_big (mp4_cb_const 9) with Ok f' => mp4_wf f' | _ => false end
    | None => false end
  | _ => false end.
Example C10_ex_hypotheses :
  exists atoms path it f', mp4_atoms ex_file = Ok atoms /\ mp4_path atoms ILST_PATH = Some path /\ mp4_tags_clean atoms = true /\
    covered atoms /\ ilst_wellformed ex_ilst_big it /\ ilst_clean it = true /\ mp4_height it <= 62 /\
    mp4_save ex_file ex_ilst_big (mp4_cb_const 9) = Ok f' /\ mp4_wf f' = true.
Proof.
  assert (H : ex_check = true) by (vm_compute; reflexivity). unfold ex_check in H.
  destruct (mp4_atoms ex_file) as [atoms|] eqn:Ea; [|discriminate].
  destruct (mp4_path atoms ILST_PATH) as [path|] eqn:Ep; [|discriminate].
  apply andb_true_iff in H. destruct H as [H H3]. apply andb_true_iff in H. destruct H as [H H2].
  apply andb_true_iff in H. destruct H as [H H1']. apply andb_true_iff in H. destruct H as [H1 H1c].
  destruct (mp4_atoms ex_ilst_big) as [[|it [|]]|]; try match goal with X : false = true |- _ => discriminate X end.
  apply andb_true_iff in H2. destruct H2 as [H2 H2h]. apply andb_true_iff in H2. destruct H2 as [H2 H2c]. apply Z.leb_le in H2h.
  destruct (mp4_save ex_file ex_ilst_big (mp4_cb_const 9)) as [f'|] eqn:Es; [|discriminate].
  exists atoms, path, it, f'. unfold ilst_wellformed. pose proof (covered_of_b ex_file atoms H1' H1c). tauto.
Qed.

(* all recorded offsets before and after a growing and a shrinking save: every one moved by exactly the size change
   (the layout has moov before mdat, so all of them lie behind the region) *)
Definition ex_moved (f : list Z) (ilst : list Z) (pad : Z) : bool :=
  match mp4_offsets f, mp4_save f ilst (mp4_cb_const pad) with
  | Ok es, Ok f' =>
    match mp4_offsets f' with
    | Ok es' => list_eqb (map (fun e => snd e + (zlen f' - zlen f)) es) (map (fun e => snd e) es') && negb (zlen f' =? zlen f)
    | _ => false end
  | _, _ => false
  end.
Example C10_ex_offsets_grow : ex_moved ex_file ex_ilst_big 9 = true.
Proof. vm_compute. reflexivity. Qed.
Example C10_ex_offsets_shrink : ex_moved ex_file mp4_empty_ilst 0 = true.
Proof. vm_compute. reflexivity. Qed.


(* a file without udta / without meta / without ilst: the new atoms are created, every offset follows, the result is well-formed *)
Definition ex_new (udta : Z) (meta : list mp4_mitem) (moov_first : bool) : list Z :=
  mp4_build (mkLayout moov_first udta false (-1) meta ex_ilst_small
    [mkTrak false true [0; 10; 31]; mkTrak true true [5; 32]] [mkMoof 1 3 0; mkMoof 131073 7 2] (mp4_pattern 32 1) 0 0 false []).
Definition ex_new_check (f : list Z) : bool :=
  mp4_wf f &&
  match mp4_atoms f with
  | Ok atoms => match mp4_path atoms ILST_PATH with None => true | Some _ => false end
  | _ => false end &&
  match mp4_save f ex_ilst_big (mp4_cb_const 7) with Ok f' => mp4_wf f' && negb (zlen f' =? zlen f) | _ => false end.
Example C10_ex_new_no_udta : ex_new_check (ex_new 0 [] true) = true /\ ex_new_check (ex_new 0 [] false) = true.
Proof. vm_compute. split; reflexivity. Qed.
Example C10_ex_new_no_meta : ex_new_check (ex_new 1 [] true) = true /\ ex_new_check (ex_new 2 [MHdlr] false) = true.
Proof. vm_compute. split; reflexivity. Qed.
Example C10_ex_new_offsets : ex_moved (ex_new 0 [] true) ex_ilst_big 9 = true /\ ex_moved (ex_new 2 [MHdlr; MFree 8] true) ex_ilst_big 0 = true.
Proof. vm_compute. split; reflexivity. Qed.

(* media data on both sides of moov (ftyp, mdat, moov, mdat) and tables whose entries straddle moov; tfhd atoms with
   tf_flags 0x000001, 0x020001, 0x000011, 0x010039 and 0x020000 (no base offset): every entry behind the region moves by the
   size change, every entry in front of it stays, each one on its own *)
Definition ex_straddle : list Z :=
  mp4_build (mkLayout false 2 false (-1) [MHdlr; MIlst; MFree 8] ex_ilst_small
    [mkTrak false true [0; 500; 5; 510]; mkTrak true true [497; 3]]
    [mkMoof 1 3 0; mkMoof 131073 505 2; mkMoof 17 499 0; mkMoof 65593 9 3; mkMoof 131072 0 0]
    (mp4_pattern 32 1) 0 0 false (mp4_pattern 40 7)).
Definition ex_follow (f : list Z) (ilst : list Z) (pad : Z) : bool :=
  match mp4_offsets f, mp4_atoms f, mp4_save f ilst (mp4_cb_const pad) with
  | Ok es, Ok atoms, Ok f' =>
    match mp4_path atoms ILST_PATH with
    | Some path =>
      match mp4_region_of path, mp4_offsets f' with
      | Some (off, _), Ok es' =>
        list_eqb (map (fun e => mp4_shift off (zlen f' - zlen f) (snd e)) es) (map (fun e => snd e) es') &&
        existsb (fun e => snd e <? off) es && existsb (fun e => off <? snd e) es && negb (zlen f' =? zlen f)
      | _, _ => false end
    | None => false end
  | _, _, _ => false
  end.
Example C10_ex_straddle_wellformed : mp4_wf ex_straddle = true.
Proof. vm_compute. reflexivity. Qed.
Example C10_ex_straddle_grow : ex_follow ex_straddle ex_ilst_big 9 = true.
Proof. vm_compute. reflexivity. Qed.
Example C10_ex_straddle_shrink : ex_follow ex_straddle mp4_empty_ilst 0 = true.
Proof. vm_compute. reflexivity. Qed.

(* ------------------------------------------------------------------ regression witnesses (defects fixed in /repo) *)
(* (1) every top-level moof's tfhd is patched, not only the first (C10_ex_offsets_grow has two moof atoms) *)
(* (2) an ancestor whose size field is 0 ("to end of file") is left alone: the result is still well-formed *)
Definition ex_size0 : list Z := mp4_build (ex_layout false [MHdlr; MIlst] [] 0 true).
Example C10_ex_size0_parent :
  mp4_wf ex_size0 = true /\
  match mp4_save ex_size0 ex_ilst_big (mp4_cb_const 5) with Ok f' => mp4_wf f' && negb (zlen f' =? zlen ex_size0) | _ => false end = true.
Proof. vm_compute. split; reflexivity. Qed.
(* (3) a free atom that is not adjacent to ilst (ilst first in meta, free last) is not taken as padding *)
Definition ex_nonadj : list Z := mp4_build (ex_layout true [MIlst; MHdlr; MFree 50] [] 0 false).
Example C10_ex_nonadjacent_free :
  mp4_wf ex_nonadj = true /\
  match mp4_atoms ex_nonadj with
  | Ok atoms => match mp4_path atoms ILST_PATH with
                | Some path => match mp4_region_of path with Some (_, old) => old =? zlen ex_ilst_small | None => false end
                | None => false end
  | _ => false end = true /\
  match mp4_save ex_nonadj ex_ilst_big (mp4_cb_const 5) with Ok f' => mp4_wf f' | _ => false end = true.
Proof. vm_compute. repeat split; reflexivity. Qed.
