(* C10 -- MP4 media offsets follow the data when tags change size.  Glue only: statements + Print Assumptions. *)
From Coq Require Import ZArith List Bool Lia.
Import ListNotations.
Require Import Base.Py Base.ZList Model.Splice Model.Fam_mp4.
Require Import Proofs.Fam_mp4_tree Proofs.Fam_mp4_parse.
Open Scope Z_scope.

(* a strict description of a file (atoms tile their parents at every level, three size forms) is exactly the tree
   mutagen's lenient reader builds: the strict rules determine what MP4Tags.save will operate on *)
Theorem C10_strict_tree_is_mutagens_tree f ks :
  mp4_forest_ok f true ks 0 (zlen f) = true -> mp4_atoms f = Ok ks.
Proof. exact (parse_complete f ks). Qed.
Print Assumptions C10_strict_tree_is_mutagens_tree.
