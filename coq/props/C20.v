(* C20 -- Command-line tools finish the file they are writing when signalled.
   Theorems about Model.Signal (mutagen/_tools/_util.py SignalHandler as a state machine; a tool run is a
   list of events).  Quantified over EVERY program (event list) and EVERY schedule of signals; the tie of
   the event lists to the real tools is harness/props/c20.py (recorded traces with real signals). *)
From Coq Require Import ZArith List Bool Lia.
Import ListNotations.
Require Import Model.Signal Proofs.C20_signal.
Open Scope Z_scope.

(* quantifying over schedules loses nothing: every event list with signals is a schedule woven into its
   own program, and weaving does not change the program *)
Theorem C20_every_run_is_a_schedule : forall l, exists sched, l = sig_weave sched (sig_strip l).
Proof. exact sg_weave_complete. Qed.
Print Assumptions C20_every_run_is_a_schedule.

Theorem C20_schedule_keeps_program : forall sched prog, sig_free prog = true ->
  sig_strip (sig_weave sched prog) = prog.
Proof. exact sg_weave_strip. Qed.
Print Assumptions C20_schedule_keeps_program.

(* The property.  prog: any program whose file operations all lie inside blocks; sched: any schedule that
   delivers at least one signal.  Split the run at its first signal.  Then the program splits as
   done ++ later at a block boundary (done is itself a complete protected program) such that the signalled
   run executes exactly the file operations of done and ends in SystemExit, while the undisturbed run
   executes those and then the operations of later.  Hence a file whose operations all lie in done (the file
   being processed and every earlier one) has had exactly its undisturbed operations, and a file whose
   operations lie in later has had none. *)
Theorem C20_blocked_work_completes : forall prog sched,
  sig_free prog = true -> sig_protected prog = true ->
  sig_has (sig_weave sched prog) = true ->
  exists pre post,
    sig_weave sched prog = pre ++ Sig :: post /\ sig_free pre = true /\
    prog = sig_done pre post ++ sig_later pre post /\
    sig_protected (sig_done pre post) = true /\
    sig_exec (sig_weave sched prog) = (sig_fileops (sig_done pre post), Exit) /\
    sig_exec prog = (sig_fileops (sig_done pre post) ++ sig_fileops (sig_later pre post), Finished) /\
    (forall f, ~ In f (sig_files (sig_fileops (sig_later pre post))) ->
       sig_on f (fst (sig_exec (sig_weave sched prog))) = sig_on f (fst (sig_exec prog))) /\
    (forall f, ~ In f (sig_files (sig_fileops (sig_done pre post))) ->
       sig_on f (fst (sig_exec (sig_weave sched prog))) = []).
Proof.
  intros prog sched Hf Hp Hs.
  destruct (sg_first_sig_split _ Hs) as (pre & post & E & Fpre).
  exists pre, post. split; [exact E|]. split; [exact Fpre|].
  assert (P : prog = pre ++ sig_strip post).
  { rewrite <- (sg_weave_strip sched prog Hf), E, sg_strip_app. cbn [sig_strip filter sg_is_sig negb].
    fold (sig_strip post). rewrite (sg_strip_of_free pre Fpre). reflexivity. }
  rewrite P in Hp. destruct (sg_first_signal pre post Fpre Hp) as (A & B & C & D).
  rewrite E, P. split; [exact A|]. split; [exact D|]. split; [exact B|]. split; [exact C|].
  rewrite B, C. cbn [fst]. split.
  - intros f H. apply sg_file_whole. exact H.
  - intros f H. apply sg_on_absent. exact H.
Qed.
Print Assumptions C20_blocked_work_completes.

(* the same, stated directly on a run split at its first signal (no existentials) *)
Theorem C20_first_signal : forall pre post,
  sig_free pre = true -> sig_protected (pre ++ sig_strip post) = true ->
  pre ++ sig_strip post = sig_done pre post ++ sig_later pre post /\
  sig_exec (pre ++ Sig :: post) = (sig_fileops (sig_done pre post), Exit) /\
  sig_exec (pre ++ sig_strip post) = (sig_fileops (sig_done pre post) ++ sig_fileops (sig_later pre post), Finished) /\
  sig_protected (sig_done pre post) = true.
Proof. exact sg_first_signal. Qed.
Print Assumptions C20_first_signal.

(* where the cut is: outside a block, at the signal; inside a block, after the Leave of that block (the
   block runs to completion: a Leave-free remainder of the body, then its Leave) *)
Theorem C20_cut_point : forall pre post,
  sig_free pre = true -> sig_protected (pre ++ sig_strip post) = true ->
  (sig_flag false pre = false -> sig_done pre post = pre) /\
  (sig_flag false pre = true ->
     exists body, sig_done pre post = pre ++ body ++ [Leave] /\ ~ In Leave body /\
                  sig_strip post = body ++ Leave :: sig_later pre post).
Proof.
  intros pre post Hf Hp. unfold sig_done, sig_later. split; intros Fl; rewrite Fl; [reflexivity|].
  destruct (sg_prot_app _ _ _ Hp) as [Hrest _]. rewrite Fl in Hrest.
  destruct (sg_block_rest_shape _ Hrest) as (body & E & N).
  exists body. split; [rewrite E; reflexivity|]. split; [exact N|].
  rewrite <- (sg_block_split (sig_strip post)) at 1. rewrite E, <- app_assoc. reflexivity.
Qed.
Print Assumptions C20_cut_point.

(* a signal outside any block ends the run right there: whatever prefix l1 ran through (r_out = Finished)
   and ended outside a block, a Sig after it yields SystemExit with exactly l1's file operations;
   nothing of l2 executes, whatever l2 is *)
Theorem C20_unblocked_signal_exits_immediately : forall l1 l2,
  r_out (sig_run l1) = Finished -> nosig (r_state (sig_run l1)) = false ->
  sig_run (l1 ++ Sig :: l2) = mkRes (r_ops (sig_run l1)) Exit (mkSg true false) (r_steps (sig_run l1) + 1).
Proof. intros l1 l2. exact (sg_unblocked_exits l1 l2 sg_init). Qed.
Print Assumptions C20_unblocked_signal_exits_immediately.

(* for a signal-free prefix this reads: flag clear at the signal -> only pre's operations, Exit *)
Theorem C20_unblocked_signal_exits_immediately_prog : forall pre post,
  sig_free pre = true -> sig_noexn pre = true -> sig_flag false pre = false ->
  sig_exec (pre ++ Sig :: post) = (sig_fileops pre, Exit) /\
  r_steps (sig_run (pre ++ Sig :: post)) = Z.of_nat (length pre) + 1.
Proof.
  intros pre post Hf Hx Fl. unfold sig_exec, sig_run.
  pose proof (sg_run_sigfree pre sg_init eq_refl Hf Hx) as R. cbn [nosig sg_init] in R.
  rewrite (sg_unblocked_exits pre post sg_init); rewrite R; cbn [r_ops r_out r_state r_steps nosig]; auto.
Qed.
Print Assumptions C20_unblocked_signal_exits_immediately_prog.

(* without a signal (and without an escaping exception) everything executes and the run finishes *)
Theorem C20_no_signal_no_change : forall prog, sig_free prog = true -> sig_noexn prog = true ->
  sig_exec prog = (sig_fileops prog, Finished) /\ r_steps (sig_run prog) = Z.of_nat (length prog) /\
  interrupted (r_state (sig_run prog)) = false.
Proof.
  intros prog Hf Hx. unfold sig_exec, sig_run.
  rewrite (sg_run_sigfree prog sg_init eq_refl Hf Hx). cbn. auto.
Qed.
Print Assumptions C20_no_signal_no_change.

(* the hypothesis `protected` matters: file operations outside a block are cut midway -- file 1 ends up
   neither with its undisturbed operations nor untouched *)
Theorem C20_unprotected_refuted : exists prog sched,
  sig_free prog = true /\ sig_protected prog = false /\ sig_has (sig_weave sched prog) = true /\
  sig_on 1 (fst (sig_exec (sig_weave sched prog))) <> sig_on 1 (fst (sig_exec prog)) /\
  sig_on 1 (fst (sig_exec (sig_weave sched prog))) <> [] /\
  snd (sig_exec (sig_weave sched prog)) = Exit.
Proof.
  exists [FileOp 1 0; FileOp 1 1; FileOp 1 2], [0%nat; 1%nat].
  vm_compute. repeat split; discriminate.
Qed.
Print Assumptions C20_unprotected_refuted.

(* block() has no try/finally: an exception escaping the body leaves _nosig set *)
Theorem C20_exception_leaves_nosig_set : forall pre body,
  sig_free pre = true -> sig_noexn pre = true -> sig_free body = true -> sig_noexn body = true ->
  ~ In Leave body ->
  r_out (sig_run (pre ++ Enter :: body ++ [Exn])) = Crashed /\
  nosig (r_state (sig_run (pre ++ Enter :: body ++ [Exn]))) = true /\
  r_ops (sig_run (pre ++ Enter :: body ++ [Exn])) = sig_fileops pre ++ sig_fileops body.
Proof. exact sg_exn_leaves_nosig. Qed.
Print Assumptions C20_exception_leaves_nosig_set.

(* non-vacuity: a two-file tool run (parse, then one block per file) *)
Definition C20_two_files : list sg_event :=
  [Other; Enter; FileOp 1 0; FileOp 1 1; FileOp 1 2; Leave; Other; Enter; FileOp 2 0; FileOp 2 1; Leave].

Example C20_ex_protected : sig_free C20_two_files = true /\ sig_protected C20_two_files = true.
Proof. vm_compute. split; reflexivity. Qed.

(* signal before the second operation of file 1: file 1 is finished, file 2 is not started, Exit *)
Example C20_ex_signal_in_block :
  sig_exec (sig_weave [0;0;0;1]%nat C20_two_files) = ([(1,0); (1,1); (1,2)], Exit) /\
  r_steps (sig_run (sig_weave [0;0;0;1]%nat C20_two_files)) = 7.
Proof. vm_compute. split; reflexivity. Qed.

(* several signals, inside and after the block: same result *)
Example C20_ex_many_signals :
  sig_exec (sig_weave [0;0;0;2;1;0;3]%nat C20_two_files) = ([(1,0); (1,1); (1,2)], Exit).
Proof. vm_compute. reflexivity. Qed.

(* signal between the files (outside any block): immediate Exit, file 1 whole, file 2 untouched *)
Example C20_ex_signal_between_files :
  sig_exec (sig_weave [0;0;0;0;0;0;1]%nat C20_two_files) = ([(1,0); (1,1); (1,2)], Exit) /\
  r_steps (sig_run (sig_weave [0;0;0;0;0;0;1]%nat C20_two_files)) = 7.
Proof. vm_compute. split; reflexivity. Qed.

(* signal during option parsing: nothing executed *)
Example C20_ex_signal_at_start : sig_exec (sig_weave [1]%nat C20_two_files) = ([], Exit).
Proof. vm_compute. reflexivity. Qed.

Example C20_ex_no_signal :
  sig_exec C20_two_files = ([(1,0); (1,1); (1,2); (2,0); (2,1)], Finished).
Proof. vm_compute. reflexivity. Qed.

(* block() is not re-entrant: the inner Leave clears the flag, the rest of the outer block is unprotected *)
Example C20_ex_nested_block_unprotected :
  sig_protected [Enter; Enter; FileOp 1 0; Leave; FileOp 1 1; Leave] = false /\
  sig_exec [Enter; Enter; FileOp 1 0; Leave; Sig; FileOp 1 1; Leave] = ([(1,0)], Exit).
Proof. vm_compute. split; reflexivity. Qed.
