(* C02 for the MP4 family: saving never alters atoms outside moov.udta.meta.ilst + its adjacent free atom, nor their order.
   Glue only; proofs in proofs/Fam_mp4_*.v (see props/C10.v). *)
From Coq Require Import ZArith List Bool Lia.
Import ListNotations.
Require Import Base.Py Base.ZList Model.Splice Model.Fam_mp4.
Require Import Proofs.Fam_mp4_tree Proofs.Fam_mp4_steps Proofs.Fam_mp4_agree Proofs.Fam_mp4_surgery Proofs.Fam_mp4_existing
  Proofs.Fam_mp4_main Proofs.Fam_mp4_new Proofs.Fam_mp4_c10 Proofs.Fam_mp4_whole.
Open Scope Z_scope.

(* every leaf atom outside the replaced region that is not a chunk-offset table / tfhd keeps all its bytes (header and payload),
   at its old position before the region and moved by the size change behind it; the tables keep their count and have every
   entry rewritten by mp4_shift (the explicit exception of the property: "modulo size/offset fields") *)
Theorem C02_mp4_foreign_atoms_kept f ilst_data cb f' atoms path :
  mp4_wf f = true -> mp4_atoms f = Ok atoms -> mp4_path atoms ILST_PATH = Some path -> mp4_tags_clean atoms = true ->
  mp4_save f ilst_data cb = Ok f' ->
  exists off old, mp4_region_of path = Some (off, old) /\ 0 <= off /\ 8 <= old /\ off + old <= zlen f /\
    let delta := zlen f' - zlen f in
    let np := mp4_newpos off old delta in
    (forall T, In T (mp4_stco_list atoms) ->
       tab_entries 4 f' (np (ma_off T)) = map (mp4_shift off delta) (tab_entries 4 f (ma_off T))) /\
    (forall T, In T (mp4_co64_list atoms) ->
       tab_entries 8 f' (np (ma_off T)) = map (mp4_shift off delta) (tab_entries 8 f (ma_off T))) /\
    (forall T, In T (mp4_tfhd_list atoms) -> tfhd_flag f (ma_off T) = true ->
       tfhd_flag f' (np (ma_off T)) = true /\
       tfhd_base f' (np (ma_off T)) = mp4_shift off delta (tfhd_base f (ma_off T))) /\
    (forall L, In L (mp4_flat atoms) -> ma_kids L = None -> is_table_name L = false ->
       (ma_off L + ma_len L <= off \/ off + old <= ma_off L) ->
       agree f (ma_off L) f' (np (ma_off L)) (ma_len L)) /\
    agree (new_region cb f off old ilst_data) 0 f' off (zlen (new_region cb f off old ilst_data)) /\
    delta = zlen (new_region cb f off old ilst_data) - old.
Proof. exact (c10_offsets_follow_data f ilst_data cb f' atoms path). Qed.
Print Assumptions C02_mp4_foreign_atoms_kept.

(* the position map of atoms outside the region is monotone: their relative order is kept *)
Theorem C02_mp4_order_kept off old delta a b : 0 <= old -> 0 <= old + delta ->
  (a <= off \/ off + old <= a) -> (b <= off \/ off + old <= b) -> a <= b ->
  mp4_newpos off old delta a <= mp4_newpos off old delta b.
Proof. exact (newpos_monotone off old delta a b). Qed.
Print Assumptions C02_mp4_order_kept.
