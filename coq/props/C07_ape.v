(* C07 (APEv2 family) -- saving unchanged tags is lossless and idempotent, and the bytes written depend only on
   the tag contents, not on the insertion order.  The order statement needs no hypothesis on the file at all. *)
From Coq Require Import ZArith List Bool Lia Permutation.
Import ListNotations.
Require Import Base.Py Base.ZList Model.Sort Model.Fam_ape
  Proofs.SortPerm Proofs.Fam_ape_codec Proofs.Fam_ape_locate Proofs.Fam_ape_save Proofs.Fam_ape_props Proofs.Fam_ape_examples.
Open Scope Z_scope.

(* general: sorting by a total, transitive order that is antisymmetric on the items is permutation invariant *)
Theorem C07_ape_sort_perm_invariant : forall (A : Type) (leb : A -> A -> bool) (P : A -> Prop),
  total leb -> trans leb -> antisym_on leb P ->
  forall l l', Forall P l -> Permutation l l' -> isort leb l = isort leb l'.
Proof. intros A leb P. exact (isort_perm_inv_on leb P). Qed.
Print Assumptions C07_ape_sort_perm_invariant.

(* sort by key with a key that is injective on the items *)
Theorem C07_ape_sort_by_injective_key : forall (A K : Type) (kleb : K -> K -> bool) (key : A -> K) (P : A -> Prop),
  total kleb -> trans kleb -> antisym_on kleb (fun _ => True) ->
  (forall a b, P a -> P b -> key a = key b -> a = b) ->
  forall l l', Forall P l -> Permutation l l' -> isort (by_key kleb key) l = isort (by_key kleb key) l'.
Proof. intros A K kleb key P. exact (isort_key_perm_inv kleb key P). Qed.
Print Assumptions C07_ape_sort_by_injective_key.

(* the order of APEv2.save, Python's (len(b), b): total, transitive, antisymmetric (= the key is injective) *)
Theorem C07_ape_key_order : total len_lex_leb /\ trans len_lex_leb /\ antisym_on len_lex_leb (fun _ => True).
Proof. split; [exact len_lex_total|]. split; [exact len_lex_trans | exact len_lex_antisym]. Qed.
Print Assumptions C07_ape_key_order.

Theorem C07_ape_render_order_independent : forall items items',
  Permutation items items' -> ape_render_tag items = ape_render_tag items'.
Proof. exact render_tag_perm. Qed.
Print Assumptions C07_ape_render_order_independent.

Theorem C07_ape_save_order_independent : forall real f t t', Permutation t t' -> ape_save real f t = ape_save real f t'.
Proof. exact C07_order. Qed.
Print Assumptions C07_ape_save_order_independent.

Theorem C07_ape_idempotent : forall real f t f',
  ape_wf f = true -> forallb item_valid t = true -> ape_save real f t = Ok f' -> ape_save real f' t = Ok f'.
Proof. exact C07_idempotent. Qed.
Print Assumptions C07_ape_idempotent.

Theorem C07_ape_lossless : forall real f its f',
  ape_wf f = true -> ape_load f = Ok (Some its) -> ape_save real f its = Ok f' ->
  ape_load f' = Ok (Some (sort_items its)) /\ Permutation (sort_items its) its.
Proof. exact C07_lossless. Qed.
Print Assumptions C07_ape_lossless.

(* load + save on a file that save wrote gives the same bytes *)
Theorem C07_ape_resave : forall real f0 t f l,
  ape_wf f0 = true -> forallb item_valid t = true -> ape_save real f0 t = Ok f ->
  ape_load f = Ok (Some l) -> ape_save real f l = Ok f.
Proof. exact C07_resave. Qed.
Print Assumptions C07_ape_resave.

Example C07_ape_order_example :
  ape_save false audio [it_title; it_cover; it_url] = ape_save false audio [it_url; it_title; it_cover] /\
  exists f, ape_save false audio [it_cover; it_url; it_title] = Ok f /\ ape_save false f [it_title; it_url; it_cover] = Ok f.
Proof.
  split; [vm_compute; reflexivity|].
  exists (audio ++ ape_render_tag [it_title; it_cover; it_url]). split; vm_compute; reflexivity.
Qed.
