(* C12 -- Every ID3 frame type survives binary encoding.
   Theorems over the hand model Model.Id3Spec / Model.Id3Frame (tied to mutagen.id3 by the correspondence
   harness) and over Gen.Gen_frames, the frame spec table regenerated from the live registry on every run. *)
From Coq Require Import ZArith List Bool Lia.
Import ListNotations.
Require Import Base.Py Base.ZList Model.Id3Spec Model.Id3Frame Gen.Gen_frames
  Proofs.C12_ints Proofs.C12_codec Proofs.C12_specs Proofs.C12_frame.
Open Scope Z_scope.

(* ---- (a) text codecs: decode (encode s) = s for every list of valid code points, astral planes included *)
Theorem C12_utf8_roundtrip : forall s, forallb valid_cp s = true -> utf8_decode (utf8_encode s) = Ok s.
Proof. exact utf8_roundtrip. Qed.
Print Assumptions C12_utf8_roundtrip.

Theorem C12_utf16_roundtrip : forall be s rest, forallb valid_cp s = true -> no_zero s = true ->
  u16_term be (u16_encode be s ++ 0 :: 0 :: rest) = Ok (s, Some rest) /\
  u16_term be (u16_encode be s) = Ok (s, None).
Proof. intros. split; [apply u16_term_encode | apply u16_term_encode_end]; assumption. Qed.
Print Assumptions C12_utf16_roundtrip.

(* no embedded terminator: a zero byte (UTF-8) / zero code unit (UTF-16) only if the text contains U+0000 *)
Theorem C12_no_embedded_terminator : forall s, forallb valid_cp s = true -> no_zero s = true ->
  no_zero (utf8_encode s) = true /\ no_zero (flat_map u16_units s) = true.
Proof. intros. split; [apply utf8_no_zero | apply u16_no_zero_unit]; assumption. Qed.
Print Assumptions C12_no_embedded_terminator.

(* decode_terminated / EncodedTextSpec for the four ID3 encodings *)
Theorem C12_encoded_text_roundtrip : forall ver enc s rest, valid_enc enc = true -> text_ok enc s = true ->
  exists b, enc_text_write enc s = Ok b /\
            enc_text_read ver enc (b ++ rest) = Ok (s, if (ver <? 4) && all_zero rest then [] else rest).
Proof.
  intros. exists (enc_bytes enc s ++ text_term enc). split; [apply enc_text_write_ok | apply enc_text_read_write]; assumption.
Qed.
Print Assumptions C12_encoded_text_roundtrip.

(* ---- (b) per-spec round trips *)
Theorem C12_spec_self_delimiting : forall sub subw subvalid ver c k v,
  self_delim k = true -> prim_valid subvalid ver c k v = true ->
  exists b, prim_write subw c k v = Ok b /\ b <> [] /\
            forall rest, ((ver <? 4) && is_enc_text k = true -> zero_rest_ok rest = true) ->
                         prim_read sub ver c k (b ++ rest) = Ok (v, rest).
Proof. intros. eapply prim_sd; eassumption. Qed.
Print Assumptions C12_spec_self_delimiting.

Theorem C12_multispec_roundtrip : forall sub subw subvalid ver c ks v,
  spec_valid subw subvalid ver c (KMulti ks) v = true ->
  exists b, spec_write subw c (KMulti ks) v = Ok b /\ b <> [] /\ spec_read sub ver c (KMulti ks) b = Ok (v, []).
Proof. intros. eapply multi_rt; eassumption. Qed.
Print Assumptions C12_multispec_roundtrip.

(* gains and peaks on their 16-bit wire grids (finite domains, bounds stated) *)
Theorem C12_gain_peak_wire : forall sub subw ver c n rest,
  (-32768 <= n <= 32767 ->
     prim_write subw c KVolumeAdjustment (VInt n) = Ok (be_encode 2 (n mod 65536)) /\
     prim_read sub ver c KVolumeAdjustment (be_encode 2 (n mod 65536) ++ rest) = Ok (VInt n, rest)) /\
  (0 <= n <= 65535 ->
     prim_write subw c KVolumePeak (VInt n) = Ok (16 :: be_encode 2 n) /\
     prim_read sub ver c KVolumePeak ((16 :: be_encode 2 n) ++ rest) = Ok (VInt n, rest)).
Proof. exact gain_peak_wire. Qed.
Print Assumptions C12_gain_peak_wire.

(* ---- (c) spec-list-driven frame round trip *)
Theorem C12_frame_roundtrip_partial : forall sub subw subvalid ver,
  (forall v, subvalid v = true -> exists b, subw v = Ok b /\ sub b = Ok (v, [])) ->
  forall fr vs,
  spec_list_ok fr = true -> kinds_covered (all_fields fr) = true ->
  frame_valid subw subvalid ver fr vs = true ->
  exists b, frame_write subw ver fr vs = Ok b /\ frame_read sub ver fr b = Ok (vs, []).
Proof. intros. eapply frame_roundtrip; eassumption. Qed.
Print Assumptions C12_frame_roundtrip_partial.

(* ---- (d) every frame class of the live registry has a composable spec list *)
Theorem C12_all_frames_ok : forallb spec_list_ok (all_frames ++ frames_2_2) = true.
Proof. vm_compute. reflexivity. Qed.
Print Assumptions C12_all_frames_ok.

(* the classes whose spec kinds are not all covered by C12_frame_roundtrip_partial (differential testing only) *)
Theorem C12_uncovered_frames :
  map fr_id (filter (fun f => negb (kinds_covered (all_fields f))) (all_frames ++ frames_2_2))
  = [[65;83;80;73]; [69;81;85;50]; [69;84;67;79]; [82;86;65;68]; [83;89;76;84]; [69;84;67]; [82;86;65]; [83;76;84]].
Proof. vm_compute. reflexivity. Qed.
Print Assumptions C12_uncovered_frames.

(* non-vacuity *)
Example C12_ex_apic :
  let vs := [VInt 1; VText [105;109;97;103;101;47;112;110;103]; VInt 3; VText [128512; 233]; VBytes [255; 0; 0]] in
  frame_valid_d frames_2_2 all_frames 4 1 fr_APIC vs = true /\
  frame_valid_d frames_2_2 all_frames 3 1 fr_APIC vs = true /\
  frame_valid_d frames_2_2 all_frames 3 1 fr_APIC [VInt 1; VText [105]; VInt 3; VText []; VBytes [0; 0; 0]] = false /\
  frame_read_d frames_2_2 all_frames 3 1 false fr_APIC
    (match frame_write_d frames_2_2 all_frames 3 1 fr_APIC vs with Ok b => b | Raise _ => [] end) = Ok (vs, []).
Proof. vm_compute. repeat split. Qed.
