(* C12 -- Every ID3 frame type survives binary encoding.
   Theorems over the hand model Model.Id3Spec / Model.Id3Frame (tied to mutagen.id3 by the correspondence
   harness) and over Gen.Gen_frames, the frame spec table regenerated from the live registry on every run.
   Values of float fields are their wire integers (gain*512, peak*32768, freq*2); nested frames are handled by
   the depth-indexed reader/writer tag_read / tag_write (any depth d).  Not covered here: Huffman-coded
   zlib streams, the float conversions, v2.2 three-letter framing (harness only). *)
From Coq Require Import ZArith List Bool Lia.
Import ListNotations.
Require Import Base.Py Base.ZList Model.Id3Spec Model.Id3Frame Gen.Gen_frames
  Proofs.C12_ints Proofs.C12_codec Proofs.C12_specs Proofs.C12_specs2 Proofs.C12_frame Proofs.C12_framing
  Proofs.C12_tag Proofs.C12_nested Proofs.C12_tagflag Proofs.C12_upgrade.
Open Scope Z_scope.

(* ---- (a) text codecs: decode (encode s) = s for every list of valid code points, astral planes included *)
Theorem C12_utf8_roundtrip : forall s, forallb valid_cp s = true -> utf8_decode (utf8_encode s) = Ok s.
Proof. exact utf8_roundtrip. Qed.
Print Assumptions C12_utf8_roundtrip.

Theorem C12_utf16_roundtrip : forall be s rest, forallb valid_cp s = true -> no_zero s = true ->
  u16_term be (u16_encode be s ++ 0 :: 0 :: rest) = Ok (s, Some rest) /\
  u16_term be (u16_encode be s) = Ok (s, None).
Proof. intros. split; [apply u16_term_encode | apply u16_term_encode_end]; assumption. Qed.
Print Assumptions C12_utf16_roundtrip.

(* no embedded terminator: a zero byte (UTF-8) / zero code unit (UTF-16) only if the text contains U+0000 *)
Theorem C12_no_embedded_terminator : forall s, forallb valid_cp s = true -> no_zero s = true ->
  no_zero (utf8_encode s) = true /\ no_zero (flat_map u16_units s) = true.
Proof. intros. split; [apply utf8_no_zero | apply u16_no_zero_unit]; assumption. Qed.
Print Assumptions C12_no_embedded_terminator.

(* decode_terminated / EncodedTextSpec for the four ID3 encodings (Latin-1, UTF-16 with BOM, UTF-16BE, UTF-8) *)
Theorem C12_encoded_text_roundtrip : forall ver enc s rest, valid_enc enc = true -> text_ok enc s = true ->
  exists b, enc_text_write enc s = Ok b /\
            enc_text_read ver enc (b ++ rest) = Ok (s, if (ver <? 4) && all_zero rest then [] else rest).
Proof.
  intros. exists (enc_bytes enc s ++ text_term enc). split; [apply enc_text_write_ok | apply enc_text_read_write]; assumption.
Qed.
Print Assumptions C12_encoded_text_roundtrip.

(* ---- (b) per-spec round trips under prim_valid / spec_valid *)
Theorem C12_spec_self_delimiting : forall sub subw subvalid ver c k v,
  self_delim k = true -> prim_valid subvalid ver c k v = true ->
  exists b, prim_write subw c k v = Ok b /\ b <> [] /\
            forall rest, ((ver <? 4) && is_enc_text k = true -> zero_rest_ok rest = true) ->
                         prim_read sub ver c k (b ++ rest) = Ok (v, rest).
Proof. intros. eapply prim_sd; eassumption. Qed.
Print Assumptions C12_spec_self_delimiting.

(* every spec kind as the final field of a frame (nested frames: for any reader inverting the writer) *)
Theorem C12_spec_final : forall sub subw subvalid ver,
  (forall v, subvalid v = true -> exists b, subw v = Ok b /\ sub b = Ok (v, [])) ->
  forall c k v, last_ok k = true -> prim_valid subvalid ver c k v = true ->
  exists b, prim_write subw c k v = Ok b /\ prim_read sub ver c k b = Ok (v, []).
Proof.
  intros sub subw subvalid ver H c k v Hk Hv.
  destruct (prim_last sub subw subvalid ver H c k v Hk Hv) as (b & Hw & _ & Hr). exists b. split; assumption.
Qed.
Print Assumptions C12_spec_final.

Theorem C12_multispec_roundtrip : forall sub subw subvalid ver c ks v,
  spec_valid subw subvalid ver c (KMulti ks) v = true ->
  exists b, spec_write subw c (KMulti ks) v = Ok b /\ b <> [] /\ spec_read sub ver c (KMulti ks) b = Ok (v, []).
Proof. intros. eapply multi_rt; eassumption. Qed.
Print Assumptions C12_multispec_roundtrip.

(* gains and peaks on their 16-bit wire grids (finite domains, bounds stated) *)
Theorem C12_gain_peak_wire : forall sub subw ver c n rest,
  (-32768 <= n <= 32767 ->
     prim_write subw c KVolumeAdjustment (VInt n) = Ok (be_encode 2 (n mod 65536)) /\
     prim_read sub ver c KVolumeAdjustment (be_encode 2 (n mod 65536) ++ rest) = Ok (VInt n, rest)) /\
  (0 <= n <= 65535 ->
     prim_write subw c KVolumePeak (VInt n) = Ok (16 :: be_encode 2 n) /\
     prim_read sub ver c KVolumePeak ((16 :: be_encode 2 n) ++ rest) = Ok (VInt n, rest)).
Proof. exact gain_peak_wire. Qed.
Print Assumptions C12_gain_peak_wire.

(* ---- (c) spec-list-driven frame round trip, any frame description with a composable spec list *)
Theorem C12_frame_roundtrip_generic : forall sub subw subvalid ver,
  (forall v, subvalid v = true -> exists b, subw v = Ok b /\ sub b = Ok (v, [])) ->
  forall fr vs, spec_list_ok fr = true -> frame_valid subw subvalid ver fr vs = true ->
  exists b, frame_write subw ver fr vs = Ok b /\ frame_read sub ver fr b = Ok (vs, []).
Proof. intros. eapply frame_roundtrip; eassumption. Qed.
Print Assumptions C12_frame_roundtrip_generic.

(* the model's entry points, nested CHAP/CTOC sub-frames included, at every nesting depth d *)
Theorem C12_frame_roundtrip : forall tbl22 tbl ver d g fr vs,
  ver = 3 \/ ver = 4 -> table_ok tbl = true ->
  spec_list_ok fr = true -> frame_valid_d tbl22 tbl ver d fr vs = true ->
  exists b, frame_write_d tbl22 tbl ver d fr vs = Ok b /\ frame_read_d tbl22 tbl ver d g fr b = Ok (vs, []).
Proof. intros. eapply frame_roundtrip_d; eassumption. Qed.
Print Assumptions C12_frame_roundtrip.

(* ---- (d) every frame class of the live registry has a composable spec list (re-evaluated on every run) *)
Theorem C12_all_frames_ok : forallb spec_list_ok (all_frames ++ frames_2_2) = true.
Proof. vm_compute. reflexivity. Qed.
Print Assumptions C12_all_frames_ok.

Theorem C12_table_ok : table_ok all_frames = true.
Proof. vm_compute. reflexivity. Qed.
Print Assumptions C12_table_ok.

(* ---- (e) tag level: read_frames (concat (map save_frame frames)) = frames, in order *)
Theorem C12_tag_roundtrip_v24 : forall d xs bs,
  Forall (entry_ok (tag_write frames_2_2 all_frames 4 d) (tag_valid frames_2_2 all_frames 4 d) 4 all_frames) xs ->
  rmapM (saved (tag_write frames_2_2 all_frames 4 d) 4) xs = Ok bs ->
  determine_bpi all_frames (concat bs) = true ->
  tag_read frames_2_2 all_frames 4 (S d) false (concat bs) = Ok (mkParsed (map loaded_of xs) [] []).
Proof.
  intros d xs bs F R B. apply (tag_roundtrip_d frames_2_2 all_frames 4 (or_intror eq_refl) C12_table_ok d xs bs F R).
  intros _. exact B.
Qed.
Print Assumptions C12_tag_roundtrip_v24.

Theorem C12_tag_roundtrip_v23 : forall d xs bs,
  Forall (entry_ok (tag_write frames_2_2 all_frames 3 d) (tag_valid frames_2_2 all_frames 3 d) 3 all_frames) xs ->
  rmapM (saved (tag_write frames_2_2 all_frames 3 d) 3) xs = Ok bs ->
  tag_read frames_2_2 all_frames 3 (S d) false (concat bs) = Ok (mkParsed (map loaded_of xs) [] []).
Proof.
  intros d xs bs F R. apply (tag_roundtrip_d frames_2_2 all_frames 3 (or_introl eq_refl) C12_table_ok d xs bs F R).
  intros E. discriminate E.
Qed.
Print Assumptions C12_tag_roundtrip_v23.

(* ---- (f) flagged input framings decode like the plain framing *)
Theorem C12_input_framings_agree : forall sub fr d dl, zlen dl = 4 -> zlen d <= 65535 ->
  let plain4 := from_data sub 4 false fr 0 d in
  let plain3 := from_data sub 3 false fr 0 d in
  from_data sub 4 false fr 2 (fr_unsynch_encode d) = plain4 /\
  from_data sub 4 true fr 0 (fr_unsynch_encode d) = plain4 /\
  from_data sub 4 false fr 1 (dl ++ d) = plain4 /\
  from_data sub 4 false fr 3 (dl ++ fr_unsynch_encode d) = plain4 /\
  from_data sub 4 false fr 9 (dl ++ zlib_store d) = plain4 /\
  from_data sub 4 false fr 11 (dl ++ fr_unsynch_encode (zlib_store d)) = plain4 /\
  from_data sub 3 false fr 128 (dl ++ zlib_store d) = plain3 /\
  plain4 = frame_read sub 4 fr d /\ plain3 = frame_read sub 3 fr d.
Proof. exact input_framings_agree. Qed.
Print Assumptions C12_input_framings_agree.

Theorem C12_unsynch_roundtrip : forall l, fr_unsynch_decode (fr_unsynch_encode l) = Ok l.
Proof. exact unsynch_roundtrip. Qed.
Print Assumptions C12_unsynch_roundtrip.

Theorem C12_stored_inflate : forall d, zlen d <= 65535 -> inflate_stored (zlib_store d) = Ok d.
Proof. exact inflate_store. Qed.
Print Assumptions C12_stored_inflate.

(* ---- (g) the tag-level unsynchronisation flag and the frame list.  Every frame of the list is decoded by from_data
   under the one tag flag g, whatever its position (collect g: the k-th outcome is from_data ... g ... of the k-th stored
   frame, for every k; nothing a frame does can change the flag seen by the frames stored after it) *)
Theorem C12_tag_flag_every_position : forall sub ver tbl22 tbl bits xs fuel g,
  Forall (stored_ok tbl bits) xs -> (length (concat (map stored_bytes xs)) < fuel)%nat ->
  frames_loop sub ver fuel g tbl22 tbl bits (concat (map stored_bytes xs)) = collect sub ver g xs.
Proof. exact frames_loop_collect. Qed.
Print Assumptions C12_tag_flag_every_position.

(* v2.4: a tag whose frames rely on the tag flag (bodies unsynchronised, own flag 0x0002 set or not, frame by frame)
   reads like the plain tag, nested CHAP/CTOC readers included (the nested reader never sees the tag flag) *)
Theorem C12_tag_flag_v24_agrees : forall d xs,
  Forall (flagged_ok (sub_of frames_2_2 all_frames 4 d false) all_frames) xs ->
  determine_bpi all_frames (concat (map stored_bytes (map as_unsynch xs))) = true ->
  determine_bpi all_frames (concat (map stored_bytes (map as_plain xs))) = true ->
  tag_read frames_2_2 all_frames 4 (S d) true (concat (map stored_bytes (map as_unsynch xs))) =
  tag_read frames_2_2 all_frames 4 (S d) false (concat (map stored_bytes (map as_plain xs))).
Proof. exact (tag_read_tagflag_v24 frames_2_2 all_frames). Qed.
Print Assumptions C12_tag_flag_v24_agrees.

(* v2.2 and v2.3 (every version below 2.4): a frame area unsynchronised as a whole reads like the plain one, for ANY bytes *)
Theorem C12_whole_tag_unsynch_v22_v23 : forall ver d data, ver < 4 ->
  tag_read frames_2_2 all_frames ver d true (fr_unsynch_encode data) = tag_read frames_2_2 all_frames ver d false data.
Proof. exact (tag_read_whole_tag_unsynch frames_2_2 all_frames). Qed.
Print Assumptions C12_whole_tag_unsynch_v22_v23.

(* ---- (h) the v2.2 -> v2.3/v2.4 upgrade (Frame._upgrade_frame / _to_other, also the Frame(other) copy): a three-letter
   class whose base class has the same field names becomes that base class with exactly the same values, the optional
   trailing fields included *)
Theorem C12_v22_upgrade_keeps_fields : forall tbl fr b rest base vs,
  zlen (fr_id fr) = 3 -> fr_bases fr = b :: rest -> frame_lookup tbl b = Some base ->
  nodupb (names_of (all_fields fr)) = true ->
  names_eqb (names_of (fr_spec base)) (names_of (fr_spec fr)) = true ->
  names_eqb (names_of (fr_opt base)) (names_of (fr_opt fr)) = true ->
  (length (fr_spec fr) <= length vs)%nat -> (length vs <= length (all_fields fr))%nat ->
  upgrade_frame tbl fr vs = Ok (Some (fr_id base, vs)).
Proof. exact upgrade_frame_same. Qed.
Print Assumptions C12_v22_upgrade_keeps_fields.

(* ... and its hypotheses hold for every class of the regenerated Frames_2_2 table whose base class is a registry class
   with the same field names (all but PIC / LNK / RVA, which override _to_other, and CRM, which has no base class) *)
Definition upgrade_hyps (fr : frame_desc) : bool :=
  match fr_bases fr with
  | b :: _ => match frame_lookup all_frames b with
              | Some base => (zlen (fr_id fr) =? 3) && nodupb (names_of (all_fields fr)) &&
                             names_eqb (names_of (fr_spec base)) (names_of (fr_spec fr)) &&
                             names_eqb (names_of (fr_opt base)) (names_of (fr_opt fr))
              | None => false
              end
  | [] => false
  end.
Theorem C12_v22_upgrade_table :
  (4 <=? zlen (filter (fun fr => negb (upgrade_hyps fr)) frames_2_2)) = false /\
  forallb (fun fr => nodupb (names_of (all_fields fr))) (all_frames ++ frames_2_2) = true.
Proof. vm_compute. split; reflexivity. Qed.
Print Assumptions C12_v22_upgrade_table.

(* ---- non-vacuity: the hypotheses are satisfiable, the degenerate v2.3 case is excluded by frame_valid *)
Example C12_ex_apic :
  let vs := [VInt 1; VText [105;109;97;103;101;47;112;110;103]; VInt 3; VText [128512; 233]; VBytes [255; 0; 0]] in
  frame_valid_d frames_2_2 all_frames 4 1 fr_APIC vs = true /\
  frame_valid_d frames_2_2 all_frames 3 1 fr_APIC vs = true /\
  frame_valid_d frames_2_2 all_frames 3 1 fr_APIC [VInt 1; VText [105]; VInt 3; VText []; VBytes [0; 0; 0]] = false /\
  frame_read_d frames_2_2 all_frames 3 1 false fr_APIC
    (match frame_write_d frames_2_2 all_frames 3 1 fr_APIC vs with Ok b => b | Raise _ => [] end) = Ok (vs, []).
Proof. vm_compute. repeat split. Qed.

Example C12_ex_nested_chap :
  let tit2 := VList [VBytes [84;73;84;50]; VList [VInt 3; VList [VText [97; 128512]]]] in
  let vs := [VText [99]; VInt 1; VInt 2; VInt 5; VInt 6; VList [tit2]] in
  frame_valid_d frames_2_2 all_frames 4 2 fr_CHAP vs = true /\
  frame_read_d frames_2_2 all_frames 4 2 false fr_CHAP
    (match frame_write_d frames_2_2 all_frames 4 2 fr_CHAP vs with Ok b => b | Raise _ => [] end) = Ok (vs, []).
Proof. vm_compute. repeat split. Qed.

Example C12_ex_tag :
  let x1 := (fr_TIT2, [VInt 1; VList [VText [97]; VText [98; 99]]]) in
  let x2 := (fr_RVA2, [VText [109]; VInt 1; VInt (-1792); VInt 16384]) in
  match rmapM (saved (tag_write frames_2_2 all_frames 4 1) 4) [x1; x2] with
  | Ok bs => determine_bpi all_frames (concat bs) = true /\
             tag_read frames_2_2 all_frames 4 2 false (concat bs) = Ok (mkParsed (map loaded_of [x1; x2]) [] [])
  | Raise _ => False
  end.
Proof. vm_compute. repeat split. Qed.

(* the determine_bpi hypothesis of C12_tag_roundtrip_v24 is needed: a binary payload with aligned fake
   frame headers makes the heuristic read the (syncsafe) v2.4 sizes as plain integers *)
Example C12_bpi_heuristic_refuted :
  let fake := [84;73;84;50;0;0;0;0;0;0] in
  let x1 := (fr_PRIV, [VText [97]; VBytes (repeat 120 126)]) in
  let x2 := (fr_PRIV, [VText [98]; VBytes (repeat 121 116 ++ fake ++ fake ++ fake ++ repeat 122 50)]) in
  match rmapM (saved (tag_write frames_2_2 all_frames 4 1) 4) [x1; x2] with
  | Ok bs => determine_bpi all_frames (concat bs) = false /\
             match tag_read frames_2_2 all_frames 4 2 false (concat bs) with
             | Ok p => length (p_frames p) = 1%nat
             | Raise _ => False
             end
  | Raise _ => False
  end.
Proof. vm_compute. repeat split. Qed.

(* hypotheses of C12_tag_flag_v24_agrees: a CHAP frame stored BEFORE a PRIV frame whose payload needs the tag flag *)
Example C12_ex_tagflag :
  let dc := [99; 0; 255; 255; 255; 255; 0; 0; 0; 1; 255; 0; 0; 0; 0; 0; 255; 224] in
  let chap := mkFlagged fr_CHAP dc [0; 0; 0; zlen dc] [0; 0; 0; zlen (fr_unsynch_encode dc)] false in
  let priv := mkFlagged fr_PRIV [97; 0; 255; 0; 255] [0; 0; 0; 5] [0; 0; 0; 7] true in
  let tit2 := mkFlagged fr_TIT2 [0; 255; 254] [0; 0; 0; 3] [0; 0; 0; 4] false in
  let xs := [chap; priv; tit2] in
  let ok := flagged_ok (sub_of frames_2_2 all_frames 4 1 false) all_frames in
  ok chap /\ ok priv /\ ok tit2 /\
  determine_bpi all_frames (concat (map stored_bytes (map as_unsynch xs))) = true /\
  determine_bpi all_frames (concat (map stored_bytes (map as_plain xs))) = true /\
  match tag_read frames_2_2 all_frames 4 2 true (concat (map stored_bytes (map as_unsynch xs))) with
  | Ok p => map fst (p_frames p) = [fr_id fr_CHAP; fr_id fr_PRIV; fr_id fr_TIT2] /\
            map snd (tl (p_frames p)) = [[VText [97]; VBytes [255; 0; 255]]; [VInt 0; VList [VText [255; 254]]]]
  | Raise _ => False
  end.
Proof. vm_compute. repeat split; try reflexivity; intro E; discriminate E. Qed.

Example C12_ex_v22_tag_unsynch :
  let tt2 := [84; 84; 50; 0; 0; 3; 0; 255; 254] in
  tag_read frames_2_2 all_frames 2 1 true (fr_unsynch_encode tt2) =
    Ok (mkParsed [(fr_id fr_TT2, [VInt 0; VList [VText [255; 254]]])] [] []).
Proof. vm_compute. reflexivity. Qed.

(* POP with the optional play counter upgrades to POPM with the counter; BUF with both optional fields to RBUF *)
Example C12_ex_upgrade_optional :
  upgrade_hyps fr_POP = true /\ upgrade_hyps fr_BUF = true /\
  upgrade_frame all_frames fr_POP [VText [97]; VInt 196; VInt 66215] = Ok (Some (fr_id fr_POPM, [VText [97]; VInt 196; VInt 66215])) /\
  upgrade_frame all_frames fr_POP [VText [97]; VInt 196] = Ok (Some (fr_id fr_POPM, [VText [97]; VInt 196])) /\
  upgrade_frame all_frames fr_BUF [VInt 128000; VInt 1; VInt 74565] = Ok (Some (fr_id fr_RBUF, [VInt 128000; VInt 1; VInt 74565])) /\
  upgrade_frame all_frames fr_CRM [VText [97]; VText [98]; VBytes [1]] = Ok None.
Proof. vm_compute. repeat split. Qed.

(* the nesting bound of ID3FramesSpec.read: tag_read (S nesting_limit) opens 16 levels of sub-frames; a reader with no level
   left drops the frame that would open one (here: depth 1, a CHAP -- even an empty one -- is junk, the TIT2 after it is read) *)
Example C12_ex_nesting_bound :
  let chap := [67;72;65;80; 0;0;0;18; 0;0; 99;0; 0;0;0;1; 0;0;0;2; 0;0;0;3; 0;0;0;4] in
  let tit2 := [84;73;84;50; 0;0;0;2; 0;0; 0;97] in
  tag_read frames_2_2 all_frames 4 1 false (chap ++ tit2) = Ok (mkParsed [(fr_id fr_TIT2, [VInt 0; VList [VText [97]]])] [] []) /\
  match tag_read frames_2_2 all_frames 4 2 false (chap ++ tit2) with Ok p => length (p_frames p) = 2%nat | Raise _ => False end.
Proof. vm_compute. repeat split. Qed.
