(* C04 (DSF) -- Malformed input is rejected cleanly: the mirror of what DSF.load does before the ID3 tag is
   parsed (DSDChunk, FormatChunk, DataChunk, _DSFID3._pre_load_header incl. the seek to the metadata pointer)
   returns Ok or raises EMutagen on EVERY list of integers handed to it as the file content -- never
   struct.error, OverflowError, ValueError.  No loop, no fuel. *)
From Coq Require Import ZArith List Bool Lia.
Import ListNotations.
Require Import Base.Py Model.Parse_base Model.Parse_dsf Proofs.C04_lib Proofs.C04_dsf.
Open Scope Z_scope.

Theorem C04_DSF_total : forall bytes,
  match dsf_load bytes with Ok _ => True | Raise e => e = EMutagen end.
Proof. exact dsf_total. Qed.
Print Assumptions C04_DSF_total.

(* ---- non-vacuity ---- *)
Definition ex_dsf (meta : list Z) : list Z :=
  [68;83;68;32; 28;0;0;0;0;0;0;0; 92;0;0;0;0;0;0;0] ++ meta ++
  [102;109;116;32; 52;0;0;0;0;0;0;0; 1;0;0;0; 0;0;0;0; 2;0;0;0; 2;0;0;0; 0;17;43;0; 1;0;0;0; 0;34;86;0;0;0;0;0; 0;16;0;0; 0;0;0;0;
   100;97;116;97; 12;0;0;0;0;0;0;0].
Example C04_DSF_ex_ok :
  c04_inputb (ex_dsf [0;0;0;0;0;0;0;0]) = true /\
  dsf_load (ex_dsf [0;0;0;0;0;0;0;0]) = Ok [2; 2; 2822400; 1; 5644800; 92; 12; 0; 28] /\
  dsf_load (ex_dsf [200;0;0;0;0;0;0;0]) = Ok [2; 2; 2822400; 1; 5644800; 92; 12; 200; 200].
Proof. vm_compute. repeat split; reflexivity. Qed.
Example C04_DSF_ex_truncated : dsf_load (firstn 91 (ex_dsf [0;0;0;0;0;0;0;0])) = Raise EMutagen.
Proof. vm_compute. reflexivity. Qed.
(* a metadata pointer beyond ssize_t: BytesIO.seek raises OverflowError, which _pre_load_header maps *)
Example C04_DSF_ex_huge_pointer : dsf_load (ex_dsf [255;255;255;255;255;255;255;255]) = Raise EMutagen.
Proof. vm_compute. reflexivity. Qed.
