(* C04 (FLAC) -- Malformed input is rejected cleanly and in bounded time: the mirror of flac.FLAC.load (ID3v2 skip and
   'fLaC' check; the metadata block walk with its header byte, 24-bit size and block dispatch; StreamInfo, CueSheet,
   Picture and VCFLACDict loads over StrictFileObject; the one-CueSheet / one-SeekTable rule; the stream info look-up and
   the bitrate estimate) returns Ok or raises EMutagen on EVERY byte string -- never TypeError (ord), struct.error,
   IndexError (no StreamInfo block), OverflowError, ZeroDivisionError (length, bitrate), and never EOutOfFuel, where the
   block loop and every Vorbis comment loop get 1 * len + 1 rounds of fuel (`C04_FLAC_fuel`, by reflexivity). *)
From Coq Require Import ZArith List Bool Lia.
Import ListNotations.
Require Import Base.Py Model.Parse_base Model.Parse_flac Proofs.C04_lib Proofs.C04_flac.
Open Scope Z_scope.

Theorem C04_FLAC_total : forall bytes, c04_input bytes ->
  match flac_load bytes with Ok _ => True | Raise e => e = EMutagen end.
Proof. exact flac_total. Qed.
Print Assumptions C04_FLAC_total.
Theorem C04_FLAC_fuel : forall bytes,
  flac_load bytes = prun (flac_init (Z.to_nat (1 * zlen bytes + 1))) bytes.
Proof. reflexivity. Qed.
Print Assumptions C04_FLAC_fuel.

(* one metadata block, from any position inside the data: at least its 4 header bytes are consumed, the stream
   stays inside the data, and nothing but MutagenError gets out *)
Theorem C04_FLAC_block_total : forall bytes st pos,
  Forall (fun x => 0 <= x < 256) bytes -> zlen bytes < c04_two62 -> 0 <= pos <= zlen bytes ->
  match flac_read_block (Z.to_nat (1 * zlen bytes + 1)) st bytes pos with
  | (Ok _, pos') => pos + 4 <= pos' <= zlen bytes
  | (Raise e, _) => e = EMutagen
  end.
Proof.
  intros bytes st pos Hb Hl Hp.
  assert (Hf : Z.of_nat (Z.to_nat (1 * zlen bytes + 1)) = zlen bytes + 1) by lia.
  pose proof (flac_read_block_spec bytes _ st pos Hb Hl Hp Hf) as H.
  unfold pspecE in H. destruct (flac_read_block _ st bytes pos) as [[a|e] p']; exact H.
Qed.
Print Assumptions C04_FLAC_block_total.

(* ---- non-vacuity ---- *)
Definition ex_si (last r0 r1 r2 : Z) : list Z :=
  [last;0;0;34; 16;0;16;0; 0;0;16; 0;0;32; r0;r1;r2;240; 0;1;88;136] ++ repeat 17 16.
Definition ex_vc (last count : Z) : list Z := [last;0;0;16; 1;0;0;0; 118; count;0;0;0; 3;0;0;0; 65;61;98].
Definition ex_flac : list Z := [102;76;97;67] ++ ex_si 0 10 196 66 ++ ex_vc 132 1 ++ [255;248;0;0].
Example C04_FLAC_ex_ok :
  c04_inputb ex_flac = true /\
  flac_load ex_flac = Ok [4096; 4096; 44100; 2; 16; 88200; 1; 4; 1; -1; -1; 0; 0; 4].
Proof. vm_compute. split; reflexivity. Qed.
Example C04_FLAC_ex_truncated : flac_load (firstn 30 ex_flac) = Raise EMutagen /\ flac_load (firstn 3 ex_flac) = Raise EMutagen.
Proof. vm_compute. split; reflexivity. Qed.
Example C04_FLAC_ex_rejected :
  flac_load ([102;76;97;67] ++ ex_vc 132 1) = Raise EMutagen /\                                  (* no StreamInfo block *)
  flac_load ([102;76;97;67] ++ ex_si 128 0 0 2) = Raise EMutagen /\                                  (* sample rate 0 *)
  flac_load ([102;76;97;67] ++ ex_si 0 10 196 66 ++ [3;0;0;0; 131;0;0;0]) = Raise EMutagen /\           (* two SeekTable blocks *)
  flac_load ([102;76;97;67] ++ ex_si 0 10 196 66 ++ ex_vc 132 2) = Raise EMutagen.                      (* comment count beyond the data *)
Proof. vm_compute. repeat split; reflexivity. Qed.
