(* C01 (Ogg family) -- Saved tags read back exactly.
   The independent reader: ogg_load = strict page walk (ogg_parse), reassembly of the packets of the first stream whose
   first packet is the codec's identification header, decoding of its SECOND packet (ogg_f_decode: codec prefix,
   Fam_flac.vc_parse written from the Vorbis comment layout, framing bit for Vorbis, only zero bytes behind the comment
   -- for Opus per RFC 7845 5.2: a tail whose first byte is odd is data to preserve, anything else is padding --, for OggFLAC a VORBIS_COMMENT block header whose 24-bit length equals
   the payload).
   (a) packet level, unconditional: whatever packet _inject builds decodes to exactly the tags that were set.
   (b) file level: ogg_load of the saved file returns them, for every file whose tagged stream is laid out as the codec
       mappings prescribe (ogg_mapped, a hypothesis on the input file alone: the identification header page is the
       first page of its stream, not continued, and carries that one packet; the next page of the stream starts the
       comment header and is not continued; this stream is the one the independent reader looks at).  From it the
       alignment of mutagen's page search with the reader (ogg_aligned) is DERIVED (Fam_ogg_mapped.mapped_aligned) -- this
       became possible when /repo restricted the Vorbis / Theora page search to the stream of the identification header.
       The version with ogg_aligned as a hypothesis is kept as C01_ogg_save_partial.
   OggFLAC: a rendered comment of 2^24 bytes or more is refused (ogg.error) since the fix of /repo; the former bound
   zlen (vc_render t) <= MAXSZ is now a consequence of the success of the call. *)
From Coq Require Import ZArith List Bool Lia.
Import ListNotations.
Require Import Base.Py Base.ZList Gen.Gen_tags Model.Crc Model.Ogg Model.Fam_flac Model.Fam_ogg
  Proofs.Fam_ogg_inject Proofs.Fam_ogg_thms Proofs.Fam_ogg_c01 Proofs.Fam_ogg_load Proofs.Fam_ogg_mapped
  Proofs.Fam_ogg_examples Proofs.Fam_ogg_examples2.
Open Scope Z_scope.

Theorem C01_ogg_packet : forall c t pad cb fsize old d, ogg_f_new_packet c t pad cb fsize old = Ok d ->
  (c = OOpus -> pad = [] \/ exists b r, pad = b :: r /\ ogg_f_odd b = true) ->
  (c = OFlac -> exists h r, old = h :: r /\ h mod 128 = 4) ->
  ogg_f_decode c d =
  Ok (t, match c with
         | OFlac => -1
         | _ => match c, pad with
                | OOpus, _ :: _ => -1
                | _, _ => Z.max 0 (_get_padding cb (zlen old - zlen (ogg_vdata c t)) (fsize - zlen old)) end
         end).
Proof. exact new_packet_decode. Qed.
Print Assumptions C01_ogg_packet.

Theorem C01_ogg_save_partial : forall f c t cb f' pages,
  ogg_parse f = Ok pages -> ogg_f_streams_ok pages = true ->
  ogg_save f c t cb = Ok f' ->
  exists olds news k pad,
    cut_ok c t pad cb pages olds news k /\
    (ogg_aligned c pages k ->
     (c = OFlac -> exists h r, cut_p0 k = h :: r /\ h mod 128 = 4) ->
     ogg_load f' c =
     Ok (t, match c with
            | OFlac => -1
            | _ => match c, pad with
                   | OOpus, _ :: _ => -1
                   | _, _ => Z.max 0 (_get_padding cb (zlen (cut_p0 k) - zlen (ogg_vdata c t)) (zlen f - zlen (cut_p0 k))) end
            end)).
Proof. exact save_load. Qed.
Print Assumptions C01_ogg_save_partial.

Theorem C01_ogg_save : forall f c t cb f' pages,
  ogg_parse f = Ok pages -> ogg_f_streams_ok pages = true -> ogg_mapped c pages ->
  ogg_save f c t cb = Ok f' ->
  exists olds news k pad,
    cut_ok c t pad cb pages olds news k /\
    ((c = OFlac -> exists h r, cut_p0 k = h :: r /\ h mod 128 = 4) ->
     ogg_load f' c =
     Ok (t, match c with
            | OFlac => -1
            | _ => match c, pad with
                   | OOpus, _ :: _ => -1
                   | _, _ => Z.max 0 (_get_padding cb (zlen (cut_p0 k) - zlen (ogg_vdata c t)) (zlen f - zlen (cut_p0 k))) end
            end)).
Proof. exact save_load_mapped. Qed.
Print Assumptions C01_ogg_save.

(* the layout hypothesis gives the alignment, for every codec *)
Theorem C01_ogg_mapped_aligned : forall c t pad cb pages olds news k, Forall Proofs.C15_page.page_wf pages ->
  ogg_mapped c pages -> cut_ok c t pad cb pages olds news k ->
  ogg_f_inject c t pad cb (Proofs.C15_file.render_all pages) = Ok (olds, news) -> ogg_aligned c pages k.
Proof. exact mapped_aligned. Qed.
Print Assumptions C01_ogg_mapped_aligned.

(* regression (former C01_ogg_unaligned_refuted; fixed in /repo: oggvorbis.py / oggtheora.py _inject look for the comment
   page in the stream of the identification header only): a well-formed multiplexed file in which a page of stream 9
   starts with b"\x03vorbis" in front of the comment page of the Vorbis stream 5 -- the tags are saved where load reads
   them, and the file satisfies the layout hypothesis *)
Example C01_ogg_ex_foreign_marker_regression :
  ogg_wf ex_bait = true /\ ogg_mapped OVorbis ex_bait_pages /\ ogg_load ex_bait OVorbis = Ok (ex_old, 3) /\
  ogg_save ex_bait OVorbis ex_tags (Some (cb_const 0)) = Ok ex_bait_saved /\ ogg_wf ex_bait_saved = true /\
  ogg_load ex_bait_saved OVorbis = Ok (ex_tags, 0).
Proof.
  destruct ex_bait_regression as (A & B & C & D & E & _). repeat split; try assumption. exact ex_bait_mapped.
Qed.
Example C01_ogg_ex_mapped : ogg_mapped OVorbis ex_vorbis_pages.
Proof. exact ex_vorbis_mapped. Qed.

(* non-vacuity: a multiplexed Vorbis file, and an Opus file whose comment packet has a tail to be preserved *)
Example C01_ogg_ex_vorbis :
  ogg_save ex_vorbis OVorbis ex_tags (Some (cb_const 2)) = Ok ex_vorbis_saved /\ ogg_wf ex_vorbis_saved = true /\
  ogg_load ex_vorbis_saved OVorbis = Ok (ex_tags, 2) /\ zlen ex_vorbis_saved = zlen ex_vorbis + 7.
Proof. exact ex_vorbis_save. Qed.
Example C01_ogg_ex_opus :
  ogg_save ex_opus OOpus ex_tags (Some (cb_const 50)) = Ok ex_opus_saved /\ ogg_wf ex_opus_saved = true /\
  ogg_load ex_opus_saved OOpus = Ok (ex_tags, -1) /\ ogg_open ex_opus_saved OOpus = Ok ([109; 117], [1; 200]).
Proof. exact ex_opus_save. Qed.
