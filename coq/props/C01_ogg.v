(* C01 (Ogg family) -- Saved tags read back exactly.
   The independent reader: ogg_load = strict page walk (ogg_parse), reassembly of the packets of the first stream whose
   first packet is the codec's identification header, decoding of its SECOND packet (ogg_f_decode: codec prefix,
   Fam_flac.vc_parse written from the Vorbis comment layout, framing bit for Vorbis, only zero bytes behind the comment
   unless an Opus tail is flagged for preservation, for OggFLAC a VORBIS_COMMENT block header whose 24-bit length equals
   the payload).
   (a) packet level, unconditional: whatever packet _inject builds decodes to exactly the tags that were set.
   (b) file level (`_partial`): ogg_load of the saved file returns them, under the explicit alignment hypothesis
       ogg_aligned -- the comment packet found by mutagen's page search starts on a page boundary and is the second
       packet of the stream the independent reader looks at.  (Not derived from ogg_wf: mutagen searches pages by
       content / position, the reader goes by packets; the two agree on every file laid out as the codec mappings
       prescribe, and the harness checks the conclusion on every step.)
   OggFLAC: the block header has a 24-bit length; for a rendered comment of 2^24 bytes or more mutagen writes the
   length modulo 2^24 (struct.pack(">I", n)[-3:]) -- hence the explicit bound zlen (vc_render t) <= MAXSZ. *)
From Coq Require Import ZArith List Bool Lia.
Import ListNotations.
Require Import Base.Py Base.ZList Gen.Gen_tags Model.Crc Model.Ogg Model.Fam_flac Model.Fam_ogg
  Proofs.Fam_ogg_inject Proofs.Fam_ogg_thms Proofs.Fam_ogg_c01 Proofs.Fam_ogg_load Proofs.Fam_ogg_examples.
Open Scope Z_scope.

Theorem C01_ogg_packet : forall c t pad cb fsize old d, ogg_f_new_packet c t pad cb fsize old = Ok d ->
  (c = OOpus -> pad = [] \/ exists b r, pad = b :: r /\ ogg_f_odd b = true) ->
  (c = OFlac -> (exists h r, old = h :: r /\ h mod 128 = 4) /\ zlen (vc_render t) <= MAXSZ) ->
  ogg_f_decode c d =
  Ok (t, match c with
         | OFlac => -1
         | _ => match c, pad with
                | OOpus, _ :: _ => -1
                | _, _ => Z.max 0 (_get_padding cb (zlen old - zlen (ogg_vdata c t)) (fsize - zlen old)) end
         end).
Proof. exact new_packet_decode. Qed.
Print Assumptions C01_ogg_packet.

Theorem C01_ogg_save_partial : forall f c t cb f' pages,
  ogg_parse f = Ok pages -> ogg_f_streams_ok pages = true ->
  ogg_save f c t cb = Ok f' ->
  exists olds news k pad,
    cut_ok c t pad cb pages olds news k /\
    (ogg_aligned c pages k ->
     (c = OFlac -> (exists h r, cut_p0 k = h :: r /\ h mod 128 = 4) /\ zlen (vc_render t) <= MAXSZ) ->
     ogg_load f' c =
     Ok (t, match c with
            | OFlac => -1
            | _ => match c, pad with
                   | OOpus, _ :: _ => -1
                   | _, _ => Z.max 0 (_get_padding cb (zlen (cut_p0 k) - zlen (ogg_vdata c t)) (zlen f - zlen (cut_p0 k))) end
            end)).
Proof. exact save_load. Qed.
Print Assumptions C01_ogg_save_partial.

(* (c) without the alignment hypothesis the file-level statement is FALSE for the code as it is (genuine defect of
   /repo, reported): OggVorbis._inject (and OggTheora._inject) take the first page whose first packet starts with
   b"\x03vorbis" (b"\x81theora") in ANY logical stream, while load reads the comment of info.serial.  Witness: a
   well-formed multiplexed file in which a page of stream 9 starts with b"\x03vorbis" in front of the comment page of
   the Vorbis stream 5; save() succeeds, the file stays well-formed, but the tags read back are still the old ones and
   the packet of the foreign stream has been overwritten (see also C02_ogg_wrong_stream_refuted). *)
Theorem C01_ogg_unaligned_refuted : exists f t cb f' told,
  ogg_wf f = true /\ vc_valid t = true /\ ogg_load f OVorbis = Ok (told, 3) /\
  ogg_save f OVorbis t cb = Ok f' /\ ogg_wf f' = true /\ ogg_load f' OVorbis = Ok (told, 3) /\ told <> t.
Proof.
  exists ex_bait, ex_tags, (Some (cb_const 0)), ex_bait_saved, ex_old.
  destruct ex_bait_wrong_stream as (A & B & C & D & E & F & _). repeat split; try assumption. discriminate.
Qed.
Print Assumptions C01_ogg_unaligned_refuted.

(* non-vacuity: a multiplexed Vorbis file, and an Opus file whose comment packet has a tail to be preserved *)
Example C01_ogg_ex_vorbis :
  ogg_save ex_vorbis OVorbis ex_tags (Some (cb_const 2)) = Ok ex_vorbis_saved /\ ogg_wf ex_vorbis_saved = true /\
  ogg_load ex_vorbis_saved OVorbis = Ok (ex_tags, 2) /\ zlen ex_vorbis_saved = zlen ex_vorbis + 7.
Proof. exact ex_vorbis_save. Qed.
Example C01_ogg_ex_opus :
  ogg_save ex_opus OOpus ex_tags (Some (cb_const 50)) = Ok ex_opus_saved /\ ogg_wf ex_opus_saved = true /\
  ogg_load ex_opus_saved OOpus = Ok (ex_tags, -1) /\ ogg_open ex_opus_saved OOpus = Ok ([109; 117], [1; 200]).
Proof. exact ex_opus_save. Qed.
