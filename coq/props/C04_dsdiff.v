(* C04 (DSDIFF) -- Malformed input is rejected cleanly and in bounded time: the mirror of what DSDIFF.load does apart
   from parsing the ID3 tag itself (IffID3._pre_load_header: DSDIFFFile + the 64-bit IFF chunk walk to the ID3 chunk;
   DSDIFFInfo: DSDIFFFile, the walks of FRM8, PROP and DST, the FS / CHNL / CMPR reads, the DSD and DST/FRTE
   branches with their divisions) returns Ok or raises EMutagen on EVERY byte string -- never struct.error,
   AssertionError (_calculate_size), OverflowError (seek beyond 2^63, read of a 64-bit size), KeyError,
   UnicodeDecodeError, ZeroDivisionError, and never EOutOfFuel, where every chunk walk gets 1 * len + 1 rounds of
   fuel (`C04_DSDIFF_fuel`, by reflexivity: it is the wrapper's definition). *)
From Coq Require Import ZArith List Bool Lia.
Import ListNotations.
Require Import Base.Py Model.Parse_base Model.Parse_aiff Model.Parse_dsdiff Proofs.C04_lib Proofs.C04_dsdiff.
Open Scope Z_scope.

Theorem C04_DSDIFF_total : forall bytes, c04_input bytes ->
  match dsdiff_load bytes with Ok _ => True | Raise e => e = EMutagen end.
Proof. exact dsdiff_total. Qed.
Print Assumptions C04_DSDIFF_total.
Theorem C04_DSDIFF_fuel : forall bytes,
  dsdiff_load bytes = prun (dff_init (Z.to_nat (1 * zlen bytes + 1))) bytes.
Proof. reflexivity. Qed.
Print Assumptions C04_DSDIFF_fuel.

(* the 64-bit chunk walk on its own, from any offset with fuel covering the rest of the data *)
Theorem C04_DSDIFF_walk_total : forall bytes fuel next end_ pos,
  Forall (fun x => 0 <= x < 256) bytes -> 0 <= next -> 0 <= pos ->
  1 <= Z.of_nat fuel -> zlen bytes + 2 - next <= Z.of_nat fuel ->
  match dff_subchunks fuel next end_ bytes pos with
  | (Ok chunks, _) => Forall (fun c => 12 <= dff_doff c <= zlen bytes) chunks
  | (Raise e, _) => e = EMutagen
  end.
Proof.
  intros bytes fuel next end_ pos Hb Hn Hp Hf1 Hf.
  pose proof (dff_subchunks_spec bytes end_ Hb fuel next pos Hn Hp Hf1 Hf) as H.
  unfold pspecE in H. destruct (dff_subchunks fuel next end_ bytes pos) as [[l|e] p']; [exact (proj2 H)|exact H].
Qed.
Print Assumptions C04_DSDIFF_walk_total.

(* ---- non-vacuity ---- *)
Definition ex_q (n : Z) : list Z := [0;0;0;0;0;0;0;n].
Definition ex_prop (cmpr : Z) : list Z :=
  [80;82;79;80] ++ ex_q 74 ++ [83;78;68;32] ++ [70;83;32;32] ++ ex_q 4 ++ [0;43;17;0] ++
  [67;72;78;76] ++ ex_q 10 ++ [0;2; 83;76;70;84;83;82;71;84] ++
  [67;77;80;82] ++ ex_q 20 ++ [68;83;cmpr;32; 14; 110;111;116;32;99;111;109;112;114;101;115;115;101;100;0].
Definition ex_dsd (size : list Z) : list Z := [68;83;68;32] ++ size ++ [0;0;0;0;0;0;0;0].
Definition ex_dff : list Z :=
  [70;82;77;56] ++ ex_q 132 ++ [68;83;68;32] ++ ex_prop 68 ++ ex_dsd (ex_q 8) ++ [73;68;51;32] ++ ex_q 10 ++ [73;68;51;4;0;0;0;0;0;0].
Example C04_DSDIFF_ex_ok :
  c04_inputb ex_dff = true /\ dsdiff_load ex_dff = Ok [134; 2; 2822400; 1; 8; 0; 0; 0; 1; 68;83;68] /\
  dsdiff_load ([70;82;77;56] ++ ex_q 120 ++ [68;83;68;32] ++ ex_prop 84 ++
               [68;83;84;32] ++ ex_q 18 ++ [70;82;84;69] ++ ex_q 6 ++ [0;0;0;75; 0;75])
  = Ok [-1; 2; 2822400; 2; 1; 75; 75; 0; 1; 68;83;84].
Proof. vm_compute. repeat split; reflexivity. Qed.
Example C04_DSDIFF_ex_truncated : dsdiff_load (firstn 100 ex_dff) = Raise EMutagen /\ dsdiff_load (firstn 11 ex_dff) = Raise EMutagen.
Proof. vm_compute. split; reflexivity. Qed.
Example C04_DSDIFF_ex_rejected :
  dsdiff_load ([70;82;77;56] ++ ex_q 90 ++ [68;83;68;32] ++ ex_prop 68) = Raise EMutagen /\            (* DSD: no DSD chunk *)
  dsdiff_load ([70;82;77;56] ++ ex_q 24 ++ [68;83;68;32] ++ ex_dsd (ex_q 8)) = Raise EMutagen.          (* no PROP chunk *)
Proof. vm_compute. split; reflexivity. Qed.
(* 64-bit sizes: a DSD chunk of 2^64 - 1 bytes is listed (the walk then stops: seek OverflowError);
   a CHNL chunk of 2^64 - 1 bytes cannot be read (read OverflowError -> InvalidChunk) *)
Example C04_DSDIFF_ex_huge :
  dsdiff_load ([70;82;77;56] ++ ex_q 102 ++ [68;83;68;32] ++ ex_prop 68 ++ [68;83;68;32; 255;255;255;255;255;255;255;255])
  = Ok [-1; 2; 2822400; 1; 18446744073709551615; 0; 0; 0; 1; 68;83;68] /\
  dsdiff_load ([70;82;77;56] ++ ex_q 54 ++ [68;83;68;32] ++ [80;82;79;80] ++ ex_q 18 ++ [83;78;68;32] ++
               [67;72;78;76; 255;255;255;255;255;255;255;255; 0;2] ++ ex_dsd (ex_q 8)) = Raise EMutagen.
Proof. vm_compute. split; reflexivity. Qed.
