(* C08 for the MP4 family: delete = save of an empty ilst with padding 0.  Glue only; proofs in proofs/Fam_mp4_whole.v. *)
From Coq Require Import ZArith List Bool Lia.
Import ListNotations.
Require Import Base.Py Base.ZList Model.Splice Model.Fam_mp4.
Require Import Proofs.Fam_mp4_tree Proofs.Fam_mp4_steps Proofs.Fam_mp4_agree Proofs.Fam_mp4_surgery Proofs.Fam_mp4_existing
  Proofs.Fam_mp4_main Proofs.Fam_mp4_new Proofs.Fam_mp4_c10 Proofs.Fam_mp4_whole.
Open Scope Z_scope.

Theorem C08_mp4_delete_is_empty_save f atoms path : mp4_atoms f = Ok atoms -> mp4_path atoms ILST_PATH = Some path ->
  mp4_delete f = mp4_save f mp4_empty_ilst (fun _ _ => 0).
Proof. exact (delete_is_save f atoms path). Qed.
Print Assumptions C08_mp4_delete_is_empty_save.

Theorem C08_mp4_delete_without_tags f atoms : mp4_atoms f = Ok atoms -> mp4_path atoms ILST_PATH = None -> mp4_delete f = Ok f.
Proof. exact (delete_without_tags f atoms). Qed.
Print Assumptions C08_mp4_delete_without_tags.

(* exactly ilst + its adjacent free atom are removed; an empty ilst and an 8-byte free atom (16 bytes) stay; nothing else changes *)
Theorem C08_mp4_delete f f' atoms path :
  mp4_wf f = true -> mp4_atoms f = Ok atoms -> mp4_path atoms ILST_PATH = Some path -> mp4_tags_clean atoms = true ->
  mp4_delete f = Ok f' ->
  exists off old, mp4_region_of path = Some (off, old) /\
    zlen f' = zlen f - old + 16 /\
    mp4_rd f' off 16 = mp4_empty_ilst ++ mp4_render N_free [] /\
    (forall L, In L (mp4_flat atoms) -> ma_kids L = None -> is_table_name L = false ->
       (ma_off L + ma_len L <= off \/ off + old <= ma_off L) ->
       agree f (ma_off L) f' (mp4_newpos off old (16 - old) (ma_off L)) (ma_len L)).
Proof. exact (c08_delete f f' atoms path). Qed.
Print Assumptions C08_mp4_delete.

(* delete twice = delete once, for any number of free atoms around ilst: the free atom a save writes (behind ilst) is the one
   the next lookup takes as padding *)
Theorem C08_mp4_delete_idempotent f f' atoms path :
  mp4_wf f = true -> mp4_atoms f = Ok atoms -> mp4_path atoms ILST_PATH = Some path -> mp4_tags_clean atoms = true ->
  mp4_delete f = Ok f' -> mp4_delete f' = Ok f'.
Proof. exact (c08_delete_idempotent f f' atoms path). Qed.
Print Assumptions C08_mp4_delete_idempotent.

(* regression witness of the defect fixed in /repo: two free atoms before ilst (each delete used to consume one more) *)
Definition c08_two_free : list Z :=
  mp4_build (mkLayout true 2 false (-1) [MHdlr; MFree 10; MFree 20; MIlst] mp4_empty_ilst
               [mkTrak false true [0; 5]] [] (mp4_pattern 16 1) 0 0 false []).
Example C08_mp4_delete_idempotent_ex :
  mp4_wf c08_two_free = true /\
  match mp4_delete c08_two_free with
  | Ok f1 => match mp4_delete f1 with Ok f2 => list_eqb f1 f2 | _ => false end
  | _ => false end = true.
Proof. vm_compute. split; reflexivity. Qed.
