(* C07 (FLAC family) -- Saving unchanged tags is lossless and idempotent.
   Extra blocks are kept raw by construction of the model (hypothesis: canonical form of the block types mutagen
   re-renders); the statements below are about what the independent reader and walker find afterwards. *)
From Coq Require Import ZArith List Bool Lia.
Import ListNotations.
Require Import Base.Py Base.ZList Gen.Gen_tags Model.Splice Model.Fam_flac
  Proofs.Fam_flac_codec Proofs.Fam_flac_walk Proofs.Fam_flac_save Proofs.Fam_flac_thms Proofs.Fam_flac_final Proofs.Fam_flac_examples.
Open Scope Z_scope.

(* saving the tags that the file already holds keeps them, every foreign block, prefix and audio *)
Theorem C07_flac_lossless : forall f t o f', flac_wf f = true -> o_deleteid3 o = false ->
  flac_load f = Ok (Some t) -> flac_save f t o = Ok f' ->
  flac_load f' = flac_load f /\ preserved f f'.
Proof. exact resave_lossless. Qed.
Print Assumptions C07_flac_lossless.

(* a second save of the same tags with the same padding policy is byte-identical, for every policy whose capped
   answer is a fixed point of itself ... *)
Theorem C07_flac_idempotent : forall f t cb f1, flac_wf f = true -> flac_save f t (mkOpts cb false) = Ok f1 ->
  (forall s, flac_parse f = Ok s -> pad_stable cb (zlen (faudio s))) ->
  flac_save f1 t (mkOpts cb false) = Ok f1.
Proof. exact save_idempotent. Qed.
Print Assumptions C07_flac_idempotent.

(* ... which the default policy (regenerated from mutagen/_tags.py) is, with or without being passed explicitly *)
Theorem C07_flac_default_stable : forall size, 0 <= size ->
  pad_stable None size /\ pad_stable (Some get_default_padding) size.
Proof. exact default_pad_stable. Qed.
Print Assumptions C07_flac_default_stable.

Theorem C07_flac_idempotent_default : forall f t f1, flac_wf f = true ->
  flac_save f t (mkOpts None false) = Ok f1 -> flac_save f1 t (mkOpts None false) = Ok f1.
Proof. exact final_idempotent_default. Qed.
Print Assumptions C07_flac_idempotent_default.

Example C07_flac_ex_load : flac_load ex_file = Ok (Some ex_old) /\ flac_load ex_notags = Ok None.
Proof. exact ex_load. Qed.
Example C07_flac_ex_wf : flac_wf ex_file = true /\ flac_wf ex_notags = true.
Proof. exact ex_wf. Qed.
