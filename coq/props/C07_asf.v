(* C07 (ASF): saving unchanged tags is lossless and idempotent.
   mvalid_attr: names and UNICODE values are valid UTF-16 without NUL code units at either end (what mutagen itself can
   hold after a load: its reader strips NULs and rejects lone surrogates).  asf_canon: the cardinality / level rules of
   the specification for the four tag objects and the header extension.  reload_attrs P: the tag list mutagen's reader
   returns for a file rendered from placement P (ContentDescription fields in their fixed order, language/stream
   None where the object has no such field, the stored number otherwise). *)
From Coq Require Import ZArith List Bool Lia.
Import ListNotations.
Require Import Base.Py Base.ZList Gen.Gen_tags Model.Splice Model.Fam_asf Proofs.C09_policy
  Proofs.Fam_asf_codec Proofs.Fam_asf_save Proofs.Fam_asf_agree Proofs.Fam_asf_attr Proofs.Fam_asf_reopen Proofs.Fam_asf_c01
  Proofs.Fam_asf_mirror Proofs.Fam_asf_canon Proofs.Fam_asf_hist Proofs.Fam_asf_pad Proofs.Fam_asf_c07 Proofs.Fam_asf_lossless
  Proofs.Fam_asf_fix.
Open Scope Z_scope.

(* mutagen reloads what it wrote as exactly the object tree it rendered: unknown objects raw and in place *)
Theorem C07_asf_reopens : forall f t cb f', Forall mvalid_attr t -> asf_save f t cb = Ok f' ->
  exists objs ts, asf_open f = Ok (objs, ts) /\
    asf_open f' = Ok (save_tree f objs t cb, gather (objs_tags (save_tree f objs t cb))).
Proof. exact asf_save_reopens_valid. Qed.
Print Assumptions C07_asf_reopens.

(* lossless: the tags it reloads are the saved ones in their reloaded form *)
Theorem C07_asf_lossless : forall f s t cb f', asf_parse f = Ok s -> asf_canon f = true -> Forall mvalid_attr t ->
  asf_save f t cb = Ok f' -> exists tree, asf_open f' = Ok (tree, reload_attrs (place t)).
Proof. exact asf_save_reload. Qed.
Print Assumptions C07_asf_lossless.

(* idempotent: a second save of the same tag list with the default padding policy is byte-identical *)
Theorem C07_asf_idempotent : forall f t f1, 0 <= header_size f -> Forall mvalid_attr t ->
  asf_save f t cb_default = Ok f1 -> asf_save f1 t cb_default = Ok f1.
Proof. exact asf_save_default_twice_valid. Qed.
Print Assumptions C07_asf_idempotent.

(* load + save unchanged: saving the tags mutagen reloads from a saved file reproduces the file byte for byte *)
Theorem C07_asf_reloaded_idempotent : forall f s t f1, asf_parse f = Ok s -> Forall mvalid_attr t ->
  asf_save f t cb_default = Ok f1 -> asf_save f1 (reload_attrs (place t)) cb_default = Ok f1.
Proof. exact asf_save_reloaded_default. Qed.
Print Assumptions C07_asf_reloaded_idempotent.

(* general form: any callback that, handed the padding now present, returns it *)
Theorem C07_asf_save_again : forall f t cb f1 t' cb', 0 <= header_size f -> Forall mvalid_attr t ->
  asf_save f t cb = Ok f1 -> place t' = place t ->
  (forall p s, asf_info f t = Ok (p, s) -> cb' (Z.max 0 (cb p s)) s = Z.max 0 (cb p s)) ->
  asf_save f1 t' cb' = Ok f1.
Proof. exact asf_save_again_valid. Qed.
Print Assumptions C07_asf_save_again.

(* the placement loop is the identity (up to the fixed field order of ContentDescription) on a reloaded list *)
Theorem C07_asf_place_reload : forall t, place (reload_attrs (place t)) = reloaded (place t).
Proof. intros t. apply place_reload; [apply place_pinv|apply place_cd_text|apply place_cd_dict]. Qed.
Print Assumptions C07_asf_place_reload.

(* the re-rendering is a fixed point on the object list of a saved file *)
Theorem C07_asf_core_fixed_point : forall P l n, core_objs P (core_objs P l ++ [pad_obj n]) = core_objs P l.
Proof. exact core_idem. Qed.
Print Assumptions C07_asf_core_fixed_point.

(* ---- example *)
Definition tiny : list Z :=
  asf_build [OLeaf G_FILE (zeros 64); OExt HEXT_FIXED [(repeat 9 16, [5])]; OLeaf (repeat 8 16) [1; 2; 3]] [7; 8; 9].
Definition tags : list attr :=
  [mkA N_TITLE (VText [72; 105]) None None; mkA [70] (VBool true) None (Some 1); mkA [71] (VQword 77) (Some 2) None;
   mkA N_TITLE (VBytes [1; 2]) None None].
Example tags_mvalid : Forall mvalid_attr tags.
Proof. repeat constructor. Qed.
Example tiny_twice : exists f1, asf_save tiny tags cb_default = Ok f1 /\ asf_save f1 tags cb_default = Ok f1 /\
  asf_save f1 (reload_attrs (place tags)) cb_default = Ok f1.
Proof. eexists. split; [vm_compute; reflexivity|]. split; [vm_compute; reflexivity|vm_compute; reflexivity]. Qed.
