(* C07 (ASF): saving unchanged tags is lossless and idempotent.
   Proved here: (1) unknown header objects are kept raw by every save (C02); (2) a second save of the same tag list with
   the default padding policy is byte-identical, for every tag list whose rendered tag objects mutagen's reader accepts
   (place_loadable: decidable, holds for the empty list by computation; for all valid tag lists it is the mirror-reader
   round trip, which is not proved here -> _partial). *)
From Coq Require Import ZArith List Bool Lia.
Import ListNotations.
Require Import Base.Py Base.ZList Gen.Gen_tags Model.Splice Model.Fam_asf Proofs.C09_policy
  Proofs.Fam_asf_codec Proofs.Fam_asf_save Proofs.Fam_asf_agree Proofs.Fam_asf_reopen Proofs.Fam_asf_hist Proofs.Fam_asf_pad.
Open Scope Z_scope.

(* mutagen reloads what it wrote as exactly the object tree it rendered (unknown objects raw and in place) *)
Theorem C07_asf_reopens_partial : forall f t cb f', asf_save f t cb = Ok f' -> place_loadable (place t) = true ->
  exists objs ts, asf_open f = Ok (objs, ts) /\
    asf_open f' = Ok (save_tree f objs t cb, gather (objs_tags (save_tree f objs t cb))).
Proof. exact asf_save_reopens. Qed.
Print Assumptions C07_asf_reopens_partial.

(* second save byte-identical (default policy) *)
Theorem C07_asf_idempotent_partial : forall f t f1, 0 <= header_size f -> asf_save f t cb_default = Ok f1 ->
  place_loadable (place t) = true -> asf_save f1 t cb_default = Ok f1.
Proof. exact asf_save_default_twice. Qed.
Print Assumptions C07_asf_idempotent_partial.

(* general form: any tag list with the same placement, any callback that keeps the padding now present *)
Theorem C07_asf_save_again_partial : forall f t cb f1 t' cb', 0 <= header_size f -> asf_save f t cb = Ok f1 ->
  place_loadable (place t) = true -> place t' = place t ->
  (forall p s, asf_info f t = Ok (p, s) -> cb' (Z.max 0 (cb p s)) s = Z.max 0 (cb p s)) ->
  asf_save f1 t' cb' = Ok f1.
Proof. exact save_again. Qed.
Print Assumptions C07_asf_save_again_partial.

(* the re-rendering is a fixed point on the object list of a saved file *)
Theorem C07_asf_core_fixed_point : forall P l n, core_objs P (core_objs P l ++ [pad_obj n]) = core_objs P l.
Proof. exact core_idem. Qed.
Print Assumptions C07_asf_core_fixed_point.

(* ---- example: the hypothesis place_loadable holds for ordinary tags (computed) *)
Definition tiny : list Z :=
  asf_build [OLeaf G_FILE (zeros 64); OExt HEXT_FIXED [(repeat 9 16, [5])]; OLeaf (repeat 8 16) [1; 2; 3]] [7; 8; 9].
Definition tags : list attr :=
  [mkA N_TITLE (VText [72; 105]) None None; mkA [70] (VBool true) None (Some 1); mkA [71] (VQword 77) (Some 2) None;
   mkA N_TITLE (VBytes [1; 2]) None None].
Example tags_loadable : place_loadable (place tags) = true.
Proof. vm_compute. reflexivity. Qed.
Example tiny_twice : exists f1, asf_save tiny tags cb_default = Ok f1 /\ asf_save f1 tags cb_default = Ok f1.
Proof. eexists. split; [vm_compute; reflexivity|vm_compute; reflexivity]. Qed.
