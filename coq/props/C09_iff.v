(* C09 (family iff: AIFF / WAVE / DSDIFF) -- the padding callback is obeyed and existing padding is reused.
   iff_save_cb = IffID3.save / _WaveID3.save with ID3._prepare_data modelled (Model.Fam_carrier.id3_prepare):
   the padding lives INSIDE the tag, i.e. inside the ID3 chunk.  The policy part (default policy, no callback =
   default callback) is props/C09.v over the regenerated mutagen/_tags.py. *)
From Coq Require Import ZArith List Bool Lia.
Import ListNotations.
Require Import Base.Py Base.ZList Gen.Gen_tags Model.Splice Model.Fam_carrier Model.Fam_iff
  Proofs.Fam_iff_codec Proofs.Fam_iff_chunks Proofs.Fam_iff_walk Proofs.Fam_iff_ops Proofs.Fam_iff_props
  Proofs.Fam_carrier_lemmas Proofs.Fam_iff_c09.
Open Scope Z_scope.

(* the callback receives (chunk data size - needed, bytes following the chunk payload); (0 - needed, 0) for a new chunk *)
Theorem C09_iff_callback_arguments : forall fl, fl_ok fl = true -> forall f s fd ver cb f',
  iff_parse fl f = Ok s -> iff_save_cb fl f fd ver cb = Ok f' ->
  exists tag, id3_prepare fd ver cb (fst (iff_avail fl s)) (snd (iff_avail fl s)) = Ok tag /\ iff_save fl f tag = Ok f'.
Proof. exact iff_save_cb_decompose. Qed.
Print Assumptions C09_iff_callback_arguments.

(* what id3_prepare does with the callback: it is called on (available - (frame data + 10), trailing), its result p is the
   number of zero bytes after the frame data, a negative result is an error, the tag is one exact ID3v2 tag *)
Theorem C09_iff_padding_obeyed : forall fd ver cb avail trailing tag,
  id3_prepare fd ver cb avail trailing = Ok tag ->
  let p := cb (avail - (zlen fd + 10)) trailing in
  0 <= p /\ zlen tag = zlen fd + 10 + p /\
  (exists sz, zlen sz = 4 /\ tag = ID3_MAGIC ++ [ver; 0; 0] ++ sz ++ fd ++ zeros p) /\ id3_tag_exact tag = true.
Proof. exact id3_prepare_spec. Qed.
Print Assumptions C09_iff_padding_obeyed.
Theorem C09_iff_negative_padding_rejected : forall fd ver cb avail trailing,
  cb (avail - (zlen fd + 10)) trailing < 0 -> id3_prepare fd ver cb avail trailing = Raise EMutagen.
Proof.
  intros fd ver cb avail trailing Hn. unfold id3_prepare, pad_info, _get_padding. cbn [fst snd].
  destruct (cb (avail - (zlen fd + 10)) trailing <? 0) eqn:E; [reflexivity | lia].
Qed.
Print Assumptions C09_iff_negative_padding_rejected.

(* measured in the saved file: the independent reader returns header + frame data + exactly p zero bytes *)
Theorem C09_iff_measured : forall fl, fl_ok fl = true -> forall f fd ver cb f',
  iff_wf fl f = true -> iff_save_cb fl f fd ver cb = Ok f' ->
  exists tag sz p, iff_load fl f' = Ok (Some tag) /\ 0 <= p /\ zlen sz = 4 /\
    tag = ID3_MAGIC ++ [ver; 0; 0] ++ sz ++ fd ++ zeros p /\
    exists s, iff_parse fl f = Ok s /\ p = cb (fst (iff_avail fl s) - (zlen fd + 10)) (snd (iff_avail fl s)).
Proof.
  intros fl Hfl f fd ver cb f' Hw Hsv. destruct (wf_parse fl f Hw) as [s Hp].
  destruct (iff_save_cb_decompose fl Hfl f s fd ver cb f' Hp Hsv) as (tag & Hpr & Hs).
  destruct (id3_prepare_spec _ _ _ _ _ _ Hpr) as (P0 & _ & (sz & Lsz & Et) & _). cbv zeta in *.
  exists tag, sz, (cb (fst (iff_avail fl s) - (zlen fd + 10)) (snd (iff_avail fl s))).
  split; [eapply iff_load_after_save; eassumption|]. repeat split; try assumption. exists s. split; [exact Hp | reflexivity].
Qed.
Print Assumptions C09_iff_measured.

(* returning info.padding (>= 0) keeps the file size and every byte outside the chunk payload and its pad byte *)
Theorem C09_iff_keep : forall fl, fl_ok fl = true -> forall f s pre c post fd ver cb f',
  iff_parse fl f = Ok s -> split_id3 fl (s_chunks s) = Some (pre, c, post) ->
  cb (zlen (cdata c) - (zlen fd + 10)) (snd (iff_avail fl s)) = zlen (cdata c) - (zlen fd + 10) ->
  iff_save_cb fl f fd ver cb = Ok f' ->
  let off := hsize fl + 4 + zlen (render_chunks fl pre) + hsize fl in
  zlen f' = zlen f /\ ztake off f' = ztake off f /\
  zdrop (off + zlen (cdata c) + zlen (cpad c)) f' = zdrop (off + zlen (cdata c) + zlen (cpad c)) f.
Proof.
  intros fl Hfl f s pre c post fd ver cb f' Hp Sp Hk Hsv off.
  destruct (iff_save_cb_decompose fl Hfl f s fd ver cb f' Hp Hsv) as (tag & Hpr & Hs).
  assert (Ea : fst (iff_avail fl s) = zlen (cdata c)) by (unfold iff_avail; rewrite Sp; reflexivity).
  rewrite Ea in Hpr. pose proof (id3_prepare_keep _ _ _ _ _ _ Hpr Hk) as Lt.
  destruct (iff_keep_size fl Hfl f s pre c post tag f' Hp Sp Lt Hs) as (A & B & C & _). repeat split; assumption.
Qed.
Print Assumptions C09_iff_keep.

Definition ex_wave : list Z :=
  iff_build wave s_WAVE [([102; 109; 116; 32], [1]); (s_ID3 ++ [32], [73; 68; 51; 4; 0; 0; 0; 0; 0; 20] ++ zeros 20); ([100; 97; 116; 97], [7; 7; 7])].
Definition ex_fd : list Z := [84; 73; 84; 50; 0; 0; 0; 2; 0; 0; 3; 65].
Example C09_iff_ex_keep : match iff_save_cb wave ex_wave ex_fd 4 cb_keep with Ok f' => zlen f' = zlen ex_wave /\ iff_wf wave f' = true | Raise _ => False end.
Proof. vm_compute. split; reflexivity. Qed.
Example C09_iff_ex_info : match iff_target wave ex_wave with Ok t => iff_padinfo wave t ex_fd = (30 - 22, 8 + 3 + 1) | Raise _ => False end.
Proof. vm_compute. reflexivity. Qed.
Example C09_iff_ex_zero : match iff_save_cb wave ex_wave ex_fd 4 (cb_const 0) with Ok f' => zlen f' = zlen ex_wave - 8 | Raise _ => False end.
Proof. vm_compute. reflexivity. Qed.
