(* C09 (FLAC family) -- The padding callback is obeyed and existing padding is reused.
   MetadataBlock._writeblocks: info = PaddingInfo(available - (blocks + 4), content_size);
   padding block length = min(info._get_padding(callback), 2^24 - 1); Padding.write gives b"" for a negative length. *)
From Coq Require Import ZArith List Bool Lia.
Import ListNotations.
Require Import Base.Py Base.ZList Gen.Gen_tags Model.Splice Model.Fam_flac
  Proofs.Fam_flac_codec Proofs.Fam_flac_walk Proofs.Fam_flac_save Proofs.Fam_flac_thms Proofs.Fam_flac_final Proofs.Fam_flac_examples.
Open Scope Z_scope.

(* the callback is called with (info.padding, info.size) = (old metadata region - (non-padding blocks + 4), audio size);
   the padding measured in the saved file is its answer, capped at 2^24 - 1 (and 0 for a negative answer);
   the file size changes by exactly (padding found) - (info.padding) *)
Theorem C09_flac_padding : forall f s t o f', flac_wf f = true -> flac_parse f = Ok s -> o_deleteid3 o = false ->
  flac_save f t o = Ok f' ->
  info_padding s t = (zlen f - zlen (fprefix s) - 4 - zlen (faudio s)) -
                     (blocks_extent (nonpad (set_vc (fblocks s) (vc_render t))) + 4) /\
  exists s', flac_parse f' = Ok s' /\
    flac_padding s' = Z.max 0 (Z.min (_get_padding (o_cb o) (info_padding s t) (zlen (faudio s))) MAXSZ) /\
    zlen f' = zlen f - info_padding s t + flac_padding s'.
Proof. exact final_save_padding. Qed.
Print Assumptions C09_flac_padding.

(* returning info.padding (non-negative, representable in the 24-bit size field) leaves the file size and the position
   of prefix, stream marker and audio unchanged *)
Theorem C09_flac_keep : forall f s t o f', flac_wf f = true -> flac_parse f = Ok s -> o_deleteid3 o = false ->
  flac_save f t o = Ok f' ->
  _get_padding (o_cb o) (info_padding s t) (zlen (faudio s)) = info_padding s t -> 0 <= info_padding s t <= MAXSZ ->
  zlen f' = zlen f /\
  ztake (zlen (fprefix s) + 4) f' = ztake (zlen (fprefix s) + 4) f /\
  zdrop (zlen f - zlen (faudio s)) f' = zdrop (zlen f - zlen (faudio s)) f.
Proof. exact final_save_keep. Qed.
Print Assumptions C09_flac_keep.

(* no callback = the default policy passed as a callback *)
Theorem C09_flac_no_callback : forall f t d,
  flac_save f t (mkOpts None d) = flac_save f t (mkOpts (Some get_default_padding) d).
Proof. exact save_no_callback. Qed.
Print Assumptions C09_flac_no_callback.

(* an edit that fits into existing padding of at most 1 KiB does not resize the file *)
Theorem C09_flac_fits_moderate : forall f s t f', flac_wf f = true -> flac_parse f = Ok s ->
  flac_save f t (mkOpts None false) = Ok f' -> 0 <= info_padding s t <= 1024 ->
  zlen f' = zlen f /\
  ztake (zlen (fprefix s) + 4) f' = ztake (zlen (fprefix s) + 4) f /\
  zdrop (zlen f - zlen (faudio s)) f' = zdrop (zlen f - zlen (faudio s)) f.
Proof. exact final_fits_moderate. Qed.
Print Assumptions C09_flac_fits_moderate.

Example C09_flac_ex_same_size : zlen (get [] (flac_save ex_file ex_new (ex_opts None))) = zlen ex_file.
Proof. exact ex_save_same_size. Qed.
Example C09_flac_ex_resizes : zlen (get [] (flac_save ex_file ex_new (ex_opts (Some (cb_const 777))))) = zlen ex_file + 769.
Proof. exact ex_save_resizes. Qed.
Example C09_flac_ex_wf : flac_wf ex_file = true /\ flac_wf ex_notags = true.
Proof. exact ex_wf. Qed.
