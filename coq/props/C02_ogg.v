(* C02 (Ogg family) -- Saving or deleting tags never alters audio or foreign data.
   Files are read by the strict walker ogg_parse (page list) before and after.  s is the logical stream of the old
   comment pages.  (1) every page of every other stream is the same page (hence byte-identical: same rendering) and
   the pages of the other streams keep their relative order; lifted to histories per stream.  (2) when the comment
   packet starts on a page boundary (the first old page is not a continued page -- what every codec mapping
   prescribes) the packets of the edited stream, reassembled by the independent reader, change in exactly one
   element: the comment packet.  No size bounds. *)
From Coq Require Import ZArith List Bool Lia.
Import ListNotations.
Require Import Base.Py Base.ZList Gen.Gen_tags Model.Crc Model.Ogg Model.Fam_flac Model.Fam_ogg
  Proofs.C15_page Proofs.C15_file Proofs.C15_replace
  Proofs.Fam_ogg_scan Proofs.Fam_ogg_stream Proofs.Fam_ogg_inject Proofs.Fam_ogg_thms Proofs.Fam_ogg_final
  Proofs.Fam_ogg_packets Proofs.Fam_ogg_c02 Proofs.Fam_ogg_examples.
Open Scope Z_scope.

Theorem C02_ogg_save_obj : forall f c t pad cb f', ogg_wf f = true -> ogg_save_obj f c t pad cb = Ok f' ->
  exists pages pages' s, ogg_parse f = Ok pages /\ ogg_parse f' = Ok pages' /\
    filter (not_serial s) pages' = filter (not_serial s) pages.
Proof. exact save_obj_others. Qed.
Print Assumptions C02_ogg_save_obj.

Theorem C02_ogg_save : forall f c t cb f', ogg_wf f = true -> ogg_save f c t cb = Ok f' -> ogg_others_kept f f'.
Proof. exact save_others. Qed.
Print Assumptions C02_ogg_save.

Theorem C02_ogg_delete : forall f c f', ogg_wf f = true -> ogg_delete f c = Ok f' -> ogg_others_kept f f'.
Proof. exact delete_others. Qed.
Print Assumptions C02_ogg_delete.

(* histories: a stream that is never the edited one keeps exactly its pages, in order, through the whole history;
   at most one stream is edited per operation *)
Theorem C02_ogg_history : forall c ops f, ogg_wf f = true ->
  exists ss, (length ss <= length ops)%nat /\
    forall s, ~ In s ss -> ogg_same_stream s f (fold_left (ogg_step c) ops f).
Proof. exact history_streams. Qed.
Print Assumptions C02_ogg_history.

(* (2) the packets of the edited stream: k describes the cut of the file around the old pages (cut_ok), cut_p0 k is the
   old comment packet, cut_d k the new one (ogg_f_new_packet); every other packet of the stream is unchanged and in
   place.  Hypothesis of the inner statement: the first old page is not a continued page. *)
Theorem C02_ogg_packets_partial : forall f c t pad cb f' pages,
  ogg_parse f = Ok pages -> ogg_f_streams_ok pages = true ->
  ogg_save_obj f c t pad cb = Ok f' ->
  exists olds news k,
    cut_ok c t pad cb pages olds news k /\ ogg_parse f' = Ok (cut_result k news) /\
    filter (not_serial (cut_s k)) (cut_result k news) = filter (not_serial (cut_s k)) pages /\
    (continued (cut_old0 k) = false ->
     exists post,
       ogg_f_stream_packets (cut_s k) pages =
         ogg_f_unpage (filter (is_serial (cut_s k)) (cut_before k)) ++ [cut_p0 k] ++ post /\
       ogg_f_stream_packets (cut_s k) (cut_result k news) =
         ogg_f_unpage (filter (is_serial (cut_s k)) (cut_before k)) ++ [cut_d k] ++ post) /\
    ogg_f_inject c t pad cb f = Ok (olds, news).
Proof. exact save_obj_packets. Qed.
Print Assumptions C02_ogg_packets_partial.

(* regression (former C02_ogg_wrong_stream_refuted; fixed in /repo): the edited stream is the tagged one -- in the file
   with a page of stream 9 starting with b"\x03vorbis" in front of the Vorbis comment page, save() leaves every page of
   stream 9 as it is *)
Example C02_ogg_ex_foreign_marker_regression :
  ogg_wf ex_bait = true /\ ogg_save ex_bait OVorbis ex_tags (Some (cb_const 0)) = Ok ex_bait_saved /\
  ogg_parse ex_bait_saved = Ok ex_bait_saved_pages /\ ogg_f_tagged OVorbis ex_bait_pages = Some 5 /\
  filter (ogg_f_is_serial 9) ex_bait_saved_pages = filter (ogg_f_is_serial 9) ex_bait_pages.
Proof. destruct ex_bait_regression as (A & _ & C & _ & _ & F & G & H). repeat split; assumption. Qed.

(* non-vacuity: a multiplexed file (Vorbis stream 5, foreign stream 9) *)
Example C02_ogg_ex :
  ogg_save ex_vorbis OVorbis ex_tags (Some (cb_const 2)) = Ok ex_vorbis_saved /\ ogg_wf ex_vorbis_saved = true /\
  ogg_load ex_vorbis_saved OVorbis = Ok (ex_tags, 2) /\ zlen ex_vorbis_saved = zlen ex_vorbis + 7.
Proof. exact ex_vorbis_save. Qed.
