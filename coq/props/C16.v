(* C16 -- Tag objects behave as dictionaries with documented key rules.
   Model.Dict mirrors DictMixin (every derived operation over keys/getitem/setitem/delitem with its
   try/except structure), VCommentDict, _CIDictProxy+APEv2, DictProxy/ID3Tags and FileType proxying.
   The theorems are refinements to a plain finite map from the NORMALISED key to the stored value
   (ref_step: every operation stated directly on the map), for EVERY finite operation sequence, with
   exception classes (KeyError / ValueError / TypeError) part of the compared outputs. *)
From Coq Require Import ZArith List Bool Lia.
Import ListNotations.
Require Import Base.Py Base.ZList Model.Dict Proofs.C16_pydict Proofs.C16_generic Proofs.C16_laws
  Proofs.C16_proxy Proofs.C16_vcomment Proofs.C16_examples.
Open Scope Z_scope.

(* ---- proved once, generically over the primitive interface ---- *)

(* if the four primitives of D1 refine those of D2 (under an invariant), so does every DictMixin
   operation: same output or exception, corresponding state, invariant kept *)
Theorem C16_dictmixin_simulation : forall (S1 S2 V : Type) (D1 : DictBase S1 V) (D2 : DictBase S2 V)
  (inv : S1 -> Prop) (abs : S1 -> S2), prim_refines D1 D2 inv abs ->
  forall s o, inv s ->
    fst (dm_step D1 s o) = fst (dm_step D2 (abs s) o) /\
    abs (snd (dm_step D1 s o)) = snd (dm_step D2 (abs s) o) /\ inv (snd (dm_step D1 s o)).
Proof. intros S1 S2 V D1 D2 inv abs PR s o H. exact (dm_step_sim D1 D2 inv abs PR s o H). Qed.
Print Assumptions C16_dictmixin_simulation.

(* DictMixin's try/except code over the reference primitives computes exactly the operation stated
   directly on the map (contains, get-default, setdefault, pop, popitem, update, clear, values, items, len) *)
Theorem C16_dictmixin_on_reference_is_direct : forall (V W : Type) (sp : RefSpec V W), spec_ok sp ->
  forall r o, ref_wf sp r -> dm_step (RefD sp) r o = ref_step sp r o /\ ref_wf sp (snd (ref_step sp r o)).
Proof. intros V W sp OK r o WF. split; [apply ref_direct | apply ref_step_wf]; assumption. Qed.
Print Assumptions C16_dictmixin_on_reference_is_direct.

(* the reference is a finite map on normalised keys: any spelling of the key reads what was set,
   other keys are unaffected, delete makes every spelling absent, keys() reflects membership *)
Theorem C16_reference_map_laws : forall (V W : Type) (sp : RefSpec V W) (r : refmap W),
  (forall k k' nk v w, r_key sp k = Ok nk -> r_key sp k' = Ok nk -> r_val sp v = Ok (Some w) ->
     fst (ref_set sp r k v) = Ok tt /\ ref_get sp (snd (ref_set sp r k v)) k' = Ok (r_out sp w)) /\
  (forall k k' nk nk' v, r_key sp k = Ok nk -> r_key sp k' = Ok nk' -> nk <> nk' ->
     ref_get sp (snd (ref_set sp r k v)) k' = ref_get sp r k' /\
     ref_get sp (snd (ref_del sp r k)) k' = ref_get sp r k') /\
  (forall k k' nk, r_key sp k = Ok nk -> r_key sp k' = Ok nk -> pd_mem nk r = true ->
     fst (ref_del sp r k) = Ok tt /\ ref_get sp (snd (ref_del sp r k)) k' = Raise EKey) /\
  (forall k nk, r_key sp k = Ok nk -> pd_mem nk r = false -> ref_del sp r k = (Raise EKey, r)) /\
  (forall k e v, r_key sp k = Raise e ->
     ref_get sp r k = Raise e /\ ref_set sp r k v = (Raise e, r) /\ ref_del sp r k = (Raise e, r)) /\
  (forall k v e, fst (ref_set sp r k v) = Raise e -> snd (ref_set sp r k v) = r) /\
  (forall k nk, ref_wf sp r -> r_key sp k = Ok nk ->
     (pd_mem nk r = true <-> exists dk, In dk (ref_keys r) /\ r_key sp dk = Ok nk)).
Proof.
  intros V W sp r. split; [|split; [|split; [|split; [|split; [|split]]]]].
  - intros k k' nk v w A B C. exact (ref_get_after_set sp r k k' nk v w A B C).
  - intros k k' nk nk' v A B C. split.
    + exact (ref_get_set_other sp r k k' nk nk' v A B C).
    + exact (ref_get_del_other sp r k k' nk nk' A B C).
  - intros k k' nk A B C. exact (ref_del_present sp r k k' nk A B C).
  - intros k nk A B. exact (ref_del_absent sp r k nk A B).
  - intros k e v A. exact (ref_invalid_key sp r k e v A).
  - intros k v e A. exact (ref_set_raise_unchanged sp r k v e A).
  - intros k nk A B. exact (ref_keys_membership sp r k nk A B).
Qed.
Print Assumptions C16_reference_map_laws.

(* ---- VCommentDict: case-insensitive keys, ValueError for invalid keys, list values ---- *)
Theorem C16_vcomment_prim_refines : prim_refines VC (RefD vc_spec) vc_inv vc_abs.
Proof. exact vc_prim_refines. Qed.
Print Assumptions C16_vcomment_prim_refines.

(* every sequence of the mapping operations VCommentDict offers, from the empty comment *)
Theorem C16_vcomment_refines : forall ops, Forall (fun o => vc_offers o = true) ops ->
  outputs vc_step [] ops = outputs vc_ref_step [] ops /\
  vc_abs (final vc_step [] ops) = final vc_ref_step [] ops.
Proof. intros ops F. apply (vc_refines ops []); [constructor | exact F]. Qed.
Print Assumptions C16_vcomment_refines.

(* ... and from any comment whose keys are valid (e.g. one loaded from a file) *)
Theorem C16_vcomment_refines_from : forall s ops, vc_inv s -> Forall (fun o => vc_offers o = true) ops ->
  outputs vc_step s ops = outputs vc_ref_step (vc_abs s) ops /\
  vc_abs (final vc_step s ops) = final vc_ref_step (vc_abs s) ops.
Proof. intros s ops H F. apply vc_refines; assumption. Qed.
Print Assumptions C16_vcomment_refines_from.

(* through a file object (FLAC, Ogg ...): all DictMixin operations incl. pop/popitem, tags possibly None *)
Theorem C16_vcomment_file_refines : forall f ops, oinv vc_inv f ->
  outputs (dm_step (FileProxy VC [])) f ops = outputs (fref_step vc_spec) (option_map vc_abs f) ops /\
  option_map vc_abs (final (dm_step (FileProxy VC [])) f ops) =
  final (fref_step vc_spec) (option_map vc_abs f) ops.
Proof. intros f ops H. apply fvc_refines; exact H. Qed.
Print Assumptions C16_vcomment_file_refines.

Theorem C16_vcomment_invalid_key : forall s k v, vc_valid k = false ->
  vc_get s k = Raise EValue /\ vc_set s k v = (Raise EValue, s) /\ vc_del s k = (Raise EValue, s) /\
  vc_contains s k = Raise EValue.
Proof. exact vc_model_invalid. Qed.
Print Assumptions C16_vcomment_invalid_key.

(* the list.remove loop of __delitem__ removes exactly the pairs of that key *)
Theorem C16_vcomment_delete_loop : forall p (s : vc_state),
  fold_left (fun acc item => remove_first item acc) (filter p s) s = filter (fun x => negb (p x)) s.
Proof. exact remove_loop0. Qed.
Print Assumptions C16_vcomment_delete_loop.

(* ---- _CIDictProxy + APEv2: case-insensitive, case of the last set remembered, KeyError for invalid keys ---- *)
Theorem C16_apev2_prim_refines : prim_refines APE (RefD ape_spec) ape_inv ape_abs.
Proof. exact ape_prim_refines. Qed.
Print Assumptions C16_apev2_prim_refines.

Theorem C16_apev2_refines : forall ops,
  outputs (dm_step APE) ape_empty ops = outputs (ref_step ape_spec) [] ops /\
  ape_abs (final (dm_step APE) ape_empty ops) = final (ref_step ape_spec) [] ops.
Proof. intros ops. apply (ape_refines ops ape_empty). exact ape_empty_inv. Qed.
Print Assumptions C16_apev2_refines.

Theorem C16_apev2_refines_from : forall s ops, ape_inv s ->
  outputs (dm_step APE) s ops = outputs (ref_step ape_spec) (ape_abs s) ops /\
  ape_abs (final (dm_step APE) s ops) = final (ref_step ape_spec) (ape_abs s) ops.
Proof. intros s ops H. apply ape_refines; exact H. Qed.
Print Assumptions C16_apev2_refines_from.

Theorem C16_apev2_file_refines : forall f ops, oinv ape_inv f ->
  outputs (dm_step (FileProxy APE ape_empty)) f ops = outputs (fref_step ape_spec) (option_map ape_abs f) ops /\
  option_map ape_abs (final (dm_step (FileProxy APE ape_empty)) f ops) =
  final (fref_step ape_spec) (option_map ape_abs f) ops.
Proof. intros f ops H. apply fape_refines; exact H. Qed.
Print Assumptions C16_apev2_file_refines.

Theorem C16_apev2_invalid_key : forall s k v, ape_valid k = false ->
  ape_get s k = Raise EKey /\ ape_set s k v = (Raise EKey, s) /\ ape_del s k = (Raise EKey, s) /\
  dm_contains APE s k = Ok false.
Proof. exact ape_model_invalid. Qed.
Print Assumptions C16_apev2_invalid_key.

(* ---- DictProxy / ID3Tags: exact keys (frame hash keys), TypeError for a non-frame value ---- *)
Theorem C16_id3_prim_refines : prim_refines ID3D (RefD id3_spec) id3_inv id3_abs.
Proof. exact id3_prim_refines. Qed.
Print Assumptions C16_id3_prim_refines.

Theorem C16_id3_refines : forall ops,
  outputs (dm_step ID3D) [] ops = outputs (ref_step id3_spec) [] ops /\
  id3_abs (final (dm_step ID3D) [] ops) = final (ref_step id3_spec) [] ops.
Proof. intros ops. apply (id3_refines ops []). constructor. Qed.
Print Assumptions C16_id3_refines.

Theorem C16_id3_refines_from : forall s ops, NoDup (map fst s) ->
  outputs (dm_step ID3D) s ops = outputs (ref_step id3_spec) (id3_abs s) ops /\
  id3_abs (final (dm_step ID3D) s ops) = final (ref_step id3_spec) (id3_abs s) ops.
Proof. intros s ops H. apply id3_refines; exact H. Qed.
Print Assumptions C16_id3_refines_from.

Theorem C16_id3_file_refines : forall f ops, oinv id3_inv f ->
  outputs (dm_step (FileProxy ID3D [])) f ops = outputs (fref_step id3_spec) (option_map id3_abs f) ops /\
  option_map id3_abs (final (dm_step (FileProxy ID3D [])) f ops) =
  final (fref_step id3_spec) (option_map id3_abs f) ops.
Proof. intros f ops H. apply fid3_refines; exact H. Qed.
Print Assumptions C16_id3_file_refines.

(* ID3Tags.add files the frame under its own HashKey; a non-frame is a TypeError *)
Theorem C16_id3_add : forall s hk p x,
  dp_get (snd (id3_add s (IFrame hk p))) hk = Ok (IFrame hk p) /\
  id3_add s (INotFrame x) = (Raise EType, s).
Proof. intros. split; [apply id3_add_get | apply id3_add_rejects]. Qed.
Print Assumptions C16_id3_add.

(* ---- non-vacuity: concrete mixed-case interleavings, evaluated by the kernel ---- *)
Example C16_ex_vcomment :
  outputs vc_step [] ex_vc_ops =
  [Ok ONone; Ok (OBool true); Ok ONone; Raise EKey; Ok (OVal (VOne s_x)); Ok (OVal (VMany [s_x]));
   Ok ONone; Ok (OVal (VMany [s_p; s_q])); Ok (OKeys [k_title; k_artist]); Raise EValue; Raise EValue;
   Ok (OVal (VMany [s_z])); Ok (OItems [(k_title, VMany [s_p; s_q]); (k_artist, VMany [s_z])]);
   Ok (OLen 3); Ok ONone; Ok (OKeys [k_title]); Ok ONone; Ok (OKeys [])]
  /\ outputs vc_ref_step [] ex_vc_ops = outputs vc_step [] ex_vc_ops
  /\ forallb vc_offers ex_vc_ops = true.
Proof. vm_compute. repeat split. Qed.

Example C16_ex_vcomment_file :
  outputs (dm_step (FileProxy VC [])) None ex_fvc_ops =
  [Raise EKey; Ok (OBool false); Raise EKey; Ok ONone; Ok (OVal (VMany [s_a; s_x])); Ok (OVal (VOne s_z));
   Ok ONone; Ok ONone; Ok (OPair k_artist (VMany [s_p])); Ok (OItems [(k_title, VMany [s_q])]); Raise EValue]
  /\ outputs (fref_step vc_spec) None ex_fvc_ops = outputs (dm_step (FileProxy VC [])) None ex_fvc_ops.
Proof. vm_compute. repeat split. Qed.

Example C16_ex_apev2 :
  outputs (dm_step APE) ape_empty ex_ape_ops =
  [Ok ONone; Ok (OBool true); Ok (OKeys [k_Title]); Ok ONone; Ok (OKeys [k_title]);
   Ok (OVal (AValue 0 [112; 0; 113])); Ok ONone; Raise EKey; Raise EKey; Ok (OBool false); Raise EKey;
   Raise EType; Raise EType; Ok (OVal (ABytes [0; 255])); Ok (OVal (AValue 1 [0; 255])); Ok ONone;
   Ok (OItems [(k_Artist, AValue 1 [0; 255]); (k_Title, AValue 0 s_z)]); Ok (OVal (AValue 0 s_z));
   Ok (OPair k_Artist (AValue 1 [0; 255])); Ok (OLen 0)]
  /\ outputs (ref_step ape_spec) [] ex_ape_ops = outputs (dm_step APE) ape_empty ex_ape_ops.
Proof. vm_compute. repeat split. Qed.

Example C16_ex_id3 :
  outputs (dm_step ID3D) [] ex_id3_ops =
  [Ok ONone; Ok ONone; Ok (OKeys [k_TITLE; k_title]); Ok (OBool false); Raise EType; Raise EType;
   Ok (OVal (IFrame k_TITLE 1)); Ok (OItems [(k_title, IFrame k_TITLE 2)])]
  /\ outputs (ref_step id3_spec) [] ex_id3_ops = outputs (dm_step ID3D) [] ex_id3_ops.
Proof. vm_compute. repeat split. Qed.

(* the hypotheses of the "_from" theorems are satisfiable by non-empty states *)
Example C16_ex_invariants :
  vc_inv [(k_Title, s_a); (k_artist, s_p); (k_TITLE, s_q)] /\
  ape_inv (mkCI [(k_title, k_Title)] [(k_title, (0, s_a))]) /\
  NoDup (map fst [(k_TITLE, IFrame k_TITLE 1)]).
Proof.
  split; [|split].
  - repeat constructor.
  - unfold ape_inv. cbn [ci_casemap ci_dict map fst]. split; [repeat constructor; intros []|].
    split; [repeat constructor; intros []|]. split.
    + intros lk. unfold pd_mem. cbn. destruct (list_eqb lk k_title); reflexivity.
    + intros lk k. cbn. destruct (list_eqb lk k_title) eqn:E; [|discriminate].
      intros H. inversion H; subst. apply list_eqb_spec in E. subst. split; reflexivity.
  - repeat constructor. intros [].
Qed.
