(* C04 (File) -- Malformed input is rejected cleanly: mutagen.File's own dispatch (read 128 bytes, the 24
   regenerated score functions of Gen.Gen_scores, sort, instantiate the winner) adds no exception of its own
   on ANY byte string and ANY file name: the winner is always one of the options (never an IndexError /
   unpacking error from the selection), File returns None exactly when no score is positive, and otherwise
   its outcome IS the outcome of the chosen loader.  Hence: if every loader of the options list is total
   (Ok or EMutagen) on an input, so is File -- the composition step that lifts the per-loader theorems
   C04_<K>_total to the `File` opener of the property.  The loader family is a parameter; C04_File_total_on
   instantiates it per input with whatever loader outcomes the mirrors provide. *)
From Coq Require Import ZArith List Bool Lia.
Import ListNotations.
Require Import Base.Py Model.ScorePrims Gen.Gen_scores Model.Score Model.Parse_base Model.Parse_file
  Model.Parse_dsf Proofs.C04_file Proofs.C04_dsf.
Open Scope Z_scope.

Theorem C04_File_choice_total : forall fname bytes, exists r, file_choice fname bytes = Ok r /\
  match r with
  | None => detect fname (file_header bytes) (Some (file_trailer bytes)) = None
  | Some k => In k options /\ detect fname (file_header bytes) (Some (file_trailer bytes)) = Some (cls_name k)
  end.
Proof. exact file_choice_ok. Qed.
Print Assumptions C04_File_choice_total.

(* total r := match r with Ok _ => True | Raise e => e = EMutagen end   (Model.Parse_base) *)
Theorem C04_File_total_on : forall (A : Type) (load : cls -> list Z -> result A) fname bytes,
  (forall k, In k options -> total (load k bytes)) -> total (file_dispatch load fname bytes).
Proof. exact (@file_dispatch_total). Qed.
Print Assumptions C04_File_total_on.

Theorem C04_File_outcome : forall (A : Type) (load : cls -> list Z -> result A) fname bytes,
  match file_choice fname bytes with
  | Ok (Some k) => file_dispatch load fname bytes = match load k bytes with Ok a => Ok (Some (k, a)) | Raise e => Raise e end
  | Ok None => file_dispatch load fname bytes = Ok None
  | Raise _ => False
  end.
Proof. intros A load fname bytes. apply file_dispatch_outcome. Qed.
Print Assumptions C04_File_outcome.

(* ---- non-vacuity: a DSF header is dispatched to DSF whatever the name; garbage gives None; the DSF mirror
   plugged in as the loader of C_DSF makes File total on every input that File hands to DSF ---- *)
Definition ex_dsf_head : list Z := [68;83;68;32; 28;0;0;0;0;0;0;0; 92;0;0;0;0;0;0;0; 0;0;0;0;0;0;0;0].
Example C04_File_ex_choice :
  file_choice [] ex_dsf_head = Ok (Some C_DSF) /\
  file_choice [120; 46; 109; 112; 51] ex_dsf_head = Ok (Some C_DSF) /\
  file_choice [] [1; 2; 3] = Ok None /\
  file_choice [] [] = Ok None /\
  file_header (repeat 7 200) = repeat 7 128 /\ file_trailer (repeat 7 200) = repeat 7 160 /\
  file_trailer [1; 2; 3] = [1; 2; 3].
Proof. vm_compute. repeat split; reflexivity. Qed.

Definition ex_loaders (k : cls) (d : list Z) : result unit :=
  match k with
  | C_DSF => match dsf_load d with Ok _ => Ok tt | Raise e => Raise e end
  | _ => Raise EMutagen
  end.
Example C04_File_ex_dsf_total : forall fname bytes, total (file_dispatch ex_loaders fname bytes).
Proof.
  intros fname bytes. apply C04_File_total_on. intros k _. destruct k; cbn [ex_loaders]; try reflexivity.
  pose proof (dsf_total bytes) as H. unfold total in *. destruct (dsf_load bytes); [exact I|exact H].
Qed.
Example C04_File_ex_dsf_truncated : file_dispatch ex_loaders [] ex_dsf_head = Raise EMutagen.
Proof. vm_compute. reflexivity. Qed.
