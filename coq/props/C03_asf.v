(* C03 (ASF): files stay structurally valid through any edit history.
   Theorems about Model.Fam_asf (asf_save / asf_delete mirror mutagen.asf.ASF.save / delete byte for byte; tied to
   /repo by the correspondence harness/fam/corr_asf.py).  asf_wf = the strict walker asf_parse accepts the file
   (header size = 30 + sum of the object sizes, tiled exactly by the declared number of objects, header-extension
   data size = extent of its children, which tile it exactly) and the reserved fields of the header extension
   have their specified values.  Quantified over every file f (any byte list), tag list t, padding callback cb. *)
From Coq Require Import ZArith List Bool Lia.
Import ListNotations.
Require Import Base.Py Base.ZList Model.Fam_asf Proofs.Fam_asf_codec Proofs.Fam_asf_save Proofs.Fam_asf_agree
  Proofs.Fam_asf_hist.
Open Scope Z_scope.

Theorem C03_asf_wf_parses : forall f, asf_wf f = true -> exists s, asf_parse f = Ok s.
Proof. intros f H. unfold asf_wf in H. destruct (asf_parse f) as [s|]; [eauto|discriminate]. Qed.
Print Assumptions C03_asf_wf_parses.

(* one step: no hypothesis on the input file is needed, every header that save writes is valid *)
Theorem C03_asf_save_wf : forall f t cb f', asf_save f t cb = Ok f' -> asf_wf f' = true.
Proof. exact asf_save_wf. Qed.
Print Assumptions C03_asf_save_wf.

Theorem C03_asf_delete_wf : forall f f', asf_delete f = Ok f' -> asf_wf f' = true.
Proof. exact asf_delete_wf. Qed.
Print Assumptions C03_asf_delete_wf.

(* the explicit accounting, read back from the bytes of the saved file *)
Theorem C03_asf_save_accounting : forall f t cb f', asf_save f t cb = Ok f' ->
  exists s', asf_parse f' = Ok s' /\
    header_size f' = 30 + sum_sizes (sobjs s') /\
    le_decode (zslice 24 28 f') = zlen (sobjs s') /\
    zlen f' = header_size f' + zlen (sdata s') /\
    forall fx ch, In (OExt fx ch) (sobjs s') ->
      le_decode (zslice 18 22 (snd (obj_raw (OExt fx ch)))) = sum_raw_sizes ch.
Proof. exact asf_save_accounting. Qed.
Print Assumptions C03_asf_save_accounting.

(* any rendered header, whatever follows it, parses back to its tree: sizes and counts are those of the tree *)
Theorem C03_asf_render_parse : forall l data, Forall obj_shaped l -> forallb obj_packs l = true -> header_packs l = true ->
  asf_parse (render_header l ++ data) = Ok (mkS l data).
Proof. exact parse_render_header. Qed.
Print Assumptions C03_asf_render_parse.

(* every finite sequence of saves (any tags, any callback) and deletes; an operation that raises changes nothing *)
Theorem C03_asf_history : forall ops f, asf_wf f = true -> asf_wf (fold_left step ops f) = true.
Proof. exact history_wf. Qed.
Print Assumptions C03_asf_history.

(* ... and the stream-describing objects (FileProperties, StreamProperties, CodecList: unknown objects to the tag
   code, members of `foreign`) and the data section are those of the original file *)
Theorem C03_asf_history_foreign : forall ops f, asf_wf f = true -> has_ext f = true ->
  asf_wf (fold_left step ops f) = true /\ foreign_of (fold_left step ops f) = foreign_of f.
Proof. exact history_keeps. Qed.
Print Assumptions C03_asf_history_foreign.

(* ---- the hypotheses are satisfiable and the functions compute: a tiny file *)
Definition tiny : list Z :=
  asf_build [OLeaf G_FILE (zeros 64); OExt HEXT_FIXED [(G_PAD, [0; 0; 0]); (repeat 9 16, [5])]; OLeaf G_PAD [0; 0]] [7; 8; 9].
Definition a_title : attr := mkA N_TITLE (VText [72; 105]) None None.
Definition a_flag : attr := mkA [70] (VBool true) None (Some 1).
Example tiny_wf : asf_wf tiny = true /\ has_ext tiny = true.
Proof. vm_compute. split; reflexivity. Qed.
Example tiny_save_ok : exists f', asf_save tiny [a_title; a_flag] cb_default = Ok f' /\ zlen f' = 1376 /\ asf_wf f' = true.
Proof. eexists. split; [vm_compute; reflexivity|]. split; [vm_compute; reflexivity|vm_compute; reflexivity]. Qed.
Example tiny_history :
  asf_wf (fold_left step [OpSave [a_title] (cb_const 3); OpDelete; OpSave [a_flag; a_title] cb_keep; OpDelete] tiny) = true.
Proof. apply C03_asf_history. vm_compute. reflexivity. Qed.
(* a header whose declared size is off by one is not well-formed *)
Example tiny_bad_size : asf_wf (ztake 16 tiny ++ [znth 16 tiny + 1] ++ zdrop 17 tiny) = false.
Proof. vm_compute. reflexivity. Qed.
