(* C11 -- Resizing a region inside a file moves the rest intact.
   Theorems about Gen.Gen_util, which py2v regenerates from /repo/mutagen/_util.py on every run.
   Quantified over every file content f, position p, offsets/sizes, copy-buffer size BUF >= 1 and
   both seek flavours of the file object (real) -- no bound on any of them. *)
From Coq Require Import ZArith List Bool Lia.
Import ListNotations.
Require Import Base.Py Base.ZList Base.FileModel Gen.Gen_util Proofs.FileLemmas
  Proofs.C11_move Proofs.C11_move2 Proofs.C11_resize Proofs.C11_bytes Proofs.C11_rejects.
Open Scope Z_scope.

(* moving count bytes from src to dest, overlapping or not, in either direction *)
Theorem C11_move_bytes : forall real part BUF, 1 <= BUF -> forall f p dest src count,
  0 <= dest -> 0 <= src -> 0 <= count -> Z.max dest src + count <= zlen f ->
  let r := move_bytes BUF dest src count (mkF f p (benign real part)) in
  fst r = Ok tt /\
  fdata (snd r) = ztake dest f ++ ztake count (zdrop src f) ++ zdrop (dest + count) f.
Proof.
  intros real part BUF HB f p dest src count H1 H2 H3 H4. cbv zeta.
  destruct (move_bytes_spec real part BUF HB f p dest src count H1 H2 H3 H4) as (A & B & _).
  split; [exact A | exact B].
Qed.
Print Assumptions C11_move_bytes.

(* the property itself: prefix, retained part of the region, and everything after the region *)
Theorem C11_resize_bytes : forall real part BUF, 1 <= BUF -> forall f p old new off,
  0 <= old -> 0 <= new -> 0 <= off -> off + old <= zlen f ->
  let r := resize_bytes BUF old new off (mkF f p (benign real part)) in
  fst r = Ok tt /\
  zlen (fdata (snd r)) = zlen f + new - old /\
  ztake (off + Z.min old new) (fdata (snd r)) = ztake (off + Z.min old new) f /\
  zdrop (off + new) (fdata (snd r)) = zdrop (off + old) f.
Proof.
  intros real part BUF HB f p old new off H1 H2 H3 H4. cbv zeta.
  destruct (resize_bytes_spec real part BUF HB f p old new off H1 H2 H3 H4) as (A & B & C & D & _).
  repeat split; assumption.
Qed.
Print Assumptions C11_resize_bytes.

Theorem C11_insert_bytes : forall real part BUF, 1 <= BUF -> forall f p size offset,
  0 <= size -> 0 <= offset <= zlen f ->
  let r := insert_bytes BUF size offset (mkF f p (benign real part)) in
  fst r = Ok tt /\ zlen (fdata (snd r)) = zlen f + size /\
  ztake offset (fdata (snd r)) = ztake offset f /\
  zdrop (offset + size) (fdata (snd r)) = zdrop offset f.
Proof.
  intros real part BUF HB f p size offset H1 H2. cbv zeta.
  destruct (insert_bytes_spec real part BUF HB f p size offset H1 H2) as (A & B & _).
  rewrite B. split; [exact A|]. split; [apply inserted_len; assumption|].
  split; [apply inserted_prefix | apply inserted_suffix]; assumption.
Qed.
Print Assumptions C11_insert_bytes.

Theorem C11_delete_bytes : forall real part BUF, 1 <= BUF -> forall f p size offset,
  0 <= size -> 0 <= offset -> offset + size <= zlen f ->
  let r := delete_bytes BUF size offset (mkF f p (benign real part)) in
  fst r = Ok tt /\ fdata (snd r) = ztake offset f ++ zdrop (offset + size) f.
Proof.
  intros real part BUF HB f p size offset H1 H2 H3. cbv zeta.
  destruct (delete_bytes_spec real part BUF HB f p size offset H1 H2 H3) as (A & B & _).
  split; [exact A | exact B].
Qed.
Print Assumptions C11_delete_bytes.

(* requests reaching outside the file are rejected without modifying it (any BUF, even 0) *)
Theorem C11_resize_bytes_rejects : forall real part BUF f p old new off,
  old < 0 \/ new < 0 \/ off < 0 \/ (off + old > zlen f /\ new <> old) ->
  fst (resize_bytes BUF old new off (mkF f p (benign real part))) = Raise EValue /\
  fdata (snd (resize_bytes BUF old new off (mkF f p (benign real part)))) = f.
Proof. exact resize_bytes_rejects. Qed.
Print Assumptions C11_resize_bytes_rejects.

Theorem C11_insert_bytes_rejects : forall real part BUF f p size offset,
  size < 0 \/ offset < 0 \/ offset > zlen f ->
  fst (insert_bytes BUF size offset (mkF f p (benign real part))) = Raise EValue /\
  fdata (snd (insert_bytes BUF size offset (mkF f p (benign real part)))) = f.
Proof. exact insert_bytes_rejects. Qed.
Print Assumptions C11_insert_bytes_rejects.

Theorem C11_delete_bytes_rejects : forall real part BUF f p size offset,
  size < 0 \/ offset < 0 \/ offset + size > zlen f ->
  fst (delete_bytes BUF size offset (mkF f p (benign real part))) = Raise EValue /\
  fdata (snd (delete_bytes BUF size offset (mkF f p (benign real part)))) = f.
Proof. exact delete_bytes_rejects. Qed.
Print Assumptions C11_delete_bytes_rejects.

Theorem C11_move_bytes_rejects : forall real part BUF f p dest src count,
  dest < 0 \/ src < 0 \/ count < 0 \/ Z.max dest src + count > zlen f ->
  fst (move_bytes BUF dest src count (mkF f p (benign real part))) = Raise EValue /\
  fdata (snd (move_bytes BUF dest src count (mkF f p (benign real part)))) = f.
Proof. exact move_bytes_rejects. Qed.
Print Assumptions C11_move_bytes_rejects.

(* no resizing needed: no file-object call at all (state unchanged, position included) *)
Theorem C11_same_size_is_noop : forall real part BUF f p old off, 0 <= old -> 0 <= off ->
  resize_bytes BUF old old off (mkF f p (benign real part)) = (Ok tt, mkF f p (benign real part)).
Proof. exact resize_bytes_same_size_noop. Qed.
Print Assumptions C11_same_size_is_noop.

Theorem C11_resize_file : forall real part BUF, 1 <= BUF -> forall f p diff, 0 <= zlen f + diff ->
  let r := resize_file BUF diff (mkF f p (benign real part)) in
  fst r = Ok tt /\
  fdata (snd r) = if diff <? 0 then ztake (zlen f + diff) f else f ++ zeros diff.
Proof.
  intros real part BUF HB f p diff H. cbv zeta.
  destruct (resize_file_spec real part BUF HB f p diff H) as (A & B & _). split; assumption.
Qed.
Print Assumptions C11_resize_file.

(* non-vacuity: concrete overlapping grow and shrink with a 2-byte buffer *)
Example C11_ex_grow :
  fdata (snd (resize_bytes 2 2 7 3 (mkF [0;1;2;3;4;5;6;7;8;9] 0 plain))) = [0;1;2;3;4;5;6;7;8;9;5;6;7;8;9]
  /\ 0 <= 2 /\ 3 + 2 <= zlen [0;1;2;3;4;5;6;7;8;9].
Proof. vm_compute. repeat split; discriminate. Qed.
Example C11_ex_shrink :
  fdata (snd (resize_bytes 2 6 1 2 (mkF [0;1;2;3;4;5;6;7;8;9] 0 plain))) = [0;1;2;8;9].
Proof. vm_compute. reflexivity. Qed.
Example C11_ex_reject :
  resize_bytes 2 5 8 7 (mkF [0;1;2;3;4;5;6;7;8;9] 4 plain) = (Raise EValue, mkF [0;1;2;3;4;5;6;7;8;9] 10 plain).
Proof. vm_compute. reflexivity. Qed.
