(* C14 -- Syncsafe integers and unsynchronisation are exact inverses.
   Theorems about Model.Id3Util (hand model of mutagen/id3/_util.py: BitPaddedInt.__new__, to_str,
   has_valid_padding, unsynch.encode/decode; tied to /repo by the exhaustive correspondence in
   harness/props/c14.py).  No bound on the size of integers, widths or byte strings. *)
From Coq Require Import ZArith List Bool Lia.
Import ListNotations.
Require Import Base.Py Base.ZList Model.Id3Util Model.C14_Layers
  Proofs.C14_digits Proofs.C14_padding Proofs.C14_tostr Proofs.C14_unsynch Proofs.C14_layers.
Open Scope Z_scope.

(* fixed width: a value that fits is encoded in exactly `width` bytes, each below 2^bits (padding bits
   clear), and decoding gives the value back; both byte orders; minwidth is irrelevant *)
Theorem C14_to_str_roundtrip : forall bits be width minwidth v,
  1 <= bits <= 8 -> 0 <= width -> 0 <= v < 2 ^ (bits * width) ->
  exists bs, to_str v bits be width minwidth = Ok bs /\
    zlen bs = width /\
    Forall (fun b => 0 <= b < 2 ^ bits) bs /\
    has_valid_padding_bytes bits bs = Ok true /\
    bpi_of_bytes bits be bs = Ok v.
Proof.
  intros bits be width mw v Hb Hw Hv.
  exists (endian be (le_digits (Z.to_nat width) bits v)).
  apply (to_str_fixed_ok bits be width mw v); lia.
Qed.
Print Assumptions C14_to_str_roundtrip.

(* growing form (width = -1): the length is the larger of minwidth and the number n of base-2^bits
   digits of v (n is pinned down by v < 2^(bits n) and, unless n = 0, 2^(bits (n-1)) <= v) *)
Theorem C14_to_str_growing_roundtrip : forall bits be minwidth v,
  1 <= bits <= 8 -> 0 <= v ->
  exists bs n, to_str v bits be (-1) minwidth = Ok bs /\
    zlen bs = Z.max minwidth n /\
    0 <= n /\ v < 2 ^ (bits * n) /\ (0 < n -> 2 ^ (bits * (n - 1)) <= v) /\
    Forall (fun b => 0 <= b < 2 ^ bits) bs /\
    has_valid_padding_bytes bits bs = Ok true /\
    bpi_of_bytes bits be bs = Ok v.
Proof.
  intros bits be mw v Hb Hv.
  destruct (to_str_grow_ok bits be mw v Hb Hv) as (A & B & C & D & E).
  destruct (ndigits_spec bits v ltac:(lia) Hv) as (N0 & N1 & N2).
  eexists. exists (ndigits bits v). repeat split; eassumption.
Qed.
Print Assumptions C14_to_str_growing_roundtrip.

(* a value that does not fit is rejected (ValueError), not truncated *)
Theorem C14_to_str_rejects_wide : forall bits be width minwidth v,
  1 <= bits <= 8 -> 0 <= width -> 2 ^ (bits * width) <= v ->
  to_str v bits be width minwidth = Raise EValue.
Proof. intros. apply to_str_rejects_wide; lia. Qed.
Print Assumptions C14_to_str_rejects_wide.

(* negative values are rejected in both forms, for every bits/width: ValueError, never a loop
   (the model's EOutOfFuel stands for non-termination) *)
Theorem C14_to_str_rejects_negative : forall bits be width minwidth v,
  v < 0 -> to_str v bits be width minwidth = Raise EValue.
Proof. exact to_str_rejects_negative. Qed.
Print Assumptions C14_to_str_rejects_negative.

(* BitPaddedInt(int): the int's 8-bit groups are re-read as bits-bit groups, i.e. the same as decoding
   its n-byte big-endian representation, for any n that holds v (bits = 7, n = 4: syncsafe size) *)
Theorem C14_bpi_of_int_rereads_bytes : forall bits n v,
  0 <= bits <= 8 -> 0 <= v < 256 ^ Z.of_nat n ->
  bpi_of_int bits v = bpi_of_bytes bits true (be_encode n v).
Proof. exact bpi_of_int_as_bytes. Qed.
Print Assumptions C14_bpi_of_int_rereads_bytes.

Theorem C14_bpi_of_int_rejects_negative : forall bits v, v < 0 -> bpi_of_int bits v = Raise EValue.
Proof. exact bpi_of_int_rejects_negative. Qed.
Print Assumptions C14_bpi_of_int_rejects_negative.

(* a size written with to_str and read back as a plain big-endian int (struct.unpack('>L')) is
   recovered by BitPaddedInt(int) -- the path used by read_frames / determine_bpi *)
Theorem C14_size_field_roundtrip : forall bits width minwidth v bs,
  1 <= bits <= 8 -> 0 <= width -> 0 <= v < 2 ^ (bits * width) ->
  to_str v bits true width minwidth = Ok bs ->
  bpi_of_int bits (be_decode bs) = Ok v.
Proof.
  intros bits width mw v bs Hb Hw Hv H.
  destruct (to_str_fixed_ok bits true width mw v ltac:(lia) Hw Hv) as (A & _ & C & _ & E).
  rewrite A in H. inversion H; subst bs. rewrite <- E.
  apply bpi_of_int_of_be_bytes; [lia|].
  eapply Forall_impl; [|exact C]. cbv beta. intros a Ha. pose proof (pow2_le_256 bits ltac:(lia)). lia.
Qed.
Print Assumptions C14_size_field_roundtrip.

(* has_valid_padding: true exactly when every byte is below 2^bits; the int form reads the int's bytes *)
Theorem C14_has_valid_padding_bytes : forall bits l, 0 <= bits <= 8 -> all_bytes l = true ->
  has_valid_padding_bytes bits l = Ok (forallb (fun b => b <? 2 ^ bits) l).
Proof. exact hvp_bytes_spec. Qed.
Print Assumptions C14_has_valid_padding_bytes.
Theorem C14_has_valid_padding_int : forall bits n v, 0 <= bits <= 8 -> 0 <= v < 256 ^ Z.of_nat n ->
  has_valid_padding_int bits v = has_valid_padding_bytes bits (be_encode n v).
Proof. exact hvp_int_as_bytes. Qed.
Print Assumptions C14_has_valid_padding_int.

(* unsynchronisation: decode inverts encode on every list (no byte-range hypothesis needed) *)
Theorem C14_unsynch_roundtrip : forall s, unsynch_decode (unsynch_encode s) = Ok s.
Proof. exact unsynch_roundtrip. Qed.
Print Assumptions C14_unsynch_roundtrip.

(* no false sync in the encoded data: every 0xFF is followed by a byte, and that byte is < 0xE0
   (in particular the output never ends in 0xFF: a trailing 0xFF of the input becomes FF 00) *)
Theorem C14_unsynch_safe : forall s i, 0 <= i < zlen (unsynch_encode s) ->
  znth i (unsynch_encode s) = 0xFF ->
  i + 1 < zlen (unsynch_encode s) /\ znth (i + 1) (unsynch_encode s) < 0xE0.
Proof. intros s. apply sync_safe_znth. apply unsynch_encode_safe. Qed.
Print Assumptions C14_unsynch_safe.

(* the split/join code of the source is the textbook byte-by-byte stuffing: a 0x00 is inserted after a
   0xFF exactly when the data ends there or the next byte is >= 0xE0 or 0x00 *)
Theorem C14_unsynch_encode_direct : forall s, unsynch_encode s = enc_direct s.
Proof. exact unsynch_encode_direct. Qed.
Print Assumptions C14_unsynch_encode_direct.

(* decode rejects exactly the strings with a false sync or a trailing 0xFF, with ValueError *)
Theorem C14_unsynch_decode_exact : forall s,
  unsynch_decode s = if sync_safe s then Ok (destuffed s) else Raise EValue.
Proof. exact unsynch_decode_spec. Qed.
Print Assumptions C14_unsynch_decode_exact.
Theorem C14_unsynch_decode_rejects_trailing : forall p, unsynch_decode (p ++ [0xFF]) = Raise EValue.
Proof. intros p. apply unsynch_decode_rejects. apply unsafe_trailing. Qed.
Print Assumptions C14_unsynch_decode_rejects_trailing.
Theorem C14_unsynch_decode_rejects_sync : forall p c q, 0xE0 <= c ->
  unsynch_decode (p ++ 0xFF :: c :: q) = Raise EValue.
Proof. intros p c q H. apply unsynch_decode_rejects. apply unsafe_pattern. exact H. Qed.
Print Assumptions C14_unsynch_decode_rejects_sync.
(* sync_safe is nothing but the index property *)
Theorem C14_sync_safe_meaning : forall l, sync_safe l = true <->
  (forall n, (n < length l)%nat -> nth n l 0 = 0xFF -> (S n < length l)%nat /\ nth (S n) l 0 < 0xE0).
Proof. intros l. split; [apply sync_safe_nth | apply sync_safe_of_nth]. Qed.
Print Assumptions C14_sync_safe_meaning.

(* tag level, layering (Model.C14_Layers: the flag handling of Frame._fromData in source order, zlib abstract).
   For ANY pair inflate/deflate with inflate (deflate b) = Ok b: a v2.4 frame laid out as the specification
   says -- deflate, then the syncsafe data length bytes to_str(len(body), 7, width 4), then the
   unsynchronisation scheme (frame flag or tag-level flag) -- is read back as the original frame bytes, for
   every combination of the four flags.  The reader must destuff BEFORE it inflates. *)
Theorem C14_frame_layers_v24 :
  forall (inflate : list Z -> result (list Z)) (deflate : list Z -> list Z),
  (forall b, inflate (deflate b) = Ok b) ->
  forall tag_unsynch frame_unsynch compress datalen dl4 body,
  zlen body < 2 ^ 28 -> to_str (zlen body) 7 true 4 4 = Ok dl4 ->
  from_data_v24 inflate tag_unsynch (tflags_v24 frame_unsynch compress datalen)
    (enc_v24 deflate (frame_unsynch || tag_unsynch) compress datalen dl4 body) = Ok body.
Proof. exact from_data_v24_syncsafe. Qed.
Print Assumptions C14_frame_layers_v24.
(* v2.3: a (compressed) frame, and the whole-tag unsynchronisation removed by read_frames before the frames are cut *)
Theorem C14_frame_layers_v23 :
  forall (inflate : list Z -> result (list Z)) (deflate : list Z -> list Z),
  (forall b, inflate (deflate b) = Ok b) ->
  forall (compress f_unsynch : bool) sz4 body tagbody, length sz4 = 4%nat ->
  from_data_v23 inflate (if compress then FLAG23_COMPRESS else 0) (enc_v23 deflate compress sz4 body) = Ok body
  /\ tag_body_v23 f_unsynch (if f_unsynch then unsynch_encode tagbody else tagbody) = Ok tagbody.
Proof.
  intros inflate deflate H compress f_unsynch sz4 body tagbody H4. split.
  - now apply from_data_v23_inverts.
  - apply tag_body_v23_inverts.
Qed.
Print Assumptions C14_frame_layers_v23.
(* v2.2 / v2.3 through the version test of read_frames: a tag body unsynchronised as a whole is destuffed before
   the frames are cut (v2.2 frames have no flags: from_data_v22 is the identity); v2.4 bodies are left to the frames *)
Theorem C14_tag_layers_v22_v23 : forall major (f_unsynch : bool) tagbody, major < 4 ->
  read_frames_head major f_unsynch (if f_unsynch then unsynch_encode tagbody else tagbody) = Ok tagbody
  /\ from_data_v22 tagbody = Ok tagbody
  /\ read_frames_head 4 f_unsynch tagbody = Ok tagbody.
Proof.
  intros major f_unsynch tagbody H. split; [now apply read_frames_head_inverts | split; reflexivity].
Qed.
Print Assumptions C14_tag_layers_v22_v23.
(* the order is not a matter of taste: with inflate and destuffing swapped a concrete frame is not recovered
   (inflate = byte reversal), while the modelled order recovers it *)
Theorem C14_frame_layers_swapped_refuted :
  exists body,
    from_data_v24 (fun l => Ok (rev l)) false (tflags_v24 true true true)
      (enc_v24 (@rev Z) true true true [0;0;0;2] body) = Ok body /\
    ~ (swapped_v24 (fun l => Ok (rev l)) (enc_v24 (@rev Z) true true true [0;0;0;2] body) = Ok body).
Proof. exact swapped_order_refuted. Qed.
Print Assumptions C14_frame_layers_swapped_refuted.

(* non-vacuity and concrete behaviour *)
Example C14_ex_syncsafe_max : to_str 268435455 7 true 4 4 = Ok [127;127;127;127]
  /\ bpi_of_bytes 7 true [127;127;127;127] = Ok 268435455 /\ 0 <= 268435455 < 2 ^ (7 * 4).
Proof. vm_compute. repeat split; discriminate. Qed.
Example C14_ex_too_wide : to_str 268435456 7 true 4 4 = Raise EValue.
Proof. vm_compute. reflexivity. Qed.
Example C14_ex_little_endian : to_str 0x12345 8 false 4 4 = Ok [0x45;0x23;0x01;0].
Proof. vm_compute. reflexivity. Qed.
Example C14_ex_growing : to_str 0x1234567890 8 true (-1) 4 = Ok [0x12;0x34;0x56;0x78;0x90]
  /\ to_str 5 7 true (-1) 4 = Ok [0;0;0;5] /\ to_str 0 7 true (-1) 0 = Ok [].
Proof. vm_compute. repeat split. Qed.
Example C14_ex_negative : to_str (-1) 7 true (-1) 4 = Raise EValue /\ to_str (-1) 7 true 4 4 = Raise EValue
  /\ bpi_of_int 7 (-1) = Raise EValue.
Proof. vm_compute. repeat split. Qed.
Example C14_ex_bpi_int : bpi_of_int 7 0x7F7F = Ok 16383 /\ bpi_of_int 7 0xFFFF = Ok 16383
  /\ has_valid_padding_int 7 0x7F7F = Ok true /\ has_valid_padding_int 7 0xFFFF = Ok false.
Proof. vm_compute. repeat split. Qed.
Example C14_ex_unsynch : unsynch_encode [0xFF;0xE0;0xFF;0;0xFF;1;0xFF] = [0xFF;0;0xE0;0xFF;0;0;0xFF;1;0xFF;0]
  /\ unsynch_decode [0xFF;0;0xE0;0xFF;0;0;0xFF;1;0xFF;0] = Ok [0xFF;0xE0;0xFF;0;0xFF;1;0xFF].
Proof. vm_compute. split; reflexivity. Qed.
Example C14_ex_unsynch_rejects : unsynch_decode [1;0xFF] = Raise EValue /\ unsynch_decode [0xFF;0xE0] = Raise EValue
  /\ unsynch_decode [0xFF;0xFF;1] = Raise EValue /\ unsynch_decode [0xFF;0xDF] = Ok [0xFF;0xDF].
Proof. vm_compute. repeat split. Qed.
