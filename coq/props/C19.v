(* C19 -- Running out of space while growing leaves the file as it was.
   Theorems about Gen.Gen_util (regenerated from /repo/mutagen/_util.py on every run) executed on a
   capacity-limited file object: for EVERY capacity inside the growth window, every number of
   partially written bytes of the failing write, every buffer size >= 1 and both seek flavours. *)
From Coq Require Import ZArith List Bool Lia.
Import ListNotations.
Require Import Base.Py Base.ZList Base.FileModel Gen.Gen_util Model.Splice Proofs.FileLemmas Proofs.C19_enospc.
Open Scope Z_scope.

(* the primitive: growth is written first and rolled back with truncate on ENOSPC *)
Theorem C19_resize_file_enospc : forall real cap part BUF, 1 <= BUF -> forall f p diff,
  0 < diff -> zlen f <= cap < zlen f + diff ->
  fst (resize_file BUF diff (mkF f p (capcfg real cap part))) = Raise (EIO 28) /\
  fdata (snd (resize_file BUF diff (mkF f p (capcfg real cap part)))) = f.
Proof. exact resize_file_enospc. Qed.
Print Assumptions C19_resize_file_enospc.

(* callers enlarge before they overwrite *)
Theorem C19_insert_bytes_enospc : forall real cap part BUF, 1 <= BUF -> forall f p size offset,
  0 < size -> 0 <= offset <= zlen f -> zlen f <= cap < zlen f + size ->
  fst (insert_bytes BUF size offset (mkF f p (capcfg real cap part))) = Raise (EIO 28) /\
  fdata (snd (insert_bytes BUF size offset (mkF f p (capcfg real cap part)))) = f.
Proof. exact insert_bytes_enospc. Qed.
Print Assumptions C19_insert_bytes_enospc.

(* the skeleton of every contiguous-region save (ID3v2 at the start, FLAC, MP4, ASF, one-page Ogg
   comments, an existing ID3 chunk): resize_bytes, then seek + write.  The failure strikes at any
   byte of the enlargement; nothing was overwritten: the file is byte-identical, length included. *)
Theorem C19_splice_enospc : forall real cap part BUF, 1 <= BUF -> forall f p off old data,
  0 <= off -> 0 <= old -> off + old <= zlen f -> old < zlen data ->
  zlen f <= cap < zlen f + (zlen data - old) ->
  fst (splice_prog BUF off old data (mkF f p (capcfg real cap part))) = Raise (EIO 28) /\
  fdata (snd (splice_prog BUF off old data (mkF f p (capcfg real cap part)))) = f.
Proof. exact splice_prog_enospc. Qed.
Print Assumptions C19_splice_enospc.

(* non-vacuity: 10-byte file, region [3,5) grows to 7 bytes, device holds 12 bytes, 1 partial byte, BUF 2 *)
Example C19_ex :
  splice_prog 2 3 2 [9;9;9;9;9;9;9] (mkF [0;1;2;3;4;5;6;7;8;9] 0 (capcfg false 12 1))
  = (Raise (EIO 28), mkF [0;1;2;3;4;5;6;7;8;9] 12 (capcfg false 12 1)).
Proof. vm_compute. reflexivity. Qed.
(* with enough room the same call succeeds *)
Example C19_ex_room :
  fdata (snd (splice_prog 2 3 2 [9;9;9;9;9;9;9] (mkF [0;1;2;3;4;5;6;7;8;9] 0 (capcfg false 15 1))))
  = [0;1;2;9;9;9;9;9;9;9;5;6;7;8;9].
Proof. vm_compute. reflexivity. Qed.
