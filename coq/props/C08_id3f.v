(* C08 for the family id3f: delete removes header + frames + padding and the ID3v1 tag and nothing else. *)
From Coq Require Import ZArith List Bool Lia.
Import ListNotations.
Require Import Base.Py Base.ZList Gen.Gen_tags Model.Splice Model.Id3Util Model.Fam_id3f
  Proofs.Fam_id3f_base Proofs.Fam_id3f_save Proofs.Fam_id3f_props Proofs.Fam_id3f_examples.
Open Scope Z_scope.

Theorem C08_id3f_delete : forall f s, id3f_wf f = true -> id3f_parse f = Ok s ->
  id3f_delete f = Ok (i_mid s) /\
  id3f_parse (i_mid s) = Ok (mkI None (i_mid s) None) /\
  id3f_load (i_mid s) = Ok None /\
  starts_with M_ID3 (i_mid s) = false /\ find_id3v1 0 (i_mid s) = None /\
  id3f_delete (i_mid s) = Ok (i_mid s) /\
  zlen f = tag_size s + zlen (i_mid s) + v1_size s /\
  id3f_wf (i_mid s) = true.
Proof. exact c08_delete. Qed.
Print Assumptions C08_id3f_delete.

Theorem C08_id3f_retag : forall f d fr o,
  id3f_wf f = true -> id3f_delete f = Ok d ->
  frames_ok (o_v2 o) fr = true -> (o_v2 o = 3 \/ o_v2 o = 4) -> v1_hyp d o ->
  0 <= o_cb o (0 - (zlen fr + 10)) (zlen d) -> zlen fr + o_cb o (0 - (zlen fr + 10)) (zlen d) < 2 ^ 28 ->
  exists f', id3f_save d fr o = Ok f' /\ id3f_load f' = Ok (Some fr) /\ mid_of f' = d /\ id3f_wf f' = true.
Proof. exact c08_retag. Qed.
Print Assumptions C08_id3f_retag.
