(* C02 for the family id3f: ID3 save / delete change nothing between the ID3v2 tag and the ID3v1 slot (audio and any
   trailing APEv2 / Lyrics3 block are part of that payload); the ID3v1 slot changes only as selected by v1. *)
From Coq Require Import ZArith List Bool Lia.
Import ListNotations.
Require Import Base.Py Base.ZList Gen.Gen_tags Model.Splice Model.Id3Util Model.Fam_id3f
  Proofs.Fam_id3f_base Proofs.Fam_id3f_save Proofs.Fam_id3f_props Proofs.Fam_id3f_examples.
Open Scope Z_scope.

(* strict segmentation before and after: payload byte-identical, ID3v1 slot as selected by the v1 option *)
Theorem C02_id3f_save : forall f s fr o f',
  id3f_wf f = true -> id3f_parse f = Ok s -> frames_ok (o_v2 o) fr = true -> v1_hyp (i_mid s) o ->
  id3f_save f fr o = Ok f' ->
  exists s', id3f_parse f' = Ok s' /\ i_mid s' = i_mid s /\
             i_v1 s' = v1_after (o_v1 o) (o_v1bytes o) (i_v1 s).
Proof. exact c02_save. Qed.
Print Assumptions C02_id3f_save.

(* delete leaves exactly the payload *)
Theorem C02_id3f_delete : forall f s, id3f_wf f = true -> id3f_parse f = Ok s -> id3f_delete f = Ok (i_mid s).
Proof. exact c02_delete. Qed.
Print Assumptions C02_id3f_delete.

(* NO hypothesis on the file at all (any bytes, any header mutagen accepts): save is a splice at offset 0 followed by
   an ID3v1 step that touches at most the last 128 bytes: every byte behind the old tag except the last 128 keeps its
   content and order *)
Theorem C02_id3f_save_frame : forall f fr o f', id3f_save f fr o = Ok f' ->
  exists old new, 0 <= old /\ 0 <= new /\
    (mut_header (o_known o) f = Ok None /\ old = 0 \/ mut_header (o_known o) f = Ok (Some old)) /\
    (old <= zlen f ->
       ztake (zlen f - old - 128) (zdrop new f') = ztake (zlen f - old - 128) (zdrop old f)).
Proof. exact c02_save_frame. Qed.
Print Assumptions C02_id3f_save_frame.
Theorem C02_id3f_v1_step_frame : forall g mode vb, ztake (zlen g - 128) (save_v1 g mode vb) = ztake (zlen g - 128) g.
Proof. exact save_v1_frame. Qed.
Print Assumptions C02_id3f_v1_step_frame.

(* the precondition "the end of the payload is not taken for an ID3v1 tag by find_id3v1" is necessary (genuine defect
   of /repo): b"TAG" 128 bytes before the end of a payload ending in an APEv2 footer; save with default options
   overwrites the last 128 bytes, APEv2 footer included *)
Theorem C02_id3f_tag_in_apev2_refuted : exists f s fr o f' s',
  id3f_parse f = Ok s /\ i_v1 s = None /\ 131 <= zlen (i_mid s) /\ frames_ok (o_v2 o) fr = true /\
  id3f_save f fr o = Ok f' /\ id3f_parse f' = Ok s' /\
  i_mid s' <> i_mid s /\ zdrop (zlen f' - 32) f' <> zdrop (zlen f - 32) f.
Proof. exact tag_in_apev2_refuted. Qed.
Print Assumptions C02_id3f_tag_in_apev2_refuted.

Example C02_id3f_example : exists f', id3f_save ex_file ex_frames (ex_opts 1 id3f_cb_default) = Ok f' /\ zlen f' = zlen ex_file.
Proof. exact ex_save_ok. Qed.
