(* C02 for the family id3f: ID3 save / delete change nothing between the ID3v2 tag and the ID3v1 slot (audio and any
   trailing APEv2 / Lyrics3 block are part of that payload); the ID3v1 slot changes only as selected by v1.
   id3f_wf f: strict parse + the payload is unambiguous (does not start with an ID3v2 header, its end is not taken for
   an ID3v1 tag by the format rule or by find_id3v1 -- inherent ambiguity, e.g. legacy short ID3v1 tags). *)
From Coq Require Import ZArith List Bool Lia.
Import ListNotations.
Require Import Base.Py Base.ZList Gen.Gen_tags Model.Splice Model.Id3Util Model.Fam_id3f
  Base.FileModel Proofs.FileLemmas Proofs.Fam_id3f_base Proofs.Fam_id3f_save Proofs.Fam_id3f_props Proofs.Fam_id3f_examples Proofs.Fam_id3f_prog.
Open Scope Z_scope.

(* strict segmentation before and after: payload byte-identical, ID3v1 slot as selected by the v1 option *)
Theorem C02_id3f_save : forall f s fr o f',
  id3f_wf f = true -> id3f_parse f = Ok s -> frames_ok (o_v2 o) fr = true -> v1_hyp (i_mid s) o ->
  id3f_save f fr o = Ok f' ->
  exists s', id3f_parse f' = Ok s' /\ i_mid s' = i_mid s /\
             i_v1 s' = v1_after (o_v1 o) (o_v1bytes o) (i_v1 s).
Proof. exact c02_save. Qed.
Print Assumptions C02_id3f_save.

(* delete leaves exactly the payload *)
Theorem C02_id3f_delete : forall f s, id3f_wf f = true -> id3f_parse f = Ok s -> id3f_delete f = Ok (i_mid s).
Proof. exact c02_delete. Qed.
Print Assumptions C02_id3f_delete.

(* NO hypothesis on the file at all (any bytes, any header mutagen accepts): save is a splice at offset 0 followed by
   an ID3v1 step that touches at most the last 128 bytes: every byte behind the old tag except the last 128 keeps its
   content and order *)
Theorem C02_id3f_save_frame : forall f fr o f', id3f_save f fr o = Ok f' ->
  exists old new, 0 <= old /\ 0 <= new /\
    (mut_header (o_known o) f = Ok None /\ old = 0 \/ mut_header (o_known o) f = Ok (Some old)) /\
    (old <= zlen f ->
       ztake (zlen f - old - 128) (zdrop new f') = ztake (zlen f - old - 128) (zdrop old f)).
Proof. exact c02_save_frame. Qed.
Print Assumptions C02_id3f_save_frame.
Theorem C02_id3f_v1_step_frame : forall g mode vb st, ztake (zlen g - 128) (save_v1 g mode vb st) = ztake (zlen g - 128) g.
Proof. exact save_v1_frame. Qed.
Print Assumptions C02_id3f_v1_step_frame.

(* the file program ID3.save runs (regenerated insert_bytes / delete_bytes of mutagen/_util.py, then seek(0), write)
   computes exactly the pure splice the model uses, on a fault-free file object of either flavour (C11 inside) *)
Theorem C02_id3f_save_program : forall (real : bool) (part BUF : Z), 1 <= BUF ->
  forall f p old data, 0 <= old <= zlen f ->
  fst (id3_save_prog BUF old data (mkF f p (benign real part))) = Ok tt /\
  fdata (snd (id3_save_prog BUF old data (mkF f p (benign real part)))) = splice f 0 old data.
Proof. exact id3_save_prog_spec. Qed.
Print Assumptions C02_id3f_save_program.

(* the ID3v1 search never looks into the ID3v2 tag: what it finds on tag ++ payload is what it finds on the payload *)
Theorem C02_id3f_search_ignores_tag : forall T m, find_id3v1 0 m = None -> find_id3v1 (zlen T) (T ++ m) = None.
Proof. exact find_id3v1_prefix. Qed.
Print Assumptions C02_id3f_search_ignores_tag.

(* regression instance (former genuine defect, class tag-in-apev2): b"TAG" 128 bytes before the end of a payload that
   ends in an APEv2 footer; the file is well-formed and a default save keeps the payload, footer included *)
Theorem C02_id3f_tag_in_apev2_regression : id3f_wf ex_ape_file = true /\ mid_of ex_ape_file = ex_ape_file /\
  exists f', id3f_save ex_ape_file ex_frames (ex_opts 1 id3f_cb_default) = Ok f' /\ mid_of f' = ex_ape_file /\
             zdrop (zlen f' - 32) f' = zdrop (zlen ex_ape_file - 32) ex_ape_file.
Proof. exact tag_in_apev2_regression. Qed.
Print Assumptions C02_id3f_tag_in_apev2_regression.

(* the "3 payload bytes in front of an ID3v1 tag" part of v1_hyp / id3f_wf is necessary for the faithful model: a file
   that is only an ID3v1 tag, new frames ending in b"TAG", padding 0, v1=2: a second ID3v1 tag is appended *)
Theorem C02_id3f_short_mid_refuted : exists f s fr o f' s',
  id3f_parse f = Ok s /\ i_mid s = [] /\ i_v1 s = Some ex_v1 /\ frames_ok (o_v2 o) fr = true /\
  id3f_save f fr o = Ok f' /\ id3f_parse f' = Ok s' /\ i_mid s' <> i_mid s /\ zlen f' = zlen fr + 10 + 256.
Proof. exact short_mid_refuted. Qed.
Print Assumptions C02_id3f_short_mid_refuted.

Example C02_id3f_example : exists f', id3f_save ex_file ex_frames (ex_opts 1 id3f_cb_default) = Ok f' /\ zlen f' = zlen ex_file.
Proof. exact ex_save_ok. Qed.
