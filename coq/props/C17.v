(* C17 -- Any conforming file object works exactly like a filename (logic core).
   The regenerated resize family gives the same outcome and the same bytes on a BytesIO-like object
   (negative seek targets clamp) and a real-file-like object (negative targets raise EINVAL), for ALL
   arguments, files and buffer sizes; seek_end never produces a negative target; mutagen closes only
   files it opened itself.  (The generated code uses nothing but read/seek/tell/write/truncate/flush:
   the translator refuses any other file method.) *)
From Coq Require Import ZArith List Bool Lia.
Import ListNotations.
Require Import Base.Py Base.ZList Base.FileModel Gen.Gen_util Model.IOWrap Model.SeekEnd
  Proofs.FileLemmas Proofs.C17_flavour Proofs.C06_wrap.
Open Scope Z_scope.

Theorem C17_resize_bytes_flavour_irrelevant : forall part1 part2 BUF, 1 <= BUF -> forall f p old new off,
  let r1 := resize_bytes BUF old new off (mkF f p (benign false part1)) in
  let r2 := resize_bytes BUF old new off (mkF f p (benign true part2)) in
  fst r1 = fst r2 /\ fdata (snd r1) = fdata (snd r2).
Proof. exact resize_bytes_flavour. Qed.
Print Assumptions C17_resize_bytes_flavour_irrelevant.

Theorem C17_move_bytes_flavour_irrelevant : forall part1 part2 BUF, 1 <= BUF -> forall f p dest src count,
  let r1 := move_bytes BUF dest src count (mkF f p (benign false part1)) in
  let r2 := move_bytes BUF dest src count (mkF f p (benign true part2)) in
  fst r1 = fst r2 /\ fdata (snd r1) = fdata (snd r2).
Proof. exact move_bytes_flavour. Qed.
Print Assumptions C17_move_bytes_flavour_irrelevant.

Theorem C17_seek_end : forall real part d p offset, 0 <= p -> 0 <= offset ->
  seek_end offset (mkF d p (benign real part)) = (Ok tt, mkF d (Z.max 0 (zlen d - offset)) (benign real part)).
Proof. exact seek_end_spec. Qed.
Print Assumptions C17_seek_end.

(* why seek_end exists: the plain end-relative seek is NOT flavour independent *)
Theorem C17_naive_seek_refuted :
  fst (naive_seek_end 5 (mkF [1;2;3] 0 (benign false 0))) = Ok tt /\
  fst (naive_seek_end 5 (mkF [1;2;3] 0 (benign true 0))) = Raise (EIO 22).
Proof. exact naive_seek_end_differs. Qed.
Print Assumptions C17_naive_seek_refuted.

Theorem C17_caller_object_never_closed : forall ft has c,
  ft = FTFileObj \/ ft = FTFileThing -> closed_after ft has c = c.
Proof. exact caller_object_stays_open. Qed.
Print Assumptions C17_caller_object_never_closed.

Theorem C17_opened_files_are_closed : forall ft has c,
  ft = FTStrPath \/ ft = FTBytesPath \/ ft = FTPathLike -> closed_after ft has c = true.
Proof. exact own_file_closed. Qed.
Print Assumptions C17_opened_files_are_closed.

Example C17_ex : fdata (snd (resize_bytes 2 1 4 2 (mkF [0;1;2;3;4;5] 3 (benign true 0)))) = [0;1;2;3;4;5;3;4;5].
Proof. vm_compute. reflexivity. Qed.
