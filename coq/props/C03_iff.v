(* C03 (family iff: AIFF / WAVE / DSDIFF chunk carriers of an ID3 tag) -- files stay structurally valid through any
   edit history.  Theorems about Model.Fam_iff (executable model, tied to /repo by harness/fam/corr_iff.py).
   iff_wf f = true means: root id of the flavour, root size = file extent, form type, the sub-chunks tile the root
   exactly, every chunk id is printable, every odd chunk is followed by its pad byte, all size fields are bytes
   (strict reader iff_parse, written from the layout).  Quantified over every flavour record satisfying fl_ok
   (aiff, wave, dsdiff do), every file f and every tag byte string; the only way a save can fail on a well-formed
   file is a size leaving its 32/64-bit field (struct.error), see C03_iff_save_succeeds. *)
From Coq Require Import ZArith List Bool Lia.
Import ListNotations.
Require Import Base.Py Base.ZList Model.Splice Model.Fam_iff
  Proofs.Fam_iff_codec Proofs.Fam_iff_chunks Proofs.Fam_iff_walk Proofs.Fam_iff_ops Proofs.Fam_iff_props.
Open Scope Z_scope.

(* the three formats are instances *)
Theorem C03_iff_flavours : fl_ok aiff = true /\ fl_ok wave = true /\ fl_ok dsdiff = true.
Proof. exact (conj aiff_ok (conj wave_ok dsdiff_ok)). Qed.
Print Assumptions C03_iff_flavours.

(* well-formed = the rendering of a valid structure (strict reader and renderer are inverse) *)
Theorem C03_iff_wf_is_render : forall fl, fl_ok fl = true -> forall f,
  iff_wf fl f = true <-> exists s, struct_ok fl s = true /\ f = iff_render fl s.
Proof. exact iff_wf_iff. Qed.
Print Assumptions C03_iff_wf_is_render.

(* chunk-list codec: parse inverts render, and what parses is a rendering (payloads arbitrary, ids valid) *)
Theorem C03_iff_parse_render : forall fl, fl_ok fl = true -> forall s,
  struct_ok fl s = true -> iff_parse fl (iff_render fl s) = Ok s.
Proof. exact iff_parse_render. Qed.
Print Assumptions C03_iff_parse_render.
Theorem C03_iff_parse_sound : forall fl, fl_ok fl = true -> forall f s,
  iff_parse fl f = Ok s -> f = iff_render fl s /\ struct_ok fl s = true.
Proof. exact iff_parse_sound. Qed.
Print Assumptions C03_iff_parse_sound.

(* size-field codecs, both endiannesses, every width (4 and 8 are used): range hypotheses explicit *)
Theorem C03_iff_size_codec : forall fl, fl_ok fl = true -> forall v,
  fits fl v = true -> dec fl (enc fl v) = v /\ zlen (enc fl v) = Z.of_nat (fl_w fl).
Proof. intros fl _ v Hv. split; [apply dec_enc; assumption | apply enc_zlen]. Qed.
Print Assumptions C03_iff_size_codec.
Theorem C03_iff_size_codec_inv : forall fl, fl_ok fl = true -> forall bs,
  zlen bs = Z.of_nat (fl_w fl) -> all_bytes bs = true -> enc fl (dec fl bs) = bs /\ fits fl (dec fl bs) = true.
Proof. intros fl _. exact (enc_dec fl). Qed.
Print Assumptions C03_iff_size_codec_inv.

(* one step *)
Theorem C03_iff_save : forall fl, fl_ok fl = true -> forall f tag f',
  iff_wf fl f = true -> iff_save fl f tag = Ok f' -> iff_wf fl f' = true.
Proof. exact iff_save_wf. Qed.
Print Assumptions C03_iff_save.
Theorem C03_iff_delete : forall fl, fl_ok fl = true -> forall f f',
  iff_wf fl f = true -> iff_delete fl f = Ok f' -> iff_wf fl f' = true.
Proof. exact iff_delete_wf. Qed.
Print Assumptions C03_iff_delete.

(* what save does, exactly: the structure of the result (sizes of chunk and root updated, pad byte zero) *)
Theorem C03_iff_save_struct : forall fl, fl_ok fl = true -> forall f s tag f',
  iff_parse fl f = Ok s -> iff_save fl f tag = Ok f' ->
  iff_parse fl f' = Ok (save_struct fl s tag) /\ f' = iff_render fl (save_struct fl s tag).
Proof. exact iff_save_spec. Qed.
Print Assumptions C03_iff_save_struct.

(* success: delete always; save unless a size field overflows (hypothesis that sizes fit, stated explicitly) *)
Theorem C03_iff_delete_succeeds : forall fl, fl_ok fl = true -> forall f,
  iff_wf fl f = true -> exists f', iff_delete fl f = Ok f'.
Proof. exact iff_delete_succeeds. Qed.
Print Assumptions C03_iff_delete_succeeds.
Theorem C03_iff_save_succeeds : forall fl, fl_ok fl = true -> forall f tag,
  iff_wf fl f = true -> zlen f + zlen tag + hsize fl + 1 < 256 ^ Z.of_nat (fl_w fl) ->
  exists f', iff_save fl f tag = Ok f'.
Proof. exact iff_save_succeeds. Qed.
Print Assumptions C03_iff_save_succeeds.
(* and when it does overflow the model raises struct.error (what the real code does) *)
Theorem C03_iff_save_exact : forall fl, fl_ok fl = true -> forall s tag, struct_ok fl s = true ->
  iff_save fl (iff_render fl s) tag =
  if fits fl (zlen tag) && fits fl (4 + zlen (render_chunks fl (s_chunks (save_struct fl s tag))))
  then Ok (iff_render fl (save_struct fl s tag)) else Raise EStruct.
Proof. exact iff_save_render. Qed.
Print Assumptions C03_iff_save_exact.

(* every finite history of saves (any tag bytes, hence any padding choice) and deletes *)
Theorem C03_iff_history : forall fl, fl_ok fl = true -> forall ops f f',
  iff_wf fl f = true -> iff_run fl f ops = Ok f' -> iff_wf fl f' = true.
Proof. exact iff_history_wf. Qed.
Print Assumptions C03_iff_history.

(* non-vacuity on tiny built files *)
Definition ex_tag (n : Z) : list Z := [73; 68; 51; 4; 0; 0; 0; 0; 0; n] ++ zeros n.
Definition ex_aiff : list Z := iff_build aiff [65; 73; 70; 70] [([67; 79; 77; 77], [1; 2; 3]); ([83; 83; 78; 68], [9; 9])].
Definition ex_wave : list Z := iff_build wave s_WAVE [([102; 109; 116; 32], [1]); (s_ID3 ++ [32], ex_tag 3); ([100; 97; 116; 97], [7; 7; 7])].
Definition ex_dff : list Z := iff_build dsdiff [68; 83; 68; 32] [(s_PROP, [83; 78; 68; 32; 5]); ([68; 83; 68; 32], [])].
Example C03_iff_ex_wf : iff_wf aiff ex_aiff = true /\ iff_wf wave ex_wave = true /\ iff_wf dsdiff ex_dff = true.
Proof. vm_compute. repeat split. Qed.
Example C03_iff_ex_bytes : ex_aiff = [70; 79; 82; 77; 0; 0; 0; 26; 65; 73; 70; 70; 67; 79; 77; 77; 0; 0; 0; 3; 1; 2; 3; 0;
                                      83; 83; 78; 68; 0; 0; 0; 2; 9; 9].
Proof. vm_compute. reflexivity. Qed.
Example C03_iff_ex_history :
  match iff_run aiff ex_aiff [OSave (ex_tag 1); OSave (ex_tag 4); ODelete; OSave (ex_tag 2); ODelete; ODelete] with
  | Ok f => f = ex_aiff | Raise _ => False end.
Proof. vm_compute. reflexivity. Qed.
Example C03_iff_ex_save_create : iff_save aiff ex_aiff (ex_tag 1) =
  Ok [70; 79; 82; 77; 0; 0; 0; 46; 65; 73; 70; 70; 67; 79; 77; 77; 0; 0; 0; 3; 1; 2; 3; 0; 83; 83; 78; 68; 0; 0; 0; 2; 9; 9;
      73; 68; 51; 32; 0; 0; 0; 11; 73; 68; 51; 4; 0; 0; 0; 0; 0; 1; 0; 0].
Proof. vm_compute. reflexivity. Qed.
Example C03_iff_ex_history_wave_dff :
  match iff_run wave ex_wave [OSave (ex_tag 0); OSave (ex_tag 5); ODelete; OSave (ex_tag 1)],
        iff_run dsdiff ex_dff [OSave (ex_tag 7); ODelete; OSave (ex_tag 2); OSave (ex_tag 0)] with
  | Ok f, Ok g => iff_wf wave f = true /\ iff_wf dsdiff g = true | _, _ => False end.
Proof. vm_compute. split; reflexivity. Qed.
(* the strict reader rejects what C03 forbids: wrong root size, missing pad byte *)
Example C03_iff_ex_rejects : iff_wf aiff (ex_aiff ++ [0]) = false /\
  iff_wf aiff [70; 79; 82; 77; 0; 0; 0; 15; 65; 73; 70; 70; 67; 79; 77; 77; 0; 0; 0; 3; 1; 2; 3] = false.
Proof. vm_compute. split; reflexivity. Qed.
