(* C08 (FLAC family) -- delete() removes the tags and nothing else.  flac_delete mirrors the module-level
   delete(filething) = FLAC(filething).delete(): when the file has a comment block, save without code-4 blocks and with
   padding 0; otherwise do nothing. *)
From Coq Require Import ZArith List Bool Lia.
Import ListNotations.
Require Import Base.Py Base.ZList Gen.Gen_tags Model.Splice Model.Fam_flac
  Proofs.Fam_flac_codec Proofs.Fam_flac_walk Proofs.Fam_flac_save Proofs.Fam_flac_thms Proofs.Fam_flac_final Proofs.Fam_flac_session Proofs.Fam_flac_examples.
Open Scope Z_scope.

Theorem C08_flac_delete_succeeds : forall f, flac_wf f = true -> exists f', flac_delete f = Ok f'.
Proof. exact delete_total. Qed.
Print Assumptions C08_flac_delete_succeeds.

(* afterwards the independent reader finds no VORBIS_COMMENT block *)
Theorem C08_flac_no_tags : forall f f', flac_wf f = true -> flac_delete f = Ok f' -> flac_load f' = Ok None.
Proof. exact delete_load. Qed.
Print Assumptions C08_flac_no_tags.

(* no padding is left when tags were removed (a file without tags is not touched at all) *)
Theorem C08_flac_no_padding : forall f f', flac_wf f = true -> flac_load f <> Ok None -> flac_delete f = Ok f' ->
  exists s', flac_parse f' = Ok s' /\ flac_padding s' = 0 /\ existsb is_vcb (fblocks s') = false.
Proof. exact final_delete_padding. Qed.
Print Assumptions C08_flac_no_padding.
Theorem C08_flac_untagged_untouched : forall f s, flac_parse f = Ok s -> struct_wf s = true ->
  existsb is_vcb (fblocks s) = false -> flac_delete f = Ok f.
Proof. intros f s Hp Hw. exact (proj2 (delete_spec f s Hp Hw)). Qed.
Print Assumptions C08_flac_untagged_untouched.

(* nothing else is removed: prefix, foreign blocks (in order), audio and the STREAMINFO block are the same ... *)
Theorem C08_flac_nothing_else : forall f f', flac_wf f = true -> flac_delete f = Ok f' ->
  exists s s', flac_parse f = Ok s /\ flac_parse f' = Ok s' /\
    fprefix s' = fprefix s /\ foreign_blocks (fblocks s') = foreign_blocks (fblocks s) /\ faudio s' = faudio s /\
    hd_error (fblocks s') = hd_error (fblocks s).
Proof. exact final_delete_preserves. Qed.
Print Assumptions C08_flac_nothing_else.
(* ... and the file shrinks by exactly the comment blocks and the padding blocks (an empty padding block remains) *)
Theorem C08_flac_size : forall f s f', flac_wf f = true -> flac_parse f = Ok s -> existsb is_vcb (fblocks s) = true ->
  flac_delete f = Ok f' ->
  zlen f' = zlen f - blocks_extent (filter is_vcb (fblocks s)) - blocks_extent (filter is_pad (fblocks s)) + 4.
Proof. exact final_delete_size. Qed.
Print Assumptions C08_flac_size.

(* FLAC.delete through a live object (acts iff the OBJECT has a tags block, e.g. after add_tags on an untagged file) *)
Theorem C08_flac_delete_live : forall f st bs0 f', flac_parse f = Ok st -> struct_wf st = true -> consistent bs0 st ->
  flac_delete_obj f bs0 = Ok f' ->
  exists st', flac_parse f' = Ok st' /\ struct_wf st' = true /\ same_foreign st st' /\ consistent (clear_tags bs0) st' /\
    (existsb is_vcb bs0 = true -> flac_load f' = Ok None /\ flac_padding st' = 0).
Proof. exact delete_obj_consistent. Qed.
Print Assumptions C08_flac_delete_live.

Theorem C08_flac_delete_twice : forall f f', flac_wf f = true -> flac_delete f = Ok f' -> flac_delete f' = Ok f'.
Proof. exact delete_twice. Qed.
Print Assumptions C08_flac_delete_twice.

Theorem C08_flac_still_wf : forall f f', flac_wf f = true -> flac_delete f = Ok f' -> flac_wf f' = true.
Proof. exact delete_wf. Qed.
Print Assumptions C08_flac_still_wf.

(* new tags can be added and saved afterwards, and read back *)
Theorem C08_flac_retag : forall f f' t o, flac_wf f = true -> flac_delete f = Ok f' -> o_deleteid3 o = false ->
  vc_valid t = true -> vc_fits32 t = true -> zlen (vc_render t) <= MAXSZ ->
  exists f'', flac_save f' t o = Ok f'' /\ flac_load f'' = Ok (Some t) /\ flac_wf f'' = true.
Proof. exact final_retag. Qed.
Print Assumptions C08_flac_retag.

Example C08_flac_ex_delete : is_ok (flac_delete ex_file) = true /\ flac_load (get [] (flac_delete ex_file)) = Ok None /\
  zlen (get [] (flac_delete ex_file)) = zlen ex_file - 42.
Proof. exact ex_delete_ok. Qed.
Example C08_flac_ex_had_tags : flac_load ex_file = Ok (Some ex_old) /\ flac_load ex_notags = Ok None.
Proof. exact ex_load. Qed.
