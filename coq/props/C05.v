(* C05 -- Stream information equals what the headers encode.
   For each modelled format K: SPEC-side build_K (bytes written from the format specification), CODE-side
   decode_K (mirror of mutagen's *Info constructor, reading its rate/bitrate tables from Gen.Gen_tables, which
   py2v regenerates from the live classes on every run), and decode_K (build_K p) = Ok (the encoded values)
   for ALL field values within the field widths.  Durations are exact rationals (numerator, denominator).
   The decoders are tied to /repo by the correspondence harness (harness/props/c05.py). *)
From Coq Require Import ZArith List Bool Lia.
Import ListNotations.
Require Import Base.Py Base.ZList Gen.Gen_tables
  Model.InfoBase Model.InfoMpeg Model.InfoFlac Model.InfoIff Model.InfoSimple Model.InfoMpc Model.InfoOgg
  Proofs.C05_bits Proofs.C05_tables Proofs.C05_mpeg Proofs.C05_flac Proofs.C05_simple Proofs.C05_ogg Proofs.C05_aiff Proofs.C05_mpc8.
Open Scope Z_scope.

(* ================================================================== MPEG audio *)
(* finite domain, by vm_compute: 3 versions x 3 layers x 2 protection x 14 bitrate indices x 3 rate indices x
   2 padding x 2 private x 4 modes = 12096 headers.  expected_mpeg p =
   [bitrate; sample_rate; channels; layer; version*10; mode; protected; padding; samples/frame; frame_length]
   from the ISO tables written in Model.InfoMpeg, frame_length = (12*br/sr + pad)*4 for Layer I,
   144*br/sr + pad for Layer II and MPEG-1 Layer III, 72*br/sr + pad for MPEG-2/2.5 Layer III. *)
Theorem C05_mpeg_exhaustive : forall vb lb prot bri sri pad priv mode,
  In vb [0; 2; 3] -> In lb [1; 2; 3] -> 0 <= prot <= 1 -> 1 <= bri <= 14 -> 0 <= sri <= 2 ->
  0 <= pad <= 1 -> 0 <= priv <= 1 -> 0 <= mode <= 3 ->
  decode_mpeg_frame (build_mpeg_frame (mkMpeg vb lb prot bri sri pad priv mode 0)) =
  Ok (expected_mpeg (mkMpeg vb lb prot bri sri pad priv mode 0)).
Proof. exact mpeg_exhaustive. Qed.
Print Assumptions C05_mpeg_exhaustive.

(* the tables of the live MPEGFrame class equal the specification tables; a changed entry shows up in the
   error message as ((version*10, layer), (index, generated, specified)) *)
Theorem C05_mpeg_tables_match_spec : mpeg_bitrate_table_diff = [] /\ mpeg_rate_table_diff = [].
Proof. exact mpeg_tables_match_spec. Qed.
Print Assumptions C05_mpeg_tables_match_spec.

(* reserved version 1, layer 0, bitrate index 0 / 15, rate index 3: HeaderNotFoundError *)
Theorem C05_mpeg_invalid_rejected : forall vb lb bri sri mode,
  0 <= vb <= 3 -> 0 <= lb <= 3 -> 0 <= bri <= 15 -> 0 <= sri <= 3 -> 0 <= mode <= 3 ->
  vb = 1 \/ lb = 0 \/ bri = 0 \/ bri = 15 \/ sri = 3 ->
  decode_mpeg_frame (build_mpeg_header (mkMpeg vb lb 1 bri sri 0 0 mode 0) ++ zeros 2000) = Raise EMutagen.
Proof. exact mpeg_invalid_rejected. Qed.
Print Assumptions C05_mpeg_invalid_rejected.

(* ================================================================== FLAC *)
(* all field values up to the 16/16/24/24/20/3/5/36/128-bit widths, by arithmetic *)
Theorem C05_flac_streaminfo : forall p, valid_flac p ->
  decode_flac_streaminfo (build_flac_streaminfo p) = Ok (expected_flac p).
Proof. exact flac_streaminfo. Qed.
Print Assumptions C05_flac_streaminfo.

Theorem C05_flac_write_read : forall p, valid_flac p ->
  exists bytes, flac_streaminfo_write p = Ok bytes /\ zlen bytes = 34 /\
                decode_flac_streaminfo bytes = Ok (expected_flac p).
Proof. exact flac_write_read. Qed.
Print Assumptions C05_flac_write_read.

Theorem C05_flac_write_is_spec : forall p, valid_flac p -> flac_streaminfo_write p = Ok (build_flac_streaminfo p).
Proof. exact flac_write_is_spec. Qed.
Print Assumptions C05_flac_write_is_spec.

(* a block shorter than 34 bytes is rejected (strict reads) *)
Theorem C05_flac_short_rejected : forall d, zlen d < 34 -> decode_flac_streaminfo d = Raise EMutagen.
Proof. intros d H. unfold decode_flac_streaminfo. rewrite if_true by lia. reflexivity. Qed.
Print Assumptions C05_flac_short_rejected.

Theorem C05_flac_rate0_rejected : forall a b c d ch bps t m,
  0 <= a < 65536 -> 0 <= b < 65536 -> 0 <= c < 16777216 -> 0 <= d < 16777216 ->
  1 <= ch <= 8 -> 1 <= bps <= 32 -> 0 <= t < 68719476736 -> 0 <= m < 340282366920938463463374607431768211456 ->
  decode_flac_streaminfo (build_flac_streaminfo (mkFlacP a b c d 0 ch bps t m)) = Raise EMutagen.
Proof. exact flac_rate0_rejected. Qed.
Print Assumptions C05_flac_rate0_rejected.

(* ================================================================== WAVE / AIFF *)
Theorem C05_wave_fmt : forall format channels rate byte_rate block_align bits ext data_size,
  0 <= format < 65536 -> 0 <= channels < 65536 -> 0 <= rate < 4294967296 -> 0 <= byte_rate < 4294967296 ->
  0 <= block_align < 65536 -> 0 <= bits < 65536 ->
  decode_wave_fmt (build_wave_fmt format channels rate byte_rate block_align bits ext) data_size =
  Ok [format; channels; rate; bits; channels * bits * rate;
      (if block_align >? 0 then match data_size with Some ds => ds | None => 0 end else 0);
      (if block_align >? 0 then match data_size with Some _ => block_align | None => 1 end else 1);
      b2z (rate >? 0)].
Proof. exact wave_fmt. Qed.
Print Assumptions C05_wave_fmt.

Theorem C05_wave_fmt_short : forall fmt data_size, zlen fmt < 16 -> decode_wave_fmt fmt data_size = Raise EMutagen.
Proof. exact wave_fmt_short. Qed.
Print Assumptions C05_wave_fmt_short.

(* every integer sample rate below 2^53 written as a normalised 80-bit extended number; restriction: rates with
   a fractional part are not covered by the theorem (the model's round53 covers them in the correspondence) *)
Theorem C05_aiff_comm : forall channels frames bits rate ext,
  0 <= channels < 32768 -> 0 <= frames < 4294967296 -> 0 <= bits < 32768 -> 0 <= rate < 9007199254740992 ->
  decode_aiff_comm (build_aiff_comm channels frames bits rate ext) =
  Ok [channels; rate; bits; channels * bits * rate; frames; b2z (negb (rate =? 0))].
Proof. exact aiff_comm. Qed.
Print Assumptions C05_aiff_comm.

Theorem C05_aiff_read_float : forall rate, 0 <= rate < 9007199254740992 ->
  aiff_read_float_int (aiff_ext80 rate) = Ok rate.
Proof. exact read_float_ext80. Qed.
Print Assumptions C05_aiff_read_float.

Theorem C05_aiff_inf_rejected : forall channels frames bits sign hi lo ext,
  0 <= channels < 32768 -> 0 <= frames < 4294967296 -> 0 <= bits < 32768 -> 0 <= sign <= 1 ->
  0 <= hi < 4294967296 -> 0 <= lo < 4294967296 ->
  decode_aiff_comm (be_encode 2 channels ++ be_encode 4 frames ++ be_encode 2 bits ++
                    (be_encode 2 (32767 + 32768 * sign) ++ be_encode 4 hi ++ be_encode 4 lo) ++ ext) = Raise EMutagen.
Proof. exact aiff_inf_rejected. Qed.
Print Assumptions C05_aiff_inf_rejected.

(* ================================================================== DSF / TrueAudio / WavPack / Monkey's / OptimFROG / Musepack *)
Theorem C05_dsf : forall total_size meta_ptr channel_type channels rate bits samples block_size data_size,
  0 <= total_size < 18446744073709551616 -> 0 <= meta_ptr < 18446744073709551616 ->
  0 <= channel_type < 4294967296 -> 0 <= channels < 4294967296 -> 1 <= rate < 4294967296 ->
  0 <= bits < 4294967296 -> 0 <= samples < 18446744073709551616 -> 0 <= block_size < 4294967296 ->
  12 <= data_size < 18446744073709551616 ->
  forall rest,
  decode_dsf (build_dsf total_size meta_ptr channel_type channels rate bits samples block_size data_size ++ rest) =
  Ok [channels; rate; bits; rate * bits * channels; samples; rate].
Proof. exact dsf_header. Qed.
Print Assumptions C05_dsf.

Theorem C05_tta : forall format channels bits rate samples crc,
  0 <= format < 65536 -> 0 <= channels < 65536 -> 0 <= bits < 65536 -> 0 <= rate < 4294967296 ->
  0 <= samples < 4294967296 -> 0 <= crc < 4294967296 ->
  forall rest,
  decode_tta (build_tta format channels bits rate samples crc ++ rest) =
  Ok (if rate =? 0 then [rate; 0; 1] else [rate; samples; rate]).
Proof. exact tta_header. Qed.
Print Assumptions C05_tta.

Theorem C05_wavpack : forall ck version total block_samples bytes_code mono misc_lo rate_idx misc_hi dsd crc,
  0 <= ck < 4294967296 -> 0 <= version < 65536 -> 0 <= total < 4294967295 -> 0 <= block_samples < 4294967296 ->
  0 <= bytes_code <= 3 -> 0 <= mono <= 1 -> 0 <= misc_lo < 1048576 -> 0 <= rate_idx <= 14 -> 0 <= misc_hi < 16 ->
  0 <= dsd <= 1 -> 0 <= crc < 4294967296 ->
  forall rest,
  decode_wavpack (build_wavpack_block ck version total 0 block_samples
                    (wavpack_flags bytes_code mono misc_lo rate_idx misc_hi dsd) crc ++ rest) =
  let rate := nth (Z.to_nat rate_idx) spec_wavpack_rates 0 * (if dsd =? 1 then 4 else 1) in
  Ok [version; (if mono =? 1 then 1 else 2); rate; (if dsd =? 1 then 1 else (bytes_code + 1) * 8); total; rate].
Proof. exact wavpack_header. Qed.
Print Assumptions C05_wavpack.

Theorem C05_wavpack_tables_match_spec : list_diff gen_wavpack_rates spec_wavpack_rates = [].
Proof. exact wavpack_table_matches_spec. Qed.
Print Assumptions C05_wavpack_tables_match_spec.

Theorem C05_ape : forall version seek_bytes wav_bytes audio_bytes compression format_flags bpf ffb frames bits channels rate,
  3980 <= version < 65536 -> 0 <= seek_bytes < 4294967296 -> 0 <= wav_bytes < 4294967296 ->
  0 <= audio_bytes < 4294967296 -> 0 <= compression < 65536 -> 0 <= format_flags < 65536 ->
  0 <= bpf < 4294967296 -> 0 <= ffb < 4294967296 -> 0 <= frames < 4294967296 ->
  0 <= bits < 65536 -> 0 <= channels < 65536 -> 0 <= rate < 4294967296 ->
  forall rest,
  decode_ape (build_ape version seek_bytes wav_bytes audio_bytes compression format_flags bpf ffb frames bits channels rate ++ rest) =
  Ok (if negb (rate =? 0) && (frames >? 0)
      then [version; channels; rate; bits; (frames - 1) * bpf + ffb; rate]
      else [version; channels; rate; bits; 0; 1]).
Proof. exact ape_header. Qed.
Print Assumptions C05_ape.

(* the header before 3.98 (APE_HEADER_OLD): every version below 3980 and every compression level; blocks per frame
   73728 * 4 from 3.95, 73728 from 3.90 and for 3.80-3.89 at level 4000 ("extra high"), 9216 otherwise *)
Theorem C05_ape_old : forall version compression format_flags channels rate header_bytes terminating_bytes frames ffb,
  0 <= version < 3980 -> 0 <= compression < 65536 -> 0 <= format_flags < 65536 -> 0 <= channels < 65536 ->
  0 <= rate < 4294967296 -> 0 <= header_bytes < 4294967296 -> 0 <= terminating_bytes < 4294967296 ->
  0 <= frames < 4294967296 -> 0 <= ffb < 4294967296 ->
  forall rest,
  decode_ape (build_ape_old version compression format_flags channels rate header_bytes terminating_bytes frames ffb ++ rest) =
  Ok (if negb (rate =? 0) && (frames >? 0)
      then [version; channels; rate; 0; (frames - 1) * spec_ape_old_blocks_per_frame version compression + ffb; rate]
      else [version; channels; rate; 0; 0; 1]).
Proof. exact ape_old_header. Qed.
Print Assumptions C05_ape_old.

(* regression of the defect fixed in /repo 66533d3 (the level was compared with 4): 3.85, level 4000, 10 frames: 9 * 73728 + 1000 blocks *)
Example C05_ape_old_extra_high_regression :
  build_ape_old 3850 4000 0 2 44100 0 0 10 1000 =
    [77; 65; 67; 32; 10; 15; 160; 15; 0; 0; 2; 0; 68; 172; 0; 0; 0; 0; 0; 0; 0; 0; 0; 0; 10; 0; 0; 0; 232; 3; 0; 0] ++ repeat 0 44%nat /\
  decode_ape (build_ape_old 3850 4000 0 2 44100 0 0 10 1000) = Ok [3850; 2; 44100; 0; 664552; 44100] /\
  decode_ape (build_ape_old 3850 3000 0 2 44100 0 0 10 1000) = Ok [3850; 2; 44100; 0; 83944; 44100] /\
  decode_ape (build_ape_old 3850 4 0 2 44100 0 0 10 1000) = Ok [3850; 2; 44100; 0; 83944; 44100].
Proof. exact ape_old_extra_high_regression. Qed.

Theorem C05_optimfrog : forall data_size total sample_type channels rate encoder_id,
  (data_size = 12 \/ 15 <= data_size < 4294967296) -> 0 <= total < 281474976710656 -> 0 <= sample_type <= 7 ->
  1 <= channels <= 256 -> 0 <= rate < 4294967296 -> 0 <= encoder_id < 65536 ->
  forall rest,
  decode_ofr (build_ofr data_size total sample_type channels rate encoder_id ++ rest) =
  Ok [channels; rate; 8 * (sample_type / 2 + 1);
      (if rate =? 0 then 0 else total); (if rate =? 0 then 1 else channels * rate);
      (if data_size >=? 15 then encoder_id / 16 + 4500 else -1)].
Proof. exact ofr_header. Qed.
Print Assumptions C05_optimfrog.

Theorem C05_optimfrog_tables_match_spec :
  list_diff (map fst gen_optimfrog_bits) (map fst spec_optimfrog_bits) = [] /\
  list_diff (map snd gen_optimfrog_bits) (map snd spec_optimfrog_bits) = [].
Proof. exact optimfrog_table_matches_spec. Qed.
Print Assumptions C05_optimfrog_tables_match_spec.

Theorem C05_musepack_sv7 : forall minor frames max_level rate_idx link profile max_band ms is_ tp tg ap ag tail,
  0 <= minor < 16 -> 0 <= frames < 4294967296 -> 0 <= max_level < 65536 -> 0 <= rate_idx <= 3 -> 0 <= link <= 3 ->
  0 <= profile < 16 -> 0 <= max_band < 64 -> 0 <= ms <= 1 -> 0 <= is_ <= 1 ->
  0 <= tp < 65536 -> -32768 <= tg < 32768 -> 0 <= ap < 65536 -> -32768 <= ag < 32768 -> length tail = 12%nat ->
  forall rest,
  decode_mpc_sv467 (build_mpc7 minor frames (mpc7_flags max_level rate_idx link profile max_band ms is_) tp tg ap ag tail ++ rest) =
  let rate := nth (Z.to_nat rate_idx) spec_musepack_rates 0 in
  Ok [7; 2; rate; frames * 1152 - 576; rate; 0; tp; tg; ap; ag].
Proof. exact mpc7_header. Qed.
Print Assumptions C05_musepack_sv7.

Theorem C05_musepack_tables_match_spec : list_diff gen_musepack_rates spec_musepack_rates = [].
Proof. exact musepack_table_matches_spec. Qed.
Print Assumptions C05_musepack_tables_match_spec.

(* SV8 sizes: every value below 2^63 in 1..9 bytes *)
Theorem C05_musepack_sv8_varint : forall n rest, 0 <= n < 9223372036854775808 ->
  sv8_parse_int (sv8_varint n ++ rest) = Ok (n, zlen (sv8_varint n), rest).
Proof. intros n rest H. rewrite sv8_varint_zlen. apply sv8_varint_parse. exact H. Qed.
Print Assumptions C05_musepack_sv8_varint.

Theorem C05_musepack_sv8 : forall crc samples silence rate_idx max_bands channels ms block_pwr tg tp ag ap,
  0 <= crc < 4294967296 -> 0 <= samples < 9223372036854775808 -> 0 <= silence < 9223372036854775808 ->
  0 <= rate_idx <= 3 -> 1 <= max_bands <= 32 -> 1 <= channels <= 16 -> 0 <= ms <= 1 -> 0 <= block_pwr <= 7 ->
  0 <= tg < 65536 -> 0 <= tp < 65536 -> 0 <= ag < 65536 -> 0 <= ap < 65536 ->
  decode_mpc (build_mpc8 crc samples silence rate_idx max_bands channels ms block_pwr tg tp ag ap) =
  let rate := nth (Z.to_nat rate_idx) spec_musepack_rates 0 in
  Ok [8; 8; channels; rate; samples - silence; rate;
      to_signed 65536 tg; to_signed 65536 tp; to_signed 65536 ag; to_signed 65536 ap].
Proof. exact mpc8_header. Qed.
Print Assumptions C05_musepack_sv8.

(* ================================================================== Ogg identification headers *)
Theorem C05_ogg_vorbis : forall channels rate maxbr nombr minbr blocksizes granule,
  0 <= channels < 256 -> 1 <= rate < 4294967296 -> -2147483648 <= maxbr < 2147483648 ->
  -2147483648 <= nombr < 2147483648 -> -2147483648 <= minbr < 2147483648 -> 0 <= blocksizes < 256 ->
  decode_vorbis_id (build_vorbis_id channels rate maxbr nombr minbr blocksizes) granule =
  Ok [channels; rate; spec_vorbis_bitrate maxbr nombr minbr; granule; rate].
Proof. exact vorbis_id. Qed.
Print Assumptions C05_ogg_vorbis.

Theorem C05_ogg_vorbis_rate0_rejected : forall channels maxbr nombr minbr blocksizes granule,
  0 <= channels < 256 -> -2147483648 <= maxbr < 2147483648 ->
  -2147483648 <= nombr < 2147483648 -> -2147483648 <= minbr < 2147483648 -> 0 <= blocksizes < 256 ->
  decode_vorbis_id (build_vorbis_id channels 0 maxbr nombr minbr blocksizes) granule = Raise EMutagen.
Proof. exact vorbis_rate0. Qed.
Print Assumptions C05_ogg_vorbis_rate0_rejected.

Theorem C05_ogg_opus : forall version channels pre_skip rate gain family table granule,
  0 <= version < 16 -> 0 <= channels < 256 -> 0 <= pre_skip < 65536 -> 0 <= rate < 4294967296 ->
  -32768 <= gain < 32768 -> 0 <= family < 256 ->
  decode_opus_head (build_opus_head version channels pre_skip rate gain family table) granule =
  Ok [channels; granule - pre_skip; 48000].
Proof. exact opus_head. Qed.
Print Assumptions C05_ogg_opus.

Theorem C05_ogg_speex : forall vstring rate mode channels bitrate frame_size vbr fpp granule,
  1 <= rate < 4294967296 -> 0 <= mode < 4294967296 -> 0 <= channels < 4294967296 ->
  -2147483648 <= bitrate < 2147483648 -> 0 <= frame_size < 4294967296 -> 0 <= vbr < 4294967296 ->
  0 <= fpp < 4294967296 ->
  decode_speex_header (build_speex_header vstring rate mode channels bitrate frame_size vbr fpp) granule =
  Ok [rate; channels; Z.max 0 bitrate; granule; rate].
Proof. exact speex_header. Qed.
Print Assumptions C05_ogg_speex.

Theorem C05_ogg_theora : forall vrev fmbw fmbh picw pich picx picy frn frd parn pard cs nombr qual kfgshift pf granule,
  0 <= vrev < 256 -> 0 <= fmbw < 65536 -> 0 <= fmbh < 65536 -> 0 <= picw < 16777216 -> 0 <= pich < 16777216 ->
  0 <= picx < 256 -> 0 <= picy < 256 -> 1 <= frn < 4294967296 -> 1 <= frd < 4294967296 ->
  0 <= parn < 16777216 -> 0 <= pard < 16777216 -> 0 <= cs < 256 -> 0 <= nombr < 16777216 ->
  0 <= qual < 64 -> 0 <= kfgshift < 32 -> 0 <= pf < 4 ->
  decode_theora_id (build_theora_id vrev fmbw fmbh picw pich picx picy frn frd parn pard cs nombr qual kfgshift pf) granule =
  Ok [frn; frd; nombr; granule / 2 ^ kfgshift + granule mod 2 ^ kfgshift; kfgshift].
Proof. exact theora_id. Qed.
Print Assumptions C05_ogg_theora.

Theorem C05_ogg_flac : forall header_packets p granule, 0 <= header_packets < 65536 -> valid_flac p ->
  decode_oggflac_id (build_oggflac_id header_packets p) granule =
  Ok [fl_minbs p; fl_maxbs p; fl_rate p; fl_channels p; fl_bps p; fl_total p;
      (if fl_total p =? 0 then granule else fl_total p); fl_rate p; header_packets].
Proof. exact oggflac_id. Qed.
Print Assumptions C05_ogg_flac.

(* ================================================================== non-vacuity *)
(* MPEG-1 Layer III 128 kbit/s 44100 Hz joint stereo: 417-byte frame *)
Example C05_ex_mpeg :
  decode_mpeg_frame (build_mpeg_frame (mkMpeg 3 1 1 9 0 0 0 1 0)) = Ok [128000; 44100; 2; 3; 10; 1; 0; 0; 1152; 417]
  /\ zlen (build_mpeg_frame (mkMpeg 3 1 1 9 0 0 0 1 0)) = 417.
Proof. vm_compute. split; reflexivity. Qed.
(* MPEG-1 Layer I 448 kbit/s 32000 Hz with padding: (12*448000/32000 + 1) * 4 = 676 bytes *)
Example C05_ex_mpeg_layer1 :
  decode_mpeg_frame (build_mpeg_frame (mkMpeg 3 3 1 14 2 1 0 3 0)) = Ok [448000; 32000; 1; 1; 10; 3; 0; 1; 384; 676].
Proof. vm_compute. reflexivity. Qed.
(* the STREAMINFO words of a 44.1 kHz / 2 channel / 16 bit stream: 0A C4 42 F0 *)
Example C05_ex_flac :
  firstn 4 (skipn 10 (build_flac_streaminfo (mkFlacP 4096 4096 0 0 44100 2 16 0 0))) = [10; 196; 66; 240]
  /\ valid_flac (mkFlacP 4096 4096 0 0 44100 2 16 0 0).
Proof. split; [vm_compute; reflexivity | unfold valid_flac; cbn; lia]. Qed.
Example C05_ex_flac_extremes :
  valid_flac (mkFlacP 65535 65535 16777215 16777215 1048575 8 32 68719476735 340282366920938463463374607431768211455).
Proof. unfold valid_flac; cbn; lia. Qed.
(* 44100 Hz in 80-bit extended: 40 0E AC 44 00 00 00 00 00 00 *)
Example C05_ex_aiff : aiff_ext80 44100 = [64; 14; 172; 68; 0; 0; 0; 0; 0; 0].
Proof. vm_compute. reflexivity. Qed.
Example C05_ex_mpc8 :
  decode_mpc (build_mpc8 0 9223372036854775807 0 1 32 2 1 3 65535 1 2 3) =
  Ok [8; 8; 2; 48000; 9223372036854775807; 48000; -1; 1; 2; 3].
Proof. vm_compute. reflexivity. Qed.

(* ================================================================== MPEG Layer III: Xing / Info / LAME / VBRI *)
Require Import Model.InfoXing Proofs.C05_xing2 Proofs.C05_xing.

(* finite part (vm_compute): for EVERY Layer III header (3 versions x 14 bitrates x 3 rates x 2 padding x 4 modes)
   a Xing+LAME tag, an Info tag and a VBRI tag placed at the offset the side-information size prescribes are found,
   and a frame without tag reports an unknown length; see vbr_statement *)
Theorem C05_mpeg_vbr_all_headers : forall vb bri sri pad mode,
  In vb [0; 2; 3] -> 1 <= bri <= 14 -> 0 <= sri <= 2 -> 0 <= pad <= 1 -> 0 <= mode <= 3 ->
  vbr_statement (mkMpeg vb 1 1 bri sri pad 0 mode 0).
Proof. exact mpeg_vbr_all_headers. Qed.
Print Assumptions C05_mpeg_vbr_all_headers.

(* symbolic part: all 32-bit frame/byte counts, all 12-bit delay/padding values, every flag combination;
   duration = (samples per frame * frames - delay - padding) / sample rate, floored at 0 *)
Theorem C05_mpeg_xing_lame : forall spf sr off pre info frames bytes toc scale vm lp delay padding rest,
  zlen pre = off -> 0 <= frames < 4294967296 -> opt_u32 bytes -> opt_u32 scale ->
  0 <= vm < 16 -> 0 <= lp < 256 -> 0 <= delay < 4096 -> 0 <= padding < 4096 ->
  decode_vbr_tags spf sr off
    (pre ++ build_xing_tag (mkXing info (Some frames) bytes toc scale) ++ build_lame_tag lame399r vm lp delay padding ++ rest) =
  [if info then 2 else 1; frames; opt_val bytes; 1; delay; padding; Z.max 0 (spf * frames - delay - padding); sr].
Proof. exact xing_lame_tag. Qed.
Print Assumptions C05_mpeg_xing_lame.

Theorem C05_mpeg_xing_plain : forall spf sr off pre info frames bytes toc scale rest,
  zlen pre = off -> opt_u32 frames -> opt_u32 bytes -> opt_u32 scale -> 0 <= spf ->
  decode_vbr_tags spf sr off (pre ++ build_xing_tag (mkXing info frames bytes toc scale) ++ repeat 0 36%nat ++ rest) =
  [if info then 2 else 1; opt_val frames; opt_val bytes; 0; 0; 0;
   match frames with Some fr => spf * fr | None => -1 end; match frames with Some _ => sr | None => 1 end].
Proof. exact xing_plain_tag. Qed.
Print Assumptions C05_mpeg_xing_plain.

Theorem C05_mpeg_vbri : forall spf sr xoff pre delay quality bytes frames entries scale entry_size toc_frames rest,
  let f := pre ++ build_vbri_tag delay quality bytes frames entries scale entry_size toc_frames ++ rest in
  zlen pre = 36 ->
  (zlen (firstn 8 (zdrop_c xoff f)) =? 8) &&
    (list_eqb (firstn 4 (firstn 8 (zdrop_c xoff f))) ascii_Xing || list_eqb (firstn 4 (firstn 8 (zdrop_c xoff f))) ascii_Info) = false ->
  0 <= delay < 65536 -> 0 <= quality < 65536 -> 0 <= bytes < 4294967296 -> 0 <= frames < 4294967296 ->
  0 <= entries < 65536 -> 0 <= scale < 65536 -> (entry_size = 2 \/ entry_size = 4) -> 0 <= toc_frames < 65536 ->
  decode_vbr_tags spf sr xoff f = [3; frames; bytes; 0; 0; 0; spf * frames; sr].
Proof. exact vbri_tag. Qed.
Print Assumptions C05_mpeg_vbri.

Example C05_ex_xing :
  decode_mpeg_vbr (build_tag_frame (mkMpeg 3 1 1 9 0 0 0 1 0) 36 (build_xing_tag xing_sample_1 ++ lame_sample)) =
  Ok [128000; 44100; 2; 3; 10; 1; 0; 0; 1152; 417; 1; 1000; 2000000; 1; 576; 1105; 1150319; 44100].
Proof. vm_compute. reflexivity. Qed.

(* ================================================================== stage 2: AC-3 / E-AC-3 (finite domains, vm_compute) *)
Require Import Model.InfoAc3 Proofs.C05_ac3 Proofs.C05_ac3b.

Theorem C05_ac3_tables_match_spec : ac3_table_diffs = [[]; []; []; []; []].
Proof. exact ac3_tables_match_spec. Qed.
Print Assumptions C05_ac3_tables_match_spec.

(* A/52 syncframe, every fscod x frmsizecod (0..37) x bsid (0..10) x lfeon x all eight channel modes
   (cmixlev / surmixlev / dsurmod values 0, 1, 2 through mix): [codec; sample_rate; bitrate; channels] as encoded *)
Theorem C05_ac3_header : forall fscod frmsizecod bsid acmod lfe mix,
  0 <= fscod <= 2 -> 0 <= frmsizecod <= 37 -> 0 <= bsid <= 10 -> 0 <= acmod <= 7 -> 0 <= lfe <= 1 -> In mix [0; 5; 10] ->
  let p := mkAc3 fscod frmsizecod bsid 0 acmod (mix mod 4) ((mix / 4) mod 4) (mix mod 4) lfe 27 in
  exists l, decode_ac3 (build_ac3_frame p) = Ok l /\ firstn 4 l = expected_ac3 p.
Proof.
  intros fscod frmsizecod bsid acmod lfe mix H1 H2 H3 H4 H5 H6.
  assert (In acmod [2; 3; 4; 6] \/ In acmod [0; 1; 5; 7]) as [G | G] by (cbn [In]; lia).
  - apply ac3_header_good_modes; assumption.
  - apply ac3_header_other_modes; assumption.
Qed.
Print Assumptions C05_ac3_header.

(* the header of the defect fixed in /repo (5.1 stream reported with 5 channels) *)
Example C05_ac3_51_regression :
  decode_ac3 (build_ac3_frame (mkAc3 0 20 8 0 7 1 1 0 1 27)) = Ok [0; 48000; 192000; 6; 440; 192000] /\
  build_ac3_header (mkAc3 0 20 8 0 7 1 1 0 1 27) = [11; 119; 0; 0; 20; 64; 235; 216; 64].
Proof. exact ac3_51_regression. Qed.

Theorem C05_eac3_header : forall strmtyp frmsiz fscod code2 acmod lfe,
  0 <= strmtyp <= 2 -> In frmsiz [3; 4; 100; 767; 1024; 2047] -> 0 <= fscod <= 3 -> 0 <= code2 <= 3 ->
  0 <= acmod <= 7 -> 0 <= lfe <= 1 ->
  let p := mkEac3 strmtyp 0 frmsiz fscod (code2 mod 3) code2 acmod lfe 16 27 in
  exists l, decode_ac3 (build_eac3_frame p) = Ok l /\ firstn 4 l = expected_eac3 p.
Proof. exact eac3_header. Qed.
Print Assumptions C05_eac3_header.

Theorem C05_ac3_invalid_rejected :
  forallb (fun p => ac3_rejects (build_ac3_frame p)) ac3_invalid_domain = true /\
  forallb (fun p => ac3_rejects (build_eac3_frame p)) eac3_invalid_domain = true /\
  zlen ac3_invalid_domain = 4544.
Proof. exact ac3_invalid_rejected. Qed.
Print Assumptions C05_ac3_invalid_rejected.

(* ================================================================== AAC ADIF *)
(* ISO/IEC 13818-7 adif_header() + program_config_element() written bit by bit (Model.InfoAac.build_adif) and read by
   the mirror of AACInfo._parse_adif / ProgramConfigElement over BitReader: for ALL field values within the bit widths
   (copyright id present or not, original/home, both bitstream types, 23-bit bitrate, 20-bit buffer fullness in front of
   every program of a constant-rate header, every sampling frequency index -- the reserved ones 13..15 report 0 --,
   0..15 front/side/back elements each single or pair, 0..3 LFE, 0..7 associated data, 0..15 coupling elements, the
   three mixdown options, 0..255 comment bytes, 1..16 programs) the reported
   [sample_rate; channels; bitrate; 8 * raw data bytes; bitrate] are those of the first program. *)
Require Import Model.InfoAac Proofs.C05_aac_bits Proofs.C05_aac.

Theorem C05_aac_tables_match_spec : aac_table_diffs = [].
Proof. exact aac_tables_match_spec. Qed.
Print Assumptions C05_aac_tables_match_spec.

Theorem C05_adif : forall p tail, valid_adif p -> Forall (fun x => 0 <= x < 256) tail ->
  decode_adif (build_adif p tail) = Ok (expected_adif_info p (zlen tail)).
Proof. exact adif_decode_build. Qed.
Print Assumptions C05_adif.

(* regression of the defect fixed in /repo 2eb4867 (buffer fullness was skipped only before the first program): constant rate,
   two programs; formerly length 624/128000 with 100 bytes of raw data and AACError with 2 *)
Example C05_adif_cbr_multi_pce_regression :
  valid_adif adif_cbr2_witness /\
  build_adif adif_cbr2_witness [] =
    [65; 68; 73; 70; 0; 62; 128; 3; 255; 255; 224; 160; 128; 0; 4; 0; 0; 255; 255; 241; 76; 128; 80; 0; 17; 144; 0; 5; 104; 101; 108; 108; 111] /\
  decode_adif (build_adif adif_cbr2_witness (zeros 100)) = Ok [44100; 2; 128000; 800; 128000] /\
  decode_adif (build_adif adif_cbr2_witness [0; 0]) = Ok [44100; 2; 128000; 16; 128000] /\
  expected_adif_info adif_cbr2_witness 100 = [44100; 2; 128000; 800; 128000].
Proof. exact adif_cbr_multi_pce_regression. Qed.

Example C05_adif_vbr_example :
  build_adif (mkAdif None 0 0 1 128000 0 [mkPce 0 1 4 [16] [] [] [] [] [] None None None []]) [1; 2; 3] =
    [65; 68; 73; 70; 16; 62; 128; 0; 10; 8; 0; 0; 64; 0; 1; 2; 3] /\
  decode_adif [65; 68; 73; 70; 16; 62; 128; 0; 10; 8; 0; 0; 64; 0; 1; 2; 3] = Ok [44100; 2; 128000; 24; 128000].
Proof. exact adif_vbr_example. Qed.

Example C05_adif_truncated_rejected :
  forallb (fun n => match decode_adif (firstn n [65; 68; 73; 70; 16; 62; 128; 0; 10; 8; 0; 0; 64; 0]) with Raise EMutagen => true | _ => false end)
    [4; 5; 6; 7; 8; 9; 10; 11; 12; 13]%nat = true.
Proof. exact adif_truncated_rejected. Qed.
