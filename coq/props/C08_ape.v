(* C08 (APEv2 family) -- delete removes exactly the tag region [start, end) and nothing else; no APETAGEX marker
   remains; delete twice = once; the file can be tagged again.  Module-level delete = the method, except that a
   file whose tag reads as "no tag" (absent or EMPTY) is left untouched. *)
From Coq Require Import ZArith List Bool Lia Permutation.
Import ListNotations.
Require Import Base.Py Base.ZList Model.Sort Model.Fam_ape
  Proofs.Fam_ape_codec Proofs.Fam_ape_locate Proofs.Fam_ape_save Proofs.Fam_ape_props Proofs.Fam_ape_examples.
Open Scope Z_scope.

Theorem C08_ape_delete : forall real f s f',
  ape_wf f = true -> ape_parse f = Ok s -> ape_delete real f = Ok f' ->
  (exists tagbytes, f = pbody s ++ tagbytes ++ ptrailer s /\ f' = pbody s ++ ptrailer s /\
                    zlen f' = zlen f - zlen tagbytes) /\
  has_marker f' = false /\ ape_load f' = Ok None /\ ape_mut_load real f' = Ok None /\
  ape_delete real f' = Ok f' /\ ape_moddelete real f' = Ok f' /\ ape_wf f' = true.
Proof. exact C08_delete. Qed.
Print Assumptions C08_ape_delete.

Theorem C08_ape_delete_succeeds : forall real f s, ape_wf f = true -> ape_parse f = Ok s ->
  ape_delete real f = Ok (pbody s ++ ptrailer s).
Proof. exact delete_spec. Qed.
Print Assumptions C08_ape_delete_succeeds.

Theorem C08_ape_retag : forall real f f' t,
  ape_wf f = true -> ape_delete real f = Ok f' -> forallb item_valid t = true -> tag_fits t = true ->
  ape_save real f' t = Ok (f' ++ ape_render_tag t) /\ ape_load (f' ++ ape_render_tag t) = Ok (canon t) /\
  ape_wf (f' ++ ape_render_tag t) = true.
Proof. exact C08_retag. Qed.
Print Assumptions C08_ape_retag.

Theorem C08_ape_moddelete : forall real f f',
  ape_wf f = true -> ape_moddelete real f = Ok f' ->
  (f' = f /\ ape_mut_load real f = Ok None) \/ ape_delete real f = Ok f'.
Proof. exact C08_moddelete. Qed.
Print Assumptions C08_ape_moddelete.

(* a file without the marker has nothing to delete *)
Theorem C08_ape_untagged_fixed : forall real g, has_marker g = false ->
  ape_delete real g = Ok g /\ ape_moddelete real g = Ok g /\ ape_load g = Ok None /\ ape_mut_load real g = Ok None.
Proof. exact untagged_fixed. Qed.
Print Assumptions C08_ape_untagged_fixed.

(* canonical form, not a defect of the method: the module-level function leaves an EMPTY tag in the file *)
Theorem C08_ape_moddelete_empty_refuted : exists f,
  ape_wf f = true /\ ape_moddelete false f = Ok f /\ has_marker f = true /\ ape_delete false f = Ok audio.
Proof. exact moddelete_empty_refuted. Qed.
Print Assumptions C08_ape_moddelete_empty_refuted.

(* outside ape_wf (two stacked tags) delete twice is not delete once *)
Theorem C08_ape_delete_twice_refuted : exists f s,
  ape_parse f = Ok s /\ ape_wf f = false /\
  exists f1 f2, ape_delete false f = Ok f1 /\ ape_delete false f1 = Ok f2 /\ f2 <> f1.
Proof. exact delete_twice_refuted. Qed.
Print Assumptions C08_ape_delete_twice_refuted.

Example C08_ape_example :
  ape_delete false (tagged ++ id3v1) = Ok (audio ++ id3v1) /\ ape_delete false (audio ++ id3v1) = Ok (audio ++ id3v1) /\
  has_marker (audio ++ id3v1) = false.
Proof. repeat split; vm_compute; reflexivity. Qed.
