(* C01 at container level (family dsf) -- the tag bytes written at the metadata pointer are what an independent
   reading of the container gives back (dsf_load: strict reader, bytes from the pointer to EOF). *)
From Coq Require Import ZArith List Bool Lia.
Import ListNotations.
Require Import Base.Py Base.ZList Model.Splice Model.Fam_carrier Model.Fam_dsf
  Proofs.Fam_iff_codec Proofs.Fam_iff_chunks Proofs.Fam_dsf_lemmas Proofs.Fam_dsf_props Proofs.Fam_carrier_lemmas Proofs.Fam_dsf_c09.
Open Scope Z_scope.

Theorem C01_dsf_load_after_save : forall f tag f',
  dsf_wf f = true -> id3_tag_exact tag = true -> dsf_save f tag = Ok f' -> dsf_load f' = Ok (Some tag).
Proof. exact dsf_load_after_save. Qed.
Print Assumptions C01_dsf_load_after_save.

(* with _prepare_data modelled: the reader returns header + the frame data that was rendered + zero padding *)
Theorem C01_dsf_load_after_prepared_save : forall f fd ver cb f', dsf_wf f = true -> dsf_save_cb f fd ver cb = Ok f' ->
  exists tag, dsf_load f' = Ok (Some tag) /\
    exists sz, zlen sz = 4 /\ tag = ID3_MAGIC ++ [ver; 0; 0] ++ sz ++ fd ++ zeros (zlen tag - zlen fd - 10).
Proof. intros f fd ver cb f' Hw Hs. exact (proj2 (dsf_save_cb_wf f fd ver cb f' Hw Hs)). Qed.
Print Assumptions C01_dsf_load_after_prepared_save.

(* 64-bit little-endian field codec *)
Theorem C01_dsf_u64_roundtrip : forall v, fits64 v = true -> le_decode (u64 v) = v.
Proof. exact u64_decode. Qed.
Print Assumptions C01_dsf_u64_roundtrip.

Definition ex_fmt : list Z := le_encode 4 1 ++ le_encode 4 0 ++ le_encode 4 2 ++ le_encode 4 2 ++ le_encode 4 2822400 ++
  le_encode 4 1 ++ le_encode 8 0 ++ le_encode 4 4096 ++ le_encode 4 0.
Example C01_dsf_ex : match dsf_save_cb (dsf_build ex_fmt [5] None) [84; 73; 84; 50; 0; 0; 0; 2; 0; 0; 3; 65] 4 (cb_const 3) with
  | Ok f' => dsf_load f' = Ok (Some ([73; 68; 51; 4; 0; 0; 0; 0; 0; 15; 84; 73; 84; 50; 0; 0; 0; 2; 0; 0; 3; 65; 0; 0; 0]))
  | Raise _ => False end.
Proof. vm_compute. reflexivity. Qed.
