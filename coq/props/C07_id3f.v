(* C07 for the family id3f: saving again is the identity whenever the padding callback, offered the padding now in the
   file, returns it; with the default policy the second save is byte-identical unless the first save removed an ID3v1
   tag (the policy is fed the size of everything behind the ID3v2 tag, ID3v1 tag included). *)
From Coq Require Import ZArith List Bool Lia.
Import ListNotations.
Require Import Base.Py Base.ZList Gen.Gen_tags Model.Splice Model.Id3Util Model.Fam_id3f
  Proofs.Fam_id3f_base Proofs.Fam_id3f_save Proofs.Fam_id3f_props Proofs.Fam_id3f_examples.
Open Scope Z_scope.

Theorem C07_id3f_second_save : forall f fr o f' s',
  id3f_wf f = true -> frames_ok (o_v2 o) fr = true -> v1_hyp (mid_of f) o ->
  id3f_save f fr o = Ok f' -> id3f_parse f' = Ok s' ->
  o_cb o (id3f_padding s') (zlen f' - tag_size s') = id3f_padding s' ->
  id3f_save f' fr o = Ok f'.
Proof. exact c07_second_save. Qed.
Print Assumptions C07_id3f_second_save.

Theorem C07_id3f_default_idempotent : forall f s fr o f',
  id3f_wf f = true -> id3f_parse f = Ok s -> frames_ok (o_v2 o) fr = true -> v1_hyp (i_mid s) o ->
  o_cb o = get_default_padding ->
  zlen (optb (i_v1 s)) <= zlen (optb (v1_after (o_v1 o) (o_v1bytes o) (i_v1 s))) ->
  id3f_save f fr o = Ok f' -> id3f_save f' fr o = Ok f'.
Proof. exact c07_default_idempotent. Qed.
Print Assumptions C07_id3f_default_idempotent.

Theorem C07_id3f_default_moderate : forall f fr o f' s',
  id3f_wf f = true -> frames_ok (o_v2 o) fr = true -> v1_hyp (mid_of f) o ->
  o_cb o = get_default_padding ->
  id3f_save f fr o = Ok f' -> id3f_parse f' = Ok s' -> id3f_padding s' <= 1024 ->
  id3f_save f' fr o = Ok f'.
Proof. exact c07_default_moderate. Qed.
Print Assumptions C07_id3f_default_moderate.

(* load + save unchanged with the tag's own version is lossless at container level *)
Theorem C07_id3f_lossless : forall f s t o f',
  id3f_wf f = true -> id3f_parse f = Ok s -> i_tag s = Some t -> o_v2 o = t_ver t -> v1_hyp (i_mid s) o ->
  id3f_save f (t_frames t) o = Ok f' ->
  id3f_load f' = id3f_load f /\ mid_of f' = i_mid s.
Proof. exact c07_lossless. Qed.
Print Assumptions C07_id3f_lossless.

(* known finding C07-id3-v1-removal-threshold (known_findings.json; direct oracle harness/fam/shared.py c07_id3_v1_threshold):
   the hypothesis of C07_id3f_default_idempotent is necessary: 10250 bytes of padding behind which lie 1000 bytes
   (ID3v1 tag included) are kept by the first default save; if that save removed the ID3v1 tag (v1=0), the second one
   sees 872 bytes, its threshold drops to 10248 and the padding is cut to the policy's minimum *)
Theorem C07_id3f_default_v1_removed_refuted :
  exists p0 s0, 0 <= p0 /\ 128 <= s0 /\
    let r := get_default_padding p0 s0 in
    r = p0 /\ get_default_padding r (s0 - 128) <> r.
Proof. exact c07_default_v1_removed_not_idempotent_arith. Qed.
Print Assumptions C07_id3f_default_v1_removed_refuted.
