(* C07 for the family id3f: saving again is the identity whenever the padding callback, offered the padding now in the
   file, returns it; for the default policy this holds for padding up to 1 KiB and whenever the first save kept the
   file size -- NOT in general, because ID3.save feeds the policy a file size that includes the old tag. *)
From Coq Require Import ZArith List Bool Lia.
Import ListNotations.
Require Import Base.Py Base.ZList Gen.Gen_tags Model.Splice Model.Id3Util Model.Fam_id3f
  Proofs.Fam_id3f_base Proofs.Fam_id3f_save Proofs.Fam_id3f_props Proofs.Fam_id3f_examples.
Open Scope Z_scope.

Theorem C07_id3f_second_save : forall f fr o f' s',
  id3f_wf f = true -> frames_ok (o_v2 o) fr = true -> v1_hyp (mid_of f) o ->
  id3f_save f fr o = Ok f' -> id3f_parse f' = Ok s' ->
  o_cb o (id3f_padding s') (zlen f') = id3f_padding s' ->
  id3f_save f' fr o = Ok f'.
Proof. exact c07_second_save. Qed.
Print Assumptions C07_id3f_second_save.

Theorem C07_id3f_default_moderate : forall f fr o f' s',
  id3f_wf f = true -> frames_ok (o_v2 o) fr = true -> v1_hyp (mid_of f) o ->
  o_cb o = get_default_padding ->
  id3f_save f fr o = Ok f' -> id3f_parse f' = Ok s' -> id3f_padding s' <= 1024 ->
  id3f_save f' fr o = Ok f'.
Proof. exact c07_default_moderate. Qed.
Print Assumptions C07_id3f_default_moderate.

Theorem C07_id3f_default_same_size : forall f fr o f' s',
  id3f_wf f = true -> frames_ok (o_v2 o) fr = true -> v1_hyp (mid_of f) o ->
  o_cb o = get_default_padding ->
  id3f_save f fr o = Ok f' -> id3f_parse f' = Ok s' -> zlen f' = zlen f ->
  id3f_save f' fr o = Ok f'.
Proof. exact c07_default_same_size. Qed.
Print Assumptions C07_id3f_default_same_size.

(* load + save unchanged with the tag's own version is lossless at container level *)
Theorem C07_id3f_lossless : forall f s t o f',
  id3f_wf f = true -> id3f_parse f = Ok s -> i_tag s = Some t -> o_v2 o = t_ver t -> v1_hyp (i_mid s) o ->
  id3f_save f (t_frames t) o = Ok f' ->
  id3f_load f' = id3f_load f /\ mid_of f' = i_mid s.
Proof. exact c07_lossless. Qed.
Print Assumptions C07_id3f_lossless.

(* default-policy idempotence in general is refuted: 12 000 000 bytes of free tag space in a 12 000 527 byte file *)
Theorem C07_id3f_default_not_idempotent_refuted :
  exists p0 s0, 0 <= p0 <= s0 /\
    let r := get_default_padding p0 s0 in
    let s1 := s0 - p0 + r in
    0 <= r /\ get_default_padding r s1 <> r.
Proof. exact c07_default_not_idempotent_arith. Qed.
Print Assumptions C07_id3f_default_not_idempotent_refuted.
