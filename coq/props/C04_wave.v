(* C04 (WAVE) -- Malformed input is rejected cleanly and in bounded time: the mirror of what WAVE.load does apart
   from parsing the ID3 tag itself (WaveStreamInfo: _WaveFile with the RIFF chunk walk and the ID3 -> id3 renaming,
   'fmt ' lookup, IffChunk.read, struct.unpack, the 'data' lookup and the two guarded divisions;
   _WaveID3._pre_load_header: _WaveFile again, the 'id3' lookup, the seek) returns Ok or raises EMutagen on
   EVERY byte string -- never struct.error, AssertionError (_calculate_size), OverflowError (seek / read),
   KeyError, UnicodeDecodeError, ZeroDivisionError, and never EOutOfFuel, where every chunk walk gets
   1 * len + 1 rounds of fuel (`C04_WAVE_fuel`, by reflexivity: it is the wrapper's definition). *)
From Coq Require Import ZArith List Bool Lia.
Import ListNotations.
Require Import Base.Py Model.Parse_base Model.Parse_aiff Model.Parse_wave Proofs.C04_lib Proofs.C04_aiff Proofs.C04_wave.
Open Scope Z_scope.

Theorem C04_WAVE_total : forall bytes, c04_input bytes ->
  match wave_load bytes with Ok _ => True | Raise e => e = EMutagen end.
Proof. exact wave_total. Qed.
Print Assumptions C04_WAVE_total.
Theorem C04_WAVE_fuel : forall bytes,
  wave_load bytes = prun (wave_init (Z.to_nat (1 * zlen bytes + 1))) bytes.
Proof. reflexivity. Qed.
Print Assumptions C04_WAVE_fuel.

(* the RIFF chunk walk on its own, from any offset with fuel covering the rest of the data *)
Theorem C04_WAVE_walk_total : forall bytes fuel next end_ pos,
  Forall (fun x => 0 <= x < 256) bytes -> 0 <= next -> 0 <= pos ->
  1 <= Z.of_nat fuel -> zlen bytes + 2 - next <= Z.of_nat fuel ->
  match riff_subchunks fuel next end_ bytes pos with
  | (Ok chunks, _) => Forall (fun c => 0 <= snd c <= zlen bytes) chunks
  | (Raise e, _) => e = EMutagen
  end.
Proof.
  intros bytes fuel next end_ pos Hb Hn Hp Hf1 Hf.
  pose proof (riff_subchunks_spec bytes end_ Hb fuel next pos Hn Hp Hf1 Hf) as H.
  unfold pspecE in H. destruct (riff_subchunks fuel next end_ bytes pos) as [[l|e] p']; [exact (proj2 H)|exact H].
Qed.
Print Assumptions C04_WAVE_walk_total.

(* ---- non-vacuity ---- *)
Definition ex_fmt (n : Z) : list Z := [102;109;116;32; n;0;0;0; 1;0; 2;0; 68;172;0;0; 16;177;2;0; 4;0; 16;0].
Definition ex_data : list Z := [100;97;116;97; 8;0;0;0; 0;0;0;0;0;0;0;0].
Definition ex_wave : list Z :=
  [82;73;70;70; 62;0;0;0; 87;65;86;69] ++ ex_fmt 16 ++ ex_data ++ [73;68;51;32; 10;0;0;0; 73;68;51;4;0;0;0;0;0;0].
(* the tag chunk is spelled 'ID3 ': found as 'id3' after the renaming *)
Example C04_WAVE_ex_ok :
  c04_inputb ex_wave = true /\ wave_load ex_wave = Ok [1; 2; 44100; 16; 4; 8; 60] /\
  wave_load ([82;73;70;70; 28;0;0;0; 87;65;86;69] ++ ex_fmt 16) = Ok [1; 2; 44100; 16; 4; -1; -1].
Proof. vm_compute. repeat split; reflexivity. Qed.
Example C04_WAVE_ex_truncated : wave_load (firstn 35 ex_wave) = Raise EMutagen /\ wave_load (firstn 7 ex_wave) = Raise EMutagen.
Proof. vm_compute. split; reflexivity. Qed.
Example C04_WAVE_ex_rejected :
  wave_load ([82;73;70;70; 20;0;0;0; 87;65;86;69] ++ ex_data) = Raise EMutagen /\                      (* no 'fmt ' chunk *)
  wave_load ([82;73;70;70; 44;0;0;0; 65;86;73;32] ++ ex_fmt 16 ++ ex_data) = Raise EMutagen /\          (* RIFF/AVI *)
  wave_load ([82;73;70;70; 28;0;0;0; 87;65;86;69] ++ ex_fmt 15) = Raise EMutagen /\                     (* 15-byte fmt *)
  wave_load ([82;73;70;70; 40;0;0;0; 87;65;86;69] ++ ex_fmt 16 ++ [76;73;83;84; 4;0;0;0; 73;78;255;79]) = Raise EMutagen.
Proof. vm_compute. repeat split; reflexivity. Qed.
