(* C04 (OggFLAC) -- Malformed input is rejected cleanly and in bounded time: the mirror of OggFLAC loading up to, not
   including, OggFLACStreamInfo._post_tags (OggFLACStreamInfo.__init__: the page loop for b"\x7FFLAC", the mapping
   header, flac.StreamInfo.load on the rest of the packet; OggFLACVComment.__init__: the page loop for the comment
   packet, OggPage.to_packets, VComment.load(framing=False); all under OggFileType.load's exception mapping) returns Ok
   or raises EMutagen on EVERY byte string -- never EOFError, struct.error, ValueError / IndexError (to_packets,
   packets[0]), OverflowError, and never EOutOfFuel, where both page loops get 1 * len + 1 rounds of fuel and the
   comment loop len(packet) + 1 (`C04_OggFLAC_fuel`, by reflexivity).
   NOT covered: _post_tags (OggPage.find_last), which only runs for a STREAMINFO with total_samples = 0. *)
From Coq Require Import ZArith List Bool Lia.
Import ListNotations.
Require Import Base.Py Model.Parse_base Model.Ogg Model.Parse_ogg Model.Parse_oggflac Proofs.C04_lib Proofs.C04_oggflac.
Open Scope Z_scope.

Theorem C04_OggFLAC_total : forall bytes, c04_input bytes ->
  match oggflac_load bytes with Ok _ => True | Raise e => e = EMutagen end.
Proof. exact oggflac_total. Qed.
Print Assumptions C04_OggFLAC_total.
Theorem C04_OggFLAC_fuel : forall bytes,
  oggflac_load bytes = prun (ogf_init (Z.to_nat (1 * zlen bytes + 1))) bytes.
Proof. reflexivity. Qed.
Print Assumptions C04_OggFLAC_fuel.
(* OggPage.to_packets(pages) on pages of bytes: packets of bytes, or ValueError / IndexError (which load maps) *)
Theorem C04_OggFLAC_to_packets_cases : forall pages,
  Forall (fun pg => Forall (Forall (fun x => 0 <= x < 256)) (p_packets pg)) pages ->
  match to_packets false pages with
  | Ok packets => Forall (Forall (fun x => 0 <= x < 256)) packets
  | Raise e => e = EValue \/ e = EIndex
  end.
Proof. exact to_packets_cases. Qed.
Print Assumptions C04_OggFLAC_to_packets_cases.

(* ---- non-vacuity ---- *)
Definition ex_ogg_hdr (flags seq nseg : Z) : list Z := [79;103;103;83; 0; flags; 0;0;0;0;0;0;0;0; 1;0;0;0; seq;0;0;0; 0;0;0;0; 1; nseg].
Definition ex_ogf_head (major : Z) : list Z :=
  [127;70;76;65;67; major;0; 0;1; 102;76;97;67; 0;0;0;34; 16;0;16;0; 0;0;16; 0;0;32; 10;196;66;240; 0;1;88;136] ++ repeat 17 16.
Definition ex_ogf_comment : list Z := [132;0;0;16; 1;0;0;0; 118; 1;0;0;0; 3;0;0;0; 65;61;98].
Definition ex_oggflac (major seq : Z) : list Z :=
  ex_ogg_hdr 2 0 51 ++ ex_ogf_head major ++ ex_ogg_hdr 0 seq 20 ++ ex_ogf_comment.
Example C04_OggFLAC_ex_ok :
  c04_inputb (ex_oggflac 1 1) = true /\ oggflac_load (ex_oggflac 1 1) = Ok [4096; 4096; 44100; 2; 16; 88200; 1; 1].
Proof. vm_compute. split; reflexivity. Qed.
Example C04_OggFLAC_ex_rejected :
  oggflac_load (ex_ogg_hdr 2 0 51 ++ ex_ogf_head 1) = Raise EMutagen /\               (* no comment page: EOFError, mapped *)
  oggflac_load (ex_oggflac 2 1) = Raise EMutagen /\                                    (* mapping version 2.0 *)
  oggflac_load (firstn 90 (ex_oggflac 1 1)) = Raise EMutagen /\
  oggflac_load (ex_ogg_hdr 2 0 12 ++ firstn 12 (ex_ogf_head 1) ++ ex_ogg_hdr 0 1 20 ++ ex_ogf_comment) = Raise EMutagen.   (* struct.error, mapped *)
Proof. vm_compute. repeat split; reflexivity. Qed.
