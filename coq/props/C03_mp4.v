(* C03 for the MP4 family: a save / delete of a well-formed file leaves a well-formed file (atoms tile their parents at every
   level, offset tables well-formed and inside the file).  Glue only; proofs in proofs/Fam_mp4_*.v (see props/C10.v). *)
From Coq Require Import ZArith List Bool Lia.
Import ListNotations.
Require Import Base.Py Base.ZList Model.Splice Model.Fam_mp4.
Require Import Proofs.Fam_mp4_tree Proofs.Fam_mp4_steps Proofs.Fam_mp4_agree Proofs.Fam_mp4_surgery Proofs.Fam_mp4_existing
  Proofs.Fam_mp4_main Proofs.Fam_mp4_new Proofs.Fam_mp4_c10 Proofs.Fam_mp4_whole.
Open Scope Z_scope.

(* one step, existing tags: every strict rule of mp4_wf holds again *)
Theorem C03_mp4_save_preserves_wf f ilst_data cb f' atoms path it :
  mp4_wf f = true -> mp4_atoms f = Ok atoms -> mp4_path atoms ILST_PATH = Some path -> mp4_tags_clean atoms = true ->
  covered atoms -> ilst_wellformed ilst_data it -> ilst_clean it = true -> mp4_height it <= 62 ->
  mp4_save f ilst_data cb = Ok f' -> mp4_wf f' = true.
Proof. exact (c10_wf_preserved f ilst_data cb f' atoms path it). Qed.
Print Assumptions C03_mp4_save_preserves_wf.

Theorem C03_mp4_delete_preserves_wf f f' atoms path :
  mp4_wf f = true -> mp4_atoms f = Ok atoms -> mp4_path atoms ILST_PATH = Some path -> mp4_tags_clean atoms = true ->
  covered atoms -> mp4_delete f = Ok f' -> mp4_wf f' = true.
Proof. exact (c08_delete_wellformed f f' atoms path). Qed.
Print Assumptions C03_mp4_delete_preserves_wf.

(* file without tags: the structural part (tiling at every level, what the next load parses).  PARTIAL: the table rules of
   mp4_wf for the result of __save_new are not proved here (the offsets themselves are, see C10_offsets_follow_data_new), and the
   one-step theorems are not lifted to operation sequences (that needs covered / mp4_tags_clean of the result). *)
Theorem C03_mp4_new_tags_structure_partial f ilst_data cb f' atoms path last rest it :
  mp4_wf f = true -> mp4_atoms f = Ok atoms -> mp4_path atoms ILST_PATH = None ->
  mp4_insert_path atoms = Some path -> rev path = last :: rest ->
  ilst_wellformed ilst_data it -> mp4_height it <= 62 -> zlen ilst_data < 4611686018427387904 ->
  mp4_save f ilst_data cb = Ok f' ->
  exists atoms', mp4_atoms f' = Ok atoms' /\ mp4_forest_ok f' true atoms' 0 (zlen f') = true /\
                 mp4_forest_height atoms' <= MP4_MAXDEPTH.
Proof. exact (c10_parents_consistent_new f ilst_data cb f' atoms path last rest it). Qed.
Print Assumptions C03_mp4_new_tags_structure_partial.

Example C03_mp4_ex : ilst_wellformed mp4_empty_ilst empty_ilst_tree /\ ilst_clean empty_ilst_tree = true /\ mp4_height empty_ilst_tree <= 62.
Proof. exact empty_ilst_ok. Qed.
