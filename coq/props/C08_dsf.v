(* C08 (family dsf) -- the module-level delete truncates the file at the metadata pointer, resets the pointer and
   updates the total size, and does nothing else.  Theorems about Model.Fam_dsf (dsf_delete mirrors mutagen.dsf.delete
   incl. its DSFFile(...) parse of all three chunks). *)
From Coq Require Import ZArith List Bool Lia.
Import ListNotations.
Require Import Base.Py Base.ZList Model.Splice Model.Fam_carrier Model.Fam_dsf
  Proofs.Fam_iff_codec Proofs.Fam_iff_chunks Proofs.Fam_dsf_lemmas Proofs.Fam_dsf_props.
Open Scope Z_scope.

Theorem C08_dsf_no_tags : forall f f', dsf_wf f = true -> dsf_delete f = Ok f' -> dsf_load f' = Ok None.
Proof. exact dsf_load_after_delete. Qed.
Print Assumptions C08_dsf_no_tags.

(* pointer 0, total size = new length, still well-formed *)
Theorem C08_dsf_header : forall f f', dsf_wf f = true -> dsf_delete f = Ok f' ->
  dsf_wf f' = true /\ mut_dsd f' = Ok (zlen f', 0).
Proof.
  intros f f' Hw Hd. destruct (wf_parse f Hw) as [s Hp]. pose proof (dsf_delete_spec f s f' Hp Hd) as Ef'.
  split; [eapply dsf_delete_wf; eassumption|]. destruct (dsf_parse_sound f s Hp) as [_ Hok].
  rewrite Ef'. rewrite (mut_dsd_render _ None (dsf_ok_none _ _ Hok)). rewrite dsf_render_zlen. reflexivity.
Qed.
Print Assumptions C08_dsf_header.

(* exactly the tag (header, frames, padding) is removed; bytes [28, old pointer) stay *)
Theorem C08_dsf_length : forall f s f', dsf_parse f = Ok s -> dsf_delete f = Ok f' ->
  zlen f' = zlen f - zlen (tag_bytes (d_tag s)) /\ zlen f' = 28 + zlen (d_audio s) /\ zslice 28 (zlen f') f' = d_audio s.
Proof. exact dsf_delete_length. Qed.
Print Assumptions C08_dsf_length.

Theorem C08_dsf_delete_twice : forall f f', dsf_wf f = true -> dsf_delete f = Ok f' -> dsf_delete f' = Ok f'.
Proof. exact dsf_delete_twice. Qed.
Print Assumptions C08_dsf_delete_twice.

Theorem C08_dsf_retag : forall f f' tag f'', dsf_wf f = true -> id3_tag_exact tag = true ->
  dsf_delete f = Ok f' -> dsf_save f' tag = Ok f'' -> dsf_wf f'' = true /\ dsf_load f'' = Ok (Some tag).
Proof. exact dsf_retag. Qed.
Print Assumptions C08_dsf_retag.

Definition ex_fmt : list Z := le_encode 4 1 ++ le_encode 4 0 ++ le_encode 4 2 ++ le_encode 4 2 ++ le_encode 4 2822400 ++
  le_encode 4 1 ++ le_encode 8 0 ++ le_encode 4 4096 ++ le_encode 4 0.
Definition ex_tag (n : Z) : list Z := [73; 68; 51; 4; 0; 0; 0; 0; 0; n] ++ zeros n.
Example C08_dsf_ex : dsf_delete (dsf_build ex_fmt [9; 8] (Some (ex_tag 6))) = Ok (dsf_build ex_fmt [9; 8] None).
Proof. vm_compute. reflexivity. Qed.
(* the fmt chunk versions mutagen's loader refuses make delete (not save) fail: the file is untouched *)
Example C08_dsf_ex_unsupported :
  dsf_delete (dsf_build (le_encode 4 2 ++ zdrop 4 ex_fmt) [9; 8] (Some (ex_tag 6))) = Raise EMutagen /\
  dsf_wf (dsf_build (le_encode 4 2 ++ zdrop 4 ex_fmt) [9; 8] (Some (ex_tag 6))) = true.
Proof. vm_compute. split; reflexivity. Qed.
