(* C09 (ASF): the padding callback is obeyed and existing padding is reused.
   asf_info f t is what HeaderObject.render_full hands to the callback: info.padding = old header size - needed, where
   needed = 30 (header object) + the re-rendered non-padding objects + 24 (the empty padding object), and
   info.size = the size of the data section.  asf_padding = payload bytes of the top-level Padding objects found by the
   strict walker.  ASF has no maximum padding size. *)
From Coq Require Import ZArith List Bool Lia.
Import ListNotations.
Require Import Base.Py Base.ZList Base.FileModel Gen.Gen_tags Model.Splice Model.Fam_asf Proofs.FileLemmas Proofs.C09_policy
  Proofs.Fam_asf_codec Proofs.Fam_asf_save Proofs.Fam_asf_agree Proofs.Fam_asf_reopen Proofs.Fam_asf_hist Proofs.Fam_asf_pad.
Open Scope Z_scope.

(* the arithmetic of the value handed to the callback *)
Theorem C09_asf_info : forall f t p s, asf_info f t = Ok (p, s) ->
  exists objs ts, asf_open f = Ok (objs, ts) /\
    p = header_size f - (zlen (render_objs (core_objs (place t) objs)) + 30 + 24) /\ s = zlen f - header_size f.
Proof.
  intros f t p s H. unfold asf_info in H. destruct (asf_open f) as [[objs ts]|]; [|discriminate].
  inversion H. eauto.
Qed.
Print Assumptions C09_asf_info.

(* the callback's answer is the padding found in the file (a negative answer gives none); the new header size is the
   needed size plus that padding; returning a non-negative info.padding keeps the file size, the header size and
   every byte of the data section where it was *)
Theorem C09_asf_save : forall f t cb f', asf_save f t cb = Ok f' ->
  exists p s s', asf_info f t = Ok (p, s) /\ asf_parse f' = Ok s' /\
    s = zlen f - header_size f /\
    asf_padding s' = Z.max 0 (cb p s) /\
    header_size f' = header_size f - p + Z.max 0 (cb p s) /\
    sdata s' = zdrop (header_size f) f /\
    (cb p s = p -> 0 <= p ->
       zlen f' = zlen f /\ header_size f' = header_size f /\
       zdrop (header_size f) f' = zdrop (header_size f) f).
Proof. exact asf_save_padding. Qed.
Print Assumptions C09_asf_save.

(* default policy: an edit that fits into existing padding of at most 1 KiB does not resize the file *)
Theorem C09_asf_default_fits : forall f t f' p s, asf_save f t cb_default = Ok f' -> asf_info f t = Ok (p, s) ->
  0 <= p <= 1024 ->
  zlen f' = zlen f /\ header_size f' = header_size f /\ zdrop (header_size f) f' = zdrop (header_size f) f.
Proof. exact asf_save_default_fits. Qed.
Print Assumptions C09_asf_default_fits.

(* no callback = the default policy (dispatch of PaddingInfo._get_padding, regenerated) *)
Theorem C09_asf_no_callback : forall p s, _get_padding None p s = cb_default p s.
Proof. reflexivity. Qed.
Print Assumptions C09_asf_no_callback.

(* the save is the splice program over the regenerated resize_bytes *)
Theorem C09_asf_save_prog : forall f s t cb f', asf_parse f = Ok s -> asf_save f t cb = Ok f' ->
  exists hdr, forall real part BUF p, 1 <= BUF ->
    fst (splice_prog BUF 0 (header_size f) hdr (mkF f p (benign real part))) = Ok tt /\
    fdata (snd (splice_prog BUF 0 (header_size f) hdr (mkF f p (benign real part)))) = f'.
Proof. exact asf_save_prog. Qed.
Print Assumptions C09_asf_save_prog.

(* ---- examples *)
Definition tiny : list Z :=
  asf_build [OLeaf G_FILE (zeros 64); OExt HEXT_FIXED [(G_PAD, [0; 0; 0]); (repeat 9 16, [5])]; OLeaf G_PAD (zeros 300)] [7; 8; 9].
Definition a_title : attr := mkA N_TITLE (VText [72; 105]) None None.
Example tiny_info : asf_info tiny [a_title] = Ok (209, 3).
Proof. vm_compute. reflexivity. Qed.
Example tiny_keep : exists f', asf_save tiny [a_title] cb_keep = Ok f' /\ zlen f' = zlen tiny /\
  exists s', asf_parse f' = Ok s' /\ asf_padding s' = 209.
Proof.
  eexists. split; [vm_compute; reflexivity|]. split; [vm_compute; reflexivity|].
  eexists. split; [vm_compute; reflexivity|vm_compute; reflexivity].
Qed.
Example tiny_seven : exists f' s', asf_save tiny [a_title] (cb_const 7) = Ok f' /\ asf_parse f' = Ok s' /\ asf_padding s' = 7.
Proof. do 2 eexists. split; [vm_compute; reflexivity|]. split; [vm_compute; reflexivity|vm_compute; reflexivity]. Qed.
