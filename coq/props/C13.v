(* C13 -- ID3 version conversion keeps the information and is valid.
   Theorems about Model.Id3Conv (hand model of ID3Tags.update_to_v23 / update_to_v24 / __update_common,
   Frame._get_v23_frame, save_frame / _prepare_data size fields, MakeID3v1 / ParseID3v1, ID3TimeStamp; tied to
   /repo by the correspondence of harness/props/c13.py).  Quantified over every tag (list of frames over the
   modelled kinds, CHAP/CTOC nested to any depth), every genre table G, every separator; no size bound.
   A tag is the list of its frames, each stored under its HashKey; conv_get k t is `t[k]`. *)
From Coq Require Import ZArith List Bool Lia.
Import ListNotations.
Require Import Base.Py Base.ZList Model.Id3Util Model.Id3Conv
  Proofs.C14_unsynch Proofs.C13_dict Proofs.C13_stamp Proofs.C13_enc Proofs.C13_conv Proofs.C13_sizes Proofs.C13_v1.
Open Scope Z_scope.

(* ------------------------------------------------------------------ v2.3 frames: encodings *)
(* every frame handed to the v2.3 writer has text encoding 0 (Latin-1) or 1 (UTF-16), at every nesting depth *)
Theorem C13_v23_encodings_valid : forall sep f, conv_deep conv_enc_ok1 (conv_v23_frame sep f).
Proof. exact v23_frame_enc_ok. Qed.
Print Assumptions C13_v23_encodings_valid.
Theorem C13_v23_saved_encodings_valid : forall sep t, Forall (conv_deep conv_enc_ok1) (conv_saved23 sep t).
Proof. exact saved23_enc_ok. Qed.
Print Assumptions C13_v23_saved_encodings_valid.

(* ------------------------------------------------------------------ v2.3 carries the v2.4 information *)
(* TDRC -> TYER (year) + TDAT (DDMM) + TIME (HHMM); first value of the frame; each part needs non-zero fields
   (`if d.hour and d.minute`: the code's own condition) *)
Theorem C13_v23_carries_date : forall G t f d ds,
  conv_get s_TDRC t = Some f -> conv_stamps_of f = d :: ds ->
  conv_has s_TYER t = false -> conv_has s_TDAT t = false -> conv_has s_TIME t = false ->
  let u := conv_update_to_v23 G t in
  conv_get s_TYER u = (if conv_truthy (st_year d)
                       then Some (FText s_TYER (conv_enc_of f) [conv_fmt 4 (conv_oz (st_year d))]) else None) /\
  conv_get s_TDAT u = (if conv_truthy (st_month d) && conv_truthy (st_day d)
                       then Some (FText s_TDAT (conv_enc_of f) [conv_fmt 2 (conv_oz (st_day d)) ++ conv_fmt 2 (conv_oz (st_month d))])
                       else None) /\
  conv_get s_TIME u = (if conv_truthy (st_hour d) && conv_truthy (st_minute d)
                       then Some (FText s_TIME (conv_enc_of f) [conv_fmt 2 (conv_oz (st_hour d)) ++ conv_fmt 2 (conv_oz (st_minute d))])
                       else None).
Proof. exact v23_carries_date. Qed.
Print Assumptions C13_v23_carries_date.

Theorem C13_v23_carries_orig_year : forall G t f d ds,
  conv_get s_TDOR t = Some f -> conv_stamps_of f = d :: ds -> conv_has s_TORY t = false ->
  conv_get s_TORY (conv_update_to_v23 G t) =
  if conv_truthy (st_year d) then Some (FText s_TORY (conv_enc_of f) [conv_fmt 4 (conv_oz (st_year d))]) else None.
Proof. exact v23_carries_orig_year. Qed.
Print Assumptions C13_v23_carries_orig_year.

(* IPLS people = TIPL people ++ TMCL people, in that order; encoding of the last of the two *)
Theorem C13_v23_carries_people : forall G t,
  conv_has s_TIPL t || conv_has s_TMCL t = true -> conv_has s_IPLS t = false ->
  conv_get s_IPLS (conv_update_to_v23 G t) =
  Some (FPeople s_IPLS (match conv_get s_TMCL t with
                        | Some f => conv_enc_of f
                        | None => match conv_get s_TIPL t with Some f => conv_enc_of f | None => 1 end
                        end)
                (conv_opt_people (conv_get s_TIPL t) ++ conv_opt_people (conv_get s_TMCL t))).
Proof. exact v23_carries_people. Qed.
Print Assumptions C13_v23_carries_people.

(* the decimal fields written into TYER/TDAT/TIME/TORY read back as the numbers *)
Theorem C13_fmt_reads_back : forall w n, 0 <= n ->
  conv_all_digits (conv_fmt w n) = true /\ conv_py_int (conv_fmt w n) = Some n /\ (n < 10 ^ w -> 1 <= w -> zlen (conv_fmt w n) = w).
Proof. intros w n H. split; [apply fmt_digits; exact H|]. split; [apply py_int_fmt; exact H|]. intros A B. apply fmt_len; lia. Qed.
Print Assumptions C13_fmt_reads_back.

(* multi-valued text: one value = the values joined by the separator when one is given, the list itself otherwise *)
Theorem C13_v23_multivalue : forall id e vals,
  (forall sep, conv_v23_frame (Some sep) (FText id e vals) = FText id (conv_enc23 e) [conv_join sep vals]) /\
  conv_v23_frame None (FText id e vals) = FText id (conv_enc23 e) vals /\
  (forall c, vals <> [] -> Forall (nosep c) vals -> split_on c (conv_join [c] vals) = vals).
Proof. intros. split; [reflexivity|]. split; [reflexivity|]. intros c. apply join_split_back. Qed.
Print Assumptions C13_v23_multivalue.
Theorem C13_v23_multivalue_txxx_comm : forall sep e l d vals,
  conv_v23_frame sep (FTxxx e d vals) = FTxxx (conv_enc23 e) d (conv_join23 sep vals) /\
  conv_v23_frame sep (FComm e l d vals) = FComm (conv_enc23 e) l d (conv_join23 sep vals).
Proof. intros. split; reflexivity. Qed.
Print Assumptions C13_v23_multivalue_txxx_comm.

(* nothing that exists only in v2.4 (plain key) is left in the v2.3 tag; encodings already valid are kept *)
Theorem C13_v23_drops_v24_only : forall G t k, In k conv_v24_only -> conv_has k (conv_update_to_v23 G t) = false.
Proof. exact v23_drops_v24_only. Qed.
Print Assumptions C13_v23_drops_v24_only.

(* ------------------------------------------------------------------ v2.4 from v2.3 *)
(* TYER "YYYY" + TDAT "DDMM" + TIME "HHMM" -> TDRC YYYY-MM-DDTHH:MM:00 *)
Theorem C13_v24_from_v23 : forall G t Y DM HM,
  conv_opt_texts (conv_get s_TYER t) = [Y] -> conv_opt_texts (conv_get s_TDAT t) = [DM] ->
  conv_opt_texts (conv_get s_TIME t) = [HM] -> conv_has s_TDRC t = false ->
  conv_is_4digits Y = true -> conv_is_4digits DM = true -> conv_is_4digits HM = true ->
  conv_get s_TDRC (conv_update_to_v24 G t) =
  Some (FStamp s_TDRC 0 [mkStamp (Some (dval Y)) (Some (dval (zdrop 2 DM))) (Some (dval (ztake 2 DM)))
                                 (Some (dval (ztake 2 HM))) (Some (dval (zdrop 2 HM))) (Some 0)]).
Proof. exact v24_from_v23_date. Qed.
Print Assumptions C13_v24_from_v23.
Theorem C13_v24_from_v23_orig_year : forall G t f Y,
  conv_get s_TORY t = Some f -> conv_texts_of f = [Y] -> conv_has s_TDOR t = false ->
  conv_all_digits Y = true -> Y <> [] ->
  conv_get s_TDOR (conv_update_to_v24 G t) = Some (FStamp s_TDOR 0 [mkStamp (Some (dval Y)) None None None None None]).
Proof. exact v24_from_v23_orig_year. Qed.
Print Assumptions C13_v24_from_v23_orig_year.
Theorem C13_v24_from_v23_people : forall G t f, conv_get s_IPLS t = Some f -> conv_has s_TIPL t = false ->
  conv_get s_TIPL (conv_update_to_v24 G t) = Some (FPeople s_TIPL (conv_enc_of f) (conv_people_of f)).
Proof. exact v24_from_v23_people. Qed.
Print Assumptions C13_v24_from_v23_people.
Theorem C13_v24_drops_v23_only : forall G t k, In k conv_v23_only -> conv_has k (conv_update_to_v24 G t) = false.
Proof. exact v24_drops_v23_only. Qed.
Print Assumptions C13_v24_drops_v23_only.

(* ------------------------------------------------------------------ round trip v2.4 -> v2.3 -> v2.4 *)
(* what is kept of the first recording date: year always; month and day if both non-zero; hour and minute if
   both non-zero and the date is complete; seconds are lost (stamp_kept) *)
Theorem C13_v23_v24_roundtrip : forall G t f d ds,
  conv_get s_TDRC t = Some f -> conv_stamps_of f = d :: ds ->
  conv_has s_TYER t = false -> conv_has s_TDAT t = false -> conv_has s_TIME t = false ->
  1 <= conv_oz (st_year d) <= 9999 -> 0 <= conv_oz (st_month d) < 100 -> 0 <= conv_oz (st_day d) < 100 ->
  0 <= conv_oz (st_hour d) < 100 -> 0 <= conv_oz (st_minute d) < 100 ->
  conv_get s_TDRC (conv_update_to_v24 G (conv_update_to_v23 G t)) = Some (FStamp s_TDRC 0 [stamp_kept d]).
Proof. exact roundtrip_date. Qed.
Print Assumptions C13_v23_v24_roundtrip.
Theorem C13_v23_v24_roundtrip_orig_year : forall G t f d ds,
  conv_get s_TDOR t = Some f -> conv_stamps_of f = d :: ds -> conv_has s_TORY t = false -> 1 <= conv_oz (st_year d) ->
  conv_get s_TDOR (conv_update_to_v24 G (conv_update_to_v23 G t)) =
  Some (FStamp s_TDOR 0 [mkStamp (Some (conv_oz (st_year d))) None None None None None]).
Proof. exact roundtrip_orig_year. Qed.
Print Assumptions C13_v23_v24_roundtrip_orig_year.
(* the TIPL / TMCL distinction is lost: one TIPL with both lists *)
Theorem C13_v23_v24_roundtrip_people : forall G t,
  conv_has s_TIPL t || conv_has s_TMCL t = true -> conv_has s_IPLS t = false ->
  conv_get s_TIPL (conv_update_to_v24 G (conv_update_to_v23 G t)) =
  Some (FPeople s_TIPL (match conv_get s_TMCL t with
                        | Some f => conv_enc_of f
                        | None => match conv_get s_TIPL t with Some f => conv_enc_of f | None => 1 end
                        end)
                (conv_opt_people (conv_get s_TIPL t) ++ conv_opt_people (conv_get s_TMCL t))).
Proof. exact roundtrip_people. Qed.
Print Assumptions C13_v23_v24_roundtrip_people.
(* every other frame (key named by no conversion step and in neither version-only list) survives both
   conversions; only __update_common (TCON genres, APIC mime) and the recursion into CHAP/CTOC act on it,
   and text frames other than TCON are unchanged *)
Theorem C13_v23_v24_roundtrip_other_frames : forall G t k,
  existsb (list_eqb k) conv_step_keys = false -> existsb (list_eqb k) conv_v24_only = false ->
  existsb (list_eqb k) conv_v23_only = false ->
  conv_get k (conv_update_to_v24 G (conv_update_to_v23 G t)) = option_map (g24 G) (option_map (g23 G) (conv_get k t)).
Proof. exact roundtrip_untouched. Qed.
Print Assumptions C13_v23_v24_roundtrip_other_frames.
Theorem C13_text_frames_unchanged : forall G f, conv_is_leaf f = true -> conv_key f <> s_TCON ->
  (forall e m p d x, f <> FApic e m p d x) -> g24 G (g23 G f) = f.
Proof. exact g_leaf_id. Qed.
Print Assumptions C13_text_frames_unchanged.

(* ------------------------------------------------------------------ idempotence *)
(* precondition forced by TCON.genres, which is not idempotent; tags without TCON satisfy it *)
Theorem C13_conversion_idempotent_v23 : forall G t, conv_deep_all (tcon_ok G) t ->
  conv_update_to_v23 G (conv_update_to_v23 G t) = conv_update_to_v23 G t.
Proof. exact update_to_v23_idem. Qed.
Print Assumptions C13_conversion_idempotent_v23.
Theorem C13_conversion_idempotent_v24 : forall G t, conv_deep_all (tcon_ok G) t ->
  conv_update_to_v24 G (conv_update_to_v24 G t) = conv_update_to_v24 G t.
Proof. exact update_to_v24_idem. Qed.
Print Assumptions C13_conversion_idempotent_v24.
Theorem C13_conversion_idempotent_refuted : exists G t,
  conv_update_to_v23 G (conv_update_to_v23 G t) <> conv_update_to_v23 G t.
Proof.
  exists [[65]; [66]; [67]], [FText s_TCON 0 [[40; 40; 49; 41]]].      (* G = A,B,C ; TCON "((1)" -> "(1)" -> "B" *)
  vm_compute. discriminate.
Qed.
Print Assumptions C13_conversion_idempotent_refuted.

(* ------------------------------------------------------------------ sizes *)
Theorem C13_sizes_v23_frame : forall id payload, zlen payload < 2 ^ 32 ->
  exists sz, conv_frame_bytes 3 id payload = Ok (id ++ sz ++ [0;0] ++ payload) /\
    zlen sz = 4 /\ Forall (fun b => 0 <= b < 256) sz /\ be_decode sz = zlen payload.
Proof. exact frame_bytes_v23. Qed.
Print Assumptions C13_sizes_v23_frame.
Theorem C13_sizes_v24_frame : forall id payload, zlen payload < 2 ^ 28 ->
  exists sz, conv_frame_bytes 4 id payload = Ok (id ++ sz ++ [0;0] ++ payload) /\
    zlen sz = 4 /\ Forall (fun b => 0 <= b < 128) sz /\ bpi_of_bytes 7 true sz = Ok (zlen payload).
Proof. exact frame_bytes_v24. Qed.
Print Assumptions C13_sizes_v24_frame.
(* header: "ID3", the version byte, revision 0, flags 0, syncsafe size of everything after the header *)
Theorem C13_sizes_tag_header : forall v framedata padding, 0 <= padding -> zlen framedata + padding < 2 ^ 28 ->
  exists sz, conv_tag_bytes v framedata padding = Ok ([73;68;51;v;0;0] ++ sz ++ framedata ++ zeros padding) /\
    zlen sz = 4 /\ Forall (fun b => 0 <= b < 128) sz /\ bpi_of_bytes 7 true sz = Ok (zlen framedata + padding) /\
    zlen ([73;68;51;v;0;0] ++ sz ++ framedata ++ zeros padding) = 10 + (zlen framedata + padding).
Proof. exact tag_bytes_header. Qed.
Print Assumptions C13_sizes_tag_header.
(* a reader taking plain sizes for v2.3 and syncsafe sizes for v2.4 gets exactly the frames back: they tile the tag *)
Theorem C13_sizes_frames_tile : forall v fr pad, (v = 3 \/ v = 4) -> Forall (frame_ok v) fr ->
  exists data, frames_bytes v fr = Ok data /\ conv_walk (S (length fr)) v (data ++ zeros pad) = Some fr.
Proof. exact walk_recovers_frames. Qed.
Print Assumptions C13_sizes_frames_tile.

(* ------------------------------------------------------------------ ID3v1 *)
Theorem C13_v1_reflects_v2 : forall G t b, conv_make_id3v1 G t = Ok b ->
  zlen b = 128 /\
  exists title artist album track year,
    conv_first_text (conv_get s_TIT2 t) = Ok title /\ conv_first_text (conv_get s_TPE1 t) = Ok artist /\
    conv_first_text (conv_get s_TALB t) = Ok album /\ v1_track t = Ok track /\ v1_year t = Ok year /\
    b = s_TAG ++ conv_field 30 (conv_latin1r title) ++ conv_field 30 (conv_latin1r artist) ++
        conv_field 30 (conv_latin1r album) ++ ztake 4 (year ++ [0;0;0;0]) ++
        conv_field 29 (ztake 28 (conv_latin1r (v1_comment_text t))) ++ [track] ++ [v1_genre G t].
Proof. intros G t b H. split; [apply (make_v1_length G t b H) | apply (make_v1_layout G t b H)]. Qed.
Print Assumptions C13_v1_reflects_v2.
(* a field = the value truncated to n bytes, then NULs; Latin-1 characters are kept, all others become '?' *)
Theorem C13_v1_field : forall n b, 0 <= n ->
  zlen (conv_field n b) = n /\ conv_field n b = ztake n b ++ zeros (n - Z.min n (zlen b)).
Proof. intros n b H. split; [apply field_len; exact H | apply field_shape]. Qed.
Print Assumptions C13_v1_field.
Theorem C13_v1_latin1 : forall s, Forall (fun b => 0 <= b < 256) (conv_latin1r s) /\ zlen (conv_latin1r s) = zlen s /\
  (Forall (fun c => 0 <= c < 256) s -> conv_latin1r s = s).
Proof. intro s. split; [apply latin1r_bytes|]. split; [apply latin1r_len | apply latin1r_id]. Qed.
Print Assumptions C13_v1_latin1.
Theorem C13_v1_comment_from_a_comm_frame : forall t e l d vals, In (FComm e l d vals) t -> conv_v1_comment_frame t <> None.
Proof. exact v1_comment_found. Qed.
Print Assumptions C13_v1_comment_from_a_comm_frame.
Theorem C13_v1_parse_make : forall G t b v, conv_make_id3v1 G t = Ok b ->
  exists title artist album track year,
    conv_first_text (conv_get s_TIT2 t) = Ok title /\ conv_first_text (conv_get s_TPE1 t) = Ok artist /\
    conv_first_text (conv_get s_TALB t) = Ok album /\ v1_track t = Ok track /\ v1_year t = Ok year /\
    let fx := conv_v1_fix in
    let ti := fx (conv_field 30 (conv_latin1r title)) in
    let ar := fx (conv_field 30 (conv_latin1r artist)) in
    let al := fx (conv_field 30 (conv_latin1r album)) in
    let ye := fx (ztake 4 (year ++ [0;0;0;0])) in
    let co := fx (conv_field 29 (ztake 28 (conv_latin1r (v1_comment_text t)))) in
    conv_parse_id3v1 v b = Some (
        (if conv_nonempty ti then [FText s_TIT2 0 [ti]] else []) ++
        (if conv_nonempty ar then [FText s_TPE1 0 [ar]] else []) ++
        (if conv_nonempty al then [FText s_TALB 0 [al]] else []) ++
        (if conv_nonempty ye then
           (if v =? 3 then [FText s_TYER 0 [ye]] else [FStamp s_TDRC 0 (map conv_stamp_parse (split_on 44 ye))])
         else []) ++
        (if conv_nonempty co then [FComm 0 s_eng s_v1comm_desc [co]] else []) ++
        (if negb (track =? 0) then [FText s_TRCK 0 [conv_dec track]] else []) ++
        (if negb (v1_genre G t =? 255) then [FText s_TCON 0 [conv_dec (v1_genre G t)]] else [])).
Proof. exact parse_make_v1. Qed.
Print Assumptions C13_v1_parse_make.
(* ... and a (truncated) value without NUL and without white space at its ends comes back unchanged *)
Theorem C13_v1_value_comes_back : forall n y, zlen y <= n -> forallb (fun c => negb (c =? 0)) y = true -> no_edge_space y ->
  conv_v1_fix (conv_field n y) = y.
Proof. exact v1_fix_field. Qed.
Print Assumptions C13_v1_value_comes_back.

(* ------------------------------------------------------------------ non-vacuity *)
Definition ex_G : list text := [[66;108;117;101;115]; [82;111;99;107]].           (* Blues, Rock *)
Definition ex_stamp := conv_stamp_parse [50;48;48;52;45;48;53;45;48;54;84;49;50;58;51;48;58;52;53].   (* 2004-05-06T12:30:45 *)
Definition ex_tag : tag :=
  [FStamp s_TDRC 3 [ex_stamp]; FStamp s_TDOR 3 [conv_stamp_parse [49;57;57;57]];
   FPeople s_TIPL 3 [([97],[98])]; FPeople s_TMCL 1 [([99],[100])];
   FText s_TIT2 3 [[84;105;116;108;101]; [0x1F600]]; FText s_TRCK 0 [[53;47;55]]; FText s_TCON 0 [[40;49;41]];
   FComm 3 s_eng [] [[104;105]];
   FChap [99;104] 0 1 2 3 [FStamp s_TDRC 2 [ex_stamp]]].
Example C13_ex_stamp : ex_stamp = mkStamp (Some 2004) (Some 5) (Some 6) (Some 12) (Some 30) (Some 45)
  /\ conv_stamp_text ex_stamp = [50;48;48;52;45;48;53;45;48;54;32;49;50;58;51;48;58;52;53].
Proof. vm_compute. split; reflexivity. Qed.
Example C13_ex_v23 :
  conv_get s_TYER (conv_update_to_v23 ex_G ex_tag) = Some (FText s_TYER 3 [[50;48;48;52]]) /\
  conv_get s_TDAT (conv_update_to_v23 ex_G ex_tag) = Some (FText s_TDAT 3 [[48;54;48;53]]) /\
  conv_get s_TIME (conv_update_to_v23 ex_G ex_tag) = Some (FText s_TIME 3 [[49;50;51;48]]) /\
  conv_get s_TORY (conv_update_to_v23 ex_G ex_tag) = Some (FText s_TORY 3 [[49;57;57;57]]) /\
  conv_get s_IPLS (conv_update_to_v23 ex_G ex_tag) = Some (FPeople s_IPLS 1 [([97],[98]); ([99],[100])]) /\
  conv_get s_TCON (conv_update_to_v23 ex_G ex_tag) = Some (FText s_TCON 0 [[82;111;99;107]]) /\
  conv_has s_TDRC (conv_update_to_v23 ex_G ex_tag) = false /\
  conv_get (s_CHAP_ ++ [99;104]) (conv_update_to_v23 ex_G ex_tag) =
    Some (FChap [99;104] 0 1 2 3 [FText s_TYER 2 [[50;48;48;52]]; FText s_TDAT 2 [[48;54;48;53]]; FText s_TIME 2 [[49;50;51;48]]]).
Proof. vm_compute. repeat split. Qed.
Example C13_ex_v23_frame :
  conv_v23_frame (Some [47]) (FText s_TIT2 3 [[84;105;116;108;101]; [0x1F600]]) = FText s_TIT2 1 [[84;105;116;108;101;47;0x1F600]] /\
  conv_v23_frame None (FText s_TIT2 2 [[84]; [85]]) = FText s_TIT2 1 [[84]; [85]].
Proof. vm_compute. split; reflexivity. Qed.
Example C13_ex_roundtrip :
  conv_get s_TDRC (conv_update_to_v24 ex_G (conv_update_to_v23 ex_G ex_tag)) =
    Some (FStamp s_TDRC 0 [mkStamp (Some 2004) (Some 5) (Some 6) (Some 12) (Some 30) (Some 0)]) /\
  conv_get s_TIPL (conv_update_to_v24 ex_G (conv_update_to_v23 ex_G ex_tag)) = Some (FPeople s_TIPL 1 [([97],[98]); ([99],[100])]) /\
  conv_update_to_v23 ex_G (conv_update_to_v23 ex_G ex_tag) = conv_update_to_v23 ex_G ex_tag /\
  conv_deep_all (tcon_ok ex_G) ex_tag.
Proof.
  split; [vm_compute; reflexivity|]. split; [vm_compute; reflexivity|]. split; [vm_compute; reflexivity|].
  unfold conv_deep_all, ex_tag. repeat constructor; cbn; try tauto; try (intros _; vm_compute; reflexivity).
Qed.
Example C13_ex_v1 :
  conv_make_id3v1 ex_G ex_tag =
    Ok (s_TAG ++ [84;105;116;108;101] ++ zeros 25 ++ zeros 30 ++ zeros 30 ++ [50;48;48;52] ++ [104;105] ++ zeros 27 ++ [5] ++ [1]) /\
  conv_field 3 (conv_latin1r [0x1F600; 233; 65; 66]) = [63; 233; 65].
Proof. vm_compute. split; reflexivity. Qed.
(* a text frame without values counts as absent (no IndexError): empty field, track byte 0 *)
Example C13_ex_v1_empty_text :
  conv_make_id3v1 ex_G [FText s_TIT2 3 []; FText s_TRCK 3 []; FText s_TCON 0 [[82;111;99;107]]] =
    Ok (s_TAG ++ zeros 94 ++ zeros 29 ++ [0] ++ [1]).
Proof. vm_compute. reflexivity. Qed.
Example C13_ex_sizes :
  conv_frame_bytes 3 s_TIT2 (zeros 300) = Ok (s_TIT2 ++ [0;0;1;44] ++ [0;0] ++ zeros 300) /\
  conv_frame_bytes 4 s_TIT2 (zeros 300) = Ok (s_TIT2 ++ [0;0;2;44] ++ [0;0] ++ zeros 300) /\
  conv_frame_bytes 2 s_TIT2 [] = Raise EValue.
Proof. vm_compute. repeat split. Qed.
