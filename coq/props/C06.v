(* C06 -- I/O failures surface only as MutagenError; success means written (logic core).
   (1) the conversion/ownership wrappers every public entry point goes through;
   (2) fault-safety of the resize family regenerated from /repo/mutagen/_util.py: for EVERY file
       state and file-object configuration -- any scheduled fault index, any short-read budget, any
       capacity limit, either seek flavour -- the outcome is Ok, an I/O error or ValueError, never
       anything else and never out of fuel; through the wrapper only MutagenError/ValueError leave. *)
From Coq Require Import ZArith List Bool Lia.
Import ListNotations.
Require Import Base.Py Base.ZList Base.FileModel Gen.Gen_util Model.IOWrap Proofs.C06_wrap.
Open Scope Z_scope.

Theorem C06_wrappers_convert : forall A (m : M A) s e,
  fst (m s) = Raise (EIO e) -> fst (convert_error m s) = Raise EMutagen.
Proof. exact @convert_error_io. Qed.
Print Assumptions C06_wrappers_convert.

Theorem C06_no_io_error_escapes : forall A (m : M A) s e, fst (convert_error m s) <> Raise (EIO e).
Proof. exact @convert_error_never_io. Qed.
Print Assumptions C06_no_io_error_escapes.

Theorem C06_wrapper_transparent_on_success : forall A (m : M A) s a, fst (m s) = Ok a -> convert_error m s = m s.
Proof. exact @convert_error_ok. Qed.
Print Assumptions C06_wrapper_transparent_on_success.

Theorem C06_caller_object_stays_open : forall ft has c,
  ft = FTFileObj \/ ft = FTFileThing -> closed_after ft has c = c.
Proof. exact caller_object_stays_open. Qed.
Print Assumptions C06_caller_object_stays_open.

Theorem C06_resize_bytes_fault_safe : forall BUF, 1 <= BUF -> forall old new off s,
  match fst (resize_bytes BUF old new off s) with
  | Ok _ => True
  | Raise e => is_eio e = true \/ e = EValue
  end.
Proof.
  intros BUF HB old new off s. pose proof (safe_resize_bytes BUF HB old new off s) as H.
  destruct (fst (resize_bytes BUF old new off s)) as [a|e]; [exact I|].
  unfold allowed in H. destruct (is_eio e) eqn:E; [left; reflexivity|right].
  cbn in H. destruct e; try discriminate; reflexivity.
Qed.
Print Assumptions C06_resize_bytes_fault_safe.

Theorem C06_insert_delete_move_fault_safe : forall BUF, 1 <= BUF ->
  (forall a b, safe (insert_bytes BUF a b)) /\ (forall a b, safe (delete_bytes BUF a b)) /\
  (forall a b c, safe (move_bytes BUF a b c)) /\ (forall d, safe (resize_file BUF d)).
Proof.
  intros BUF HB. repeat split; intros.
  - apply safe_insert_bytes; assumption.
  - apply safe_delete_bytes; assumption.
  - apply safe_move_bytes; assumption.
  - apply safe_resize_file; assumption.
Qed.
Print Assumptions C06_insert_delete_move_fault_safe.

(* through a public entry point: only MutagenError (or ValueError for bad arguments) *)
Theorem C06_entry_resize_bytes : forall BUF, 1 <= BUF -> forall old new off s,
  match fst (entry (resize_bytes BUF old new off) s) with
  | Ok _ => True
  | Raise e => e = EMutagen \/ e = EValue
  end.
Proof. intros BUF HB old new off s. apply entry_safe. apply safe_resize_bytes; assumption. Qed.
Print Assumptions C06_entry_resize_bytes.

(* non-vacuity: a fault at call index 3 of a growing resize becomes MutagenError; the state is kept *)
Example C06_ex_fault :
  fst (entry (resize_bytes 2 1 4 2) (mkF [0;1;2;3;4;5] 0 (mkC false None 0 (Some 3) None))) = Raise EMutagen.
Proof. vm_compute. reflexivity. Qed.
Example C06_ex_nofault :
  fst (entry (resize_bytes 2 1 4 2) (mkF [0;1;2;3;4;5] 0 (mkC false None 0 (Some 300) None))) = Ok tt.
Proof. vm_compute. reflexivity. Qed.
