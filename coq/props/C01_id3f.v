(* C01 at container level for the family id3f (ID3v2 at file start + ID3v1 at the end; frames opaque):
   the frame bytes handed to save are what the independent strict reader (id3f_load: header, syncsafe size,
   frame-header walk, zero padding) finds in the saved file -- for every well-formed file (payload of ANY length,
   the empty file included), every frame sequence, v2.3 / v2.4, every v1 mode and every padding callback.
   v1_hyp: whenever ID3v1 bytes are (or may be) written they are recognisable behind this payload (128 bytes,
   b"TAG", at least 3 payload bytes in front, no b"APETAGEX" where the format rule looks). *)
From Coq Require Import ZArith List Bool Lia.
Import ListNotations.
Require Import Base.Py Base.ZList Gen.Gen_tags Model.Splice Model.Id3Util Model.Fam_id3f
  Proofs.Fam_id3f_base Proofs.Fam_id3f_save Proofs.Fam_id3f_props Proofs.Fam_id3f_examples.
Open Scope Z_scope.

Theorem C01_id3f_roundtrip : forall f fr o f',
  id3f_wf f = true -> frames_ok (o_v2 o) fr = true -> v1_hyp (mid_of f) o ->
  id3f_save f fr o = Ok f' -> id3f_load f' = Ok (Some fr).
Proof. exact c01_roundtrip. Qed.
Print Assumptions C01_id3f_roundtrip.

(* the size field written by save decodes to the extent of frames + padding (C14 round trip inside) *)
Theorem C01_id3f_saved_structure : forall f s fr o f',
  id3f_wf f = true -> id3f_parse f = Ok s -> frames_ok (o_v2 o) fr = true -> v1_hyp (i_mid s) o ->
  id3f_save f fr o = Ok f' ->
  let r := o_cb o (tag_size s - (zlen fr + 10)) (zlen f - tag_size s) in
  0 <= r /\
  id3f_parse f' = Ok (mkI (Some (mkT (o_v2 o) (10 + zlen fr + r) fr r)) (i_mid s) (v1_after (o_v1 o) (o_v1bytes o) (i_v1 s))) /\
  id3f_wf f' = true /\
  zlen f' = 10 + zlen fr + r + zlen (i_mid s) + zlen (optb (v1_after (o_v1 o) (o_v1bytes o) (i_v1 s))).
Proof. exact save_wf. Qed.
Print Assumptions C01_id3f_saved_structure.

(* regression instance (former genuine defect, class tag-in-id3v2): empty file, frame data with b"TAG" 128 bytes
   before its end, padding 0, v1 = 1 and v1 = 0 *)
Theorem C01_id3f_short_payload_regression :
  id3f_wf [] = true /\ frames_ok 4 ex_priv = true /\
  (exists f', id3f_save [] ex_priv (ex_opts 1 (id3f_cb_const 0)) = Ok f' /\ id3f_load f' = Ok (Some ex_priv) /\ zlen f' = 10 + zlen ex_priv) /\
  (exists f', id3f_save [] ex_priv (ex_opts 0 (id3f_cb_const 0)) = Ok f' /\ id3f_load f' = Ok (Some ex_priv) /\ zlen f' = 10 + zlen ex_priv) /\
  (exists f', id3f_save [] ex_priv (ex_opts 0 (id3f_cb_const 0)) = Ok f' /\ id3f_delete f' = Ok []).
Proof. exact short_payload_regression. Qed.
Print Assumptions C01_id3f_short_payload_regression.

Example C01_id3f_hypotheses_satisfiable :
  id3f_wf ex_file = true /\ frames_ok 4 ex_frames = true /\ mid_of ex_file = ex_audio /\
  v1_hyp ex_audio (ex_opts 1 id3f_cb_default) /\ v1_hyp ex_audio (ex_opts 2 (id3f_cb_const 0)).
Proof. exact ex_wf. Qed.
