(* C02 (family dsf) -- saving or deleting the tag never alters the bytes [28, pointer): the fmt and data chunks.
   Theorems about Model.Fam_dsf.  Bookkeeping that may change: total size and metadata pointer in the DSD chunk. *)
From Coq Require Import ZArith List Bool Lia.
Import ListNotations.
Require Import Base.Py Base.ZList Model.Splice Model.Fam_carrier Model.Fam_dsf
  Proofs.Fam_iff_codec Proofs.Fam_iff_chunks Proofs.Fam_dsf_lemmas Proofs.Fam_dsf_props.
Open Scope Z_scope.

(* byte level, no hypothesis on the tag: same bytes at the same offsets, the tag follows immediately *)
Theorem C02_dsf_save_bytes : forall f s tag f', dsf_parse f = Ok s -> dsf_save f tag = Ok f' ->
  zslice 28 (28 + zlen (d_audio s)) f' = d_audio s /\ zslice 28 (28 + zlen (d_audio s)) f = d_audio s /\
  zdrop (28 + zlen (d_audio s)) f' = tag.
Proof. exact dsf_save_audio. Qed.
Print Assumptions C02_dsf_save_bytes.

(* through the strict reader *)
Theorem C02_dsf_save : forall f s tag f', dsf_parse f = Ok s -> id3_tag_exact tag = true -> dsf_save f tag = Ok f' ->
  exists s', dsf_parse f' = Ok s' /\ d_audio s' = d_audio s.
Proof. intros f s tag f' Hp Ht Hs. eexists. split; [eapply dsf_save_parse; eassumption | reflexivity]. Qed.
Print Assumptions C02_dsf_save.
Theorem C02_dsf_delete : forall f s f', dsf_parse f = Ok s -> dsf_delete f = Ok f' ->
  exists s', dsf_parse f' = Ok s' /\ d_audio s' = d_audio s /\ d_tag s' = None.
Proof. intros f s f' Hp Hd. eexists. split; [eapply dsf_delete_parse; eassumption | split; reflexivity]. Qed.
Print Assumptions C02_dsf_delete.

(* arbitrary sequences *)
Theorem C02_dsf_history : forall ops f f', dsf_wf f = true -> Forall op_ok ops -> dsf_run f ops = Ok f' ->
  rmap d_audio (dsf_parse f') = rmap d_audio (dsf_parse f).
Proof. intros ops f f' Hw Ho Hr. exact (proj2 (dsf_history ops f f' Hw Ho Hr)). Qed.
Print Assumptions C02_dsf_history.

Definition ex_fmt : list Z := le_encode 4 1 ++ le_encode 4 0 ++ le_encode 4 2 ++ le_encode 4 2 ++ le_encode 4 2822400 ++
  le_encode 4 1 ++ le_encode 8 0 ++ le_encode 4 4096 ++ le_encode 4 0.
Definition ex_tag (n : Z) : list Z := [73; 68; 51; 4; 0; 0; 0; 0; 0; n] ++ zeros n.
Example C02_dsf_ex : match dsf_save (dsf_build ex_fmt [9; 8] (Some (ex_tag 1))) (ex_tag 7) with
  | Ok f' => rmap d_audio (dsf_parse f') = rmap d_audio (dsf_parse (dsf_build ex_fmt [9; 8] None)) /\ zlen f' = 94 + 17
  | Raise _ => False end.
Proof. vm_compute. split; reflexivity. Qed.
