(* C04 -- Malformed input is rejected cleanly and in bounded time.
   For every loader K with an exception-faithful mirror `K_load : list Z -> result info` (Model.Parse_K,
   reading through a BytesIO over the input): for EVERY byte string (c04_input: a list of bytes no longer
   than 2^62, a BytesIO cannot hold more) the mirror returns Ok or raises EMutagen (mutagen.MutagenError or
   a subclass) -- never IndexError, struct.error, ValueError, UnicodeError, OverflowError,
   ZeroDivisionError, KeyError, TypeError, EOFError, and never EOutOfFuel, where the fuel the wrapper
   hands to the loader's loops is a * len + b (`C04_K_fuel`, by reflexivity: it is the wrapper's definition).
   The mirrors are tied to /repo by the outcome-class correspondence of harness/props/c04.py. *)
From Coq Require Import ZArith List Bool Lia.
Import ListNotations.
Require Import Base.Py Model.Parse_base Model.Parse_musepack Model.Parse_wavpack Model.Parse_smf
  Model.Parse_vcomment Model.Parse_ogg Model.Parse_apev2 Model.Parse_mp4 Model.Parse_headers Model.Parse_id3
  Proofs.C04_lib Proofs.C04_musepack Proofs.C04_wavpack Proofs.C04_smf Proofs.C04_vcomment Proofs.C04_ogg
  Proofs.C04_apev2 Proofs.C04_mp4 Proofs.C04_headers Proofs.C04_id3.
Open Scope Z_scope.

(* ---- 1. Musepack: MusepackInfo.__init__ (ID3v2 skip, SV8 packet loop, SH/RG packets, SV4-7 header) ---- *)
Theorem C04_Musepack_total : forall bytes, c04_input bytes ->
  match musepack_load bytes with Ok _ => True | Raise e => e = EMutagen end.
Proof. exact musepack_total. Qed.
Print Assumptions C04_Musepack_total.
Theorem C04_Musepack_fuel : forall bytes,
  musepack_load bytes = prun (mpc_init (Z.to_nat (1 * zlen bytes + 1))) bytes.
Proof. reflexivity. Qed.
Print Assumptions C04_Musepack_fuel.

(* ---- 2. WavPack: _WavPackHeader.from_fileobj + WavPackInfo.__init__ (block walk) ---- *)
Theorem C04_WavPack_total : forall bytes, c04_input bytes ->
  match wavpack_load bytes with Ok _ => True | Raise e => e = EMutagen end.
Proof. exact wavpack_total. Qed.
Print Assumptions C04_WavPack_total.
Theorem C04_WavPack_fuel : forall bytes,
  wavpack_load bytes = prun (wv_init (Z.to_nat (1 * zlen bytes + 1))) bytes.
Proof. reflexivity. Qed.
Print Assumptions C04_WavPack_fuel.

(* ---- 3. SMF: _var_int, _read_track, _read_midi_length, SMF.load ---- *)
Theorem C04_SMF_total : forall bytes, c04_input bytes ->
  match smf_load bytes with Ok _ => True | Raise e => e = EMutagen end.
Proof. exact smf_total. Qed.
Print Assumptions C04_SMF_total.
Theorem C04_SMF_fuel : forall bytes,
  smf_load bytes = prun (pconvert_io (smf_read_midi_length (Z.to_nat (1 * zlen bytes + 1)))) bytes.
Proof. reflexivity. Qed.
Print Assumptions C04_SMF_fuel.
(* the event loop of one track and the var-int reader, on any chunk, with fuel len + 1 *)
Theorem C04_SMF_track_total : forall chunk,
  match smf_read_track chunk with Ok _ => True | Raise e => e = EMutagen end.
Proof. intro chunk. pose proof (read_track_total chunk) as H. unfold rspec in H. destruct (smf_read_track chunk); auto. Qed.
Print Assumptions C04_SMF_track_total.

(* ---- 4. Vorbis comment: VComment.load(errors='replace', framing=True) ---- *)
Theorem C04_VComment_total : forall bytes, c04_input bytes ->
  match vcomment_load bytes with Ok _ => True | Raise e => e = EMutagen end.
Proof. exact vcomment_total. Qed.
Print Assumptions C04_VComment_total.
Theorem C04_VComment_fuel : forall bytes,
  vcomment_load bytes = prun (vc_load_body (Z.to_nat (1 * zlen bytes + 1))) bytes.
Proof. reflexivity. Qed.
Print Assumptions C04_VComment_fuel.

(* ---- 5. Ogg: OggPage.__init__ (Model.Ogg.page_parse) + OggVorbisInfo.__init__ under OggFileType.load ---- *)
Theorem C04_OggVorbis_total : forall bytes,
  match oggvorbis_load bytes with Ok _ => True | Raise e => e = EMutagen end.
Proof. exact oggvorbis_total. Qed.
Print Assumptions C04_OggVorbis_total.
(* OggVorbisInfo(fileobj) on its own lets exactly one more class out, EOFError, which load maps *)
Theorem C04_OggVorbisInfo_cases : forall bytes,
  match oggvorbis_info_load bytes with Ok _ => True | Raise e => e = EMutagen \/ e = EEOF end.
Proof. exact oggvorbis_info_cases. Qed.
Print Assumptions C04_OggVorbisInfo_cases.
Theorem C04_OggVorbis_fuel : forall bytes,
  oggvorbis_info_load bytes = prun (ogv_init (Z.to_nat (1 * zlen bytes + 1))) bytes.
Proof. reflexivity. Qed.
Print Assumptions C04_OggVorbis_fuel.

(* the other codec header finders share the page loop; OggFileType.load maps their EOFError the same way *)
Theorem C04_OggOpus_total : forall bytes,
  match oggopus_load bytes with Ok _ => True | Raise e => e = EMutagen end.
Proof. exact oggopus_total. Qed.
Print Assumptions C04_OggOpus_total.
Theorem C04_OggSpeex_total : forall bytes,
  match oggspeex_load bytes with Ok _ => True | Raise e => e = EMutagen end.
Proof. exact oggspeex_total. Qed.
Print Assumptions C04_OggSpeex_total.
Theorem C04_OggTheora_total : forall bytes,
  match oggtheora_load bytes with Ok _ => True | Raise e => e = EMutagen end.
Proof. exact oggtheora_total. Qed.
Print Assumptions C04_OggTheora_total.

(* ---- 6. APEv2: _APEv2Data.__init__ (__find_metadata, __fill_missing, __fix_brokenness) ---- *)
Theorem C04_APEv2Data_total : forall bytes, c04_input bytes ->
  match apev2data_load bytes with Ok _ => True | Raise e => e = EMutagen end.
Proof. exact apev2data_total. Qed.
Print Assumptions C04_APEv2Data_total.
Theorem C04_APEv2Data_fuel : forall bytes,
  apev2data_load bytes = prun (ape_init (Z.to_nat (1 * zlen bytes + 34))) bytes.
Proof. reflexivity. Qed.
Print Assumptions C04_APEv2Data_fuel.

(* ---- 7. ID3: ID3Header.__init__ (one loop: the de-unsynchronised reading of a v2.2/v2.3 extended header,
   _read_unsynched; what is missing at least halves per round, the model's 33 rounds are never exhausted) ---- *)
Theorem C04_ID3Header_total : forall bytes, c04_input bytes ->
  match id3header_load bytes with Ok _ => True | Raise e => e = EMutagen end.
Proof. exact id3header_total. Qed.
Print Assumptions C04_ID3Header_total.

(* determine_bpi(data, Frames): both counting loops end within len + 1 rounds, nothing is raised *)
Theorem C04_ID3_determine_bpi_total : forall data, Forall (fun x => 0 <= x < 256) data ->
  exists b, id3_determine_bpi data = Ok b /\ (b = 7 \/ b = 8).
Proof. exact determine_bpi_total. Qed.
Print Assumptions C04_ID3_determine_bpi_total.

(* ---- 8. MP4: Atom.__init__ / Atoms.__init__ (recursive container parse) under MP4.load's mapping ---- *)
Theorem C04_MP4_total : forall bytes, c04_input bytes ->
  match mp4_atoms_load bytes with Ok _ => True | Raise e => e = EMutagen end.
Proof. exact mp4_total. Qed.
Print Assumptions C04_MP4_total.
(* Atoms(fileobj) on its own lets exactly AtomError (represented by EAssert) out *)
Theorem C04_MP4Atoms_cases : forall bytes, zlen bytes < c04_two62 ->
  match mp4_atoms_raw bytes with Ok _ => True | Raise e => e = EAtom end.
Proof. exact mp4_atoms_raw_cases. Qed.
Print Assumptions C04_MP4Atoms_cases.
Theorem C04_MP4_fuel : forall bytes,
  mp4_atoms_raw bytes = prun (mp4_atoms (Z.to_nat (1 * zlen bytes + 3))) bytes.
Proof. reflexivity. Qed.
Print Assumptions C04_MP4_fuel.

(* ---- 9. fixed-size header readers (no loop) ---- *)
Theorem C04_TrueAudio_total : forall bytes,
  match trueaudio_load bytes with Ok _ => True | Raise e => e = EMutagen end.
Proof. exact trueaudio_total. Qed.
Print Assumptions C04_TrueAudio_total.
Theorem C04_MonkeysAudio_total : forall bytes,
  match monkeysaudio_load bytes with Ok _ => True | Raise e => e = EMutagen end.
Proof. exact monkeysaudio_total. Qed.
Print Assumptions C04_MonkeysAudio_total.
Theorem C04_OptimFROG_total : forall bytes, c04_input bytes ->
  match optimfrog_load bytes with Ok _ => True | Raise e => e = EMutagen end.
Proof. exact optimfrog_total. Qed.
Print Assumptions C04_OptimFROG_total.

(* ---- non-vacuity: a valid header is accepted, a truncated one is rejected with EMutagen; and the
   inputs of the escapes repaired in /repo are rejected with EMutagen by the mirrors of the repaired code ---- *)
Definition ex_sv8 : list Z :=
  [77;80;67;75; 83;72;12; 0;0;0;0; 8; 100; 0; 0;16;  82;71;12; 1;0;0;0;0;0;0;0;0;  65;80;3].
Example C04_Musepack_ex_ok :
  c04_inputb ex_sv8 = true /\ rmap mpc_info_list (musepack_load ex_sv8) = Ok [8; 8; 2; 44100; 100; 0;0;0;0; 100; 44100; 0; 31].
Proof. vm_compute. split; reflexivity. Qed.
Example C04_Musepack_ex_truncated : musepack_load (firstn 14 ex_sv8) = Raise EMutagen.
Proof. vm_compute. reflexivity. Qed.
Example C04_Musepack_ex_small_packet : musepack_load ([77;80;67;75; 88;88;0] ++ repeat 0 40) = Raise EMutagen.
Proof. vm_compute. reflexivity. Qed.
Example C04_Musepack_ex_huge_skip :
  musepack_load [77;80;67;75; 88;88; 255;255;255;255;255;255;255;255;127] = Raise EMutagen.
Proof. vm_compute. reflexivity. Qed.

Definition ex_wv (flags3 : Z) : list Z :=
  [119;118;112;107; 24;0;0;0; 7;4; 0;0; 232;3;0;0; 0;0;0;0; 10;0;0;0; 1;0;128;flags3; 0;0;0;0].
Example C04_WavPack_ex_ok : rmap wv_info_list (wavpack_load (ex_wv 4)) = Ok [1031; 2; 44100; 16; 1000].
Proof. vm_compute. reflexivity. Qed.
Example C04_WavPack_ex_rate15 : wavpack_load (ex_wv 7) = Raise EMutagen.        (* RATES[15]: was IndexError *)
Proof. vm_compute. reflexivity. Qed.
Example C04_WavPack_ex_truncated : wavpack_load (firstn 31 (ex_wv 4)) = Raise EMutagen.
Proof. vm_compute. reflexivity. Qed.

Definition ex_mid (track : list Z) : list Z :=
  [77;84;104;100; 0;0;0;6; 0;0; 0;1; 0;96; 77;84;114;107; 0;0;0;zlen track] ++ track.
Example C04_SMF_ex_ok :
  rmap smf_info_list (smf_load (ex_mid [0;255;81;3;7;161;32; 16;144;64;64; 16;64;0])) = Ok [96; 1; 2; 0;500000; 32;500000].
Proof. vm_compute. reflexivity. Qed.
Example C04_SMF_ex_truncated_event : smf_load (ex_mid [0]) = Raise EMutagen.
Proof. vm_compute. reflexivity. Qed.
Example C04_SMF_ex_huge_delta :                                               (* was OverflowError *)
  smf_load (ex_mid (repeat 255 150 ++ [0;144;64;64])) = Raise EMutagen.
Proof. vm_compute. reflexivity. Qed.

Definition ex_vc : list Z := [1;0;0;0; 118; 2;0;0;0; 3;0;0;0; 97;61;98; 1;0;0;0; 120; 1].
Example C04_VComment_ex_ok : rmap vc_info_list (vcomment_load ex_vc) = Ok [1; 2; 2; 22].
Proof. vm_compute. reflexivity. Qed.
Example C04_VComment_ex_no_framing : vcomment_load (firstn 21 ex_vc) = Raise EMutagen.   (* was IndexError *)
Proof. vm_compute. reflexivity. Qed.
Example C04_VComment_ex_count : vcomment_load [0;0;0;0; 255;255;255;255; 1] = Raise EMutagen.
Proof. vm_compute. reflexivity. Qed.

Definition ex_ogg (nseg : list Z) (body : list Z) : list Z :=
  [79;103;103;83; 0; 2; 0;0;0;0;0;0;0;0; 1;0;0;0; 0;0;0;0; 0;0;0;0; zlen nseg] ++ nseg ++ body.
Definition ex_vorbis_id : list Z :=
  [1;118;111;114;98;105;115; 0;0;0;0; 2; 68;172;0;0; 0;0;0;0; 0;244;1;0; 0;0;0;0; 184;1].
Example C04_OggVorbis_ex_ok : rmap ogv_info_list (oggvorbis_load (ex_ogg [30] ex_vorbis_id)) = Ok [2; 44100; 128000; 1].
Proof. vm_compute. reflexivity. Qed.
Example C04_OggVorbis_ex_empty_page : oggvorbis_load (ex_ogg [] []) = Raise EMutagen.     (* was IndexError *)
Proof. vm_compute. reflexivity. Qed.
Example C04_OggVorbis_ex_eof :
  oggvorbis_info_load (ex_ogg [1] [9]) = Raise EEOF /\ oggvorbis_load (ex_ogg [1] [9]) = Raise EMutagen.
Proof. vm_compute. split; reflexivity. Qed.

Example C04_OggOpus_ex :
  oggopus_load (ex_ogg [19] [79;112;117;115;72;101;97;100; 1; 2; 56;1; 128;187;0;0; 0;0; 0]) = Ok [2; 312; 1] /\
  oggopus_load (ex_ogg [18] [79;112;117;115;72;101;97;100; 1; 2; 56;1; 128;187;0;0; 0;0]) = Raise EMutagen.   (* was struct.error *)
Proof. vm_compute. split; reflexivity. Qed.
Example C04_OggSpeex_ex_short : oggspeex_load (ex_ogg [8] [83;112;101;101;120;32;32;32]) = Raise EMutagen.     (* was struct.error *)
Proof. vm_compute. reflexivity. Qed.

Definition ex_ape : list Z :=
  [65;80;69;84;65;71;69;88; 208;7;0;0; 32;0;0;0; 0;0;0;0; 0;0;0;0; 0;0;0;0;0;0;0;0].
Example C04_APEv2Data_ex_ok :
  rmap ape_data_list (apev2data_load ([1;2;3] ++ ex_ape)) = Ok [3; 3; 3; 3; 35; 0; 0; 0; 0; 0].
Proof. vm_compute. reflexivity. Qed.
Example C04_APEv2Data_ex_none : rmap ape_data_list (apev2data_load [1;2;3]) = Ok [].
Proof. vm_compute. reflexivity. Qed.
Example C04_APEv2Data_ex_size_too_big :                                                 (* was ValueError *)
  apev2data_load ([1;2;3] ++ firstn 12 ex_ape ++ [200] ++ skipn 13 ex_ape) = Raise EMutagen.
Proof. vm_compute. reflexivity. Qed.

Example C04_ID3Header_ex_ok : id3header_load [73;68;51; 4;0; 0; 0;0;2;1; 9;9] = Ok [4; 0; 0; 267; -1; 10].
Proof. vm_compute. reflexivity. Qed.
Example C04_ID3Header_ex_truncated : id3header_load [73;68;51; 4;0; 0; 0;0;2] = Raise EMutagen.
Proof. vm_compute. reflexivity. Qed.
(* v2.3, unsynchronisation + extended header whose CRC 8A FF F4 F8 is stuffed (FF 00): 10 decoded bytes, 11 consumed *)
Example C04_ID3Header_ex_stuffed_ext :
  id3header_load [73;68;51; 3;0; 192; 0;0;1;6; 0;0;0;10; 128;0;0;0;0;0;138;255;0;244;248; 77;67;68;73] = Ok [3; 0; 192; 144; 10; 25].
Proof. vm_compute. reflexivity. Qed.
Example C04_ID3Header_ex_short_ext : id3header_load [73;68;51; 4;0; 64; 0;0;2;1; 0;0;0;12; 1] = Raise EMutagen.
Proof. vm_compute. reflexivity. Qed.

Definition ex_moov (n : nat) : list Z := concat (repeat [0;15;255;255; 109;111;111;118] n).
Example C04_MP4_ex_ok :
  rmap mp4_flat_list (mp4_atoms_load ([0;0;0;16; 109;111;111;118; 0;0;0;8; 102;114;101;101] ++ [0;0;0;9; 102;114;101;101; 7]))
  = Ok [0;0;16;1836019574;8;  1;8;8;1718773093;16;  0;16;9;1718773093;24].
Proof. vm_compute. reflexivity. Qed.
Example C04_MP4_ex_truncated : mp4_atoms_load ([0;0;0;16; 109;111;111;118; 0;0;0;8; 102;114]) = Raise EMutagen.
Proof. vm_compute. reflexivity. Qed.
Example C04_MP4_ex_deep_nesting : mp4_atoms_load (ex_moov 1200) = Raise EMutagen.     (* was RecursionError *)
Proof. vm_compute. reflexivity. Qed.
Example C04_MP4_ex_huge_64bit :                                                        (* was OverflowError *)
  mp4_atoms_load [0;0;0;1; 102;114;101;101; 255;255;255;255;255;255;255;255] = Raise EMutagen.
Proof. vm_compute. reflexivity. Qed.

Example C04_TrueAudio_ex :
  trueaudio_load ([84;84;65;49; 1;0;2;0;16;0; 68;172;0;0; 16;39;0;0] ++ [0;0;0;0]) = Ok [44100; 10000] /\
  trueaudio_load [84;84;65;49; 1;0;2;0;16;0; 68;172;0;0; 16;39;0] = Raise EMutagen.
Proof. vm_compute. split; reflexivity. Qed.
