(* C04 -- Malformed input is rejected cleanly and in bounded time.
   For every loader K with an exception-faithful mirror `K_load : list Z -> result info` (Model.Parse_K,
   reading through a BytesIO over the input): for EVERY byte string (c04_input: a list of bytes no longer
   than a BytesIO can hold) the mirror returns Ok or raises EMutagen (mutagen.MutagenError or a subclass)
   -- never IndexError, struct.error, ValueError, UnicodeError, OverflowError, ZeroDivisionError, KeyError,
   EOFError, and never EOutOfFuel, where the fuel the wrapper supplies to the loader's loops is linear in
   the input length (`K_fuel`).  The mirrors are tied to /repo by the outcome-class correspondence of
   harness/props/c04.py. *)
From Coq Require Import ZArith List Bool Lia.
Import ListNotations.
Require Import Base.Py Model.Parse_base Model.Parse_musepack Proofs.C04_lib Proofs.C04_musepack.
Open Scope Z_scope.

(* ---- Musepack: MusepackInfo.__init__ ---- *)
Theorem C04_Musepack_total : forall bytes, c04_input bytes ->
  match musepack_load bytes with Ok _ => True | Raise e => e = EMutagen end.
Proof. exact musepack_total. Qed.
Print Assumptions C04_Musepack_total.
(* the SV8 packet loop gets len + 1 units of fuel (one per packet) *)
Theorem C04_Musepack_fuel : forall bytes,
  musepack_load bytes = prun (mpc_init (Z.to_nat (1 * zlen bytes + 1))) bytes.
Proof. reflexivity. Qed.
Print Assumptions C04_Musepack_fuel.

(* non-vacuity: a valid SV8 header is accepted; truncated / looping / overflowing ones are rejected *)
Definition ex_sv8 : list Z :=
  [77;80;67;75; 83;72;12; 0;0;0;0; 8; 100; 0; 0;16;  82;71;12; 1;0;0;0;0;0;0;0;0;  65;80;3].
Example C04_Musepack_ex_ok :
  c04_inputb ex_sv8 = true /\ rmap mpc_info_list (musepack_load ex_sv8) = Ok [8; 8; 2; 44100; 100; 0;0;0;0; 100; 44100; 0; 31].
Proof. vm_compute. split; reflexivity. Qed.
Example C04_Musepack_ex_truncated : musepack_load (firstn 14 ex_sv8) = Raise EMutagen.
Proof. vm_compute. reflexivity. Qed.
(* regression inputs of the repaired escapes: packet smaller than its header (was an endless loop),
   unknown packet with a 2^63-ish size (was OverflowError from seek) *)
Example C04_Musepack_ex_small_packet : musepack_load ([77;80;67;75; 88;88;0] ++ repeat 0 40) = Raise EMutagen.
Proof. vm_compute. reflexivity. Qed.
Example C04_Musepack_ex_huge_skip :
  musepack_load [77;80;67;75; 88;88; 255;255;255;255;255;255;255;255;127] = Raise EMutagen.
Proof. vm_compute. reflexivity. Qed.
