(* C04 (AAC) -- Malformed input is rejected cleanly and in bounded time: the mirror of aac.AACInfo.__init__ (what
   AAC.load runs: ID3v2 skip, ADIF header with its program config elements, the ADTS sync search and frame walk)
   returns Ok or raises EMutagen on EVERY byte string -- never BitReaderError (represented by ENotImpl),
   AssertionError (BitReader's `assert self._bits < 8`, `assert r.is_aligned()`, `assert self.parsed_frames`),
   IndexError / TypeError (the fixed header key and _FREQS look-ups), ValueError (negative bit counts),
   ZeroDivisionError (bitrate and length estimates), OverflowError (seeks), and never EOutOfFuel: every loop of
   the code has a constant bound (10 tries, 100 frames, 512 / 10 bytes of sync search, at most 45 channel
   elements and 15 further program config elements), which is what the model's recursion uses. *)
From Coq Require Import ZArith List Bool Lia.
Import ListNotations.
Require Import Base.Py Model.Parse_base Model.Parse_ac3 Model.Parse_aac Proofs.C04_lib Proofs.C04_ac3 Proofs.C04_aac.
Open Scope Z_scope.

Theorem C04_AAC_total : forall bytes, c04_input bytes ->
  match aac_load bytes with Ok _ => True | Raise e => e = EMutagen end.
Proof. exact aac_total. Qed.
Print Assumptions C04_AAC_total.

(* every bits(count) advances BitReader.get_position() by exactly count: 8 * pos - bits grows by count *)
Theorem C04_AAC_bitreader_position : forall count buffer bits bytes pos,
  0 <= buffer < 2 ^ bits -> 0 <= bits < 8 -> 0 <= count -> 0 <= pos -> pos + count < c04_two62 ->
  match br_bits count (buffer, bits) bytes pos with
  | (Ok (_, (_, bits')), pos') => 8 * pos' - bits' = 8 * pos - bits + count
  | (Raise e, _) => e = EBitReader
  end.
Proof.
  intros count buffer bits bytes pos H1 H2 Hc Hp Hpc.
  pose proof (br_bits_pos (fun e => e = EBitReader) eq_refl count (buffer, bits) bytes pos (conj H1 H2) Hc Hp Hpc) as H.
  unfold pspecE, bitpos in H. destruct (br_bits count (buffer, bits) bytes pos) as [[[v [b' n']]|e] p']; cbn [fst snd] in H; exact H.
Qed.
Print Assumptions C04_AAC_bitreader_position.

(* the sync search: at most 2 * fuel bytes are consumed, a found sync leaves four buffered bits *)
Theorem C04_AAC_sync_total : forall bytes max_bytes pos,
  Forall (fun x => 0 <= x < 256) bytes -> 0 <= max_bytes <= 512 -> 0 <= pos -> pos + 1100 < c04_two62 ->
  match adts_sync max_bytes bytes pos with
  | (Ok (found, (_, bits)), pos') => found = true -> bits = 4 /\ pos + 1 <= pos' <= pos + 1030
  | (Raise e, _) => e = EMutagen
  end.
Proof.
  intros bytes mb pos Hb Hmb Hp Hpc.
  pose proof (adts_sync_spec bytes mb pos Hb Hmb Hp Hpc) as H.
  unfold pspecE in H. destruct (adts_sync mb bytes pos) as [[[found [b n]]|e] p']; [|exact H].
  cbn [fst snd] in H. intro Hf. destruct (H Hf) as (_ & H2 & H3). split; assumption.
Qed.
Print Assumptions C04_AAC_sync_total.

(* ---- non-vacuity ---- *)
Definition ex_adts_frame : list Z := [255;241;80;128;1;63;252; 33;33].        (* 9-byte frame, 44.1 kHz, 2 channels *)
Example C04_AAC_ex_adts :
  c04_inputb (ex_adts_frame ++ ex_adts_frame ++ ex_adts_frame) = true /\
  aac_load (ex_adts_frame ++ ex_adts_frame ++ ex_adts_frame) = Ok [1; 44100; 2; 1; 689; 3072; 26; 216] /\
  aac_load (ex_adts_frame ++ ex_adts_frame) = Raise EMutagen.                 (* fewer than three frames *)
Proof. vm_compute. repeat split; reflexivity. Qed.
Definition ex_adif : list Z := [65;68;73;70; 0;62;128;0;36;104;160;160;128;0;4;192;0; 0;0].
Example C04_AAC_ex_adif :
  aac_load ex_adif = Ok [0; 44100; 2; 128000; 2] /\ aac_load (firstn 8 ex_adif) = Raise EMutagen.
Proof. vm_compute. split; reflexivity. Qed.
Example C04_AAC_ex_no_sync : aac_load (repeat 0 600) = Raise EMutagen /\ aac_load [] = Raise EMutagen.
Proof. vm_compute. split; reflexivity. Qed.
