(* C02 (FLAC family) -- Saving or deleting tags never alters audio or foreign data.
   Foreign data of a FLAC file: the ID3v2 prefix in front of the stream marker, every metadata block that is neither
   VORBIS_COMMENT nor PADDING (byte-identical payloads, same order), and all bytes after the last metadata block.
   The explicit exception deleteid3 is excluded by hypothesis (o_deleteid3 o = false).
   Hypothesis inherited from the model: mutagen re-renders STREAMINFO / SEEKTABLE / CUESHEET / PICTURE blocks from
   parsed fields; the model keeps their payload, which is the same thing for blocks in canonical form. *)
From Coq Require Import ZArith List Bool Lia.
Import ListNotations.
Require Import Base.Py Base.ZList Gen.Gen_tags Model.Splice Model.Fam_flac
  Proofs.Fam_flac_codec Proofs.Fam_flac_walk Proofs.Fam_flac_save Proofs.Fam_flac_thms Proofs.Fam_flac_final Proofs.Fam_flac_extra Proofs.Fam_flac_session Proofs.Fam_flac_examples.
Require Import Base.FileModel Proofs.FileLemmas.
Open Scope Z_scope.

Theorem C02_flac_save : forall f t o f', flac_wf f = true -> o_deleteid3 o = false -> flac_save f t o = Ok f' ->
  exists s s', flac_parse f = Ok s /\ flac_parse f' = Ok s' /\
    fprefix s' = fprefix s /\ foreign_blocks (fblocks s') = foreign_blocks (fblocks s) /\ faudio s' = faudio s /\
    hd_error (fblocks s') = hd_error (fblocks s).
Proof. exact final_save_preserves. Qed.
Print Assumptions C02_flac_save.

Theorem C02_flac_delete : forall f f', flac_wf f = true -> flac_delete f = Ok f' ->
  exists s s', flac_parse f = Ok s /\ flac_parse f' = Ok s' /\
    fprefix s' = fprefix s /\ foreign_blocks (fblocks s') = foreign_blocks (fblocks s) /\ faudio s' = faudio s /\
    hd_error (fblocks s') = hd_error (fblocks s).
Proof. exact final_delete_preserves. Qed.
Print Assumptions C02_flac_delete.

(* any finite sequence of saves (any tags, any callback) and deletes; failing operations leave the file as it is *)
Theorem C02_flac_history : forall ops f, flac_wf f = true ->
  exists s s', flac_parse f = Ok s /\ flac_parse (fold_left flac_step ops f) = Ok s' /\
    fprefix s' = fprefix s /\ foreign_blocks (fblocks s') = foreign_blocks (fblocks s) /\ faudio s' = faudio s /\
    hd_error (fblocks s') = hd_error (fblocks s).
Proof. exact final_history_preserves. Qed.
Print Assumptions C02_flac_history.

(* byte level: prefix and stream marker stay at their offsets; the audio is the same suffix of the file *)
Theorem C02_flac_save_bytes : forall f s t o f', flac_wf f = true -> flac_parse f = Ok s -> o_deleteid3 o = false ->
  flac_save f t o = Ok f' ->
  ztake (zlen (fprefix s) + 4) f' = ztake (zlen (fprefix s) + 4) f /\
  zdrop (zlen f' - zlen (faudio s)) f' = faudio s /\ zdrop (zlen f - zlen (faudio s)) f = faudio s.
Proof. exact final_save_bytes. Qed.
Print Assumptions C02_flac_save_bytes.

(* the general form behind all of them: FLAC._save with ANY object block list (stale objects included) writes
   prefix | fLaC | the object's non-padding blocks in order | one padding block | audio *)
Theorem C02_flac_save_obj : forall p bs a, prefix_ok p -> bs <> [] -> Forall block_small bs -> forallb block_ok bs = true ->
  forall bs0 t o f', o_deleteid3 o = false -> Forall ovf_none bs0 -> Forall code_ok bs0 ->
  flac_save_obj (layout p bs a) bs0 t o = Ok f' ->
  exists bs1, tags_applied bs0 t bs1 /\
    Forall block_small (nonpad bs1 ++ [pad_block (padlen (o_cb o) (blocks_extent bs) bs1 (zlen a))]) /\
    f' = layout p (nonpad bs1 ++ [pad_block (padlen (o_cb o) (blocks_extent bs) bs1 (zlen a))]) a /\
    flac_parse f' = Ok (mkFlac p (nonpad bs1 ++ [pad_block (padlen (o_cb o) (blocks_extent bs) bs1 (zlen a))]) a).
Proof. exact save_obj_layout. Qed.
Print Assumptions C02_flac_save_obj.

(* the explicit exception deleteid3=True: the ID3v2 prefix is removed and an ID3v1 trailer (last 128 bytes, starting with
   "TAG") is cut off the AUDIO; every foreign block and the rest of the audio are the same, in order *)
Theorem C02_flac_deleteid3 : forall f t o f', flac_wf f = true -> o_deleteid3 o = true -> flac_save f t o = Ok f' ->
  exists s s', flac_parse f = Ok s /\ flac_parse f' = Ok s' /\
    fprefix s' = [] /\ foreign_blocks (fblocks s') = foreign_blocks (fblocks s) /\ faudio s' = strip_audio (faudio s) /\
    hd_error (fblocks s') = hd_error (fblocks s).
Proof. exact final_deleteid3. Qed.
Print Assumptions C02_flac_deleteid3.
Theorem C02_flac_strip_audio : forall a, strip_audio a = a \/
  (128 <= zlen a /\ starts_with TAGMAGIC (zdrop (zlen a - 128) a) = true /\ strip_audio a = ztake (zlen a - 128) a).
Proof. exact strip_audio_cases. Qed.
Print Assumptions C02_flac_strip_audio.

(* the file effect of FLAC._save is the pure splice: resize_bytes(fileobj, available, len(data), header); seek; write
   run over the resize_bytes REGENERATED from mutagen/_util.py (C11), every buffer size, both seek flavours *)
Theorem C02_flac_splice_prog : forall real part BUF, 1 <= BUF -> forall f s data pos, flac_parse f = Ok s ->
  fst (splice_prog BUF (zlen (fprefix s) + 4) (blocks_extent (fblocks s)) data (mkF f pos (benign real part))) = Ok tt /\
  fdata (snd (splice_prog BUF (zlen (fprefix s) + 4) (blocks_extent (fblocks s)) data (mkF f pos (benign real part)))) =
    splice f (zlen (fprefix s) + 4) (blocks_extent (fblocks s)) data.
Proof. exact final_splice_prog. Qed.
Print Assumptions C02_flac_splice_prog.

Example C02_flac_ex_deleteid3 : flac_wf ex_file_v1 = true /\
  match flac_save ex_file_v1 ex_new (mkOpts None true) with
  | Ok f' => match flac_parse f' with
             | Ok s' => (fprefix s', map bcode (fblocks s'), zlen (faudio s'))
             | Raise _ => ([], [], -1) end
  | Raise _ => ([], [], -2) end = ([], [0; 2; 4; 1], 136).
Proof. exact ex_deleteid3. Qed.

(* histories through a LIVE object (the FLAC instance is kept across reload / add_tags / save / delete / module delete,
   its block list possibly stale): sess_step is the function the harness runs next to mutagen on every history *)
Theorem C02_flac_session : forall ops f, flac_wf f = true ->
  flac_wf (ss_file (fold_left sess_step ops (mkSess f None))) = true /\
  preserved f (ss_file (fold_left sess_step ops (mkSess f None))).
Proof. exact session_wf. Qed.
Print Assumptions C02_flac_session.

Example C02_flac_ex_wf : flac_wf ex_file = true /\ flac_wf ex_notags = true.
Proof. exact ex_wf. Qed.
Example C02_flac_ex_ops_succeed : is_ok (flac_save ex_file ex_new (ex_opts None)) = true /\
                                  is_ok (flac_save ex_notags ex_new (ex_opts (Some (cb_const 7)))) = true.
Proof. exact ex_save_ok. Qed.
Example C02_flac_ex_resizes : zlen (get [] (flac_save ex_file ex_new (ex_opts (Some (cb_const 777))))) = zlen ex_file + 769.
Proof. exact ex_save_resizes. Qed.
