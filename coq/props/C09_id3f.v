(* C09 for the family id3f: the callback receives (old tag size - needed, size of the data behind the tag), its result is
   the padding in the saved file, a negative result is rejected, and returning info.padding >= 0 keeps the size and
   every payload offset. *)
From Coq Require Import ZArith List Bool Lia.
Import ListNotations.
Require Import Base.Py Base.ZList Gen.Gen_tags Model.Splice Model.Id3Util Model.Fam_id3f
  Proofs.Fam_id3f_base Proofs.Fam_id3f_save Proofs.Fam_id3f_props Proofs.Fam_id3f_examples.
Open Scope Z_scope.

Theorem C09_id3f_callback : forall f s fr o f',
  id3f_wf f = true -> id3f_parse f = Ok s -> frames_ok (o_v2 o) fr = true -> v1_hyp (i_mid s) o ->
  id3f_save f fr o = Ok f' ->
  let r := o_cb o (tag_size s - (zlen fr + 10)) (zlen f - tag_size s) in
  0 <= r /\ exists s', id3f_parse f' = Ok s' /\ id3f_padding s' = r /\ tag_size s' = 10 + zlen fr + r.
Proof. exact c09_callback. Qed.
Print Assumptions C09_id3f_callback.

Theorem C09_id3f_negative_rejected : forall f s fr o,
  id3f_parse f = Ok s -> (o_v2 o = 3 \/ o_v2 o = 4) ->
  o_cb o (tag_size s - (zlen fr + 10)) (zlen f - tag_size s) < 0 -> id3f_save f fr o = Raise EMutagen.
Proof. exact c09_negative_rejected. Qed.
Print Assumptions C09_id3f_negative_rejected.

Theorem C09_id3f_keep : forall f s fr o g n,
  id3f_parse f = Ok s -> id3f_save_v2 f fr o = Ok (g, n) ->
  o_cb o (tag_size s - (zlen fr + 10)) (zlen f - tag_size s) = tag_size s - (zlen fr + 10) ->
  0 <= tag_size s - (zlen fr + 10) /\ zlen g = zlen f /\ n = tag_size s /\
  zdrop (tag_size s) g = zdrop (tag_size s) f /\
  (forall i, tag_size s <= i < zlen f -> znth i g = znth i f).
Proof. exact c09_keep. Qed.
Print Assumptions C09_id3f_keep.

Theorem C09_id3f_keep_size : forall f s fr o f',
  id3f_wf f = true -> id3f_parse f = Ok s -> frames_ok (o_v2 o) fr = true -> v1_hyp (i_mid s) o ->
  id3f_save f fr o = Ok f' ->
  o_cb o (tag_size s - (zlen fr + 10)) (zlen f - tag_size s) = tag_size s - (zlen fr + 10) ->
  zlen f' - zlen (optb (v1_after (o_v1 o) (o_v1bytes o) (i_v1 s))) = zlen f - zlen (optb (i_v1 s)).
Proof. exact c09_keep_size. Qed.
Print Assumptions C09_id3f_keep_size.
