(* C01 (APEv2 family) -- saved items read back exactly: keys, value kinds, value bytes.
   ape_save mirrors mutagen.apev2.APEv2.save byte for byte (checked by correspondence on every run);
   ape_load is the strict independent reader written from the format layout.  Quantified over every
   well-formed file f, every valid tag set and both seek flavours of the file object; no size bound.
   canon = documented canonical form: an empty tag reads as no tag; the items come back in the canonical
   (length, bytes) order, which is a permutation of what was set (the tag is an unordered mapping). *)
From Coq Require Import ZArith List Bool Lia Permutation.
Import ListNotations.
Require Import Base.Py Base.ZList Model.Sort Model.Fam_ape
  Proofs.SortPerm Proofs.Fam_ape_codec Proofs.Fam_ape_locate Proofs.Fam_ape_save Proofs.Fam_ape_props Proofs.Fam_ape_mirror Proofs.Fam_ape_examples.
Open Scope Z_scope.

(* LE32 codec *)
Theorem C01_ape_le32_round : forall v, 0 <= v < W32 -> le_decode (le_encode 4 v) = v.
Proof. exact le32_round. Qed.
Print Assumptions C01_ape_le32_round.

(* item codec: the strict reader after the renderer is the identity, for valid keys (2..255 chars 0x20..0x7E,
   not reserved), kinds 0..2 and ANY value bytes; the items tile the body *)
Theorem C01_ape_items_roundtrip : forall its rest,
  forallb item_valid its = true -> forallb item_fits its = true ->
  ape_items (length its) (flat_map render_item its ++ rest) = Ok (its, rest).
Proof. exact ape_items_render. Qed.
Print Assumptions C01_ape_items_roundtrip.

(* different valid items have different byte strings *)
Theorem C01_ape_render_item_injective : forall a b,
  item_valid a = true -> item_fits a = true -> item_valid b = true -> item_fits b = true ->
  render_item a = render_item b -> a = b.
Proof. exact render_item_inj. Qed.
Print Assumptions C01_ape_render_item_injective.

(* the property *)
Theorem C01_ape_save_load : forall real f items f',
  ape_wf f = true -> forallb item_valid items = true -> ape_save real f items = Ok f' ->
  ape_load f' = Ok (canon items) /\ Permutation (sort_items items) items.
Proof. exact C01_save_load. Qed.
Print Assumptions C01_ape_save_load.

(* the same through the MIRROR of mutagen's own reader (_APEv2Data + APEv2.__parse_tag); text and external
   values must be valid UTF-8 (mutagen holds them as str), binary values are arbitrary *)
Theorem C01_ape_save_mut_load : forall real f items f',
  ape_wf f = true -> forallb item_valid items = true -> forallb text_ok items = true ->
  ape_save real f items = Ok f' -> ape_mut_load real f' = Ok (canon items).
Proof. exact C01_save_mut_load. Qed.
Print Assumptions C01_ape_save_mut_load.

(* the strict reader on any body followed by a rendered tag *)
Theorem C01_ape_parse_rendered : forall body items,
  forallb item_valid items = true -> tag_fits items = true ->
  ape_parse (body ++ ape_render_tag items) = Ok (mkS body (Some (sort_items items)) true []).
Proof. exact parse_rendered. Qed.
Print Assumptions C01_ape_parse_rendered.

Example C01_ape_hypotheses_satisfiable :
  ape_wf audio = true /\ forallb item_valid [it_title; it_cover; it_url] = true /\
  exists f', ape_save false audio [it_title; it_cover; it_url] = Ok f' /\ ape_load f' = Ok (Some [it_url; it_title; it_cover]).
Proof.
  split; [vm_compute; reflexivity|]. split; [vm_compute; reflexivity|].
  exists (audio ++ ape_render_tag [it_title; it_cover; it_url]). split; vm_compute; reflexivity.
Qed.
Example C01_ape_empty_tag_reads_as_none : ape_load (audio ++ ape_render_tag []) = Ok None /\ canon [] = None.
Proof. split; vm_compute; reflexivity. Qed.
