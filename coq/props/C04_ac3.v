(* C04 (AC3) -- Malformed input is rejected cleanly: the mirror of ac3.AC3Info.__init__ (what AC3.load runs: sync
   word, bitstream_id dispatch, the AC-3 and E-AC-3 header fields read through _util.BitReader, the
   BitReaderError / KeyError mappings, _guess_length) returns Ok or raises EMutagen on EVERY byte string --
   never BitReaderError (represented by ENotImpl), IndexError (the table look-ups), KeyError, ValueError
   (negative bit counts / shifts), AssertionError (BitReader's `assert self._bits < 8`), ZeroDivisionError,
   OverflowError (the relative seeks of BitReader.skip).  No loop, no fuel. *)
From Coq Require Import ZArith List Bool Lia.
Import ListNotations.
Require Import Base.Py Model.Parse_base Model.Parse_ac3 Proofs.C04_lib Proofs.C04_ac3.
Open Scope Z_scope.

Theorem C04_AC3_total : forall bytes, c04_input bytes ->
  match ac3_load bytes with Ok _ => True | Raise e => e = EMutagen end.
Proof. exact ac3_total. Qed.
Print Assumptions C04_AC3_total.

(* the bit reader on its own: from a state with 0 <= buffer < 2^bits, bits < 8, bits(count) yields a value below
   2^count, keeps the state invariant, moves the stream forward by at most `count` bytes, and the only exception
   it lets out is BitReaderError *)
Theorem C04_AC3_bitreader_bits : forall count buffer bits bytes pos,
  Forall (fun x => 0 <= x < 256) bytes -> 0 <= buffer < 2 ^ bits -> 0 <= bits < 8 ->
  0 <= count -> 0 <= pos -> pos + count < c04_two62 ->
  match br_bits count (buffer, bits) bytes pos with
  | (Ok (v, (buffer', bits')), pos') =>
      0 <= v < 2 ^ count /\ 0 <= buffer' < 2 ^ bits' /\ 0 <= bits' < 8 /\ pos <= pos' <= pos + count
  | (Raise e, _) => e = EBitReader
  end.
Proof.
  intros count buffer bits bytes pos Hb H1 H2 Hc Hp Hpc.
  pose proof (br_bits_spec (fun e => e = EBitReader) eq_refl count (buffer, bits) bytes pos Hb (conj H1 H2) Hc Hp Hpc) as H.
  unfold pspecE, brQv, brinv in H. destruct (br_bits count (buffer, bits) bytes pos) as [[[v [b' n']]|e] p']; cbn [fst snd] in H; tauto.
Qed.
Print Assumptions C04_AC3_bitreader_bits.

(* ---- non-vacuity ---- *)
Definition ex_ac3 : list Z := [11;119; 0;0; 20; 64; 79;96; 0;0;0;0;0;0;0;0].        (* bsid 8: 48 kHz, 192 kbit/s, 2/0 + LFE *)
Definition ex_eac3 : list Z := [11;119; 0;100; 5; 134; 192;0; 0;0;0;0;0;0;0;0].     (* bsid 16 *)
Example C04_AC3_ex_ok :
  c04_inputb ex_ac3 = true /\ ac3_load ex_ac3 = Ok [0; 48000; 192000; 3; 1; 7] /\
  ac3_load ex_eac3 = Ok [1; 48000; 303000; 3; 1; 9].
Proof. vm_compute. repeat split; reflexivity. Qed.
(* the header bits run out: BitReaderError inside, AC3Error outside *)
Example C04_AC3_ex_truncated : ac3_load (firstn 8 ex_ac3) = Raise EMutagen /\ ac3_load (firstn 6 ex_eac3) = Raise EMutagen.
Proof. vm_compute. split; reflexivity. Qed.
Example C04_AC3_ex_bad_codes :
  ac3_load [11;119; 0;0; 192; 64; 79;96; 0;0] = Raise EMutagen /\          (* sample rate code 3 *)
  ac3_load [11;119; 0;0; 38; 64; 79;96; 0;0] = Raise EMutagen /\           (* frame size code 38 *)
  ac3_load [11;119; 0;0; 20; 136; 79;96; 0;0] = Raise EMutagen.            (* bitstream_id 17 *)
Proof. vm_compute. repeat split; reflexivity. Qed.
(* addbsi skip beyond the end of the data: the relative seek passes the end, the length estimate is negative, no exception *)
Example C04_AC3_ex_skip_past_end : ac3_load [11;119; 0;0; 20; 64; 79;102; 168;127] = Ok [0; 48000; 192000; 3; 1; -64].
Proof. vm_compute. reflexivity. Qed.
