(* C03 for the family id3f: well-formedness (header valid, size syncsafe = extent, frames + zero padding tile the tag,
   unambiguous ID3v1 slot) is preserved by save and delete, and by every finite operation sequence; the payload
   (audio, stream headers) is byte-identical throughout. *)
From Coq Require Import ZArith List Bool Lia.
Import ListNotations.
Require Import Base.Py Base.ZList Gen.Gen_tags Model.Splice Model.Id3Util Model.Fam_id3f
  Proofs.Fam_id3f_base Proofs.Fam_id3f_save Proofs.Fam_id3f_props Proofs.Fam_id3f_examples.
Open Scope Z_scope.

Theorem C03_id3f_save : forall f fr o f',
  id3f_wf f = true -> frames_ok (o_v2 o) fr = true -> v1_hyp (mid_of f) o ->
  id3f_save f fr o = Ok f' -> id3f_wf f' = true /\ mid_of f' = mid_of f.
Proof. exact c03_save. Qed.
Print Assumptions C03_id3f_save.

Theorem C03_id3f_delete : forall f f', id3f_wf f = true -> id3f_delete f = Ok f' ->
  id3f_wf f' = true /\ mid_of f' = mid_of f /\ f' = mid_of f.
Proof. exact c03_delete. Qed.
Print Assumptions C03_id3f_delete.

Theorem C03_id3f_history : forall ops f f',
  id3f_wf f = true -> Forall (op_ok (mid_of f)) ops -> run_ops ops f = Ok f' ->
  id3f_wf f' = true /\ mid_of f' = mid_of f.
Proof. exact c03_history. Qed.
Print Assumptions C03_id3f_history.

(* well-formed files parse strictly, and mutagen's header reader accepts them with the same size *)
Theorem C03_id3f_wf_parses : forall f, id3f_wf f = true -> exists s, id3f_parse f = Ok s /\
  starts_with M_ID3 (i_mid s) = false /\ strict_v1 (i_mid s) = false /\
  find_id3v1 0 (i_mid s) = None /\ (forall v, i_v1 s = Some v -> v1_fits (i_mid s) v = true).
Proof. exact wf_inv. Qed.
Print Assumptions C03_id3f_wf_parses.
Theorem C03_id3f_header_accepted : forall known f t, parse_tag f = Ok t -> mut_header known f = Ok (option_map t_size t).
Proof. exact header_of_parse. Qed.
Print Assumptions C03_id3f_header_accepted.

Example C03_id3f_history_example : exists f',
  run_ops [OpSave ex_priv (ex_opts 2 (id3f_cb_const 0)); OpDelete; OpSave ex_frames (ex_opts 0 id3f_cb_keep); OpDelete] ex_file = Ok f' /\
  f' = ex_audio.
Proof. exact ex_history_ok. Qed.
