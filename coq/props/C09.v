(* C09 -- The padding callback is obeyed and existing padding is reused: policy part.
   Theorems about Gen.Gen_tags, regenerated from /repo/mutagen/_tags.py on every run.
   (The per-format "available - needed" arithmetic is in the family theorems, see C09_*.) *)
From Coq Require Import ZArith Bool Lia.
Require Import Gen.Gen_tags Proofs.C09_policy.
Open Scope Z_scope.

(* the value handed back by a user callback is what save() uses *)
Theorem C09_callback_obeyed : forall (f : Z -> Z -> Z) padding size, _get_padding (Some f) padding size = f padding size.
Proof. exact callback_obeyed. Qed.
Print Assumptions C09_callback_obeyed.

(* without a callback the result is that of a callback returning the default policy's answer *)
Theorem C09_no_callback_is_default : forall padding size,
  _get_padding None padding size = _get_padding (Some get_default_padding) padding size.
Proof. exact no_callback_is_default. Qed.
Print Assumptions C09_no_callback_is_default.

(* edits that fit into existing padding of moderate size (up to 1 KiB) keep that padding: no resize *)
Theorem C09_default_keeps_moderate : forall padding size, 0 <= size -> 0 <= padding <= 1024 ->
  get_default_padding padding size = padding.
Proof. exact default_keeps_moderate. Qed.
Print Assumptions C09_default_keeps_moderate.

Theorem C09_default_nonneg : forall padding size, 0 <= size -> 0 <= get_default_padding padding size.
Proof. exact default_nonneg. Qed.
Print Assumptions C09_default_nonneg.

(* saving again with the padding the policy chose keeps it (what idempotent saves, C07, need) *)
Theorem C09_default_idempotent : forall padding size, 0 <= size ->
  get_default_padding (get_default_padding padding size) size = get_default_padding padding size.
Proof. exact default_idempotent. Qed.
Print Assumptions C09_default_idempotent.

Theorem C09_default_negative_adds : forall padding size, 0 <= size -> padding < 0 -> 1024 <= get_default_padding padding size.
Proof. exact default_negative_adds. Qed.
Print Assumptions C09_default_negative_adds.

Theorem C09_default_never_grows_fitting : forall padding size, 0 <= size -> 0 <= padding ->
  get_default_padding padding size <= padding.
Proof. exact default_never_grows_fitting. Qed.
Print Assumptions C09_default_never_grows_fitting.

Example C09_ex_keep : get_default_padding 700 5000000 = 700. Proof. reflexivity. Qed.
Example C09_ex_reduce : get_default_padding 900000 5000000 = 6024. Proof. reflexivity. Qed.
Example C09_ex_add : get_default_padding (-20) 5000000 = 6024. Proof. reflexivity. Qed.
