(* C07 for the MP4 family: saving again is the identity.  Glue only; proofs in proofs/Fam_mp4_whole.v. *)
From Coq Require Import ZArith List Bool Lia.
Import ListNotations.
Require Import Base.Py Base.ZList Model.Splice Model.Fam_mp4.
Require Import Proofs.Fam_mp4_tree Proofs.Fam_mp4_steps Proofs.Fam_mp4_agree Proofs.Fam_mp4_surgery Proofs.Fam_mp4_existing
  Proofs.Fam_mp4_main Proofs.Fam_mp4_new Proofs.Fam_mp4_c10 Proofs.Fam_mp4_whole.
Open Scope Z_scope.

Require Import Gen.Gen_tags.
(* after one save through mp4_save the free atom it wrote is the one found again; saving the same ilst once more is the identity
   whenever the callback, asked again, returns the padding that is there -- for any number of free atoms around ilst *)
Theorem C07_mp4_second_save_identity f ilst_data cb f' atoms path it :
  mp4_wf f = true -> mp4_atoms f = Ok atoms -> mp4_path atoms ILST_PATH = Some path -> mp4_tags_clean atoms = true ->
  ilst_wellformed ilst_data it -> mp4_height it <= 62 -> ma_name it = N_ilst ->
  mp4_save f ilst_data cb = Ok f' ->
  exists off old, mp4_region_of path = Some (off, old) /\
    let written := Z.min MP4_MAXPAD (cb (old - (zlen ilst_data + 8)) (zlen f - (off + old))) in
    (0 <= written -> written + 8 <= 4294967295 ->
     cb written (zlen f - (off + old)) = written ->
     mp4_save f' ilst_data cb = Ok f').
Proof. exact (c07_second_save_identity f ilst_data cb f' atoms path it). Qed.
Print Assumptions C07_mp4_second_save_identity.

(* the default policy (code regenerated from mutagen/_tags.py; Proofs.C09_policy.default_idempotent) is such a callback *)
Theorem C07_mp4_default_second_save_identity f ilst_data f' atoms path it :
  mp4_wf f = true -> mp4_atoms f = Ok atoms -> mp4_path atoms ILST_PATH = Some path -> mp4_tags_clean atoms = true ->
  ilst_wellformed ilst_data it -> mp4_height it <= 62 -> ma_name it = N_ilst ->
  mp4_save f ilst_data mp4_cb_default = Ok f' ->
  exists off old, mp4_region_of path = Some (off, old) /\
    (get_default_padding (old - (zlen ilst_data + 8)) (zlen f - (off + old)) + 8 <= 4294967295 ->
     mp4_save f' ilst_data mp4_cb_default = Ok f').
Proof. exact (c07_default_second_save f ilst_data f' atoms path it). Qed.
Print Assumptions C07_mp4_default_second_save_identity.

Definition c07_two_free : list Z :=
  mp4_build (mkLayout true 2 false (-1) [MHdlr; MFree 100; MFree 200; MIlst] mp4_empty_ilst
               [mkTrak false true [0; 5]] [] (mp4_pattern 16 1) 0 0 false []).
Example C07_mp4_second_save_ex :
  match mp4_save c07_two_free mp4_empty_ilst mp4_cb_default with
  | Ok f1 => match mp4_save f1 mp4_empty_ilst mp4_cb_default with Ok f2 => list_eqb f1 f2 | _ => false end
  | _ => false end = true.
Proof. vm_compute. reflexivity. Qed.
