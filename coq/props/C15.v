(* C15 -- Ogg paging: packets in, same packets out, valid pages.
   Theorems about Model.Ogg (hand-written model of mutagen/ogg.py OggPage, tied to /repo by the
   correspondence run of harness/props/c15.py).  Quantified over every page / packet list / sequence
   number / default_size >= 255 / wiggle_room -- no bound on sizes or counts. *)
From Coq Require Import ZArith List Bool Lia.
Import ListNotations.
Require Import Base.Py Base.ZList Model.Crc Model.Ogg
  Proofs.C15_lacing Proofs.C15_page Proofs.C15_unpage Proofs.C15_paging Proofs.C15_from_packets
  Proofs.C15_refuted Proofs.C15_file Proofs.C15_slot Proofs.C15_replace Proofs.C15_preserve.
Require Import Base.FileModel Gen.Gen_util Proofs.FileLemmas.
Open Scope Z_scope.

(* (a) a page within the Ogg limits (struct ranges, version 0, <= 255 lacing values, `complete` as __init__ would
   derive it) renders; the rendering has length `size` (at most 65307), a correct CRC field, and parses back to the
   same page, leaving exactly the bytes that follow it *)
Theorem C15_page_roundtrip : forall p rest, page_wf p ->
  page_write p = Ok (page_bytes p) /\ zlen (page_bytes p) = page_size p /\ page_size p <= 27 + 255 + 255 * 255 /\
  crc_field_ok (page_bytes p) /\ page_parse (page_bytes p ++ rest) = Ok (p, rest).
Proof. exact page_roundtrip. Qed.
Print Assumptions C15_page_roundtrip.

(* `size` is header + lacing values + data for every page, and write() refuses more than 255 lacing values *)
Theorem C15_page_size : forall p, page_size p = 27 + lacing_count p + data_len (p_packets p).
Proof. exact page_size_spec. Qed.
Print Assumptions C15_page_size.
Theorem C15_write_rejects : forall p, header_ok p = true -> 255 < lacing_count p -> page_write p = Raise EValue.
Proof. exact page_write_too_many. Qed.
Print Assumptions C15_write_rejects.

(* (b) strict reassembly of the pages gives back the packets -- for EVERY non-empty packet list (no bound needed) *)
Theorem C15_paging_roundtrip : forall ps seq ds wr, 255 <= ds -> ps <> [] ->
  rbind (from_packets ds wr ps seq) (to_packets true) = Ok ps.
Proof.
  intros ps seq ds wr H1 H2. destruct (from_packets_spec ps seq ds wr H1 H2) as (pages & E & T & _).
  rewrite E. exact T.
Qed.
Print Assumptions C15_paging_roundtrip.
Theorem C15_paging_empty : forall seq ds wr,
  from_packets ds wr [] seq = Ok [] /\ to_packets true [] = Raise EIndex /\ to_packets false [] = Raise EIndex.
Proof. intros. repeat split; reflexivity. Qed.
Print Assumptions C15_paging_empty.

(* (c1) what every page list of from_packets satisfies, without any bound on the input: consecutive sequence numbers
   from seq, continued = not complete of the predecessor (first page not continued, last page complete), version and
   serial 0, only the continued flag, no empty page, `complete` canonical, position -1 exactly on one-packet
   incomplete pages (else 0), at most bmax data bytes and at most len(ps) packets per page *)
Theorem C15_pages_coherent : forall ps seq ds wr, 255 <= ds -> ps <> [] ->
  exists pages,
    from_packets ds wr ps seq = Ok pages /\ to_packets true pages = Ok ps /\ pages <> [] /\
    seq_from seq pages /\ chain false pages /\ p_complete (last pages new_page) = true /\
    Forall (fp_page_ok ds wr (zlen ps)) pages.
Proof. exact from_packets_spec. Qed.
Print Assumptions C15_pages_coherent.

(* (c2) under the decidable precondition segments_bounded (and 32-bit sequence numbers) every page has at most 255
   lacing values, is well-formed, renders with len = size and a correct CRC, and parses back to itself *)
Theorem C15_pages_valid : forall ps seq ds wr pages, 255 <= ds -> ps <> [] ->
  segments_bounded ps ds wr = true -> 0 <= seq -> seq + zlen pages <= two32 ->
  from_packets ds wr ps seq = Ok pages ->
  Forall (fun p => lacing_count p <= 255 /\ page_wf p /\
                   forall rest, page_write p = Ok (page_bytes p) /\ zlen (page_bytes p) = page_size p /\
                                crc_field_ok (page_bytes p) /\ page_parse (page_bytes p ++ rest) = Ok (p, rest)) pages.
Proof. exact from_packets_pages_valid. Qed.
Print Assumptions C15_pages_valid.

(* (d) without the precondition the statement is false for the code as it is (known finding): the guard of
   from_packets counts packets, not lacing values.  Witnesses: non-empty small packets then a large one; only
   empty packets; a single packet with a huge default_size.  And below default_size 255 the loop does not terminate. *)
Theorem C15_pages_valid_refuted :
  (exists ps, ps <> [] /\ exists pages p, from_packets 4096 2048 ps 0 = Ok pages /\ In p pages /\
              255 < lacing_count p /\ page_write p = Raise EValue /\ Forall (fun d => 0 < zlen d) ps) /\
  (exists ps, ps <> [] /\ exists pages p, from_packets 4096 2048 ps 0 = Ok pages /\ In p pages /\
              255 < lacing_count p /\ page_write p = Raise EValue /\ Forall (fun d => zlen d = 0) ps) /\
  (exists ps ds wr, 255 <= ds /\ zlen ps = 1 /\ exists pages p, from_packets ds wr ps 0 = Ok pages /\ In p pages /\
              255 < lacing_count p /\ page_write p = Raise EValue).
Proof. exact pages_valid_refuted. Qed.
Print Assumptions C15_pages_valid_refuted.
Theorem C15_termination_refuted : exists ps ds wr, 0 <= ds < 255 /\ ps <> [] /\
  (forall seq, from_packets ds wr ps seq = Raise EOutOfFuel) /\
  (forall fuel pr cur, chunks ds wr fuel (hd [] ps) pr cur = Raise EOutOfFuel).
Proof. exact termination_refuted. Qed.
Print Assumptions C15_termination_refuted.

(* (e) renumber, on a file that is a concatenation of rendered well-formed pages: the pages of `serial` from the
   starting page on get consecutive numbers from `start`, nothing else changes (same page count, sizes, other
   streams' bytes) *)
Theorem C15_renumber_spec : forall pre pages serial start,
  Forall page_wf pages -> 0 <= start -> start + zlen pages <= two32 ->
  renumber (pre ++ render_all pages) (zlen pre) serial start =
    (Ok tt, pre ++ render_all (renumber_pages serial start pages)).
Proof. exact renumber_spec. Qed.
Print Assumptions C15_renumber_spec.

(* (e) the slot loop of replace: old pages at their offsets, arbitrary bytes (other streams' pages) between and after
   them; the new renderings land in the slots, every gap is byte-identical and in the same order *)
Theorem C15_replace_slots : forall slots pre,
  slot_loop (pre ++ old_layout slots) (slot_olds (zlen pre) slots) (map slot_new slots) 0 0 =
    (Ok tt, pre ++ new_layout slots, new_end_of (zlen pre) slots).
Proof. exact slot_loop_spec. Qed.
Print Assumptions C15_replace_slots.

(* one iteration of that loop in the model (replace_slot) is exactly `resize_bytes; seek; write` of the Gallina code
   regenerated from mutagen/_util.py (C11), for every copy-buffer size and both seek flavours *)
Theorem C15_slot_is_resize_bytes : forall real part BUF, 1 <= BUF -> forall f p off old data,
  0 <= old -> 0 <= off -> (off + old <= zlen f \/ zlen data = old) ->
  fst (slot_prog BUF off old data (mkF f p (benign real part))) = Ok tt /\
  replace_slot f off old data = Ok (fdata (snd (slot_prog BUF off old data (mkF f p (benign real part))))).
Proof. exact slot_is_resize_bytes. Qed.
Print Assumptions C15_slot_is_resize_bytes.

(* the new pages as replace() prepares them: serial of the old run, numbered from its first page, `first` and
   `continued` of the first old page on the first new page, `last` and `complete` of the last old page on the last *)
Theorem C15_replace_prepare : forall old0 oldl news, news <> [] ->
  let l := prepare_new old0 oldl news in
  zlen l = zlen news /\ seq_from (p_sequence old0) l /\ Forall (fun p => p_serial p = p_serial old0) l /\
  first (hd new_page l) = first old0 /\ continued (hd new_page l) = continued old0 /\
  last_flag (last l new_page) = last_flag oldl /\ p_complete (last l new_page) = p_complete oldl /\
  map p_packets l = map p_packets news.
Proof. exact prepare_new_spec. Qed.
Print Assumptions C15_replace_prepare.

(* (e) replace end to end.  The file is `pre` followed, for each old page, by its rendering and the renderings of the
   well-formed pages G that follow it (other streams; after the last old page: the rest of the file).  old_pages carry
   the offsets they were read from.  The prepared new pages must render (<= 255 lacing values, struct ranges) and the
   renumbering must stay below 2^32.  Result: pre unchanged, new renderings in the slots (surplus new pages merged into
   the last slot, surplus slots empty), every G byte-identical -- except that, when the page count changed, the pages
   of the edited serial after the last slot are renumbered consecutively *)
Theorem C15_replace_spec : forall pre (run : run_t) news,
  run <> [] -> news <> [] ->
  Forall (fun og => Forall page_wf (snd og)) run ->
  let old0 := fst (hd (new_page, []) run) in
  let oldl := fst (last run (new_page, [])) in
  let prepared := prepare_new old0 oldl news in
  Forall (fun p => header_ok p = true /\ lacing_count p <= 255) prepared ->
  0 <= p_sequence old0 -> p_sequence old0 + zlen news + zlen (snd (last run (new_page, []))) <= two32 ->
  let datas := fit_slots (zlen run) (map page_bytes prepared) in
  replace (pre ++ old_layout (mk_slots run datas)) (old_args (zlen pre) run) news =
    (Ok tt,
     pre ++ new_layout (mk_slots (if zlen run =? zlen news then run
                                  else renumber_tail (p_serial old0) (p_sequence old0 + zlen news) run) datas)).
Proof. exact replace_spec. Qed.
Print Assumptions C15_replace_spec.

(* the same on page lists: the file is the rendering of `before ++ [o1] ++ G1 ++ ... ++ [on] ++ Gn` and becomes the
   rendering of `before ++ interleave ...` (one new page per old slot, the rest in the last slot) *)
Theorem C15_replace_pages : forall before (run : run_t) news,
  run <> [] -> news <> [] ->
  Forall (fun og => Forall page_wf (snd og)) run ->
  let old0 := fst (hd (new_page, []) run) in
  let oldl := fst (last run (new_page, [])) in
  let prepared := prepare_new old0 oldl news in
  Forall (fun p => header_ok p = true /\ lacing_count p <= 255) prepared ->
  0 <= p_sequence old0 -> p_sequence old0 + zlen news + zlen (snd (last run (new_page, []))) <= two32 ->
  replace (render_all (before ++ old_pages_of run)) (old_args (zlen (render_all before)) run) news =
    (Ok tt,
     render_all (before ++ interleave (if zlen run =? zlen news then run
                                       else renumber_tail (p_serial old0) (p_sequence old0 + zlen news) run) prepared)).
Proof. exact replace_pages_spec. Qed.
Print Assumptions C15_replace_pages.

(* ... and read by logical stream: every other stream keeps its pages, byte-identical and in order; the edited stream
   consists of the prepared new pages followed by its later pages, numbered consecutively from the first old page's
   number (fewer, equal or more new pages; for an equal count the later pages keep their numbers, which continue
   gaplessly exactly when they did before) *)
Theorem C15_replace_stream_view : forall (a : run_t) on Gn news,
  let run := a ++ [(on, Gn)] in
  let old0 := fst (hd (new_page, []) run) in
  let s := p_serial old0 in
  let prepared := prepare_new old0 on news in
  let result := interleave (if zlen run =? zlen news then run
                            else renumber_tail s (p_sequence old0 + zlen news) run) prepared in
  news <> [] ->
  Forall (fun og => p_serial (fst og) = s) run ->
  Forall (fun og => filter (is_serial s) (snd og) = []) a ->
  (zlen run = zlen news -> seq_from (p_sequence old0 + zlen news) (filter (is_serial s) Gn)) ->
  filter (not_serial s) result = filter (not_serial s) (old_pages_of run) /\
  seq_from (p_sequence old0) (filter (is_serial s) result) /\
  filter (is_serial s) result =
    prepared ++ filter (is_serial s) (if zlen run =? zlen news then Gn
                                      else renumber_pages s (p_sequence old0 + zlen news) Gn).
Proof. exact replace_stream_view. Qed.
Print Assumptions C15_replace_stream_view.

(* (e) _from_packets_try_preserve, the paging entry point of the format writers.  `olds` is any page run that to_packets
   accepts (lax mode: it may start inside a packet).  If the new packets have the old packets' lengths, the pages
   returned have the old layout page by page (sequence, continued, complete, position, per-page packet lengths; serial 0,
   no first/last flag) and reassemble to exactly the packets given; otherwise the call IS
   from_packets(packets, old_pages[0].sequence) with the default page parameters, to which (b), (c1), (c2) apply *)
Theorem C15_try_preserve_same : forall packets olds oldp,
  to_packets false olds = Ok oldp -> map (@zlen Z) packets = map (@zlen Z) oldp ->
  exists news, from_packets_try_preserve packets olds = Ok news /\ Forall2 same_layout news olds /\
               to_packets false news = Ok packets.
Proof. exact try_preserve_same. Qed.
Print Assumptions C15_try_preserve_same.
Theorem C15_try_preserve_fallback : forall packets olds oldp,
  to_packets false olds = Ok oldp -> map (@zlen Z) packets <> map (@zlen Z) oldp ->
  exists o r, olds = o :: r /\ from_packets_try_preserve packets olds = from_packets 4096 2048 packets (p_sequence o).
Proof. exact try_preserve_fallback. Qed.
Print Assumptions C15_try_preserve_fallback.
(* in every relation of the new packets to the old run: same packets out *)
Theorem C15_try_preserve_roundtrip : forall packets olds oldp,
  to_packets false olds = Ok oldp -> packets <> [] ->
  exists news, from_packets_try_preserve packets olds = Ok news /\ to_packets false news = Ok packets.
Proof. exact try_preserve_roundtrip. Qed.
Print Assumptions C15_try_preserve_roundtrip.

(* non-vacuity *)
Example C15_ex_page_wf :
  page_wf (mkPage 0 5 (-1) 4294967295 7 false [[1; 2]; repeat 3 510]) /\
  page_wf (mkPage 0 0 0 0 0 true []) /\ page_wf (mkPage 0 2 77 9 0 true [[]; [1]]).
Proof. unfold page_wf. vm_compute. repeat split; congruence. Qed.
Example C15_ex_bounded :
  segments_bounded [[1]; []; repeat 9 (Z.to_nat 70000)] 4096 2048 = true /\ segments_bounded (repeat [5] 216) 4096 2048 = true /\
  255 <= 4096.
Proof. vm_compute. repeat split; congruence. Qed.
Example C15_ex_paging :
  rmap (map (fun p => (p_sequence p, p_complete p, continued p, p_position p, map (@zlen Z) (p_packets p))))
       (from_packets 255 0 [[1]; repeat 2 600; []] 3) =
  Ok [(3, false, false, 0, [1; 255]); (4, false, true, -1, [255]); (5, true, true, 0, [90; 0])].
Proof. vm_compute. reflexivity. Qed.
(* two old pages of serial 7 (numbers 3, 4) interleaved with serial 9, replaced by ONE new page: the later page of
   serial 7 is renumbered 5 -> 4, the pages of serial 9 are untouched *)
Example C15_ex_replace :
  let mk s q pk := mkPage 0 0 0 s q true [pk] in
  replace (render_all [mk 7 3 [1]; mk 9 0 [2]; mk 7 4 [3]; mk 9 1 [4]; mk 7 5 [5]])
          [(0, mk 7 3 [1]); (58, mk 7 4 [3])] [mk 0 0 [6; 6]] =
  (Ok tt, render_all [mk 7 3 [6; 6]; mk 9 0 [2]; mk 9 1 [4]; mk 7 4 [5]]).
Proof. vm_compute. reflexivity. Qed.
(* old packets of 100 and 200 bytes on two pages, new packets of 150 and 150 bytes (same count, same total): the layout is
   NOT copied, the new packets come back; with the old lengths the two-page layout is kept *)
Example C15_ex_try_preserve :
  let olds := [mkPage 0 0 0 0 7 true [repeat 1 100]; mkPage 0 0 9 0 8 true [repeat 2 200]] in
  rmap (map (fun p => (p_sequence p, p_position p, map (@zlen Z) (p_packets p))))
       (from_packets_try_preserve [repeat 3 150; repeat 4 150] olds) = Ok [(7, 0, [150; 150])] /\
  rmap (map (fun p => (p_sequence p, p_position p, p_packets p)))
       (from_packets_try_preserve [repeat 3 100; repeat 4 200] olds) = Ok [(7, 0, [repeat 3 100]); (8, 9, [repeat 4 200])].
Proof. vm_compute. split; reflexivity. Qed.
