(* C09 for the MP4 family: what the padding callback is called with and what is written.  Glue only. *)
From Coq Require Import ZArith List Bool Lia.
Import ListNotations.
Require Import Base.Py Base.ZList Model.Splice Model.Fam_mp4.
Require Import Proofs.Fam_mp4_tree Proofs.Fam_mp4_steps Proofs.Fam_mp4_agree Proofs.Fam_mp4_surgery Proofs.Fam_mp4_existing
  Proofs.Fam_mp4_main Proofs.Fam_mp4_new Proofs.Fam_mp4_c10 Proofs.Fam_mp4_whole.
Open Scope Z_scope.

Require Import Gen.Gen_tags.
(* the callback is called with (region - (len(ilst) + 8), bytes behind the region); the free atom written holds
   min(result, 2^32 - 1) zero bytes (a negative result gives an empty free atom) *)
Theorem C09_mp4_padding_arithmetic cb f off old ilst_data :
  new_region cb f off old ilst_data =
  ilst_data ++ mp4_render N_free (zeros (Z.min MP4_MAXPAD (cb (old - (zlen ilst_data + 8)) (zlen f - (off + old))))).
Proof. exact (c09_region_form cb f off old ilst_data). Qed.
Print Assumptions C09_mp4_padding_arithmetic.

(* returning info.padding (>= 0): the file keeps its size and every byte outside the tag region stays at its offset *)
Theorem C09_mp4_keep_padding f ilst_data cb f' atoms path :
  mp4_wf f = true -> mp4_atoms f = Ok atoms -> mp4_path atoms ILST_PATH = Some path -> mp4_tags_clean atoms = true ->
  mp4_save f ilst_data cb = Ok f' ->
  exists off old, mp4_region_of path = Some (off, old) /\
    let p := old - (zlen ilst_data + 8) in
    (cb p (zlen f - (off + old)) = p -> 0 <= p -> p + 8 <= 4294967295 ->
       zlen f' = zlen f /\ ztake off f' = ztake off f /\ zdrop (off + old) f' = zdrop (off + old) f).
Proof. exact (c09_keep_padding f ilst_data cb f' atoms path). Qed.
Print Assumptions C09_mp4_keep_padding.

(* the default policy (regenerated from mutagen/_tags.py) is such a callback while the room left is moderate *)
Theorem C09_mp4_default_keeps_moderate p s : 0 <= s -> 0 <= p <= 1024 -> mp4_cb_default p s = p.
Proof. exact (c09_default_keeps_moderate p s). Qed.
Print Assumptions C09_mp4_default_keeps_moderate.
