(* C03 (Ogg family) -- Files stay structurally valid through any edit history.
   ogg_wf: the strict walker accepts the file (every page is, byte for byte, the canonical rendering -- capture pattern,
   version 0, field ranges, at most 255 lacing values, `complete` as the lacing table says, checksum of RFC 3533 in its
   field -- of the page it parses to) and every logical stream passes the walk ogg_f_walk: consecutive sequence numbers
   from the stream's first page, continued <=> the previous page of the stream left a packet open, the first-page flag
   exactly on the first page, no page after a last-page flag, granule position -1 on pages on which no packet ends.
   The theorems hold for all five codecs, every tag set, every padding callback and carry NO size bound: that the new
   pages were renderable (<= 255 lacing values, the known limit of from_packets: C15) and that the sequence numbers
   stay below 2^32 follows from the success of the call (save raises otherwise and the step leaves the file alone). *)
From Coq Require Import ZArith List Bool Lia.
Import ListNotations.
Require Import Base.Py Base.ZList Gen.Gen_tags Model.Crc Model.Ogg Model.Fam_flac Model.Fam_ogg
  Proofs.C15_page Proofs.C15_file Proofs.C15_replace
  Proofs.Fam_ogg_scan Proofs.Fam_ogg_stream Proofs.Fam_ogg_inject Proofs.Fam_ogg_thms Proofs.Fam_ogg_final Proofs.Fam_ogg_examples.
Open Scope Z_scope.

(* the strict walker accepts f with page list l exactly when f is the rendering of the well-formed pages l
   (page_wf, page_bytes, render_all: property C15; every rendered page has a correct checksum: C15_page_roundtrip) *)
Theorem C03_ogg_parse_iff : forall f l, ogg_parse f = Ok l <-> f = render_all l /\ Forall page_wf l.
Proof. exact parse_iff. Qed.
Print Assumptions C03_ogg_parse_iff.

Theorem C03_ogg_wf_layout : forall f, ogg_wf f = true <->
  exists pages, f = render_all pages /\ Forall page_wf pages /\ ogg_f_streams_ok pages = true.
Proof. exact wf_layout. Qed.
Print Assumptions C03_ogg_wf_layout.

(* one step: _inject + OggPage.replace of a tags object holding t (and, for Opus, the preserved tail pad) *)
Theorem C03_ogg_save_obj : forall f c t pad cb f', ogg_wf f = true -> ogg_save_obj f c t pad cb = Ok f' -> ogg_wf f' = true.
Proof. exact save_obj_wf. Qed.
Print Assumptions C03_ogg_save_obj.

Theorem C03_ogg_save : forall f c t cb f', ogg_wf f = true -> ogg_save f c t cb = Ok f' -> ogg_wf f' = true.
Proof. exact save_wf. Qed.
Print Assumptions C03_ogg_save.

Theorem C03_ogg_delete : forall f c f', ogg_wf f = true -> ogg_delete f c = Ok f' -> ogg_wf f' = true.
Proof. exact delete_wf. Qed.
Print Assumptions C03_ogg_delete.

(* lifted to every finite operation sequence (operations that raise leave the file unchanged) *)
Theorem C03_ogg_history : forall c ops f, ogg_wf f = true -> ogg_wf (fold_left (ogg_step c) ops f) = true.
Proof. exact history_wf. Qed.
Print Assumptions C03_ogg_history.

(* header-derived information: in the edited stream s the pages in front of the old comment pages (the identification
   header page among them) are untouched, the pages behind them are the same pages up to their sequence numbers (same
   granule positions, flags, packets), and no other stream gains or loses a page *)
Theorem C03_ogg_stream_view : forall f c t pad cb f', ogg_wf f = true -> ogg_save_obj f c t pad cb = Ok f' ->
  exists pages pages' s A olds news T T',
    ogg_parse f = Ok pages /\ ogg_parse f' = Ok pages' /\ olds <> [] /\ news <> [] /\
    filter (is_serial s) pages = A ++ olds ++ T /\ filter (is_serial s) pages' = A ++ news ++ T' /\
    ogg_unnumbered T' = ogg_unnumbered T /\ zlen (filter (not_serial s) pages') = zlen (filter (not_serial s) pages).
Proof. exact save_obj_stream. Qed.
Print Assumptions C03_ogg_stream_view.

Example C03_ogg_ex_wf : ogg_wf ex_vorbis = true /\ ogg_parse ex_vorbis = Ok ex_vorbis_pages /\
  ogg_load ex_vorbis OVorbis = Ok (ex_old, 3).
Proof. exact ex_vorbis_wf. Qed.
Example C03_ogg_ex_save :
  ogg_save ex_vorbis OVorbis ex_tags (Some (cb_const 2)) = Ok ex_vorbis_saved /\ ogg_wf ex_vorbis_saved = true /\
  ogg_load ex_vorbis_saved OVorbis = Ok (ex_tags, 2) /\ zlen ex_vorbis_saved = zlen ex_vorbis + 7.
Proof. exact ex_vorbis_save. Qed.
Example C03_ogg_ex_history :
  ogg_wf (fold_left (ogg_step OVorbis) [OggSave ex_tags None; OggDelete; OggSave ex_old (Some cb_keep); OggSave ex_tags (Some (cb_const 0)); OggDelete; OggDelete] ex_vorbis) = true.
Proof. exact ex_vorbis_history. Qed.
