(* C04 (ASF) -- Malformed input is rejected cleanly and in bounded time: the mirror of asf.ASF.load
   (HeaderObject.parse_size / parse_full with the object loop, the GUID dispatch and the struct.error /
   UnicodeDecodeError / KeyError mapping; the content description, extended content description, file / stream
   properties, codec list, header extension, metadata and metadata library parsers; the attribute parsers) returns Ok
   or raises EMutagen on EVERY byte string: never struct.error, UnicodeDecodeError, KeyError, OverflowError,
   IndexError, and never EOutOfFuel (the object loop gets 1 * len + 1 rounds -- `C04_ASF_fuel`, by reflexivity --, the
   codec list and header extension loops len(data) + 1).
   A header extension object nested in a header extension object is refused (ASFHeaderError), as a nested header
   object is: the dispatch does not recurse.  (Before that repair the nesting was bounded only by the interpreter's
   recursion limit, and about a thousand nested extensions made ASF.load raise RecursionError.) *)
From Coq Require Import ZArith List Bool Lia.
Import ListNotations.
Require Import Base.Py Model.Parse_base Model.Parse_asf Proofs.C04_lib Proofs.C04_asf.
Open Scope Z_scope.

Theorem C04_ASF_total : forall bytes, c04_input bytes ->
  match asf_load bytes with Ok _ => True | Raise e => e = EMutagen end.
Proof. exact asf_total. Qed.
Print Assumptions C04_ASF_total.
Theorem C04_ASF_fuel : forall bytes,
  asf_load bytes = prun (asf_init (Z.to_nat (1 * zlen bytes + 1))) bytes.
Proof. reflexivity. Qed.
Print Assumptions C04_ASF_fuel.
(* one child of the header object, of any kind, on any bytes: only what parse_full maps, or MutagenError, gets out *)
Theorem C04_ASF_object_cases : forall guid data st,
  Forall (fun x => 0 <= x < 256) data ->
  match asf_parse_obj guid data st with
  | Ok _ => True
  | Raise e => e = EMutagen \/ e = EStruct \/ e = EUnicode \/ e = EKey
  end.
Proof. exact asf_parse_obj_spec. Qed.
Print Assumptions C04_ASF_object_cases.

(* ---- non-vacuity ---- *)
Definition ex_obj (guid payload : list Z) : list Z := guid ++ le_encode 8 (24 + zlen payload) ++ payload.
Definition ex_hdr (n : Z) (body : list Z) : list Z :=
  guid_header ++ le_encode 8 (30 + zlen body) ++ le_encode 4 n ++ [1; 2] ++ body.
Definition ex_ext (inner : list Z) : list Z :=
  guid_hdrext ++ le_encode 8 (46 + zlen inner) ++ repeat 0 16 ++ [6; 0] ++ le_encode 4 (zlen inner) ++ inner.
Fixpoint ex_nest (n : nat) : list Z := match n with O => [] | S k => ex_ext (ex_nest k) end.
Definition ex_fileprop : list Z := ex_obj guid_fileprop (repeat 0 40 ++ le_encode 8 50000000 ++ repeat 0 8 ++ le_encode 8 1000 ++ repeat 0 16).
Definition ex_ecd (typ : Z) (value : list Z) : list Z :=
  ex_obj guid_extcont ([1;0; 4;0; 110;0;0;0; typ;0; zlen value;0] ++ value).
Definition ex_md : list Z := ex_obj guid_metadata [1;0; 0;0; 1;0; 4;0; 3;0; 4;0;0;0; 110;0;0;0; 7;0;0;0].
Example C04_ASF_ex_ok :
  c04_inputb (ex_hdr 3 (ex_fileprop ++ ex_ecd 3 [7;0;0;0] ++ ex_ext ex_md)) = true /\
  asf_load (ex_hdr 3 (ex_fileprop ++ ex_ecd 3 [7;0;0;0] ++ ex_ext ex_md)) = Ok [1; 50000000; 1000; 0; 0; 0; 2; 3; 0] /\
  asf_load (ex_hdr 1 (ex_nest 1)) = Ok [0; 0; 0; 0; 0; 0; 0; 1; 0].            (* an empty header extension *)
Proof. vm_compute. repeat split; reflexivity. Qed.
Example C04_ASF_ex_mapped :
  asf_load (ex_hdr 1 (ex_ecd 3 [7;0;0])) = Raise EMutagen /\             (* DWORD of 3 bytes: struct.error, mapped *)
  asf_load (ex_hdr 1 (ex_ecd 9 [7;0])) = Raise EMutagen /\               (* unknown attribute type: KeyError, mapped *)
  asf_load (ex_hdr 1 (ex_ecd 0 [0;216])) = Raise EMutagen /\             (* lone surrogate: UnicodeDecodeError -> ASFError *)
  asf_load (ex_hdr 2 ex_fileprop) = Raise EMutagen /\                     (* object count beyond the header *)
  asf_load (ex_hdr 1 (ex_obj guid_header [0;0;0;0;0;0])) = Raise EMutagen.   (* nested header object *)
Proof. vm_compute. repeat split; reflexivity. Qed.
(* the shape that used to end in RecursionError: header extensions nested in each other, now refused at the second level *)
Example C04_ASF_ex_nested_extension :
  asf_load (ex_hdr 1 (ex_nest 2)) = Raise EMutagen /\ asf_load (ex_hdr 1 (ex_nest 5)) = Raise EMutagen /\
  asf_load (ex_hdr 1 (ex_nest 40)) = Raise EMutagen /\ asf_load (ex_hdr 1 (ex_ext (ex_md ++ ex_nest 1))) = Raise EMutagen.
Proof. vm_compute. repeat split; reflexivity. Qed.
