(* C02 (APEv2 family) -- save and delete change nothing before the tag start.
   ape_parse segments a file into  pbody | tag region | ptrailer  (ptrailer = the ID3v1 or Lyrics3v2+ID3v1 block
   after the tag).  save keeps pbody and -- the documented exception -- replaces the trailer; delete keeps both.
   For every well-formed f, valid tag set, both seek flavours. *)
From Coq Require Import ZArith List Bool Lia Permutation.
Import ListNotations.
Require Import Base.Py Base.ZList Base.FileModel Gen.Gen_util Model.Sort Model.Fam_ape
  Proofs.FileLemmas Proofs.Fam_ape_codec Proofs.Fam_ape_locate Proofs.Fam_ape_save Proofs.Fam_ape_props Proofs.Fam_ape_examples.
Open Scope Z_scope.

(* mutagen's locator agrees with the strict reader on a well-formed file *)
Theorem C02_ape_locate_agrees : forall real f s, ape_wf f = true -> ape_parse f = Ok s ->
  match ptag s with
  | None => ape_locate real f = Ok None /\ pbody s = f /\ ptrailer s = []
  | Some _ => exists l, ape_locate real f = Ok (Some l) /\ l_at_start l = false /\
                0 <= l_start l /\ l_start l <= l_end l /\ l_end l <= zlen f /\
                pbody s = ztake (l_start l) f /\ ptrailer s = zdrop (l_end l) f
  end.
Proof. exact locate_wf. Qed.
Print Assumptions C02_ape_locate_agrees.

(* a freshly appended tag is found exactly, whatever the body, as long as the body carries no marker
   (clean_tail body; C02_ape_stray_preamble_refuted below shows what happens otherwise) *)
Theorem C02_ape_locate_appended : forall real body items,
  clean_tail body = true -> forallb item_valid items = true -> tag_fits items = true ->
  exists l, ape_locate real (body ++ ape_render_tag items) = Ok (Some l) /\
            l_start l = zlen body /\ l_end l = zlen body + zlen (ape_render_tag items) /\ l_at_start l = false.
Proof. exact locate_appended. Qed.
Print Assumptions C02_ape_locate_appended.

(* the flavour of the file object (BytesIO clamps a negative relative seek to 0, a real file raises IOError) is
   irrelevant on a well-formed file: locator, save, delete and module delete give the same result *)
Theorem C02_ape_locate_flavour_irrelevant : forall f, ape_wf f = true -> ape_locate true f = ape_locate false f.
Proof. exact locate_flavour_wf. Qed.
Print Assumptions C02_ape_locate_flavour_irrelevant.

Theorem C02_ape_flavour_irrelevant : forall f items, ape_wf f = true ->
  ape_locate true f = ape_locate false f /\ ape_save true f items = ape_save false f items /\
  ape_delete true f = ape_delete false f /\ ape_moddelete true f = ape_moddelete false f.
Proof. exact flavour_irrelevant_wf. Qed.
Print Assumptions C02_ape_flavour_irrelevant.

(* the PyMusepack fix-up itself is flavour independent on EVERY file (it never seeks before the file start) *)
Theorem C02_ape_fix_start_flavour_irrelevant : forall k f start, fix_start k true f start = fix_start k false f start.
Proof. exact fix_start_flavour. Qed.
Print Assumptions C02_ape_fix_start_flavour_irrelevant.

Theorem C02_ape_segments : forall f s, ape_wf f = true -> ape_parse f = Ok s ->
  exists tagbytes, f = pbody s ++ tagbytes ++ ptrailer s /\ (ptag s = None -> tagbytes = []).
Proof. exact parse_segments. Qed.
Print Assumptions C02_ape_segments.

Theorem C02_ape_save_spec : forall real f s items, ape_wf f = true -> ape_parse f = Ok s ->
  ape_save real f items = if tag_fits items then Ok (pbody s ++ ape_render_tag items) else Raise EStruct.
Proof. exact save_spec. Qed.
Print Assumptions C02_ape_save_spec.

Theorem C02_ape_save : forall real f s items f',
  ape_wf f = true -> ape_parse f = Ok s -> forallb item_valid items = true -> ape_save real f items = Ok f' ->
  exists s', ape_parse f' = Ok s' /\ pbody s' = pbody s /\ ptrailer s' = [] /\
             ztake (zlen (pbody s)) f' = pbody s /\ zlen f' = zlen (pbody s) + zlen (ape_render_tag items).
Proof. exact C02_save. Qed.
Print Assumptions C02_ape_save.

Theorem C02_ape_delete : forall real f s f',
  ape_wf f = true -> ape_parse f = Ok s -> ape_delete real f = Ok f' ->
  exists s', ape_parse f' = Ok s' /\ pbody s' ++ ptrailer s' = pbody s ++ ptrailer s /\ ptag s' = None /\
             ztake (zlen (pbody s)) f' = pbody s /\ zdrop (zlen (pbody s)) f' = ptrailer s.
Proof. exact C02_delete. Qed.
Print Assumptions C02_ape_delete.

(* the cut is what the regenerated delete_bytes (C11) does to the file object *)
Theorem C02_ape_del_region_is_delete_bytes : forall real part BUF f p size offset, 1 <= BUF ->
  let r := delete_bytes BUF size offset (mkF f p (benign real part)) in
  match del_region f size offset with
  | Ok g => fst r = Ok tt /\ fdata (snd r) = g
  | Raise e => fst r = Raise e /\ fdata (snd r) = f
  end.
Proof. exact del_region_prog. Qed.
Print Assumptions C02_ape_del_region_is_delete_bytes.

(* outside ape_wf: a stray preamble 24 bytes before the tag (PyMusepack) is taken for part of the tag *)
Theorem C02_ape_stray_preamble_refuted : exists f s f',
  ape_parse f = Ok s /\ ape_wf f = false /\ ape_save false f [] = Ok f' /\ ztake (zlen (pbody s)) f' <> pbody s.
Proof. exact stray_preamble_refuted. Qed.
Print Assumptions C02_ape_stray_preamble_refuted.

Example C02_ape_clean_tail_examples : clean_tail audio = true /\ clean_tail (audio ++ id3v1) = true /\ clean_tail pymusepack = false.
Proof. repeat split; vm_compute; reflexivity. Qed.
Example C02_ape_flavour_regressions :
  ape_delete true (APETAGEX ++ ape_render_tag [it_title]) = Ok APETAGEX /\
  ape_delete false (APETAGEX ++ ape_render_tag [it_title]) = Ok APETAGEX /\
  ape_delete true (APETAGEX ++ zeros 24) = Raise EMutagen /\ ape_delete false (APETAGEX ++ zeros 24) = Raise EMutagen.
Proof. repeat split; vm_compute; reflexivity. Qed.
Example C02_ape_documented_exception :
  ape_wf (tagged ++ id3v1) = true /\
  ape_save false (tagged ++ id3v1) [it_url] = Ok (audio ++ ape_render_tag [it_url]) /\
  ape_delete false (tagged ++ id3v1) = Ok (audio ++ id3v1).
Proof. repeat split; vm_compute; reflexivity. Qed.
Example C02_ape_lyrics3_exception :
  ape_wf (tagged ++ lyrics3 ++ id3v1) = true /\
  ape_save true (tagged ++ lyrics3 ++ id3v1) [it_url] = Ok (audio ++ ape_render_tag [it_url]).
Proof. split; vm_compute; reflexivity. Qed.
