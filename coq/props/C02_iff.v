(* C02 (family iff: AIFF / WAVE / DSDIFF) -- saving or deleting the ID3 chunk never alters the other chunks.
   Theorems about Model.Fam_iff (tied to /repo by harness/fam/corr_iff.py).  iff_parse is the strict independent
   reader: it segments a file into form type + chunk list (id, payload, pad byte); `others` is the list without the
   first ID3 chunk (the tag region).  Bookkeeping that may change: the size fields of the ID3 chunk and of the root.
   All files, all tag byte strings, all flavours satisfying fl_ok (aiff, wave, dsdiff: C03_iff_flavours). *)
From Coq Require Import ZArith List Bool Lia.
Import ListNotations.
Require Import Base.Py Base.ZList Model.Splice Model.Fam_iff
  Proofs.Fam_iff_codec Proofs.Fam_iff_chunks Proofs.Fam_iff_walk Proofs.Fam_iff_ops Proofs.Fam_iff_props.
Open Scope Z_scope.

(* save: form type and every other chunk byte-identical (id, payload, pad byte) and in the same order *)
Theorem C02_iff_save : forall fl, fl_ok fl = true -> forall f s tag f',
  iff_parse fl f = Ok s -> iff_save fl f tag = Ok f' ->
  exists s', iff_parse fl f' = Ok s' /\ s_name s' = s_name s /\ others fl (s_chunks s') = others fl (s_chunks s).
Proof. exact iff_save_foreign. Qed.
Print Assumptions C02_iff_save.

(* delete: the chunk list of the result is exactly the old one without its first ID3 chunk *)
Theorem C02_iff_delete : forall fl, fl_ok fl = true -> forall f s f',
  iff_parse fl f = Ok s -> iff_delete fl f = Ok f' ->
  exists s', iff_parse fl f' = Ok s' /\ s_name s' = s_name s /\ s_chunks s' = others fl (s_chunks s).
Proof. exact iff_delete_foreign. Qed.
Print Assumptions C02_iff_delete.

(* where the written chunk is: in place of the old ID3 chunk, or appended after the last chunk *)
Theorem C02_iff_save_position : forall fl, fl_ok fl = true -> forall f s tag f',
  iff_parse fl f = Ok s -> iff_save fl f tag = Ok f' ->
  f' = iff_render fl (save_struct fl s tag) /\
  s_chunks (save_struct fl s tag) =
    match split_id3 fl (s_chunks s) with
    | Some (pre, c, post) => pre ++ mkChunk (cid c) tag (zeros (zlen tag mod 2)) :: post
    | None => s_chunks s ++ [mkChunk (fl_new fl) tag (zeros (zlen tag mod 2))]
    end.
Proof.
  intros fl Hfl f s tag f' Hp Hs. destruct (iff_save_spec fl Hfl f s tag f' Hp Hs) as [_ E].
  split; [exact E|]. unfold save_struct. destruct (split_id3 fl (s_chunks s)) as [[[pre c] post]|]; reflexivity.
Qed.
Print Assumptions C02_iff_save_position.

(* arbitrary sequences of save/delete on a file with at most one ID3 chunk: form type and foreign chunks constant *)
Theorem C02_iff_history : forall fl, fl_ok fl = true -> forall ops f f',
  single fl f -> iff_run fl f ops = Ok f' -> single fl f' /\ iff_foreign fl f' = iff_foreign fl f.
Proof. exact iff_history_foreign. Qed.
Print Assumptions C02_iff_history.

(* with a second ID3 chunk the statement about delete is the one above (the first is removed, the second stays and
   becomes "the" tag chunk): others-after-delete is then not others-before *)
Definition ex_tag (n : Z) : list Z := [73; 68; 51; 4; 0; 0; 0; 0; 0; n] ++ zeros n.
Definition ex_two : list Z :=
  iff_build aiff [65; 73; 70; 70] [(s_ID3 ++ [32], ex_tag 1); ([83; 83; 78; 68], [9]); (s_ID3 ++ [32], ex_tag 2)].
Theorem C02_iff_two_tag_chunks_refuted : exists f f', iff_wf aiff f = true /\ iff_delete aiff f = Ok f' /\
  iff_foreign aiff f' <> iff_foreign aiff f.
Proof. exists ex_two. eexists. split; [vm_compute; reflexivity|]. split; [vm_compute; reflexivity|]. vm_compute. discriminate. Qed.
Print Assumptions C02_iff_two_tag_chunks_refuted.

Definition ex_wave : list Z :=
  iff_build wave s_WAVE [([102; 109; 116; 32], [1]); (s_ID3 ++ [32], ex_tag 3); ([100; 97; 116; 97], [7; 7; 7])].
Example C02_iff_ex_single : exists s, iff_parse wave ex_wave = Ok s /\ count_id3 wave (s_chunks s) <= 1.
Proof. eexists. split; [vm_compute; reflexivity|]. vm_compute. discriminate. Qed.
Example C02_iff_ex_foreign :
  match iff_run wave ex_wave [OSave (ex_tag 0); OSave (ex_tag 9); ODelete; OSave (ex_tag 2)] with
  | Ok f => iff_foreign wave f = iff_foreign wave ex_wave /\ f <> ex_wave | Raise _ => False end.
Proof. vm_compute. split; [reflexivity | discriminate]. Qed.
