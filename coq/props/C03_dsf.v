(* C03 (family dsf) -- DSF files stay structurally valid through any edit history.
   Theorems about Model.Fam_dsf (tied to /repo by harness/fam/corr_dsf.py).  dsf_wf f = true: "DSD " chunk of size 28,
   total size field = file length, fmt (52 bytes) and data chunks tile the file up to the metadata pointer (or EOF),
   pointer 0 or at an ID3v2 header whose tag runs exactly to EOF, header fields are bytes.
   The tag is opaque: the hypothesis id3_tag_exact tag = true says the bytes written at the pointer are one ID3v2 tag
   (header "ID3", syncsafe size = length - 10), which is what ID3._prepare_data returns (C03_dsf_save_prepared needs no
   such hypothesis). *)
From Coq Require Import ZArith List Bool Lia.
Import ListNotations.
Require Import Base.Py Base.ZList Model.Splice Model.Fam_carrier Model.Fam_dsf
  Proofs.Fam_iff_codec Proofs.Fam_iff_chunks Proofs.Fam_dsf_lemmas Proofs.Fam_dsf_props Proofs.Fam_carrier_lemmas Proofs.Fam_dsf_c09.
Open Scope Z_scope.

Theorem C03_dsf_wf_is_render : forall f,
  dsf_wf f = true <-> exists a t, dsf_ok a t = true /\ f = dsf_render a t.
Proof. exact dsf_wf_iff. Qed.
Print Assumptions C03_dsf_wf_is_render.

(* the three header fields of a well-formed file, as mutagen's DSDChunk.load reads them *)
Theorem C03_dsf_header_fields : forall f, dsf_wf f = true ->
  exists ptr, mut_dsd f = Ok (zlen f, ptr) /\ le_decode (zslice 4 12 f) = 28 /\
    (ptr = 0 \/ (92 <= ptr <= zlen f /\ id3_tag_exact (zdrop ptr f) = true)).
Proof. exact dsf_wf_fields. Qed.
Print Assumptions C03_dsf_header_fields.

Theorem C03_dsf_save : forall f tag f',
  dsf_wf f = true -> id3_tag_exact tag = true -> dsf_save f tag = Ok f' -> dsf_wf f' = true.
Proof. exact dsf_save_wf. Qed.
Print Assumptions C03_dsf_save.
Theorem C03_dsf_save_prepared : forall f fd ver cb f',
  dsf_wf f = true -> dsf_save_cb f fd ver cb = Ok f' -> dsf_wf f' = true.
Proof. intros f fd ver cb f' Hw Hs. exact (proj1 (dsf_save_cb_wf f fd ver cb f' Hw Hs)). Qed.
Print Assumptions C03_dsf_save_prepared.
Theorem C03_dsf_delete : forall f f', dsf_wf f = true -> dsf_delete f = Ok f' -> dsf_wf f' = true.
Proof. exact dsf_delete_wf. Qed.
Print Assumptions C03_dsf_delete.

(* the result, exactly: header with total = new length and pointer = end of the data chunk, audio part, tag *)
Theorem C03_dsf_save_exact : forall a t tag, dsf_ok a t = true ->
  dsf_save (dsf_render a t) tag = if fits64 (28 + zlen a + zlen tag) then Ok (dsf_render a (Some tag)) else Raise EStruct.
Proof. exact dsf_save_render. Qed.
Print Assumptions C03_dsf_save_exact.
Theorem C03_dsf_delete_exact : forall a t, dsf_ok a t = true ->
  dsf_delete (dsf_render a t) = if fmt_supported a then Ok (dsf_render a None) else Raise EMutagen.
Proof. exact dsf_delete_render. Qed.
Print Assumptions C03_dsf_delete_exact.

(* success conditions, explicit: the 64-bit total size field; the fmt chunk must be one mutagen's loader accepts *)
Theorem C03_dsf_save_succeeds : forall f tag,
  dsf_wf f = true -> zlen f + zlen tag < 256 ^ 8 -> exists f', dsf_save f tag = Ok f'.
Proof. exact dsf_save_succeeds. Qed.
Print Assumptions C03_dsf_save_succeeds.
Theorem C03_dsf_delete_succeeds : forall f, dsf_wf f = true -> mut_fmt f = Ok tt -> exists f', dsf_delete f = Ok f'.
Proof. exact dsf_delete_succeeds. Qed.
Print Assumptions C03_dsf_delete_succeeds.

(* every finite history of saves (of exact tags) and deletes: well-formed, fmt/data chunk bytes unchanged *)
Theorem C03_dsf_history : forall ops f f', dsf_wf f = true -> Forall op_ok ops -> dsf_run f ops = Ok f' ->
  dsf_wf f' = true /\ rmap d_audio (dsf_parse f') = rmap d_audio (dsf_parse f).
Proof. exact dsf_history. Qed.
Print Assumptions C03_dsf_history.

Definition ex_fmt : list Z := le_encode 4 1 ++ le_encode 4 0 ++ le_encode 4 2 ++ le_encode 4 2 ++ le_encode 4 2822400 ++
  le_encode 4 1 ++ le_encode 8 0 ++ le_encode 4 4096 ++ le_encode 4 0.
Definition ex_tag (n : Z) : list Z := [73; 68; 51; 4; 0; 0; 0; 0; 0; n] ++ zeros n.
Definition ex_dsf : list Z := dsf_build ex_fmt [1; 2; 3] None.
Example C03_dsf_ex_wf : dsf_wf ex_dsf = true /\ zlen ex_dsf = 95 /\ id3_tag_exact (ex_tag 5) = true.
Proof. vm_compute. repeat split. Qed.
Example C03_dsf_ex_history :
  dsf_run ex_dsf [DSave (ex_tag 5); DSave (ex_tag 0); DDelete; DDelete; DSave (ex_tag 2)] = Ok (dsf_build ex_fmt [1; 2; 3] (Some (ex_tag 2))).
Proof. vm_compute. reflexivity. Qed.
Example C03_dsf_ex_fields : match dsf_save ex_dsf (ex_tag 5) with Ok f' => mut_dsd f' = Ok (95 + 15, 95) | Raise _ => False end.
Proof. vm_compute. reflexivity. Qed.
(* what the strict reader rejects: stale total size (the defect fixed in /repo's module delete), pointer not at a tag *)
Example C03_dsf_ex_rejects :
  dsf_wf (dsd_header 110 0 ++ zdrop 28 ex_dsf) = false /\ dsf_wf (dsd_header 95 92 ++ zdrop 28 ex_dsf) = false.
Proof. vm_compute. split; reflexivity. Qed.
