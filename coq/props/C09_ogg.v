(* C09 (Ogg family) -- The padding callback is obeyed.
   (a) the arithmetic of _inject: the callback is asked with info.padding = len(old comment packet) - len(prefix +
   rendered comment (+ framing bit)) and info.size = file size - len(old packet); its answer n is the number of zero
   bytes appended (none for n <= 0); no callback (None) means the default policy (Gen.Gen_tags._get_padding, regenerated
   from mutagen/_tags.py); with an Opus tail to preserve the callback is not consulted and nothing is appended; OggFLAC
   has no padding.  (b) the padding the independent reader measures behind the comment of the new packet is max 0 n:
   C01_ogg_packet / C01_ogg_save_partial state it (restated here for the packet).  (c) a callback that returns the
   padding it is offered reproduces the packet (C07_ogg). *)
From Coq Require Import ZArith List Bool Lia.
Import ListNotations.
Require Import Base.Py Base.ZList Gen.Gen_tags Model.Crc Model.Ogg Model.Fam_flac Model.Fam_ogg
  Proofs.Fam_ogg_c01 Proofs.C09_policy Proofs.Fam_ogg_examples.
Open Scope Z_scope.

Theorem C09_ogg_arithmetic : forall c t pad cb fsize old d, ogg_f_new_packet c t pad cb fsize old = Ok d ->
  vc_valid t = true /\ vc_fits32 t = true /\
  match c with
  | OFlac => zlen (vc_render t) < U32 /\ d = ztake 1 old ++ be_encode 3 (zlen (vc_render t)) ++ vc_render t
  | _ => (c = OOpus /\ pad <> [] /\ d = ogg_vdata c t ++ pad) \/
         ((c <> OOpus \/ pad = []) /\
          d = ogg_vdata c t ++ zeros (_get_padding cb (zlen old - zlen (ogg_vdata c t)) (fsize - zlen old)))
  end.
Proof. exact new_packet_shape. Qed.
Print Assumptions C09_ogg_arithmetic.

Theorem C09_ogg_measured : forall c t pad cb fsize old d, c <> OFlac -> (c = OOpus -> pad = []) ->
  ogg_f_new_packet c t pad cb fsize old = Ok d ->
  ogg_f_decode c d = Ok (t, Z.max 0 (_get_padding cb (zlen old - zlen (ogg_vdata c t)) (fsize - zlen old))).
Proof.
  intros c t pad cb fsize old d Hc Hp H.
  rewrite (new_packet_decode c t pad cb fsize old d H).
  - destruct c; try contradiction; try (destruct pad; reflexivity). rewrite (Hp eq_refl). reflexivity.
  - intros E. left. exact (Hp E).
  - intros E. contradiction.
Qed.
Print Assumptions C09_ogg_measured.

Theorem C09_ogg_no_callback_is_default : forall p s, _get_padding None p s = _get_padding (Some get_default_padding) p s.
Proof. exact no_callback_is_default. Qed.
Print Assumptions C09_ogg_no_callback_is_default.

Example C09_ogg_ex :
  ogg_save ex_vorbis OVorbis ex_tags (Some (cb_const 2)) = Ok ex_vorbis_saved /\ ogg_wf ex_vorbis_saved = true /\
  ogg_load ex_vorbis_saved OVorbis = Ok (ex_tags, 2) /\ zlen ex_vorbis_saved = zlen ex_vorbis + 7.
Proof. exact ex_vorbis_save. Qed.
