(* C09 (Ogg family) -- The padding callback is obeyed.
   (a) the arithmetic of _inject: the callback is asked with info.padding = len(old comment packet) - len(prefix +
   rendered comment (+ framing bit)) and info.size = file size - len(old packet); its answer n is the number of zero
   bytes appended (none for n <= 0); no callback (None) means the default policy (Gen.Gen_tags._get_padding, regenerated
   from mutagen/_tags.py); with an Opus tail to preserve the callback is not consulted and nothing is appended; OggFLAC
   has no padding (and refuses a comment of 2^24 bytes or more).  (b) the padding the independent reader measures behind the comment of the new packet is max 0 n:
   C01_ogg_packet / C01_ogg_save_partial state it (restated here for the packet).  (c) a callback that returns the
   padding it is offered reproduces the packet (C07_ogg). *)
From Coq Require Import ZArith List Bool Lia.
Import ListNotations.
Require Import Base.Py Base.ZList Gen.Gen_tags Model.Crc Model.Ogg Model.Fam_flac Model.Fam_ogg
  Proofs.C15_page Proofs.Fam_ogg_inject Proofs.Fam_ogg_thms Proofs.Fam_ogg_c01 Proofs.Fam_ogg_samesize Proofs.Fam_ogg_c09
  Proofs.C09_policy Proofs.Fam_ogg_examples.
Open Scope Z_scope.

Theorem C09_ogg_arithmetic : forall c t pad cb fsize old d, ogg_f_new_packet c t pad cb fsize old = Ok d ->
  vc_valid t = true /\ vc_fits32 t = true /\
  match c with
  | OFlac => zlen (vc_render t) <= MAXSZ /\ d = ztake 1 old ++ be_encode 3 (zlen (vc_render t)) ++ vc_render t
  | _ => (c = OOpus /\ pad <> [] /\ d = ogg_vdata c t ++ pad) \/
         ((c <> OOpus \/ pad = []) /\
          d = ogg_vdata c t ++ zeros (_get_padding cb (zlen old - zlen (ogg_vdata c t)) (fsize - zlen old)))
  end.
Proof. exact new_packet_shape. Qed.
Print Assumptions C09_ogg_arithmetic.

Theorem C09_ogg_measured : forall c t pad cb fsize old d, c <> OFlac -> (c = OOpus -> pad = []) ->
  ogg_f_new_packet c t pad cb fsize old = Ok d ->
  ogg_f_decode c d = Ok (t, Z.max 0 (_get_padding cb (zlen old - zlen (ogg_vdata c t)) (fsize - zlen old))).
Proof.
  intros c t pad cb fsize old d Hc Hp H.
  rewrite (new_packet_decode c t pad cb fsize old d H).
  - destruct c; try contradiction; try (destruct pad; reflexivity). rewrite (Hp eq_refl). reflexivity.
  - intros E. left. exact (Hp E).
  - intros E. contradiction.
Qed.
Print Assumptions C09_ogg_measured.

Theorem C09_ogg_no_callback_is_default : forall p s, _get_padding None p s = _get_padding (Some get_default_padding) p s.
Proof. exact no_callback_is_default. Qed.
Print Assumptions C09_ogg_no_callback_is_default.

(* (d) a new comment packet of the old length (in particular: a callback that returns the padding it is offered, when
   the new comment fits): every page of the file keeps its size -- hence its offset -- the pages of all other streams
   are the same pages, and the file length is unchanged (files read by the strict walker before and after) *)
Theorem C09_ogg_same_size : forall f c t pad cb f' pages,
  ogg_parse f = Ok pages -> ogg_f_streams_ok pages = true ->
  ogg_save_obj f c t pad cb = Ok f' ->
  exists olds news k,
    cut_ok c t pad cb pages olds news k /\ ogg_parse f' = Ok (cut_result k news) /\
    (c <> OFlac -> zlen (cut_d k) = zlen (cut_p0 k) ->
     Forall2 (fun p p' => page_size p' = page_size p /\ (p_serial p <> cut_s k -> p' = p)) pages (cut_result k news) /\
     zlen f' = zlen f).
Proof. exact save_obj_same_size. Qed.
Print Assumptions C09_ogg_same_size.

Theorem C09_ogg_keep : forall f c t pad f' pages, c <> OFlac -> (c = OOpus -> pad = []) ->
  ogg_parse f = Ok pages -> ogg_f_streams_ok pages = true ->
  ogg_save_obj f c t pad (Some cb_keep) = Ok f' ->
  exists olds news k,
    cut_ok c t pad (Some cb_keep) pages olds news k /\ ogg_parse f' = Ok (cut_result k news) /\
    (zlen (ogg_vdata c t) <= zlen (cut_p0 k) ->
     Forall2 (fun p p' => page_size p' = page_size p /\ (p_serial p <> cut_s k -> p' = p)) pages (cut_result k news) /\
     zlen f' = zlen f).
Proof. exact save_obj_keep. Qed.
Print Assumptions C09_ogg_keep.

Example C09_ogg_ex :
  ogg_save ex_vorbis OVorbis ex_tags (Some (cb_const 2)) = Ok ex_vorbis_saved /\ ogg_wf ex_vorbis_saved = true /\
  ogg_load ex_vorbis_saved OVorbis = Ok (ex_tags, 2) /\ zlen ex_vorbis_saved = zlen ex_vorbis + 7.
Proof. exact ex_vorbis_save. Qed.
