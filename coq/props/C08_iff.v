(* C08 (family iff: AIFF / WAVE / DSDIFF) -- delete removes the ID3 chunk and nothing else.
   Theorems about Model.Fam_iff (iff_delete mirrors IffChunk.delete behind IffID3.delete and the module-level delete
   functions of aiff.py / wave.py / dsdiff.py; tied to /repo by harness/fam/corr_iff.py).
   The hypothesis `count_id3 <= 1` (at most one ID3 chunk) is what the statement needs: delete removes the FIRST
   ID3 chunk only (C08_iff_two_tag_chunks_refuted). *)
From Coq Require Import ZArith List Bool Lia.
Import ListNotations.
Require Import Base.Py Base.ZList Model.Splice Model.Fam_iff
  Proofs.Fam_iff_codec Proofs.Fam_iff_chunks Proofs.Fam_iff_walk Proofs.Fam_iff_ops Proofs.Fam_iff_props.
Open Scope Z_scope.

(* the file loads with no tag chunk afterwards *)
Theorem C08_iff_no_tags : forall fl, fl_ok fl = true -> forall f s f',
  iff_parse fl f = Ok s -> count_id3 fl (s_chunks s) <= 1 -> iff_delete fl f = Ok f' -> iff_load fl f' = Ok None.
Proof. exact iff_load_after_delete. Qed.
Print Assumptions C08_iff_no_tags.

(* the whole chunk goes: header, payload (tag incl. its padding) and pad byte; nothing else changes size *)
Theorem C08_iff_length : forall fl, fl_ok fl = true -> forall f s f',
  iff_parse fl f = Ok s -> iff_delete fl f = Ok f' ->
  zlen f' = zlen f - match split_id3 fl (s_chunks s) with
                     | Some (_, c, _) => hsize fl + zlen (cdata c) + zlen (cpad c)
                     | None => 0
                     end.
Proof. exact iff_delete_length. Qed.
Print Assumptions C08_iff_length.

(* every other chunk stays, byte-identical and in order; the result is well-formed (sizes updated) *)
Theorem C08_iff_rest_unchanged : forall fl, fl_ok fl = true -> forall f s f',
  iff_parse fl f = Ok s -> iff_delete fl f = Ok f' ->
  exists s', iff_parse fl f' = Ok s' /\ s_name s' = s_name s /\ s_chunks s' = others fl (s_chunks s).
Proof. exact iff_delete_foreign. Qed.
Print Assumptions C08_iff_rest_unchanged.

(* deleting again does not change the bytes *)
Theorem C08_iff_delete_twice : forall fl, fl_ok fl = true -> forall f s f',
  iff_parse fl f = Ok s -> count_id3 fl (s_chunks s) <= 1 -> iff_delete fl f = Ok f' -> iff_delete fl f' = Ok f'.
Proof. exact iff_delete_twice. Qed.
Print Assumptions C08_iff_delete_twice.
Theorem C08_iff_delete_untagged : forall fl, fl_ok fl = true -> forall f,
  iff_load fl f = Ok None -> iff_delete fl f = Ok f.
Proof. exact iff_delete_untagged. Qed.
Print Assumptions C08_iff_delete_untagged.

(* delete cannot fail on a well-formed file; new tags can be saved afterwards and are read back *)
Theorem C08_iff_delete_succeeds : forall fl, fl_ok fl = true -> forall f,
  iff_wf fl f = true -> exists f', iff_delete fl f = Ok f' /\ iff_wf fl f' = true.
Proof.
  intros fl Hfl f Hw. destruct (iff_delete_succeeds fl Hfl f Hw) as [f' Hd]. exists f'. split; [exact Hd|].
  eapply iff_delete_wf; eassumption.
Qed.
Print Assumptions C08_iff_delete_succeeds.
Theorem C08_iff_retag : forall fl, fl_ok fl = true -> forall f f' tag f'',
  iff_wf fl f = true -> iff_delete fl f = Ok f' -> iff_save fl f' tag = Ok f'' ->
  iff_wf fl f'' = true /\ iff_load fl f'' = Ok (Some tag).
Proof. exact iff_retag. Qed.
Print Assumptions C08_iff_retag.

(* a second ID3 chunk survives the delete: the file still loads with a tag and a second delete changes it *)
Definition ex_tag (n : Z) : list Z := [73; 68; 51; 4; 0; 0; 0; 0; 0; n] ++ zeros n.
Definition ex_two : list Z :=
  iff_build aiff [65; 73; 70; 70] [(s_ID3 ++ [32], ex_tag 1); ([83; 83; 78; 68], [9]); (s_ID3 ++ [32], ex_tag 2)].
Theorem C08_iff_two_tag_chunks_refuted : exists f f', iff_wf aiff f = true /\ iff_delete aiff f = Ok f' /\
  iff_load aiff f' <> Ok None /\ iff_delete aiff f' <> Ok f'.
Proof.
  exists ex_two. eexists. split; [vm_compute; reflexivity|]. split; [vm_compute; reflexivity|].
  split; vm_compute; discriminate.
Qed.
Print Assumptions C08_iff_two_tag_chunks_refuted.

Definition ex_dff : list Z :=
  iff_build dsdiff [68; 83; 68; 32] [(s_PROP, [83; 78; 68; 32; 5]); (s_ID3 ++ [32], ex_tag 3); ([68; 83; 68; 32], [])].
Example C08_iff_ex : iff_wf dsdiff ex_dff = true /\
  iff_delete dsdiff ex_dff = Ok (iff_build dsdiff [68; 83; 68; 32] [(s_PROP, [83; 78; 68; 32; 5]); ([68; 83; 68; 32], [])]).
Proof. vm_compute. split; reflexivity. Qed.
Example C08_iff_ex_len : match iff_delete dsdiff ex_dff with Ok f' => zlen f' = zlen ex_dff - (12 + 13 + 1) | Raise _ => False end.
Proof. vm_compute. reflexivity. Qed.
