(* C18 -- Type detection is stable under tagging and option order.
   Theorems about mutagen.File's selection (Model.Score, whose shape is re-checked against _file.py by
   py2v) over the score functions that py2v regenerates from /repo on every run (Gen.Gen_scores).
   File names are code-point lists, lower-cased as Python does on the ASCII range; headers are the first
   <= 128 bytes (the theorems hold for any length); `trailer` is what APEv2File.score reads from the end
   of the file (None = IOError).  All of them are universally quantified.

   family k header trailer     what a well-formed file of type k shows before/after tag edits through k
   named_as k fname            fname ends with a usual extension of k, in any letter case
   no_foreign_marker k header  the property's assumption: no sub-string / fixed-offset marker that another
                               type's score looks for occurs in the header                              *)
From Coq Require Import ZArith List Bool Lia Permutation.
Import ListNotations.
Require Import Base.Py Model.ScorePrims Gen.Gen_scores Model.Score
  Proofs.C18_order Proofs.C18_prims Proofs.C18_stable_id3 Proofs.C18_stable_aac Proofs.C18_stable_ogg
  Proofs.C18_stable_chunk Proofs.C18_stable_ape Proofs.C18_stable_sv46 Proofs.C18_nameless_a Proofs.C18_nameless_b Proofs.C18_all.
Open Scope Z_scope.

(* (a) the choice does not depend on the order in which candidate types are listed *)
Theorem C18_order_independent : forall l l' : list (Z * name), Permutation l l' -> choose l = choose l'.
Proof. exact choose_perm. Qed.
Print Assumptions C18_order_independent.

Theorem C18_options_order_independent : forall opts fname header trailer, Permutation opts options ->
  detect_with opts fname header trailer = detect fname header trailer.
Proof. intros. apply detect_with_perm. assumption. Qed.
Print Assumptions C18_options_order_independent.

(* class names are pairwise distinct, with and without easy=True (File's sort never compares classes) *)
Theorem C18_names_distinct : NoDup option_names /\ NoDup option_easy_names.
Proof. exact names_distinct. Qed.
Print Assumptions C18_names_distinct.

(* `results.sort(); results[-1]` is the maximum that `choose` computes *)
Theorem C18_choose_is_sort_last : forall l, choose_sorted l = choose l.
Proof. exact choose_sorted_eq. Qed.
Print Assumptions C18_choose_is_sort_last.

(* (b) stability, one theorem per concrete type *)

Theorem C18_stable_MP3 : forall fname header trailer,
  named_as C_MP3 fname -> family C_MP3 header trailer ->
  no_foreign_marker C_MP3 header = true ->
  detect fname header trailer = Some (cls_name C_MP3).
Proof. intros fname header trailer Hn Hf Hm. exact (proj1 (stable_MP3 fname header trailer Hn Hf Hm)). Qed.
Print Assumptions C18_stable_MP3.

Theorem C18_stable_TrueAudio : forall fname header trailer,
  named_as C_TrueAudio fname -> family C_TrueAudio header trailer ->
  detect fname header trailer = Some (cls_name C_TrueAudio).
Proof. intros fname header trailer Hn Hf. exact (proj1 (stable_TrueAudio fname header trailer Hn Hf)). Qed.
Print Assumptions C18_stable_TrueAudio.

Theorem C18_stable_OggTheora : forall fname header trailer,
  named_as C_OggTheora fname -> family C_OggTheora header trailer ->
  detect fname header trailer = Some (cls_name C_OggTheora).
Proof. intros fname header trailer Hn Hf. exact (proj1 (stable_OggTheora fname header trailer Hn Hf)). Qed.
Print Assumptions C18_stable_OggTheora.

Theorem C18_stable_OggSpeex : forall fname header trailer,
  named_as C_OggSpeex fname -> family C_OggSpeex header trailer ->
  no_foreign_marker C_OggSpeex header = true ->
  detect fname header trailer = Some (cls_name C_OggSpeex).
Proof. intros fname header trailer Hn Hf Hm. exact (proj1 (stable_OggSpeex fname header trailer Hn Hf Hm)). Qed.
Print Assumptions C18_stable_OggSpeex.

Theorem C18_stable_OggVorbis : forall fname header trailer,
  named_as C_OggVorbis fname -> family C_OggVorbis header trailer ->
  no_foreign_marker C_OggVorbis header = true ->
  detect fname header trailer = Some (cls_name C_OggVorbis).
Proof. intros fname header trailer Hn Hf Hm. exact (proj1 (stable_OggVorbis fname header trailer Hn Hf Hm)). Qed.
Print Assumptions C18_stable_OggVorbis.

Theorem C18_stable_OggFLAC : forall fname header trailer,
  named_as C_OggFLAC fname -> family C_OggFLAC header trailer ->
  no_foreign_marker C_OggFLAC header = true ->
  detect fname header trailer = Some (cls_name C_OggFLAC).
Proof. intros fname header trailer Hn Hf Hm. exact (proj1 (stable_OggFLAC fname header trailer Hn Hf Hm)). Qed.
Print Assumptions C18_stable_OggFLAC.

Theorem C18_stable_OggOpus : forall fname header trailer,
  named_as C_OggOpus fname -> family C_OggOpus header trailer ->
  no_foreign_marker C_OggOpus header = true ->
  detect fname header trailer = Some (cls_name C_OggOpus).
Proof. intros fname header trailer Hn Hf Hm. exact (proj1 (stable_OggOpus fname header trailer Hn Hf Hm)). Qed.
Print Assumptions C18_stable_OggOpus.

Theorem C18_stable_FLAC : forall fname header trailer,
  named_as C_FLAC fname -> family C_FLAC header trailer ->
  detect fname header trailer = Some (cls_name C_FLAC).
Proof. intros fname header trailer Hn Hf. exact (proj1 (stable_FLAC fname header trailer Hn Hf)). Qed.
Print Assumptions C18_stable_FLAC.

Theorem C18_stable_AIFF : forall fname header trailer,
  named_as C_AIFF fname -> family C_AIFF header trailer ->
  detect fname header trailer = Some (cls_name C_AIFF).
Proof. intros fname header trailer Hn Hf. exact (proj1 (stable_AIFF fname header trailer Hn Hf)). Qed.
Print Assumptions C18_stable_AIFF.

Theorem C18_stable_MP4 : forall fname header trailer,
  named_as C_MP4 fname -> family C_MP4 header trailer ->
  no_foreign_marker C_MP4 header = true ->
  detect fname header trailer = Some (cls_name C_MP4).
Proof. intros fname header trailer Hn Hf Hm. exact (proj1 (stable_MP4 fname header trailer Hn Hf Hm)). Qed.
Print Assumptions C18_stable_MP4.

Theorem C18_stable_WavPack : forall fname header trailer,
  named_as C_WavPack fname -> family C_WavPack header trailer ->
  detect fname header trailer = Some (cls_name C_WavPack).
Proof. intros fname header trailer Hn Hf. exact (proj1 (stable_WavPack fname header trailer Hn Hf)). Qed.
Print Assumptions C18_stable_WavPack.

Theorem C18_stable_Musepack : forall fname header trailer,
  named_as C_Musepack fname -> family C_Musepack header trailer ->
  detect fname header trailer = Some (cls_name C_Musepack).
Proof. intros fname header trailer Hn Hf. exact (proj1 (stable_Musepack fname header trailer Hn Hf)). Qed.
Print Assumptions C18_stable_Musepack.

Theorem C18_stable_MonkeysAudio : forall fname header trailer,
  named_as C_MonkeysAudio fname -> family C_MonkeysAudio header trailer ->
  detect fname header trailer = Some (cls_name C_MonkeysAudio).
Proof. intros fname header trailer Hn Hf. exact (proj1 (stable_MonkeysAudio fname header trailer Hn Hf)). Qed.
Print Assumptions C18_stable_MonkeysAudio.

Theorem C18_stable_OptimFROG : forall fname header trailer,
  named_as C_OptimFROG fname -> family C_OptimFROG header trailer ->
  detect fname header trailer = Some (cls_name C_OptimFROG).
Proof. intros fname header trailer Hn Hf. exact (proj1 (stable_OptimFROG fname header trailer Hn Hf)). Qed.
Print Assumptions C18_stable_OptimFROG.

Theorem C18_stable_ASF : forall fname header trailer,
  named_as C_ASF fname -> family C_ASF header trailer ->
  no_foreign_marker C_ASF header = true ->
  detect fname header trailer = Some (cls_name C_ASF).
Proof. intros fname header trailer Hn Hf Hm. exact (proj1 (stable_ASF fname header trailer Hn Hf Hm)). Qed.
Print Assumptions C18_stable_ASF.

Theorem C18_stable_AAC : forall fname header trailer,
  named_as C_AAC fname -> family C_AAC header trailer ->
  no_foreign_marker C_AAC header = true ->
  detect fname header trailer = Some (cls_name C_AAC).
Proof. intros fname header trailer Hn Hf Hm. exact (proj1 (stable_AAC fname header trailer Hn Hf Hm)). Qed.
Print Assumptions C18_stable_AAC.

Theorem C18_stable_AC3 : forall fname header trailer,
  named_as C_AC3 fname -> family C_AC3 header trailer ->
  no_foreign_marker C_AC3 header = true ->
  detect fname header trailer = Some (cls_name C_AC3).
Proof. intros fname header trailer Hn Hf Hm. exact (proj1 (stable_AC3 fname header trailer Hn Hf Hm)). Qed.
Print Assumptions C18_stable_AC3.

Theorem C18_stable_SMF : forall fname header trailer,
  named_as C_SMF fname -> family C_SMF header trailer ->
  no_foreign_marker C_SMF header = true ->
  detect fname header trailer = Some (cls_name C_SMF).
Proof. intros fname header trailer Hn Hf Hm. exact (proj1 (stable_SMF fname header trailer Hn Hf Hm)). Qed.
Print Assumptions C18_stable_SMF.

Theorem C18_stable_TAK : forall fname header trailer,
  named_as C_TAK fname -> family C_TAK header trailer ->
  detect fname header trailer = Some (cls_name C_TAK).
Proof. intros fname header trailer Hn Hf. exact (proj1 (stable_TAK fname header trailer Hn Hf)). Qed.
Print Assumptions C18_stable_TAK.

Theorem C18_stable_DSF : forall fname header trailer,
  named_as C_DSF fname -> family C_DSF header trailer ->
  detect fname header trailer = Some (cls_name C_DSF).
Proof. intros fname header trailer Hn Hf. exact (proj1 (stable_DSF fname header trailer Hn Hf)). Qed.
Print Assumptions C18_stable_DSF.

Theorem C18_stable_DSDIFF : forall fname header trailer,
  named_as C_DSDIFF fname -> family C_DSDIFF header trailer ->
  no_foreign_marker C_DSDIFF header = true ->
  detect fname header trailer = Some (cls_name C_DSDIFF).
Proof. intros fname header trailer Hn Hf Hm. exact (proj1 (stable_DSDIFF fname header trailer Hn Hf Hm)). Qed.
Print Assumptions C18_stable_DSDIFF.

Theorem C18_stable_WAVE : forall fname header trailer,
  named_as C_WAVE fname -> family C_WAVE header trailer ->
  detect fname header trailer = Some (cls_name C_WAVE).
Proof. intros fname header trailer Hn Hf. exact (proj1 (stable_WAVE fname header trailer Hn Hf)). Qed.
Print Assumptions C18_stable_WAVE.

(* Musepack SV4-SV6 streams have no magic: recognised by the extension when nothing else matches *)
Theorem C18_stable_Musepack_sv46 : forall fname header trailer,
  named_as C_Musepack fname -> no_known_magic header = true -> no_foreign_marker C_Musepack header = true ->
  detect fname header trailer = Some (cls_name C_Musepack) /\
  detect_easy fname header trailer = Some (easy_name C_Musepack).
Proof. exact stable_Musepack_sv46. Qed.
Print Assumptions C18_stable_Musepack_sv46.

(* all of them at once: which types use the marker assumption is Model.Score.assumes_no_foreign_marker *)
Theorem C18_stable : forall k fname header trailer,
  named_as k fname -> family k header trailer -> marker_assumption (assumes_no_foreign_marker k) k header ->
  detect fname header trailer = Some (cls_name k).
Proof. intros k fname header trailer Hn Hf Hm. exact (proj1 (stable_all k fname header trailer Hn Hf Hm)). Qed.
Print Assumptions C18_stable.

(* (c) easy=True picks the Easy counterpart of the same type (EasyMP3, EasyTrueAudio, EasyMP4; the type
   itself where there is no Easy wrapper) *)
Theorem C18_easy_counterpart : forall k fname header trailer,
  named_as k fname -> family k header trailer -> marker_assumption (assumes_no_foreign_marker k) k header ->
  detect_easy fname header trailer = Some (easy_name k).
Proof. intros k fname header trailer Hn Hf Hm. exact (proj2 (stable_all k fname header trailer Hn Hf Hm)). Qed.
Print Assumptions C18_easy_counterpart.

(* nameless streams, for the types whose magic stays at offset 0 whatever tags are added *)
Theorem C18_nameless : forall k header trailer,
  family0 k header trailer -> marker_assumption (assumes_no_foreign_marker0 k) k header ->
  detect [] header trailer = Some (cls_name k) /\ detect_easy [] header trailer = Some (easy_name k).
Proof. intros k header trailer Hf Hm. exact (nameless_all k header trailer Hf Hm). Qed.
Print Assumptions C18_nameless.


(* non-vacuity: concrete inputs satisfying the hypotheses, evaluated *)

Example C18_ex_FLAC_upper :
  named_as C_FLAC [65; 46; 70; 76; 65; 67] /\
  family C_FLAC [102; 76; 97; 67; 0; 0; 0; 34; 18; 0; 18; 0] None /\
  detect [65; 46; 70; 76; 65; 67] [102; 76; 97; 67; 0; 0; 0; 34; 18; 0; 18; 0] None = Some (cls_name C_FLAC) /\
  detect_easy [65; 46; 70; 76; 65; 67] [102; 76; 97; 67; 0; 0; 0; 34; 18; 0; 18; 0] None = Some (easy_name C_FLAC).
Proof.
  split; [eexists; split; [left; reflexivity | vm_compute; reflexivity]|]. split; [left; vm_compute; reflexivity|]. split; [vm_compute; reflexivity|]. vm_compute; reflexivity.
Qed.

Example C18_ex_MP3_tagged_with_ape :
  named_as C_MP3 [120; 46; 77; 112; 51] /\
  family C_MP3 [73; 68; 51; 4; 0; 0; 0; 0; 2; 1; 84; 73; 84; 50; 0; 0; 0; 5] (Some [65; 80; 69; 84; 65; 71; 69; 88; 208; 7; 0; 0]) /\
  no_foreign_marker C_MP3 [73; 68; 51; 4; 0; 0; 0; 0; 2; 1; 84; 73; 84; 50; 0; 0; 0; 5] = true /\
  detect [120; 46; 77; 112; 51] [73; 68; 51; 4; 0; 0; 0; 0; 2; 1; 84; 73; 84; 50; 0; 0; 0; 5] (Some [65; 80; 69; 84; 65; 71; 69; 88; 208; 7; 0; 0]) = Some (cls_name C_MP3) /\
  detect_easy [120; 46; 77; 112; 51] [73; 68; 51; 4; 0; 0; 0; 0; 2; 1; 84; 73; 84; 50; 0; 0; 0; 5] (Some [65; 80; 69; 84; 65; 71; 69; 88; 208; 7; 0; 0]) = Some (easy_name C_MP3).
Proof.
  split; [eexists; split; [left; reflexivity | vm_compute; reflexivity]|]. split; [left; vm_compute; reflexivity|]. split; [vm_compute; reflexivity|]. split; [vm_compute; reflexivity|]. vm_compute; reflexivity.
Qed.

Example C18_ex_MP3_mpeg25_untagged :
  named_as C_MP3 [97; 46; 77; 80; 69; 71] /\
  family C_MP3 [255; 227; 24; 196; 0; 0; 0] (Some [84; 65; 71]) /\
  no_foreign_marker C_MP3 [255; 227; 24; 196; 0; 0; 0] = true /\
  detect [97; 46; 77; 80; 69; 71] [255; 227; 24; 196; 0; 0; 0] (Some [84; 65; 71]) = Some (cls_name C_MP3) /\
  detect_easy [97; 46; 77; 80; 69; 71] [255; 227; 24; 196; 0; 0; 0] (Some [84; 65; 71]) = Some (easy_name C_MP3).
Proof.
  split; [eexists; split; [right; right; right; left; reflexivity | vm_compute; reflexivity]|]. split; [right; vm_compute; reflexivity|]. split; [vm_compute; reflexivity|]. split; [vm_compute; reflexivity|]. vm_compute; reflexivity.
Qed.

Example C18_ex_OggVorbis :
  named_as C_OggVorbis [122; 46; 79; 71; 71] /\
  family C_OggVorbis [79; 103; 103; 83; 0; 2; 0; 0; 0; 0; 0; 0; 0; 0; 1; 0; 0; 0; 0; 0; 0; 0; 0; 0; 0; 0; 1; 30; 1; 118; 111; 114; 98; 105; 115; 0; 0; 0; 0; 2; 68; 172; 0; 0] (Some []) /\
  no_foreign_marker C_OggVorbis [79; 103; 103; 83; 0; 2; 0; 0; 0; 0; 0; 0; 0; 0; 1; 0; 0; 0; 0; 0; 0; 0; 0; 0; 0; 0; 1; 30; 1; 118; 111; 114; 98; 105; 115; 0; 0; 0; 0; 2; 68; 172; 0; 0] = true /\
  detect [122; 46; 79; 71; 71] [79; 103; 103; 83; 0; 2; 0; 0; 0; 0; 0; 0; 0; 0; 1; 0; 0; 0; 0; 0; 0; 0; 0; 0; 0; 0; 1; 30; 1; 118; 111; 114; 98; 105; 115; 0; 0; 0; 0; 2; 68; 172; 0; 0] (Some []) = Some (cls_name C_OggVorbis) /\
  detect_easy [122; 46; 79; 71; 71] [79; 103; 103; 83; 0; 2; 0; 0; 0; 0; 0; 0; 0; 0; 1; 0; 0; 0; 0; 0; 0; 0; 0; 0; 0; 0; 1; 30; 1; 118; 111; 114; 98; 105; 115; 0; 0; 0; 0; 2; 68; 172; 0; 0] (Some []) = Some (easy_name C_OggVorbis).
Proof.
  split; [eexists; split; [left; reflexivity | vm_compute; reflexivity]|]. split; [vm_compute; split; reflexivity|]. split; [vm_compute; reflexivity|]. split; [vm_compute; reflexivity|]. vm_compute; reflexivity.
Qed.

Example C18_ex_TrueAudio_id3 :
  named_as C_TrueAudio [101; 46; 116; 116; 97] /\
  family C_TrueAudio [73; 68; 51; 3; 0; 0; 0; 0; 15; 118] None /\
  detect [101; 46; 116; 116; 97] [73; 68; 51; 3; 0; 0; 0; 0; 15; 118] None = Some (cls_name C_TrueAudio) /\
  detect_easy [101; 46; 116; 116; 97] [73; 68; 51; 3; 0; 0; 0; 0; 15; 118] None = Some (easy_name C_TrueAudio).
Proof.
  split; [eexists; split; [left; reflexivity | vm_compute; reflexivity]|]. split; [left; vm_compute; reflexivity|]. split; [vm_compute; reflexivity|]. vm_compute; reflexivity.
Qed.

Example C18_ex_MP4_no_mp4_brand :
  named_as C_MP4 [78; 79; 45; 84; 65; 71; 83; 46; 51; 71; 50] /\
  family C_MP4 [0; 0; 0; 24; 102; 116; 121; 112; 51; 103; 50; 97; 0; 1; 0; 0] (Some []) /\
  no_foreign_marker C_MP4 [0; 0; 0; 24; 102; 116; 121; 112; 51; 103; 50; 97; 0; 1; 0; 0] = true /\
  detect [78; 79; 45; 84; 65; 71; 83; 46; 51; 71; 50] [0; 0; 0; 24; 102; 116; 121; 112; 51; 103; 50; 97; 0; 1; 0; 0] (Some []) = Some (cls_name C_MP4) /\
  detect_easy [78; 79; 45; 84; 65; 71; 83; 46; 51; 71; 50] [0; 0; 0; 24; 102; 116; 121; 112; 51; 103; 50; 97; 0; 1; 0; 0] (Some []) = Some (easy_name C_MP4).
Proof.
  split; [eexists; split; [right; right; right; right; right; right; right; left; reflexivity | vm_compute; reflexivity]|]. split; [vm_compute; split; reflexivity|]. split; [vm_compute; reflexivity|]. split; [vm_compute; reflexivity|]. vm_compute; reflexivity.
Qed.


Example C18_ex_Musepack_sv4 :
  named_as C_Musepack [83; 86; 52; 46; 77; 80; 67] /\ no_known_magic [193; 39; 32; 0; 1] = true /\
  no_foreign_marker C_Musepack [193; 39; 32; 0; 1] = true /\
  detect [83; 86; 52; 46; 77; 80; 67] [193; 39; 32; 0; 1] (Some [65; 80; 69; 84; 65; 71; 69; 88]) = Some (cls_name C_Musepack).
Proof.
  split; [eexists; split; [left; reflexivity | vm_compute; reflexivity]|].
  split; [vm_compute; reflexivity|]. split; vm_compute; reflexivity.
Qed.

(* the hypotheses are needed (each witness is a concrete input on which the regenerated selection picks
   another type) *)
(* an ASF header followed by "ftyp" and "mp4": MP4 ties at 2 and wins on the name *)
Example C18_marker_assumption_needed : exists fname header trailer,
  named_as C_ASF fname /\ family C_ASF header trailer /\ detect fname header trailer = Some (cls_name C_MP4).
Proof.
  exists [97; 46; 119; 109; 97], [48; 38; 178; 117; 142; 102; 207; 17; 166; 217; 0; 170; 0; 98; 206; 108; 102; 116; 121; 112; 109; 112; 52], None.
  split; [eexists; split; [left; reflexivity | vm_compute; reflexivity]|].
  split; vm_compute; reflexivity.
Qed.
(* an ADTS stream named .aac that carries an APEv2 tag is taken for the generic APEv2File *)
Example C18_AAC_without_ape_needed : exists fname header trailer,
  named_as C_AAC fname /\ (starts [255; 241] header) /\ no_foreign_marker C_AAC header = true /\
  detect fname header trailer = Some (cls_name C_APEv2File).
Proof.
  exists [97; 46; 97; 97; 99], [255; 241; 80; 128], (Some [65; 80; 69; 84; 65; 71; 69; 88]).
  split; [eexists; split; [left; reflexivity | vm_compute; reflexivity]|].
  split; [vm_compute; reflexivity|]. split; vm_compute; reflexivity.
Qed.
(* the marker assumption is about ALL of the first 128 bytes, not only tag text: an untagged MPEG-2.5
   stream whose audio bytes contain "mp4" is taken for MP4 *)
Example C18_MP3_marker_in_audio_bytes : exists fname header trailer,
  named_as C_MP3 fname /\ family C_MP3 header trailer /\ detect fname header trailer = Some (cls_name C_MP4).
Proof.
  exists [97; 46; 109; 112; 51], [255; 227; 24; 196; 109; 112; 52], None.
  split; [eexists; split; [left; reflexivity | vm_compute; reflexivity]|].
  split; [right; vm_compute; reflexivity | vm_compute; reflexivity].
Qed.
(* outside the families easy=True need not pick the counterpart: "fLaC" data named .mp3 *)
Example C18_easy_differs_outside_families : exists fname header trailer,
  detect fname header trailer = Some (cls_name C_MP3) /\ detect_easy fname header trailer = Some (cls_name C_FLAC).
Proof. exists [97; 46; 109; 112; 51], [102; 76; 97; 67], None. split; vm_compute; reflexivity. Qed.
(* the generic ID3FileType is never chosen from the default options: MP3 always outscores it *)
Example C18_ID3FileType_shadowed :
  detect [105; 115; 115; 117; 101; 95; 50; 49; 46; 105; 100; 51] [73; 68; 51; 3; 0; 0; 0; 0; 0; 0] None = Some (cls_name C_MP3).
Proof. vm_compute; reflexivity. Qed.
