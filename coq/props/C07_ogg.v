(* C07 (Ogg family) -- Saving unchanged tags is idempotent: `_partial`, at the level of the comment packet.
   Saving the same tags over the packet a save has just written gives the same packet when the callback keeps the
   padding it is offered (cb_keep), and with the default policy when that padding is moderate (0..1024 bytes).
   With an equal packet the packet lengths match, _from_packets_try_preserve copies the page layout and replace()
   overwrites page by page; byte identity of the whole FILE after the second save is not proved here (it needs the
   fact that the first save's pages are reproduced by the layout copy) -- the harness checks it on every sample
   and after every history (shared c07_scenario: saves 2 and 3 byte-identical). *)
From Coq Require Import ZArith List Bool Lia.
Import ListNotations.
Require Import Base.Py Base.ZList Gen.Gen_tags Model.Crc Model.Ogg Model.Fam_flac Model.Fam_ogg
  Proofs.Fam_ogg_c01 Proofs.Fam_ogg_c07.
Open Scope Z_scope.

Theorem C07_ogg_packet_keep_partial : forall c t pad cb fsize fsize' old d, c <> OFlac ->
  ogg_f_new_packet c t pad cb fsize old = Ok d ->
  ogg_f_new_packet c t pad (Some cb_keep) fsize' d = Ok d.
Proof. exact resave_packet_keep. Qed.
Print Assumptions C07_ogg_packet_keep_partial.

Theorem C07_ogg_packet_default_partial : forall c t pad fsize' n, c <> OFlac -> vc_valid t = true -> vc_fits32 t = true ->
  (c = OOpus -> pad = []) ->
  0 <= n <= 1024 -> zlen (ogg_vdata c t) + n <= fsize' ->
  ogg_f_new_packet c t pad None fsize' (ogg_vdata c t ++ zeros n) = Ok (ogg_vdata c t ++ zeros n).
Proof. exact resave_packet_default. Qed.
Print Assumptions C07_ogg_packet_default_partial.

Example C07_ogg_ex : exists d, ogg_f_new_packet OVorbis (mkVC [118] [([97], [98])]) [] (Some (cb_const 3)) 100 [1; 2; 3] = Ok d /\
  ogg_f_new_packet OVorbis (mkVC [118] [([97], [98])]) [] (Some cb_keep) 200 d = Ok d.
Proof. eexists. split; reflexivity. Qed.
