(* C01 (ASF): saved attributes read back exactly, under an independent reading of the format.
   asf_load is the strict reader written from the layout of the four tag objects (not mutagen's parser).
   valid_attr: name and UNICODE value do not end in a NUL code unit (the format's strings are NUL-terminated; mutagen
   strips NULs at both ends on load).  Integer ranges, 16-bit name/count/stream/language fields and the length limits
   are exactly the conditions under which asf_save does not raise (place_packs), so they are implied by
   `asf_save ... = Ok f'`.  Canonical form: values are grouped by the header object that can hold them (`place`, the
   mirror of the placement loop of ASF.save); ContentDescription keeps the fixed order of its five fields; language
   and stream read back as 0 where the object has no such field or the attribute had none (`oz`). *)
From Coq Require Import ZArith List Bool Lia.
Import ListNotations.
Require Import Base.Py Base.ZList Model.Fam_asf Proofs.Fam_asf_codec Proofs.Fam_asf_save Proofs.Fam_asf_agree
  Proofs.Fam_asf_attr Proofs.Fam_asf_reopen Proofs.Fam_asf_c01 Proofs.Fam_asf_canon.
Open Scope Z_scope.

(* codecs: every value type, in both layouts (dword = ExtendedContentDescription: BOOL is 4 bytes; otherwise 2) *)
Theorem C01_asf_value_codec : forall v (dword : bool), valid_val v -> val_packs v = true ->
  dec_val (vtype v) (render_val v dword) (if dword then 4 else 2) = Ok v.
Proof. exact dec_val_round. Qed.
Print Assumptions C01_asf_value_codec.

Theorem C01_asf_le_codec : forall n v, 0 <= v < 256 ^ Z.of_nat n -> le_decode (le_encode n v) = v.
Proof. exact le_round. Qed.
Print Assumptions C01_asf_le_codec.

(* every tag object of the saved file decodes to exactly the attributes the placement assigned to its class, in order:
   the loaded list is the concatenation over the objects of the file (in file order) of those lists *)
Theorem C01_asf_save_load : forall f t cb f', Forall valid_attr t -> asf_save f t cb = Ok f' ->
  exists objs ts, asf_open f = Ok (objs, ts) /\
    asf_load f' = Ok (flat_map (exp_obj (place t)) (saved_objs objs)).
Proof. exact asf_save_load. Qed.
Print Assumptions C01_asf_save_load.

(* exp_obj in the model's own words: per object class the four lists of placed_tags *)
Theorem C01_asf_exp_is_placed : forall P, cd_texts_ok P ->
  let '(c0, c1, c2, c3) := placed_tags P in
  forall c, exp_raw P c = match cls_of (fst c) with KCD => c0 | KECD => c1 | KMETA => c2 | KLIB => c3 | _ => [] end.
Proof. exact exp_raw_placed. Qed.
Print Assumptions C01_asf_exp_is_placed.

(* nothing is invented and nothing is lost: the loaded attributes are, as a set, the placed ones ... *)
Theorem C01_asf_same_set : forall f t cb f', Forall valid_attr t -> asf_save f t cb = Ok f' ->
  exists loaded, asf_load f' = Ok loaded /\ forall tg, In tg loaded <-> In tg (all_placed (place t)).
Proof. exact asf_save_load_set. Qed.
Print Assumptions C01_asf_same_set.

(* ... and every attribute of the tag list is read back with its name, type, value and (in the Metadata objects)
   stream / language, from one of the four objects *)
Theorem C01_asf_all_read_back : forall f t cb f', Forall valid_attr t -> asf_save f t cb = Ok f' ->
  exists loaded, asf_load f' = Ok loaded /\
    forall a, In a t -> exists k, (k = 0 \/ k = 1 \/ k = 2 \/ k = 3) /\ In (attr_tag k a) loaded.
Proof. exact asf_save_load_all. Qed.
Print Assumptions C01_asf_all_read_back.

(* exact form on files that respect the cardinality / level rules of the specification (asf_canon: CD, ECD, header
   extension at most once, at top level; Metadata, MetadataLibrary at most once, inside the header extension):
   class by class, the independent reader finds exactly the placed lists, in order, each once *)
Theorem C01_asf_exact : forall f s t cb f', asf_parse f = Ok s -> asf_canon f = true ->
  Forall valid_attr t -> asf_save f t cb = Ok f' ->
  exists loaded, asf_load f' = Ok loaded /\
    let '(c0, c1, c2, c3) := placed_tags (place t) in
    of_class 0 loaded = c0 /\ of_class 1 loaded = c1 /\ of_class 2 loaded = c2 /\ of_class 3 loaded = c3.
Proof. exact asf_save_load_exact. Qed.
Print Assumptions C01_asf_exact.

(* those rules are kept by every save *)
Theorem C01_asf_canon_kept : forall f s t cb f', asf_parse f = Ok s -> asf_canon f = true -> asf_save f t cb = Ok f' ->
  asf_canon f' = true.
Proof. exact asf_save_canon. Qed.
Print Assumptions C01_asf_canon_kept.

(* ---- examples: grouping; a second Title and a non-text Title go to the library; trailing NUL is outside valid_attr *)
Definition tiny : list Z := asf_build [OLeaf G_FILE (zeros 64)] [7; 8; 9].
Definition tags : list attr :=
  [mkA N_TITLE (VText [72; 105]) None None; mkA [70] (VBool true) None (Some 1); mkA [71] (VQword 77) (Some 2) None;
   mkA N_TITLE (VText [66]) None None; mkA [87] (VDword 5) None None; mkA N_AUTHOR (VWord 9) None None].
Example tags_valid : Forall valid_attr tags.
Proof. repeat constructor. Qed.
Example tiny_roundtrip : exists f', asf_save tiny tags cb_default = Ok f' /\
  asf_load f' = Ok [mkT 0 N_TITLE 0 0 (VText [72; 105]);
                    mkT 1 [87] 0 0 (VDword 5);
                    mkT 2 [70] 0 1 (VBool true);
                    mkT 3 [71] 2 0 (VQword 77); mkT 3 N_TITLE 0 0 (VText [66]); mkT 3 N_AUTHOR 0 0 (VWord 9)].
Proof. eexists. split; [vm_compute; reflexivity|vm_compute; reflexivity]. Qed.
Theorem C01_asf_trailing_nul_refuted : exists f t f', asf_save f t cb_default = Ok f' /\
  asf_load f' = Ok [mkT 0 N_TITLE 0 0 (VText [72])] /\ t = [mkA N_TITLE (VText [72; 0]) None None].
Proof. exists tiny. do 2 eexists. split; [|split; [|reflexivity]]; vm_compute; reflexivity. Qed.
