(* C08 (ASF): delete() removes the tags and nothing else.  asf_delete = ASF.delete = tags.clear(); save(padding 0).
   The header keeps empty ContentDescription / ExtendedContentDescription / Metadata / MetadataLibrary / Padding objects
   (the format has no "no tag" state different from empty objects). *)
From Coq Require Import ZArith List Bool Lia.
Import ListNotations.
Require Import Base.Py Base.ZList Model.Splice Model.Fam_asf
  Proofs.Fam_asf_codec Proofs.Fam_asf_save Proofs.Fam_asf_agree Proofs.Fam_asf_reopen Proofs.Fam_asf_hist Proofs.Fam_asf_delete.
Open Scope Z_scope.

(* no attribute remains in any of the four objects, under the independent reader ... *)
Theorem C08_asf_no_attribute : forall f f', asf_delete f = Ok f' -> asf_load f' = Ok [].
Proof. exact asf_delete_load. Qed.
Print Assumptions C08_asf_no_attribute.

(* ... and mutagen's reader loads the file again, with an empty tag list (so new tags can be added and saved) *)
Theorem C08_asf_loads_empty : forall f f', asf_delete f = Ok f' -> exists tree, asf_open f' = Ok (tree, []).
Proof. exact asf_delete_reopens. Qed.
Print Assumptions C08_asf_loads_empty.

(* no padding remains; the header shrinks by exactly the free space (info.padding of the empty tag list), the data
   section is unchanged *)
Theorem C08_asf_padding : forall f f', asf_delete f = Ok f' ->
  exists p s s', asf_info f [] = Ok (p, s) /\ asf_parse f' = Ok s' /\ asf_padding s' = 0 /\
    header_size f' = header_size f - p /\ sdata s' = zdrop (header_size f) f.
Proof. exact asf_delete_padding. Qed.
Print Assumptions C08_asf_padding.

(* foreign objects and data section byte-identical (C02 for delete) *)
Theorem C08_asf_foreign : forall f s f', asf_wf f = true -> asf_parse f = Ok s -> asf_delete f = Ok f' ->
  exists s', asf_parse f' = Ok s' /\
    foreign (sobjs s') = foreign (sobjs s) ++ (if existsb is_ext (sobjs s) then [] else [FExt HEXT_FIXED []]) /\
    sdata s' = sdata s.
Proof. intros f s f'. apply asf_save_foreign_wf. Qed.
Print Assumptions C08_asf_foreign.

(* deleting again does not change the bytes *)
Theorem C08_asf_twice : forall f f', 0 <= header_size f -> asf_delete f = Ok f' -> asf_delete f' = Ok f'.
Proof. exact asf_delete_twice. Qed.
Print Assumptions C08_asf_twice.

Theorem C08_asf_wf : forall f f', asf_delete f = Ok f' -> asf_wf f' = true.
Proof. exact asf_delete_wf. Qed.
Print Assumptions C08_asf_wf.

(* ---- example *)
Definition tagged : list Z :=
  asf_build [OLeaf G_CD (cd_payload (place [mkA N_TITLE (VText [72; 105]) None None])); OLeaf G_FILE (zeros 64);
             OExt HEXT_FIXED [(G_PAD, [0; 0; 0])]; OLeaf G_PAD (zeros 40)] [7; 8; 9].
Example tagged_loads : asf_load tagged = Ok [mkT 0 N_TITLE 0 0 (VText [72; 105])].
Proof. vm_compute. reflexivity. Qed.
Example tagged_deleted : exists f', asf_delete tagged = Ok f' /\ asf_load f' = Ok [] /\ asf_delete f' = Ok f' /\ zlen f' = 303.
Proof. eexists. split; [vm_compute; reflexivity|]. split; [vm_compute; reflexivity|]. split; [vm_compute; reflexivity|vm_compute; reflexivity]. Qed.
