(* C09 (family dsf) -- the padding callback is obeyed and existing padding is reused.
   dsf_save_cb = _DSFID3.save with ID3._prepare_data modelled: available = extent from the metadata pointer to EOF
   (the fix in /repo: it used the size remembered at load time), trailing size the same. *)
From Coq Require Import ZArith List Bool Lia.
Import ListNotations.
Require Import Base.Py Base.ZList Gen.Gen_tags Model.Splice Model.Fam_carrier Model.Fam_dsf
  Proofs.Fam_iff_codec Proofs.Fam_iff_chunks Proofs.Fam_dsf_lemmas Proofs.Fam_dsf_props Proofs.Fam_carrier_lemmas Proofs.Fam_dsf_c09.
Open Scope Z_scope.

(* the callback receives (old tag extent - needed, 0): the extent is 0 when the tag is created at EOF, and nothing
   follows the tag *)
Theorem C09_dsf_callback_arguments : forall f s fd ver cb f', dsf_parse f = Ok s -> dsf_save_cb f fd ver cb = Ok f' ->
  let avail := zlen (tag_bytes (d_tag s)) in
  exists tag, id3_prepare fd ver cb avail 0 = Ok tag /\ dsf_save f tag = Ok f'.
Proof. exact dsf_save_cb_decompose. Qed.
Print Assumptions C09_dsf_callback_arguments.

(* measured in the saved file: exactly p = callback result zero bytes after the frame data, to EOF *)
Theorem C09_dsf_measured : forall f s fd ver cb f', dsf_parse f = Ok s -> dsf_save_cb f fd ver cb = Ok f' ->
  let avail := zlen (tag_bytes (d_tag s)) in
  let p := cb (avail - (zlen fd + 10)) 0 in
  0 <= p /\ exists sz, zlen sz = 4 /\
    zdrop (28 + zlen (d_audio s)) f' = ID3_MAGIC ++ [ver; 0; 0] ++ sz ++ fd ++ zeros p /\
    zlen f' = 28 + zlen (d_audio s) + zlen fd + 10 + p.
Proof.
  intros f s fd ver cb f' Hp Hsv avail p.
  destruct (dsf_save_cb_decompose f s fd ver cb f' Hp Hsv) as (tag & Hpr & Hs). fold avail in Hpr.
  destruct (id3_prepare_spec _ _ _ _ _ _ Hpr) as (P0 & L & (sz & Lsz & Et) & _). cbv zeta in *. fold p in P0, L, Et.
  split; [exact P0|]. exists sz. split; [exact Lsz|].
  destruct (dsf_save_audio f s tag f' Hp Hs) as (_ & _ & Ed). split; [rewrite Ed; exact Et|].
  destruct (dsf_save_spec f s tag f' Hp Hs) as [Ef' _]. rewrite Ef', dsf_render_zlen. cbn [tag_bytes]. lia.
Qed.
Print Assumptions C09_dsf_measured.

(* returning info.padding (>= 0): same file size, every byte before the pointer (header fields included) unchanged *)
Theorem C09_dsf_keep : forall f s t0 fd ver cb f', dsf_parse f = Ok s -> d_tag s = Some t0 ->
  cb (zlen t0 - (zlen fd + 10)) 0 = zlen t0 - (zlen fd + 10) -> dsf_save_cb f fd ver cb = Ok f' ->
  zlen f' = zlen f /\ ztake (28 + zlen (d_audio s)) f' = ztake (28 + zlen (d_audio s)) f.
Proof.
  intros f s t0 fd ver cb f' Hp Ht Hk Hsv.
  destruct (dsf_save_cb_decompose f s fd ver cb f' Hp Hsv) as (tag & Hpr & Hs). rewrite Ht in Hpr. cbn [tag_bytes] in Hpr.
  pose proof (id3_prepare_keep _ _ _ _ _ _ Hpr Hk) as Lt.
  destruct (dsf_keep_size f s t0 tag f' Hp Ht Lt Hs) as (A & B & _). split; assumption.
Qed.
Print Assumptions C09_dsf_keep.

Definition ex_fmt : list Z := le_encode 4 1 ++ le_encode 4 0 ++ le_encode 4 2 ++ le_encode 4 2 ++ le_encode 4 2822400 ++
  le_encode 4 1 ++ le_encode 8 0 ++ le_encode 4 4096 ++ le_encode 4 0.
Definition ex_dsf : list Z := dsf_build ex_fmt [5] (Some ([73; 68; 51; 4; 0; 0; 0; 0; 0; 30] ++ zeros 30)).
Definition ex_fd : list Z := [84; 73; 84; 50; 0; 0; 0; 2; 0; 0; 3; 65].
Example C09_dsf_ex_info : match dsf_target ex_dsf with Ok pa => dsf_padinfo ex_dsf pa ex_fd = (40 - 22, 0) | Raise _ => False end.
Proof. vm_compute. reflexivity. Qed.
Example C09_dsf_ex_keep : match dsf_save_cb ex_dsf ex_fd 4 cb_keep with Ok f' => zlen f' = zlen ex_dsf /\ dsf_wf f' = true | Raise _ => False end.
Proof. vm_compute. split; reflexivity. Qed.
Example C09_dsf_ex_default : match dsf_save_cb ex_dsf ex_fd 4 cb_default with Ok f' => zlen f' = zlen ex_dsf | Raise _ => False end.
Proof. vm_compute. reflexivity. Qed.
