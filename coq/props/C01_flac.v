(* C01 (FLAC family) -- Saved tags read back exactly, also under an independent reading of the format.
   flac_save mirrors FLAC.save (through a freshly loaded object); flac_load is the strict reader written from the
   format layout (first VORBIS_COMMENT block, every comment split at its first '=', nothing left over).
   Quantified over every well-formed file, every tag set (vendor, ordered (key, value) list; values are arbitrary
   byte strings) and every padding callback. *)
From Coq Require Import ZArith List Bool Lia.
Import ListNotations.
Require Import Base.Py Base.ZList Gen.Gen_tags Model.Splice Model.Fam_flac
  Proofs.Fam_flac_codec Proofs.Fam_flac_walk Proofs.Fam_flac_save Proofs.Fam_flac_thms Proofs.Fam_flac_final Proofs.Fam_flac_session Proofs.Fam_flac_extra Proofs.Fam_flac_examples.
Open Scope Z_scope.

(* integer codecs of the two formats *)
Theorem C01_flac_le32_round : forall v, 0 <= v < U32 -> le_decode (le_encode 4 v) = v.
Proof. exact le32_round. Qed.
Print Assumptions C01_flac_le32_round.
Theorem C01_flac_be24_round : forall v, 0 <= v <= MAXSZ -> be_decode (be_encode 3 v) = v.
Proof. exact be24_round. Qed.
Print Assumptions C01_flac_be24_round.
Theorem C01_flac_be32_round : forall v, 0 <= v < U32 -> be_decode (be_encode 4 v) = v.
Proof. exact be32_round. Qed.
Print Assumptions C01_flac_be32_round.
Theorem C01_flac_le_round : forall n v, 0 <= v < 256 ^ Z.of_nat n -> le_decode (le_encode n v) = v.
Proof. exact le_decode_encode. Qed.
Print Assumptions C01_flac_le_round.
Theorem C01_flac_be_round : forall n v, 0 <= v < 256 ^ Z.of_nat n -> be_decode (be_encode n v) = v.
Proof. exact be_decode_encode. Qed.
Print Assumptions C01_flac_be_round.

(* Vorbis comment codec: the independent reader inverts the writer, for every vendor and comment list whose keys
   contain no '=' and whose lengths fit the 32-bit length fields; anything following the comment is left unread *)
Theorem C01_flac_vc_roundtrip : forall t rest, keys_no_eq t = true -> vc_fits32 t = true ->
  vc_parse (vc_render t ++ rest) = Ok (t, rest).
Proof. exact vc_parse_render. Qed.
Print Assumptions C01_flac_vc_roundtrip.
(* keys accepted by VComment.validate contain no '=' *)
Theorem C01_flac_valid_keys : forall t, vc_valid t = true -> keys_no_eq t = true.
Proof. exact vc_valid_no_eq. Qed.
Print Assumptions C01_flac_valid_keys.

(* block walker and block writer are inverse to each other (needs payloads below 2^24, codes below 127) *)
Theorem C01_flac_walker_writer : forall p bs a, prefix_ok p -> bs <> [] -> Forall block_small bs ->
  flac_parse (p ++ MAGIC ++ render_blocks bs ++ a) = Ok (mkFlac p bs a).
Proof. exact parse_build. Qed.
Print Assumptions C01_flac_walker_writer.
Theorem C01_flac_writer_walker : forall f s, flac_parse f = Ok s ->
  f = fprefix s ++ MAGIC ++ render_blocks (fblocks s) ++ faudio s /\
  prefix_ok (fprefix s) /\ fblocks s <> [] /\ Forall block_small (fblocks s).
Proof. exact parse_inv. Qed.
Print Assumptions C01_flac_writer_walker.

(* the property *)
Theorem C01_flac_save_load : forall f t o f', flac_wf f = true -> o_deleteid3 o = false ->
  flac_save f t o = Ok f' -> flac_load f' = Ok (Some t).
Proof. exact save_load. Qed.
Print Assumptions C01_flac_save_load.
(* also with deleteid3=True *)
Theorem C01_flac_save_load_deleteid3 : forall f t o f', flac_wf f = true -> o_deleteid3 o = true -> flac_save f t o = Ok f' ->
  flac_wf f' = true /\ flac_load f' = Ok (Some t).
Proof. exact final_deleteid3_wf. Qed.
Print Assumptions C01_flac_save_load_deleteid3.

(* the same through a live object whose block list is consistent with the file (see C03_flac_session) *)
Theorem C01_flac_save_load_live : forall f st bs0 t o f', flac_parse f = Ok st -> struct_wf st = true -> consistent bs0 st ->
  o_deleteid3 o = false -> flac_save_obj f bs0 t o = Ok f' ->
  exists st', flac_parse f' = Ok st' /\ struct_wf st' = true /\ same_foreign st st' /\
    consistent (match t with Some t => set_vc bs0 (vc_render t) | None => bs0 end) st' /\
    (forall t', t = Some t' -> flac_load f' = Ok (Some t')).
Proof. exact save_obj_consistent. Qed.
Print Assumptions C01_flac_save_load_live.

(* and a save of valid tags that fit a metadata block does succeed *)
Theorem C01_flac_save_total : forall f t o, flac_wf f = true -> o_deleteid3 o = false ->
  vc_valid t = true -> vc_fits32 t = true -> zlen (vc_render t) <= MAXSZ -> exists f', flac_save f t o = Ok f'.
Proof. exact save_total. Qed.
Print Assumptions C01_flac_save_total.

Example C01_flac_ex_wf : flac_wf ex_file = true /\ flac_wf ex_notags = true.
Proof. exact ex_wf. Qed.
Example C01_flac_ex_valid : vc_valid ex_new = true /\ vc_fits32 ex_new = true.
Proof. exact ex_valid. Qed.
Example C01_flac_ex_save_ok : is_ok (flac_save ex_file ex_new (ex_opts None)) = true /\
                              is_ok (flac_save ex_notags ex_new (ex_opts (Some (cb_const 7)))) = true.
Proof. exact ex_save_ok. Qed.
Example C01_flac_ex_reads_back : flac_load (get [] (flac_save ex_file ex_new (ex_opts (Some cb_keep)))) = Ok (Some ex_new).
Proof. exact ex_save_reads_back. Qed.
Example C01_flac_ex_invalid_key : flac_save ex_file (mkVC [] [([97; 61], [1])]) (ex_opts None) = Raise EValue.
Proof. exact ex_invalid_key_rejected. Qed.
