(* C08 (Ogg family) -- delete() removes the tags and nothing else.
   In Ogg the comment header is mandatory: delete = tags.clear() + _inject with padding 0.  (a) the packet written holds
   the vendor string, zero comments and zero padding (unconditional); (b) the file stays well-formed and every other
   stream keeps its pages (C03_ogg_delete / C02_ogg_delete, restated); (c) file level, for files laid out as the codec
   mappings prescribe (ogg_mapped, see C01_ogg): the independent reader finds vendor + no comments + padding 0
   (C08_ogg_delete; the version with the alignment as a hypothesis is kept as C08_ogg_delete_partial). *)
From Coq Require Import ZArith List Bool Lia.
Import ListNotations.
Require Import Base.Py Base.ZList Gen.Gen_tags Model.Crc Model.Ogg Model.Fam_flac Model.Fam_ogg
  Proofs.Fam_ogg_inject Proofs.Fam_ogg_thms Proofs.Fam_ogg_final Proofs.Fam_ogg_c01 Proofs.Fam_ogg_load Proofs.Fam_ogg_mapped
  Proofs.Fam_ogg_examples.
Open Scope Z_scope.

Theorem C08_ogg_packet : forall c vendor pad fsize old d,
  ogg_f_new_packet c (mkVC vendor []) pad (Some (fun _ _ => 0)) fsize old = Ok d ->
  (c = OOpus -> pad = [] \/ exists b r, pad = b :: r /\ ogg_f_odd b = true) ->
  (c = OFlac -> exists h r, old = h :: r /\ h mod 128 = 4) ->
  ogg_f_decode c d = Ok (mkVC vendor [], match c with
                                         | OFlac => -1
                                         | _ => match c, pad with OOpus, _ :: _ => -1 | _, _ => 0 end end).
Proof. exact delete_packet_decode. Qed.
Print Assumptions C08_ogg_packet.

Theorem C08_ogg_delete_wf : forall f c f', ogg_wf f = true -> ogg_delete f c = Ok f' -> ogg_wf f' = true /\ ogg_others_kept f f'.
Proof. intros f c f' H D. split; [exact (delete_wf f c f' H D)|exact (delete_others f c f' H D)]. Qed.
Print Assumptions C08_ogg_delete_wf.

Theorem C08_ogg_delete_partial : forall f c f' pages,
  ogg_parse f = Ok pages -> ogg_f_streams_ok pages = true ->
  ogg_delete f c = Ok f' ->
  exists olds news k vendor pad,
    ogg_open f c = Ok (vendor, pad) /\
    cut_ok c (mkVC vendor []) pad (Some (fun _ _ => 0)) pages olds news k /\
    (ogg_aligned c pages k ->
     (c = OFlac -> exists h r, cut_p0 k = h :: r /\ h mod 128 = 4) ->
     ogg_load f' c = Ok (mkVC vendor [], match c with
                                         | OFlac => -1
                                         | _ => match c, pad with OOpus, _ :: _ => -1 | _, _ => 0 end end)).
Proof. exact delete_load. Qed.
Print Assumptions C08_ogg_delete_partial.

Theorem C08_ogg_delete : forall f c f' pages,
  ogg_parse f = Ok pages -> ogg_f_streams_ok pages = true -> ogg_mapped c pages ->
  ogg_delete f c = Ok f' ->
  exists olds news k vendor pad,
    ogg_open f c = Ok (vendor, pad) /\
    cut_ok c (mkVC vendor []) pad (Some (fun _ _ => 0)) pages olds news k /\
    ((c = OFlac -> exists h r, cut_p0 k = h :: r /\ h mod 128 = 4) ->
     ogg_load f' c = Ok (mkVC vendor [], match c with
                                         | OFlac => -1
                                         | _ => match c, pad with OOpus, _ :: _ => -1 | _, _ => 0 end end)).
Proof. exact delete_load_mapped. Qed.
Print Assumptions C08_ogg_delete.

Example C08_ogg_ex :
  ogg_delete ex_vorbis OVorbis = Ok ex_vorbis_deleted /\ ogg_wf ex_vorbis_deleted = true /\
  ogg_load ex_vorbis_deleted OVorbis = Ok (mkVC [118] [], 0).
Proof. exact ex_vorbis_delete. Qed.
