#!/bin/bash
# usage: show.sh file.v LINE  -- prints the goal after LINE lines of file.v
cd "$(dirname "$0")"
head -n "$2" "$1" > /tmp/_show_$$.v; echo "Show." >> /tmp/_show_$$.v
timeout 120 coqtop -Q base Base -Q gen Gen -Q model Model -Q proofs Proofs -Q props Props -batch -l /tmp/_show_$$.v 2>&1 | tail -n ${3:-40}
rm -f /tmp/_show_$$.v
