(* Fam_id3f_examples: the hypotheses of the id3f theorems are satisfiable, and the preconditions the faithful model
   forced are necessary (refutation witnesses by vm_compute; each is a genuine behaviour of /repo). *)
From Coq Require Import ZArith List Bool Lia.
Import ListNotations.
Require Import Base.Py Base.ZList Gen.Gen_tags Model.Splice Model.Id3Util Model.Fam_id3f
  Proofs.Fam_id3f_base Proofs.Fam_id3f_save Proofs.Fam_id3f_props.
Open Scope Z_scope.

(* TIT2 frame (v2.4): id, syncsafe size 3, flags 0 0, encoding 3, "ab" *)
Definition ex_frames : list Z := [84; 73; 84; 50; 0; 0; 0; 3; 0; 0; 3; 97; 98].
Definition ex_audio : list Z := [255; 251; 144; 100] ++ repeat 7 150.            (* 154 bytes *)
Definition ex_v1 : list Z := M_TAG ++ repeat 32 125.                              (* 128 bytes *)
Definition ex_file : list Z := id3f_build (Some (4, 0, ex_frames, 20)) ex_audio (Some ex_v1).
Definition ex_opts (v1 : Z) (cb : Z -> Z -> Z) : opts := mkIOpts 4 v1 ex_v1 cb [].
(* a frame whose data has b"TAG" 128 bytes before its end: PRIV, size 130, owner "o", data TAG + 125 x *)
Definition ex_priv : list Z := [80; 82; 73; 86; 0; 0; 1; 2; 0; 0; 111; 0] ++ M_TAG ++ repeat 120 125.

Lemma ex_wf : id3f_wf ex_file = true /\ frames_ok 4 ex_frames = true /\ mid_of ex_file = ex_audio /\
  v1_hyp ex_audio (ex_opts 1 id3f_cb_default) /\ v1_hyp ex_audio (ex_opts 2 (id3f_cb_const 0)).
Proof.
  split; [vm_compute; reflexivity|]. split; [vm_compute; reflexivity|]. split; [vm_compute; reflexivity|].
  split; intros _; vm_compute; reflexivity.
Qed.

Lemma ex_save_ok : exists f', id3f_save ex_file ex_frames (ex_opts 1 id3f_cb_default) = Ok f' /\ zlen f' = zlen ex_file.
Proof. eexists. split; vm_compute; reflexivity. Qed.

Lemma ex_history_ok : exists f',
  run_ops [OpSave ex_priv (ex_opts 2 (id3f_cb_const 0)); OpDelete; OpSave ex_frames (ex_opts 0 id3f_cb_keep); OpDelete] ex_file = Ok f' /\
  f' = ex_audio.
Proof. eexists. split; vm_compute; reflexivity. Qed.

Lemma list_neq a b : list_eqb a b = false -> a <> b.
Proof. intros H E. apply list_eqb_spec in E. congruence. Qed.

(* REGRESSION (was a genuine defect of /repo, fixed by "TAG inside the ID3v2 tag itself was taken for an ID3v1 tag"):
   saving to an EMPTY file a frame with b"TAG" 128 bytes before its end, default v1=1, padding 0 -- the frames are read
   back; with v1=0 nothing is truncated *)
Lemma short_payload_regression :
  id3f_wf [] = true /\ frames_ok 4 ex_priv = true /\
  (exists f', id3f_save [] ex_priv (ex_opts 1 (id3f_cb_const 0)) = Ok f' /\ id3f_load f' = Ok (Some ex_priv) /\ zlen f' = 10 + zlen ex_priv) /\
  (exists f', id3f_save [] ex_priv (ex_opts 0 (id3f_cb_const 0)) = Ok f' /\ id3f_load f' = Ok (Some ex_priv) /\ zlen f' = 10 + zlen ex_priv) /\
  (exists f', id3f_save [] ex_priv (ex_opts 0 (id3f_cb_const 0)) = Ok f' /\ id3f_delete f' = Ok []).
Proof.
  split; [vm_compute; reflexivity|]. split; [vm_compute; reflexivity|].
  split; [eexists; split; [vm_compute; reflexivity|]; split; vm_compute; reflexivity|].
  split; [eexists; split; [vm_compute; reflexivity|]; split; vm_compute; reflexivity|].
  eexists; split; vm_compute; reflexivity.
Qed.

(* REGRESSION (was a genuine defect, fixed by "TAG inside a trailing APEv2 tag was taken for an ID3v1 tag"): b"TAG" 128
   bytes before the end of a payload that ends in an APEv2 footer: the file is well-formed, a save with the default
   v1=1 leaves the payload (APEv2 footer included) byte-identical *)
Definition ex_ape_tail : list Z :=
  repeat 1 40 ++ M_TAG ++ repeat 1 93 ++ M_APE ++ repeat 0 24.                    (* 168 bytes, TAG at -128, APETAGEX at -32 *)
Definition ex_ape_file : list Z := ex_audio ++ ex_ape_tail.
Lemma tag_in_apev2_regression : id3f_wf ex_ape_file = true /\ mid_of ex_ape_file = ex_ape_file /\
  exists f', id3f_save ex_ape_file ex_frames (ex_opts 1 id3f_cb_default) = Ok f' /\ mid_of f' = ex_ape_file /\
             zdrop (zlen f' - 32) f' = zdrop (zlen ex_ape_file - 32) ex_ape_file.
Proof.
  split; [vm_compute; reflexivity|]. split; [vm_compute; reflexivity|].
  eexists. split; [vm_compute; reflexivity|]. split; vm_compute; reflexivity.
Qed.

(* the hypothesis "at least 3 payload bytes in front of an ID3v1 tag" (part of v1_fits) is necessary: a file that is
   nothing but an ID3v1 tag; the new ID3v2 tag ends with the bytes b"TAG" (padding 0); find_id3v1 takes the first
   b"TAG" of its 128+3 byte window, which lies inside the ID3v2 tag, gives up, and v1=2 appends a SECOND ID3v1 tag *)
Definition ex_priv_tail : list Z := [80; 82; 73; 86; 0; 0; 0; 5; 0; 0; 111; 0] ++ M_TAG.   (* PRIV owner "o" data "TAG" *)
Lemma short_mid_refuted : exists f s fr o f' s',
  id3f_parse f = Ok s /\ i_mid s = [] /\ i_v1 s = Some ex_v1 /\ frames_ok (o_v2 o) fr = true /\
  id3f_save f fr o = Ok f' /\ id3f_parse f' = Ok s' /\ i_mid s' <> i_mid s /\ zlen f' = zlen fr + 10 + 256.
Proof.
  exists ex_v1. eexists. exists ex_priv_tail, (ex_opts 2 (id3f_cb_const 0)). eexists. eexists.
  split; [vm_compute; reflexivity|]. split; [reflexivity|]. split; [reflexivity|].
  split; [vm_compute; reflexivity|]. split; [vm_compute; reflexivity|]. split; [vm_compute; reflexivity|].
  split; [apply list_neq; vm_compute; reflexivity|vm_compute; reflexivity].
Qed.
