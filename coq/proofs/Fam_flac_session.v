(* FLAC family: edit histories through a LIVE object (the FLAC instance is kept across operations, as callers and the
   history engine of the harness do): the object's block list may be stale (a comment block deleted from the file is still
   in the list and comes back at its old position; add_tags appends), yet every save/delete keeps the file well-formed and
   all foreign data in place. *)
From Coq Require Import ZArith List Bool Lia.
Import ListNotations.
Require Import Base.Py Base.ZList Gen.Gen_tags Model.Splice Model.Fam_flac
  Proofs.Fam_flac_codec Proofs.Fam_flac_walk Proofs.Fam_flac_save Proofs.Fam_flac_thms.
Open Scope Z_scope.

(* the object's blocks agree with the file on everything that is not comment or padding *)
Definition consistent (bs0 : list block) (st : flac) : Prop :=
  Forall ovf_none bs0 /\ Forall code_ok bs0 /\ forallb block_ok bs0 = true /\
  foreign_blocks bs0 = foreign_blocks (fblocks st) /\
  exists b0 r r', bs0 = b0 :: r /\ fblocks st = b0 :: r' /\ bcode b0 = 0.

Lemma count_via_foreign c X Y : c <> 1 -> c <> 4 -> foreign_blocks X = foreign_blocks Y -> count_code c X = count_code c Y.
Proof. intros H1 H4 H. rewrite <- (count_foreign c X), <- (count_foreign c Y) by assumption. rewrite H. reflexivity. Qed.

Lemma struct_wf_build st N : struct_wf st = true ->
  (exists b0 r r', N = b0 :: r /\ fblocks st = b0 :: r' /\ bcode b0 = 0) ->
  forallb block_ok N = true -> foreign_blocks N = foreign_blocks (fblocks st) ->
  struct_wf (mkFlac (fprefix st) N (faudio st)) = true.
Proof.
  intros Hw (b0 & r & r' & HN & Hst & Hc) Hok Hfor. unfold struct_wf in *. cbn [fblocks faudio].
  apply andb_true_iff in Hw as [Hw Ha]. apply andb_true_iff in Hw as [Hw H5]. apply andb_true_iff in Hw as [Hw H3].
  apply andb_true_iff in Hw as [Hw H0]. apply andb_true_iff in Hw as [Hh _].
  rewrite Hok, Ha.
  rewrite (count_via_foreign 0 N (fblocks st)), (count_via_foreign 3 N (fblocks st)), (count_via_foreign 5 N (fblocks st)) by (lia || assumption).
  rewrite H0, H3, H5. rewrite HN. replace (bcode b0 =? 0) with true by lia. reflexivity.
Qed.

Lemma set_vc_head b0 r d : bcode b0 = 0 -> set_vc (b0 :: r) d = b0 :: set_vc r d.
Proof. intros H. cbn [set_vc]. replace (is_vcb b0) with false by (unfold is_vcb; lia). reflexivity. Qed.
Lemma nonpad_head b0 r : bcode b0 = 0 -> nonpad (b0 :: r) = b0 :: nonpad r.
Proof. intros H. unfold nonpad. cbn [filter]. replace (is_pad b0) with false by (unfold is_pad; lia). reflexivity. Qed.

Lemma block_ok_set_vc bs0 t : forallb block_ok bs0 = true -> vc_fits32 t = true ->
  forallb block_ok (set_vc bs0 (vc_render t)) = true.
Proof.
  intros Hok Hf. apply forallb_Forall. apply forallb_Forall in Hok.
  apply Forall_set_vc; [exact Hok|]. intros o [Ho|(b & Hin & Ho)].
  - subst o. apply block_ok_vc. exact Hf.
  - rewrite Forall_forall in Hok. rewrite Ho, (block_ok_ovf b (Hok b Hin)). apply block_ok_vc. exact Hf.
Qed.
Lemma forallb_filter {A} (g h : A -> bool) l : forallb g l = true -> forallb g (filter h l) = true.
Proof. intros H. apply forallb_Forall. apply Forall_filter. apply forallb_Forall. exact H. Qed.

(* ------------------------------------------------------------------ one save through a live object *)
Theorem save_obj_consistent f st bs0 t o f' : flac_parse f = Ok st -> struct_wf st = true -> consistent bs0 st ->
  o_deleteid3 o = false -> flac_save_obj f bs0 t o = Ok f' ->
  exists st', flac_parse f' = Ok st' /\ struct_wf st' = true /\ same_foreign st st' /\
    consistent (match t with Some t => set_vc bs0 (vc_render t) | None => bs0 end) st' /\
    (forall t', t = Some t' -> flac_load f' = Ok (Some t')).
Proof.
  intros Hp Hw (Ho & Hc & Hok0 & Hfor & b0 & r & r' & Hb0 & Hst & Hc0) Hd Hs.
  destruct (struct_facts f st Hp Hw) as [Hl Hpre Hne Hsm Hok _ _ _ _ _ _].
  rewrite Hl in Hs.
  destruct (save_obj_layout _ _ _ Hpre Hne Hsm Hok _ _ _ _ Hd Ho Hc Hs) as (bs1 & Ht & Hall & Hf' & Hparse).
  set (n := padlen (o_cb o) (blocks_extent (fblocks st)) bs1 (zlen (faudio st))) in *.
  (* what the object holds after the save *)
  assert (Hbs1 : bs1 = match t with Some t => set_vc bs0 (vc_render t) | None => bs0 end /\
                 (forall t', t = Some t' -> vc_valid t' = true /\ vc_fits32 t' = true)).
  { destruct t as [t0|]; cbn [tags_applied] in Ht.
    - destruct Ht as (Hv & Hf & Hb). split; [exact Hb|]. intros t' E. inversion E; subst t'. split; assumption.
    - split; [exact Ht|]. intros t' E. discriminate. }
  destruct Hbs1 as [Hbs1 Hvalid].
  assert (Hok1 : forallb block_ok bs1 = true).
  { rewrite Hbs1. destruct t as [t0|]; [|exact Hok0]. apply block_ok_set_vc; [exact Hok0|]. apply (Hvalid t0 eq_refl). }
  assert (Hhead1 : exists r1, bs1 = b0 :: r1).
  { rewrite Hbs1, Hb0. destruct t as [t0|]; [rewrite set_vc_head by exact Hc0|]; eexists; reflexivity. }
  destruct Hhead1 as (r1 & Hr1).
  assert (Hfor1 : foreign_blocks bs1 = foreign_blocks (fblocks st)).
  { rewrite Hbs1. destruct t as [t0|]; [rewrite foreign_set_vc|]; exact Hfor. }
  assert (HforN : foreign_blocks (nonpad bs1 ++ [pad_block n]) = foreign_blocks bs1).
  { rewrite foreign_app, foreign_nonpad, foreign_pad_block, app_nil_r. reflexivity. }
  assert (HheadN : nonpad bs1 ++ [pad_block n] = b0 :: (nonpad r1 ++ [pad_block n])).
  { rewrite Hr1, nonpad_head by exact Hc0. reflexivity. }
  exists (mkFlac (fprefix st) (nonpad bs1 ++ [pad_block n]) (faudio st)).
  split; [exact Hparse|]. split; [|split; [|split]].
  - apply struct_wf_build; [exact Hw| | |].
    + exists b0, (nonpad r1 ++ [pad_block n]), r'. repeat split; assumption.
    + rewrite forallb_app. cbn [forallb]. rewrite block_ok_pad, ?andb_true_r. apply forallb_filter. exact Hok1.
    + rewrite HforN. exact Hfor1.
  - unfold same_foreign. cbn [fprefix fblocks faudio]. split; [reflexivity|]. split; [rewrite HforN; exact Hfor1|].
    split; [reflexivity|]. rewrite HheadN, Hst. reflexivity.
  - rewrite <- Hbs1. unfold consistent. cbn [fblocks].
    split; [rewrite Hbs1; destruct t; [apply ovf_set_vc|]; exact Ho|].
    split; [rewrite Hbs1; destruct t; [apply code_set_vc|]; exact Hc|].
    split; [exact Hok1|]. split; [symmetry; exact HforN|].
    exists b0, r1, (nonpad r1 ++ [pad_block n]). repeat split; assumption.
  - intros t' E. subst t. cbn [tags_applied] in Ht. destruct Ht as (Hv & Hf & Hb).
    unfold flac_load. rewrite Hparse. cbn [fblocks]. rewrite Hb.
    destruct (find_set_vc bs0 (vc_render t')
      [pad_block (padlen (o_cb o) (blocks_extent (fblocks st)) (set_vc bs0 (vc_render t')) (zlen (faudio st)))]) as (ov & Hfind).
    unfold n. rewrite Hb. rewrite Hfind. cbn [bdata].
    rewrite <- (app_nil_r (vc_render t')). rewrite vc_parse_render; [reflexivity|apply vc_valid_no_eq; exact Hv|exact Hf].
Qed.

(* ------------------------------------------------------------------ delete through a live object *)
Lemma foreign_filter_novc l : foreign_blocks (filter (fun b => negb (is_vcb b)) l) = foreign_blocks l.
Proof.
  unfold foreign_blocks. induction l as [|b l IH]; cbn [filter]; [reflexivity|].
  destruct (is_vcb b) eqn:E; cbn [negb andb filter]; [exact IH|]. rewrite E. cbn [negb andb]. rewrite IH. reflexivity.
Qed.
Lemma foreign_clear_tags l : foreign_blocks (clear_tags l) = foreign_blocks l.
Proof.
  induction l as [|b l IH]; cbn [clear_tags]; [reflexivity|].
  destruct (is_vcb b) eqn:E.
  - unfold foreign_blocks at 1 2. cbn [filter]. rewrite is_vcb_mk, E. cbn [negb andb]. apply foreign_filter_novc.
  - unfold foreign_blocks in *. cbn [filter]. rewrite IH. reflexivity.
Qed.
Lemma clear_tags_novc l : existsb is_vcb l = false -> clear_tags l = l.
Proof.
  induction l as [|b l IH]; cbn [clear_tags existsb]; [reflexivity|]. intros H. apply orb_false_iff in H as [H1 H2].
  rewrite H1, (IH H2). reflexivity.
Qed.

(* the cleared tags object is still a comment block that occupies exactly its size *)
Lemma vc_extent_cleared d n : vc_extent d = Ok n -> vc_extent (vc_cleared d) = Ok (zlen (vc_cleared d)).
Proof.
  unfold vc_extent at 1. destruct (zlen d <? 4) eqn:E1; [discriminate|].
  set (vl := le_decode (ztake 4 d)).
  destruct ((vl <? 0) || (zlen (zdrop 4 d) <? vl + 4)) eqn:E2; [discriminate|]. intros _.
  assert (Hd4 : zlen (zdrop 4 d) = zlen d - 4) by (rewrite zlen_zdrop by lia; lia).
  unfold vc_cleared. fold vl. set (h := ztake (4 + vl) d).
  assert (Hh : zlen h = 4 + vl) by (unfold h; rewrite zlen_ztake by lia; lia).
  assert (Ht4 : ztake 4 (h ++ [0; 0; 0; 0]) = ztake 4 d).
  { rewrite ztake_app_l by lia. unfold h. rewrite ztake_ztake. f_equal. lia. }
  assert (Z4 : zlen [0; 0; 0; 0] = 4) by reflexivity.
  assert (Hlen : zlen (h ++ [0; 0; 0; 0]) = 8 + vl) by (rewrite zlen_app, Hh, Z4; lia).
  assert (Hdh : zlen (zdrop 4 h) = vl) by (rewrite zlen_zdrop by lia; lia).
  assert (Hz : zdrop vl (zdrop 4 h ++ [0; 0; 0; 0]) = [0; 0; 0; 0]) by (rewrite <- Hdh; apply zdrop_app_exact).
  unfold vc_extent. rewrite Ht4. fold vl. rewrite Hlen.
  replace (8 + vl <? 4) with false by lia.
  rewrite (zdrop_app_l 4 h) by lia. rewrite Hz.
  replace ((vl <? 0) || (zlen (zdrop 4 h ++ [0; 0; 0; 0]) <? vl + 4)) with false by (rewrite zlen_app, Hdh, Z4; lia).
  change (ztake 4 [0; 0; 0; 0]) with [0; 0; 0; 0]. change (zdrop 4 [0; 0; 0; 0]) with (@nil Z).
  change (le_decode [0; 0; 0; 0]) with 0. reflexivity.
Qed.

Lemma block_ok_clear_tags l : forallb block_ok l = true -> forallb block_ok (clear_tags l) = true.
Proof.
  induction l as [|b l IH]; cbn [clear_tags forallb]; [reflexivity|]. intros H. apply andb_true_iff in H as [H1 H2].
  destruct (is_vcb b) eqn:E.
  - cbn [forallb]. rewrite forallb_filter by exact H2. rewrite andb_true_r.
    pose proof (block_ok_ovf b H1) as Hov. rewrite Hov.
    unfold block_ok in H1 |- *. cbv zeta in *. cbn [bcode bdata bovf]. apply andb_true_iff in H1 as [_ H1].
    unfold is_vcb in E. replace (bcode b =? 0) with false in H1 by lia. replace (bcode b =? 1) with false in H1 by lia.
    rewrite E in H1.
    change (-1 =? -1) with true. change (4 =? 0) with false. change (4 =? 1) with false. change (4 =? 4) with true. cbv iota.
    destruct (vc_extent (bdata b)) as [n|] eqn:Ev; [|discriminate].
    rewrite (vc_extent_cleared _ _ Ev), Z.eqb_refl. reflexivity.
  - cbn [forallb]. rewrite H1, (IH H2). reflexivity.
Qed.
Lemma ovf_clear_tags l : Forall ovf_none l -> Forall ovf_none (clear_tags l).
Proof.
  induction 1 as [|b l Hb Hl IH]; cbn [clear_tags]; [constructor|]. destruct (is_vcb b).
  - constructor; [exact Hb|apply Forall_filter; exact Hl].
  - constructor; assumption.
Qed.
Lemma code_clear_tags l : Forall code_ok l -> Forall code_ok (clear_tags l).
Proof.
  induction 1 as [|b l Hb Hl IH]; cbn [clear_tags]; [constructor|]. destruct (is_vcb b).
  - constructor; [unfold code_ok; cbn [bcode]; lia|apply Forall_filter; exact Hl].
  - constructor; assumption.
Qed.

Theorem delete_obj_consistent f st bs0 f' : flac_parse f = Ok st -> struct_wf st = true -> consistent bs0 st ->
  flac_delete_obj f bs0 = Ok f' ->
  exists st', flac_parse f' = Ok st' /\ struct_wf st' = true /\ same_foreign st st' /\ consistent (clear_tags bs0) st' /\
    (existsb is_vcb bs0 = true -> flac_load f' = Ok None /\ flac_padding st' = 0).
Proof.
  intros Hp Hw Hcons Hd. pose proof Hcons as (Ho & Hc & Hok0 & Hfor & b0 & r & r' & Hb0 & Hst & Hc0).
  unfold flac_delete_obj in Hd. destruct (existsb is_vcb bs0) eqn:E.
  - assert (Hcons' : consistent (filter (fun b => negb (is_vcb b)) bs0) st).
    { unfold consistent. split; [apply Forall_filter; exact Ho|]. split; [apply Forall_filter; exact Hc|].
      split; [apply forallb_filter; exact Hok0|]. split; [rewrite foreign_filter_novc; exact Hfor|].
      exists b0, (filter (fun b => negb (is_vcb b)) r), r'. split; [|split; assumption].
      rewrite Hb0. cbn [filter]. replace (is_vcb b0) with false by (unfold is_vcb; lia). reflexivity. }
    destruct (save_obj_consistent f st _ None delete_opts f' Hp Hw Hcons' eq_refl Hd) as (st' & Hp' & Hw' & Hsf & Hc' & _).
    exists st'. split; [exact Hp'|]. split; [exact Hw'|]. split; [exact Hsf|]. split.
    + destruct Hc' as (_ & _ & _ & Hfor' & b1 & r1 & r1' & Hb1 & Hst' & Hc1).
      unfold consistent. split; [apply ovf_clear_tags; exact Ho|]. split; [apply code_clear_tags; exact Hc|].
      split; [apply block_ok_clear_tags; exact Hok0|].
      split; [rewrite foreign_clear_tags, <- foreign_filter_novc; exact Hfor'|].
      rewrite Hb0 in Hb1. cbn [filter] in Hb1. replace (is_vcb b0) with false in Hb1 by (unfold is_vcb; lia).
      cbn [negb] in Hb1. inversion Hb1; subst b1.
      exists b0, (clear_tags r), r1'. split; [|split; assumption].
      rewrite Hb0. cbn [clear_tags]. replace (is_vcb b0) with false by (unfold is_vcb; lia). reflexivity.
    + intros _. (* the file is prefix | foreign blocks | empty padding | audio *)
      destruct (struct_facts f st Hp Hw) as [Hl Hpre Hne Hsm Hok _ _ _ _ _ _].
      assert (Hs2 := Hd). rewrite Hl in Hs2.
      rewrite (save_obj_total _ _ _ Hpre Hne Hsm Hok _ None delete_opts (filter (fun b => negb (is_vcb b)) bs0) eq_refl) in Hs2.
      * rewrite nonpad_novc in Hs2. unfold padlen in Hs2. cbn [delete_opts o_cb _get_padding] in Hs2.
        change (Z.min 0 MAXSZ) with 0 in Hs2. injection Hs2 as Hf'.
        assert (Hsmall : Forall block_small (foreign_blocks bs0 ++ [pad_block 0])).
        { apply Forall_app. split; [|constructor; [apply pad_block_small; unfold MAXSZ; lia|constructor]].
          rewrite Hfor. apply Forall_filter. exact Hsm. }
        assert (Hp2 : flac_parse f' = Ok (mkFlac (fprefix st) (foreign_blocks bs0 ++ [pad_block 0]) (faudio st))).
        { rewrite <- Hf'. apply parse_build; [exact Hpre|destruct (foreign_blocks bs0); discriminate|exact Hsmall]. }
        rewrite Hp' in Hp2. injection Hp2 as Hst2. subst st'. split.
        -- unfold flac_load. rewrite Hp'. cbn [fblocks]. rewrite find_foreign_none; reflexivity.
        -- rewrite <- (foreign_nonpad_id bs0). apply flac_padding_blocks.
      * apply Forall_filter. exact Ho.
      * reflexivity.
      * rewrite nonpad_novc, Hfor. apply Forall_filter. destruct (small_parts _ Hsm) as (_ & Hsz & _). exact Hsz.
  - injection Hd as Hd. subst f'. exists st. split; [exact Hp|]. split; [exact Hw|]. split; [apply same_foreign_refl|].
    split; [rewrite clear_tags_novc by exact E; exact Hcons|]. intros H; discriminate.
Qed.

(* ------------------------------------------------------------------ add_tags on a live object *)
Lemma add_tags_consistent bs st vd : consistent bs st -> consistent (add_tags bs vd) st.
Proof.
  intros Hcons. unfold add_tags. destruct (existsb is_vcb bs || negb (zlen vd <? U32)) eqn:E; [exact Hcons|].
  apply orb_false_iff in E as [_ E]. apply negb_false_iff in E.
  destruct Hcons as (Ho & Hc & Hok & Hfor & b0 & r & r' & Hb0 & Hst & Hc0).
  assert (Hf : vc_fits32 (mkVC vd []) = true).
  { unfold vc_fits32. cbn [vendor comments forallb]. rewrite E. reflexivity. }
  unfold consistent.
  split; [apply Forall_app; split; [exact Ho|constructor; [reflexivity|constructor]]|].
  split; [apply Forall_app; split; [exact Hc|constructor; [unfold code_ok; cbn [bcode]; lia|constructor]]|].
  split; [rewrite forallb_app, Hok; cbn [forallb]; rewrite (block_ok_vc _ Hf); reflexivity|].
  split; [rewrite foreign_app; unfold foreign_blocks at 2; cbn [filter]; rewrite is_vcb_mk; cbn [negb andb]; rewrite app_nil_r; exact Hfor|].
  exists b0, (r ++ [mkB 4 (vc_render (mkVC vd [])) (-1)]), r'. rewrite Hb0. repeat split; assumption.
Qed.

(* ------------------------------------------------------------------ the session invariant *)
Definition sess_inv (s : sess) : Prop :=
  exists st, flac_parse (ss_file s) = Ok st /\ struct_wf st = true /\
             match ss_obj s with Some bs => consistent bs st | None => True end.

Lemma open_consistent f st : flac_parse f = Ok st -> struct_wf st = true ->
  flac_open f = Ok (fblocks st) /\ consistent (fblocks st) st.
Proof.
  intros Hp Hw. destruct (struct_facts f st Hp Hw) as [_ _ _ Hsm Hok (b0 & r & Hb & Hc0) _ _ _ _ Hopen].
  split; [exact Hopen|]. destruct (small_parts _ Hsm) as (Hc & _ & Ho).
  unfold consistent. repeat split; try assumption. exists b0, r, r. repeat split; assumption.
Qed.

Lemma sess_inv_wf s : sess_inv s -> flac_wf (ss_file s) = true.
Proof. intros (st & Hp & Hw & _). apply (wf_of_parse _ _ Hp Hw). Qed.

Theorem sess_step_inv s o : sess_inv s -> sess_inv (sess_step s o) /\ preserved (ss_file s) (ss_file (sess_step s o)).
Proof.
  intros (st & Hp & Hw & Hobj). destruct s as [f ob]. cbn [ss_file ss_obj] in *.
  destruct (open_consistent f st Hp Hw) as [Hopen Hcopen].
  assert (Hrefl : preserved f f) by (exists st, st; split; [exact Hp|split; [exact Hp|apply same_foreign_refl]]).
  assert (Hdrop : sess_inv (mkSess f None)) by (exists st; cbn [ss_file ss_obj]; auto).
  (* the object the operation works with, and its consistency *)
  assert (Hob : forall bs, match ob with Some bs0 => Some bs0 | None => sess_open f end = Some bs -> consistent bs st).
  { intros bs E. destruct ob as [bs0|]; [inversion E; subst bs0; exact Hobj|].
    unfold sess_open in E. rewrite Hopen in E. inversion E; subst bs. exact Hcopen. }
  destruct o as [|vendor|t cb| |]; unfold sess_step; cbn [ss_file ss_obj].
  - (* reload *) unfold sess_open. rewrite Hopen. split; [exists st; cbn [ss_file ss_obj]; auto|exact Hrefl].
  - (* add_tags *)
    destruct (match ob with Some bs0 => Some bs0 | None => sess_open f end) as [bs|] eqn:Eob; [|split; assumption].
    specialize (Hob bs eq_refl). split; [|exact Hrefl].
    exists st. cbn [ss_file ss_obj]. split; [exact Hp|]. split; [exact Hw|]. apply add_tags_consistent. exact Hob.
  - (* save *)
    destruct (match ob with Some bs0 => Some bs0 | None => sess_open f end) as [bs|] eqn:Eob; [|split; assumption].
    specialize (Hob bs eq_refl).
    destruct (flac_save_obj f bs t (mkOpts cb false)) as [f'|] eqn:Es; [|split; assumption].
    destruct (save_obj_consistent f st bs t (mkOpts cb false) f' Hp Hw Hob eq_refl Es) as (st' & Hp' & Hw' & Hsf & Hc' & _).
    split; [exists st'; cbn [ss_file ss_obj]; auto|]. cbn [ss_file]. exists st, st'. auto.
  - (* delete *)
    destruct (match ob with Some bs0 => Some bs0 | None => sess_open f end) as [bs|] eqn:Eob; [|split; assumption].
    specialize (Hob bs eq_refl).
    destruct (flac_delete_obj f bs) as [f'|] eqn:Es; [|split; assumption].
    destruct (delete_obj_consistent f st bs f' Hp Hw Hob Es) as (st' & Hp' & Hw' & Hsf & Hc' & _).
    split; [exists st'; cbn [ss_file ss_obj]; auto|]. cbn [ss_file]. exists st, st'. auto.
  - (* module-level delete *)
    destruct (flac_delete f) as [f'|] eqn:Es; [|split; assumption].
    destruct (delete_foreign f st f' Hp Hw Es) as (st' & Hp' & Hsf).
    pose proof (delete_wf f f' (wf_of_parse f st Hp Hw) Es) as Hwf'.
    destruct (wf_parse f' Hwf') as (st2 & Hp2 & Hw2). rewrite Hp' in Hp2. inversion Hp2; subst st2.
    split; [exists st'; cbn [ss_file ss_obj]; auto|]. cbn [ss_file]. exists st, st'. auto.
Qed.

Lemma preserved_trans a b c : preserved a b -> preserved b c -> preserved a c.
Proof.
  intros (s1 & s2 & H1 & H2 & H12) (s2' & s3 & H2' & H3 & H23). rewrite H2 in H2'. inversion H2'; subst s2'.
  exists s1, s3. split; [exact H1|]. split; [exact H3|]. eapply same_foreign_trans; eassumption.
Qed.

Theorem sess_history ops : forall s, sess_inv s ->
  sess_inv (fold_left sess_step ops s) /\ preserved (ss_file s) (ss_file (fold_left sess_step ops s)).
Proof.
  induction ops as [|o ops IH]; intros s Hinv; cbn [fold_left].
  - split; [exact Hinv|]. destruct Hinv as (st & Hp & Hw & _). exists st, st. split; [exact Hp|split; [exact Hp|apply same_foreign_refl]].
  - destruct (sess_step_inv s o Hinv) as [Hinv' Hpres]. destruct (IH _ Hinv') as [Hfin Hpres'].
    split; [exact Hfin|]. eapply preserved_trans; eassumption.
Qed.

(* a session that starts on a well-formed file without an object *)
Theorem session_wf ops f : flac_wf f = true ->
  flac_wf (ss_file (fold_left sess_step ops (mkSess f None))) = true /\
  preserved f (ss_file (fold_left sess_step ops (mkSess f None))).
Proof.
  intros Hwf. destruct (wf_parse f Hwf) as (st & Hp & Hw).
  assert (Hinv : sess_inv (mkSess f None)) by (exists st; cbn [ss_file ss_obj]; auto).
  destruct (sess_history ops _ Hinv) as [Hfin Hpres]. split; [apply sess_inv_wf; exact Hfin|exact Hpres].
Qed.
