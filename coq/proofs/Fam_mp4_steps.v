(* The patch steps of MP4Tags.save (__update_parents, __update_offset_table, __update_tfhd) one at a time:
   each is an overwrite inside a statically known site; what it writes; folds of steps over disjoint sites. *)
From Coq Require Import ZArith List Bool Lia.
Import ListNotations.
Require Import Base.Py Base.ZList Model.Splice Model.Fam_mp4 Proofs.Fam_mp4_bytes.
Open Scope Z_scope.

(* a step result g' differs from g at most inside [lo, hi) *)
Definition frame_in (lo hi : Z) (g g' : list Z) : Prop :=
  zlen g' = zlen g /\ forall i, 0 <= i -> i < lo \/ hi <= i -> znth i g' = znth i g.
Lemma frame_in_refl lo hi g : frame_in lo hi g g.
Proof. split; auto. Qed.
Lemma frame_in_patch lo hi g p bs : 0 <= p -> p + zlen bs <= zlen g -> lo <= p -> p + zlen bs <= hi ->
  frame_in lo hi g (patch g p bs).
Proof.
  intros. split; [apply zlen_patch; lia|]. intros i Hi Ho. apply znth_patch_out; lia.
Qed.

(* ------------------------------------------------------------------ __update_parents, one ancestor *)
Lemma update_parent_frame delta g o g' : 0 <= o ->
  mp4_update_parent delta g o = Ok g' -> frame_in o (o + 16) g g'.
Proof.
  intros Ho. unfold mp4_update_parent.
  destruct (zlen (mp4_rd g o 4) <? 4) eqn:E4; [discriminate|].
  assert (H4 : o + 4 <= zlen g) by (apply zlen_rd_full; try lia; rewrite zlen_rd in * by lia; lia).
  destruct (be_decode (mp4_rd g o 4) =? 0) eqn:E0. { intros H; inversion H; subst. apply frame_in_refl. }
  destruct (be_decode (mp4_rd g o 4) =? 1) eqn:E1.
  - destruct (zlen (mp4_rd g (o + 4) 12) <? 12) eqn:E12; [discriminate|].
    rewrite zlen_rd in E12 by lia.
    match goal with |- context [if ?c then _ else _] => destruct c end; [discriminate|].
    intros H; inversion H; subst. apply frame_in_patch; rewrite ?zlen_be_enc; lia.
  - match goal with |- context [if ?c then _ else _] => destruct c end; [discriminate|].
    intros H; inversion H; subst. apply frame_in_patch; rewrite ?zlen_be_enc; lia.
Qed.

Lemma update_parent_size0 delta g o : 0 <= o -> o + 4 <= zlen g -> be_decode (mp4_rd g o 4) = 0 ->
  mp4_update_parent delta g o = Ok g.
Proof.
  intros Ho H4 H0. unfold mp4_update_parent. rewrite zlen_rd_in by lia.
  cbn [Z.ltb Z.compare Pos.compare Pos.compare_cont]. rewrite H0. reflexivity.
Qed.
Lemma update_parent_32 delta g o s g' : 0 <= o -> o + 4 <= zlen g -> be_decode (mp4_rd g o 4) = s ->
  s <> 0 -> s <> 1 -> mp4_update_parent delta g o = Ok g' ->
  0 <= s + delta < MP4_U32 /\ g' = patch g o (be_encode 4 (s + delta)).
Proof.
  intros Ho H4 Hs H0 H1. unfold mp4_update_parent. rewrite zlen_rd_in by lia.
  cbn [Z.ltb Z.compare Pos.compare Pos.compare_cont]. rewrite Hs.
  destruct (s =? 0) eqn:E0; [lia|]. destruct (s =? 1) eqn:E1; [lia|].
  destruct ((s + delta <? 0) || (MP4_U32 <=? s + delta)) eqn:E; [discriminate|].
  intros H; inversion H; subst. split; [|reflexivity]. apply orb_false_iff in E. lia.
Qed.
Lemma update_parent_64 delta g o l g' : 0 <= o -> o + 16 <= zlen g -> be_decode (mp4_rd g o 4) = 1 ->
  be_decode (mp4_rd g (o + 8) 8) = l -> mp4_update_parent delta g o = Ok g' ->
  0 <= l + delta < MP4_U64 /\ g' = patch g (o + 8) (be_encode 8 (l + delta)).
Proof.
  intros Ho H16 H1 Hl. unfold mp4_update_parent. rewrite zlen_rd_in by lia.
  cbn [Z.ltb Z.compare Pos.compare Pos.compare_cont]. rewrite H1. cbn [Z.eqb Pos.eqb].
  rewrite zlen_rd_in by lia. cbn [Z.ltb Z.compare Pos.compare Pos.compare_cont].
  rewrite zdrop_rd by lia. replace (o + 4 + 4) with (o + 8) by lia. replace (12 - 4) with 8 by lia. rewrite Hl.
  destruct ((l + delta <? 0) || (MP4_U64 <=? l + delta)) eqn:E; [discriminate|].
  intros H; inversion H; subst. split; [|reflexivity]. apply orb_false_iff in E. lia.
Qed.

(* ------------------------------------------------------------------ __update_offset_table *)
Definition tab_entries (w : nat) (g : list Z) (ao : Z) : list Z :=
  let cnt := be_decode (mp4_rd g (ao + 12) 4) in
  mp4_unpack (Z.of_nat w) (Z.to_nat cnt) (mp4_rd g (ao + 16) (Z.of_nat w * cnt)).

Lemma read_full_ok g p n : 0 <= n -> 0 <= p -> p + n <= zlen g -> mp4_read_full g p n = Ok (mp4_rd g p n).
Proof.
  intros Hn Hp Hf. unfold mp4_read_full. destruct (n <? 0) eqn:E; [lia|].
  destruct (zlen g - p <? n) eqn:E2; [lia|]. reflexivity.
Qed.
Lemma read_full_inv g p n d : 0 <= p -> mp4_read_full g p n = Ok d -> 0 <= n /\ d = mp4_rd g p n /\ (0 < n -> p + n <= zlen g) /\ zlen d = n.
Proof.
  intros Hp. unfold mp4_read_full. destruct (n <? 0) eqn:E; [discriminate|].
  destruct (zlen g - p <? n) eqn:E2; [discriminate|]. intros H; inversion H; subst.
  rewrite zlen_rd by lia. repeat split; lia.
Qed.

Lemma update_table_frame w delta offset g a g' :
  0 <= mp4_moved offset delta (ma_off a) -> 12 <= ma_len a ->
  mp4_update_table w delta offset g a = Ok g' ->
  frame_in (mp4_moved offset delta (ma_off a) + 16) (mp4_moved offset delta (ma_off a) + ma_len a) g g'.
Proof.
  intros Hao Hlen. unfold mp4_update_table. set (ao := mp4_moved offset delta (ma_off a)) in *.
  destruct (ma_len a <? 16) eqn:E16; [discriminate|].
  destruct (mp4_read_full g (ao + 12) (ma_len a - 12)) as [data0|] eqn:Er; [|discriminate].
  assert (Hao12 : 0 <= ao + 12) by lia.
  destruct (read_full_inv g (ao + 12) (ma_len a - 12) data0 Hao12 Er) as (Hn & -> & Hfit & Hd).
  set (data := mp4_rd g (ao + 12) (ma_len a - 12)) in *.
  destruct (zlen (ztake 4 data) <? 4) eqn:E4; [discriminate|].
  set (cnt := be_decode (ztake 4 data)).
  destruct (negb (zlen (zdrop 4 data) =? Z.of_nat w * cnt)) eqn:Eb; [discriminate|].
  apply negb_false_iff in Eb. apply Z.eqb_eq in Eb.
  match goal with |- context [if ?c then _ else _] => destruct c end; [|discriminate].
  intros H; inversion H; subst g'.
  assert (H4 : 4 <= zlen data). { rewrite zlen_ztake in E4 by lia. lia. }
  rewrite zlen_zdrop in Eb by lia.
  apply frame_in_patch; rewrite ?zlen_pack, ?zlen_map, ?zlen_unpack; try lia.
Qed.

(* what it writes when the table is well formed in g: count unchanged, every entry shifted *)
Lemma update_table_spec w delta offset g a g' :
  (0 < w)%nat ->
  let ao := mp4_moved offset delta (ma_off a) in
  let cnt := be_decode (mp4_rd g (ao + 12) 4) in
  0 <= ao -> 0 <= cnt -> ma_len a = 16 + Z.of_nat w * cnt -> ao + ma_len a <= zlen g ->
  mp4_update_table w delta offset g a = Ok g' ->
  g' = patch g (ao + 16) (mp4_pack w (map (mp4_shift offset delta) (tab_entries w g ao))) /\
  Forall (fun o => 0 <= o < 256 ^ Z.of_nat w) (map (mp4_shift offset delta) (tab_entries w g ao)) /\
  tab_entries w g' ao = map (mp4_shift offset delta) (tab_entries w g ao) /\
  mp4_rd g' (ao + 12) 4 = mp4_rd g (ao + 12) 4.
Proof.
  intros Hw ao cnt Hao Hcnt Hlen Hfit. unfold mp4_update_table. fold ao.
  assert (Hwc : 0 <= Z.of_nat w * cnt) by nia.
  destruct (ma_len a <? 16) eqn:E16; [lia|].
  rewrite read_full_ok by lia.
  rewrite ztake_rd by lia. rewrite zlen_rd_in by lia. cbn [Z.ltb Z.compare Pos.compare Pos.compare_cont].
  fold cnt. rewrite zdrop_rd by lia. replace (ao + 12 + 4) with (ao + 16) by lia.
  replace (ma_len a - 12 - 4) with (Z.of_nat w * cnt) by lia.
  rewrite zlen_rd_in by lia. rewrite Z.eqb_refl. cbn [negb].
  change (mp4_unpack (Z.of_nat w) (Z.to_nat cnt) (mp4_rd g (ao + 16) (Z.of_nat w * cnt))) with (tab_entries w g ao) at 1 2.
  set (news := map (mp4_shift offset delta) (tab_entries w g ao)).
  destruct (forallb (fun o => (0 <=? o) && (o <? 256 ^ Z.of_nat w)) news) eqn:Ef; [|discriminate].
  intros H; inversion H; subst g'. clear H.
  assert (Hrange : Forall (fun o => 0 <= o < 256 ^ Z.of_nat w) news).
  { apply Forall_forall. intros o Ho. rewrite forallb_forall in Ef. specialize (Ef o Ho).
    apply andb_true_iff in Ef. lia. }
  assert (Hn : zlen news = cnt).
  { unfold news. rewrite zlen_map. unfold tab_entries. fold cnt. rewrite zlen_unpack. lia. }
  assert (Hpk : zlen (mp4_pack w news) = Z.of_nat w * cnt) by (rewrite zlen_pack, Hn; reflexivity).
  split; [reflexivity|]. split; [exact Hrange|].
  assert (Hcount : mp4_rd (patch g (ao + 16) (mp4_pack w news)) (ao + 12) 4 = mp4_rd g (ao + 12) 4).
  { apply rd_patch_out; lia. }
  split; [|exact Hcount].
  unfold tab_entries at 1. rewrite Hcount. fold cnt.
  rewrite <- Hpk. rewrite rd_patch_in by lia.
  rewrite <- (app_nil_r (mp4_pack w news)).
  replace (Z.to_nat cnt) with (length news) by (unfold zlen in Hn; lia).
  apply unpack_pack. exact Hrange.
Qed.

(* ------------------------------------------------------------------ __update_tfhd *)
Lemma update_tfhd_frame delta offset g a g' :
  0 <= mp4_moved offset delta (ma_off a) -> 9 <= ma_len a ->
  mp4_update_tfhd delta offset g a = Ok g' ->
  frame_in (mp4_moved offset delta (ma_off a) + 16) (mp4_moved offset delta (ma_off a) + ma_len a) g g'.
Proof.
  intros Hao Hlen. unfold mp4_update_tfhd. set (ao := mp4_moved offset delta (ma_off a)) in *.
  destruct (ma_len a <? 12) eqn:E12; [discriminate|].
  destruct (mp4_read_full g (ao + 9) (ma_len a - 9)) as [data0|] eqn:Er; [|discriminate].
  assert (Hao9 : 0 <= ao + 9) by lia.
  destruct (read_full_inv g (ao + 9) (ma_len a - 9) data0 Hao9 Er) as (Hn & -> & Hfit & Hd).
  set (data := mp4_rd g (ao + 9) (ma_len a - 9)) in *.
  destruct (zlen (ztake 3 data) <? 3) eqn:E3; [discriminate|].
  destruct (Z.odd (be_decode (ztake 3 data))) eqn:Eo; [|intros H; inversion H; subst; apply frame_in_refl].
  destruct (zlen data <? 15) eqn:E15; [discriminate|].
  match goal with |- context [if ?c then _ else _] => destruct c end; [discriminate|].
  intros H; inversion H; subst g'.
  apply frame_in_patch; rewrite ?zlen_be_enc; lia.
Qed.

Definition tfhd_flag (g : list Z) (ao : Z) : bool := Z.odd (be_decode (mp4_rd g (ao + 9) 3)).
Definition tfhd_base (g : list Z) (ao : Z) : Z := be_decode (mp4_rd g (ao + 16) 8).

Lemma update_tfhd_spec delta offset g a g' :
  let ao := mp4_moved offset delta (ma_off a) in
  0 <= ao -> 12 <= ma_len a -> (tfhd_flag g ao = true -> 24 <= ma_len a) -> ao + ma_len a <= zlen g ->
  mp4_update_tfhd delta offset g a = Ok g' ->
  tfhd_flag g' ao = tfhd_flag g ao /\
  (tfhd_flag g ao = false -> g' = g) /\
  (tfhd_flag g ao = true ->
     let o' := (if tfhd_base g ao >? offset then tfhd_base g ao + delta else tfhd_base g ao) in
     0 <= o' < MP4_U64 /\ g' = patch g (ao + 16) (be_encode 8 o') /\ tfhd_base g' ao = o').
Proof.
  intros ao Hao Hlen Hflag Hfit. unfold mp4_update_tfhd. fold ao.
  destruct (ma_len a <? 12) eqn:E12; [lia|].
  rewrite read_full_ok by lia.
  rewrite ztake_rd by lia. rewrite zlen_rd_in by lia. cbn [Z.ltb Z.compare Pos.compare Pos.compare_cont].
  change (Z.odd (be_decode (mp4_rd g (ao + 9) 3))) with (tfhd_flag g ao).
  destruct (tfhd_flag g ao) eqn:Ef.
  - specialize (Hflag eq_refl). rewrite zlen_rd_in by lia. destruct (ma_len a - 9 <? 15) eqn:E15; [lia|].
    replace (zslice 7 15 (mp4_rd g (ao + 9) (ma_len a - 9))) with (mp4_rd (mp4_rd g (ao + 9) (ma_len a - 9)) 7 8)
      by (rewrite (rd_is_slice (mp4_rd g (ao + 9) (ma_len a - 9))) by lia; reflexivity).
    rewrite rd_sub by lia. replace (ao + 9 + 7) with (ao + 16) by lia.
    change (be_decode (mp4_rd g (ao + 16) 8)) with (tfhd_base g ao).
    set (o' := if tfhd_base g ao >? offset then tfhd_base g ao + delta else tfhd_base g ao).
    destruct ((o' <? 0) || (MP4_U64 <=? o')) eqn:E; [discriminate|]. apply orb_false_iff in E.
    intros H; inversion H; subst g'. clear H.
    assert (Hb : mp4_rd (patch g (ao + 16) (be_encode 8 o')) (ao + 9) 3 = mp4_rd g (ao + 9) 3).
    { apply rd_patch_out; rewrite ?zlen_be_enc; lia. }
    split; [unfold tfhd_flag in *; rewrite Hb; exact Ef|]. split; [discriminate|]. intros _.
    split; [lia|]. split; [reflexivity|].
    unfold tfhd_base. replace 8 with (zlen (be_encode 8 o')) at 2 by apply zlen_be_enc.
    rewrite rd_patch_in by (rewrite ?zlen_be_enc; lia). apply be_dec_enc8. lia.
  - intros H; inversion H; subst g'. split; [exact Ef|]. split; [reflexivity|discriminate].
Qed.

(* ------------------------------------------------------------------ folds of steps over sites *)
Section Fold.
  Variable step : list Z -> mp4_atom -> result (list Z).
  Variables lo hi : mp4_atom -> Z.
  Variable pre : mp4_atom -> Prop.
  Hypothesis step_frame : forall g a g', pre a -> step g a = Ok g' -> frame_in (lo a) (hi a) g g'.

  Lemma fold_atoms_frame l : forall g g', Forall pre l -> mp4_fold_atoms step g l = Ok g' ->
    zlen g' = zlen g /\ forall i, 0 <= i -> (forall a, In a l -> i < lo a \/ hi a <= i) -> znth i g' = znth i g.
  Proof.
    induction l as [|a r IH]; intros g g' Hp H.
    - cbn in H. inversion H; subst. split; auto.
    - cbn [mp4_fold_atoms] in H. destruct (step g a) as [g1|e] eqn:E; [|discriminate].
      inversion Hp as [|? ? Hpa Hpr]; subst.
      destruct (step_frame _ _ _ Hpa E) as (L1 & F1). destruct (IH _ _ Hpr H) as (L2 & F2).
      split; [lia|]. intros i Hi Hout. rewrite F2; [|lia|intros b Hb; apply Hout; right; exact Hb].
      apply F1; [lia|]. apply Hout. left; reflexivity.
  Qed.

  Lemma fold_atoms_split l1 a l2 : forall g g', mp4_fold_atoms step g (l1 ++ a :: l2) = Ok g' ->
    exists g1 g2, mp4_fold_atoms step g l1 = Ok g1 /\ step g1 a = Ok g2 /\ mp4_fold_atoms step g2 l2 = Ok g'.
  Proof.
    induction l1 as [|b r IH]; intros g g' H.
    - cbn [app mp4_fold_atoms] in H. destruct (step g a) as [g2|e] eqn:E; [|discriminate].
      exists g, g2. repeat split; auto.
    - cbn [app mp4_fold_atoms] in H. destruct (step g b) as [gb|e] eqn:E; [|discriminate].
      destruct (IH _ _ H) as (g1 & g2 & H1 & H2 & H3). exists g1, g2. cbn [mp4_fold_atoms]. rewrite E. auto.
  Qed.
End Fold.

Lemma fold_parents_frame delta l : forall g g', Forall (fun o => 0 <= o) l ->
  mp4_fold (mp4_update_parent delta) g l = Ok g' ->
  zlen g' = zlen g /\ forall i, 0 <= i -> (forall o, In o l -> i < o \/ o + 16 <= i) -> znth i g' = znth i g.
Proof.
  induction l as [|a r IH]; intros g g' Hp H.
  - cbn in H. inversion H; subst. split; auto.
  - cbn [mp4_fold] in H. destruct (mp4_update_parent delta g a) as [g1|e] eqn:E; [|discriminate].
    inversion Hp as [|? ? Hpa Hpr]; subst.
    destruct (update_parent_frame _ _ _ _ Hpa E) as (L1 & F1). destruct (IH _ _ Hpr H) as (L2 & F2).
    split; [lia|]. intros i Hi Hout. rewrite F2; [|lia|intros b Hb; apply Hout; right; exact Hb].
    apply F1; [lia|]. apply Hout. left; reflexivity.
Qed.
Lemma fold_parents_split delta l1 a l2 : forall g g', mp4_fold (mp4_update_parent delta) g (l1 ++ a :: l2) = Ok g' ->
  exists g1 g2, mp4_fold (mp4_update_parent delta) g l1 = Ok g1 /\ mp4_update_parent delta g1 a = Ok g2 /\
                mp4_fold (mp4_update_parent delta) g2 l2 = Ok g'.
Proof.
  induction l1 as [|b r IH]; intros g g' H.
  - cbn [app mp4_fold] in H. destruct (mp4_update_parent delta g a) as [g2|e] eqn:E; [|discriminate].
    exists g, g2. repeat split; auto.
  - cbn [app mp4_fold] in H. destruct (mp4_update_parent delta g b) as [gb|e] eqn:E; [|discriminate].
    destruct (IH _ _ H) as (g1 & g2 & H1 & H2 & H3). exists g1, g2. cbn [mp4_fold]. rewrite E. auto.
Qed.
