(* APEv2 family: codecs.  LE32 round trip; positional reads (rd) on concatenations; the item codec
   (strict reader after the renderer = identity for valid keys and any value bytes); the items tiling lemma;
   the same for the mirror of mutagen's lenient reader (needs UTF-8 text values); the layout of header/footer. *)
From Coq Require Import ZArith List Bool Lia Permutation.
Import ListNotations.
Require Import Base.Py Base.ZList Model.Sort Model.Splice Model.Fam_ape Proofs.SortPerm.
Open Scope Z_scope.
Ltac Zify.zify_post_hook ::= Z.to_euclidean_division_equations.

(* ------------------------------------------------------------------ integer codec *)
Lemma zlen_le_encode n v : zlen (le_encode n v) = Z.of_nat n.
Proof. revert v; induction n; intros v; cbn [le_encode]; [reflexivity|]. rewrite zlen_cons, IHn. lia. Qed.
Lemma le_decode_encode n v : 0 <= v < 256 ^ Z.of_nat n -> le_decode (le_encode n v) = v.
Proof.
  revert v; induction n; intros v Hv.
  - cbn in *. lia.
  - cbn [le_encode le_decode]. rewrite IHn.
    + lia.
    + rewrite Nat2Z.inj_succ, Z.pow_succ_r in Hv by lia. lia.
Qed.
Lemma le32_round v : 0 <= v < W32 -> le_decode (le_encode 4 v) = v.
Proof. intros. apply le_decode_encode. unfold W32 in *. change (256 ^ Z.of_nat 4) with 4294967296. lia. Qed.

(* ------------------------------------------------------------------ positional reads *)
Lemma rd_app_r a b p n : zlen a <= p -> rd (a ++ b) p n = rd b (p - zlen a) n.
Proof. intros. unfold rd. rewrite zdrop_app_r by lia. reflexivity. Qed.
Lemma rd_at a b k n : 0 <= k -> rd (a ++ b) (zlen a + k) n = rd b k n.
Proof. intros. rewrite rd_app_r by lia. f_equal. lia. Qed.
Lemma rd_app_l a b p n : 0 <= p -> 0 <= n -> p + n <= zlen a -> rd (a ++ b) p n = rd a p n.
Proof.
  intros. unfold rd. rewrite zdrop_app_l by lia. apply ztake_app_l.
  rewrite zlen_zdrop by lia. lia.
Qed.
Lemma zlen_rd f p n : 0 <= p -> 0 <= n -> p + n <= zlen f -> zlen (rd f p n) = n.
Proof. intros. unfold rd. rewrite zlen_ztake, zlen_zdrop by lia. lia. Qed.
Lemma zlen_rd_le f p n : 0 <= n -> zlen (rd f p n) <= n.
Proof. intros. unfold rd. rewrite zlen_ztake by lia. lia. Qed.
Lemma rd_prefix a b : rd (a ++ b) 0 (zlen a) = a.
Proof. unfold rd. rewrite zdrop_0. apply ztake_app_exact. Qed.
Lemma rd_all a : rd a 0 (zlen a) = a.
Proof. unfold rd. rewrite zdrop_0. apply ztake_all. lia. Qed.

Lemma firstn_skipn_comm {A} a n (l : list A) : skipn a (firstn n l) = firstn (n - a) (skipn a l).
Proof.
  revert n l; induction a as [|a IH]; intros n l.
  - cbn [skipn]. rewrite Nat.sub_0_r. reflexivity.
  - destruct n as [|n]; [destruct (skipn (S a) l); reflexivity|].
    destruct l as [|x l]; [cbn [firstn skipn]; rewrite firstn_nil; reflexivity|]. cbn [firstn skipn Nat.sub]. apply IH.
Qed.
(* a slice of a read is a read *)
Lemma zslice_rd f p n a b : 0 <= p -> 0 <= a <= b -> b <= n -> zslice a b (rd f p n) = rd f (p + a) (b - a).
Proof.
  intros Hp Hab Hbn. unfold zslice, rd, ztake, zdrop.
  rewrite firstn_skipn_comm, firstn_firstn, skipn_skipn'.
  f_equal; [lia|]. f_equal. lia.
Qed.
Lemma ztake_rd f p n k : 0 <= k <= n -> ztake k (rd f p n) = rd f p k.
Proof. intros. unfold rd. rewrite ztake_ztake. f_equal. lia. Qed.

(* ------------------------------------------------------------------ markers *)
Lemma starts_with_app p r : starts_with p (p ++ r) = true.
Proof. induction p as [|x p IH]; cbn [starts_with app]; [reflexivity|]. rewrite Z.eqb_refl, IH. reflexivity. Qed.
Lemma starts_with_firstn p : forall l, starts_with p l = true -> firstn (length p) l = p.
Proof.
  induction p as [|x p IH]; intros l H; [reflexivity|].
  destruct l as [|y l]; cbn [starts_with] in H; [discriminate|].
  apply andb_true_iff in H as [H1 H2]. apply Z.eqb_eq in H1. subst y. cbn [length firstn]. f_equal. apply IH, H2.
Qed.
Lemma firstn_starts_with p : forall l, firstn (length p) l = p -> starts_with p l = true.
Proof.
  induction p as [|x p IH]; intros l H; [reflexivity|].
  destruct l as [|y l]; cbn [length firstn] in H; [discriminate|].
  injection H as Hy Hp. subst y. cbn [starts_with]. rewrite Z.eqb_refl. cbn [andb]. apply IH. exact Hp.
Qed.
Lemma has_marker_skipn k : forall l, has_marker (skipn k l) = true -> has_marker l = true.
Proof.
  induction k as [|k IH]; intros l H; [exact H|].
  destruct l as [|x l]; [exact H|]. cbn [skipn] in H. apply IH in H.
  cbn [has_marker]. rewrite H. apply orb_true_r.
Qed.
(* a successful probe anywhere exhibits the marker *)
Lemma is_marker_has f p : is_marker f p = true -> has_marker f = true.
Proof.
  unfold is_marker, rd, ztake, zdrop. intros H. apply list_eqb_spec in H.
  apply has_marker_skipn with (k := Z.to_nat p).
  destruct (skipn (Z.to_nat p) f) as [|x l] eqn:E; [discriminate|].
  cbn [has_marker]. apply orb_true_iff. left. apply firstn_starts_with. exact H.
Qed.
Lemma no_marker_probe f p : has_marker f = false -> is_marker f p = false.
Proof. intros H. destruct (is_marker f p) eqn:E; [|reflexivity]. apply is_marker_has in E. congruence. Qed.
Lemma has_marker_app_l a b : has_marker a = true -> has_marker (a ++ b) = true.
Proof.
  induction a as [|x a IH]; [discriminate|]. cbn [has_marker app]. intros H.
  apply orb_true_iff in H as [H|H]; apply orb_true_iff; [left|right; apply IH, H].
  change (x :: a ++ b) with ((x :: a) ++ b).
  apply starts_with_firstn in H. apply firstn_starts_with.
  rewrite firstn_app. rewrite H.
  assert (Hl : (length APETAGEX <= length (x :: a))%nat).
  { rewrite <- H at 1. rewrite firstn_length. lia. }
  replace (length APETAGEX - length (x :: a))%nat with O by lia. cbn [firstn]. apply app_nil_r.
Qed.
Lemma has_marker_app_r a b : has_marker b = true -> has_marker (a ++ b) = true.
Proof. intros H. induction a as [|x a IH]; [exact H|]. cbn [has_marker app]. rewrite IH. apply orb_true_r. Qed.
Lemma no_marker_app a b : has_marker (a ++ b) = false -> has_marker a = false /\ has_marker b = false.
Proof.
  intros H. split.
  - destruct (has_marker a) eqn:E; [|reflexivity]. rewrite (has_marker_app_l a b E) in H. discriminate.
  - destruct (has_marker b) eqn:E; [|reflexivity]. rewrite (has_marker_app_r a b E) in H. discriminate.
Qed.

(* ------------------------------------------------------------------ header / footer layout *)
Lemma zlen_hdr v s c fl : zlen (ape_hdr v s c fl) = 32.
Proof. reflexivity. Qed.
Lemma hdr_marker v s c fl r : rd (ape_hdr v s c fl ++ r) 0 8 = APETAGEX.
Proof. reflexivity. Qed.
Lemma hdr_fields16 v s c fl r :
  rd (ape_hdr v s c fl ++ r) 8 16 = le_encode 4 v ++ le_encode 4 s ++ le_encode 4 c ++ le_encode 4 fl.
Proof. reflexivity. Qed.
Lemma hdr_ver_size_count v s c fl r :
  rd (ape_hdr v s c fl ++ r) 8 12 = le_encode 4 v ++ le_encode 4 s ++ le_encode 4 c.
Proof. reflexivity. Qed.
Lemma hdr_size v s c fl r : rd (ape_hdr v s c fl ++ r) 12 4 = le_encode 4 s.
Proof. reflexivity. Qed.
Lemma hdr_count v s c fl r : rd (ape_hdr v s c fl ++ r) 16 4 = le_encode 4 c.
Proof. reflexivity. Qed.
Lemma hdr_flags v s c fl r : rd (ape_hdr v s c fl ++ r) 20 4 = le_encode 4 fl.
Proof. reflexivity. Qed.

(* ------------------------------------------------------------------ items *)
Lemma find_nul_key k r : forallb key_char k = true -> find_nul (k ++ 0 :: r) = Some (k, r).
Proof.
  induction k as [|a k IH]; cbn [forallb app find_nul]; intros H.
  - reflexivity.
  - apply andb_true_iff in H as [H1 H2]. unfold key_char in H1.
    destruct (a =? 0) eqn:E; [lia|]. rewrite (IH H2). reflexivity.
Qed.

Lemma item_head a b c :
  ztake 4 (le_encode 4 a ++ le_encode 4 b ++ c) = le_encode 4 a /\
  zslice 4 8 (le_encode 4 a ++ le_encode 4 b ++ c) = le_encode 4 b /\
  zdrop 8 (le_encode 4 a ++ le_encode 4 b ++ c) = c /\
  zlen (le_encode 4 a ++ le_encode 4 b ++ c) = 8 + zlen c.
Proof.
  repeat split; try reflexivity.
  rewrite !zlen_app, !zlen_le_encode. lia.
Qed.

Lemma render_item_shape it d :
  render_item it ++ d = le_encode 4 (zlen (ivalue it)) ++ le_encode 4 (2 * ikind it) ++ (ikey it ++ 0 :: (ivalue it ++ d)).
Proof. unfold render_item. rewrite <- !app_assoc. reflexivity. Qed.

Lemma valid_key_chars k : apekey_valid k = true -> forallb key_char k = true.
Proof. unfold apekey_valid. intros H. repeat (apply andb_true_iff in H as [H ?]). assumption. Qed.

Lemma kind_cases k : kind_valid k = true -> k = 0 \/ k = 1 \/ k = 2.
Proof. unfold kind_valid. lia. Qed.

Lemma ape_items_cons n it d :
  item_valid it = true -> item_fits it = true ->
  ape_items (S n) (render_item it ++ d) =
  match ape_items n d with Ok (its, r) => Ok (it :: its, r) | Raise e => Raise e end.
Proof.
  intros Hv Hf. unfold item_valid in Hv. apply andb_true_iff in Hv as [Hk Hkind].
  unfold item_fits in Hf. apply andb_true_iff in Hf as [Hf Hf3]. apply andb_true_iff in Hf as [Hf1 Hf2].
  pose proof (zlen_nonneg (ivalue it)) as Hn. pose proof (zlen_nonneg d) as Hd.
  pose proof (zlen_nonneg (ikey it)) as Hkn.
  rewrite render_item_shape.
  destruct (item_head (zlen (ivalue it)) (2 * ikind it) (ikey it ++ 0 :: (ivalue it ++ d))) as (E1 & E2 & E3 & E4).
  cbn [ape_items]. rewrite E1, E2, E3, E4.
  destruct (8 + zlen (ikey it ++ 0 :: ivalue it ++ d) <? 8) eqn:C1.
  { pose proof (zlen_nonneg (ikey it ++ 0 :: ivalue it ++ d)). lia. }
  rewrite !le32_round by (unfold W32 in *; lia).
  destruct (kind_cases _ Hkind) as [K|[K|K]]; rewrite K;
    (change ((2 * 0 <? 0) || (8 <=? 2 * 0)) with false || change ((2 * 1 <? 0) || (8 <=? 2 * 1)) with false || change ((2 * 2 <? 0) || (8 <=? 2 * 2)) with false);
    (change (2 * 0 / 2) with 0 || change (2 * 1 / 2) with 1 || change (2 * 2 / 2) with 2);
    (change (0 =? 3) with false || change (1 =? 3) with false || change (2 =? 3) with false);
    cbv iota; rewrite (find_nul_key _ _ (valid_key_chars _ Hk)); rewrite Hk; cbn [negb];
    (destruct (zlen (ivalue it ++ d) <? zlen (ivalue it)) eqn:C2; [rewrite zlen_app in C2; lia|]);
    rewrite ztake_app_exact, zdrop_app_exact; destruct it as [k kd v]; cbn [ikey ikind ivalue] in *; subst kd; reflexivity.
Qed.

Lemma ape_items_render its : forall rest,
  forallb item_valid its = true -> forallb item_fits its = true ->
  ape_items (length its) (flat_map render_item its ++ rest) = Ok (its, rest).
Proof.
  induction its as [|it its IH]; intros rest Hv Hf; [reflexivity|].
  cbn [forallb] in Hv, Hf. apply andb_true_iff in Hv as [Hv1 Hv2]. apply andb_true_iff in Hf as [Hf1 Hf2].
  cbn [length flat_map]. rewrite <- app_assoc. rewrite ape_items_cons by assumption.
  rewrite IH by assumption. reflexivity.
Qed.

(* the rendered item determines the item: render_item is injective on valid items *)
Lemma render_item_inj a b :
  item_valid a = true -> item_fits a = true -> item_valid b = true -> item_fits b = true ->
  render_item a = render_item b -> a = b.
Proof.
  intros Va Fa Vb Fb E.
  pose proof (ape_items_cons 0 a [] Va Fa) as Ha. pose proof (ape_items_cons 0 b [] Vb Fb) as Hb.
  rewrite E in Ha. rewrite Ha in Hb. cbn [ape_items] in Hb. congruence.
Qed.

(* ------------------------------------------------------------------ the sorted body *)
Definition sort_items (items : list item) : list item := isort (by_key len_lex_leb render_item) items.

Lemma render_body_sorted items : render_body items = flat_map render_item (sort_items items).
Proof. unfold render_body, sort_items. rewrite isort_map. rewrite flat_map_concat_map. reflexivity. Qed.
Lemma sort_items_perm items : Permutation (sort_items items) items.
Proof. apply isort_perm. Qed.
Lemma sort_items_length items : length (sort_items items) = length items.
Proof. apply isort_length. Qed.
Lemma zlen_sort_items items : zlen (sort_items items) = zlen items.
Proof. unfold zlen. rewrite sort_items_length. reflexivity. Qed.
Lemma forallb_perm {A} (p : A -> bool) l l' : Permutation l l' -> forallb p l = forallb p l'.
Proof.
  induction 1; cbn [forallb]; try congruence.
  destruct (p x), (p y); reflexivity.
Qed.
Lemma sort_items_forallb p items : forallb p (sort_items items) = forallb p items.
Proof. apply forallb_perm, sort_items_perm. Qed.

(* C07, order independence: the rendered tag depends only on the multiset of items *)
Lemma render_body_perm items items' : Permutation items items' -> render_body items = render_body items'.
Proof.
  intros H. unfold render_body. f_equal. apply sorted_bytes_perm_inv. apply Permutation_map. exact H.
Qed.
Lemma render_tag_perm items items' : Permutation items items' -> ape_render_tag items = ape_render_tag items'.
Proof.
  intros H. unfold ape_render_tag. rewrite (render_body_perm _ _ H).
  assert (zlen items = zlen items') as -> by (unfold zlen; rewrite (Permutation_length H); reflexivity).
  reflexivity.
Qed.
Lemma tag_fits_perm items items' : Permutation items items' -> tag_fits items = tag_fits items'.
Proof.
  intros H. unfold tag_fits. rewrite (render_body_perm _ _ H), (forallb_perm _ _ _ H).
  assert (zlen items = zlen items') as -> by (unfold zlen; rewrite (Permutation_length H); reflexivity).
  reflexivity.
Qed.

(* what the strict reader returns is valid *)
Lemma ape_items_valid n : forall d its r, ape_items n d = Ok (its, r) -> forallb item_valid its = true.
Proof.
  induction n as [|n IH]; intros d its r H; cbn [ape_items] in H.
  - injection H as <- _. reflexivity.
  - destruct (zlen d <? 8); [discriminate|].
    destruct ((le_decode (zslice 4 8 d) <? 0) || (8 <=? le_decode (zslice 4 8 d))) eqn:C1; [discriminate|].
    destruct (le_decode (zslice 4 8 d) / 2 =? 3) eqn:C2; [discriminate|].
    destruct (find_nul (zdrop 8 d)) as [[key rest]|]; [|discriminate].
    destruct (apekey_valid key) eqn:C3; [|discriminate]. cbn [negb] in H.
    destruct (zlen rest <? le_decode (ztake 4 d)); [discriminate|].
    destruct (ape_items n _) as [[its' r']|] eqn:E; [|discriminate].
    injection H as <- <-. cbn [forallb]. rewrite (IH _ _ _ E), andb_true_r.
    unfold item_valid. cbn [ikey ikind]. rewrite C3. cbn [andb]. unfold kind_valid. lia.
Qed.
