(* Proofs.C04_dsf -- totality of the DSF.load mirror (Model.Parse_dsf). *)
From Coq Require Import ZArith List Bool Lia.
Import ListNotations.
Require Import Base.Py Base.ZList Model.Parse_base Model.Parse_dsf Proofs.C04_lib.
Open Scope Z_scope.

Local Ltac punpack := apply pspecE_unpack_le; [rewrite zlen_zslice; lia|cbv beta].

(* an absolute seek to any offset: done, or OverflowError / ValueError *)
Lemma pspecE_seek_abs_any off d p :
  pspecE (fun e => e = EMutagen \/ (exc_eqb e EOverflow || exc_eqb e EValue) = true) (p_seek off 0) d p (fun _ p' => 0 <= p').
Proof.
  unfold pspecE, p_seek. destruct (in_ssize off); cbn [negb]; [|right; reflexivity].
  replace (0 =? 0) with true by reflexivity.
  destruct (off <? 0) eqn:E; [right; reflexivity|]. apply Z.ltb_ge in E. exact E.
Qed.

Lemma dsf_dsd_chunk_spec d p : 0 <= p -> pspec dsf_dsd_chunk d p (fun _ p' => 0 <= p').
Proof.
  intro Hp. unfold dsf_dsd_chunk. pose proof (zlen_nonneg d).
  pstep. pstep.
  destruct (zlen r =? 28) eqn:E; cbn [negb]; [|praiseM]. apply Z.eqb_eq in E.
  pstep; [|praiseM].
  pstep. punpack. pstep; [|praiseM].
  pstep. punpack. pstep. punpack. pstep. lia.
Qed.

Lemma dsf_fmt_chunk_spec d p : 0 <= p -> pspec dsf_fmt_chunk d p (fun _ p' => 0 <= p').
Proof.
  intro Hp. unfold dsf_fmt_chunk. pose proof (zlen_nonneg d).
  pstep. pstep.
  destruct (zlen r =? 52) eqn:E; cbn [negb]; [|praiseM]. apply Z.eqb_eq in E.
  pstep; [|praiseM].
  pstep. punpack. pstep; [|praiseM].
  pstep. punpack. pstep; [|praiseM].
  pstep. punpack. pstep; [|praiseM].
  pstep. punpack. pstep. punpack. pstep. punpack. pstep. punpack. pstep. punpack. pstep. lia.
Qed.

Lemma dsf_data_chunk_spec d p : 0 <= p -> pspec dsf_data_chunk d p (fun _ p' => 0 <= p').
Proof.
  intro Hp. unfold dsf_data_chunk. pose proof (zlen_nonneg d).
  pstep. pstep.
  destruct (zlen r =? 12) eqn:E; cbn [negb]; [|praiseM]. apply Z.eqb_eq in E.
  pstep; [|praiseM].
  pstep. punpack. pstep; [praiseM|]. pstep. lia.
Qed.

Lemma dsf_pre_load_header_spec d p : pspec dsf_pre_load_header d p (fun _ p' => 0 <= p').
Proof.
  unfold dsf_pre_load_header. apply pspec_convert_io.
  pstep. pstep. pstep.
  eapply pspecE_post; [apply dsf_dsd_chunk_spec; lia|].
  intros [ts loc] p' Hp'. cbv beta.
  pstep; [pstep; exact Hp'|].
  pstep. eapply pspecE_post.
  - apply pspec_catchM. apply pspecE_seek_abs_any.
  - intros u p'' Hp''. cbv beta. pstep. exact Hp''.
Qed.

Theorem dsf_total d : total (dsf_load d).
Proof.
  unfold dsf_load. eapply total_prun with (Q := fun _ _ => True).
  unfold dsf_init. apply pspec_convert_io.
  pstep. eapply pspecE_post; [apply dsf_dsd_chunk_spec; lia|].
  intros [ts loc] p1 Hp1. cbv beta.
  pstep. eapply pspecE_post; [apply dsf_fmt_chunk_spec; exact Hp1|].
  intros fmt p2 Hp2. cbv beta.
  pstep. eapply pspecE_post; [apply dsf_data_chunk_spec; exact Hp2|].
  intros ds p3 Hp3. cbv beta.
  pstep. eapply pspecE_post; [apply dsf_pre_load_header_spec|].
  intros l p4 Hp4. cbv beta.
  pstep. pstep. pstep. exact I.
Qed.
