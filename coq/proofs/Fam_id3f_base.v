(* Fam_id3f_base: list/byte facts, the syncsafe size field (from the C14 theorems), the ID3v1 search window,
   and the frame-header walker lemmas for Model.Fam_id3f. *)
From Coq Require Import ZArith List Bool Lia.
Import ListNotations.
Require Import Base.Py Base.ZList Model.Id3Util Model.Fam_id3f
  Proofs.C14_digits Proofs.C14_padding Proofs.C14_tostr.
Open Scope Z_scope.

(* ------------------------------------------------------------------ lists *)
Lemma zdrop_ztake_comm {A} a b (l : list A) : 0 <= a -> 0 <= b ->
  zdrop a (ztake (a + b) l) = ztake b (zdrop a l).
Proof.
  intros Ha Hb. unfold zdrop, ztake. replace (Z.to_nat (a + b)) with (Z.to_nat a + Z.to_nat b)%nat by lia.
  symmetry. apply firstn_skipn_comm.
Qed.

Lemma starts_with_app p r : starts_with p (p ++ r) = true.
Proof. induction p as [|x p IH]; cbn; [reflexivity|]. rewrite Z.eqb_refl. exact IH. Qed.

Lemma starts_with_firstn p : forall n l, (length p <= n)%nat -> starts_with p (firstn n l) = starts_with p l.
Proof.
  induction p as [|x p IH]; intros n l Hn; [reflexivity|].
  destruct n as [|n]; [cbn in Hn; lia|]. destruct l as [|y l]; [reflexivity|].
  cbn [firstn starts_with]. rewrite IH by (cbn in Hn; lia). reflexivity.
Qed.
Lemma starts_with_ztake p n l : zlen p <= n -> starts_with p (ztake n l) = starts_with p l.
Proof. intros H. unfold ztake. apply starts_with_firstn. unfold zlen in H. lia. Qed.

Lemma starts_with_split p : forall l, starts_with p l = true -> l = p ++ zdrop (zlen p) l.
Proof.
  induction p as [|x p IH]; intros l H; [reflexivity|].
  destruct l as [|y l]; [discriminate|]. cbn [starts_with] in H. apply andb_true_iff in H as [H1 H2].
  apply Z.eqb_eq in H1. subst y. rewrite zlen_cons.
  unfold zdrop. replace (Z.to_nat (1 + zlen p)) with (S (Z.to_nat (zlen p))) by (pose proof (zlen_nonneg p); lia).
  cbn [skipn app]. f_equal. apply IH. exact H2.
Qed.

Lemma znth_0_cons x l : znth 0 (x :: l) = x. Proof. reflexivity. Qed.
Lemma znth_app_l (a b : list Z) i : 0 <= i < zlen a -> znth i (a ++ b) = znth i a.
Proof. intros H. rewrite znth_app by lia. bset (i <? zlen a) true. reflexivity. Qed.

Lemma all_zero_zeros n : all_zero (zeros n) = true.
Proof. unfold all_zero, zeros. induction (Z.to_nat n); cbn; auto. Qed.
Lemma all_zero_app a b : all_zero (a ++ b) = all_zero a && all_zero b.
Proof. unfold all_zero. apply forallb_app. Qed.

Definition optb (o : option (list Z)) : list Z := match o with Some v => v | None => [] end.

(* ------------------------------------------------------------------ the syncsafe size field *)
Lemma syncsafe4_snoc l x : syncsafe4 (l ++ [x]) = syncsafe4 l * 128 + x.
Proof. unfold syncsafe4. rewrite fold_left_app. reflexivity. Qed.

Lemma le_val_syncsafe l : Forall (fun b => 0 <= b < 128) l -> le_val 7 l = syncsafe4 (rev l).
Proof.
  induction 1 as [|x l Hx Hl IH]; [reflexivity|].
  cbn [le_val rev]. rewrite syncsafe4_snoc, IH. change (2 ^ 7) with 128.
  rewrite Z.mod_small by lia. lia.
Qed.

Lemma is_7bit_Forall l : forallb is_7bit l = true <-> Forall (fun b => 0 <= b < 128) l.
Proof.
  rewrite forallb_forall, Forall_forall. unfold is_7bit. split; intros H x Hx; specialize (H x Hx); lia.
Qed.

Lemma Forall_rev' {A} (P : A -> Prop) l : Forall P l -> Forall P (rev l).
Proof. rewrite !Forall_forall. intros H x Hx. apply H. apply in_rev. exact Hx. Qed.

(* BitPaddedInt(size bytes) of mutagen = the format's syncsafe value, for 7-bit clean bytes *)
Lemma bpi_syncsafe l : forallb is_7bit l = true -> bpi_of_bytes 7 true l = Ok (syncsafe4 l).
Proof.
  intros H. apply is_7bit_Forall in H. rewrite bpi_of_bytes_be by lia. f_equal.
  rewrite le_val_syncsafe by (apply Forall_rev'; exact H). rewrite rev_involutive. reflexivity.
Qed.
Lemma bpi_total l : exists v, bpi_of_bytes 7 true l = Ok v.
Proof. eexists. apply bpi_of_bytes_be. lia. Qed.
Lemma hvp_syncsafe l : forallb is_7bit l = true -> has_valid_padding_bytes 7 l = Ok true.
Proof. intros H. apply is_7bit_Forall in H. apply hvp_bytes_digits; [lia|]. exact H. Qed.

Lemma syncsafe4_nonneg l : Forall (fun b => 0 <= b < 128) l -> 0 <= syncsafe4 l.
Proof.
  intros H. rewrite <- (rev_involutive l). apply Forall_rev' in H. revert H. generalize (rev l). clear l.
  induction 1 as [|x l Hx Hl IH]; [unfold syncsafe4; cbn; lia|].
  cbn [rev]. rewrite syncsafe4_snoc. lia.
Qed.

(* what a successful BitPaddedInt.to_str(v, width=4) says about v and the bytes (C14 theorems) *)
Lemma to_str_size_inv v bs : to_str v 7 true 4 4 = Ok bs ->
  0 <= v < 2 ^ 28 /\ zlen bs = 4 /\ forallb is_7bit bs = true /\ syncsafe4 bs = v.
Proof.
  intros H.
  destruct (Z_lt_ge_dec v 0) as [Hn|Hn]; [rewrite to_str_rejects_negative in H by lia; discriminate|].
  destruct (Z_lt_ge_dec v (2 ^ (7 * 4))) as [Hw|Hw];
    [|rewrite to_str_rejects_wide in H by lia; discriminate].
  destruct (to_str_fixed_ok 7 true 4 4 v ltac:(lia) ltac:(lia) ltac:(lia)) as (A & B & C & D & E).
  set (bs0 := endian true (le_digits (Z.to_nat 4) 7 v)) in *.
  rewrite A in H. assert (bs = bs0) by congruence. subst bs. clear H.
  change (2 ^ (7 * 4)) with (2 ^ 28) in Hw. change (2 ^ 7) with 128 in C.
  assert (H7 : forallb is_7bit bs0 = true) by (apply is_7bit_Forall; exact C).
  repeat split; try lia; try assumption.
  pose proof (bpi_syncsafe _ H7) as S. rewrite E in S. congruence.
Qed.
Lemma to_str_size_ok v : 0 <= v < 2 ^ 28 -> exists bs, to_str v 7 true 4 4 = Ok bs.
Proof.
  intros H. destruct (to_str_fixed_ok 7 true 4 4 v ltac:(lia) ltac:(lia)) as (A & _).
  { change (2 ^ (7 * 4)) with (2 ^ 28). lia. }
  eexists. exact A.
Qed.

Lemma len4 (l : list Z) : zlen l = 4 -> exists a b c d, l = [a; b; c; d].
Proof.
  unfold zlen. intros H. destruct l as [|a [|b [|c [|d [|e l]]]]]; cbn in H; try lia.
  exists a, b, c, d. reflexivity.
Qed.

(* ------------------------------------------------------------------ bytes.index *)
Lemma index_of_bounds pat : forall l i, index_of pat l = Some i -> 0 <= i <= zlen l.
Proof.
  induction l as [|x l IH]; intros i H; [discriminate|].
  cbn [index_of] in H. rewrite zlen_cons. pose proof (zlen_nonneg l).
  destruct (starts_with pat (x :: l)); [inversion H; lia|].
  destruct (index_of pat l) as [j|]; [|discriminate]. specialize (IH j eq_refl). inversion H; lia.
Qed.

Lemma zdrop_cons_S {A} (x : A) l j : 0 <= j -> zdrop (j + 1) (x :: l) = zdrop j l.
Proof. intros H. unfold zdrop. replace (Z.to_nat (j + 1)) with (S (Z.to_nat j)) by lia. reflexivity. Qed.

(* the index found is an occurrence ... *)
Lemma index_of_occ pat : forall l i, index_of pat l = Some i -> starts_with pat (zdrop i l) = true.
Proof.
  induction l as [|x l IH]; intros i H; [discriminate|].
  cbn [index_of] in H. destruct (starts_with pat (x :: l)) eqn:S.
  - inversion H; subst i. rewrite zdrop_0. exact S.
  - destruct (index_of pat l) as [j|] eqn:E; [|discriminate]. inversion H; subst i.
    pose proof (index_of_bounds _ _ _ E). rewrite zdrop_cons_S by lia. apply IH. reflexivity.
Qed.
(* ... and the first one *)
Lemma index_of_first pat : forall l i j, index_of pat l = Some i -> 0 <= j < i -> starts_with pat (zdrop j l) = false.
Proof.
  induction l as [|x l IH]; intros i j H Hj; [discriminate|].
  cbn [index_of] in H. destruct (starts_with pat (x :: l)) eqn:S; [inversion H; lia|].
  destruct (index_of pat l) as [k|] eqn:E; [|discriminate]. inversion H; subst i.
  destruct (Z.eq_dec j 0) as [->|Hn]; [rewrite zdrop_0; exact S|].
  replace j with ((j - 1) + 1) by lia. rewrite zdrop_cons_S by lia. apply (IH k); [reflexivity|lia].
Qed.
(* an occurrence at j means index finds one at or before j *)
Lemma index_of_le pat : pat <> [] -> forall l j, 0 <= j -> starts_with pat (zdrop j l) = true ->
  exists i, index_of pat l = Some i /\ i <= j.
Proof.
  intros Hp. induction l as [|x l IH]; intros j Hj S.
  - unfold zdrop in S. rewrite skipn_nil in S. destruct pat; [congruence|discriminate].
  - cbn [index_of]. destruct (starts_with pat (x :: l)) eqn:S0; [exists 0; split; [reflexivity|lia]|].
    destruct (Z.eq_dec j 0) as [->|Hn]; [rewrite zdrop_0 in S; congruence|].
    replace j with ((j - 1) + 1) in S by lia. rewrite zdrop_cons_S in S by lia.
    destruct (IH (j - 1) ltac:(lia) S) as (i & E & Hi). rewrite E. exists (i + 1). split; [reflexivity|lia].
Qed.
(* an index behind a prefix is an index in the rest *)
Lemma index_of_app_r pat : forall t m i, index_of pat (t ++ m) = Some i -> zlen t <= i ->
  index_of pat m = Some (i - zlen t).
Proof.
  induction t as [|x t IH]; intros m i H Hi.
  - cbn [app] in H. change (zlen (@nil Z)) with 0. rewrite Z.sub_0_r. exact H.
  - rewrite zlen_cons in *. pose proof (zlen_nonneg t). cbn [app index_of] in H.
    destruct (starts_with pat (x :: t ++ m)); [inversion H; lia|].
    destruct (index_of pat (t ++ m)) as [k|] eqn:E; [|discriminate]. inversion H; subst i.
    rewrite (IH m k E ltac:(lia)). f_equal. lia.
Qed.
Lemma ape_has_tag x : starts_with M_APE x = true -> starts_with M_TAG (zdrop 3 x) = true.
Proof.
  intros H. apply starts_with_split in H. rewrite H. change (zlen M_APE) with 8.
  change (zdrop 3 (M_APE ++ zdrop 8 x)) with (M_TAG ++ [69; 88] ++ zdrop 8 x). apply starts_with_app.
Qed.

(* ------------------------------------------------------------------ the ID3v1 search window *)
(* when the window begins at or behind `start`, the start parameter is irrelevant *)
Lemma find_v1_in_nostart off s data : s <= off -> find_v1_in off s data = find_v1_in 0 0 data.
Proof.
  intros H. unfold find_v1_in.
  destruct ((32 <=? zlen data) && starts_with M_APE (zdrop (zlen data - 32) data)); [reflexivity|].
  destruct (index_of M_TAG data) as [idx|] eqn:E; [|reflexivity].
  apply index_of_bounds in E.
  destruct (match index_of M_APE data with Some ape_idx => idx =? ape_idx + 3 | None => false end); [reflexivity|].
  bset (off + idx <? s) false. bset (0 + idx <? 0) false. reflexivity.
Qed.

Lemma find_id3v1_short s f : zlen f <= 131 -> find_id3v1 s f = find_v1_in 0 s f.
Proof. intros H. unfold find_id3v1. rewrite zdrop_neg by lia. rewrite Z.sub_diag. reflexivity. Qed.

(* a payload of at least 131 bytes keeps the search window away from what is in front of it *)
Lemma find_id3v1_app s a r : 131 <= zlen r -> s <= zlen a -> find_id3v1 s (a ++ r) = find_id3v1 0 r.
Proof.
  intros H Hs. unfold find_id3v1. rewrite zlen_app. pose proof (zlen_nonneg a).
  rewrite zdrop_app_r by lia. replace (zlen a + zlen r - 131 - zlen a) with (zlen r - 131) by lia.
  assert (L : zlen (zdrop (zlen r - 131) r) = 131) by (rewrite zlen_zdrop by lia; lia).
  rewrite L. rewrite (find_v1_in_nostart (zlen a + zlen r - 131) s) by lia.
  rewrite (find_v1_in_nostart (zlen r - 131) 0) by lia. reflexivity.
Qed.

(* THE window lemma for a payload of ANY length without ID3v1 tag: if the search on the payload alone finds nothing,
   the search on tag ++ payload that may not begin inside the tag finds nothing either (a b"TAG" in the tail of the
   tag stops the search, an occurrence in the payload is the payload's own first occurrence) *)
Lemma find_v1_in_prefix t m off : find_v1_in 0 0 m = None -> find_v1_in off (off + zlen t) (t ++ m) = None.
Proof.
  intros Hm. destruct (find_v1_in off (off + zlen t) (t ++ m)) as [n|] eqn:Hf; [|reflexivity]. exfalso.
  unfold find_v1_in in Hf. pose proof (zlen_nonneg t). pose proof (zlen_nonneg m).
  destruct ((32 <=? zlen (t ++ m)) && starts_with M_APE (zdrop (zlen (t ++ m) - 32) (t ++ m))) eqn:Ft; [discriminate|].
  destruct (index_of M_TAG (t ++ m)) as [idx|] eqn:Ei; [|discriminate].
  destruct (match index_of M_APE (t ++ m) with Some ape_idx => idx =? ape_idx + 3 | None => false end) eqn:Ea; [discriminate|].
  destruct (off + idx <? off + zlen t) eqn:Es; [discriminate|].
  destruct ((128 <? zlen (t ++ m) - idx) || (zlen (t ++ m) - idx <? 124)) eqn:El; [discriminate|].
  assert (Hi : zlen t <= idx) by lia.
  pose proof (index_of_app_r _ _ _ _ Ei Hi) as Em.
  unfold find_v1_in in Hm. rewrite Em in Hm.
  destruct ((32 <=? zlen m) && starts_with M_APE (zdrop (zlen m - 32) m)) eqn:Fm.
  - (* the payload ends with an APEv2 footer: so does the window *)
    apply andb_true_iff in Fm as [F1 F2]. rewrite zlen_app in Ft.
    rewrite zdrop_app_r in Ft by lia. replace (zlen t + zlen m - 32 - zlen t) with (zlen m - 32) in Ft by lia.
    rewrite F2 in Ft. assert (F3 : (32 <=? zlen t + zlen m) = true) by lia. rewrite F3 in Ft. discriminate.
  - destruct (match index_of M_APE m with Some ape_idx => idx - zlen t =? ape_idx + 3 | None => false end) eqn:Eam.
    + (* the payload's TAG is the one of an APETAGEX in the payload: then the window's first APETAGEX is that one too *)
      destruct (index_of M_APE m) as [a'|] eqn:Ea'; [|discriminate].
      pose proof (index_of_bounds _ _ _ Ea') as Ba'.
      pose proof (index_of_occ _ _ _ Ea') as Oa'.
      assert (Oa : starts_with M_APE (zdrop (zlen t + a') (t ++ m)) = true).
      { rewrite zdrop_app_r by lia. replace (zlen t + a' - zlen t) with a' by lia. exact Oa'. }
      destruct (index_of_le M_APE ltac:(discriminate) (t ++ m) (zlen t + a') ltac:(lia) Oa) as (a & Eaa & Ha).
      rewrite Eaa in Ea. pose proof (index_of_bounds _ _ _ Eaa) as Ba.
      assert (a + 3 < idx) by lia.
      pose proof (index_of_occ _ _ _ Eaa) as Occ. apply ape_has_tag in Occ.
      rewrite zdrop_zdrop in Occ by lia.
      rewrite (index_of_first _ _ _ (3 + a) Ei ltac:(lia)) in Occ. discriminate.
    + rewrite zlen_app in El. replace (zlen t + zlen m - idx) with (zlen m - (idx - zlen t)) in El by lia.
      rewrite El in Hm. assert (E0 : (0 + (idx - zlen t) <? 0) = false) by lia. rewrite E0 in Hm. discriminate.
Qed.

Lemma find_id3v1_prefix T m : find_id3v1 0 m = None -> find_id3v1 (zlen T) (T ++ m) = None.
Proof.
  intros Hm. pose proof (zlen_nonneg T). pose proof (zlen_nonneg m).
  destruct (Z_le_gt_dec 131 (zlen m)) as [L|L]; [rewrite find_id3v1_app by lia; exact Hm|].
  rewrite find_id3v1_short in Hm by lia.
  assert (Hm0 : find_v1_in 0 0 m = None) by exact Hm.
  unfold find_id3v1. rewrite zlen_app.
  destruct (Z_le_gt_dec (zlen T + zlen m - 131) 0) as [K|K].
  - rewrite zdrop_neg by lia. rewrite zlen_app. replace (zlen T + zlen m - (zlen T + zlen m)) with 0 by lia.
    pose proof (find_v1_in_prefix T m 0 Hm0) as P. rewrite Z.add_0_l in P. exact P.
  - rewrite zdrop_app_l by lia. set (t := zdrop (zlen T + zlen m - 131) T).
    assert (Lt : zlen t = 131 - zlen m) by (subst t; rewrite zlen_zdrop by lia; lia).
    rewrite zlen_app.
    pose proof (find_v1_in_prefix t m (zlen T - zlen t) Hm0) as P.
    replace (zlen T - zlen t + zlen t) with (zlen T) in P by lia.
    replace (zlen T + zlen m - (zlen t + zlen m)) with (zlen T - zlen t) by lia. exact P.
Qed.

Lemma strict_v1_app a r : 131 <= zlen r -> strict_v1 (a ++ r) = strict_v1 r.
Proof.
  intros H. unfold strict_v1. rewrite zlen_app. pose proof (zlen_nonneg a).
  rewrite !zdrop_app_r by lia.
  replace (zlen a + zlen r - 128 - zlen a) with (zlen r - 128) by lia.
  replace (zlen a + zlen r - 32 - zlen a) with (zlen r - 32) by lia.
  replace (zlen a + zlen r - 131 - zlen a) with (zlen r - 131) by lia.
  bset (128 <=? zlen a + zlen r) true. bset (128 <=? zlen r) true.
  bset (131 <=? zlen a + zlen r) true. bset (131 <=? zlen r) true. reflexivity.
Qed.

(* ------------------------------------------------------------------ the frame-header walker *)
Lemma walk_unfold k ver d : walk_frames (S k) ver d =
    let hl := if ver =? 2 then 6 else 10 in
    if (zlen d <? hl) || (znth 0 d =? 0) then (if all_zero d then Some 0 else None)
    else
      let idl := if ver =? 2 then 3 else 4 in
      let raw := zslice idl (if ver =? 2 then 6 else 8) d in
      if negb (forallb id_char (ztake idl d)) then None else
      if negb (forallb is_byte (ztake hl d)) then None else
      if (ver =? 4) && negb (forallb is_7bit raw) then None else
      let n := if ver =? 4 then syncsafe4 raw else be_decode raw in
      if (n <=? 0) || (zlen d <? hl + n) then None else
      match walk_frames k ver (zdrop (hl + n) d) with
      | Some m => Some (hl + n + m)
      | None => None
      end.
Proof. reflexivity. Qed.

Lemma walk_fuel_S ver : forall k d m, walk_frames k ver d = Some m -> walk_frames (S k) ver d = Some m.
Proof.
  induction k as [|k IH]; intros d m H; [discriminate|].
  rewrite walk_unfold in H; cbv zeta in H. rewrite walk_unfold; cbv zeta.
  destruct ((zlen d <? (if ver =? 2 then 6 else 10)) || (znth 0 d =? 0)); [exact H|].
  destruct (negb (forallb id_char (ztake (if ver =? 2 then 3 else 4) d))); [exact H|].
  destruct (negb (forallb is_byte (ztake (if ver =? 2 then 6 else 10) d))); [exact H|].
  destruct ((ver =? 4) && negb (forallb is_7bit (zslice (if ver =? 2 then 3 else 4) (if ver =? 2 then 6 else 8) d))); [exact H|].
  match goal with |- context [if ?c then None else _] => destruct c end; [exact H|].
  match type of H with context [walk_frames k ver ?x] => destruct (walk_frames k ver x) as [m'|] eqn:E end; [|discriminate].
  rewrite (IH _ _ E). exact H.
Qed.
Lemma walk_fuel_le ver k k' d m : (k <= k')%nat -> walk_frames k ver d = Some m -> walk_frames k' ver d = Some m.
Proof. induction 1; intros W; [exact W|]. apply walk_fuel_S. auto. Qed.

Lemma walk_bounds ver : forall k d m, walk_frames k ver d = Some m -> 0 <= m <= zlen d.
Proof.
  induction k as [|k IH]; intros d m H; [discriminate|].
  rewrite walk_unfold in H; cbv zeta in H. pose proof (zlen_nonneg d).
  destruct ((zlen d <? (if ver =? 2 then 6 else 10)) || (znth 0 d =? 0)).
  { destruct (all_zero d); inversion H; lia. }
  destruct (negb (forallb id_char (ztake (if ver =? 2 then 3 else 4) d))); [discriminate|].
  destruct (negb (forallb is_byte (ztake (if ver =? 2 then 6 else 10) d))); [discriminate|].
  destruct ((ver =? 4) && negb (forallb is_7bit (zslice (if ver =? 2 then 3 else 4) (if ver =? 2 then 6 else 8) d))); [discriminate|].
  match type of H with context [if ?c then None else _] => destruct c eqn:C end; [discriminate|].
  match type of H with context [walk_frames k ver ?x] => destruct (walk_frames k ver x) as [m'|] eqn:E end; [|discriminate].
  apply IH in E. inversion H; subst m. clear H.
  apply orb_false_iff in C as [C1 C2].
  rewrite zlen_zdrop in E by (destruct (ver =? 2); lia). destruct (ver =? 2); lia.
Qed.

(* walking frames followed by zero padding stops where walking the frames alone stops *)
Lemma walk_app_zeros ver z : forall k d m, walk_frames k ver d = Some m -> walk_frames k ver (d ++ zeros z) = Some m.
Proof.
  induction k as [|k IH]; intros d m H; [discriminate|].
  rewrite walk_unfold in H; cbv zeta in H. rewrite walk_unfold; cbv zeta. pose proof (zlen_nonneg d). pose proof (zlen_nonneg (zeros z)).
  set (hl := if ver =? 2 then 6 else 10) in *. set (idl := if ver =? 2 then 3 else 4) in *.
  set (e := if ver =? 2 then 6 else 8) in *.
  assert (Hhl : 6 <= hl <= 10 /\ 3 <= idl <= 4 /\ idl <= e <= hl /\ e - idl <= 4) by (subst hl idl e; destruct (ver =? 2); lia).
  destruct ((zlen d <? hl) || (znth 0 d =? 0)) eqn:C.
  - destruct (all_zero d) eqn:Z0; [|discriminate]. inversion H; subst m.
    assert (C' : (zlen (d ++ zeros z) <? hl) || (znth 0 (d ++ zeros z) =? 0) = true).
    { apply orb_true_iff. right. destruct d as [|x d']; [cbn [app]; rewrite znth_zeros; reflexivity|].
      cbn [app]. rewrite znth_0_cons. unfold all_zero in Z0. cbn [forallb] in Z0. apply andb_true_iff in Z0 as [Z1 _]. lia. }
    rewrite C'. rewrite all_zero_app, Z0, all_zero_zeros. reflexivity.
  - apply orb_false_iff in C as [C1 C2].
    assert (C' : (zlen (d ++ zeros z) <? hl) || (znth 0 (d ++ zeros z) =? 0) = false).
    { apply orb_false_iff. rewrite zlen_app. split; [lia|]. rewrite znth_app_l by lia. exact C2. }
    rewrite C'.
    rewrite (ztake_app_l idl) by lia. rewrite (ztake_app_l hl) by lia.
    assert (S : zslice idl e (d ++ zeros z) = zslice idl e d).
    { unfold zslice. rewrite zdrop_app_l by lia. apply ztake_app_l. rewrite zlen_zdrop by lia. lia. }
    rewrite S.
    destruct (negb (forallb id_char (ztake idl d))); [discriminate|].
    destruct (negb (forallb is_byte (ztake hl d))); [discriminate|].
    destruct ((ver =? 4) && negb (forallb is_7bit (zslice idl e d))); [discriminate|].
    set (n := if ver =? 4 then syncsafe4 (zslice idl e d) else be_decode (zslice idl e d)) in *.
    destruct ((n <=? 0) || (zlen d <? hl + n)) eqn:D; [discriminate|].
    apply orb_false_iff in D as [D1 D2].
    assert (D' : (n <=? 0) || (zlen (d ++ zeros z) <? hl + n) = false).
    { apply orb_false_iff. rewrite zlen_app. split; lia. }
    rewrite D'. rewrite zdrop_app_l by lia.
    destruct (walk_frames k ver (zdrop (hl + n) d)) as [m'|] eqn:E; [|discriminate].
    rewrite (IH _ _ E). exact H.
Qed.

(* walking only the frame area consumes it completely *)
Lemma walk_prefix ver : forall k d m, walk_frames k ver d = Some m -> walk_frames k ver (ztake m d) = Some m.
Proof.
  induction k as [|k IH]; intros d m H; [discriminate|].
  pose proof (walk_bounds _ _ _ _ H) as Hb.
  rewrite walk_unfold in H; cbv zeta in H. rewrite walk_unfold; cbv zeta. pose proof (zlen_nonneg d).
  set (hl := if ver =? 2 then 6 else 10) in *. set (idl := if ver =? 2 then 3 else 4) in *.
  set (e := if ver =? 2 then 6 else 8) in *.
  assert (Hhl : 6 <= hl <= 10 /\ 3 <= idl <= 4 /\ idl <= e <= hl /\ e - idl <= 4) by (subst hl idl e; destruct (ver =? 2); lia).
  destruct ((zlen d <? hl) || (znth 0 d =? 0)) eqn:C.
  - destruct (all_zero d) eqn:Z0; [|discriminate]. inversion H; subst m.
    rewrite ztake_0. cbn [zlen length Z.of_nat]. change (zlen (@nil Z)) with 0.
    bset (0 <? hl) true. cbn [orb]. reflexivity.
  - apply orb_false_iff in C as [C1 C2].
    destruct (negb (forallb id_char (ztake idl d))) eqn:G1; [discriminate|].
    destruct (negb (forallb is_byte (ztake hl d))) eqn:G2; [discriminate|].
    destruct ((ver =? 4) && negb (forallb is_7bit (zslice idl e d))) eqn:G3; [discriminate|].
    set (n := if ver =? 4 then syncsafe4 (zslice idl e d) else be_decode (zslice idl e d)) in *.
    destruct ((n <=? 0) || (zlen d <? hl + n)) eqn:D; [discriminate|].
    apply orb_false_iff in D as [D1 D2].
    destruct (walk_frames k ver (zdrop (hl + n) d)) as [m'|] eqn:E; [|discriminate].
    inversion H; subst m. clear H.
    pose proof (walk_bounds _ _ _ _ E) as Hb'. rewrite zlen_zdrop in Hb' by lia.
    assert (L : zlen (ztake (hl + n + m') d) = hl + n + m') by (rewrite zlen_ztake by lia; lia).
    assert (C' : (zlen (ztake (hl + n + m') d) <? hl) || (znth 0 (ztake (hl + n + m') d) =? 0) = false).
    { apply orb_false_iff. split; [lia|]. rewrite znth_ztake by lia. exact C2. }
    rewrite C'.
    rewrite !ztake_ztake. replace (Z.min idl (hl + n + m')) with idl by lia.
    replace (Z.min hl (hl + n + m')) with hl by lia.
    assert (S : zslice idl e (ztake (hl + n + m') d) = zslice idl e d).
    { unfold zslice. replace (hl + n + m') with (idl + (hl + n + m' - idl)) by lia.
      rewrite zdrop_ztake_comm by lia. rewrite ztake_ztake. f_equal. lia. }
    rewrite S, G1, G2, G3. fold n. rewrite L.
    assert (D' : (n <=? 0) || (hl + n + m' <? hl + n) = false) by (apply orb_false_iff; split; lia).
    rewrite D'.
    replace (hl + n + m') with ((hl + n) + m') by lia. rewrite zdrop_ztake_comm by lia.
    rewrite (IH _ _ E). reflexivity.
Qed.

Lemma frames_ok_spec ver fr : frames_ok ver fr = true <-> frames_len ver fr = Some (zlen fr).
Proof.
  unfold frames_ok. destruct (frames_len ver fr) as [n|]; split; intros H; try discriminate.
  - apply Z.eqb_eq in H. congruence.
  - inversion H. apply Z.eqb_refl.
Qed.

(* "walking (frames ++ zeros n) stops after frames with padding n" *)
Lemma frames_len_padded ver fr pad : frames_ok ver fr = true ->
  frames_len ver (fr ++ zeros pad) = Some (zlen fr).
Proof.
  intros H. apply frames_ok_spec in H. unfold frames_len in *.
  apply walk_app_zeros. eapply walk_fuel_le; [|exact H]. rewrite app_length. lia.
Qed.
(* the frame area found in a tag body is itself a well-formed frame sequence *)
Lemma frames_len_prefix ver body n : frames_len ver body = Some n -> frames_ok ver (ztake n body) = true.
Proof.
  intros H. pose proof (walk_bounds _ _ _ _ H) as Hb. apply frames_ok_spec. unfold frames_len in *.
  apply walk_prefix in H. rewrite zlen_ztake by lia. replace (Z.min n (zlen body)) with n by lia.
  (* fuel: S (length (ztake n body)) <= S (length body), but less fuel is needed: go through the bound *)
  assert (F : forall k d m, walk_frames k ver d = Some m -> (length d < k)%nat \/ True) by auto.
  clear F.
  (* a walk that succeeds with fuel k on d succeeds with fuel S (length d) *)
  assert (G : forall k d m, walk_frames k ver d = Some m -> walk_frames (S (length d)) ver d = Some m).
  { induction k as [|k IH]; intros d m W; [discriminate|].
    pose proof W as W0. rewrite walk_unfold in W; cbv zeta in W. rewrite walk_unfold; cbv zeta. pose proof (zlen_nonneg d).
    destruct ((zlen d <? (if ver =? 2 then 6 else 10)) || (znth 0 d =? 0)) eqn:C; [exact W|].
    destruct (negb (forallb id_char (ztake (if ver =? 2 then 3 else 4) d))); [discriminate|].
    destruct (negb (forallb is_byte (ztake (if ver =? 2 then 6 else 10) d))); [discriminate|].
    destruct ((ver =? 4) && negb (forallb is_7bit (zslice (if ver =? 2 then 3 else 4) (if ver =? 2 then 6 else 8) d))); [discriminate|].
    match type of W with context [if ?c then None else _] => destruct c eqn:D end; [discriminate|].
    match type of W with context [walk_frames k ver ?x] => destruct (walk_frames k ver x) as [m'|] eqn:E end; [|discriminate].
    apply IH in E. apply orb_false_iff in C as [C1 C2]. apply orb_false_iff in D as [D1 D2].
    match type of E with walk_frames (S (length ?x)) _ _ = _ =>
      assert (Hl : (S (length x) <= length d)%nat) end.
    { assert (zlen (zdrop ((if ver =? 2 then 6 else 10) + (if ver =? 4 then syncsafe4 (zslice (if ver =? 2 then 3 else 4) (if ver =? 2 then 6 else 8) d) else be_decode (zslice (if ver =? 2 then 3 else 4) (if ver =? 2 then 6 else 8) d))) d) < zlen d).
      { rewrite zlen_zdrop by (destruct (ver =? 2); lia). destruct (ver =? 2); lia. }
      unfold zlen in *. lia. }
    rewrite (walk_fuel_le _ _ _ _ _ Hl E). exact W. }
  apply (G _ _ _ H).
Qed.
