(* APEv2 family: the mirror of mutagen's own (lenient) reader, APEv2.__parse_tag behind _APEv2Data, on what
   save wrote: it returns the items that were set, in file order.  Text and external values must be valid UTF-8
   (mutagen holds them as str; the mirror decodes them), binary values are arbitrary bytes. *)
From Coq Require Import ZArith List Bool Lia Permutation.
Import ListNotations.
Require Import Base.Py Base.ZList Model.Sort Model.Splice Model.Fam_ape
  Proofs.SortPerm Proofs.Fam_ape_codec Proofs.Fam_ape_locate Proofs.Fam_ape_save Proofs.Fam_ape_props.
Open Scope Z_scope.

Definition text_ok (it : item) : bool := (ikind it =? 1) || ape_utf8_valid (ivalue it).

Lemma key_ascii k : forallb key_char k = true -> forallb (fun c => c <? 128) k = true.
Proof.
  induction k as [|c k IH]; cbn [forallb]; [reflexivity|]. intros H. apply andb_true_iff in H as [H1 H2].
  rewrite (IH H2), andb_true_r. unfold key_char in H1. lia.
Qed.

Lemma mut_items_cons n it d :
  item_valid it = true -> item_fits it = true -> text_ok it = true ->
  ape_mut_items (S n) (render_item it ++ d) =
  match ape_mut_items n d with Ok its => Ok (it :: its) | Raise e => Raise e end.
Proof.
  intros Hv Hf Ht. unfold item_valid in Hv. apply andb_true_iff in Hv as [Hk Hkind].
  unfold item_fits in Hf. apply andb_true_iff in Hf as [Hf Hf3]. apply andb_true_iff in Hf as [Hf1 Hf2].
  pose proof (zlen_nonneg (ivalue it)) as Hn. pose proof (zlen_nonneg d) as Hd.
  destruct (item_head (zlen (ivalue it)) (2 * ikind it) (ikey it ++ 0 :: (ivalue it ++ d))) as (E1 & E2 & E3 & E4).
  cbn [ape_mut_items].
  remember (render_item it ++ d) as R eqn:HR. destruct R as [|z R'].
  { exfalso. apply (f_equal zlen) in HR. rewrite render_item_shape, E4 in HR.
    pose proof (zlen_nonneg (ikey it ++ 0 :: ivalue it ++ d)). unfold zlen at 1 in HR. cbn [length] in HR. lia. }
  rewrite HR. rewrite render_item_shape. rewrite E1, E2, E3, E4.
  destruct (8 + zlen (ikey it ++ 0 :: ivalue it ++ d) <? 8) eqn:C1.
  { pose proof (zlen_nonneg (ikey it ++ 0 :: ivalue it ++ d)). lia. }
  rewrite !le32_round by (unfold W32 in *; lia).
  rewrite (find_nul_key _ _ (valid_key_chars _ Hk)). rewrite (key_ascii _ (valid_key_chars _ Hk)), Hk. cbn [negb].
  destruct (zlen (ivalue it ++ d) <? zlen (ivalue it)) eqn:C2; [rewrite zlen_app in C2; lia|].
  rewrite ztake_app_exact, zdrop_app_exact. unfold text_ok in Ht.
  destruct it as [k kd v]; cbn [ikey ikind ivalue] in *.
  destruct (kind_cases _ Hkind) as [K|[K|K]]; subst kd;
    (change (Z.shiftr (Z.land (2 * 0) 6) 1) with 0 || change (Z.shiftr (Z.land (2 * 1) 6) 1) with 1
     || change (Z.shiftr (Z.land (2 * 2) 6) 1) with 2);
    (change (0 =? 3) with false || change (1 =? 3) with false || change (2 =? 3) with false);
    (change (0 =? 1) with false in * || change (1 =? 1) with true in * || change (2 =? 1) with false in * );
    cbn [negb andb orb] in *; try rewrite Ht; cbn [negb]; reflexivity.
Qed.

Lemma mut_items_render its : forall rest,
  forallb item_valid its = true -> forallb item_fits its = true -> forallb text_ok its = true ->
  ape_mut_items (length its) (flat_map render_item its ++ rest) = Ok its.
Proof.
  induction its as [|it its IH]; intros rest Hv Hf Ht; [reflexivity|].
  cbn [forallb] in Hv, Hf, Ht. apply andb_true_iff in Hv as [Hv1 Hv2]. apply andb_true_iff in Hf as [Hf1 Hf2].
  apply andb_true_iff in Ht as [Ht1 Ht2].
  cbn [length flat_map]. rewrite <- app_assoc. rewrite mut_items_cons by assumption.
  rewrite IH by assumption. reflexivity.
Qed.

(* geometry of body ++ tag as the strict reader and mutagen's locator see it *)
Lemma tag_bytes_geometry body ver its : its_fit its = true ->
  let f := body ++ tag_bytes ver its in
  let B := flat_map render_item its in
  strict_end f = Some (zlen f) /\ ft_size f (zlen f) = zlen B + 32 /\ ft_count f (zlen f) = zlen its /\
  tag_start f (zlen f) = zlen body /\ rd f (zlen f - (zlen B + 32)) (zlen B) = B.
Proof.
  intros Hf. cbv zeta. unfold its_fit in Hf. apply andb_true_iff in Hf as [Hf Hf3]. apply andb_true_iff in Hf as [Hf1 Hf2].
  set (B := flat_map render_item its) in *.
  set (H := ape_hdr ver (zlen B + 32) (zlen its) (HAS_HEADER + IS_HEADER)).
  set (F := ape_hdr ver (zlen B + 32) (zlen its) HAS_HEADER).
  pose proof (zlen_nonneg body) as Nb. pose proof (zlen_nonneg B) as NB. pose proof (zlen_nonneg its) as Ni.
  assert (EH : zlen H = 32) by reflexivity. assert (EF : zlen F = 32) by reflexivity.
  set (f := body ++ tag_bytes ver its).
  assert (Ef1 : f = body ++ (H ++ (B ++ F))) by reflexivity.
  assert (Ef2 : f = (body ++ H) ++ (B ++ F)) by (rewrite Ef1, app_assoc; reflexivity).
  assert (Ef3 : f = (body ++ H ++ B) ++ (F ++ [])).
  { rewrite Ef1, app_nil_r, <- !app_assoc. reflexivity. }
  assert (En : zlen f = zlen body + 64 + zlen B).
  { rewrite Ef1, !zlen_app. lia. }
  assert (EX : zlen (body ++ H ++ B) = zlen f - 32) by (rewrite !zlen_app; lia).
  assert (RF : forall k m, 0 <= k -> rd f (zlen f - 32 + k) m = rd (F ++ []) k m).
  { intros k m Hk. rewrite Ef3 at 1. rewrite <- EX. apply rd_at. exact Hk. }
  assert (F12 : rd (F ++ []) 12 4 = le_encode 4 (zlen B + 32)) by reflexivity.
  assert (F16 : rd (F ++ []) 16 4 = le_encode 4 (zlen its)) by reflexivity.
  assert (F20 : rd (F ++ []) 20 4 = le_encode 4 HAS_HEADER) by reflexivity.
  assert (S1 : ft_size f (zlen f) = zlen B + 32).
  { unfold ft_size. rewrite RF, F12 by lia. apply le32_round. unfold W32 in *. lia. }
  assert (S2 : ft_count f (zlen f) = zlen its).
  { unfold ft_count. rewrite RF, F16 by lia. apply le32_round. unfold W32 in *. lia. }
  assert (S3 : ft_flags f (zlen f) = HAS_HEADER).
  { unfold ft_flags. rewrite RF, F20 by lia. apply le32_round. unfold W32, HAS_HEADER. lia. }
  split.
  { unfold strict_end. cbv zeta. unfold is_marker at 1.
    replace (zlen f - 32) with (zlen f - 32 + 0) by lia. rewrite RF by lia.
    assert (F0 : rd (F ++ []) 0 8 = APETAGEX) by reflexivity. rewrite F0.
    destruct (32 <=? zlen f) eqn:E; [reflexivity|lia]. }
  split; [exact S1|]. split; [exact S2|]. split.
  { unfold tag_start, ft_hashdr. rewrite S1, S3. change (negb (Z.land HAS_HEADER HAS_HEADER =? 0)) with true. cbv iota. lia. }
  replace (zlen f - (zlen B + 32)) with (zlen (body ++ H) + 0) by (rewrite zlen_app; lia).
  rewrite Ef2 at 1. rewrite rd_at by lia. apply rd_prefix.
Qed.

Theorem mut_load_tag_bytes real body ver its :
  has_marker body = false -> forallb item_valid its = true -> its_fit its = true -> forallb text_ok its = true ->
  ape_mut_load real (body ++ tag_bytes ver its) = Ok (match its with [] => None | _ => Some its end).
Proof.
  intros Hm Hv Hf Ht. destruct (tag_bytes_geometry body ver its Hf) as (SE & S1 & S2 & S4 & S5).
  set (f := body ++ tag_bytes ver its) in *. set (B := flat_map render_item its) in *.
  pose proof (zlen_nonneg body) as Nb. pose proof (zlen_nonneg B) as NB.
  destruct (locate_tagged real f (zlen f) SE) as (l & Hl & _ & _ & _ & L4 & L5 & L6 & _).
  - lia.
  - lia.
  - rewrite S4. unfold f. rewrite ztake_app_exact. exact Hm.
  - unfold ape_mut_load. rewrite Hl. unfold loc_tag. rewrite L4, L5, L6, S1, S2.
    replace (zlen B + 32 - 32) with (zlen B) by lia. rewrite S5.
    unfold its_fit in Hf. apply andb_true_iff in Hf as [Hf _]. apply andb_true_iff in Hf as [Hf1 _].
    destruct its as [|it its'].
    + reflexivity.
    + pose proof (zlen_flat_render (it :: its')) as Hc. fold B in Hc.
      assert (HB : B <> []).
      { intros E. rewrite E in Hc. unfold zlen in Hc. cbn [length] in Hc. lia. }
      destruct B as [|b0 B'] eqn:EB; [congruence|]. rewrite <- EB in *.
      replace (Z.to_nat (Z.min (zlen (it :: its')) (zlen B))) with (length (it :: its')) by (unfold zlen in *; lia).
      rewrite <- (app_nil_r B). unfold B. rewrite mut_items_render by assumption. reflexivity.
Qed.

(* C01 through the mirror of mutagen's own reader *)
Theorem C01_save_mut_load real f items f' :
  ape_wf f = true -> forallb item_valid items = true -> forallb text_ok items = true ->
  ape_save real f items = Ok f' -> ape_mut_load real f' = Ok (canon items).
Proof.
  intros Hwf Hv Ht Hs. destruct (wf_inv f Hwf) as (s & Hp & _).
  destruct (save_result real f s items f' Hwf Hp Hv Hs) as (-> & Hf & Hm & _ & _).
  rewrite render_tag_bytes. rewrite mut_load_tag_bytes.
  - unfold canon. destruct (sort_items items); reflexivity.
  - exact Hm.
  - rewrite sort_items_forallb. exact Hv.
  - rewrite <- tag_fits_sorted. exact Hf.
  - rewrite sort_items_forallb. exact Ht.
Qed.
