(* Proofs.C04_ac3 -- totality of the AC3Info.__init__ mirror (Model.Parse_ac3).
   Reader invariant: 0 <= buffer < 2^bits, 0 <= bits < 8; bits(count) returns 0 <= v < 2^count (so the list
   look-ups behind the code checks stay in range) and moves the stream by at most `count` bytes. *)
From Coq Require Import ZArith List Bool Lia.
Import ListNotations.
Require Import Base.Py Base.ZList Model.Parse_base Model.Parse_ac3 Proofs.C04_lib.
Open Scope Z_scope.

Definition brinv (s : brs) : Prop := 0 <= fst s < 2 ^ snd s /\ 0 <= snd s < 8.
Definition brQ (p K : Z) : brs -> Z -> Prop := fun s' p' => brinv s' /\ p <= p' <= p + K.
Definition brQv (p K c : Z) : Z * brs -> Z -> Prop :=
  fun vs p' => 0 <= fst vs < 2 ^ c /\ brinv (snd vs) /\ p <= p' <= p + K.

Lemma brinv0 : brinv (0, 0). Proof. unfold brinv; cbn [fst snd]. change (2 ^ 0) with 1. lia. Qed.

Lemma pow_split buf b c : 0 <= b -> 0 <= c -> 0 <= buf < 2 ^ (b + c) ->
  (0 <= buf / 2 ^ b < 2 ^ c) /\ (0 <= buf mod 2 ^ b < 2 ^ b).
Proof.
  intros Hb Hc H. rewrite Z.pow_add_r in H by lia.
  assert (0 < 2 ^ b) by (apply Z.pow_pos_nonneg; lia).
  split.
  - split; [apply Z.div_pos; lia|apply Z.div_lt_upper_bound; lia].
  - apply Z.mod_pos_bound; lia.
Qed.

Lemma div8_bounds c : 8 * (c / 8) <= c < 8 * (c / 8) + 8.
Proof. pose proof (Z.div_mod c 8 ltac:(lia)). pose proof (Z.mod_pos_bound c 8 ltac:(lia)). lia. Qed.

Section WithE.
Variable E : exc -> Prop.
Hypothesis HEB : E EBitReader.
Hypothesis HEM : E EMutagen.

Lemma br_bits_spec count s d p :
  bytes_ok d -> brinv s -> 0 <= count -> 0 <= p -> p + count < c04_two62 ->
  pspecE E (br_bits count s) d p (brQv p count count).
Proof.
  intros Hd [Hbuf Hbits] Hc Hp Hpc. destruct s as [buffer bits]. cbn [fst snd] in *.
  unfold c04_two62 in *. pose proof (zlen_nonneg d).
  unfold br_bits. destruct (count <? 0) eqn:E1; [lia|].
  apply pspecE_bind.
  apply pspecE_post with (Q := fun bb p' => 0 <= fst bb < 2 ^ snd bb /\ count <= snd bb < count + 8 /\ p <= p' <= p + count).
  - destruct (bits <? count) eqn:E2.
    + apply Z.ltb_lt in E2. cbv zeta. pose proof (div8_bounds (count - bits + 7)) as Hn.
      set (n := (count - bits + 7) / 8) in *.
      pstep. pstep.
      destruct (zlen r =? n) eqn:E3; cbn [negb]; [|apply pspecE_raise; exact HEB].
      apply Z.eqb_eq in E3. pstep. cbn [fst snd].
      split; [|split; lia].
      pose proof (be_decode_acc_bound r (bytes_ok_rd _ _ _ Hd) buffer ltac:(lia)) as Hb.
      rewrite E3 in Hb.
      replace (bits + n * 8) with (bits + 8 * n) by lia.
      rewrite Z.pow_add_r by lia. rewrite Z.pow_mul_r by lia. change (2 ^ 8) with 256.
      assert (0 < 256 ^ n) by (apply Z.pow_pos_nonneg; lia). nia.
    + apply Z.ltb_ge in E2. pstep. cbn [fst snd]. lia.
  - intros [buf b] p' (H1 & H2 & H3). cbn [fst snd] in *. cbv zeta.
    destruct (b - count <? 8) eqn:E4; cbn [negb]; [|apply Z.ltb_ge in E4; lia].
    pstep. unfold brQv, brinv. cbn [fst snd].
    destruct (pow_split buf (b - count) count ltac:(lia) ltac:(lia)) as [Hv Hm].
    { replace (b - count + count) with b by lia. exact H1. }
    repeat split; lia.
Qed.

Lemma br_skip_spec count s d p :
  bytes_ok d -> brinv s -> 0 <= count -> 0 <= p -> p + count < c04_two62 ->
  pspecE E (br_skip count s) d p (brQ p count).
Proof.
  intros Hd Hs Hc Hp Hpc. destruct s as [buffer bits]. unfold br_skip.
  destruct (count <? 0) eqn:E1; [lia|].
  destruct (count <=? bits) eqn:E2.
  - pstep. eapply pspecE_post; [apply br_bits_spec; assumption|].
    intros [v s'] p' (_ & H2 & H3). cbn [snd] in *. pstep. split; assumption.
  - apply Z.leb_gt in E2. destruct Hs as [Hbuf Hbits]; cbn [fst snd] in *. cbv zeta.
    unfold c04_two62 in *.
    pose proof (div8_bounds (count - bits)) as Hn. set (n := (count - bits) / 8) in *.
    pstep. pstep. pstep.
    eapply pspecE_post; [apply br_bits_spec; [assumption|apply brinv0|lia|lia|unfold c04_two62; lia]|].
    intros [v s'] p' (_ & H2 & H3). cbn [snd] in *. pstep. split; [assumption|lia].
Qed.

Lemma br_opt_skip_spec n s d p :
  bytes_ok d -> brinv s -> 0 <= n -> 0 <= p -> p + (n + 1) < c04_two62 ->
  pspecE E (br_opt_skip n s) d p (brQ p (n + 1)).
Proof.
  intros Hd Hs Hn Hp Hpc. unfold br_opt_skip.
  pstep. eapply pspecE_post; [apply br_bits_spec; [assumption|assumption|lia|lia|lia]|].
  intros [v s'] p' (_ & H2 & H3). cbn [snd] in *.
  destruct (v =? 0); cbn [negb].
  - pstep. split; [assumption|lia].
  - eapply pspecE_post; [apply br_skip_spec; [assumption|assumption|lia|lia|lia]|].
    intros s'' p'' [H4 H5]. split; [assumption|lia].
Qed.

Lemma brQ_weaken (m : P brs) d p K K' :
  K <= K' -> pspecE E m d p (brQ p K) -> pspecE E m d p (brQ p K').
Proof. intros HK H. eapply pspecE_post; [exact H|]. intros s' p' [H1 H2]. split; [assumption|lia]. Qed.

Lemma br_if_spec (c : bool) (m : P brs) s d p K :
  0 <= K -> brinv s -> pspecE E m d p (brQ p K) -> pspecE E (if c then m else pret s) d p (brQ p K).
Proof. intros HK Hs H. destruct c; [exact H|]. pstep. split; [assumption|lia]. Qed.

End WithE.

Ltac br_side := first [assumption | (left; assumption) | lia | (unfold c04_two62 in *; lia) | apply brinv0].
Ltac br_norm H :=
  repeat match type of H with context [2 ^ ?c] =>
    let v := eval vm_compute in (2 ^ c) in change (2 ^ c) with v in H end.
(* `' (v, s) <~ br_bits c s ;; k` *)
Ltac br_b :=
  apply pspecE_bind; eapply pspecE_post;
  [apply br_bits_spec; br_side
  | let v := fresh "v" in let s' := fresh "s" in let p' := fresh "p" in
    let Hv := fresh "Hv" in let Hs := fresh "Hs" in let Hp := fresh "Hp" in
    intros [v s'] p' (Hv & Hs & Hp); cbn [fst snd] in Hv, Hs, Hp; br_norm Hv; cbv beta iota ].
Ltac br_intro :=
  let s' := fresh "s" in let p' := fresh "p" in let Hs := fresh "Hs" in let Hp := fresh "Hp" in
  intros s' p' [Hs Hp]; cbv beta iota.
(* `s <~ br_skip c s ;; k` and `s <~ br_opt_skip c s ;; k` *)
Ltac br_s := apply pspecE_bind; eapply pspecE_post; [apply br_skip_spec; br_side | br_intro].
Ltac br_o := apply pspecE_bind; eapply pspecE_post; [apply br_opt_skip_spec; br_side | br_intro].
(* `s <~ (if c then m else pret s) ;; k` : tac proves m with brQ p K *)
Ltac br_if K tac :=
  apply pspecE_bind;
  lazymatch goal with |- pspecE _ _ _ ?p _ => apply pspecE_post with (Q := brQ p K) end;
  [apply br_if_spec; [lia | assumption | tac] | br_intro].
(* `s <~ blk ;; k` : tac proves blk with brQ p K *)
Ltac br_blk K tac :=
  apply pspecE_bind;
  lazymatch goal with |- pspecE _ _ _ ?p _ => apply pspecE_post with (Q := brQ p K) end;
  [tac | br_intro].
Ltac br_fin K tac :=
  lazymatch goal with |- pspecE _ _ _ ?p _ => apply pspecE_post with (Q := brQ p K) end;
  [tac | intros ? ? [? ?]; split; [assumption | lia]].
(* a final reader operation / pret, against the lemma's own brQ p0 K0 *)
Ltac br_done lem := eapply pspecE_post; [apply lem; br_side | intros ? ? [? ?]; split; [assumption | lia]].
Ltac br_ret := apply pspecE_ret; split; [assumption | lia].

Section Blocks.
Variable E : exc -> Prop.
Hypothesis HEB : E EBitReader.
Hypothesis HEM : E EMutagen.

Lemma addbsi_spec s d p : bytes_ok d -> brinv s -> 0 <= p -> p + 520 < c04_two62 ->
  pspecE E (' (addbsie, s) <~ br_bits 1 s ;;
            if negb (addbsie =? 0) then (' (addbsil, s) <~ br_bits 6 s ;; br_skip ((addbsil + 1) * 8) s) else pret s)
         d p (brQ p 520).
Proof.
  intros Hd Hs Hp Hpc. unfold c04_two62 in *.
  br_b. destruct (v =? 0); cbn [negb]; [br_ret|].
  br_b. br_done br_skip_spec.
Qed.

Lemma skip_normal_spec cm s d p : bytes_ok d -> brinv s -> 0 <= p -> p + 700 < c04_two62 ->
  pspecE E (ac3_skip_unused_normal cm s) d p (brQ p 700).
Proof.
  intros Hd Hs Hp Hpc. unfold ac3_skip_unused_normal. unfold c04_two62 in *.
  br_s. br_o. br_o. br_o.
  br_if 31 ltac:(br_s; br_o; br_o; br_done br_opt_skip_spec).
  br_s. br_b. br_b.
  br_if 14 ltac:(apply br_skip_spec; br_side).
  br_if 14 ltac:(apply br_skip_spec; br_side).
  eapply pspecE_post; [apply addbsi_spec; br_side|]. intros ? ? [? ?]; split; [assumption|lia].
Qed.

Lemma skip_enhanced_spec ft cm sr nb s d p : bytes_ok d -> brinv s -> 0 <= p -> p + 700 < c04_two62 ->
  pspecE E (ac3_skip_unused_enhanced ft cm sr nb s) d p (brQ p 700).
Proof.
  intros Hd Hs Hp Hpc. unfold ac3_skip_unused_enhanced. unfold c04_two62 in *.
  br_s. br_o.
  br_if 14 ltac:(br_s; br_done br_opt_skip_spec).
  br_if 17 ltac:(apply br_opt_skip_spec; br_side).
  br_b. destruct (v =? 0); cbn [negb]; [|br_ret].
  br_b.
  br_if 28 ltac:(
    br_s;
    br_blk 4 ltac:(destruct (cm =? 2); [apply br_skip_spec; br_side|];
                  apply brQ_weaken with (K := 2); [lia|]; apply br_if_spec; [lia|assumption|]; apply br_skip_spec; br_side);
    br_o;
    br_if 9 ltac:(apply br_opt_skip_spec; br_side);
    br_fin 1 ltac:(apply br_if_spec; [lia|assumption|]; apply br_skip_spec; br_side)).
  br_if 1 ltac:(apply br_skip_spec; br_side).
  br_blk 7 ltac:(destruct (ft =? 2); [|apply pspecE_ret; split; [assumption|lia]];
                 apply br_if_spec; [lia|assumption|]; apply br_opt_skip_spec; br_side).
  eapply pspecE_post; [apply addbsi_spec; br_side|]. intros ? ? [? ?]; split; [assumption|lia].
Qed.

Lemma get_channels_spec cm lfe d p : pspecE E (ac3_get_channels cm lfe) d p (fun _ p' => p' = p).
Proof.
  unfold ac3_get_channels. apply pspecE_catchM; [exact HEM|].
  apply pspecE_bind. apply pspecE_lift. unfold ac3_channels.
  repeat (destruct (cm =? _); [cbv beta iota; apply pspecE_ret; reflexivity|]).
  right; reflexivity.
Qed.

End Blocks.

Definition hdrQ (p K : Z) : list Z * brs -> Z -> Prop :=
  fun r p' => (exists a b c, fst r = [a; b; c]) /\ p <= p' <= p + K.

Section Headers.
Variable E : exc -> Prop.
Hypothesis HEB : E EBitReader.
Hypothesis HEM : E EMutagen.

Lemma read_header_normal_spec bsid s d p : bytes_ok d -> brinv s -> 0 <= p -> p + 800 < c04_two62 ->
  pspecE E (ac3_read_header_normal bsid s) d p (hdrQ p 800).
Proof.
  intros Hd Hs Hp Hpc. unfold ac3_read_header_normal. unfold c04_two62 in *.
  br_s. br_b.
  destruct (v =? 3) eqn:Esr; [apply pspecE_raise; exact HEM|]. apply Z.eqb_neq in Esr.
  br_b.
  destruct (37 <? v0) eqn:Efs; [apply pspecE_raise; exact HEM|]. apply Z.ltb_ge in Efs.
  br_s. br_s. br_b.
  br_if 2 ltac:(apply br_skip_spec; br_side).
  br_if 2 ltac:(apply br_skip_spec; br_side).
  br_if 2 ltac:(apply br_skip_spec; br_side).
  br_b. cbv zeta.
  apply pspecE_bind.
  lazymatch goal with |- pspecE _ _ _ ?p _ => apply pspecE_post with (Q := fun _ p' => p' = p) end.
  { apply pspecE_catchM; [exact HEM|].
    destruct (Z.max bsid 8 - 8 <? 0) eqn:Esh; [apply Z.ltb_lt in Esh; lia|].
    destruct (list_index_ok v ac3_sample_rates) as (r & Hr & _); [change (zlen ac3_sample_rates) with 3; lia|].
    pose proof (Z.div_mod v0 2 ltac:(lia)). pose proof (Z.mod_pos_bound v0 2 ltac:(lia)).
    destruct (list_index_ok (v0 / 2) ac3_bitrates) as (b & Hb & _); [change (zlen ac3_bitrates) with 19; lia|].
    rewrite Hr, Hb.
    apply pspecE_bind. apply pspecE_lift. apply pspecE_bind. apply pspecE_lift. apply pspecE_ret. reflexivity. }
  intros [rate bitrate] p' ->. cbv beta iota.
  apply pspecE_bind. eapply pspecE_post; [apply get_channels_spec; assumption|].
  intros ch p' ->. cbv beta.
  apply pspecE_bind. eapply pspecE_post; [apply skip_normal_spec; br_side|]. br_intro.
  apply pspecE_ret. split; [do 3 eexists; reflexivity|lia].
Qed.

Lemma read_header_enhanced_spec s d p : bytes_ok d -> brinv s -> 0 <= p -> p + 800 < c04_two62 ->
  pspecE E (ac3_read_header_enhanced s) d p (hdrQ p 800).
Proof.
  intros Hd Hs Hp Hpc. unfold ac3_read_header_enhanced. unfold c04_two62 in *.
  br_b.
  destruct (v =? 3) eqn:Eft; [apply pspecE_raise; exact HEM|].
  br_s. br_b. cbv zeta.
  destruct ((v0 + 1) * 2 <? 7) eqn:Efs; [apply pspecE_raise; exact HEM|].
  br_b.
  apply pspecE_bind.
  lazymatch goal with |- pspecE _ _ _ ?p _ =>
    apply pspecE_post with (Q := fun r p' => brinv (snd r) /\ p <= p' <= p + 8) end.
  { apply pspecE_catchM; [exact HEM|].
    apply pspecE_bind.
    lazymatch goal with |- pspecE _ _ _ ?p _ =>
      apply pspecE_post with (Q := fun r p' => 0 <= fst (fst r) < 4 /\ brinv (snd r) /\ p <= p' <= p + 2) end.
    { destruct (v1 =? 3) eqn:Esr.
      - br_b. destruct (v2 =? 3) eqn:Esr2; [apply pspecE_raise; left; exact HEM|]. apply Z.eqb_neq in Esr2.
        destruct (list_index_ok v2 ac3_sample_rates) as (r & Hr & _); [change (zlen ac3_sample_rates) with 3; lia|].
        rewrite Hr. apply pspecE_bind. apply pspecE_lift. apply pspecE_ret. cbn [fst snd]. split; [lia|split; [assumption|lia]].
      - apply Z.eqb_neq in Esr. br_b.
        destruct (list_index_ok v1 ac3_sample_rates) as (r & Hr & _); [change (zlen ac3_sample_rates) with 3; lia|].
        rewrite Hr. apply pspecE_bind. apply pspecE_lift. apply pspecE_ret. cbn [fst snd]. split; [lia|split; [assumption|lia]]. }
    intros [[nb rate] s'] p' (Hnb & Hs' & Hp'). cbn [fst snd] in Hnb, Hs', Hp'. cbv beta iota.
    br_b. br_b.
    destruct (list_index_ok nb eac3_blocks) as (blocks & Hbl & Hin); [change (zlen eac3_blocks) with 4; lia|].
    rewrite Hbl. apply pspecE_bind. apply pspecE_lift. cbv beta iota.
    cbn [In eac3_blocks] in Hin.
    destruct (blocks * 256 =? 0) eqn:Ez; [apply Z.eqb_eq in Ez; lia|].
    apply pspecE_ret. cbn [snd]. split; [assumption|lia]. }
  intros [[[[[nb rate] cm] lfe] bitrate] s'] p' (Hs' & Hp'). cbn [snd] in Hs'. cbv beta iota.
  br_s.
  apply pspecE_bind. eapply pspecE_post; [apply get_channels_spec; assumption|].
  intros ch p'' ->. cbv beta.
  apply pspecE_bind. eapply pspecE_post; [apply skip_enhanced_spec; br_side|]. br_intro.
  apply pspecE_ret. split; [do 3 eexists; reflexivity|lia].
Qed.

End Headers.

Lemma ac3_read_header_spec bsid d : c04_input d ->
  pspec (ac3_read_header bsid) d 2 (fun _ _ => True).
Proof.
  intros [Hd Hlen]. unfold ac3_read_header. unfold c04_two62 in *. pose proof (zlen_nonneg d).
  apply pspecE_bind.
  apply pspecE_post with (Q := hdrQ 2 800).
  { apply pspec_catchM.
    assert (HB : (fun e => e = EMutagen \/ is_ebitreader e = true) EBitReader) by (right; reflexivity).
    assert (HM : (fun e => e = EMutagen \/ is_ebitreader e = true) EMutagen) by (left; reflexivity).
    destruct (bsid <=? 10).
    - apply read_header_normal_spec; first [assumption | apply brinv0 | (unfold c04_two62; lia)].
    - apply read_header_enhanced_spec; first [assumption | apply brinv0 | (unfold c04_two62; lia)]. }
  intros [info s] p' [(a & b & c & Hinfo) Hp']. cbn [fst] in Hinfo. subst info. cbv beta iota zeta.
  destruct (b =? 0); [pstep; exact I|].
  pstep. pstep. pstep. pstep. pstep. pstep. pstep. exact I.
Qed.

Theorem ac3_total d : c04_input d -> total (ac3_load d).
Proof.
  intros Hin. unfold ac3_load. eapply total_prun with (Q := fun _ _ => True).
  unfold ac3_init. apply pspec_convert_io. pose proof (zlen_nonneg d).
  pstep. pstep.
  destruct (zlen r <? 6) eqn:E6; [praiseM|]. apply Z.ltb_ge in E6.
  pstep; [|praiseM].
  pstep. unfold index_at.
  replace ((0 <=? 5) && (5 <? zlen r)) with true by (symmetry; apply andb_true_iff; split; [reflexivity|apply Z.ltb_lt; lia]).
  apply pspecE_lift. cbv zeta.
  pstep; [praiseM|].
  pstep. pstep.
  eapply pspecE_post; [apply ac3_read_header_spec; exact Hin|]. auto.
Qed.
