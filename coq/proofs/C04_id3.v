(* Proofs.C04_id3 -- totality of the ID3Header.__init__ mirror. *)
From Coq Require Import ZArith List Bool Lia.
Import ListNotations.
Require Import Base.Py Base.ZList Model.Parse_base Model.Parse_musepack Model.Parse_id3
  Proofs.C04_lib Proofs.C04_musepack.
Open Scope Z_scope.

Definition EioM (e : exc) := e = EMutagen \/ is_eio e = true.

(* read_full with a non-negative 32-bit size: the data, or IOError *)
Lemma read_full_spec d size p (Q : list Z -> Z -> Prop) : bytes_ok d -> 0 <= p -> 0 <= size < 4294967296 ->
  (forall r, zlen r = size -> bytes_ok r -> Q r (p + size)) -> pspecE EioM (id3_read_full size) d p Q.
Proof.
  intros Hd Hp Hs HQ. unfold id3_read_full. destruct (size <? 0) eqn:E; [lia|].
  pstep. pstep. pstep; [|apply pspecE_raise; right; reflexivity].
  assert (Hz : zlen r = size) by (apply Z.eqb_eq; assumption).
  pstep. rewrite Hz. apply HQ; [exact Hz|apply bytes_ok_rd; exact Hd].
Qed.

Theorem id3header_total d : c04_input d -> total (id3header_load d).
Proof.
  intros [Hb Hl]. unfold id3header_load. eapply total_prun with (Q := fun _ _ => True).
  unfold id3h_init. pose proof (zlen_nonneg d) as Hz. unfold c04_two62 in Hl.
  eapply pspecE_catch with (E' := EioM).
  2:{ intros e [->|He]; [reflexivity|]. rewrite He. intros. reflexivity. }
  pstep. pstep. pstep; [|apply pspecE_raise; left; reflexivity].
  assert (H10 : zlen r = 10) by (apply Z.eqb_eq; assumption).
  cbv zeta.
  repeat (pstep; try (apply pspecE_raise; left; reflexivity); [idtac]).
  pstep; [|psteps; exact I].
  pstep. apply read_full_spec; [exact Hb|lia|lia|]. intros ext Hext Hextb. cbv beta.
  pstep. apply pspecE_post with (Q := fun x q => snd x < 4294967296 /\ 0 <= q <= zlen d + 16).
  { pstep.
    - psteps. cbn [snd]. lia.
    - pstep.
      + pstep; try (apply pspecE_raise; left; reflexivity). pstep. cbn [snd].
        pose proof (bpi7_bound ext ltac:(lia)). lia.
      + pstep. apply pspecE_unpack_be; [exact Hext|]. cbv beta. pstep. cbn [snd].
        pose proof (be_decode_bound ext Hextb) as B. rewrite Hext in B. change (256 ^ 4) with 4294967296 in B. lia. }
  intros [flags extsize] q. cbn [snd]. intros [Hes Hq]. cbv beta.
  pstep; [apply pspecE_raise; left; reflexivity|].
  match goal with H : (extsize <? 0) = false |- _ => apply Z.ltb_ge in H end.
  pstep. apply read_full_spec; [exact Hb|lia|lia|]. intros extdata _ _. cbv beta. psteps. exact I.
Qed.
