(* Proofs.C04_id3 -- totality of the ID3Header.__init__ mirror. *)
From Coq Require Import ZArith List Bool Lia.
Import ListNotations.
Require Import Base.Py Base.ZList Model.Parse_base Model.Parse_musepack Model.Parse_id3
  Proofs.C04_lib Proofs.C04_musepack.
Open Scope Z_scope.

Definition EioM (e : exc) := e = EMutagen \/ is_eio e = true.

(* read_full with a non-negative 32-bit size: the data, or IOError *)
Lemma read_full_spec d size p (Q : list Z -> Z -> Prop) : bytes_ok d -> 0 <= p -> 0 <= size < 4294967296 ->
  (forall r, zlen r = size -> bytes_ok r -> Q r (p + size)) -> pspecE EioM (id3_read_full size) d p Q.
Proof.
  intros Hd Hp Hs HQ. unfold id3_read_full. destruct (size <? 0) eqn:E; [lia|].
  pstep. pstep. pstep; [|apply pspecE_raise; right; reflexivity].
  assert (Hz : zlen r = size) by (apply Z.eqb_eq; assumption).
  pstep. rewrite Hz. apply HQ; [exact Hz|apply bytes_ok_rd; exact Hd].
Qed.

Theorem id3header_total d : c04_input d -> total (id3header_load d).
Proof.
  intros [Hb Hl]. unfold id3header_load. eapply total_prun with (Q := fun _ _ => True).
  unfold id3h_init. pose proof (zlen_nonneg d) as Hz. unfold c04_two62 in Hl.
  eapply pspecE_catch with (E' := EioM).
  2:{ intros e [->|He]; [reflexivity|]. rewrite He. intros. reflexivity. }
  pstep. pstep. pstep; [|apply pspecE_raise; left; reflexivity].
  assert (H10 : zlen r = 10) by (apply Z.eqb_eq; assumption).
  cbv zeta.
  repeat (pstep; try (apply pspecE_raise; left; reflexivity); [idtac]).
  pstep; [|psteps; exact I].
  pstep. apply read_full_spec; [exact Hb|lia|lia|]. intros ext Hext Hextb. cbv beta.
  pstep. apply pspecE_post with (Q := fun x q => snd x < 4294967296 /\ 0 <= q <= zlen d + 16).
  { pstep.
    - psteps. cbn [snd]. lia.
    - pstep.
      + pstep; try (apply pspecE_raise; left; reflexivity). pstep. cbn [snd].
        pose proof (bpi7_bound ext ltac:(lia)). lia.
      + pstep. apply pspecE_unpack_be; [exact Hext|]. cbv beta. pstep. cbn [snd].
        pose proof (be_decode_bound ext Hextb) as B. rewrite Hext in B. change (256 ^ 4) with 4294967296 in B. lia. }
  intros [flags extsize] q. cbn [snd]. intros [Hes Hq]. cbv beta.
  pstep; [apply pspecE_raise; left; reflexivity|].
  match goal with H : (extsize <? 0) = false |- _ => apply Z.ltb_ge in H end.
  pstep. apply read_full_spec; [exact Hb|lia|lia|]. intros extdata _ _. cbv beta. psteps. exact I.
Qed.

(* determine_bpi never raises: the slice it unpacks always has its 10 bytes, and len + 1 rounds suffice *)
Lemma bpi_scan_ok : forall fuel bpi data o cnt, bytes_ok data -> 0 <= o -> Z.max 0 (zlen data - o) < Z.of_nat fuel ->
  exists r, id3_bpi_scan fuel bpi data o cnt = Ok r.
Proof.
  induction fuel as [|fuel IH]; intros bpi data o cnt Hb Ho Hf; [lia|].
  cbn [id3_bpi_scan]. destruct (o <? zlen data - 10) eqn:E; [|eexists; reflexivity].
  apply Z.ltb_lt in E. rewrite lslice_zslice.
  destruct (list_eqb (zslice o (o + 10) data) id3_empty10); [eexists; reflexivity|].
  rewrite zlen_zslice by lia. replace (Z.min (o + 10 - o) (Z.max 0 (zlen data - o)) =? 10) with true by (symmetry; apply Z.eqb_eq; lia).
  cbn [negb]. cbv zeta.
  set (part := zslice o (o + 10) data).
  assert (Hsz : 0 <= (if bpi then mpc_bpi7 (zslice 4 8 part) else be_decode (zslice 4 8 part))).
  { destruct bpi.
    - pose proof (bpi7_bound (zslice 4 8 part)) as B. rewrite zlen_zslice in B by lia.
      assert (H4 : Z.min (8 - 4) (Z.max 0 (zlen part - 4)) <= 4) by lia. specialize (B H4). lia.
    - pose proof (be_decode_bound (zslice 4 8 part)) as B.
      assert (Hp : bytes_ok (zslice 4 8 part)) by (apply bytes_ok_zslice, bytes_ok_zslice; exact Hb).
      specialize (B Hp). lia. }
  apply IH; [exact Hb|lia|lia].
Qed.

Theorem determine_bpi_total data : bytes_ok data -> exists b, id3_determine_bpi data = Ok b /\ (b = 7 \/ b = 8).
Proof.
  intro Hb. unfold id3_determine_bpi.
  assert (Hf : Z.max 0 (zlen data - 0) < Z.of_nat (S (length data))) by (unfold zlen; lia).
  destruct (bpi_scan_ok (S (length data)) true data 0 0 Hb ltac:(lia) Hf) as ([a b] & ->).
  destruct (bpi_scan_ok (S (length data)) false data 0 0 Hb ltac:(lia) Hf) as ([c e] & ->).
  eexists. split; [reflexivity|].
  destruct ((a <? c) || ((c =? a) && ((1 <=? b) && (e <=? 1)))); [right|left]; reflexivity.
Qed.
