(* Proofs.C04_id3 -- totality of the ID3Header.__init__ mirror. *)
From Coq Require Import ZArith List Bool Lia.
Import ListNotations.
Require Import Base.Py Base.ZList Model.Parse_base Model.Parse_musepack Model.Parse_id3
  Proofs.C04_lib Proofs.C04_musepack.
Open Scope Z_scope.

Definition EioM (e : exc) := e = EMutagen \/ is_eio e = true.

(* read_full with a non-negative 32-bit size: the data, or IOError *)
Lemma read_full_spec d size p (Q : list Z -> Z -> Prop) : bytes_ok d -> 0 <= p -> 0 <= size < 4294967296 ->
  (forall r, zlen r = size -> bytes_ok r -> Q r (p + size)) -> pspecE EioM (id3_read_full size) d p Q.
Proof.
  intros Hd Hp Hs HQ. unfold id3_read_full. destruct (size <? 0) eqn:E; [lia|].
  pstep. pstep. pstep; [|apply pspecE_raise; right; reflexivity].
  assert (Hz : zlen r = size) by (apply Z.eqb_eq; assumption).
  pstep. rewrite Hz. apply HQ; [exact Hz|apply bytes_ok_rd; exact Hd].
Qed.

(* the same, keeping track of the position (it stays inside the stream) *)
Lemma read_full_spec2 d size p (Q : list Z -> Z -> Prop) : bytes_ok d -> 0 <= p <= zlen d -> 0 <= size < 4294967296 ->
  (forall r, zlen r = size -> bytes_ok r -> p + size <= zlen d -> Q r (p + size)) -> pspecE EioM (id3_read_full size) d p Q.
Proof.
  intros Hd Hp Hs HQ. unfold id3_read_full. destruct (size <? 0) eqn:E; [lia|].
  pstep. pstep. pstep; [|apply pspecE_raise; right; reflexivity].
  assert (Hz : zlen r = size) by (apply Z.eqb_eq; assumption).
  pstep. rewrite Hz. apply HQ; [exact Hz|apply bytes_ok_rd; exact Hd|lia].
Qed.

(* chunk.replace(b"\xff\x00", b"\xff") drops at most every second byte *)
Lemma unstuff_props : forall n l, (length l <= n)%nat ->
  zlen (id3_unstuff l) <= zlen l /\ zlen l <= 2 * zlen (id3_unstuff l) /\ (bytes_ok l -> bytes_ok (id3_unstuff l)).
Proof.
  induction n as [|n IH]; intros l Hn.
  - destruct l; [|cbn in Hn; lia]. cbn. repeat split; [lia|lia|auto].
  - destruct l as [|a t]; [cbn; repeat split; [lia|lia|auto]|].
    cbn [length] in Hn. cbn [id3_unstuff].
    assert (Ht : zlen (id3_unstuff t) <= zlen t /\ zlen t <= 2 * zlen (id3_unstuff t) /\ (bytes_ok t -> bytes_ok (id3_unstuff t)))
      by (apply IH; lia).
    assert (Hplain : zlen (a :: id3_unstuff t) <= zlen (a :: t) /\ zlen (a :: t) <= 2 * zlen (a :: id3_unstuff t) /\
                     (bytes_ok (a :: t) -> bytes_ok (a :: id3_unstuff t))).
    { rewrite !zlen_cons. destruct Ht as (H1 & H2 & H3). repeat split; [lia|lia|].
      intro Hb. inversion Hb; subst. constructor; [assumption|apply H3; assumption]. }
    destruct (a =? 255); [|exact Hplain].
    destruct t as [|b t']; [exact Hplain|].
    destruct b as [|pb|pb]; [|exact Hplain|exact Hplain].
    cbn [length] in Hn.
    destruct (IH t' ltac:(lia)) as (H1 & H2 & H3).
    rewrite !zlen_cons. repeat split; [lia|lia|].
    intro Hb. inversion Hb as [|x1 l1 Ha Hb1]; subst. inversion Hb1; subst. constructor; [assumption|apply H3; assumption].
Qed.
Lemma unstuff_le l : zlen (id3_unstuff l) <= zlen l. Proof. apply (unstuff_props (length l) l); lia. Qed.
Lemma unstuff_half l : zlen l <= 2 * zlen (id3_unstuff l). Proof. apply (unstuff_props (length l) l); lia. Qed.
Lemma unstuff_bytes l : bytes_ok l -> bytes_ok (id3_unstuff l). Proof. apply (unstuff_props (length l) l); lia. Qed.

Lemma bytes_ok_app l1 l2 : bytes_ok l1 -> bytes_ok l2 -> bytes_ok (l1 ++ l2).
Proof. unfold bytes_ok. intros. apply Forall_app. split; assumption. Qed.

(* _read_unsynched: what is still missing at least halves per round, so the fuel is never exhausted; it returns exactly
   `size` bytes and a non-negative count, or fails like read_full *)
Lemma read_unsynched_spec d : bytes_ok d -> zlen d < 4611686018427387904 ->
  forall fuel size data consumed p (Q : list Z * Z -> Z -> Prop),
  0 <= p <= zlen d -> 0 <= size < 4294967296 -> zlen data <= size -> bytes_ok data -> 0 <= consumed <= p ->
  size - zlen data < 2 ^ (Z.of_nat fuel - 1) ->
  (forall r c q, zlen r = size -> bytes_ok r -> 0 <= c <= q -> 0 <= q <= zlen d -> Q (r, c) q) ->
  pspecE EioM (id3_read_unsynched fuel size data consumed) d p Q.
Proof.
  intros Hd Hl. induction fuel as [|f IH]; intros size data consumed p Q Hp Hs Hdl Hdb Hc Hf HQ.
  - exfalso. change (Z.of_nat 0 - 1) with (-1) in Hf. rewrite Z.pow_neg_r in Hf by lia. lia.
  - cbn [id3_read_unsynched]. destruct (zlen data <? size) eqn:E.
    + apply Z.ltb_lt in E. pose proof (zlen_nonneg data) as Hdn. pstep.
      apply read_full_spec2; [exact Hd|lia|lia|]. intros chunk Hck Hcb Hpos. cbv beta.
      pose proof (zlen_nonneg chunk) as Hcn.
      pstep. apply pspecE_post with (Q := fun c q => 0 <= c <= q /\ 0 <= q <= zlen d).
      { pstep.
        - pstep. pstep. pstep.
          + match goal with H : list_eqb _ _ = true |- _ => apply list_eqb_spec in H; rewrite H in * end.
            change (zlen [0]) with 1 in *. pstep. lia.
          + pstep. pstep. pstep. lia.
        - pstep. lia. }
      intros c q [Hc' Hq]. cbv beta.
      pose proof (unstuff_le chunk) as U1. pose proof (unstuff_half chunk) as U2.
      apply IH; try assumption.
      * rewrite zlen_app. lia.
      * apply bytes_ok_app; [assumption|apply unstuff_bytes; assumption].
      * rewrite zlen_app.
        assert (Hf0 : Z.of_nat f = 0 \/ 1 <= Z.of_nat f) by lia. destruct Hf0 as [Hf0|Hf0].
        -- exfalso. replace (Z.of_nat (S f) - 1) with 0 in Hf by lia. change (2 ^ 0) with 1 in Hf. lia.
        -- replace (Z.of_nat (S f) - 1) with (Z.succ (Z.of_nat f - 1)) in Hf by lia.
           rewrite Z.pow_succ_r in Hf by lia. lia.
    + apply Z.ltb_ge in E. pstep. apply HQ; try assumption; lia.
Qed.

Lemma read_ext_spec d u size p (Q : list Z * Z -> Z -> Prop) : bytes_ok d -> zlen d < 4611686018427387904 ->
  0 <= p <= zlen d -> 0 <= size < 4294967296 ->
  (forall r c q, zlen r = size -> bytes_ok r -> 0 <= c <= q -> 0 <= q <= zlen d -> Q (r, c) q) ->
  pspecE EioM (id3_read_ext u size) d p Q.
Proof.
  intros Hd Hl Hp Hs HQ. unfold id3_read_ext. destruct u.
  - apply read_unsynched_spec; try assumption.
    + change (zlen []) with 0. lia.
    + constructor.
    + lia.
    + change (zlen []) with 0. replace (2 ^ (Z.of_nat 33 - 1)) with 4294967296 by reflexivity. lia.
  - pstep. apply read_full_spec2; [exact Hd|lia|lia|]. intros r Hr Hrb Hpos. cbv beta. pstep.
    apply HQ; try assumption; lia.
Qed.

Theorem id3header_total d : c04_input d -> total (id3header_load d).
Proof.
  intros [Hb Hl]. unfold id3header_load. eapply total_prun with (Q := fun _ _ => True).
  unfold id3h_init. pose proof (zlen_nonneg d) as Hz. unfold c04_two62 in Hl.
  eapply pspecE_catch with (E' := EioM).
  2:{ intros e [->|He]; [reflexivity|]. rewrite He. intros. reflexivity. }
  pstep. pstep. pstep; [|apply pspecE_raise; left; reflexivity].
  assert (H10 : zlen r = 10) by (apply Z.eqb_eq; assumption).
  cbv zeta.
  repeat (pstep; try (apply pspecE_raise; left; reflexivity); [idtac]).
  pstep; [|psteps; exact I].
  pstep. apply read_ext_spec; [exact Hb|exact Hl|lia|lia|]. intros ext consumed q0 Hext Hextb Hcons Hq0. cbv beta iota.
  pstep. apply pspecE_post with (Q := fun x q => snd (fst x) < 4294967296 /\ 0 <= q <= zlen d).
  { pstep.
    - psteps. cbn [fst snd]. lia.
    - pstep.
      + pstep; try (apply pspecE_raise; left; reflexivity). pstep. cbn [fst snd].
        pose proof (bpi7_bound ext ltac:(lia)). lia.
      + pstep. apply pspecE_unpack_be; [exact Hext|]. cbv beta. pstep. cbn [fst snd].
        pose proof (be_decode_bound ext Hextb) as B. rewrite Hext in B. change (256 ^ 4) with 4294967296 in B. lia. }
  intros [[flags extsize] consumed'] q. cbn [fst snd]. intros [Hes Hq]. cbv beta iota.
  pstep; [apply pspecE_raise; left; reflexivity|].
  match goal with H : (extsize <? 0) = false |- _ => apply Z.ltb_ge in H end.
  pstep. apply read_ext_spec; [exact Hb|exact Hl|lia|lia|]. intros extdata extconsumed q1 _ _ _ _. cbv beta iota. psteps. exact I.
Qed.

(* determine_bpi never raises: the slice it unpacks always has its 10 bytes, and len + 1 rounds suffice *)
Lemma bpi_scan_ok : forall fuel bpi data o cnt, bytes_ok data -> 0 <= o -> Z.max 0 (zlen data - o) < Z.of_nat fuel ->
  exists r, id3_bpi_scan fuel bpi data o cnt = Ok r.
Proof.
  induction fuel as [|fuel IH]; intros bpi data o cnt Hb Ho Hf; [lia|].
  cbn [id3_bpi_scan]. destruct (o <? zlen data - 10) eqn:E; [|eexists; reflexivity].
  apply Z.ltb_lt in E. rewrite lslice_zslice.
  destruct (list_eqb (zslice o (o + 10) data) id3_empty10); [eexists; reflexivity|].
  rewrite zlen_zslice by lia. replace (Z.min (o + 10 - o) (Z.max 0 (zlen data - o)) =? 10) with true by (symmetry; apply Z.eqb_eq; lia).
  cbn [negb]. cbv zeta.
  set (part := zslice o (o + 10) data).
  assert (Hsz : 0 <= (if bpi then mpc_bpi7 (zslice 4 8 part) else be_decode (zslice 4 8 part))).
  { destruct bpi.
    - pose proof (bpi7_bound (zslice 4 8 part)) as B. rewrite zlen_zslice in B by lia.
      assert (H4 : Z.min (8 - 4) (Z.max 0 (zlen part - 4)) <= 4) by lia. specialize (B H4). lia.
    - pose proof (be_decode_bound (zslice 4 8 part)) as B.
      assert (Hp : bytes_ok (zslice 4 8 part)) by (apply bytes_ok_zslice, bytes_ok_zslice; exact Hb).
      specialize (B Hp). lia. }
  apply IH; [exact Hb|lia|lia].
Qed.

Theorem determine_bpi_total data : bytes_ok data -> exists b, id3_determine_bpi data = Ok b /\ (b = 7 \/ b = 8).
Proof.
  intro Hb. unfold id3_determine_bpi.
  assert (Hf : Z.max 0 (zlen data - 0) < Z.of_nat (S (length data))) by (unfold zlen; lia).
  destruct (bpi_scan_ok (S (length data)) true data 0 0 Hb ltac:(lia) Hf) as ([a b] & ->).
  destruct (bpi_scan_ok (S (length data)) false data 0 0 Hb ltac:(lia) Hf) as ([c e] & ->).
  eexists. split; [reflexivity|].
  destruct ((a <? c) || ((c =? a) && ((1 <=? b) && (e <=? 1)))); [right|left]; reflexivity.
Qed.
