From Coq Require Import ZArith List Bool Lia.
Import ListNotations.
Require Import Base.Py Base.ZList Base.FileModel Gen.Gen_util Proofs.FileLemmas Proofs.C11_move.
Open Scope Z_scope.

Section Backward.
Variables (real : bool) (part : Z).
Notation cf := (benign real part).
Variable BUF : Z.
Hypothesis HBUF : 1 <= BUF.
Variables (f : list Z) (dest src count0 : Z).
Hypothesis Hs : 0 <= src. Hypothesis Hsd : src <= dest.
Hypothesis Hfit : dest + count0 <= zlen f.

Definition InvB (d : list Z) (c : Z) : Prop :=
  zlen d = zlen f /\
  forall i, 0 <= i < zlen f ->
    znth i d = if (dest + c <=? i) && (i <? dest + count0) then znth (i - dest + src) f else znth i f.

Lemma loop2_spec : forall fuel c d p,
  0 <= c <= count0 -> (Z.to_nat c < fuel)%nat -> InvB d c ->
  exists d' p', move_bytes_loop2 BUF dest src fuel c (mkF d p cf) = (Ok 0, mkF d' p' cf) /\ InvB d' 0.
Proof.
  induction fuel as [|fuel IH]; intros c d p Hc Hf [Hl Hn]; [lia|].
  cbn [move_bytes_loop2]. destruct (c =? 0) eqn:E; cbn [negb].
  - assert (c = 0) by lia. subst c. exists d, p. split; [reflexivity| split; assumption].
  - set (t := Z.min BUF c).
    assert (Ht : 0 < t <= c) by (unfold t; lia).
    destruct (chunk_cps real part (move_bytes_loop2 BUF dest src fuel (c - t)) d p (src + c - t) (c + dest - t) t)
      as (d1 & p1 & E1 & Hl1 & Hn1); try lia.
    cbv zeta. fold t. rewrite E1.
    apply IH; [lia|lia|]. split; [lia|].
    intros i Hi. rewrite Hn1 by lia.
    destruct ((c + dest - t <=? i) && (i <? c + dest - t + t)) eqn:E2.
    + rewrite Hn by lia.
      bset ((dest + c <=? i - (c + dest - t) + (src + c - t)) && (i - (c + dest - t) + (src + c - t) <? dest + count0)) false.
      bset ((dest + (c - t) <=? i) && (i <? dest + count0)) true. f_equal; lia.
    + rewrite Hn by lia.
      destruct ((dest + c <=? i) && (i <? dest + count0)) eqn:E3.
      * bset ((dest + (c - t) <=? i) && (i <? dest + count0)) true. reflexivity.
      * bset ((dest + (c - t) <=? i) && (i <? dest + count0)) false. reflexivity.
Qed.
End Backward.

(* the moved-file characterisation as a list equation *)
Definition moved (f : list Z) (dest src count : Z) : list Z :=
  ztake dest f ++ ztake count (zdrop src f) ++ zdrop (dest + count) f.

Lemma moved_of_inv f dest src count d :
  0 <= dest -> 0 <= src -> 0 <= count -> dest + count <= zlen f -> src + count <= zlen f ->
  zlen d = zlen f ->
  (forall i, 0 <= i < zlen f ->
     znth i d = if (dest <=? i) && (i <? dest + count) then znth (i - dest + src) f else znth i f) ->
  d = moved f dest src count.
Proof.
  intros Hd Hs Hc Hdf Hsf Hl Hn. apply znth_ext.
  - unfold moved. rewrite !zlen_app, !zlen_ztake, !zlen_zdrop by lia. lia.
  - intros i Hi. rewrite Hn by lia. unfold moved.
    rewrite znth_app by lia. rewrite zlen_ztake by lia. replace (Z.min dest (zlen f)) with dest by lia.
    destruct (i <? dest) eqn:E1.
    + bset (dest <=? i) false. cbn [andb]. rewrite znth_ztake by lia. reflexivity.
    + bset (dest <=? i) true. cbn [andb].
      rewrite znth_app by lia. rewrite zlen_ztake, zlen_zdrop by lia.
      replace (Z.min count (Z.max 0 (zlen f - src))) with count by lia.
      destruct (i - dest <? count) eqn:E2.
      * bset (i <? dest + count) true. rewrite znth_ztake by lia.
        rewrite znth_zdrop by lia. f_equal; lia.
      * bset (i <? dest + count) false. rewrite znth_zdrop by lia. f_equal; lia.
Qed.

Section MoveSpec.
Variables (real : bool) (part : Z).
Notation cf := (benign real part).
Variable BUF : Z.
Hypothesis HBUF : 1 <= BUF.

Theorem move_bytes_spec f p dest src count :
  0 <= dest -> 0 <= src -> 0 <= count -> Z.max dest src + count <= zlen f ->
  fst (move_bytes BUF dest src count (mkF f p cf)) = Ok tt /\
  fdata (snd (move_bytes BUF dest src count (mkF f p cf))) = moved f dest src count /\
  fcfg_of (snd (move_bytes BUF dest src count (mkF f p cf))) = cf.
Proof.
  intros Hd Hs Hc Hfit.
  unfold move_bytes.
  rewrite step_guard.
  assert (Hg : (dest <? 0) || (src <? 0) || (count <? 0) = false) by lia. rewrite Hg.
  rewrite step_seek_end, step_tell, step_guard.
  assert (Hg2 : (Z.max dest src + count >? zlen f) = false) by lia. rewrite Hg2.
  rewrite bind_assoc_if.
  destruct (src >? dest) eqn:E.
  - (* forward *)
    cbv zeta.
    destruct (loop1_spec real part BUF HBUF f dest src count Hd ltac:(lia) ltac:(lia)
                (S (Z.to_nat (count - 0))) 0 f (zlen f)) as (d' & p' & EL & [Hl Hn]).
    { lia. } { lia. }
    { split; [reflexivity|]. intros i Hi. bset ((dest <=? i) && (i <? dest + 0)) false. reflexivity. }
    unfold bind. rewrite EL. cbn.
    split; [reflexivity|]. split; [|reflexivity]. apply moved_of_inv; try lia; try assumption.
  - (* backward *)
    destruct (loop2_spec real part BUF HBUF f dest src count Hs ltac:(lia) ltac:(lia)
                (S (Z.to_nat count)) count f (zlen f)) as (d' & p' & EL & [Hl Hn]).
    { lia. } { lia. }
    { split; [reflexivity|]. intros i Hi. bset ((dest + count <=? i) && (i <? dest + count)) false. reflexivity. }
    unfold bind. rewrite EL. cbn.
    split; [reflexivity|]. split; [|reflexivity]. apply moved_of_inv; try lia.
    intros i Hi. rewrite Hn by lia. replace (dest + 0) with dest by lia. reflexivity.
Qed.
End MoveSpec.
Print Assumptions move_bytes_spec.
