(* Ogg family: the walk along one logical stream (ogg_f_walk) -- composition, replacing a segment of the stream by
   another one with the same interface, renumbering the pages behind it *)
From Coq Require Import ZArith List Bool Lia.
Import ListNotations.
Require Import Base.Py Base.ZList Model.Crc Model.Ogg Model.Fam_flac Model.Fam_ogg.
Require Import Proofs.C15_lacing Proofs.C15_page Proofs.C15_unpage Proofs.C15_paging Proofs.C15_from_packets Proofs.C15_file
  Proofs.C15_replace Proofs.Fam_ogg_scan Proofs.Fam_ogg_locate.
Open Scope Z_scope.

(* the checks on one page, and the walk along the pages behind it *)
Definition ogg_head_ok (st : bool) (seq : Z) (o e : bool) (p : page) : bool :=
  negb e && (if st then (p_sequence p =? seq) && negb (first p) else first p) &&
  Bool.eqb (continued p) o && ogg_f_granule_ok p.
Definition ogg_inner (p : page) (r : list page) : bool :=
  ogg_f_walk true (p_sequence p + 1) (negb (p_complete p)) (last_flag p) r.

Lemma walk_cons st seq o e p r : ogg_f_walk st seq o e (p :: r) = ogg_head_ok st seq o e p && ogg_inner p r.
Proof. reflexivity. Qed.

Lemma walk_app_ne a : forall st seq o e b, a <> [] ->
  ogg_f_walk st seq o e (a ++ b) =
  ogg_f_walk st seq o e a &&
  ogg_f_walk true (p_sequence (last a new_page) + 1) (negb (p_complete (last a new_page))) (last_flag (last a new_page)) b.
Proof.
  induction a as [|p r IH]; intros st seq o e b Hne; [contradiction|].
  destruct r as [|q r'].
  - cbn [app]. rewrite !walk_cons. unfold ogg_inner at 2. cbn [ogg_f_walk last]. rewrite andb_true_r. reflexivity.
  - change ((p :: q :: r') ++ b) with (p :: (q :: r') ++ b). rewrite !walk_cons. unfold ogg_inner.
    rewrite (IH true _ _ _ b) by discriminate. change (last (p :: q :: r') new_page) with (last (q :: r') new_page).
    rewrite andb_assoc. reflexivity.
Qed.

(* a passing walk has consecutive numbers *)
Lemma walk_seq_from l : forall seq o e, ogg_f_walk true seq o e l = true -> seq_from seq l.
Proof.
  induction l as [|p r IH]; intros seq o e H; [exact I|]. rewrite walk_cons in H. apply andb_true_iff in H as [H1 H2].
  unfold ogg_head_ok in H1. apply andb_true_iff in H1 as [H1 _]. apply andb_true_iff in H1 as [H1 _].
  apply andb_true_iff in H1 as [_ H1]. apply andb_true_iff in H1 as [H1 _]. apply Z.eqb_eq in H1.
  split; [exact H1|]. rewrite <- H1. exact (IH _ _ _ H2).
Qed.
Lemma inner_seq_from p r : ogg_inner p r = true -> seq_from (p_sequence p) (p :: r).
Proof. intros H. split; [reflexivity|exact (walk_seq_from _ _ _ _ H)]. Qed.

(* the segment M = m0 :: mr of a stream replaced by M' = n0 :: nr with the same interface *)
Lemma walk_swap st seq o e m0 mr n0 nr T T' :
  ogg_f_walk st seq o e ((m0 :: mr) ++ T) = true ->
  p_sequence n0 = p_sequence m0 -> first n0 = first m0 -> continued n0 = continued m0 -> ogg_f_granule_ok n0 = true ->
  ogg_inner n0 nr = true ->
  p_complete (last (n0 :: nr) new_page) = p_complete (last (m0 :: mr) new_page) ->
  last_flag (last (n0 :: nr) new_page) = last_flag (last (m0 :: mr) new_page) ->
  (ogg_f_walk true (p_sequence (last (m0 :: mr) new_page) + 1) (negb (p_complete (last (m0 :: mr) new_page)))
                   (last_flag (last (m0 :: mr) new_page)) T = true ->
   ogg_f_walk true (p_sequence (last (n0 :: nr) new_page) + 1) (negb (p_complete (last (m0 :: mr) new_page)))
                   (last_flag (last (m0 :: mr) new_page)) T' = true) ->
  ogg_f_walk st seq o e ((n0 :: nr) ++ T') = true.
Proof.
  intros H Hs Hf Hc Hg Hi Hlc Hll HT.
  rewrite walk_app_ne in H by discriminate. apply andb_true_iff in H as [H1 H2].
  rewrite walk_app_ne by discriminate. apply andb_true_iff. split.
  - rewrite walk_cons in *. apply andb_true_iff in H1 as [H1 _]. apply andb_true_iff. split; [|exact Hi].
    unfold ogg_head_ok in *. rewrite Hs, Hf, Hc, Hg.
    repeat (apply andb_true_iff in H1 as [H1 ?]). rewrite H1. destruct st.
    + match goal with X : _ && negb (first m0) = true |- _ => rewrite X end.
      match goal with X : Bool.eqb (continued m0) o = true |- _ => rewrite X end. reflexivity.
    + match goal with X : first m0 = true |- _ => rewrite X end.
      match goal with X : Bool.eqb (continued m0) o = true |- _ => rewrite X end. reflexivity.
  - rewrite Hlc, Hll. apply HT. exact H2.
Qed.

(* the same inside a stream A ++ M ++ T *)
Lemma stream_swap A m0 mr n0 nr T T' :
  ogg_f_stream_ok (A ++ (m0 :: mr) ++ T) = true ->
  p_sequence n0 = p_sequence m0 -> first n0 = first m0 -> continued n0 = continued m0 -> ogg_f_granule_ok n0 = true ->
  ogg_inner n0 nr = true ->
  p_complete (last (n0 :: nr) new_page) = p_complete (last (m0 :: mr) new_page) ->
  last_flag (last (n0 :: nr) new_page) = last_flag (last (m0 :: mr) new_page) ->
  (ogg_f_walk true (p_sequence (last (m0 :: mr) new_page) + 1) (negb (p_complete (last (m0 :: mr) new_page)))
                   (last_flag (last (m0 :: mr) new_page)) T = true ->
   ogg_f_walk true (p_sequence (last (n0 :: nr) new_page) + 1) (negb (p_complete (last (m0 :: mr) new_page)))
                   (last_flag (last (m0 :: mr) new_page)) T' = true) ->
  ogg_f_stream_ok (A ++ (n0 :: nr) ++ T') = true.
Proof.
  unfold ogg_f_stream_ok. intros H Hs Hf Hc Hg Hi Hlc Hll HT. destruct A as [|a0 A'].
  - cbn [app] in *. eapply (walk_swap false 0 false false m0 mr n0 nr T T'); eassumption.
  - rewrite walk_app_ne in * by discriminate. apply andb_true_iff in H as [H1 H2]. apply andb_true_iff.
    split; [exact H1|]. eapply (walk_swap _ _ _ _ m0 mr n0 nr T T'); eassumption.
Qed.

(* what the old segment itself satisfies *)
Lemma stream_segment A m0 mr T : ogg_f_stream_ok (A ++ (m0 :: mr) ++ T) = true ->
  ogg_inner m0 mr = true /\ ogg_f_granule_ok m0 = true /\ (A <> [] -> first m0 = false) /\ (A = [] -> first m0 = true).
Proof.
  unfold ogg_f_stream_ok. intros H.
  assert (X : forall st seq o e, ogg_f_walk st seq o e ((m0 :: mr) ++ T) = true ->
              ogg_inner m0 mr = true /\ ogg_f_granule_ok m0 = true /\ (if st then first m0 = false else first m0 = true)).
  { intros st seq o e W. rewrite walk_app_ne in W by discriminate. apply andb_true_iff in W as [W _].
    rewrite walk_cons in W. apply andb_true_iff in W as [W1 W2]. split; [exact W2|].
    unfold ogg_head_ok in W1. repeat (apply andb_true_iff in W1 as [W1 ?]). split; [assumption|].
    destruct st; [|assumption]. match goal with X : _ && negb (first m0) = true |- _ => apply andb_true_iff in X as [_ X] end.
    apply negb_true_iff. assumption. }
  destruct A as [|a0 A'].
  - cbn [app] in H. destruct (X _ _ _ _ H) as (X1 & X2 & X3). repeat split; try assumption; [intros C; contradiction|intros _; exact X3].
  - rewrite walk_app_ne in H by discriminate. apply andb_true_iff in H as [_ H].
    destruct (X _ _ _ _ H) as (X1 & X2 & X3). repeat split; try assumption; [intros _; exact X3|intros C; discriminate].
Qed.

(* ---- renumbering the tail ---------------------------------------------------------------------------- *)
Lemma granule_set_sequence p n : ogg_f_granule_ok (set_sequence p n) = ogg_f_granule_ok p.
Proof. reflexivity. Qed.

Lemma walk_renumber s T : forall m n o e, Forall (fun p => p_serial p = s) T ->
  ogg_f_walk true m o e T = true -> ogg_f_walk true n o e (renumber_pages s n T) = true.
Proof.
  induction T as [|p r IH]; intros m n o e HS H; [reflexivity|]. pose proof (Forall_inv HS) as Hp. pose proof (Forall_inv_tail HS) as Hr. cbn beta in Hp.
  cbn [renumber_pages]. rewrite Hp, Z.eqb_refl. rewrite walk_cons in *. apply andb_true_iff in H as [H1 H2].
  apply andb_true_iff. split.
  - unfold ogg_head_ok in *. repeat (apply andb_true_iff in H1 as [H1 ?]).
    change (first (set_sequence p n)) with (first p). change (continued (set_sequence p n)) with (continued p).
    rewrite granule_set_sequence. cbn [p_sequence set_sequence]. rewrite Z.eqb_refl.
    apply andb_true_iff in H3 as [_ H3]. rewrite H1, H3, H0, H. reflexivity.
  - unfold ogg_inner in *. cbn [p_sequence set_sequence p_complete]. change (last_flag (set_sequence p n)) with (last_flag p).
    eapply IH; eassumption.
Qed.

Lemma filter_renumber s n l :
  filter (is_serial s) (renumber_pages s n l) = renumber_pages s n (filter (is_serial s) l).
Proof.
  revert n; induction l as [|p r IH]; intros n; [reflexivity|]. cbn [renumber_pages filter].
  unfold is_serial at 2. destruct (p_serial p =? s) eqn:E.
  - cbn [filter renumber_pages]. unfold is_serial at 1. cbn [p_serial set_sequence]. rewrite E. rewrite IH. reflexivity.
  - cbn [filter]. unfold is_serial at 1. rewrite E. apply IH.
Qed.
Lemma filter_serial_all s l : Forall (fun p => p_serial p = s) (filter (is_serial s) l).
Proof.
  induction l as [|p r IH]; [constructor|]. cbn [filter]. unfold is_serial at 1. destruct (p_serial p =? s) eqn:E; [|exact IH].
  constructor; [apply Z.eqb_eq; exact E|exact IH].
Qed.

(* ---- the old file read by stream --------------------------------------------------------------------- *)
Lemma interleave_self (run : run_t) : run <> [] -> interleave run (map fst run) = old_pages_of run.
Proof.
  induction run as [|[o G] r IH]; intros Hne; [contradiction|]. destruct r as [|og2 r2].
  - unfold old_pages_of. cbn [map concat fst snd interleave app]. rewrite app_nil_r. reflexivity.
  - change (map fst ((o, G) :: og2 :: r2)) with (o :: map fst (og2 :: r2)).
    change (interleave ((o, G) :: og2 :: r2) (o :: map fst (og2 :: r2))) with (o :: G ++ interleave (og2 :: r2) (map fst (og2 :: r2))).
    rewrite IH by discriminate. unfold old_pages_of. cbn [map concat fst snd]. reflexivity.
Qed.

Lemma filter_old_same s (a : run_t) on Gn :
  Forall (fun og => p_serial (fst og) = s) (a ++ [(on, Gn)]) ->
  Forall (fun og => filter (is_serial s) (snd og) = []) a ->
  filter (is_serial s) (old_pages_of (a ++ [(on, Gn)])) = map fst (a ++ [(on, Gn)]) ++ filter (is_serial s) Gn.
Proof.
  intros Hs Ha. rewrite <- interleave_self by (destruct a; discriminate).
  apply filter_interleave_same; [|exact Ha].
  apply Forall_forall. intros p Hp. apply in_map_iff in Hp as (og & <- & Hog).
  rewrite Forall_forall in Hs. exact (Hs og Hog).
Qed.

(* a stream other than s is read off the pages of the other streams *)
Lemma filter_other s s' l : s' <> s -> filter (is_serial s') l = filter (is_serial s') (filter (not_serial s) l).
Proof.
  intros Hne. induction l as [|p r IH]; [reflexivity|]. cbn [filter]. unfold is_serial at 1, not_serial at 1.
  destruct (p_serial p =? s') eqn:E1.
  - apply Z.eqb_eq in E1. destruct (p_serial p =? s) eqn:E2; [apply Z.eqb_eq in E2; lia|]. cbn [negb filter].
    unfold is_serial at 2. rewrite E1, Z.eqb_refl. f_equal. exact IH.
  - destruct (p_serial p =? s); cbn [negb filter]; [exact IH|]. unfold is_serial at 2. rewrite E1. exact IH.
Qed.
