(* Ogg family: one save / delete step on a well-formed file -- the result is the rendering of a page list in which
   the old pages are replaced by the prepared new pages; it is well-formed again (C03); the pages of every other
   stream are the same pages in the same order (C02) *)
From Coq Require Import ZArith List Bool Lia.
Import ListNotations.
Require Import Base.Py Base.ZList Gen.Gen_tags Model.Crc Model.Ogg Model.Fam_flac Model.Fam_ogg.
Require Import Proofs.C15_lacing Proofs.C15_page Proofs.C15_unpage Proofs.C15_paging Proofs.C15_from_packets Proofs.C15_file
  Proofs.C15_replace Proofs.Fam_ogg_scan Proofs.Fam_ogg_locate Proofs.Fam_ogg_replace Proofs.Fam_ogg_stream
  Proofs.Fam_ogg_newpages Proofs.Fam_ogg_preserve Proofs.Fam_ogg_lastpiece Proofs.Fam_ogg_inject.
Open Scope Z_scope.

Lemma Forall_interleave (P : page -> Prop) (run : run_t) : forall news, Forall P news ->
  Forall (fun og => Forall P (snd og)) run -> Forall P (interleave run news).
Proof.
  induction run as [|[o G] r IH]; intros news Hn Hr; [constructor|]. inversion Hr as [|? ? HG Hr']; subst. cbn [snd] in HG.
  destruct r as [|og2 r2].
  - cbn [interleave]. apply Forall_app. split; assumption.
  - destruct news as [|n ns].
    + change (interleave ((o, G) :: og2 :: r2) []) with (G ++ interleave (og2 :: r2) []).
      apply Forall_app. split; [exact HG|apply IH; [constructor|exact Hr']].
    + change (interleave ((o, G) :: og2 :: r2) (n :: ns)) with (n :: G ++ interleave (og2 :: r2) ns).
      inversion Hn; subst. constructor; [assumption|]. apply Forall_app. split; [exact HG|apply IH; assumption].
Qed.

(* the edited stream: A ++ olds ++ T becomes A ++ prepared ++ T' *)
Lemma edited_stream_ok s A m0 mr on T news :
  last (m0 :: mr) new_page = on -> news_ok (m0 :: mr) on news -> Forall (fun p => p_serial p = s) T ->
  ogg_f_stream_ok (A ++ (m0 :: mr) ++ T) = true ->
  ogg_f_stream_ok (A ++ prepare_new m0 on news ++
                   (if zlen (m0 :: mr) =? zlen news then T else renumber_pages s (p_sequence m0 + zlen news) T)) = true.
Proof.
  intros Hlast (Hne & _ & _ & Hcoh) HsT H.
  destruct (stream_segment A m0 mr T H) as (Hin & Hg & _).
  assert (Hc : exists o, ogg_coh o news).
  { destruct Hcoh as [C|L]; [exists false; exact C|]. exists (continued m0). exact (like_coh_head m0 mr news L Hin Hg). }
  destruct Hc as (o & Hc).
  destruct (prepared_inner m0 on news o Hc Hne) as (n0 & nr & Ep & Gn0 & In0).
  destruct (prepare_new_spec m0 on news Hne) as (P1 & P2 & _ & P4 & P5 & P6 & P7 & _). rewrite Ep in *. cbn [hd] in P4, P5.
  pose proof (inner_seq_from m0 mr Hin) as Sm.
  pose proof (seq_from_last _ _ new_page Sm ltac:(discriminate)) as Lm.
  pose proof (seq_from_last _ _ new_page P2 ltac:(discriminate)) as Ln. rewrite P1 in Ln.
  eapply (stream_swap A m0 mr n0 nr T); try eassumption.
  - destruct P2 as (X & _). exact X.
  - rewrite Hlast. exact P7.
  - rewrite Hlast. exact P6.
  - intros HT. rewrite Ln. replace (p_sequence m0 + zlen news - 1 + 1) with (p_sequence m0 + zlen news) by lia.
    destruct (zlen (m0 :: mr) =? zlen news) eqn:E.
    + apply Z.eqb_eq in E. rewrite Lm, E in HT.
      replace (p_sequence m0 + zlen news - 1 + 1) with (p_sequence m0 + zlen news) in HT by lia. exact HT.
    + eapply walk_renumber; eassumption.
Qed.

(* ---- the step ------------------------------------------------------------------------------------------- *)
Definition cut_prepared (k : ogg_cut) (news : list page) : list page := prepare_new (cut_old0 k) (cut_on k) news.
Definition cut_tail (k : ogg_cut) (news : list page) : list page :=
  if zlen (cut_run k) =? zlen news then cut_gn k
  else renumber_pages (cut_s k) (p_sequence (cut_old0 k) + zlen news) (cut_gn k).
Definition cut_run' (k : ogg_cut) (news : list page) : run_t :=
  if zlen (cut_run k) =? zlen news then cut_run k
  else renumber_tail (cut_s k) (p_sequence (cut_old0 k) + zlen news) (cut_run k).
Definition cut_result (k : ogg_cut) (news : list page) : list page :=
  cut_before k ++ interleave (cut_run' k news) (cut_prepared k news).

Lemma cut_run_last k : last (cut_run k) (new_page, []) = (cut_on k, cut_gn k).
Proof. unfold cut_run. apply last_last. Qed.
Lemma cut_run_ne k : cut_run k <> [].
Proof. unfold cut_run. destruct (cut_a k); discriminate. Qed.
Lemma cut_olds k : exists mr, map fst (cut_run k) = cut_old0 k :: mr /\ last (cut_old0 k :: mr) new_page = cut_on k.
Proof.
  unfold cut_old0. pose proof (cut_run_ne k) as Hne. destruct (cut_run k) as [|[o G] r] eqn:E; [contradiction|].
  exists (map fst r). split; [reflexivity|]. cbn [hd fst].
  change (o :: map fst r) with (map fst ((o, G) :: r)). rewrite <- E.
  change new_page with (fst (new_page, @nil page)) at 1. rewrite ogg_last_map, cut_run_last. reflexivity.
Qed.

Theorem save_obj_step f c t pad cb f' pages :
  ogg_parse f = Ok pages -> ogg_f_streams_ok pages = true ->
  ogg_save_obj f c t pad cb = Ok f' ->
  exists olds news k,
    cut_ok c t pad cb pages olds news k /\
    ogg_parse f' = Ok (cut_result k news) /\ ogg_f_streams_ok (cut_result k news) = true /\
    filter (not_serial (cut_s k)) (cut_result k news) = filter (not_serial (cut_s k)) pages /\
    filter (is_serial (cut_s k)) pages =
      filter (is_serial (cut_s k)) (cut_before k) ++ map fst (cut_run k) ++ filter (is_serial (cut_s k)) (cut_gn k) /\
    filter (is_serial (cut_s k)) (cut_result k news) =
      filter (is_serial (cut_s k)) (cut_before k) ++ cut_prepared k news ++ filter (is_serial (cut_s k)) (cut_tail k news) /\
    news_ok (map fst (cut_run k)) (cut_on k) news /\ Forall page_wf (cut_result k news) /\
    ogg_f_inject c t pad cb f = Ok (olds, news).
Proof.
  intros Hp Hs H. apply parse_iff in Hp as (-> & W). unfold ogg_save_obj in H.
  destruct (ogg_f_inject c t pad cb (render_all pages)) as [[olds news]|e] eqn:I; [|discriminate].
  destruct (replace (render_all pages) olds news) as [[u|e] f''] eqn:R; [|discriminate]. inversion H; subst f''. clear H.
  destruct u. destruct (inject_cut c t pad cb pages olds news W I) as (k & K).
  exists olds, news, k. split; [exact K|].
  destruct (cut_news_ok c t pad cb pages olds news k W K) as (NK & Wo & WG & Wb).
  pose proof K as (Ep & Eo & S1 & S2 & S3 & S4 & T & N & F).
  pose proof NK as (Hne & HQ & Htail & Hcoh).
  (* replace *)
  rewrite Ep, Eo in R.
  destruct (replace_ok_pages (cut_before k) (cut_run k) news f' (cut_run_ne k) Hne WG R) as (Hren & Ef & WG').
  rewrite cut_run_last in Hren, Ef. cbn [fst] in Hren, Ef. fold (cut_old0 k) in Hren, Ef, WG'. fold (cut_s k) in Ef, WG'.
  fold (cut_prepared k news) in Hren, Ef. fold (cut_run' k news) in Ef, WG'. fold (cut_result k news) in Ef.
  pose proof (prepared_wf (cut_old0 k) (cut_on k) news HQ Hne Htail Hren) as Wprep. fold (cut_prepared k news) in Wprep.
  assert (Wres : Forall page_wf (cut_result k news)).
  { unfold cut_result. apply Forall_app. split; [exact Wb|]. apply Forall_interleave; assumption. }
  split; [apply parse_iff; split; assumption|].
  (* the streams *)
  destruct (cut_olds k) as (mr & Eolds & Elast).
  assert (Hold : filter (is_serial (cut_s k)) pages =
                 filter (is_serial (cut_s k)) (cut_before k) ++ map fst (cut_run k) ++ filter (is_serial (cut_s k)) (cut_gn k)).
  { rewrite Ep, filter_app. f_equal. unfold cut_run. apply filter_old_same; assumption. }
  assert (Hst : ogg_f_stream_ok (filter (is_serial (cut_s k)) pages) = true).
  { unfold ogg_f_streams_ok in Hs. rewrite forallb_forall in Hs.
    assert (Hin : In (cut_old0 k) pages).
    { rewrite Ep. apply in_or_app. right. unfold cut_old0. pose proof (cut_run_ne k).
      destruct (cut_run k) as [|[o G] r]; [contradiction|]. unfold old_pages_of. cbn [map concat fst snd hd app]. left. reflexivity. }
    exact (Hs _ Hin). }
  rewrite Hold, Eolds in Hst.
  assert (Hgapless : zlen (cut_run k) = zlen news ->
            seq_from (p_sequence (cut_old0 k) + zlen news) (filter (is_serial (cut_s k)) (cut_gn k))).
  { intros E. destruct (stream_segment _ _ _ _ Hst) as (Hin & _).
    assert (X : forall A st sq o e, ogg_f_walk st sq o e (A ++ (cut_old0 k :: mr) ++ filter (is_serial (cut_s k)) (cut_gn k)) = true ->
                seq_from (p_sequence (last (cut_old0 k :: mr) new_page) + 1) (filter (is_serial (cut_s k)) (cut_gn k))).
    { intros A. destruct A as [|a0 A']; intros st sq o e Wk.
      - cbn [app] in Wk. rewrite app_comm_cons, walk_app_ne in Wk by discriminate. apply andb_true_iff in Wk as [_ Wk].
        exact (walk_seq_from _ _ _ _ Wk).
      - rewrite walk_app_ne in Wk by discriminate. apply andb_true_iff in Wk as [_ Wk].
        rewrite walk_app_ne in Wk by discriminate. apply andb_true_iff in Wk as [_ Wk].
        exact (walk_seq_from _ _ _ _ Wk). }
    pose proof (X _ _ _ _ _ Hst) as Sq.
    pose proof (seq_from_last _ _ new_page (inner_seq_from _ _ Hin) ltac:(discriminate)) as Lm. rewrite Lm in Sq.
    assert (zlen (cut_old0 k :: mr) = zlen news) by (rewrite <- Eolds, zlen_map; exact E).
    replace (p_sequence (cut_old0 k) + zlen (cut_old0 k :: mr) - 1 + 1) with (p_sequence (cut_old0 k) + zlen news) in Sq by lia.
    exact Sq. }
  destruct (replace_stream_view (cut_a k) (cut_on k) (cut_gn k) news Hne S1 S2 Hgapless) as (V1 & _ & V3).
  fold (cut_run k) in V1, V3. fold (cut_old0 k) in V1, V3. fold (cut_s k) in V1, V3.
  fold (cut_prepared k news) in V1, V3. fold (cut_run' k news) in V1, V3.
  assert (Hnew : filter (is_serial (cut_s k)) (cut_result k news) =
                 filter (is_serial (cut_s k)) (cut_before k) ++ cut_prepared k news ++ filter (is_serial (cut_s k)) (cut_tail k news)).
  { unfold cut_result. rewrite filter_app. f_equal. exact V3. }
  assert (Hoth : filter (not_serial (cut_s k)) (cut_result k news) = filter (not_serial (cut_s k)) pages).
  { unfold cut_result. rewrite Ep, !filter_app. f_equal. exact V1. }
  split; [|split; [exact Hoth|split; [exact Hold|split; [exact Hnew|split; [exact NK|split; [exact Wres|reflexivity]]]]]].
  unfold ogg_f_streams_ok. apply forallb_forall. intros p Hp.
  destruct (p_serial p =? cut_s k) eqn:Es.
  - apply Z.eqb_eq in Es. rewrite Es, ogg_is_serial_eq, Hnew.
    assert (Etail : filter (is_serial (cut_s k)) (cut_tail k news) =
                    if zlen (cut_old0 k :: mr) =? zlen news then filter (is_serial (cut_s k)) (cut_gn k)
                    else renumber_pages (cut_s k) (p_sequence (cut_old0 k) + zlen news) (filter (is_serial (cut_s k)) (cut_gn k))).
    { unfold cut_tail. rewrite <- Eolds, zlen_map. destruct (zlen (cut_run k) =? zlen news); [reflexivity|apply filter_renumber]. }
    rewrite Etail. unfold cut_prepared. rewrite Eolds in NK.
    apply (edited_stream_ok (cut_s k) _ (cut_old0 k) mr (cut_on k) _ news Elast NK); [apply filter_serial_all|exact Hst].
  - assert (Hne' : p_serial p <> cut_s k) by (apply Z.eqb_neq; exact Es).
    rewrite ogg_is_serial_eq, (filter_other (cut_s k) (p_serial p) _ Hne'), Hoth, <- (filter_other (cut_s k) (p_serial p) _ Hne').
    unfold ogg_f_streams_ok in Hs. rewrite forallb_forall in Hs. apply Hs.
    assert (Hin : In p (filter (not_serial (cut_s k)) (cut_result k news))).
    { apply filter_In. split; [exact Hp|]. unfold not_serial. rewrite Es. reflexivity. }
    rewrite Hoth in Hin. apply filter_In in Hin as [Hin _]. exact Hin.
Qed.
