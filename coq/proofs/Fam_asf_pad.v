(* ASF family: consequences for the default padding policy (regenerated Gen.Gen_tags.get_default_padding) and the tie of
   asf_save to the splice skeleton / the file program over the regenerated resize_bytes. *)
From Coq Require Import ZArith List Bool Lia.
Import ListNotations.
Require Import Base.Py Base.ZList Base.FileModel Gen.Gen_tags Gen.Gen_util Model.Splice Model.Fam_asf
  Proofs.FileLemmas Proofs.Splice_lemmas Proofs.C09_policy
  Proofs.Fam_asf_codec Proofs.Fam_asf_save Proofs.Fam_asf_agree Proofs.Fam_asf_reopen Proofs.Fam_asf_hist.
Open Scope Z_scope.

Lemma asf_save_info_nonneg f t cb f' p s : asf_save f t cb = Ok f' -> asf_info f t = Ok (p, s) -> 0 <= s.
Proof.
  intros H Hi. destruct (asf_save_form _ _ _ _ H) as (objs & ts & Ho & _ & _ & _ & _ & Hold).
  unfold asf_info in Hi. rewrite Ho in Hi. inversion Hi. lia.
Qed.

(* with the default policy, an edit that fits into existing padding of at most 1 KiB does not resize the file *)
Theorem asf_save_default_fits f t f' p s : asf_save f t cb_default = Ok f' -> asf_info f t = Ok (p, s) ->
  0 <= p <= 1024 ->
  zlen f' = zlen f /\ header_size f' = header_size f /\ zdrop (header_size f) f' = zdrop (header_size f) f.
Proof.
  intros H Hi Hp. pose proof (asf_save_info_nonneg _ _ _ _ _ _ H Hi) as Hs.
  destruct (asf_save_padding _ _ _ _ H) as (p0 & s0 & s' & A & _ & _ & _ & _ & _ & K).
  rewrite Hi in A. inversion A; subst p0 s0. apply K; [|lia].
  unfold cb_default. apply default_keeps_moderate; lia.
Qed.

(* saving the same tags again with the default policy reproduces the file byte for byte *)
Theorem asf_save_default_twice f t f1 : 0 <= header_size f -> asf_save f t cb_default = Ok f1 ->
  place_loadable (place t) = true -> asf_save f1 t cb_default = Ok f1.
Proof.
  intros H0 H HP. eapply save_again; [exact H0|exact H|exact HP|reflexivity|].
  intros p s Hi. pose proof (asf_save_info_nonneg _ _ _ _ _ _ H Hi) as Hs.
  unfold cb_default. pose proof (default_nonneg p s Hs).
  replace (Z.max 0 (get_default_padding p s)) with (get_default_padding p s) by lia.
  apply default_idempotent, Hs.
Qed.

(* the result of a save is a splice at offset 0 of the old header by the new one *)
Theorem asf_save_is_splice f s t cb f' : asf_parse f = Ok s -> asf_save f t cb = Ok f' ->
  exists hdr, f' = splice f 0 (header_size f) hdr /\ 30 <= header_size f <= zlen f.
Proof.
  intros Hp H. destruct (asf_save_form _ _ _ _ H) as (objs & ts & _ & Hf & _).
  destruct (header_size_parse _ _ Hp) as [_ Hb].
  eexists. split; [rewrite splice0; exact Hf|exact Hb].
Qed.
(* ... which is what the file program  resize_bytes(fileobj, old_size, len(data), 0); seek(0); write(data)  over the
   regenerated resize_bytes computes, for every copy-buffer size and both seek flavours (C11) *)
Theorem asf_save_prog f s t cb f' : asf_parse f = Ok s -> asf_save f t cb = Ok f' ->
  exists hdr, forall real part BUF p, 1 <= BUF ->
    fst (splice_prog BUF 0 (header_size f) hdr (mkF f p (benign real part))) = Ok tt /\
    fdata (snd (splice_prog BUF 0 (header_size f) hdr (mkF f p (benign real part)))) = f'.
Proof.
  intros Hp H. destruct (asf_save_is_splice _ _ _ _ _ Hp H) as (hdr & -> & Hb).
  exists hdr. intros real part BUF p HB.
  apply (splice_prog_spec real part BUF HB f p 0 (header_size f) hdr); lia.
Qed.
