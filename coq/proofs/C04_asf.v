(* Proofs.C04_asf -- totality of the ASF.load mirror (Model.Parse_asf): obj.parse lets out only what parse_full maps
   (struct.error, UnicodeDecodeError, KeyError) or MutagenError; the object loop, the codec list loop and the header
   extension loop consume their data, so len + 1 rounds of fuel are never used up. *)
From Coq Require Import ZArith List Bool Lia.
Import ListNotations.
Require Import Base.Py Base.ZList Model.Parse_base Model.Parse_asf Proofs.C04_lib.
Open Scope Z_scope.

Definition aexc (e : exc) : Prop := e = EMutagen \/ e = EStruct \/ e = EUnicode \/ e = EKey.
Definition rspecA {A} (r : result A) : Prop := match r with Ok _ => True | Raise e => aexc e end.
Ltac aex := first [exact I | (left; reflexivity) | (right; left; reflexivity) | (right; right; left; reflexivity) | (right; right; right; reflexivity)].

Lemma rspecA_bind {A B} (m : result A) (k : A -> result B) :
  rspecA m -> (forall a, m = Ok a -> rspecA (k a)) -> rspecA (rbind m k).
Proof. unfold rspecA, rbind. destruct m; intros H Hk; [apply Hk; reflexivity|exact H]. Qed.

Lemma bytes_ok_lslice a b l : bytes_ok l -> bytes_ok (lslice a b l).
Proof. intro. rewrite lslice_zslice. apply bytes_ok_zslice. assumption. Qed.
Lemma zlen_lslice a b (l : list Z) : 0 <= a -> zlen (lslice a b l) <= Z.max 0 (zlen l - a).
Proof.
  intro Ha. rewrite lslice_zslice. pose proof (zlen_nonneg l). unfold zslice.
  destruct (Z.le_gt_cases (b - a) 0).
  - rewrite ztake_neg by lia. cbn. lia.
  - rewrite zlen_ztake, zlen_zdrop by lia. lia.
Qed.

Lemma asf_unpack_cases a b data : 0 <= a -> a < b ->
  (exists s, asf_unpack a b data = Ok s /\ s = lslice a b data /\ zlen s = b - a /\ b <= zlen data) \/
  asf_unpack a b data = Raise EStruct.
Proof.
  intros Ha Hab. unfold asf_unpack. cbv zeta. destruct (zlen (lslice a b data) =? b - a) eqn:E; [left|right; reflexivity].
  apply Z.eqb_eq in E. eexists. split; [reflexivity|]. split; [reflexivity|]. split; [exact E|].
  rewrite lslice_zslice, zlen_zslice in E by lia. pose proof (zlen_nonneg data). lia.
Qed.
Lemma rspecA_unpack a b data : rspecA (asf_unpack a b data).
Proof. unfold asf_unpack. cbv zeta. destruct (_ =? _); cbn; aex. Qed.
Lemma rspecA_decode l : rspecA (asf_decode l).
Proof. unfold asf_decode. destruct (asf_utf16_ok l); cbn; aex. Qed.
Lemma rspecA_attr t dw v : rspecA (asf_attr t dw v).
Proof.
  unfold asf_attr. cbv zeta.
  repeat match goal with |- context [if ?b then _ else _] => destruct b end; cbn; aex.
Qed.

Lemma asf_cd_texts_spec data : forall lengths pos n, rspecA (asf_cd_texts lengths data pos n).
Proof.
  induction lengths as [|x t IH]; intros pos n; cbn [asf_cd_texts]; [exact I|]. cbv zeta.
  destruct (0 <? x); [|apply IH]. apply rspecA_bind; [apply rspecA_decode|]. intros; apply IH.
Qed.
Lemma asf_content_spec data st : rspecA (asf_content data st).
Proof.
  unfold asf_content. apply rspecA_bind; [apply rspecA_unpack|]. intros h _.
  apply rspecA_bind; [apply asf_cd_texts_spec|]. intros; exact I.
Qed.
Lemma asf_ecd_loop_spec data : forall n pos, rspecA (asf_ecd_loop n data pos).
Proof.
  induction n as [|n IH]; intro pos; cbn [asf_ecd_loop]; [exact I|].
  apply rspecA_bind; [apply rspecA_unpack|]. intros nl _. cbv zeta.
  apply rspecA_bind; [apply rspecA_decode|]. intros _ _.
  apply rspecA_bind; [apply rspecA_unpack|]. intros tv _.
  apply rspecA_bind; [apply rspecA_attr|]. intros _ _. apply IH.
Qed.
Lemma asf_extcont_spec data st : rspecA (asf_extcont data st).
Proof.
  unfold asf_extcont. apply rspecA_bind; [apply rspecA_unpack|]. intros c _.
  apply rspecA_bind; [apply asf_ecd_loop_spec|]. intros; exact I.
Qed.
Lemma asf_md_loop_spec data : forall n pos, rspecA (asf_md_loop n data pos).
Proof.
  induction n as [|n IH]; intro pos; cbn [asf_md_loop]; [exact I|].
  apply rspecA_bind; [apply rspecA_unpack|]. intros h _. cbv zeta.
  apply rspecA_bind; [apply rspecA_decode|]. intros _ _.
  apply rspecA_bind; [apply rspecA_attr|]. intros _ _. apply IH.
Qed.
Lemma asf_metadata_spec data st : rspecA (asf_metadata data st).
Proof.
  unfold asf_metadata. apply rspecA_bind; [apply rspecA_unpack|]. intros c _.
  apply rspecA_bind; [apply asf_md_loop_spec|]. intros; exact I.
Qed.
Lemma asf_fileprop_spec data st : rspecA (asf_fileprop data st).
Proof.
  unfold asf_fileprop. destruct (zlen data <? 64); [cbn; aex|].
  apply rspecA_bind; [apply rspecA_unpack|]. intros; exact I.
Qed.
Lemma asf_stream_spec data st : rspecA (asf_stream data st).
Proof. unfold asf_stream. apply rspecA_bind; [apply rspecA_unpack|]. intros; exact I. Qed.

(* codec list *)
Lemma asf_uint_from_cases n data offset : bytes_ok data -> 0 <= n ->
  (exists v, asf_uint_from n data offset = Ok (v, offset + n) /\ 0 <= v /\ 0 <= offset /\ offset + n <= zlen data) \/
  asf_uint_from n data offset = Raise EStruct.
Proof.
  intros Hd Hn. unfold asf_uint_from. destruct ((0 <=? offset) && (offset + n <=? zlen data)) eqn:E; [left|right; reflexivity].
  apply andb_true_iff in E. destruct E as [E1 E2]. apply Z.leb_le in E1. apply Z.leb_le in E2.
  eexists. split; [reflexivity|]. pose proof (le_decode_bound _ (bytes_ok_lslice offset (offset + n) data Hd)). lia.
Qed.

Lemma asf_codec_entry_cases data offset : bytes_ok data ->
  match asf_codec_entry data offset with
  | Ok (next, _, _, _, _) => offset + 8 <= next /\ 0 <= offset /\ offset + 2 <= zlen data
  | Raise e => e = EStruct
  end.
Proof.
  intros Hd. unfold asf_codec_entry.
  destruct (asf_uint_from_cases 2 data offset Hd ltac:(lia)) as [(v1 & H1 & B1 & O1 & L1)|H1]; rewrite H1; cbn [rbind]; [|reflexivity].
  destruct (asf_uint_from_cases 2 data (offset + 2) Hd ltac:(lia)) as [(v2 & H2 & B2 & O2 & L2)|H2]; rewrite H2; cbn [rbind]; [|reflexivity].
  cbv zeta.
  destruct (asf_uint_from_cases 2 data (offset + 2 + 2 + v2 * 2) Hd ltac:(lia)) as [(v3 & H3 & B3 & O3 & L3)|H3]; rewrite H3; cbn [rbind]; [|reflexivity].
  destruct (asf_uint_from_cases 2 data (offset + 2 + 2 + v2 * 2 + 2 + v3 * 2) Hd ltac:(lia)) as [(v4 & H4 & B4 & O4 & L4)|H4]; rewrite H4; cbn [rbind]; [|reflexivity].
  destruct (v4 =? 2).
  - destruct (asf_uint_from_cases 2 data (offset + 2 + 2 + v2 * 2 + 2 + v3 * 2 + 2) Hd ltac:(lia)) as [(v5 & H5 & _)|H5]; rewrite H5; cbn [rbind]; [|reflexivity].
    lia.
  - cbn [rbind]. lia.
Qed.

Lemma asf_codec_loop_spec data : bytes_ok data -> forall fuel i count offset,
  1 <= Z.of_nat fuel -> zlen data + 2 - offset <= Z.of_nat fuel ->
  rspecA (asf_codec_loop fuel i count data offset).
Proof.
  intros Hd. induction fuel as [|f IH]; intros i count offset Hf1 Hf; [lia|].
  cbn [asf_codec_loop]. destruct (count <=? i); [exact I|].
  pose proof (asf_codec_entry_cases data offset Hd) as Hc.
  destruct (asf_codec_entry data offset) as [[[[[next ty] nm] ds] cid]|e].
  - cbn [rbind]. destruct (ty =? 2); [exact I|]. apply IH; lia.
  - subst e. cbn. aex.
Qed.
Lemma asf_codecs_spec data st : bytes_ok data -> rspecA (asf_codecs data st).
Proof.
  intros Hd. unfold asf_codecs. pose proof (zlen_nonneg data).
  destruct (asf_uint_from_cases 4 data 16 Hd ltac:(lia)) as [(v & H1 & _)|H1]; rewrite H1; cbn [rbind]; [|cbn; aex].
  apply rspecA_bind; [apply asf_codec_loop_spec; [assumption|lia|lia]|]. intros; exact I.
Qed.

Lemma asf_parse_leaf_spec guid data st : bytes_ok data -> rspecA (asf_parse_leaf guid data st).
Proof.
  intro Hd. unfold asf_parse_leaf.
  destruct (list_eqb guid guid_header); [cbn; aex|].
  destruct (list_eqb guid guid_content); [apply asf_content_spec|].
  destruct (list_eqb guid guid_extcont); [apply asf_extcont_spec|].
  destruct (list_eqb guid guid_fileprop); [apply asf_fileprop_spec|].
  destruct (list_eqb guid guid_stream); [apply asf_stream_spec|].
  destruct (list_eqb guid guid_codecs); [apply asf_codecs_spec; assumption|].
  destruct (list_eqb guid guid_metadata); [apply asf_metadata_spec|].
  destruct (list_eqb guid guid_metalib); [apply asf_metadata_spec|].
  exact I.
Qed.

(* header extension *)
Lemma asf_ext_loop_spec data datasize : bytes_ok data ->
  forall fuel dp st, 0 <= dp -> 1 <= Z.of_nat fuel -> zlen data + 1 - dp <= Z.of_nat fuel ->
  rspecA (asf_ext_loop fuel data datasize dp st).
Proof.
  intros Hd. induction fuel as [|f IH]; intros dp st Hdp Hf1 Hf; [lia|].
  cbn [asf_ext_loop]. destruct (dp <? datasize); cbn [negb]; [|exact I].
  destruct (asf_unpack_cases (22 + dp) (22 + dp + 24) data ltac:(lia) ltac:(lia)) as [(h & Hh & _ & _ & Hl)|Hh]; rewrite Hh; cbn [rbind]; [|cbn; aex].
  cbv zeta. destruct (le_decode (lslice 16 24 h) <? 1) eqn:Es; [cbn; aex|]. apply Z.ltb_ge in Es.
  destruct (list_eqb (lslice 0 16 h) guid_hdrext); [cbn; aex|].
  apply rspecA_bind.
  - apply asf_parse_leaf_spec. apply bytes_ok_lslice. assumption.
  - intros st' _. apply IH; lia.
Qed.

Lemma asf_parse_obj_spec guid data st : bytes_ok data -> rspecA (asf_parse_obj guid data st).
Proof.
  intro Hd. unfold asf_parse_obj. destruct (list_eqb guid guid_hdrext); [|apply asf_parse_leaf_spec; assumption].
  apply rspecA_bind; [apply rspecA_unpack|]. intros ds _. pose proof (zlen_nonneg data).
  apply asf_ext_loop_spec; [assumption|lia|lia|lia].
Qed.

Lemma rspecA_caught {A} (r : result A) d p :
  rspecA r -> pspec (pcatch (plift r) asf_is_caught (fun _ => praise EMutagen)) d p (fun _ p' => p' = p).
Proof.
  intro H. unfold pspecE, pcatch, plift, praise. destruct r as [a|e]; [reflexivity|].
  destruct H as [H|[H|[H|H]]]; subst e; reflexivity.
Qed.

Lemma rd_len_le n p d : 0 <= p -> zlen (rd n p d) <= zlen d.
Proof.
  intro Hp. pose proof (zlen_nonneg d). destruct (Z.lt_ge_cases n 0).
  - rewrite rd_len_neg by lia. lia.
  - rewrite rd_len by lia. lia.
Qed.

Lemma asf_objects_spec d : bytes_ok d ->
  forall fuel i n rem st nobj p, 0 <= p -> 1 <= Z.of_nat fuel -> zlen d + 2 - p <= Z.of_nat fuel ->
  pspec (asf_objects fuel i n rem st nobj) d p (fun _ _ => True).
Proof.
  intros Hd. induction fuel as [|f IH]; intros i n rem st nobj p Hp Hf1 Hf; [lia|].
  cbn [asf_objects]. pose proof (zlen_nonneg d).
  destruct (n <=? i); [pstep; exact I|].
  destruct (rem <? 24); [praiseM|].
  pstep. pstep.
  destruct (zlen r =? 24) eqn:E24; cbn [negb]; [|praiseM]. apply Z.eqb_eq in E24. cbv zeta.
  destruct (rem - 24 <? le_decode (lslice 16 24 r) - 24); [praiseM|].
  set (ps := le_decode (lslice 16 24 r) - 24).
  apply pspecE_bind. apply pspec_catchM.
  unfold pspecE, p_read. destruct (in_ssize ps); cbn [negb]; [|right; reflexivity].
  set (payload := rd ps (p + zlen r) d).
  destruct (zlen payload =? ps); cbn [negb]; [|praiseM].
  apply pspecE_bind. eapply pspecE_post.
  - apply rspecA_caught. apply asf_parse_obj_spec. apply bytes_ok_rd. assumption.
  - intros st' p' ->. cbv beta. pose proof (zlen_nonneg payload). apply IH; lia.
Qed.

Theorem asf_total d : c04_input d -> total (asf_load d).
Proof.
  intros [Hd Hlen]. unfold asf_load. eapply total_prun with (Q := fun _ _ => True).
  unfold asf_init. apply pspec_convert_io. pose proof (zlen_nonneg d).
  pstep. pstep.
  destruct (zlen r =? 30) eqn:E30; cbn [negb orb]; [|praiseM]. apply Z.eqb_eq in E30.
  destruct (list_eqb (lslice 0 16 r) guid_header); cbn [negb]; [|praiseM].
  cbv zeta. rewrite (lslice_zslice 16 28 r), zlen_zslice by lia.
  replace (Z.min (28 - 16) (Z.max 0 (zlen r - 16)) =? 12) with true by (symmetry; apply Z.eqb_eq; lia). cbn [negb].
  pstep. eapply pspecE_post.
  - apply asf_objects_spec; first [assumption | unfold lin_fuel; lia].
  - intros [st nobj] p' _. cbv beta iota. destruct (match as_sp st with Some x => x | None => (0, 0, 0) end) as [[ch rate] br].
    pstep. exact I.
Qed.
