(* C05 -- AIFF COMM chunk: the 80-bit extended sample rate of every integer rate below 2^53 is read back
   exactly by the binary64 arithmetic of read_float (modelled with an explicit round-to-53-bits). *)
From Coq Require Import ZArith List Bool Lia.
Import ListNotations.
Require Import Base.Py Base.ZList Model.InfoBase Model.InfoIff Proofs.C05_bits.
Open Scope Z_scope.

Lemma ext80_mant rate : 1 <= rate < 9007199254740992 ->
  let e := Z.log2 rate in let mant := rate * 2 ^ (63 - e) in
  0 <= e <= 52 /\ 9223372036854775808 <= mant < 18446744073709551616 /\
  round53 mant = mant /\ mant / 2 ^ (63 - e) = rate.
Proof.
  intros Hr e mant.
  assert (He0 : 0 <= e) by apply Z.log2_nonneg.
  assert (He : e < 53).
  { apply Z.log2_lt_pow2; [lia|]. change (2 ^ 53) with 9007199254740992. lia. }
  destruct (Z.log2_spec rate ltac:(lia)) as [Hlo Hhi]. fold e in Hlo, Hhi.
  set (Q := 2 ^ (52 - e)).
  assert (HQ : 0 < Q) by (apply Z.pow_pos_nonneg; lia).
  assert (HP : 2 ^ (63 - e) = Q * 2048).
  { unfold Q. change 2048 with (2 ^ 11). rewrite <- Z.pow_add_r by lia. f_equal. lia. }
  assert (HE : 2 ^ e * Q = 4503599627370496).
  { unfold Q. rewrite <- Z.pow_add_r by lia. replace (e + (52 - e)) with 52 by lia. reflexivity. }
  assert (HE' : 2 ^ Z.succ e * Q = 9007199254740992).
  { unfold Q. rewrite <- Z.pow_add_r by lia. replace (Z.succ e + (52 - e)) with 53 by lia. reflexivity. }
  assert (Hm : mant = rate * Q * 2048) by (unfold mant; rewrite HP; ring).
  assert (B1 : 4503599627370496 <= rate * Q) by (rewrite <- HE; apply Z.mul_le_mono_nonneg_r; lia).
  assert (B2 : rate * Q < 9007199254740992) by (rewrite <- HE'; apply Z.mul_lt_mono_pos_r; lia).
  assert (Bm : 9223372036854775808 <= mant < 18446744073709551616) by lia.
  split; [lia|]. split; [exact Bm|]. split.
  - unfold round53.
    assert (HL : Z.log2 mant = 63) by (apply Z.log2_unique; [lia|]; change (2 ^ 63) with 9223372036854775808;
                                       change (2 ^ (63 + 1)) with 18446744073709551616; lia).
    rewrite HL. change (63 + 1 <=? 53) with false. cbv iota.
    change (2 ^ (63 + 1 - 53)) with 2048. change (2 ^ (63 + 1 - 53 - 1)) with 1024.
    assert (Hmod : mant mod 2048 = 0) by (rewrite Hm; apply Z.mod_mul; lia).
    assert (Hdiv : mant / 2048 = rate * Q) by (rewrite Hm; apply Z.div_mul; lia).
    rewrite Hmod, Hdiv. change (0 >? 1024) with false. change (0 =? 1024) with false. cbn [orb andb].
    lia.
  - rewrite HP, Hm. replace (rate * Q * 2048) with (rate * (Q * 2048)) by ring. apply Z.div_mul. lia.
Qed.

Lemma aiff_ext80_length rate : length (aiff_ext80 rate) = 10%nat.
Proof. unfold aiff_ext80. destruct (rate =? 0); reflexivity. Qed.

(* read_float inverts the 80-bit extended encoding of every integer rate below 2^53 *)
Theorem read_float_ext80 rate : 0 <= rate < 9007199254740992 -> aiff_read_float_int (aiff_ext80 rate) = Ok rate.
Proof.
  intros Hr. unfold aiff_ext80.
  destruct (rate =? 0) eqn:Er.
  - assert (rate = 0) by lia. subst rate. vm_compute. reflexivity.
  - destruct (ext80_mant rate ltac:(lia)) as (He & Hm & Hr53 & Hdiv).
    remember (Z.log2 rate) as e eqn:Ee.
    remember (rate * 2 ^ (63 - e)) as mant eqn:Em.
    unfold aiff_read_float_int. layout. decode_encode.
    assert (Hhl : (((0 * 256 + (mant / 256 / 256 / 256 / 256 / 256 / 256 / 256) mod 256) * 256 +
                    (mant / 256 / 256 / 256 / 256 / 256 / 256) mod 256) * 256 +
                   (mant / 256 / 256 / 256 / 256 / 256) mod 256) * 256 + (mant / 256 / 256 / 256 / 256) mod 256 = mant / 4294967296) by lia.
    assert (Hll : (((0 * 256 + (mant / 256 / 256 / 256) mod 256) * 256 + (mant / 256 / 256) mod 256) * 256 +
                   (mant / 256) mod 256) * 256 + mant mod 256 = mant mod 4294967296) by lia.
    rewrite ?Hhl, ?Hll.
    assert (Hs : to_signed 65536 (16383 + e) = 16383 + e) by (unfold to_signed; rewrite if_false by lia; reflexivity).
    rewrite Hs.
    repeat (rewrite (if_false (16383 + e <? 0)) by lia).
    rewrite if_false by lia. rewrite if_false by lia. rewrite if_false by lia. rewrite if_false by lia.
    replace (mant / 256 / 256 / 256 / 256 * 4294967296 + mant mod 4294967296) with mant by lia.
    rewrite Hr53.
    replace (- (16383 + e - 16383 - 63)) with (63 - e) by lia.
    rewrite Hdiv. f_equal. lia.
Qed.

Lemma sub_at_8_10 (a b c x ext : list Z) :
  length a = 2%nat -> length b = 4%nat -> length c = 2%nat -> length x = 10%nat ->
  sub_at 8 10 (a ++ b ++ c ++ x ++ ext) = x.
Proof.
  intros Ha Hb Hc Hx. unfold sub_at.
  replace (a ++ b ++ c ++ x ++ ext) with ((a ++ b ++ c) ++ x ++ ext) by (rewrite <- !app_assoc; reflexivity).
  rewrite skipn_app. rewrite skipn_all2 by (rewrite !app_length; lia).
  replace (8 - length (a ++ b ++ c))%nat with 0%nat by (rewrite !app_length; lia).
  cbn [skipn app]. rewrite firstn_app. rewrite firstn_all2 by lia.
  replace (10 - length x)%nat with 0%nat by lia. cbn [firstn]. apply app_nil_r.
Qed.

Theorem aiff_comm channels frames bits rate ext :
  0 <= channels < 32768 -> 0 <= frames < 4294967296 -> 0 <= bits < 32768 -> 0 <= rate < 9007199254740992 ->
  decode_aiff_comm (build_aiff_comm channels frames bits rate ext) =
  Ok [channels; rate; bits; channels * bits * rate; frames; b2z (negb (rate =? 0))].
Proof.
  intros H1 H2 H3 H4.
  unfold decode_aiff_comm, build_aiff_comm.
  pose proof (aiff_ext80_length rate) as HL.
  rewrite sub_at_8_10 by (try reflexivity; exact HL).
  rewrite read_float_ext80 by lia.
  rewrite if_false.
  2:{ apply Z.ltb_ge. unfold zlen. rewrite !app_length, HL.
      change (length (be_encode 2 channels)) with 2%nat. change (length (be_encode 4 frames)) with 4%nat.
      change (length (be_encode 2 bits)) with 2%nat. lia. }
  rewrite if_false by lia.
  layout. decode_encode.
  unfold to_signed. rewrite !if_false by lia. reflexivity.
Qed.

(* infinities and NaNs (exponent field 0x7FFF) are rejected *)
Theorem aiff_inf_rejected channels frames bits sign hi lo ext :
  0 <= channels < 32768 -> 0 <= frames < 4294967296 -> 0 <= bits < 32768 -> 0 <= sign <= 1 ->
  0 <= hi < 4294967296 -> 0 <= lo < 4294967296 ->
  decode_aiff_comm (be_encode 2 channels ++ be_encode 4 frames ++ be_encode 2 bits ++
                    (be_encode 2 (32767 + 32768 * sign) ++ be_encode 4 hi ++ be_encode 4 lo) ++ ext) = Raise EMutagen.
Proof.
  intros H1 H2 H3 H4 H5 H6.
  unfold decode_aiff_comm.
  rewrite sub_at_8_10 by reflexivity.
  rewrite if_false.
  2:{ apply Z.ltb_ge. unfold zlen. rewrite !app_length.
      change (length (be_encode 2 channels)) with 2%nat. change (length (be_encode 4 frames)) with 4%nat.
      change (length (be_encode 2 bits)) with 2%nat. change (length (be_encode 2 (32767 + 32768 * sign))) with 2%nat.
      change (length (be_encode 4 hi)) with 4%nat. change (length (be_encode 4 lo)) with 4%nat. lia. }
  assert (Hf : aiff_read_float_int (be_encode 2 (32767 + 32768 * sign) ++ be_encode 4 hi ++ be_encode 4 lo) = Raise EOverflow).
  { unfold aiff_read_float_int. layout. decode_encode. unfold to_signed.
    assert (sign = 0 \/ sign = 1) as [-> | ->] by lia.
    - guards. reflexivity.
    - guards. reflexivity. }
  rewrite Hf. reflexivity.
Qed.
