(* ASF family: what mutagen's own reader returns for a saved file: on files that respect the cardinality / level rules
   the loaded tag list is exactly the reloaded form of the placement (C01 through mutagen's reader, C07 lossless). *)
From Coq Require Import ZArith List Bool Lia.
Import ListNotations.
Require Import Base.Py Base.ZList Model.Fam_asf Proofs.Fam_asf_codec Proofs.Fam_asf_save Proofs.Fam_asf_agree
  Proofs.Fam_asf_attr Proofs.Fam_asf_reopen Proofs.Fam_asf_c01 Proofs.Fam_asf_mirror Proofs.Fam_asf_canon Proofs.Fam_asf_c07.
Open Scope Z_scope.

Record mplacement_ok (P : placement) : Prop := mkMok {
  mok_text : cd_texts_ok P;
  mok_cd : Forall mvalid_attr (p_cd P); mok_ecd : Forall mvalid_attr (p_ecd P);
  mok_m : Forall mvalid_attr (p_m P); mok_ml : Forall mvalid_attr (p_ml P);
  mok_packs : place_packs P = true }.
Lemma place_mok t : Forall mvalid_attr t -> place_packs (place t) = true -> mplacement_ok (place t).
Proof.
  intros Hv Hp. pose proof (place_from t) as Hf. rewrite Forall_forall in Hv.
  assert (Hsub : forall l, (forall a, In a l -> In a (all_of (place t))) -> Forall mvalid_attr l).
  { intros l Hl. apply Forall_forall. intros a Ha. apply Hv, Hf, Hl, Ha. }
  constructor; [apply place_cd_text| | | | |exact Hp]; apply Hsub; intros a Ha; apply in_all_of; tauto.
Qed.

(* the reloaded attributes per object class *)
Definition rl (P : placement) (k : Z) : list attr :=
  if k =? 0 then cd_attrs_of (cd_view P) else if k =? 1 then map ecd_reload (p_ecd P)
  else if k =? 2 then map (meta_reload false) (p_m P) else map (meta_reload true) (p_ml P).

Lemma leaf_tags_retag P g d : mplacement_ok P ->
  leaf_tags g (snd (retag_raw P (g, d))) = match tagcls g with Some k => map (pair k) (rl P k) | None => [] end.
Proof.
  intros [Ht V1 V2 V3 V4 Hp]. unfold place_packs in Hp.
  apply andb_true_iff in Hp as [Hp H]. apply andb_true_iff in Hp as [Hp H0]. apply andb_true_iff in Hp as [Hp H1].
  apply andb_true_iff in Hp as [Hp H2]. apply andb_true_iff in Hp as [Hp H3]. apply andb_true_iff in Hp as [Hp H4].
  unfold retag_raw, leaf_tags, tagcls. cbn [fst snd]. pose proof (cls_of_inv g) as Hi.
  destruct (cls_of g) eqn:E.
  - subst g. unfold mut_leaf. change (cls_of G_CD) with KCD. rewrite (mut_cd_render _ Ht V1 Hp). reflexivity.
  - subst g. unfold mut_leaf. change (cls_of G_ECD) with KECD. unfold ecd_payload. rewrite mcounted_render by lia.
    rewrite (mut_ecd_render _ V2 H3). reflexivity.
  - subst g. unfold mut_leaf. change (cls_of G_META) with KMETA. unfold m_payload. rewrite mcounted_render by lia.
    rewrite (mut_meta_render false _ V3 H1). reflexivity.
  - subst g. unfold mut_leaf. change (cls_of G_LIB) with KLIB. unfold ml_payload. rewrite mcounted_render by lia.
    rewrite (mut_meta_render true _ V4 H). reflexivity.
  - unfold mut_leaf. rewrite E. reflexivity.
  - unfold mut_leaf. rewrite E. reflexivity.
  - unfold mut_leaf. rewrite E. reflexivity.
  - unfold mut_leaf. rewrite E. destruct (zlen d <? 64); reflexivity.
  - unfold mut_leaf. rewrite E. destruct (zlen d <? 66); reflexivity.
  - unfold mut_leaf. rewrite E. destruct (codec_ok d); reflexivity.
  - unfold mut_leaf. rewrite E. reflexivity.
Qed.

Lemma of_cls_app j a b : of_cls j (a ++ b) = of_cls j a ++ of_cls j b.
Proof. unfold of_cls. rewrite filter_app, map_app. reflexivity. Qed.
Lemma of_cls_pair j k (l : list attr) : of_cls j (map (pair k) l) = if k =? j then l else [].
Proof.
  unfold of_cls. induction l as [|a l IH]; [destruct (k =? j); reflexivity|]. cbn [map filter fst].
  destruct (k =? j) eqn:E; cbn [map snd]; [rewrite IH; reflexivity|exact IH].
Qed.
Lemma of_cls_flat_map {A} j (f : A -> list (Z * attr)) l : of_cls j (flat_map f l) = flat_map (fun x => of_cls j (f x)) l.
Proof. induction l as [|x l IH]; [reflexivity|]. cbn [flat_map]. rewrite of_cls_app, IH. reflexivity. Qed.

Lemma of_cls_leaf P j g d : mplacement_ok P ->
  of_cls j (leaf_tags g (snd (retag_raw P (g, d)))) = if praw j (g, d) then rl P j else [].
Proof.
  intros HP. rewrite (leaf_tags_retag P g d HP). unfold praw. cbn [fst].
  destruct (tagcls g) as [k|]; [|reflexivity]. rewrite of_cls_pair.
  destruct (k =? j) eqn:E; [apply Z.eqb_eq in E; subst; reflexivity|reflexivity].
Qed.

Lemma of_cls_obj P j o : mplacement_ok P -> of_cls j (obj_tags (retag_obj P o)) = contrib j (rl P j) o.
Proof.
  intros HP. destruct o as [g d|fx ch]; cbn [retag_obj obj_tags contrib].
  - rewrite (of_cls_leaf P j g d HP). reflexivity.
  - unfold raws_tags. rewrite of_cls_flat_map.
    induction ch as [|c ch IH]; [reflexivity|]. cbn [filter]. unfold nonpad_raw at 1.
    destruct (is_pad (fst c)) eqn:Ep; cbn [negb flat_map map].
    + rewrite (praw_pad j c Ep). exact IH.
    + rewrite IH. destruct c as [g d]. cbn [retag_raw fst snd].
      change (match cls_of g with KCD => cd_payload P | KECD => ecd_payload P | KMETA => m_payload P | KLIB => ml_payload P | _ => d end)
        with (snd (retag_raw P (g, d))).
      rewrite (of_cls_leaf P j g d HP). reflexivity.
Qed.

Lemma objs_tags_app a b : objs_tags (a ++ b) = objs_tags a ++ objs_tags b.
Proof. unfold objs_tags. apply flat_map_app. Qed.

Theorem gather_saved P X n : mplacement_ok P -> tree_canon X = true -> complete X ->
  gather (objs_tags (map (retag_obj P) X ++ [pad_obj n])) = rl P 0 ++ rl P 1 ++ rl P 2 ++ rl P 3.
Proof.
  intros HP Hc Hk.
  assert (H : forall j, 0 <= j <= 3 -> of_cls j (objs_tags (map (retag_obj P) X ++ [pad_obj n])) = rl P j).
  { intros j Hj. rewrite objs_tags_app, of_cls_app.
    assert (Hpad : objs_tags [pad_obj n] = []) by reflexivity. rewrite Hpad. cbn [of_cls filter map]. rewrite app_nil_r.
    unfold objs_tags. rewrite flat_map_concat_map, map_map, <- flat_map_concat_map. rewrite of_cls_flat_map.
    rewrite (flat_map_ext _ _ (fun o => of_cls_obj P j o HP)). apply canon_contrib; assumption. }
  unfold gather. rewrite !H by lia. reflexivity.
Qed.

Lemma cd_attrs_sorted P : cd_texts_ok P -> cd_attrs_of (cd_view P) = map ecd_reload (cd_sorted P).
Proof.
  intros Ht. unfold cd_attrs_of, cd_view, cd_sorted. rewrite flat_map_concat_map, map_map.
  rewrite flat_map_concat_map, concat_map, map_map. f_equal. apply map_ext. intros n. cbn [fst snd].
  destruct (find _ (p_cd P)) as [a|] eqn:E; [|reflexivity].
  apply find_some in E as [Hin Hn]. apply list_eqb_spec in Hn.
  unfold cd_texts_ok in Ht. rewrite Forall_forall in Ht. specialize (Ht a Hin).
  destruct (a_val a) eqn:Ev; try discriminate. cbn [map]. unfold ecd_reload. rewrite Hn, Ev. reflexivity.
Qed.
Lemma rl_reload P : cd_texts_ok P -> rl P 0 ++ rl P 1 ++ rl P 2 ++ rl P 3 = reload_attrs P.
Proof. intros Ht. unfold rl, reload_attrs. cbn [Z.eqb]. rewrite (cd_attrs_sorted P Ht). reflexivity. Qed.

(* mutagen reloads a saved file with exactly the reloaded form of the placement *)
Theorem asf_save_reload f s t cb f' : asf_parse f = Ok s -> asf_canon f = true -> Forall mvalid_attr t ->
  asf_save f t cb = Ok f' -> exists tree, asf_open f' = Ok (tree, reload_attrs (place t)).
Proof.
  intros Hp Hc Hv H. destruct (asf_save_reopens_valid _ _ _ _ Hv H) as (objs & ts & Ho & Ho').
  destruct (asf_save_form _ _ _ _ H) as (objs' & ts' & Ho2 & _ & Hpp & _).
  rewrite Ho in Ho2. inversion Ho2; subst objs' ts'; clear Ho2.
  destruct (open_parse_agree _ _ _ _ Hp Ho) as [-> _].
  eexists. rewrite Ho'. f_equal. f_equal.
  unfold save_tree, core_objs. fold (saved_objs (sobjs s)).
  rewrite gather_saved.
  - apply rl_reload, place_cd_text.
  - apply place_mok; assumption.
  - apply saved_canon. unfold asf_canon in Hc. rewrite Hp in Hc. exact Hc.
  - apply saved_complete.
Qed.
