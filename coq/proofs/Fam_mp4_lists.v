(* The atom lists __update_offsets visits (stco / co64 under the first moov, tfhd under every top-level moof):
   they are duplicate-free sublists of the flattened tree, made of leaves that satisfy the table rules. *)
From Coq Require Import ZArith List Bool Lia.
Import ListNotations.
Require Import Base.Py Base.ZList Model.Splice Model.Fam_mp4 Proofs.Fam_mp4_bytes Proofs.Fam_mp4_tree Proofs.Fam_mp4_path.
Open Scope Z_scope.

Lemma filter_flat_map {A B} (p : B -> bool) (F : A -> list B) l :
  filter p (flat_map F l) = flat_map (fun a => filter p (F a)) l.
Proof. induction l as [|a r IH]; [reflexivity|]. cbn [flat_map]. rewrite filter_app, IH. reflexivity. Qed.

(* findall(name, recursive=True) = the proper descendants with that name, in pre-order *)
Lemma findall_filter nm : forall a,
  mp4_findall_atom nm a = match ma_kids a with Some ks => filter (mp4_named nm) (mp4_flat ks) | None => [] end.
Proof.
  induction a as [n o l h|n o l h ks IH] using mp4_atom_ind'; [reflexivity|].
  rewrite findall_node. cbn [ma_kids]. unfold mp4_flat. rewrite filter_flat_map.
  induction ks as [|k r IHr]; [reflexivity|]. inversion IH as [|? ? Hk Hr]; subst.
  cbn [flat_map]. rewrite (IHr Hr). f_equal. unfold findall_step. rewrite Hk.
  destruct k as [n' o' l' h' [ks'|]].
  - rewrite flat_atom_node. cbn [filter ma_kids]. unfold mp4_named at 1 2. cbn [ma_name].
    destruct (list_eqb n' nm); reflexivity.
  - rewrite flat_atom_leaf. cbn [filter ma_kids]. unfold mp4_named. cbn [ma_name].
    destruct (list_eqb n' nm); reflexivity.
Qed.

(* ------------------------------------------------------------------ no duplicates *)
Lemma nodup_app {A} (a b : list A) : NoDup a -> NoDup b -> (forall x, In x a -> In x b -> False) -> NoDup (a ++ b).
Proof.
  induction a as [|x r IH]; intros Ha Hb Hd; [exact Hb|].
  inversion Ha; subst. cbn [app]. constructor.
  - intros C. apply in_app_or in C. destruct C as [C|C]; [auto|]. apply (Hd x); [left; reflexivity|exact C].
  - apply IH; auto. intros y Hy1 Hy2. apply (Hd y); [right; exact Hy1|exact Hy2].
Qed.
Lemma nodup_app_inv {A} (a b : list A) : NoDup (a ++ b) -> NoDup a /\ NoDup b /\ (forall x, In x a -> In x b -> False).
Proof.
  induction a as [|x r IH]; intros H.
  - repeat split; [constructor|exact H|intros ? []].
  - cbn [app] in H. inversion H; subst. destruct (IH H3) as (Ha & Hb & Hd). repeat split.
    + constructor; [|exact Ha]. intros C. apply H2. apply in_or_app. left; exact C.
    + exact Hb.
    + intros y [<-|Hy] Hy2; [apply H2; apply in_or_app; right; exact Hy2|apply (Hd y); assumption].
Qed.

Lemma ordered_nodup l : ordered l -> Forall (fun s => s_lo s < s_hi s) l -> NoDup l.
Proof.
  induction l as [|s r IH]; intros Ho Hp; [constructor|].
  destruct Ho as [Hs Hr]. inversion Hp; subst. constructor; [|apply IH; assumption].
  intros C. rewrite Forall_forall in Hs. specialize (Hs _ C). lia.
Qed.
Lemma nodup_flat f top ks p e : mp4_forest_ok f top ks p e = true -> NoDup (mp4_flat ks).
Proof.
  intros H. destruct (segs_ok _ _ _ _ _ H) as (Ho & Hi).
  assert (Hn : NoDup (segs ks)).
  { apply ordered_nodup; [exact Ho|]. eapply Forall_impl; [|exact Hi]. unfold seg_in. intros; lia. }
  unfold segs in Hn. eapply NoDup_map_inv. exact Hn.
Qed.

Lemma nodup_flat_map_sub {A B} (F G : A -> list B) l :
  NoDup (flat_map F l) -> (forall a, In a l -> NoDup (G a) /\ incl (G a) (F a)) -> NoDup (flat_map G l).
Proof.
  induction l as [|a r IH]; intros Hn Hs; [constructor|].
  cbn [flat_map] in *. destruct (nodup_app_inv _ _ Hn) as (Ha & Hr & Hd).
  destruct (Hs a (or_introl eq_refl)) as (Hga & Hia).
  apply nodup_app; [exact Hga|apply IH; [exact Hr|intros b Hb; apply Hs; right; exact Hb]|].
  intros x Hx1 Hx2. apply (Hd x); [apply Hia; exact Hx1|].
  apply in_flat_map in Hx2. destruct Hx2 as (b & Hb & Hx2). apply in_flat_map. exists b. split; [exact Hb|].
  destruct (Hs b (or_intror Hb)) as (_ & Hib). apply Hib. exact Hx2.
Qed.

(* ------------------------------------------------------------------ the three lists *)
Section Lists.
Variables (f : list Z) (atoms : list mp4_atom).
Hypothesis Hwf : mp4_forest_ok f true atoms 0 (zlen f) = true.

Lemma child_in n a : mp4_child n atoms = Some a -> In a atoms.
Proof. unfold mp4_child. intros H. apply find_some in H. tauto. Qed.

Lemma findall_top_in nm m x : In m atoms -> In x (mp4_findall_atom nm m) ->
  In x (mp4_flat atoms) /\ ma_name x = nm.
Proof.
  intros Hm Hx. destruct (findall_in_flat nm m x Hx) as (Hn & ks & Hk & Hin). split; [|exact Hn].
  eapply in_flat_kids; eassumption.
Qed.

Lemma stco_in x : In x (mp4_stco_list atoms) -> In x (mp4_flat atoms) /\ ma_name x = N_stco.
Proof.
  unfold mp4_stco_list. destruct (mp4_child N_moov atoms) as [m|] eqn:E; [|intros []].
  apply findall_top_in. eapply child_in; eassumption.
Qed.
Lemma co64_in x : In x (mp4_co64_list atoms) -> In x (mp4_flat atoms) /\ ma_name x = N_co64.
Proof.
  unfold mp4_co64_list. destruct (mp4_child N_moov atoms) as [m|] eqn:E; [|intros []].
  apply findall_top_in. eapply child_in; eassumption.
Qed.
Lemma tfhd_in x : In x (mp4_tfhd_list atoms) -> In x (mp4_flat atoms) /\ ma_name x = N_tfhd.
Proof.
  unfold mp4_tfhd_list. intros H. apply in_flat_map in H. destruct H as (m & Hm & Hx).
  destruct (list_eqb (ma_name m) N_moof); [|destruct Hx]. eapply findall_top_in; eassumption.
Qed.

Lemma nodup_findall nm m top : mp4_atom_ok f top m = true -> NoDup (mp4_findall_atom nm m).
Proof.
  intros H. rewrite findall_filter. destruct (ma_kids m) as [ks|] eqn:E; [|constructor].
  apply NoDup_filter. destruct (atom_ok_kids _ _ _ _ H E) as (_ & Hk). eapply nodup_flat; exact Hk.
Qed.
Lemma atoms_ok m : In m atoms -> mp4_atom_ok f true m = true.
Proof.
  intros Hm. apply in_split in Hm. destruct Hm as (l1 & l2 & E). rewrite E in Hwf.
  apply forest_ok_split in Hwf. tauto.
Qed.

Lemma stco_nodup : NoDup (mp4_stco_list atoms).
Proof.
  unfold mp4_stco_list. destruct (mp4_child N_moov atoms) as [m|] eqn:E; [|constructor].
  eapply nodup_findall. apply atoms_ok. eapply child_in; eassumption.
Qed.
Lemma co64_nodup : NoDup (mp4_co64_list atoms).
Proof.
  unfold mp4_co64_list. destruct (mp4_child N_moov atoms) as [m|] eqn:E; [|constructor].
  eapply nodup_findall. apply atoms_ok. eapply child_in; eassumption.
Qed.
Lemma tfhd_nodup : NoDup (mp4_tfhd_list atoms).
Proof.
  unfold mp4_tfhd_list. apply (nodup_flat_map_sub mp4_flat_atom).
  - change (NoDup (mp4_flat atoms)). eapply nodup_flat; exact Hwf.
  - intros m Hm. destruct (list_eqb (ma_name m) N_moof); [|split; [constructor|intros ? []]].
    split; [eapply nodup_findall; apply atoms_ok; exact Hm|].
    intros x Hx. destruct (findall_in_flat _ _ _ Hx) as (_ & ks & Hk & Hin).
    destruct m as [n o l h [k0|]]; cbn in Hk; [|discriminate]. inversion Hk; subst.
    rewrite flat_atom_node. right. exact Hin.
Qed.

(* members of the flattening are leaves / containers according to their name, and obey the strict rules *)
Lemma flat_member_ok x : In x (mp4_flat atoms) -> exists top, mp4_atom_ok f top x = true.
Proof.
  intros Hx. pose proof (forest_flat_ok _ _ _ _ _ Hwf) as H. rewrite Forall_forall in H.
  destruct (H x Hx) as [E|E]; eauto.
Qed.
Lemma flat_member_within x : In x (mp4_flat atoms) -> 0 <= ma_off x /\ ma_off x + ma_len x <= zlen f.
Proof.
  intros Hx. pose proof (forest_within _ _ _ _ _ Hwf) as H. rewrite Forall_forall in H.
  apply H in Hx. unfold within in Hx. lia.
Qed.

Hypothesis Htab : mp4_tables_ok f atoms = true.

Lemma tables_ok_at x : In x (mp4_flat atoms) ->
  (ma_name x = N_stco -> mp4_table_ok f 4 x = true) /\
  (ma_name x = N_co64 -> mp4_table_ok f 8 x = true) /\
  (ma_name x = N_tfhd -> mp4_tfhd_ok f x = true).
Proof.
  intros Hx. unfold mp4_tables_ok in Htab. rewrite forallb_forall in Htab. specialize (Htab x Hx).
  apply andb_true_iff in Htab. destruct Htab as [H12 H3]. apply andb_true_iff in H12. destruct H12 as [H1 H2].
  unfold mp4_named in *. repeat split; intros E; rewrite E in *.
  - replace (list_eqb N_stco N_stco) with true in H1 by reflexivity. exact H1.
  - replace (list_eqb N_co64 N_co64) with true in H2 by reflexivity. exact H2.
  - replace (list_eqb N_tfhd N_tfhd) with true in H3 by reflexivity. exact H3.
Qed.
End Lists.

(* shape facts of a table / tfhd that satisfies the rules *)
Lemma table_ok_facts f w x : mp4_table_ok f w x = true -> 0 < w ->
  ma_hdr x = 8 /\ 0 <= be_decode (mp4_rd f (ma_off x + 12) 4) /\
  ma_len x = 16 + w * be_decode (mp4_rd f (ma_off x + 12) 4).
Proof.
  unfold mp4_table_ok. intros H Hw. apply andb_true_iff in H. destruct H as [H H3].
  apply andb_true_iff in H. destruct H as [H1 H2]. apply Z.eqb_eq in H1, H3. apply Z.leb_le in H2.
  repeat split; auto. nia.
Qed.
Lemma tfhd_ok_facts f x : mp4_tfhd_ok f x = true ->
  ma_hdr x = 8 /\ 12 <= ma_len x /\ (mp4_tfhd_flag f x = true -> 24 <= ma_len x).
Proof.
  unfold mp4_tfhd_ok. intros H. apply andb_true_iff in H. destruct H as [H H3].
  apply andb_true_iff in H. destruct H as [H1 H2]. apply Z.eqb_eq in H1. apply Z.leb_le in H2.
  repeat split; auto. intros E. rewrite E in H3. cbn in H3. apply Z.leb_le in H3. exact H3.
Qed.
