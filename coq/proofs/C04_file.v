(* C04 (File): mutagen.File's dispatch adds no exception of its own -- the chosen name is always one of the
   options, and the outcome of File is the outcome of the chosen loader. *)
From Coq Require Import ZArith List Bool Lia.
Import ListNotations.
Require Import Base.Py Base.ZList Model.ScorePrims Gen.Gen_scores Model.Score Model.Parse_base Model.Parse_file
  Proofs.C18_order.
Open Scope Z_scope.

Lemma choose_in : forall l n, choose l = Some n -> exists s, In (s, n) l /\ s > 0.
Proof.
  intros l n H. destruct l as [|x r]; [discriminate|].
  cbn [choose] in H. pose proof (fold_kmax_is_max r x) as [Hin _].
  set (m := fold_left kmax r x) in *. unfold pick in H.
  destruct (fst m >? 0) eqn:Hs; [|discriminate].
  injection H as H. exists (fst m). split; [|lia].
  destruct m as [s n']. cbn in *. subst n'. exact Hin.
Qed.

Lemma choose_map_in : forall (sc : cls -> Z) (nm : cls -> name) opts n,
  choose (map (fun c => (sc c, nm c)) opts) = Some n -> exists k, In k opts /\ nm k = n.
Proof.
  intros sc nm opts n H. apply choose_in in H. destruct H as [s [Hin _]].
  apply in_map_iff in Hin. destruct Hin as [k [Hk Hin]].
  exists k. split; [exact Hin|]. injection Hk as _ Hn. exact Hn.
Qed.

Lemma detect_unfold : forall fname header trailer,
  detect fname header trailer = choose (map (fun c => (score_of c fname header trailer, cls_name c)) options).
Proof. intros. unfold detect, detect_with, scores_with. reflexivity. Qed.

Lemma detect_in_options : forall fname header trailer n,
  detect fname header trailer = Some n -> exists k, In k options /\ cls_name k = n.
Proof.
  intros fname header trailer n H. rewrite detect_unfold in H.
  apply (choose_map_in (fun c => score_of c fname header trailer) cls_name options n) in H. exact H.
Qed.

Lemma cls_of_name_some : forall k, In k options -> exists k', cls_of_name (cls_name k) = Some k'.
Proof.
  intros k Hin. unfold cls_of_name.
  destruct (find (fun c => list_eqb (cls_name c) (cls_name k)) options) eqn:F; [eauto|].
  pose proof (find_none _ _ F k Hin) as Hn. cbn beta in Hn.
  assert (list_eqb (cls_name k) (cls_name k) = true) by (apply list_eqb_spec; reflexivity). congruence.
Qed.

Lemma cls_of_name_sound : forall n k, cls_of_name n = Some k -> In k options /\ cls_name k = n.
Proof.
  intros n k H. unfold cls_of_name in H. apply find_some in H. destruct H as [Hin He].
  split; [exact Hin|]. apply list_eqb_spec. exact He.
Qed.

Theorem file_choice_ok : forall fname d, exists r, file_choice fname d = Ok r /\
  match r with None => detect fname (file_header d) (Some (file_trailer d)) = None
             | Some k => In k options /\ detect fname (file_header d) (Some (file_trailer d)) = Some (cls_name k) end.
Proof.
  intros fname d. unfold file_choice.
  destruct (detect fname (file_header d) (Some (file_trailer d))) as [n|] eqn:D.
  - destruct (detect_in_options _ _ _ _ D) as [k [Hin Hn]]. subst n.
    destruct (cls_of_name_some k Hin) as [k' Hk']. rewrite Hk'.
    exists (Some k'). split; [reflexivity|].
    apply cls_of_name_sound in Hk'. destruct Hk' as [Hin' He]. split; [exact Hin'|]. rewrite He. reflexivity.
  - exists None. split; reflexivity.
Qed.

Theorem file_dispatch_total : forall {A} (load : cls -> list Z -> result A) fname d,
  (forall k, In k options -> total (load k d)) -> total (file_dispatch load fname d).
Proof.
  intros A load fname d Hl. unfold file_dispatch.
  destruct (file_choice_ok fname d) as [r [Hr Hs]]. rewrite Hr.
  destruct r as [k|]; [|exact I].
  destruct Hs as [Hin _]. specialize (Hl k Hin). unfold total in *.
  destruct (load k d); [exact I|exact Hl].
Qed.

(* File's outcome IS the chosen loader's outcome *)
Theorem file_dispatch_outcome : forall {A} (load : cls -> list Z -> result A) fname d,
  match file_choice fname d with
  | Ok (Some k) => file_dispatch load fname d = match load k d with Ok a => Ok (Some (k, a)) | Raise e => Raise e end
  | Ok None => file_dispatch load fname d = Ok None
  | Raise _ => False
  end.
Proof.
  intros A load fname d. destruct (file_choice_ok fname d) as [r [Hr _]]. unfold file_dispatch. rewrite Hr.
  destruct r; reflexivity.
Qed.
