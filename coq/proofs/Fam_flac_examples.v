(* FLAC family: a tiny synthetic file (built by flac_build) on which every hypothesis of the property theorems is
   satisfied and every operation succeeds -- the theorems are not vacuous.  All by vm_compute. *)
From Coq Require Import ZArith List Bool.
Import ListNotations.
Require Import Base.Py Gen.Gen_tags Model.Fam_flac.
Open Scope Z_scope.

(* STREAMINFO: block sizes 4096, sample rate 44100 Hz, 2 channels, 16 bit, 0 samples, zero MD5 *)
Definition ex_streaminfo : list Z := [16; 0; 16; 0; 0; 0; 0; 0; 0; 0; 10; 196; 66; 240; 0; 0; 0; 0] ++ zeros 16.
Definition ex_old : vc := mkVC [118; 49] [([97], [98]); ([84; 105], [])].
Definition ex_new : vc := mkVC [118; 49] [([116; 105; 116; 108; 101], [195; 164; 61; 120]); ([97], [])].
Definition ex_id3 : option (list Z) := Some [1; 2; 3].
Definition ex_audio : list Z := [255; 248; 201; 24; 0; 0].
(* ID3v2 prefix | fLaC | STREAMINFO | VORBIS_COMMENT | APPLICATION | unknown type 9 | PADDING 10 | PADDING 0 (last) | audio *)
Definition ex_file : list Z :=
  flac_build ex_id3 [(0, ex_streaminfo); (4, vc_render ex_old); (2, [65; 66; 67; 68; 9]); (9, [7]); (1, zeros 10); (1, [])] ex_audio.
Definition ex_notags : list Z := flac_build None [(0, ex_streaminfo); (1, zeros 40)] ex_audio.
Definition ex_opts (cb : option (Z -> Z -> Z)) : opts := mkOpts cb false.

Definition get {A} (d : A) (r : result A) : A := match r with Ok a => a | Raise _ => d end.

Example ex_wf : flac_wf ex_file = true /\ flac_wf ex_notags = true.
Proof. vm_compute. split; reflexivity. Qed.
Example ex_load : flac_load ex_file = Ok (Some ex_old) /\ flac_load ex_notags = Ok None.
Proof. vm_compute. split; reflexivity. Qed.
Example ex_valid : vc_valid ex_new = true /\ vc_fits32 ex_new = true.
Proof. vm_compute. split; reflexivity. Qed.
Example ex_save_ok : is_ok (flac_save ex_file ex_new (ex_opts None)) = true /\
                     is_ok (flac_save ex_notags ex_new (ex_opts (Some (cb_const 7)))) = true.
Proof. vm_compute. split; reflexivity. Qed.
Example ex_save_reads_back : flac_load (get [] (flac_save ex_file ex_new (ex_opts (Some cb_keep)))) = Ok (Some ex_new).
Proof. vm_compute. reflexivity. Qed.
(* the edit fits into the padding: same size *)
Example ex_save_same_size : zlen (get [] (flac_save ex_file ex_new (ex_opts None))) = zlen ex_file.
Proof. vm_compute. reflexivity. Qed.
Example ex_save_resizes : zlen (get [] (flac_save ex_file ex_new (ex_opts (Some (cb_const 777))))) = zlen ex_file + 769.
Proof. vm_compute. reflexivity. Qed.
Example ex_delete_ok : is_ok (flac_delete ex_file) = true /\ flac_load (get [] (flac_delete ex_file)) = Ok None /\
  zlen (get [] (flac_delete ex_file)) = zlen ex_file - 42.
Proof. vm_compute. repeat split; reflexivity. Qed.
Example ex_invalid_key_rejected : flac_save ex_file (mkVC [] [([97; 61], [1])]) (ex_opts None) = Raise EValue.
Proof. vm_compute. reflexivity. Qed.
Example ex_history : flac_wf (fold_left flac_step
  [OpSave ex_new None; OpDelete; OpSave ex_old (Some (cb_const 0)); OpSave ex_new (Some cb_keep); OpDelete; OpDelete] ex_file) = true.
Proof. vm_compute. reflexivity. Qed.

(* deleteid3: prefix and an ID3v1 trailer go away, the blocks and the audio stay *)
Definition ex_file_v1 : list Z :=
  flac_build ex_id3 [(0, ex_streaminfo); (2, [65; 66; 67; 68; 9]); (1, zeros 10)] (ex_audio ++ zeros 130 ++ [84; 65; 71] ++ zeros 125).
Example ex_deleteid3 : flac_wf ex_file_v1 = true /\
  match flac_save ex_file_v1 ex_new (mkOpts None true) with
  | Ok f' => match flac_parse f' with
             | Ok s' => (fprefix s', map bcode (fblocks s'), zlen (faudio s'))
             | Raise _ => ([], [], -1) end
  | Raise _ => ([], [], -2) end = ([], [0; 2; 4; 1], 136).
Proof. vm_compute. split; reflexivity. Qed.

(* regression (fixed in /repo by "fix: FLAC save(deleteid3=True) could truncate the metadata it just wrote"): on a file with
   fewer than 128 bytes of audio the ID3v1 test used to look at the last 128 bytes of the FILE, i.e. into the metadata
   blocks; a value with "TAG" at that spot got the comment block cut off (192-byte result truncated to 64 bytes, unloadable).
   The trailer is now only looked for behind the blocks just written: the same input stays whole and well-formed. *)
Definition ex_short : list Z := flac_build None [(0, ex_streaminfo)] (ex_audio ++ zeros 4).
Definition ex_tagvalue : vc := mkVC [] [([116; 105; 116; 108; 101], [84; 65; 71] ++ repeat 120 111)].
Example ex_deleteid3_short_regression :
  flac_wf ex_short = true /\ vc_valid ex_tagvalue = true /\
  flac_save ex_short ex_tagvalue (mkOpts (Some (cb_const 0)) true) = flac_save ex_short ex_tagvalue (mkOpts (Some (cb_const 0)) false) /\
  zlen (get [] (flac_save ex_short ex_tagvalue (mkOpts (Some (cb_const 0)) true))) = 192 /\
  flac_wf (get [] (flac_save ex_short ex_tagvalue (mkOpts (Some (cb_const 0)) true))) = true /\
  flac_load (get [] (flac_save ex_short ex_tagvalue (mkOpts (Some (cb_const 0)) true))) = Ok (Some ex_tagvalue).
Proof. vm_compute. repeat split; reflexivity. Qed.
