(* IFF family, C09: the padding arithmetic of IffID3.save / _WaveID3.save.
   _prepare_data(fileobj, chunk.data_offset, chunk.data_size, ...): the callback sees
   info.padding = data_size of the ID3 chunk (0 for a chunk just created) - (frame data + 10) and
   info.size = the bytes that follow the chunk payload (pad byte and later chunks; the old tag does not count); a tag of the old payload size leaves the file size and every
   byte outside the chunk payload (+ pad byte) in place. *)
From Coq Require Import ZArith List Bool Lia.
Import ListNotations.
Require Import Base.Py Base.ZList Model.Splice Model.Fam_carrier Model.Fam_iff
  Proofs.Fam_iff_codec Proofs.Fam_iff_chunks Proofs.Fam_iff_walk Proofs.Fam_iff_ops Proofs.Fam_iff_props
  Proofs.Fam_carrier_lemmas.
Open Scope Z_scope.

Section Fl.
Variable fl : flavour.
Hypothesis Hfl : fl_ok fl = true.
Notation HS := (hsize fl).

(* what _prepare_data is told about a well-formed file: (available, trailing size) *)
Definition iff_avail (s : iff_struct) : Z * Z :=
  match split_id3 fl (s_chunks s) with
  | Some (_, c, post) => (zlen (cdata c), zlen (cpad c) + zlen (render_chunks fl post))
  | None => (0, 0)
  end.

Lemma iff_target_render s : struct_ok fl s = true ->
  let X := zlen (render_chunks fl (s_chunks s)) in
  iff_target fl (iff_render fl s) =
  match split_id3 fl (s_chunks s) with
  | Some (pre, c, _) => Ok (iff_render fl s, 4 + X, mkCe (HS + 4 + zlen (render_chunks fl pre)) (cid c) (zlen (cdata c)))
  | None => if fits fl (4 + X + HS)
            then Ok (iff_render fl (mkIff (s_name s) (s_chunks s ++ [new_chunk fl])), 4 + X + HS, mkCe (HS + 4 + X) (fl_new fl) 0)
            else Raise EStruct
  end.
Proof.
  intros Hs X. destruct (root_and_chunks fl Hfl s Hs) as [R1 R2].
  destruct (struct_ok_inv fl s Hs) as (Hn & Hcs & Hfit).
  unfold iff_target. rewrite R1. cbn [rbind]. rewrite R2. cbn [rbind].
  rewrite find_entries by assumption.
  destruct (split_id3 fl (s_chunks s)) as [[[pre c] post]|] eqn:Sp; [reflexivity|].
  apply (insert_new_render fl Hfl s Hs).
Qed.

Theorem iff_save_cb_decompose f s fd ver cb f' : iff_parse fl f = Ok s -> iff_save_cb fl f fd ver cb = Ok f' ->
  exists tag, id3_prepare fd ver cb (fst (iff_avail s)) (snd (iff_avail s)) = Ok tag /\ iff_save fl f tag = Ok f'.
Proof.
  intros Hp Hsv. destruct (iff_parse_sound fl Hfl f s Hp) as [Ef Hs]. subst f.
  pose proof (iff_target_render s Hs) as Ht. cbv zeta in Ht.
  unfold iff_save_cb in Hsv. unfold iff_save. rewrite Ht in *. unfold iff_avail.
  destruct (struct_ok_inv fl s Hs) as (Hn & Hcs & Hfit).
  pose proof (iff_render_zlen fl Hfl s Hs) as Lf. pose proof (hsize_eq fl) as HH.
  destruct (split_id3 fl (s_chunks s)) as [[[pre c] post]|] eqn:Sp.
  - destruct (split_id3_some fl _ _ _ _ Sp) as (Ecs & _ & _). rewrite Ecs in Hcs, Lf.
    apply chunks_ok_mid in Hcs as (_ & Hc & _). rewrite zlen_render_mid in Lf by (exact Hfl || exact Hc).
    cbn [rbind fst snd ce_ds ce_off] in *.
    pose proof (zlen_nonneg (cpad c)) as Hpc. pose proof (zlen_nonneg (render_chunks fl post)) as Hpq.
    replace (trailing_size (zlen (iff_render fl s)) (HS + 4 + zlen (render_chunks fl pre) + HS) (zlen (cdata c)))
      with (zlen (cpad c) + zlen (render_chunks fl post)) in Hsv by (unfold trailing_size; unfold csize in Lf; lia).
    destruct (id3_prepare fd ver cb (zlen (cdata c)) (zlen (cpad c) + zlen (render_chunks fl post))) as [tag|e];
      cbn [rbind] in Hsv; [|discriminate].
    exists tag. split; [reflexivity | exact Hsv].
  - destruct (fits fl (4 + zlen (render_chunks fl (s_chunks s)) + HS)) eqn:F; cbn [rbind] in *; [|discriminate].
    cbn [fst snd ce_ds ce_off] in *.
    assert (Hs1 : struct_ok fl (mkIff (s_name s) (s_chunks s ++ [new_chunk fl])) = true).
    { apply struct_ok_intro; [exact Hn | |].
      - apply forallb_app_iff. split; [exact Hcs|]. cbn [forallb]. rewrite new_chunk_ok by exact Hfl. reflexivity.
      - rewrite render_chunks_app, zlen_app. cbn [render_chunks]. rewrite app_nil_r, render_new_chunk_zlen by exact Hfl.
        replace (4 + (zlen (render_chunks fl (s_chunks s)) + HS)) with (4 + zlen (render_chunks fl (s_chunks s)) + HS) by lia. exact F. }
    pose proof (iff_render_zlen fl Hfl _ Hs1) as L1. cbn [s_chunks] in L1.
    rewrite render_chunks_app, zlen_app in L1. cbn [render_chunks] in L1. rewrite app_nil_r, render_new_chunk_zlen in L1 by exact Hfl.
    replace (trailing_size (zlen (iff_render fl (mkIff (s_name s) (s_chunks s ++ [new_chunk fl]))))
             (HS + 4 + zlen (render_chunks fl (s_chunks s)) + HS) 0) with 0 in Hsv by (unfold trailing_size; lia).
    destruct (id3_prepare fd ver cb 0 0) as [tag|e]; cbn [rbind] in Hsv; [|discriminate].
    exists tag. split; [reflexivity | exact Hsv].
Qed.

(* a tag as long as the old chunk payload: same file size, everything outside payload + pad byte at its offset *)
Theorem iff_keep_size f s pre c post tag f' : iff_parse fl f = Ok s ->
  split_id3 fl (s_chunks s) = Some (pre, c, post) -> zlen tag = zlen (cdata c) -> iff_save fl f tag = Ok f' ->
  let off := HS + 4 + zlen (render_chunks fl pre) + HS in
  zlen f' = zlen f /\ ztake off f' = ztake off f /\
  zdrop (off + zlen (cdata c) + zlen (cpad c)) f' = zdrop (off + zlen (cdata c) + zlen (cpad c)) f /\
  zslice off (off + zlen tag) f' = tag.
Proof.
  intros Hp Sp Lt Hsv off. destruct (iff_save_spec fl Hfl f s tag f' Hp Hsv) as [_ Ef'].
  destruct (iff_parse_sound fl Hfl f s Hp) as [Ef Hs]. destruct (struct_ok_inv fl s Hs) as (Hn & Hcs & Hfit).
  destruct (split_id3_some fl _ _ _ _ Sp) as (Ecs & _ & _).
  unfold save_struct in Ef'. rewrite Sp in Ef'.
  rewrite Ecs in Hcs. apply chunks_ok_mid in Hcs as (_ & Hc & _). destruct (chunk_ok_inv fl c Hc) as (A & B & C & D & E).
  pose proof (name_ok_len fl _ Hn) as Ln. pose proof (sid_ok_len _ (fl_root_sid fl Hfl)) as Lr.
  pose proof (hsize_eq fl) as HH. pose proof (mod2_range (zlen tag)) as Hm.
  set (P := render_chunks fl pre) in *. set (Q := render_chunks fl post) in *.
  assert (LX : zlen (render_chunks fl (pre ++ with_tag c tag :: post)) = zlen (render_chunks fl (pre ++ c :: post))).
  { rewrite !render_mid, !zlen_app, !render_chunk_zlen by (exact Hfl || exact A). rewrite csize_with_tag by exact Hfl.
    unfold csize. rewrite D, Lt. fold P Q. lia. }
  set (A0 := fl_root fl ++ enc fl (4 + zlen (render_chunks fl (pre ++ c :: post))) ++ s_name s ++ P ++ cid c ++ enc fl (zlen (cdata c))).
  assert (E1 : f = A0 ++ (cdata c ++ cpad c) ++ Q).
  { rewrite Ef. unfold iff_render, A0. rewrite Ecs, Ln, render_mid. fold P Q. unfold render_chunk. rewrite <- !app_assoc. reflexivity. }
  assert (E2 : f' = A0 ++ (tag ++ zeros (zlen tag mod 2)) ++ Q).
  { rewrite Ef'. unfold iff_render, A0. cbn [s_name s_chunks]. rewrite LX, Ln, (render_mid fl pre (with_tag c tag) post). fold P Q.
    unfold render_chunk. cbn [with_tag cid cdata cpad]. rewrite Lt. rewrite <- !app_assoc. reflexivity. }
  assert (LA : zlen A0 = off). { unfold A0, off. rewrite !zlen_app, !enc_zlen, Lr, Ln, A. fold P. lia. }
  assert (Lz : zlen (zeros (zlen tag mod 2)) = zlen (cpad c)) by (rewrite zlen_zeros by lia; rewrite D, Lt; reflexivity).
  split; [rewrite E1, E2, !zlen_app, Lz, Lt; reflexivity|].
  split; [rewrite E1, E2, !ztake_app_len by (symmetry; exact LA); reflexivity|].
  split.
  - rewrite E1, E2.
    replace (A0 ++ (cdata c ++ cpad c) ++ Q) with ((A0 ++ cdata c ++ cpad c) ++ Q) by (rewrite <- !app_assoc; reflexivity).
    replace (A0 ++ (tag ++ zeros (zlen tag mod 2)) ++ Q) with ((A0 ++ tag ++ zeros (zlen tag mod 2)) ++ Q) by (rewrite <- !app_assoc; reflexivity).
    rewrite !zdrop_app_len by (rewrite !zlen_app, ?Lz, ?Lt; lia). reflexivity.
  - rewrite E2. rewrite <- app_assoc. apply zslice_mid; lia.
Qed.

End Fl.
