(* ASF family: the cardinality / level rules (tree_canon: ContentDescription, ExtendedContentDescription, header extension
   at most once and at top level; Metadata, MetadataLibrary at most once and inside the header extension) are kept by
   save, and on such files every class of tag object occurs exactly once after a save, so the loaded attributes of a
   class are exactly the placed ones (C01 exact form). *)
From Coq Require Import ZArith List Bool Lia.
Import ListNotations.
Require Import Base.Py Base.ZList Model.Splice Model.Fam_asf Proofs.Fam_asf_codec Proofs.Fam_asf_save Proofs.Fam_asf_agree
  Proofs.Fam_asf_attr Proofs.Fam_asf_reopen Proofs.Fam_asf_c01.
Open Scope Z_scope.

Definition pleaf (k : Z) (o : obj) : bool :=
  match o with OLeaf g _ => match tagcls g with Some c => c =? k | None => false end | _ => false end.
Definition praw (k : Z) (c : rawobj) : bool := match tagcls (fst c) with Some c' => c' =? k | None => false end.
Lemma count_top_eq k l : count_top k l = zlen (filter (pleaf k) l). Proof. reflexivity. Qed.
Lemma count_raw_eq k l : count_raw k l = zlen (filter (praw k) l). Proof. reflexivity. Qed.

Lemma zlen_filter_app {A} (p : A -> bool) a b : zlen (filter p (a ++ b)) = zlen (filter p a) + zlen (filter p b).
Proof. rewrite filter_app, zlen_app. reflexivity. Qed.
Lemma zlen_filter_none {A} (p : A -> bool) l : existsb p l = false -> zlen (filter p l) = 0.
Proof.
  induction l as [|x l IH]; [reflexivity|]. cbn [existsb filter]. intros H. apply orb_false_iff in H as [H1 H2].
  rewrite H1. apply IH, H2.
Qed.
Lemma zlen_filter_some {A} (p : A -> bool) l : existsb p l = true -> 1 <= zlen (filter p l).
Proof.
  induction l as [|x l IH]; [discriminate|]. cbn [existsb filter]. intros H. destruct (p x).
  - rewrite zlen_cons. pose proof (zlen_nonneg (filter p l)). lia.
  - apply IH, H.
Qed.

(* GUID tests vs classes *)
Lemma tagcls_G g k : tagcls g = Some k ->
  (k = 0 /\ g = G_CD) \/ (k = 1 /\ g = G_ECD) \/ (k = 2 /\ g = G_META) \/ (k = 3 /\ g = G_LIB).
Proof.
  unfold tagcls. pose proof (cls_of_inv g) as H. destruct (cls_of g); intros E; inversion E; subst; auto.
Qed.
Lemma pleaf_top_has k g0 l : tagcls g0 = Some k -> existsb (pleaf k) l = top_has g0 l.
Proof.
  intros Hk. unfold top_has. induction l as [|o l IH]; [reflexivity|]. cbn [existsb]. rewrite IH. f_equal.
  destruct o as [g d|]; [|reflexivity]. cbn [pleaf].
  destruct (list_eqb g g0) eqn:E.
  - apply list_eqb_spec in E. subst g. rewrite Hk. apply Z.eqb_refl.
  - destruct (tagcls g) as [c|] eqn:Ec; [|reflexivity]. destruct (c =? k) eqn:Ek; [|reflexivity].
    apply Z.eqb_eq in Ek. subst c. exfalso.
    destruct (tagcls_G _ _ Ec) as [[? ?]|[[? ?]|[[? ?]|[? ?]]]], (tagcls_G _ _ Hk) as [[? ?]|[[? ?]|[[? ?]|[? ?]]]];
      subst; try discriminate; try lia; rewrite list_eqb_refl in E; discriminate.
Qed.
Lemma praw_raw_has k g0 l : tagcls g0 = Some k -> existsb (praw k) l = raw_has g0 l.
Proof.
  intros Hk. unfold raw_has. induction l as [|c l IH]; [reflexivity|]. cbn [existsb]. rewrite IH. f_equal.
  unfold praw. destruct (list_eqb (fst c) g0) eqn:E.
  - apply list_eqb_spec in E. rewrite E, Hk. apply Z.eqb_refl.
  - destruct (tagcls (fst c)) as [c'|] eqn:Ec; [|reflexivity]. destruct (c' =? k) eqn:Ek; [|reflexivity].
    apply Z.eqb_eq in Ek. subst c'. exfalso.
    destruct (tagcls_G _ _ Ec) as [[? ?]|[[? ?]|[[? ?]|[? ?]]]], (tagcls_G _ _ Hk) as [[? ?]|[[? ?]|[[? ?]|[? ?]]]];
      subst; try discriminate; try lia; rewrite H0 in E; rewrite list_eqb_refl in E; discriminate.
Qed.

(* ------------------------------------------------------------------ add_missing keeps the rules *)
Lemma filter_upd {p : obj -> bool} g l : (forall fx ch, p (OExt fx (g ch)) = p (OExt fx ch)) ->
  zlen (filter p (upd_first_ext g l)) = zlen (filter p l).
Proof.
  intros Hp. induction l as [|o l IH]; [reflexivity|]. destruct o as [a d|fx ch]; cbn [upd_first_ext filter].
  - destruct (p (OLeaf a d)); [rewrite !zlen_cons, IH|exact IH]; reflexivity.
  - rewrite Hp. destruct (p (OExt fx ch)); [rewrite !zlen_cons|]; reflexivity.
Qed.
Lemma praw_meta k d : praw k (G_META, d) = (2 =? k). Proof. reflexivity. Qed.
Lemma praw_lib k d : praw k (G_LIB, d) = (3 =? k). Proof. reflexivity. Qed.
Lemma zlen_single {A} (x : A) : zlen [x] = 1. Proof. reflexivity. Qed.
Lemma count_raw_add k ch : count_raw k (add_children ch) =
  count_raw k ch + (if (k =? 2) && negb (raw_has G_META ch) then 1 else 0)
                 + (if (k =? 3) && negb (raw_has G_LIB ch) then 1 else 0).
Proof.
  rewrite !count_raw_eq. unfold add_children.
  assert (HL : raw_has G_LIB (ch ++ [(G_META, [])]) = raw_has G_LIB ch).
  { unfold raw_has. rewrite existsb_app. cbn. rewrite orb_false_r. reflexivity. }
  destruct (raw_has G_META ch) eqn:E1.
  - destruct (raw_has G_LIB ch) eqn:E2; rewrite ?andb_false_r, ?andb_true_r; cbn [negb]; [lia|].
    rewrite zlen_filter_app. cbn [filter]. rewrite praw_lib, (Z.eqb_sym 3 k).
    destruct (k =? 3); rewrite ?zlen_single, ?(@zlen_nil rawobj); lia.
  - rewrite HL. destruct (raw_has G_LIB ch) eqn:E2; cbn [negb]; rewrite ?andb_true_r, ?andb_false_r.
    + rewrite zlen_filter_app. cbn [filter]. rewrite praw_meta, (Z.eqb_sym 2 k).
      destruct (k =? 2); rewrite ?zlen_single, ?(@zlen_nil rawobj); lia.
    + rewrite !zlen_filter_app. cbn [filter]. rewrite praw_meta, praw_lib, (Z.eqb_sym 2 k), (Z.eqb_sym 3 k).
      destruct (k =? 2), (k =? 3); rewrite ?zlen_single, ?(@zlen_nil rawobj); lia.
Qed.
Lemma ext_canon_add fx ch : ext_canon (OExt fx ch) = true -> ext_canon (OExt fx (add_children ch)) = true.
Proof.
  cbn [ext_canon]. intros H. apply andb_true_iff in H as [H H5]. apply andb_true_iff in H as [H H4].
  apply andb_true_iff in H as [H H3]. apply andb_true_iff in H as [H1 H2].
  rewrite !count_raw_add. cbn [Z.eqb andb].
  assert (M : raw_has G_META ch = false -> count_raw 2 ch = 0).
  { intros E. rewrite count_raw_eq. apply zlen_filter_none. rewrite (praw_raw_has 2 G_META) by reflexivity. exact E. }
  assert (L : raw_has G_LIB ch = false -> count_raw 3 ch = 0).
  { intros E. rewrite count_raw_eq. apply zlen_filter_none. rewrite (praw_raw_has 3 G_LIB) by reflexivity. exact E. }
  assert (Hh : forallb (fun c => negb (is_hext (fst c))) (add_children ch) = true).
  { apply forallb_forall. intros c Hc. rewrite forallb_forall in H5. unfold add_children in Hc.
    assert (Hc' : In c ch \/ c = (G_META, []) \/ c = (G_LIB, [])).
    { destruct (raw_has G_META ch).
      - destruct (raw_has G_LIB ch); [left; exact Hc|]. apply in_app_iff in Hc as [Hc|[Hc|[]]]; [left; exact Hc|right; right; symmetry; exact Hc].
      - destruct (raw_has G_LIB (ch ++ [(G_META, [])])).
        + apply in_app_iff in Hc as [Hc|[Hc|[]]]; [left; exact Hc|right; left; symmetry; exact Hc].
        + apply in_app_iff in Hc as [Hc|[Hc|[]]]; [|right; right; symmetry; exact Hc].
          apply in_app_iff in Hc as [Hc|[Hc|[]]]; [left; exact Hc|right; left; symmetry; exact Hc]. }
    destruct Hc' as [Hc'|[->| ->]]; [apply H5, Hc'|reflexivity|reflexivity]. }
  rewrite Hh, andb_true_r.
  destruct (raw_has G_META ch) eqn:E1; destruct (raw_has G_LIB ch) eqn:E2; cbn [negb];
    rewrite ?M, ?L by reflexivity; cbn [Z.eqb Pos.eqb andb]; lia.
Qed.

Lemma forallb_upd g l : (forall fx ch, ext_canon (OExt fx ch) = true -> ext_canon (OExt fx (g ch)) = true) ->
  forallb ext_canon l = true -> forallb ext_canon (upd_first_ext g l) = true.
Proof.
  intros Hg. induction l as [|o l IH]; [reflexivity|]. destruct o as [a d|fx ch]; cbn [upd_first_ext forallb]; intros H.
  - apply andb_true_iff in H as [H1 H2]. rewrite IH by exact H2. reflexivity.
  - apply andb_true_iff in H as [H1 H2]. rewrite (Hg fx ch H1), H2. reflexivity.
Qed.

Theorem add_missing_canon l : tree_canon l = true -> tree_canon (add_missing l) = true.
Proof.
  unfold tree_canon. intros H. apply andb_true_iff in H as [H H6]. apply andb_true_iff in H as [H H5].
  apply andb_true_iff in H as [H H4]. apply andb_true_iff in H as [H H3]. apply andb_true_iff in H as [H1 H2].
  unfold add_missing.
  set (l1 := if top_has G_CD l then l else l ++ [OLeaf G_CD []]).
  assert (A1 : count_top 0 l1 <= 1 /\ count_top 1 l1 = count_top 1 l /\ count_top 2 l1 = 0 /\ count_top 3 l1 = 0 /\
               zlen (filter is_ext l1) = zlen (filter is_ext l) /\ forallb ext_canon l1 = true /\
               top_has G_ECD l1 = top_has G_ECD l).
  { unfold l1. destruct (top_has G_CD l) eqn:E.
    - repeat split; try lia; assumption.
    - rewrite !count_top_eq, !zlen_filter_app, forallb_app, top_has_app. cbn [filter pleaf is_ext forallb ext_canon].
      change (tagcls G_CD) with (Some 0). cbn [Z.eqb]. rewrite !count_top_eq in *.
      assert (Z0 : zlen (filter (pleaf 0) l) = 0).
      { apply zlen_filter_none. rewrite (pleaf_top_has 0 G_CD) by reflexivity. exact E. }
      rewrite Z0, H6. cbn. repeat split; try lia. apply orb_false_r. }
  destruct A1 as (B1 & B2 & B3 & B4 & B5 & B6 & B7).
  set (l2 := if top_has G_ECD l1 then l1 else l1 ++ [OLeaf G_ECD []]).
  assert (A2 : count_top 0 l2 <= 1 /\ count_top 1 l2 <= 1 /\ count_top 2 l2 = 0 /\ count_top 3 l2 = 0 /\
               zlen (filter is_ext l2) = zlen (filter is_ext l) /\ forallb ext_canon l2 = true).
  { unfold l2. destruct (top_has G_ECD l1) eqn:E.
    - repeat split; try lia; assumption.
    - rewrite !count_top_eq, !zlen_filter_app, forallb_app. cbn [filter pleaf is_ext forallb ext_canon].
      change (tagcls G_ECD) with (Some 1). cbn [Z.eqb]. rewrite !count_top_eq in *.
      assert (Z0 : zlen (filter (pleaf 1) l1) = 0).
      { apply zlen_filter_none. rewrite (pleaf_top_has 1 G_ECD) by reflexivity. exact E. }
      rewrite Z0, B6. cbn. repeat split; lia. }
  destruct A2 as (C1 & C2 & C3 & C4 & C5 & C6).
  set (l3 := if existsb is_ext l2 then l2 else l2 ++ [OExt HEXT_FIXED []]).
  assert (A3 : count_top 0 l3 <= 1 /\ count_top 1 l3 <= 1 /\ count_top 2 l3 = 0 /\ count_top 3 l3 = 0 /\
               zlen (filter is_ext l3) <= 1 /\ forallb ext_canon l3 = true).
  { unfold l3. destruct (existsb is_ext l2) eqn:E.
    - repeat split; try lia; assumption.
    - rewrite !count_top_eq, !zlen_filter_app, forallb_app. cbn [filter pleaf is_ext forallb]. rewrite !count_top_eq in *.
      rewrite (zlen_filter_none is_ext l2 E), C6. cbn. repeat split; lia. }
  destruct A3 as (D1 & D2 & D3 & D4 & D5 & D6).
  rewrite !count_top_eq in *. rewrite !filter_upd by reflexivity.
  rewrite (forallb_upd add_children l3 ext_canon_add D6).
  rewrite andb_true_r. repeat (apply andb_true_iff; split); lia.
Qed.

(* GUID-preserving re-rendering keeps the rules *)
Lemma count_raw_core P k ch : count_raw k (map (retag_raw P) (filter nonpad_raw ch)) = count_raw k ch.
Proof.
  rewrite !count_raw_eq. induction ch as [|c ch IH]; [reflexivity|]. cbn [filter].
  unfold nonpad_raw at 1. destruct (is_pad (fst c)) eqn:Ep; cbn [negb].
  - assert (Hk : praw k c = false).
    { unfold praw, tagcls. unfold is_pad in Ep. apply list_eqb_spec in Ep. rewrite Ep. reflexivity. }
    rewrite Hk. exact IH.
  - cbn [map filter]. assert (Hk : praw k (retag_raw P c) = praw k c) by reflexivity. rewrite Hk.
    destruct (praw k c); [rewrite !zlen_cons, IH|exact IH]; reflexivity.
Qed.
Lemma hextfree_core P ch : forallb (fun c => negb (is_hext (fst c))) ch = true ->
  forallb (fun c => negb (is_hext (fst c))) (map (retag_raw P) (filter nonpad_raw ch)) = true.
Proof.
  intros H. apply forallb_forall. intros r Hr. apply in_map_iff in Hr as (c & <- & Hc).
  apply filter_In in Hc as [Hc _]. rewrite forallb_forall in H. exact (H c Hc).
Qed.
Lemma core_canon P l : tree_canon l = true -> tree_canon (map (retag_obj P) (filter nonpad_obj l)) = true.
Proof.
  unfold tree_canon. intros H. apply andb_true_iff in H as [H H6]. apply andb_true_iff in H as [H H5].
  apply andb_true_iff in H as [H H4]. apply andb_true_iff in H as [H H3]. apply andb_true_iff in H as [H1 H2].
  assert (Hc : forall k, count_top k (map (retag_obj P) (filter nonpad_obj l)) = count_top k l).
  { intros k. rewrite !count_top_eq. clear. induction l as [|o l IH]; [reflexivity|].
    destruct o as [g d|fx ch]; cbn [filter nonpad_obj].
    - destruct (is_pad g) eqn:Ep; cbn [negb].
      + assert (Hk : pleaf k (OLeaf g d) = false).
        { cbn [pleaf]. unfold tagcls. unfold is_pad in Ep. apply list_eqb_spec in Ep. rewrite Ep. reflexivity. }
        rewrite Hk. exact IH.
      + cbn [map filter retag_obj]. assert (Hk : pleaf k (OLeaf g (snd (retag_raw P (g, d)))) = pleaf k (OLeaf g d)) by reflexivity.
        rewrite Hk. destruct (pleaf k (OLeaf g d)); [rewrite !zlen_cons, IH|exact IH]; reflexivity.
    - cbn [map filter retag_obj pleaf]. exact IH. }
  assert (He : zlen (filter is_ext (map (retag_obj P) (filter nonpad_obj l))) = zlen (filter is_ext l)).
  { clear. induction l as [|o l IH]; [reflexivity|]. destruct o as [g d|fx ch]; cbn [filter nonpad_obj].
    - destruct (is_pad g); cbn [negb map filter retag_obj is_ext]; exact IH.
    - cbn [map filter retag_obj is_ext]. rewrite !zlen_cons, IH. reflexivity. }
  assert (Hf : forallb ext_canon (map (retag_obj P) (filter nonpad_obj l)) = true).
  { apply forallb_forall. intros o Ho. apply in_map_iff in Ho as (x & <- & Hx). apply filter_In in Hx as [Hx _].
    rewrite forallb_forall in H6. specialize (H6 x Hx). destruct x as [g d|fx ch]; [reflexivity|].
    cbn [retag_obj ext_canon] in *. rewrite !count_raw_core.
    apply andb_true_iff in H6 as [H6 E5]. rewrite H6. apply hextfree_core, E5. }
  rewrite !Hc, He, Hf, H1, H2, H3, H4, H5. reflexivity.
Qed.

Theorem save_tree_canon f objs t cb : tree_canon objs = true -> tree_canon (save_tree f objs t cb) = true.
Proof.
  intros H. unfold save_tree, core_objs.
  pose proof (core_canon (place t) _ (add_missing_canon _ H)) as Hc.
  unfold tree_canon in *. rewrite !count_top_eq in *. rewrite !zlen_filter_app, forallb_app.
  cbn [filter pleaf pad_obj is_ext forallb ext_canon]. change (tagcls G_PAD) with (@None Z). cbn [zlen length Z.of_nat].
  rewrite !Z.add_0_r, andb_true_r. exact Hc.
Qed.

(* the cardinality / level rules survive every save *)
Theorem asf_save_canon f s t cb f' : asf_parse f = Ok s -> asf_canon f = true -> asf_save f t cb = Ok f' -> asf_canon f' = true.
Proof.
  intros Hp Hc H. destruct (asf_save_parse _ _ _ _ H) as (objs & ts & Ho & Hp').
  destruct (open_parse_agree _ _ _ _ Hp Ho) as [-> _].
  unfold asf_canon in *. rewrite Hp in Hc. rewrite Hp'. cbn [sobjs]. apply save_tree_canon, Hc.
Qed.

(* ------------------------------------------------------------------ exactly one object per class *)
Lemma pick_one {A B} (p : A -> bool) (L : list B) l : zlen (filter p l) = 1 ->
  flat_map (fun o => if p o then L else []) l = L.
Proof.
  induction l as [|x l IH]; [discriminate|]. cbn [filter flat_map]. destruct (p x) eqn:E.
  - rewrite zlen_cons. intros H. assert (H0 : zlen (filter p l) = 0) by lia.
    assert (Hn : flat_map (fun o => if p o then L else []) l = []).
    { clear IH H. induction l as [|y l IH]; [reflexivity|]. cbn [filter flat_map] in *. destruct (p y).
      - rewrite zlen_cons in H0. pose proof (zlen_nonneg (filter p l)). lia.
      - apply IH, H0. }
    rewrite Hn. apply app_nil_r.
  - intros H. apply IH, H.
Qed.
Lemma pick_none {A B} (f : A -> list B) l : (forall x, In x l -> f x = []) -> flat_map f l = [].
Proof. induction l as [|x l IH]; intros H; [reflexivity|]. cbn [flat_map]. rewrite H, IH; auto using in_eq, in_cons. Qed.

Definition cls_list (P : placement) (k : Z) : list ltag :=
  if k =? 0 then cd_tags_of (cd_view P) else if k =? 1 then map ecd_tag (p_ecd P)
  else if k =? 2 then map (meta_tag false) (p_m P) else map (meta_tag true) (p_ml P).
Definition of_class (k : Z) (l : list ltag) : list ltag := filter (fun t => t_cls t =? k) l.

Lemma filter_same {A} (p : A -> bool) l : (forall x, In x l -> p x = true) -> filter p l = l.
Proof. induction l as [|x l IH]; intros H; [reflexivity|]. cbn [filter]. rewrite H, IH; auto using in_eq, in_cons. Qed.
Lemma filter_nothing {A} (p : A -> bool) l : (forall x, In x l -> p x = false) -> filter p l = [].
Proof. induction l as [|x l IH]; intros H; [reflexivity|]. cbn [filter]. rewrite H, IH; auto using in_eq, in_cons. Qed.

Lemma cls_list_cls P k tg : 0 <= k <= 3 -> In tg (cls_list P k) -> t_cls tg = k.
Proof.
  intros Hk. unfold cls_list.
  destruct (k =? 0) eqn:E0; [|destruct (k =? 1) eqn:E1; [|destruct (k =? 2) eqn:E2]].
  - intros Hin. unfold cd_tags_of in Hin. apply in_flat_map in Hin as (nt & _ & Hin).
    destruct (snd nt); [destruct Hin as [<-|[]]; cbn; lia|destruct Hin].
  - intros Hin. apply in_map_iff in Hin as (a & <- & _). cbn. lia.
  - intros Hin. apply in_map_iff in Hin as (a & <- & _). cbn. lia.
  - intros Hin. apply in_map_iff in Hin as (a & <- & _). cbn. lia.
Qed.
Lemma exp_raw_cls P c : exp_raw P c = match tagcls (fst c) with Some k => cls_list P k | None => [] end.
Proof. unfold exp_raw, tagcls. destruct (cls_of (fst c)); reflexivity. Qed.
Lemma tagcls_range g k : tagcls g = Some k -> 0 <= k <= 3.
Proof. intros H. destruct (tagcls_G _ _ H) as [[? ?]|[[? ?]|[[? ?]|[? ?]]]]; lia. Qed.
Lemma of_class_exp_raw P j c : of_class j (exp_raw P c) = if praw j c then cls_list P j else [].
Proof.
  rewrite exp_raw_cls. unfold praw, of_class. destruct (tagcls (fst c)) as [k|] eqn:E; [|reflexivity].
  pose proof (tagcls_range _ _ E) as Hk. destruct (k =? j) eqn:Ej.
  - apply Z.eqb_eq in Ej. subst j. apply filter_same. intros tg Hin. rewrite (cls_list_cls P k tg Hk Hin). apply Z.eqb_refl.
  - apply filter_nothing. intros tg Hin. rewrite (cls_list_cls P k tg Hk Hin). exact Ej.
Qed.
Lemma of_class_flat_map {A} j (f : A -> list ltag) l : of_class j (flat_map f l) = flat_map (fun x => of_class j (f x)) l.
Proof.
  unfold of_class. induction l as [|x l IH]; [reflexivity|]. cbn [flat_map]. rewrite filter_app, IH. reflexivity.
Qed.

Lemma filter_zero_all {A} (p : A -> bool) l : zlen (filter p l) = 0 -> forall x, In x l -> p x = false.
Proof.
  induction l as [|y l IH]; intros H x Hx; [destruct Hx|]. cbn [filter] in H. destruct (p y) eqn:E.
  - rewrite zlen_cons in H. pose proof (zlen_nonneg (filter p l)). lia.
  - destruct Hx as [<-|Hx]; [exact E|apply IH; assumption].
Qed.
Lemma flat_map_ext_in {A B} (f g : A -> list B) l : (forall x, In x l -> f x = g x) -> flat_map f l = flat_map g l.
Proof. induction l as [|x l IH]; intros H; [reflexivity|]. cbn [flat_map]. rewrite H, IH; auto using in_eq, in_cons. Qed.

(* per object: what a class-j reading contributes *)
Definition contrib {B} (j : Z) (L : list B) (o : obj) : list B :=
  match o with
  | OLeaf g d => if pleaf j (OLeaf g d) then L else []
  | OExt _ ch => flat_map (fun c => if praw j c then L else []) ch
  end.

Lemma leaf_case {B} j (L : list B) X : zlen (filter (pleaf j) X) = 1 ->
  (forall fx ch, In (OExt fx ch) X -> count_raw j ch = 0) -> flat_map (contrib j L) X = L.
Proof.
  intros H1 He. rewrite <- (pick_one (pleaf j) L X H1) at 2. apply flat_map_ext_in. intros o Ho.
  destruct o as [g d|fx ch]; [reflexivity|]. cbn [contrib pleaf]. apply pick_none. intros c Hc.
  specialize (He fx ch Ho). rewrite count_raw_eq in He. rewrite (filter_zero_all _ _ He c Hc). reflexivity.
Qed.

Fixpoint fecj (j : Z) (l : list obj) : bool :=
  match l with [] => false | OExt _ ch :: _ => existsb (praw j) ch | _ :: r => fecj j r end.
Lemma ext_case {B} j (L : list B) : forall X, (forall g d, In (OLeaf g d) X -> pleaf j (OLeaf g d) = false) ->
  zlen (filter is_ext X) <= 1 -> fecj j X = true ->
  (forall fx ch, In (OExt fx ch) X -> count_raw j ch <= 1) -> flat_map (contrib j L) X = L.
Proof.
  induction X as [|o X IH]; intros Hl He Hf Hc; [discriminate|]. destruct o as [g d|fx ch]; cbn [flat_map].
  - cbn [contrib]. rewrite (Hl g d (in_eq _ _)). cbn [app]. apply IH.
    + intros g' d' Hin. apply Hl. right. exact Hin.
    + exact He.
    + exact Hf.
    + intros fx ch Hin. apply (Hc fx ch). right. exact Hin.
  - cbn [fecj] in Hf. cbn [filter is_ext] in He. rewrite zlen_cons in He.
    pose proof (zlen_nonneg (filter is_ext X)) as Hn. assert (H0 : zlen (filter is_ext X) = 0) by lia.
    assert (Hrest : flat_map (contrib j L) X = []).
    { apply pick_none. intros o Ho. pose proof (filter_zero_all _ _ H0 o Ho) as Hne.
      destruct o as [g d|]; [|discriminate]. cbn [contrib]. rewrite (Hl g d (in_cons _ _ _ Ho)). reflexivity. }
    rewrite Hrest, app_nil_r. cbn [contrib]. apply pick_one.
    pose proof (zlen_filter_some _ _ Hf). specialize (Hc fx ch (in_eq _ _)). rewrite count_raw_eq in Hc. lia.
Qed.
Lemma fec_fecj l : fec l = true -> fecj 2 l = true /\ fecj 3 l = true.
Proof.
  induction l as [|o l IH]; [discriminate|]. destruct o as [g d|fx ch]; cbn [fec fecj]; [exact IH|].
  intros H. apply andb_true_iff in H as [H1 H2].
  rewrite (praw_raw_has 2 G_META) by reflexivity. rewrite (praw_raw_has 3 G_LIB) by reflexivity. auto.
Qed.

(* on a tree that satisfies the rules and has all four objects, exactly one object of each class contributes *)
Lemma canon_contrib {B} (L : list B) j X : 0 <= j <= 3 -> tree_canon X = true -> complete X ->
  flat_map (contrib j L) X = L.
Proof.
  intros Hj Hc (K1 & K2 & K3). unfold tree_canon in Hc.
  apply andb_true_iff in Hc as [Hc H6]. apply andb_true_iff in Hc as [Hc H5].
  apply andb_true_iff in Hc as [Hc H4]. apply andb_true_iff in Hc as [Hc H3]. apply andb_true_iff in Hc as [H1 H2].
  rewrite !count_top_eq in *. rewrite forallb_forall in H6.
  assert (Hext : forall fx ch, In (OExt fx ch) X ->
            count_raw 0 ch = 0 /\ count_raw 1 ch = 0 /\ count_raw 2 ch <= 1 /\ count_raw 3 ch <= 1).
  { intros fx ch Hin. specialize (H6 _ Hin). cbn [ext_canon] in H6.
    apply andb_true_iff in H6 as [H6 _]. apply andb_true_iff in H6 as [H6 E4]. apply andb_true_iff in H6 as [H6 E3].
    apply andb_true_iff in H6 as [E1 E2]. lia. }
  assert (Hj4 : j = 0 \/ j = 1 \/ j = 2 \/ j = 3) by lia.
  destruct (fec_fecj _ K3) as [F2 F3].
  destruct Hj4 as [->|[->|[->| ->]]].
  - apply leaf_case.
    + pose proof (zlen_filter_some (pleaf 0) X) as Hs. rewrite (pleaf_top_has 0 G_CD) in Hs by reflexivity. specialize (Hs K1). lia.
    + intros fx ch Hin. apply (Hext fx ch Hin).
  - apply leaf_case.
    + pose proof (zlen_filter_some (pleaf 1) X) as Hs. rewrite (pleaf_top_has 1 G_ECD) in Hs by reflexivity. specialize (Hs K2). lia.
    + intros fx ch Hin. apply (Hext fx ch Hin).
  - apply ext_case; [|lia|exact F2|intros fx ch Hin; apply (Hext fx ch Hin)].
    intros g d Hin. apply (filter_zero_all (pleaf 2) X); [lia|exact Hin].
  - apply ext_case; [|lia|exact F3|intros fx ch Hin; apply (Hext fx ch Hin)].
    intros g d Hin. apply (filter_zero_all (pleaf 3) X); [lia|exact Hin].
Qed.

Lemma praw_pad j c : is_pad (fst c) = true -> praw j c = false.
Proof. intros Ep. unfold praw, tagcls. unfold is_pad in Ep. apply list_eqb_spec in Ep. rewrite Ep. reflexivity. Qed.

Theorem of_class_tree P j X : 0 <= j <= 3 -> tree_canon X = true -> complete X ->
  of_class j (flat_map (exp_obj P) X) = cls_list P j.
Proof.
  intros Hj Hc Hk. rewrite of_class_flat_map.
  assert (Hcon : forall o, of_class j (exp_obj P o) = contrib j (cls_list P j) o).
  { intros [g d|fx ch]; cbn [exp_obj contrib].
    - rewrite of_class_exp_raw. reflexivity.
    - rewrite of_class_flat_map.
      induction ch as [|c ch IH]; [reflexivity|]. cbn [filter]. unfold nonpad_raw at 1.
      destruct (is_pad (fst c)) eqn:Ep; cbn [negb flat_map].
      + rewrite (praw_pad j c Ep). exact IH.
      + rewrite of_class_exp_raw, IH. reflexivity. }
  rewrite (flat_map_ext _ _ Hcon). apply canon_contrib; assumption.
Qed.

Lemma filter_nonpad_count l : forall p : obj -> bool, (forall g d, is_pad g = true -> p (OLeaf g d) = false) ->
  zlen (filter p (filter nonpad_obj l)) = zlen (filter p l).
Proof.
  intros p Hpad. induction l as [|o l IH]; [reflexivity|].
  destruct o as [g d|fx ch]; cbn [filter nonpad_obj].
  - destruct (is_pad g) eqn:Ep; cbn [negb].
    + rewrite (Hpad g d Ep). exact IH.
    + cbn [filter]. destruct (p (OLeaf g d)); [rewrite !zlen_cons, IH|exact IH]; reflexivity.
  - cbn [filter]. destruct (p (OExt fx ch)); [rewrite !zlen_cons, IH|exact IH]; reflexivity.
Qed.

Lemma saved_canon objs : tree_canon objs = true -> tree_canon (saved_objs objs) = true.
Proof.
  intros Hc. pose proof (add_missing_canon _ Hc) as Ha.
  unfold saved_objs. unfold tree_canon in *. rewrite !count_top_eq in *.
  pose proof (filter_nonpad_count (add_missing objs)) as Hf.
  assert (Hpl : forall k g d, is_pad g = true -> pleaf k (OLeaf g d) = false).
  { intros k g d Ep. cbn [pleaf]. unfold tagcls. unfold is_pad in Ep. apply list_eqb_spec in Ep. rewrite Ep. reflexivity. }
  rewrite !Hf by (try apply Hpl; reflexivity).
  apply andb_true_iff in Ha as [Ha A6]. rewrite Ha. cbn [andb].
  apply forallb_forall. intros o Ho'. apply filter_In in Ho' as [Ho' _]. rewrite forallb_forall in A6. exact (A6 o Ho').
Qed.

(* C01, exact form: on a file that satisfies the cardinality / level rules, the attributes the independent reader finds
   in the saved file, class by class, are exactly the lists of the placement *)
Theorem asf_save_load_exact f s t cb f' : asf_parse f = Ok s -> asf_canon f = true ->
  Forall valid_attr t -> asf_save f t cb = Ok f' ->
  exists loaded, asf_load f' = Ok loaded /\
    let '(c0, c1, c2, c3) := placed_tags (place t) in
    of_class 0 loaded = c0 /\ of_class 1 loaded = c1 /\ of_class 2 loaded = c2 /\ of_class 3 loaded = c3.
Proof.
  intros Hp Hc Hv H. destruct (asf_save_load _ _ _ _ Hv H) as (objs & ts & Ho & Hl).
  destruct (open_parse_agree _ _ _ _ Hp Ho) as [-> _].
  eexists. split; [exact Hl|].
  assert (Hcan : tree_canon (saved_objs (sobjs s)) = true).
  { apply saved_canon. unfold asf_canon in Hc. rewrite Hp in Hc. exact Hc. }
  pose proof (saved_complete (sobjs s)) as Hcomp.
  pose proof (place_cd_text t) as Ht.
  unfold placed_tags.
  rewrite !(of_class_tree (place t)) by (try lia; assumption).
  unfold cls_list. cbn [Z.eqb]. repeat split; try reflexivity. apply cd_tags_sorted, Ht.
Qed.
