(* C15 (b)(c): the statements about OggPage.from_packets derived from the loop invariant *)
From Coq Require Import ZArith List Bool Lia.
Import ListNotations.
Require Import Base.Py Base.ZList Model.Crc Model.Ogg Proofs.C15_lacing Proofs.C15_page Proofs.C15_unpage
  Proofs.C15_paging.
Open Scope Z_scope.

(* forward-reading coherence predicates on a page list (oldest first) *)
Fixpoint seq_from (s : Z) (l : list page) : Prop :=
  match l with [] => True | p :: r => p_sequence p = s /\ seq_from (s + 1) r end.
Fixpoint chain (c : bool) (l : list page) : Prop :=
  match l with [] => True | p :: r => continued p = c /\ chain (negb (p_complete p)) r end.

Lemma seq_from_snoc s l p : seq_from s l -> p_sequence p = s + zlen l -> seq_from s (l ++ [p]).
Proof.
  revert s; induction l as [|q l IH]; intros s H Hp.
  - cbn. split; [rewrite Hp; cbn; lia|exact I].
  - destruct H as (H1 & H2). cbn [app seq_from]. split; [exact H1|]. apply IH; [exact H2|].
    rewrite Hp, zlen_cons. lia.
Qed.
Lemma chain_snoc c l p : chain c l ->
  continued p = match rev l with [] => c | d :: _ => negb (p_complete d) end -> chain c (l ++ [p]).
Proof.
  revert c; induction l as [|q l IH]; intros c H Hp.
  - cbn in *. split; [exact Hp|exact I].
  - destruct H as (H1 & H2). cbn [app chain]. split; [exact H1|]. apply IH; [exact H2|].
    rewrite Hp. cbn [rev]. destruct (rev l) as [|d t]; reflexivity.
Qed.

Lemma tp_ok_seq_from serial seq0 prs : tp_ok serial seq0 prs ->
  seq_from seq0 (rev prs) /\ Forall (fun p => p_serial p = serial) prs.
Proof.
  induction prs as [|p prs IH]; [intros _; split; [exact I|constructor]|].
  intros (H1 & H2 & H3 & H4). destruct (IH H1) as (A & B). split.
  - cbn [rev]. apply seq_from_snoc; [exact A|]. rewrite zlen_rev. exact H3.
  - constructor; assumption.
Qed.
Lemma rlinked_chain prs : rlinked prs -> chain false (rev prs).
Proof.
  induction prs as [|p prs IH]; [intros _; exact I|].
  intros (H1 & H2). cbn [rev]. apply chain_snoc; [apply IH; exact H2|].
  rewrite rev_involutive. exact H1.
Qed.

(* the oldest page of a coherent list *)
Lemma oldest_page serial seq0 prs p0 t : rev prs = p0 :: t -> tp_ok serial seq0 prs -> rlinked prs ->
  p_serial p0 = serial /\ p_sequence p0 = seq0 /\ continued p0 = false.
Proof.
  intros E Htp Hrl. destruct (tp_ok_seq_from serial seq0 prs Htp) as (A & B). pose proof (rlinked_chain prs Hrl) as C.
  rewrite E in A, C. destruct A as (A & _). destruct C as (C & _). split; [|split; assumption].
  rewrite Forall_forall in B. apply B. apply in_rev. rewrite E. left. reflexivity.
Qed.

(* decidable precondition under which every page of from_packets fits the 255 lacing values of the format:
   packets per page <= all packets; bytes per page <= bmax *)
Definition segments_bounded (ps : list (list Z)) (ds wr : Z) : bool :=
  zlen ps + bmax ds wr / 255 <=? 255.

(* what from_packets guarantees for each page it returns, without any bound on the input *)
Definition fp_page_ok (ds wr : Z) (npackets : Z) (p : page) : Prop :=
  p_version p = 0 /\ p_serial p = 0 /\ p_flags p = b2f (continued p) /\ p_packets p <> [] /\
  canonicalb p = true /\
  p_position p = (if negb (p_complete p) && (zlen (p_packets p) =? 1) then -1 else 0) /\
  data_len (p_packets p) <= bmax ds wr /\ zlen (p_packets p) <= npackets.

Theorem from_packets_spec ps seq ds wr : 255 <= ds -> ps <> [] ->
  exists pages,
    from_packets ds wr ps seq = Ok pages /\ to_packets true pages = Ok ps /\ pages <> [] /\
    seq_from seq pages /\ chain false pages /\ p_complete (last pages new_page) = true /\
    Forall (fp_page_ok ds wr (zlen ps)) pages.
Proof.
  intros Hds Hne. unfold from_packets.
  set (init := set_sequence new_page seq).
  assert (HI : inv ds wr seq [] [] init []).
  { split; [|split; [|split; [|split; [|split]]]].
    - cbn [tp_ok]. repeat split; try reflexivity.
      + cbn. lia.
      + intros X. discriminate X.
    - cbn [rlinked]. split; [reflexivity|exact I].
    - repeat split; try reflexivity. cbn [init set_sequence p_packets new_page data_len fold_right].
      unfold bmax. pose proof (cs_ge ds Hds). lia.
    - constructor.
    - intros X; contradiction.
    - reflexivity. }
  destruct (fp_loop_inv ds wr seq Hds ps [] init [] HI) as (pr & cur & E & J & N).
  rewrite E. cbn [app] in J. specialize (N Hne).
  destruct (p_packets cur) eqn:EP; [contradiction|]. rewrite <- EP in *. clear EP.
  destruct J as (J1 & J2 & J3 & J4 & _ & J6). unfold acc_with in J6.
  exists (rev (cur :: pr)). split; [reflexivity|].
  assert (Hlast : forall d, last (rev (cur :: pr)) d = cur) by (intros d; cbn [rev]; apply last_last).
  destruct J3 as (C1 & C2 & C3 & C4 & C5 & C6).
  split; [|split; [|split; [|split; [|split]]]].
  - (* strict to_packets *)
    unfold to_packets. destruct (rev (cur :: pr)) as [|p0 t] eqn:ER.
    { cbn [rev] in ER. destruct (rev pr); discriminate. }
    destruct (oldest_page 0 seq (cur :: pr) p0 t ER J1 J2) as (O1 & O2 & O3).
    rewrite O3, O1, O2, Hlast, C3. cbn [negb]. rewrite <- ER.
    rewrite (tp_loop_racc 0 seq (cur :: pr) J1). cbn [rmap snd]. rewrite J6. reflexivity.
  - cbn [rev]. destruct (rev pr); discriminate.
  - apply (tp_ok_seq_from 0 seq (cur :: pr) J1).
  - apply rlinked_chain. exact J2.
  - rewrite Hlast. exact C3.
  - apply Forall_rev.
    assert (HD : Forall (done_ok ds wr) (cur :: pr)).
    { constructor; [|exact J4]. apply cur_done; [repeat split; assumption|exact N]. }
    pose proof (racc_bounds_pages (cur :: pr)) as HB. rewrite J6 in HB.
    rewrite Forall_forall in *. intros p Hp. specialize (HD p Hp). specialize (HB p Hp). cbn beta in HB.
    destruct HD as (D1 & D2 & D3 & D4 & D5 & D6).
    assert (HS : p_serial p = 0).
    { destruct (tp_ok_seq_from 0 seq (cur :: pr) J1) as (_ & B). rewrite Forall_forall in B. apply B, Hp. }
    repeat split; assumption.
Qed.

(* the empty packet list *)
Lemma from_packets_nil seq ds wr : from_packets ds wr [] seq = Ok [].
Proof. reflexivity. Qed.

(* lacing values of a page from its packet count and data volume *)
Lemma lacing_bound ds wr n p : fp_page_ok ds wr n p -> lacing_count p <= n + bmax ds wr / 255.
Proof.
  intros (_ & _ & _ & _ & _ & _ & B & C).
  pose proof (lacing_count_le_seg_sum p). pose proof (seg_sum_le (p_packets p)).
  assert (data_len (p_packets p) / 255 <= bmax ds wr / 255) by (apply Z.div_le_mono; lia). lia.
Qed.

(* a page of from_packets with few enough lacing values and a 32-bit sequence number is well-formed *)
Lemma fp_page_wf ds wr n p : fp_page_ok ds wr n p -> lacing_count p <= 255 ->
  0 <= p_sequence p < two32 -> page_wf p.
Proof.
  intros (A1 & A2 & A3 & A4 & A5 & A6 & _ & _) L S. repeat split; try assumption.
  unfold header_ok. rewrite A1, A2, A3, A6.
  assert (Hf : (0 <=? b2f (continued p)) && (b2f (continued p) <? 256) = true) by (destruct (continued p); reflexivity).
  assert (Hp : forall b : bool, (- two63 <=? (if b then -1 else 0)) && ((if b then -1 else 0) <? two63) = true)
    by (intros []; reflexivity).
  cbn [andb Z.leb Z.ltb Z.compare].
  apply andb_true_iff in Hf as [Hf1 Hf2]. rewrite Hf1, Hf2. cbn [andb].
  specialize (Hp (negb (p_complete p) && (zlen (p_packets p) =? 1))). apply andb_true_iff in Hp as [Hp1 Hp2].
  rewrite Hp1, Hp2. cbn [andb].
  destruct (0 <=? p_sequence p) eqn:E1; [|lia]. destruct (p_sequence p <? two32) eqn:E2; [|lia]. reflexivity.
Qed.

Lemma seq_from_range s l : seq_from s l -> Forall (fun p => s <= p_sequence p < s + zlen l) l.
Proof.
  revert s; induction l as [|p l IH]; intros s H; [constructor|].
  destruct H as (H1 & H2). rewrite zlen_cons. pose proof (zlen_nonneg l). constructor; [lia|].
  eapply Forall_impl; [|apply IH; exact H2]. cbn beta. intros q Hq. lia.
Qed.

(* (c): under the precondition every page is within the Ogg limits, hence (by page_roundtrip) renders with
   len = size, a correct CRC, and parses back to itself *)
Theorem from_packets_pages_valid ps seq ds wr pages : 255 <= ds -> ps <> [] ->
  segments_bounded ps ds wr = true -> 0 <= seq -> seq + zlen pages <= two32 ->
  from_packets ds wr ps seq = Ok pages ->
  Forall (fun p => lacing_count p <= 255 /\ page_wf p /\
                   forall rest, page_write p = Ok (page_bytes p) /\ zlen (page_bytes p) = page_size p /\
                                crc_field_ok (page_bytes p) /\ page_parse (page_bytes p ++ rest) = Ok (p, rest)) pages.
Proof.
  intros Hds Hne Hsb Hs0 Hs1 E.
  destruct (from_packets_spec ps seq ds wr Hds Hne) as (pages' & E' & _ & _ & S & _ & _ & F).
  rewrite E in E'. inversion E'; subst pages'. clear E'.
  pose proof (seq_from_range seq pages S) as R.
  unfold segments_bounded in Hsb. apply Z.leb_le in Hsb.
  rewrite Forall_forall in *. intros p Hp. specialize (F p Hp). specialize (R p Hp). cbn beta in R.
  pose proof (lacing_bound ds wr (zlen ps) p F) as L.
  assert (L255 : lacing_count p <= 255) by lia.
  assert (W : page_wf p) by (apply (fp_page_wf ds wr (zlen ps) p F L255); lia).
  split; [exact L255|]. split; [exact W|]. intros rest.
  destruct (page_roundtrip p rest W) as (R1 & R2 & _ & R4 & R5). repeat split; assumption.
Qed.
