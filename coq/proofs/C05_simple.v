(* C05 -- fixed-layout little-endian headers: decode (build fields) = the fields, for every field value
   up to the field's bit width. *)
From Coq Require Import ZArith List Bool Lia.
Import ListNotations.
Require Import Base.Py Base.ZList Model.InfoBase Model.InfoSimple Gen.Gen_tables Proofs.C05_bits Proofs.C05_tables.
Open Scope Z_scope.

(* ------------------------------------------------------------------ WavPack *)
Theorem wavpack_header ck version total block_samples bytes_code mono misc_lo rate_idx misc_hi dsd crc :
  0 <= ck < 4294967296 -> 0 <= version < 65536 -> 0 <= total < 4294967295 -> 0 <= block_samples < 4294967296 ->
  0 <= bytes_code <= 3 -> 0 <= mono <= 1 -> 0 <= misc_lo < 1048576 -> 0 <= rate_idx <= 14 -> 0 <= misc_hi < 16 ->
  0 <= dsd <= 1 -> 0 <= crc < 4294967296 ->
  forall rest,
  decode_wavpack (build_wavpack_block ck version total 0 block_samples
                    (wavpack_flags bytes_code mono misc_lo rate_idx misc_hi dsd) crc ++ rest) =
  let rate := nth (Z.to_nat rate_idx) spec_wavpack_rates 0 * (if dsd =? 1 then 4 else 1) in
  Ok [version; (if mono =? 1 then 1 else 2); rate; (if dsd =? 1 then 1 else (bytes_code + 1) * 8); total; rate].
Proof.
  intros Hck Hv Ht Hbs Hbc Hm Hlo Hr Hhi Hd Hcrc rest.
  unfold decode_wavpack.
  rewrite sub_at_0_app by reflexivity.
  unfold build_wavpack_block, ascii_wvpk.
  rewrite if_false by reflexivity.
  remember (wavpack_flags bytes_code mono misc_lo rate_idx misc_hi dsd) as flags eqn:Ef.
  assert (Hfl : 0 <= flags < 4294967296) by (unfold wavpack_flags in Ef; lia).
  layout. decode_encode.
  assert (Hri : (flags / 8388608) mod 16 = rate_idx) by (unfold wavpack_flags in Ef; lia).
  assert (Hmono : (flags / 4) mod 2 = mono) by (unfold wavpack_flags in Ef; lia).
  assert (Hbc' : flags mod 4 = bytes_code) by (unfold wavpack_flags in Ef; lia).
  assert (Hdsd : (flags / 2147483648) mod 2 = dsd) by (unfold wavpack_flags in Ef; lia).
  rewrite Hri, Hmono, Hbc', Hdsd.
  replace gen_wavpack_rates with spec_wavpack_rates by reflexivity.
  rewrite idx_in by (change (zlen spec_wavpack_rates) with 15; lia).
  cbv zeta.
  assert (Hpos : 0 < nth (Z.to_nat rate_idx) spec_wavpack_rates 0).
  { assert (In rate_idx [0;1;2;3;4;5;6;7;8;9;10;11;12;13;14]) as Hin by (cbn [In]; lia).
    cbn [In] in Hin. repeat (destruct Hin as [<-|Hin]; [vm_compute; reflexivity|]). contradiction. }
  remember (nth (Z.to_nat rate_idx) spec_wavpack_rates 0) as r0.
  assert (Hc : (if negb (mono =? 0) then 1 else 2) = (if mono =? 1 then 1 else 2)) by (destruct (mono =? 0) eqn:E1, (mono =? 1) eqn:E2; cbn; lia).
  rewrite Hc.
  rewrite !(if_false (total =? 4294967295)) by lia.
  rewrite (if_false ((total =? -1) || negb (0 =? 0))) by lia.
  destruct (dsd =? 1) eqn:Ed.
  - rewrite !(if_true (negb (dsd =? 0))) by lia.
    rewrite if_false by lia. reflexivity.
  - rewrite !(if_false (negb (dsd =? 0))) by lia.
    rewrite if_false by lia. rewrite Z.mul_1_r. reflexivity.
Qed.

(* sampling-rate index 15 ("non-standard rate, stored elsewhere"): no table row, rejected with WavPackHeaderError *)
Theorem wavpack_rate_index_15 ck version total block_samples bytes_code mono misc_lo misc_hi dsd crc rest :
  0 <= ck < 4294967296 -> 0 <= version < 65536 -> 0 <= total < 4294967296 -> 0 <= block_samples < 4294967296 ->
  0 <= bytes_code <= 3 -> 0 <= mono <= 1 -> 0 <= misc_lo < 1048576 -> 0 <= misc_hi < 16 -> 0 <= dsd <= 1 ->
  0 <= crc < 4294967296 ->
  decode_wavpack (build_wavpack_block ck version total 0 block_samples
                    (wavpack_flags bytes_code mono misc_lo 15 misc_hi dsd) crc ++ rest) = Raise EMutagen.
Proof.
  intros Hck Hv Ht Hbs Hbc Hm Hlo Hhi Hd Hcrc.
  unfold decode_wavpack.
  rewrite sub_at_0_app by reflexivity.
  unfold build_wavpack_block, ascii_wvpk.
  rewrite if_false by reflexivity.
  remember (wavpack_flags bytes_code mono misc_lo 15 misc_hi dsd) as flags eqn:Ef.
  assert (Hfl : 0 <= flags < 4294967296) by (unfold wavpack_flags in Ef; lia).
  layout. decode_encode.
  assert (Hri : (flags / 8388608) mod 16 = 15) by (unfold wavpack_flags in Ef; lia).
  rewrite Hri. reflexivity.
Qed.

(* ------------------------------------------------------------------ DSF *)
Theorem dsf_header total_size meta_ptr channel_type channels rate bits samples block_size data_size :
  0 <= total_size < 18446744073709551616 -> 0 <= meta_ptr < 18446744073709551616 ->
  0 <= channel_type < 4294967296 -> 0 <= channels < 4294967296 -> 1 <= rate < 4294967296 ->
  0 <= bits < 4294967296 -> 0 <= samples < 18446744073709551616 -> 0 <= block_size < 4294967296 ->
  12 <= data_size < 18446744073709551616 ->
  forall rest,
  decode_dsf (build_dsf total_size meta_ptr channel_type channels rate bits samples block_size data_size ++ rest) =
  Ok [channels; rate; bits; rate * bits * channels; samples; rate].
Proof.
  intros H1 H2 H3 H4 H5 H6 H7 H8 H9 rest.
  unfold decode_dsf, build_dsf, ascii_DSD_, ascii_fmt_, ascii_data.
  layout. decode_encode.
  repeat (rewrite if_false by reflexivity).
  rewrite if_false by lia. rewrite if_false by lia. reflexivity.
Qed.

Theorem dsf_rate0 total_size meta_ptr channel_type channels bits samples block_size data_size rest :
  0 <= total_size < 18446744073709551616 -> 0 <= meta_ptr < 18446744073709551616 ->
  0 <= channel_type < 4294967296 -> 0 <= channels < 4294967296 ->
  0 <= bits < 4294967296 -> 0 <= samples < 18446744073709551616 -> 0 <= block_size < 4294967296 ->
  12 <= data_size < 18446744073709551616 ->
  decode_dsf (build_dsf total_size meta_ptr channel_type channels 0 bits samples block_size data_size ++ rest) =
  Raise EZeroDiv.
Proof.
  intros H1 H2 H3 H4 H6 H7 H8 H9.
  unfold decode_dsf, build_dsf, ascii_DSD_, ascii_fmt_, ascii_data.
  layout. decode_encode.
  repeat (rewrite if_false by reflexivity).
  rewrite if_false by lia. reflexivity.
Qed.

(* ------------------------------------------------------------------ TrueAudio *)
Theorem tta_header format channels bits rate samples crc :
  0 <= format < 65536 -> 0 <= channels < 65536 -> 0 <= bits < 65536 -> 0 <= rate < 4294967296 ->
  0 <= samples < 4294967296 -> 0 <= crc < 4294967296 ->
  forall rest,
  decode_tta (build_tta format channels bits rate samples crc ++ rest) =
  Ok (if rate =? 0 then [rate; 0; 1] else [rate; samples; rate]).
Proof.
  intros H1 H2 H3 H4 H5 H6 rest.
  unfold decode_tta, build_tta, ascii_TTA.
  layout. decode_encode.
  rewrite if_false by reflexivity.
  destruct (rate =? 0); reflexivity.
Qed.

(* ------------------------------------------------------------------ Monkey's Audio >= 3.98 *)
Theorem ape_header version seek_bytes wav_bytes audio_bytes compression format_flags bpf ffb frames bits channels rate :
  3980 <= version < 65536 -> 0 <= seek_bytes < 4294967296 -> 0 <= wav_bytes < 4294967296 ->
  0 <= audio_bytes < 4294967296 -> 0 <= compression < 65536 -> 0 <= format_flags < 65536 ->
  0 <= bpf < 4294967296 -> 0 <= ffb < 4294967296 -> 0 <= frames < 4294967296 ->
  0 <= bits < 65536 -> 0 <= channels < 65536 -> 0 <= rate < 4294967296 ->
  forall rest,
  decode_ape (build_ape version seek_bytes wav_bytes audio_bytes compression format_flags bpf ffb frames bits channels rate ++ rest) =
  Ok (if negb (rate =? 0) && (frames >? 0)
      then [version; channels; rate; bits; (frames - 1) * bpf + ffb; rate]
      else [version; channels; rate; bits; 0; 1]).
Proof.
  intros H1 H2 H3 H4 H5 H6 H7 H8 H9 H10 H11 H12 rest.
  unfold decode_ape.
  rewrite sub_at_0_app by reflexivity.
  unfold build_ape, ascii_MAC_.
  rewrite if_false by reflexivity.
  layout. decode_encode.
  rewrite if_true by lia.
  destruct (negb (rate =? 0) && (frames >? 0)); reflexivity.
Qed.

(* the header before 3.98 (no stored WAVE header: bits_per_sample 0) *)
Theorem ape_old_header version compression format_flags channels rate header_bytes terminating_bytes frames ffb :
  0 <= version < 3980 -> 0 <= compression < 65536 -> 0 <= format_flags < 65536 -> 0 <= channels < 65536 ->
  0 <= rate < 4294967296 -> 0 <= header_bytes < 4294967296 -> 0 <= terminating_bytes < 4294967296 ->
  0 <= frames < 4294967296 -> 0 <= ffb < 4294967296 ->
  forall rest,
  decode_ape (build_ape_old version compression format_flags channels rate header_bytes terminating_bytes frames ffb ++ rest) =
  Ok (if negb (rate =? 0) && (frames >? 0)
      then [version; channels; rate; 0; (frames - 1) * spec_ape_old_blocks_per_frame version compression + ffb; rate]
      else [version; channels; rate; 0; 0; 1]).
Proof.
  intros H1 H2 H3 H4 H5 H6 H7 H8 H9 rest.
  unfold decode_ape.
  rewrite sub_at_0_app by reflexivity.
  unfold build_ape_old, ascii_MAC_.
  rewrite if_false by reflexivity.
  layout. decode_encode.
  rewrite if_false by lia.
  unfold spec_ape_old_blocks_per_frame.
  change (73728 * 4) with 294912.
  destruct (negb (rate =? 0) && (frames >? 0)); reflexivity.
Qed.

(* regression (fixed in /repo 66533d3: the level was compared with 4): version 3.85, "extra high" = 4000, 10 frames of 73728 blocks *)
Example ape_old_extra_high_regression :
  build_ape_old 3850 4000 0 2 44100 0 0 10 1000 =
    [77; 65; 67; 32; 10; 15; 160; 15; 0; 0; 2; 0; 68; 172; 0; 0; 0; 0; 0; 0; 0; 0; 0; 0; 10; 0; 0; 0; 232; 3; 0; 0] ++ repeat 0 44%nat /\
  decode_ape (build_ape_old 3850 4000 0 2 44100 0 0 10 1000) = Ok [3850; 2; 44100; 0; 664552; 44100] /\
  decode_ape (build_ape_old 3850 3000 0 2 44100 0 0 10 1000) = Ok [3850; 2; 44100; 0; 83944; 44100] /\
  decode_ape (build_ape_old 3850 4 0 2 44100 0 0 10 1000) = Ok [3850; 2; 44100; 0; 83944; 44100].
Proof. repeat split; vm_compute; reflexivity. Qed.

(* ------------------------------------------------------------------ OptimFROG *)
Theorem ofr_header data_size total sample_type channels rate encoder_id :
  (data_size = 12 \/ 15 <= data_size < 4294967296) -> 0 <= total < 281474976710656 -> 0 <= sample_type <= 7 ->
  1 <= channels <= 256 -> 0 <= rate < 4294967296 -> 0 <= encoder_id < 65536 ->
  forall rest,
  decode_ofr (build_ofr data_size total sample_type channels rate encoder_id ++ rest) =
  Ok [channels; rate; 8 * (sample_type / 2 + 1);
      (if rate =? 0 then 0 else total); (if rate =? 0 then 1 else channels * rate);
      (if data_size >=? 15 then encoder_id / 16 + 4500 else -1)].
Proof.
  intros H1 H2 H3 H4 H5 H6 rest.
  unfold decode_ofr.
  rewrite sub_at_0_app by reflexivity.
  unfold build_ofr, ascii_OFR_.
  rewrite if_false by reflexivity.
  layout. decode_encode.
  rewrite if_false by lia.
  replace gen_optimfrog_bits with spec_optimfrog_bits by reflexivity.
  assert (Hb : match assoc_z sample_type spec_optimfrog_bits with Some b => b | None => -1 end = 8 * (sample_type / 2 + 1)).
  { assert (In sample_type [0;1;2;3;4;5;6;7]) as Hin by (cbn [In]; lia).
    cbn [In] in Hin. repeat (destruct Hin as [<-|Hin]; [vm_compute; reflexivity|]). contradiction. }
  rewrite Hb.
  assert (Ht : total mod 256 + 256 * ((total / 256) mod 256 + 256 * ((total / 256 / 256) mod 256 + 256 * ((total / 256 / 256 / 256) mod 256 + 256 * 0))) +
               total / 256 / 256 / 256 / 256 * 4294967296 = total) by lia.
  rewrite Ht.
  replace (channels - 1 + 1) with channels by lia.
  destruct (rate =? 0); cbn [negb]; reflexivity.
Qed.

Theorem ofr_bad_size data_size total sample_type channels rate encoder_id rest :
  0 <= data_size < 15 -> data_size <> 12 -> 0 <= total < 281474976710656 -> 0 <= sample_type <= 7 ->
  1 <= channels <= 256 -> 0 <= rate < 4294967296 -> 0 <= encoder_id < 65536 ->
  decode_ofr (build_ofr data_size total sample_type channels rate encoder_id ++ rest) = Raise EMutagen.
Proof.
  intros H1 H1' H2 H3 H4 H5 H6.
  unfold decode_ofr.
  rewrite sub_at_0_app by reflexivity.
  unfold build_ofr, ascii_OFR_.
  rewrite if_false by reflexivity.
  layout. decode_encode.
  rewrite if_true by lia. reflexivity.
Qed.

(* ------------------------------------------------------------------ Musepack SV7 *)
Theorem mpc7_header minor frames max_level rate_idx link profile max_band ms is_ tp tg ap ag tail :
  0 <= minor < 16 -> 0 <= frames < 4294967296 -> 0 <= max_level < 65536 -> 0 <= rate_idx <= 3 -> 0 <= link <= 3 ->
  0 <= profile < 16 -> 0 <= max_band < 64 -> 0 <= ms <= 1 -> 0 <= is_ <= 1 ->
  0 <= tp < 65536 -> -32768 <= tg < 32768 -> 0 <= ap < 65536 -> -32768 <= ag < 32768 -> length tail = 12%nat ->
  forall rest,
  decode_mpc_sv467 (build_mpc7 minor frames (mpc7_flags max_level rate_idx link profile max_band ms is_) tp tg ap ag tail ++ rest) =
  let rate := nth (Z.to_nat rate_idx) spec_musepack_rates 0 in
  Ok [7; 2; rate; frames * 1152 - 576; rate; 0; tp; tg; ap; ag].
Proof.
  intros H1 H2 H3 H4 H5 H6 H7 H8 H9 H10 H11 H12 H13 Htail rest.
  do 12 (destruct tail as [|? tail]; [discriminate|]). destruct tail; [|discriminate]. clear Htail.
  unfold decode_mpc_sv467.
  rewrite sub_at_0_app by reflexivity.
  unfold build_mpc7, ascii_MPplus.
  rewrite if_false by reflexivity. rewrite if_true by reflexivity.
  remember (mpc7_flags max_level rate_idx link profile max_band ms is_) as flags eqn:Ef.
  assert (Hfl : 0 <= flags < 4294967296) by (unfold mpc7_flags in Ef; lia).
  assert (Htg : 0 <= of_signed 65536 tg < 65536) by (unfold of_signed; destruct (tg <? 0) eqn:E; lia).
  assert (Hag : 0 <= of_signed 65536 ag < 65536) by (unfold of_signed; destruct (ag <? 0) eqn:E; lia).
  layout. decode_encode.
  assert (Hv : (7 + 16 * minor) mod 16 = 7) by lia. rewrite Hv.
  rewrite if_false by lia.
  assert (Hri : (flags / 65536) mod 4 = rate_idx) by (unfold mpc7_flags in Ef; lia). rewrite Hri.
  replace gen_musepack_rates with spec_musepack_rates by reflexivity.
  rewrite idx_in by (change (zlen spec_musepack_rates) with 4; lia).
  cbv zeta.
  assert (Hpos : 0 < nth (Z.to_nat rate_idx) spec_musepack_rates 0).
  { assert (In rate_idx [0;1;2;3]) as Hin by (cbn [In]; lia).
    cbn [In] in Hin. repeat (destruct Hin as [<-|Hin]; [vm_compute; reflexivity|]). contradiction. }
  rewrite if_false by lia.
  assert (Hs1 : to_signed 65536 (of_signed 65536 tg) = tg).
  { unfold to_signed, of_signed. destruct (tg <? 0) eqn:E; [rewrite if_true by lia | rewrite if_false by lia]; lia. }
  assert (Hs2 : to_signed 65536 (of_signed 65536 ag) = ag).
  { unfold to_signed, of_signed. destruct (ag <? 0) eqn:E; [rewrite if_true by lia | rewrite if_false by lia]; lia. }
  rewrite Hs1, Hs2. reflexivity.
Qed.
