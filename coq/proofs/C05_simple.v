(* C05 -- fixed-layout little-endian headers: decode (build fields) = the fields, for every field value
   up to the field's bit width. *)
From Coq Require Import ZArith List Bool Lia.
Import ListNotations.
Require Import Base.Py Base.ZList Model.InfoBase Model.InfoSimple Gen.Gen_tables Proofs.C05_bits.
Open Scope Z_scope.

(* ------------------------------------------------------------------ tables *)
Theorem wavpack_table_matches_spec : list_diff gen_wavpack_rates spec_wavpack_rates = [].
Proof. vm_compute. reflexivity. Qed.
Theorem musepack_table_matches_spec : list_diff gen_musepack_rates spec_musepack_rates = [].
Proof. vm_compute. reflexivity. Qed.
Theorem optimfrog_table_matches_spec :
  list_diff (map fst gen_optimfrog_bits) (map fst spec_optimfrog_bits) = [] /\
  list_diff (map snd gen_optimfrog_bits) (map snd spec_optimfrog_bits) = [].
Proof. split; vm_compute; reflexivity. Qed.

(* ------------------------------------------------------------------ WavPack *)
Theorem wavpack_header ck version total block_samples bytes_code mono misc_lo rate_idx misc_hi dsd crc :
  0 <= ck < 4294967296 -> 0 <= version < 65536 -> 0 <= total < 4294967295 -> 0 <= block_samples < 4294967296 ->
  0 <= bytes_code <= 3 -> 0 <= mono <= 1 -> 0 <= misc_lo < 1048576 -> 0 <= rate_idx <= 14 -> 0 <= misc_hi < 16 ->
  0 <= dsd <= 1 -> 0 <= crc < 4294967296 ->
  forall rest,
  decode_wavpack (build_wavpack_block ck version total 0 block_samples
                    (wavpack_flags bytes_code mono misc_lo rate_idx misc_hi dsd) crc ++ rest) =
  let rate := nth (Z.to_nat rate_idx) spec_wavpack_rates 0 * (if dsd =? 1 then 4 else 1) in
  Ok [version; (if mono =? 1 then 1 else 2); rate; (if dsd =? 1 then 1 else (bytes_code + 1) * 8); total; rate].
Proof.
  intros Hck Hv Ht Hbs Hbc Hm Hlo Hr Hhi Hd Hcrc rest.
  unfold decode_wavpack.
  rewrite sub_at_0_app by reflexivity.
  unfold build_wavpack_block, ascii_wvpk.
  rewrite if_false by reflexivity.
  remember (wavpack_flags bytes_code mono misc_lo rate_idx misc_hi dsd) as flags eqn:Ef.
  assert (Hfl : 0 <= flags < 4294967296) by (unfold wavpack_flags in Ef; lia).
  layout. decode_encode.
  assert (Hri : (flags / 8388608) mod 16 = rate_idx) by (unfold wavpack_flags in Ef; lia).
  assert (Hmono : (flags / 4) mod 2 = mono) by (unfold wavpack_flags in Ef; lia).
  assert (Hbc' : flags mod 4 = bytes_code) by (unfold wavpack_flags in Ef; lia).
  assert (Hdsd : (flags / 2147483648) mod 2 = dsd) by (unfold wavpack_flags in Ef; lia).
  rewrite Hri, Hmono, Hbc', Hdsd.
  replace gen_wavpack_rates with spec_wavpack_rates by reflexivity.
  rewrite idx_in by (change (zlen spec_wavpack_rates) with 15; lia).
  cbv zeta.
  assert (Hpos : 0 < nth (Z.to_nat rate_idx) spec_wavpack_rates 0).
  { assert (In rate_idx [0;1;2;3;4;5;6;7;8;9;10;11;12;13;14]) as Hin by (cbn [In]; lia).
    cbn [In] in Hin. repeat (destruct Hin as [<-|Hin]; [vm_compute; reflexivity|]). contradiction. }
  remember (nth (Z.to_nat rate_idx) spec_wavpack_rates 0) as r0.
  assert (Hc : (if negb (mono =? 0) then 1 else 2) = (if mono =? 1 then 1 else 2)) by (destruct (mono =? 0) eqn:E1, (mono =? 1) eqn:E2; cbn; lia).
  rewrite Hc.
  destruct (dsd =? 1) eqn:Ed.
  - rewrite (if_true (negb (dsd =? 0))) by lia.
    guards. rewrite if_false by lia. reflexivity.
