(* Ogg family: the new pages (from_packets / _from_packets_try_preserve) after the edits of replace() --
   coherence along the stream (ogg_inner), version, canonical `complete` *)
From Coq Require Import ZArith List Bool Lia.
Import ListNotations.
Require Import Base.Py Base.ZList Model.Crc Model.Ogg Model.Fam_flac Model.Fam_ogg.
Require Import Proofs.C15_lacing Proofs.C15_page Proofs.C15_unpage Proofs.C15_paging Proofs.C15_from_packets Proofs.C15_file
  Proofs.C15_replace Proofs.Fam_ogg_scan Proofs.Fam_ogg_locate Proofs.Fam_ogg_replace Proofs.Fam_ogg_stream.
Open Scope Z_scope.

(* ---- the two edit functions of replace() ------------------------------------------------------------- *)
Definition ogg_gh (old0 p : page) : page := set_continued (continued old0) (set_first (first old0) p).
Definition ogg_gl (oldl p : page) : page :=
  let p := set_complete (set_last (last_flag oldl) p) (p_complete oldl) in
  if negb (p_complete p) && (zlen (p_packets p) =? 1) then set_position p (-1) else p.
Definition ogg_nm (s q : Z) (p : page) : page := set_serial (set_sequence p q) s.

Lemma prepare_new_eq old0 oldl news :
  prepare_new old0 oldl news =
  map_last (ogg_gl oldl) (map_head (ogg_gh old0) (number_from (p_serial old0) (p_sequence old0) news)).
Proof. reflexivity. Qed.

Lemma gh_flags old0 p : first (ogg_gh old0 p) = first old0 /\ continued (ogg_gh old0 p) = continued old0 /\
  last_flag (ogg_gh old0 p) = last_flag p.
Proof.
  unfold ogg_gh, first, continued, last_flag, set_continued, set_first. rewrite !test_set_flag by lia.
  repeat split; reflexivity.
Qed.
Lemma gl_flags oldl p : first (ogg_gl oldl p) = first p /\ continued (ogg_gl oldl p) = continued p /\
  last_flag (ogg_gl oldl p) = last_flag oldl /\ p_complete (ogg_gl oldl p) = p_complete oldl.
Proof.
  unfold ogg_gl. cbv zeta.
  assert (X : forall q, q = set_complete (set_last (last_flag oldl) p) (p_complete oldl) ->
              first q = first p /\ continued q = continued p /\ last_flag q = last_flag oldl /\ p_complete q = p_complete oldl).
  { intros q ->. unfold first, continued, last_flag, set_last.
    change (test_flag 1 (set_complete (set_flag 2 (test_flag 2 oldl) p) (p_complete oldl)))
      with (test_flag 1 (set_flag 2 (test_flag 2 oldl) p)).
    change (test_flag 0 (set_complete (set_flag 2 (test_flag 2 oldl) p) (p_complete oldl)))
      with (test_flag 0 (set_flag 2 (test_flag 2 oldl) p)).
    change (test_flag 2 (set_complete (set_flag 2 (test_flag 2 oldl) p) (p_complete oldl)))
      with (test_flag 2 (set_flag 2 (test_flag 2 oldl) p)).
    rewrite !test_set_flag by lia. repeat split; reflexivity. }
  destruct (negb _ && _); exact (X _ eq_refl).
Qed.
Lemma gl_keeps oldl p : p_sequence (ogg_gl oldl p) = p_sequence p /\ p_serial (ogg_gl oldl p) = p_serial p /\
  p_packets (ogg_gl oldl p) = p_packets p /\ p_version (ogg_gl oldl p) = p_version p.
Proof. unfold ogg_gl. cbv zeta. destruct (negb _ && _); repeat split; reflexivity. Qed.
Lemma gl_granule oldl p : ogg_f_granule_ok (ogg_gl oldl p) = true.
Proof.
  unfold ogg_gl. cbv zeta.
  destruct (negb (p_complete (set_complete (set_last (last_flag oldl) p) (p_complete oldl))) &&
            (zlen (p_packets (set_complete (set_last (last_flag oldl) p) (p_complete oldl))) =? 1)) eqn:E.
  - unfold ogg_f_granule_ok. cbn [p_complete p_packets p_position set_position set_complete] in *. rewrite E. reflexivity.
  - unfold ogg_f_granule_ok. rewrite E. reflexivity.
Qed.
Lemma gh_granule old0 p : ogg_f_granule_ok (ogg_gh old0 p) = ogg_f_granule_ok p.
Proof. reflexivity. Qed.

(* ---- coherence of the new pages before the edits ------------------------------------------------------ *)
(* no first/last flags, continued = the predecessor is incomplete, granule rule *)
Fixpoint ogg_coh (o : bool) (l : list page) : Prop :=
  match l with
  | [] => True
  | p :: r => first p = false /\ last_flag p = false /\ continued p = o /\ ogg_f_granule_ok p = true /\
              ogg_coh (negb (p_complete p)) r
  end.

Lemma walk_numbered oldl s t : forall q o, ogg_coh o t -> t <> [] ->
  ogg_f_walk true q o false (map_last (ogg_gl oldl) (number_from s q t)) = true.
Proof.
  induction t as [|x t' IH]; intros q o H Hne; [contradiction|].
  destruct H as (H1 & H2 & H3 & H4 & H5). cbn [number_from]. fold (ogg_nm s q x).
  destruct t' as [|y t''].
  - cbn [number_from map_last]. rewrite walk_cons. unfold ogg_inner. cbn [ogg_f_walk]. rewrite andb_true_r.
    unfold ogg_head_ok. destruct (gl_flags oldl (ogg_nm s q x)) as (F1 & F2 & _). destruct (gl_keeps oldl (ogg_nm s q x)) as (K1 & _).
    rewrite F1, F2, K1, gl_granule. change (first (ogg_nm s q x)) with (first x). change (continued (ogg_nm s q x)) with (continued x).
    cbn [ogg_nm p_sequence set_serial set_sequence]. rewrite Z.eqb_refl, H1, H3. destruct o; reflexivity.
  - rewrite map_last_cons by (cbn [number_from]; discriminate). rewrite walk_cons. apply andb_true_iff. split.
    + unfold ogg_head_ok. change (first (ogg_nm s q x)) with (first x). change (continued (ogg_nm s q x)) with (continued x).
      change (ogg_f_granule_ok (ogg_nm s q x)) with (ogg_f_granule_ok x).
      cbn [ogg_nm p_sequence set_serial set_sequence]. rewrite Z.eqb_refl, H1, H3, H4. destruct o; reflexivity.
    + unfold ogg_inner. change (last_flag (ogg_nm s q x)) with (last_flag x). rewrite H2.
      cbn [ogg_nm p_sequence set_serial set_sequence p_complete]. apply IH; [exact H5|discriminate].
Qed.

(* coherent new pages stay coherent under the edits: the head passes the granule rule and the rest walks *)
Lemma prepared_inner old0 oldl news o : ogg_coh o news -> news <> [] ->
  exists n0 nr, prepare_new old0 oldl news = n0 :: nr /\ ogg_f_granule_ok n0 = true /\ ogg_inner n0 nr = true.
Proof.
  intros H Hne. rewrite prepare_new_eq. destruct news as [|h t]; [contradiction|].
  destruct H as (H1 & H2 & H3 & H4 & H5). cbn [number_from map_head]. fold (ogg_nm (p_serial old0) (p_sequence old0) h).
  set (h' := ogg_nm (p_serial old0) (p_sequence old0) h). destruct t as [|y t'].
  - cbn [number_from map_last]. exists (ogg_gl oldl (ogg_gh old0 h')), []. split; [reflexivity|]. split; [apply gl_granule|reflexivity].
  - rewrite map_last_cons by (cbn [number_from]; discriminate).
    exists (ogg_gh old0 h'), (map_last (ogg_gl oldl) (number_from (p_serial old0) (p_sequence old0 + 1) (y :: t'))).
    split; [reflexivity|]. split; [rewrite gh_granule; exact H4|].
    unfold ogg_inner. destruct (gh_flags old0 h') as (_ & _ & F3). rewrite F3.
    change (last_flag h') with (last_flag h). rewrite H2.
    change (p_sequence (ogg_gh old0 h')) with (p_sequence old0). change (p_complete (ogg_gh old0 h')) with (p_complete h).
    apply walk_numbered; [exact H5|discriminate].
Qed.

(* ---- from_packets gives coherent pages ---------------------------------------------------------------- *)
Lemma b2f_flags p : p_flags p = b2f (continued p) -> first p = false /\ last_flag p = false.
Proof.
  intros H. unfold first, last_flag, test_flag. rewrite H. destruct (continued p); split; reflexivity.
Qed.
Lemma fp_granule ds wr n p : fp_page_ok ds wr n p -> ogg_f_granule_ok p = true.
Proof.
  intros (_ & _ & _ & _ & _ & P & _). unfold ogg_f_granule_ok. rewrite P.
  destruct (negb (p_complete p) && (zlen (p_packets p) =? 1)); reflexivity.
Qed.
Lemma fp_coh ds wr n l : forall c, chain c l -> Forall (fp_page_ok ds wr n) l -> ogg_coh c l.
Proof.
  induction l as [|p r IH]; intros c Hc HF; [exact I|]. destruct Hc as (C1 & C2). inversion HF as [|? ? Fp Fr]; subst.
  pose proof Fp as (_ & _ & Ff & _). destruct (b2f_flags p Ff) as (A & B).
  repeat split; try assumption; [exact (fp_granule _ _ _ _ Fp)|exact (IH _ C2 Fr)].
Qed.

(* ---- pages that copy the layout of old pages ---------------------------------------------------------- *)
Definition ogg_like (o n : page) : Prop :=
  p_version n = 0 /\ p_flags n = b2f (continued o) /\ p_complete n = p_complete o /\ p_position n = p_position o /\
  map (@zlen Z) (p_packets n) = map (@zlen Z) (p_packets o).

Lemma continued_b2f p c : p_flags p = b2f c -> continued p = c.
Proof. intros H. unfold continued, test_flag. rewrite H. destruct c; reflexivity. Qed.

Lemma like_granule o n : ogg_like o n -> ogg_f_granule_ok n = ogg_f_granule_ok o.
Proof.
  intros (_ & _ & C & P & L). unfold ogg_f_granule_ok. rewrite C, P.
  assert (zlen (p_packets n) = zlen (p_packets o)) as ->; [|reflexivity].
  rewrite <- (zlen_map (@zlen Z) (p_packets n)), <- (zlen_map (@zlen Z) (p_packets o)), L. reflexivity.
Qed.

Lemma like_coh olds : forall news seq o e, Forall2 ogg_like olds news ->
  ogg_f_walk true seq o e olds = true -> ogg_coh o news.
Proof.
  induction olds as [|m mr IH]; intros news seq o e HF HW; inversion HF as [|? n ? nr Hl Hr]; subst; [exact I|].
  rewrite walk_cons in HW. apply andb_true_iff in HW as [W1 W2]. unfold ogg_head_ok in W1.
  apply andb_true_iff in W1 as [W1 Wg]. apply andb_true_iff in W1 as [W1 Wc]. apply eqb_prop in Wc.
  pose proof Hl as (_ & Ff & Cc & _). pose proof (continued_b2f n _ Ff) as Cn.
  assert (Ff' : p_flags n = b2f (continued n)) by (rewrite Cn; exact Ff).
  destruct (b2f_flags n Ff') as (A & B).
  repeat split; try assumption; [rewrite Cn; exact Wc|rewrite (like_granule m n Hl); exact Wg|].
  rewrite Cc. unfold ogg_inner in W2. exact (IH _ _ _ _ Hr W2).
Qed.

(* the same when the old head is the first page of its stream (its own first flag plays no role) *)
Lemma like_coh_head m mr news : Forall2 ogg_like (m :: mr) news ->
  ogg_inner m mr = true -> ogg_f_granule_ok m = true -> ogg_coh (continued m) news.
Proof.
  intros HF Hi Hg. inversion HF as [|? n ? nr Hl Hr]; subst.
  pose proof Hl as (_ & Ff & Cc & _). pose proof (continued_b2f n _ Ff) as Cn.
  assert (Ff' : p_flags n = b2f (continued n)) by (rewrite Cn; exact Ff).
  destruct (b2f_flags n Ff') as (A & B).
  repeat split; try assumption; [rewrite (like_granule m n Hl); exact Hg|].
  rewrite Cc. unfold ogg_inner in Hi. exact (like_coh _ _ _ _ _ Hr Hi).
Qed.
