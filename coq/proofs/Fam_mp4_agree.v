(* "agree g a h b n": the n bytes of g at a are the n bytes of h at b (both inside their files).
   The currency in which the MP4 surgery is tracked through splice and the patch folds. *)
From Coq Require Import ZArith List Bool Lia.
Import ListNotations.
Require Import Base.Py Base.ZList Model.Splice Model.Fam_mp4 Proofs.Splice_lemmas Proofs.Fam_mp4_bytes Proofs.Fam_mp4_steps.
Open Scope Z_scope.

Definition agree (g : list Z) (a : Z) (h : list Z) (b n : Z) : Prop :=
  0 <= a /\ 0 <= b /\ a + n <= zlen g /\ b + n <= zlen h /\
  forall i, 0 <= i < n -> znth (a + i) g = znth (b + i) h.

Lemma agree_refl g a n : 0 <= a -> a + n <= zlen g -> agree g a g a n.
Proof. unfold agree; intros; repeat split; auto. Qed.
Lemma agree_sym g a h b n : agree g a h b n -> agree h b g a n.
Proof. unfold agree; intros (H1 & H2 & H3 & H4 & H5); repeat split; auto. intros; symmetry; auto. Qed.
Lemma agree_trans g a h b k c n : agree g a h b n -> agree h b k c n -> agree g a k c n.
Proof.
  unfold agree; intros (H1 & H2 & H3 & H4 & H5) (K1 & K2 & K3 & K4 & K5); repeat split; auto.
  intros i Hi. rewrite H5 by lia. apply K5; lia.
Qed.
Lemma agree_sub g a h b n k m : agree g a h b n -> 0 <= k -> 0 <= m -> k + m <= n -> agree g (a + k) h (b + k) m.
Proof.
  unfold agree; intros (H1 & H2 & H3 & H4 & H5) Hk Hm Hkm; repeat split; try lia.
  intros i Hi. replace (a + k + i) with (a + (k + i)) by lia. replace (b + k + i) with (b + (k + i)) by lia.
  apply H5; lia.
Qed.
Lemma agree_prefix g a h b n m : agree g a h b n -> 0 <= m <= n -> agree g a h b m.
Proof.
  unfold agree; intros (H1 & H2 & H3 & H4 & H5) Hm; repeat split; try lia. intros i Hi. apply H5; lia.
Qed.
Lemma agree_rd g a h b n k m : agree g a h b n -> 0 <= k -> 0 <= m -> k + m <= n ->
  mp4_rd g (a + k) m = mp4_rd h (b + k) m.
Proof.
  intros H Hk Hm Hkm. destruct (agree_sub _ _ _ _ _ k m H Hk Hm Hkm) as (H1 & H2 & H3 & H4 & H5).
  apply rd_ext; auto.
Qed.
Lemma agree_rd0 g a h b n m : agree g a h b n -> 0 <= m <= n -> mp4_rd g a m = mp4_rd h b m.
Proof.
  intros H Hm. pose proof (agree_rd _ _ _ _ _ 0 m H) as E. rewrite !Z.add_0_r in E. apply E; lia.
Qed.
Lemma agree_of_rd g a h b n : 0 <= a -> 0 <= b -> 0 <= n -> a + n <= zlen g -> b + n <= zlen h ->
  mp4_rd g a n = mp4_rd h b n -> agree g a h b n.
Proof.
  intros Ha Hb Hn Hg Hh E. repeat split; auto. intros i Hi. eapply rd_pointwise; eauto.
Qed.

Lemma agree_app_l (l1 l2 : list Z) a n : 0 <= a -> 0 <= n -> a + n <= zlen l1 -> agree l1 a (l1 ++ l2) a n.
Proof.
  intros Ha Hn Hf. pose proof (zlen_nonneg l2). repeat split; try lia. { rewrite zlen_app. lia. }
  intros i Hi. rewrite znth_app by lia. destruct (a + i <? zlen l1) eqn:E; [reflexivity|lia].
Qed.
Lemma agree_app_r (l1 l2 : list Z) : agree l2 0 (l1 ++ l2) (zlen l1) (zlen l2).
Proof.
  pose proof (zlen_nonneg l1). pose proof (zlen_nonneg l2). repeat split; try lia. { rewrite zlen_app. lia. }
  intros i Hi. rewrite znth_app by lia. destruct (zlen l1 + i <? zlen l1) eqn:E; [lia|]. f_equal. lia.
Qed.

(* a step that only writes inside [lo, hi) leaves every interval outside untouched *)
Lemma agree_frame lo hi g g' a n : frame_in lo hi g g' -> 0 <= a -> a + n <= zlen g -> a + n <= lo \/ hi <= a ->
  agree g a g' a n.
Proof.
  intros (L & F) Ha Hn Hd. repeat split; try lia. intros i Hi. symmetry. apply F; lia.
Qed.

(* splice *)
Lemma agree_splice_before f off old data a n : 0 <= off -> 0 <= old -> off + old <= zlen f -> 0 <= a -> a + n <= off ->
  agree f a (splice f off old data) a n.
Proof.
  intros. pose proof (zlen_nonneg data). repeat split; try lia.
  - rewrite splice_len by lia. lia.
  - intros i Hi. symmetry. apply znth_splice_before; lia.
Qed.
Lemma agree_splice_after f off old data a n : 0 <= off -> 0 <= old -> off + old <= zlen f -> off + old <= a -> a + n <= zlen f ->
  agree f a (splice f off old data) (a + (zlen data - old)) n.
Proof.
  intros. pose proof (zlen_nonneg data). repeat split; try lia.
  - rewrite splice_len by lia. lia.
  - intros i Hi. symmetry. replace (a + (zlen data - old) + i) with (a + i + (zlen data - old)) by lia.
    apply znth_splice_after; lia.
Qed.
Lemma agree_splice_in f off old data : 0 <= off -> 0 <= old -> off + old <= zlen f ->
  agree data 0 (splice f off old data) off (zlen data).
Proof.
  intros. pose proof (zlen_nonneg data). repeat split; try lia.
  - rewrite splice_len by lia. lia.
  - intros i Hi. symmetry. cbn [Z.add]. apply znth_splice_in; lia.
Qed.

(* reading a table / a tfhd through an agreement *)
Lemma tab_entries_agree w g a h b n :
  agree g a h b n -> 0 <= be_decode (mp4_rd g (a + 12) 4) -> 16 + Z.of_nat w * be_decode (mp4_rd g (a + 12) 4) <= n ->
  tab_entries w g a = tab_entries w h b /\ mp4_rd g (a + 12) 4 = mp4_rd h (b + 12) 4.
Proof.
  intros H Hc Hn. assert (Hw : 0 <= Z.of_nat w * be_decode (mp4_rd g (a + 12) 4)) by nia.
  assert (E : mp4_rd g (a + 12) 4 = mp4_rd h (b + 12) 4) by (apply (agree_rd _ _ _ _ _ 12 4 H); lia).
  split; [|exact E]. unfold tab_entries. rewrite <- E. f_equal.
  apply (agree_rd _ _ _ _ _ 16 _ H); lia.
Qed.
Lemma tfhd_agree g a h b n : agree g a h b n -> 24 <= n ->
  tfhd_flag g a = tfhd_flag h b /\ tfhd_base g a = tfhd_base h b.
Proof.
  intros H Hn. unfold tfhd_flag, tfhd_base.
  rewrite (agree_rd _ _ _ _ _ 9 3 H) by lia. rewrite (agree_rd _ _ _ _ _ 16 8 H) by lia. auto.
Qed.
Lemma tfhd_flag_agree g a h b n : agree g a h b n -> 12 <= n -> tfhd_flag g a = tfhd_flag h b.
Proof. intros H Hn. unfold tfhd_flag. rewrite (agree_rd _ _ _ _ _ 9 3 H) by lia. auto. Qed.
